package main

// Generators "C12" (PTN files: render/parse, Iterator, PositionAtMove) and "C13ptn"
// (totality of ParsePTN / InitialPosition / replay, chat lines, weights JSON on malformed input).

import (
	"bytes"
	"encoding/json"
	"fmt"
	"os"
	"path/filepath"
	"strconv"
	"strings"
	"time"

	"github.com/nelhage/taktician/ai"
	"github.com/nelhage/taktician/ptn"
	"github.com/nelhage/taktician/tak"
)

var bom = []byte{0xEF, 0xBB, 0xBF}

var resultPool = []string{"R-0", "0-R", "F-0", "0-F", "1-0", "0-1", "1/2-1/2", "0-0", "1-1", "R-R", "F-R", "1/2-0", "0-1/2", "1-F"}

// bytes for comments / tag values: ordinary text, PTN meta characters, Latin-1 spaces, non-ASCII
var textPool = []byte("abcXYZ019 ,;:-_+<>()*?!'./\\{[\n\t\r\v\f a1 Sb2 3c3> 1. 2. R-0")
var oddPool = []byte{0x85, 0xA0, 0xC3, 0xA9, 0xE2, 0x80, 0xFF, 0x00, 0xEF, 0xBB, 0xBF, '"', ']', '}'}

func randText(r *RNG, maxLen int, unsafe string) []byte {
	n := r.Intn(maxLen + 1)
	out := make([]byte, 0, n)
	for i := 0; i < n; i++ {
		var b byte
		if r.Chance(1, 6) {
			b = oddPool[r.Intn(len(oddPool))]
		} else {
			b = textPool[r.Intn(len(textPool))]
		}
		if strings.IndexByte(unsafe, b) >= 0 {
			continue
		}
		out = append(out, b)
	}
	return out
}

type genGame struct {
	p        *ptn.PTN
	safe     bool // built inside the RenderSafe fragment
	maxNum   int
	nmoves   int
	features []string
}

// winningMove returns a legal move that ends the game, if any.
func winningMove(p *tak.Position, ms []tak.Move) (tak.Move, bool) {
	for _, m := range ms {
		n, err := p.Move(m)
		if err == nil {
			if over, _ := n.GameOver(); over {
				return m, true
			}
		}
	}
	return tak.Move{}, false
}

func illegalMoveAt(r *RNG, p *tak.Position) tak.Move {
	n := p.Size()
	switch r.Intn(4) {
	case 0: // place on an occupied square, or slide from an empty one
		for tries := 0; tries < 50; tries++ {
			x, y := r.Intn(n), r.Intn(n)
			if len(p.At(x, y)) > 0 {
				return tak.Move{X: int8(x), Y: int8(y), Type: tak.PlaceFlat}
			}
		}
		return tak.Move{X: 0, Y: 0, Type: tak.SlideRight, Slides: tak.MkSlides(1)}
	case 1: // off the board for this size (still a well-formed PTN move)
		return tak.Move{X: int8(n + r.Intn(8-n+1)), Y: int8(r.Intn(8)), Type: tak.PlaceFlat}
	case 2: // slide off the edge / from an empty or foreign square
		return tak.Move{X: 0, Y: int8(r.Intn(n)), Type: tak.SlideLeft, Slides: tak.MkSlides(1)}
	default: // carry more than the board size or the stack
		return tak.Move{X: int8(r.Intn(n)), Y: int8(r.Intn(n)), Type: tak.SlideUp, Slides: tak.MkSlides(8)}
	}
}

// formattable reports whether FormatMove/ParseMove round-trip m (true of every legal move; off-board x>7 is not writable)
func formattable(m tak.Move) bool {
	r, err := ptn.ParseMove(ptn.FormatMove(m))
	return err == nil && r.Equal(m) && r.Type == m.Type && (m.IsSlide() || m.Slides == 0)
}

func randomGame(c *Ctx) *genGame {
	r := c.R
	g := &genGame{p: &ptn.PTN{}, safe: true}
	feat := func(s string) { g.features = append(g.features, s) }
	size := 3 + r.Intn(6)
	feat("size" + strconv.Itoa(size))
	var pos *tak.Position
	tps := ""
	if r.Chance(3, 10) {
		var keep *tak.Position
		stop := r.Intn(3 * size * size)
		playout(r, tak.Config{Size: size}, stop, func(p *tak.Position) {
			if over, _ := p.GameOver(); !over || r.Chance(1, 20) {
				keep = p
			}
		})
		tps = ptn.FormatTPS(keep)
		var err error
		pos, err = ptn.ParseTPS(tps)
		if err != nil {
			panic("FormatTPS output rejected: " + tps)
		}
		feat("start.tps")
		if pos.ToMove() == tak.Black {
			feat("start.tps.black")
		}
	} else {
		pos = tak.New(tak.Config{Size: size})
		feat("start.new")
	}
	// tags
	sizeVal := strconv.Itoa(size)
	dropSize := r.Chance(1, 40)
	var tags []ptn.Tag
	if !dropSize {
		tags = append(tags, ptn.Tag{Name: "Size", Value: sizeVal})
	} else {
		feat("tags.nosize")
	}
	if tps != "" {
		tags = append(tags, ptn.Tag{Name: "TPS", Value: tps})
	}
	for k := r.Intn(4); k > 0; k-- {
		name := []string{"Player1", "Player2", "Date", "Result", "Event", "Komi", "X", "size", "Tps", ""}[r.Intn(10)]
		tags = append(tags, ptn.Tag{Name: name, Value: string(randText(r, 12, "\"]"))})
	}
	if r.Chance(1, 3) { // any order
		for i := len(tags) - 1; i > 0; i-- {
			j := r.Intn(i + 1)
			tags[i], tags[j] = tags[j], tags[i]
		}
	}
	if r.Chance(1, 25) { // outside the safe fragment
		g.safe = false
		feat("tags.unsafe")
		bad := []ptn.Tag{{Name: "A B", Value: "v"}, {Name: "Q", Value: "say \"hi\""}, {Name: "Q", Value: "a]b"}, {Name: "N]", Value: "v"}, {Name: "Size", Value: "\"" + sizeVal}}
		tags = append(tags, bad[r.Intn(len(bad))])
	}
	g.p.Tags = tags

	// moves
	var maxPlies int
	switch x := r.Intn(10); {
	case x == 0:
		maxPlies = r.Intn(3)
	case x < 7:
		maxPlies = 3 + r.Intn(30)
	default:
		maxPlies = 30 + r.Intn(100)
	}
	var moves []tak.Move
	cur := pos
	over := false
	seekEnd := r.Chance(1, 2)
	for len(moves) < maxPlies {
		if o, _ := cur.GameOver(); o {
			over = true
			break
		}
		ms := legalMoves(cur)
		if len(ms) == 0 {
			break
		}
		var m tak.Move
		if w, ok := winningMove(cur, ms); ok && seekEnd && cur.MoveNumber() >= 2 && r.Chance(1, 2) {
			m = w
		} else {
			m = pickBiased(r, cur, ms)
		}
		n, err := cur.Move(m)
		if err != nil {
			panic("legal move rejected")
		}
		moves = append(moves, m)
		cur = n
	}
	if o, _ := cur.GameOver(); o {
		over = true
	}
	finalPos := cur
	if over {
		feat("game.over")
		if wd := cur.WinDetails(); wd.Reason == tak.RoadWin {
			feat("game.over.road")
		}
		if r.Chance(1, 2) { // recorded moves run on after the end of the game
			feat("game.over.extra-moves")
			for k := 1 + r.Intn(4); k > 0; k-- {
				ms := cur.AllMoves(nil)
				if len(ms) == 0 {
					break
				}
				moves = append(moves, ms[r.Intn(len(ms))])
			}
		}
	}
	if len(moves) > 0 && r.Chance(1, 8) {
		// an illegal move somewhere in the file
		j := r.Intn(len(moves))
		p := pos
		for _, m := range moves[:j] {
			if n, err := p.Move(m); err == nil {
				p = n
			}
		}
		bad := illegalMoveAt(r, p)
		if formattable(bad) {
			moves[j] = bad
			feat("game.illegal-move")
		}
	}
	g.nmoves = len(moves)
	switch {
	case len(moves) == 0:
		feat("moves=0")
	case len(moves) < 10:
		feat("moves<10")
	case len(moves) < 40:
		feat("moves<40")
	default:
		feat("moves>=40")
	}

	// ops
	style := r.Intn(10)
	feat("numbering." + []string{"standard", "standard", "standard", "standard", "standard", "every-ply", "none", "random", "random", "sparse"}[style])
	comment := func(slot string) {
		if r.Chance(1, 7) {
			unsafe := "}"
			if r.Chance(1, 30) {
				unsafe = ""
				g.safe = false
				feat("comment.unsafe")
			}
			g.p.Ops = append(g.p.Ops, &ptn.Comment{Comment: string(randText(r, 20, unsafe))})
			feat("comment." + slot)
		}
	}
	result := func(slot string) {
		res := resultPool[r.Intn(len(resultPool))]
		if r.Chance(1, 30) { // outside the safe fragment: not one of the 25 strings of resultRE
			res = []string{"2-0", "R", "", "R-0.", "a1", "1.", "r-0", "R-0 x", "0-0-0", "1/2"}[r.Intn(10)]
			g.safe = false
			feat("result.unsafe")
		}
		g.p.Ops = append(g.p.Ops, &ptn.Result{Result: res})
		feat("result." + slot)
	}
	number := func(n int) {
		g.p.Ops = append(g.p.Ops, &ptn.MoveNumber{Number: n})
		if n > g.maxNum {
			g.maxNum = n
		}
	}
	ply := pos.MoveNumber()
	comment("first")
	for i, m := range moves {
		switch {
		case style <= 4:
			if i == 0 || ply%2 == 0 {
				number(ply/2 + 1)
			}
		case style == 5:
			number(ply/2 + 1)
		case style == 6:
		case style <= 8:
			if r.Chance(1, 2) {
				number([]int{0, 1, 2, 3, 5, 7, -1, 1 << 40}[r.Intn(8)])
			}
		default:
			if ply%2 == 0 && r.Chance(1, 2) {
				number(ply/2 + 1)
			}
		}
		comment("after-number")
		if r.Chance(1, 40) {
			result("middle")
		}
		mods := ""
		if r.Chance(1, 6) {
			mods = []string{"!", "?", "'", "!!", "??", "?!", "!?", "''", "'!", "!'?"}[r.Intn(10)]
			feat("modifiers")
		}
		if r.Chance(1, 80) { // outside the safe fragment: only ?!' are split off a move token
			mods = []string{"*", "?*", "*!", "x", ".", "!.", "\"", " ", "? !", "1", "}"}[r.Intn(11)]
			g.safe = false
			feat("modifiers.unsafe")
		}
		g.p.Ops = append(g.p.Ops, &ptn.Move{Move: m, Modifiers: mods})
		comment("after-move")
		ply++
	}
	if r.Chance(1, 10) {
		number(ply/2 + 1 + r.Intn(3)) // a marker after the last move
		feat("numbering.trailing")
	}
	if r.Chance(1, 2) {
		if over && r.Chance(1, 2) {
			res := ptn.ResultFromGame(finalPos)
			g.p.Ops = append(g.p.Ops, &res)
			feat("result.end")
		} else {
			result("end")
		}
		comment("after-result")
	}
	if g.safe {
		feat("safe")
	}
	return g
}

// endingMoves returns the legal moves that end the game.
func endingMoves(p *tak.Position) []tak.Move {
	var out []tak.Move
	for _, m := range legalMoves(p) {
		if n, err := p.Move(m); err == nil {
			if over, _ := n.GameOver(); over {
				out = append(out, m)
			}
		}
	}
	return out
}

// nearEnd plays a biased game from the empty board and stops at a position that is not over but
// from which one legal move ends the game (road, full board or reserve exhaustion).
func nearEnd(r *RNG, size int) *tak.Position {
	for {
		p := tak.New(tak.Config{Size: size})
		for ply := 0; ply < 6*size*size; ply++ {
			if over, _ := p.GameOver(); over {
				break
			}
			ms := legalMoves(p)
			if len(ms) == 0 {
				break
			}
			if ply >= 2 {
				if _, ok := winningMove(p, ms); ok && r.Chance(1, 3) {
					return p
				}
			}
			m := pickBiased(r, p, ms)
			for k := 0; k < 4; k++ { // prefer to play on
				if n, err := p.Move(m); err == nil {
					if over, _ := n.GameOver(); !over {
						break
					}
				}
				m = ms[r.Intn(len(ms))]
			}
			n, err := p.Move(m)
			if err != nil {
				break
			}
			p = n
		}
	}
}

// opsForMoves numbers the moves from the position's ply; endAt >= 0: a Result op right after that move (sometimes).
func opsForMoves(c *Ctx, g *genGame, pos *tak.Position, moves []tak.Move, endAt int) {
	r := c.R
	style := r.Intn(4) // 0,1 standard; 2 every ply; 3 none
	ply := pos.MoveNumber()
	for i, m := range moves {
		if style <= 1 && (i == 0 || ply%2 == 0) || style == 2 {
			n := ply/2 + 1
			g.p.Ops = append(g.p.Ops, &ptn.MoveNumber{Number: n})
			if n > g.maxNum {
				g.maxNum = n
			}
		}
		g.p.Ops = append(g.p.Ops, &ptn.Move{Move: m})
		if i == endAt && r.Chance(1, 3) {
			g.p.Ops = append(g.p.Ops, &ptn.Result{Result: resultPool[r.Intn(len(resultPool))]})
		}
		if r.Chance(1, 12) {
			g.p.Ops = append(g.p.Ops, &ptn.Comment{Comment: "x"})
		}
		ply++
	}
	if r.Chance(1, 6) {
		g.p.Ops = append(g.p.Ops, &ptn.MoveNumber{Number: ply/2 + 1})
	}
}

// continuation: what a record holds after the game-ending move: moves that Position.Move would still
// accept (it does not look at the end of the game), or moves it rejects.
func continuation(r *RNG, p *tak.Position) []tak.Move {
	var out []tak.Move
	cur := p
	for k := 1 + r.Intn(4); k > 0; k-- {
		if r.Chance(1, 4) {
			bad := illegalMoveAt(r, cur)
			if formattable(bad) {
				out = append(out, bad)
				continue
			}
		}
		ms := legalMoves(cur)
		if len(ms) == 0 {
			ms = cur.AllMoves(nil)
		}
		if len(ms) == 0 {
			break
		}
		m := ms[r.Intn(len(ms))]
		out = append(out, m)
		if n, err := cur.Move(m); err == nil {
			cur = n
		}
	}
	return out
}

// puzzleGame: a [TPS] start one move from the end of the game whose move number is unrelated to the number
// of stones on the board (1..3 as in "white to move and win" puzzles, the true one, or a large one), either
// colour to move; the record plays (optionally after a few quiet moves) a game-ending move and then CONTINUES.
func puzzleGame(c *Ctx) *genGame {
	r := c.R
	g := &genGame{p: &ptn.PTN{}, safe: true}
	feat := func(s string) { g.features = append(g.features, s) }
	size := []int{3, 3, 4, 4, 5, 5, 6, 7, 8}[r.Intn(9)]
	base := nearEnd(r, size)
	f := strings.Fields(ptn.FormatTPS(base))
	var num int
	switch x := r.Intn(10); {
	case x < 5:
		num = 1 + r.Intn(3)
		feat("puzzle.num=1..3")
	case x < 7:
		num = 1 + r.Intn(size+1)
		feat("puzzle.num<=size+1")
	case x < 8:
		num = base.MoveNumber()/2 + 1
		feat("puzzle.num=true")
	default:
		num = []int{50, 1000, 1 << 20, 1 << 40}[r.Intn(4)]
		feat("puzzle.num=large")
	}
	if r.Chance(1, 4) { // the other colour to move
		if f[1] == "1" {
			f[1] = "2"
		} else {
			f[1] = "1"
		}
		feat("puzzle.colour-swapped")
	}
	tps := fmt.Sprintf("%s %s %d", f[0], f[1], num)
	pos, err := ptn.ParseTPS(tps)
	if err != nil {
		panic("puzzle TPS rejected: " + tps)
	}
	feat("puzzle")
	feat("size" + strconv.Itoa(size))
	if pos.ToMove() == tak.Black {
		feat("puzzle.black-to-move")
	}
	g.p.Tags = []ptn.Tag{{Name: "Size", Value: strconv.Itoa(size)}, {Name: "TPS", Value: tps}}
	if r.Chance(1, 2) {
		g.p.Tags[0], g.p.Tags[1] = g.p.Tags[1], g.p.Tags[0]
	}
	var moves []tak.Move
	cur := pos
	for k := r.Intn(3); k > 0; k-- { // quiet moves first
		var quiet []tak.Move
		for _, m := range legalMoves(cur) {
			if n, err := cur.Move(m); err == nil {
				if over, _ := n.GameOver(); !over && len(endingMoves(n)) > 0 {
					quiet = append(quiet, m)
					if len(quiet) > 6 {
						break
					}
				}
			}
		}
		if len(quiet) == 0 {
			break
		}
		m := quiet[r.Intn(len(quiet))]
		n, _ := cur.Move(m)
		moves = append(moves, m)
		cur = n
	}
	endAt := -1
	if over, _ := cur.GameOver(); over {
		feat("puzzle.start-already-over") // e.g. after the colour swap the board is full
	} else if ends := endingMoves(cur); len(ends) > 0 {
		m := ends[r.Intn(len(ends))]
		n, _ := cur.Move(m)
		moves = append(moves, m)
		endAt = len(moves) - 1
		cur = n
		if wd := cur.WinDetails(); wd.Reason == tak.RoadWin {
			feat("puzzle.ends-by-road")
		} else {
			feat("puzzle.ends-by-flats")
		}
		if cur.MoveNumber() < 2*size-1 {
			feat("puzzle.ends-before-ply-2size-1")
		}
	} else {
		feat("puzzle.no-ending-move") // opening rules (ply < 2) changed what the moves do
	}
	if r.Chance(5, 6) {
		ext := continuation(r, cur)
		moves = append(moves, ext...)
		if endAt >= 0 && len(ext) > 0 {
			feat("puzzle.continues-after-end")
		}
	}
	opsForMoves(c, g, pos, moves, endAt)
	g.nmoves = len(moves)
	return g
}

// earliestEndGame: from the empty board White completes a straight road with his size-th stone, i.e. the game
// ends exactly at ply 2*size-1 (no game can end earlier); the record continues after it.
func earliestEndGame(c *Ctx) *genGame {
	r := c.R
	g := &genGame{p: &ptn.PTN{}, safe: true}
	size := 3 + r.Intn(6)
	g.features = append(g.features, "earliest-end", "size"+strconv.Itoa(size))
	g.p.Tags = []ptn.Tag{{Name: "Size", Value: strconv.Itoa(size)}}
	col := r.Chance(1, 2) // road along a column instead of a row
	sq := func(a, b int) tak.Move {
		if col {
			a, b = b, a
		}
		return tak.Move{X: int8(a), Y: int8(b), Type: tak.PlaceFlat}
	}
	pos := tak.New(tak.Config{Size: size})
	moves := []tak.Move{sq(size-1, size-1), sq(0, 0)} // ply 0: Black's stone far away; ply 1: White's first road stone
	for k := 1; k < size; k++ {
		moves = append(moves, sq(k, 0)) // White extends the road
		if k < size-1 {
			moves = append(moves, sq(k-1, size-1)) // Black elsewhere (never a road: one square stays open)
		}
	}
	cur := pos
	for _, m := range moves {
		n, err := cur.Move(m)
		if err != nil {
			panic("earliestEndGame: illegal construction")
		}
		cur = n
	}
	if over, _ := cur.GameOver(); !over || cur.MoveNumber() != 2*size-1 {
		panic("earliestEndGame: not over at ply 2*size-1")
	}
	endAt := len(moves) - 1
	if r.Chance(1, 5) { // stop one move short: not over
		moves = moves[:len(moves)-1]
		endAt = -1
		g.features = append(g.features, "earliest-end.one-short")
	} else {
		moves = append(moves, continuation(r, cur)...)
	}
	opsForMoves(c, g, pos, moves, endAt)
	g.nmoves = len(moves)
	return g
}

func samePTN(a, b *ptn.PTN) bool {
	if len(a.Tags) != len(b.Tags) || len(a.Ops) != len(b.Ops) {
		return false
	}
	for i := range a.Tags {
		if a.Tags[i] != b.Tags[i] {
			return false
		}
	}
	for i := range a.Ops {
		x, y := fmtPTNOp(a.Ops[i]), fmtPTNOp(b.Ops[i])
		if x[:strings.LastIndexByte(x, ':')] != y[:strings.LastIndexByte(y, ':')] {
			return false
		}
	}
	return true
}

// emitQueries asks for the start position, the iterator trace and PositionAtMove over (n, colour).
func emitQueries(c *Ctx, hx string, p *ptn.PTN, maxNum int) {
	tr := tpsRes(p)
	if tps := p.FindTag("TPS"); tps != "" {
		// the model of these ops is handed ParseTPS's own answer for the tag: tie that answer to the TPS model here
		c.Emit("parsetps " + hexEnc([]byte(tps)))
	}
	c.Emit("ptninit " + hx + " " + tr)
	c.Emit("ptniter " + hx + " " + tr)
	// the markers that occur in the file (whatever their size), their neighbours, and 0 / 1 / 2
	seen := map[int]bool{}
	var marks []int
	mx := 0
	for _, op := range p.Ops {
		if mn, ok := op.(*ptn.MoveNumber); ok && mn.Number > 0 && !seen[mn.Number] {
			seen[mn.Number] = true
			marks = append(marks, mn.Number)
			if mn.Number > mx {
				mx = mn.Number
			}
		}
	}
	if maxNum > mx && maxNum <= 200 {
		mx = maxNum
	}
	cand := []int{0, 1, 2, mx - 1, mx, mx + 1, mx + 2}
	if len(marks) <= 8 || c.Thorough() {
		for _, m := range marks {
			cand = append(cand, m, m+1)
		}
		if mx <= 8 {
			for n := 3; n < mx; n++ {
				cand = append(cand, n)
			}
		}
	} else {
		for k := 0; k < 3; k++ {
			cand = append(cand, marks[c.R.Intn(len(marks))])
		}
	}
	var ns []int
	dup := map[int]bool{}
	for _, n := range cand {
		if n >= 0 && !dup[n] {
			dup[n] = true
			ns = append(ns, n)
		}
	}
	for _, n := range ns {
		for _, col := range []string{"W", "B"} {
			out := c.Emit(fmt.Sprintf("ptnat %d %s %s %s", n, col, hx, tr))
			switch {
			case strings.HasPrefix(out, "ok"):
				if n == 0 {
					c.Count("ptnat.final")
				} else {
					c.Count("ptnat.found")
				}
			case out == "err":
				c.Count("ptnat.err")
			default:
				c.Count("ptnat." + out)
			}
		}
	}
	c.Emit(fmt.Sprintf("ptnat 0 N %s %s", hx, tr))
	c.Emit(fmt.Sprintf("ptnat %d N %s %s", 1+c.R.Intn(3), hx, tr))
	c.Emit(fmt.Sprintf("ptnat %d %s %s %s", -1-c.R.Intn(3), []string{"W", "B", "N"}[c.R.Intn(3)], hx, tr))
	if c.R.Chance(1, 4) {
		c.Emit(fmt.Sprintf("ptnat %d W %s %s", []int{1 << 31, 1 << 40, 1<<63 - 1}[c.R.Intn(3)], hx, tr))
	}
}

func emitGame(c *Ctx, g *genGame) {
	for _, f := range g.features {
		c.Count(f)
	}
	c.Emit("ptnrender " + fmtPTN(g.p))
	// render + parse on both sides, with the class of the value under the safety predicate next to the outcome:
	// `safe` <=> `same` (C12.render_parse_bytes). (`ptnsafe` = `ptnrt` plus the class.)
	cls := c.Emit("ptnsafe " + fmtPTN(g.p))
	c.Count("ptnsafe." + strings.ReplaceAll(cls, " ", "/"))
	if rt := cls[strings.IndexByte(cls, ' ')+1:]; g.safe && rt != "same" {
		c.Count("roundtrip.SAFE-" + rt) // a generated-safe game that does not survive: contradicts render_parse_bytes
	} else {
		c.Count("roundtrip." + rt)
	}
	text := []byte(g.p.Render())
	if c.R.Chance(1, 3) {
		text = append(append([]byte{}, bom...), text...)
		c.Count("bom")
	}
	hx := hexEnc(text)
	c.Emit("ptnparse " + hx)
	if c.R.Chance(1, 5) {
		// through a reader that delivers 1, 2, 3 or a few bytes per Read (short reads are legal for an io.Reader)
		k := []int{1, 1, 2, 2, 3, 5, 17}[c.R.Intn(7)]
		c.Emit("ptnchunk " + strconv.Itoa(k) + " " + hx)
		c.Count("through-short-reads~" + strconv.Itoa(k))
	}
	if c.R.Chance(1, 4) {
		// through a file on disk; and with CR LF line ends, also inside comments and between tokens
		c.Emit("ptnfile " + hx)
		crlf := bytes.ReplaceAll(text, []byte("\n"), []byte("\r\n"))
		if i := bytes.IndexByte(crlf, '{'); i >= 0 {
			crlf = append(append(append([]byte{}, crlf[:i+1]...), []byte("x\r\ny ")...), crlf[i+1:]...)
		}
		c.Emit("ptnparse " + hexEnc(crlf))
		c.Emit("ptnfile " + hexEnc(crlf))
		c.Count("through-file")
	}
	if c.R.Chance(1, 2) {
		// the parsed game edited by a tool (annotations, comments), then rendered
		mods := []string{"", "!", "?", "'", "!!", "?'", "!?"}[c.R.Intn(7)]
		com := []string{"", "x", "edited comment", "a b  c"}[c.R.Intn(4)]
		c.Emit("ptnedit " + hx + " " + hexEnc([]byte(mods)) + " " + hexEnc([]byte(com)))
		c.Count("edit-then-render")
	}
	back, err := ptn.ParsePTN(bytes.NewReader(text))
	if err != nil {
		if g.safe {
			c.Count("reparse.err-SAFE") // would contradict render_parse_bytes
		} else {
			c.Count("reparse.err-unsafe")
		}
		return
	}
	if samePTN(g.p, back) {
		c.Count("reparse.same")
	} else if g.safe {
		c.Count("reparse.differs-SAFE") // would contradict render_parse_bytes: the model run shows it as a disagreement
	} else {
		c.Count("reparse.differs-unsafe")
	}
	emitQueries(c, hx, back, g.maxNum)
}

// structured cases: short op lists on small boards with every kind of op in every slot,
// run through the iterator directly (no text in between), incl. zero-type moves as AddMoves can hold them.
func emitStructured(c *Ctx) {
	r := c.R
	size := 3 + r.Intn(2)
	p := &ptn.PTN{Tags: []ptn.Tag{{Name: "Size", Value: strconv.Itoa(size)}}}
	if r.Chance(1, 12) {
		p.Tags[0].Value = []string{"", "x", "2", "9", "5 ", "-3", "+4", "04", "99999999999999999999"}[r.Intn(9)]
	}
	cur := tak.New(tak.Config{Size: size})
	n := r.Intn(8)
	for i := 0; i < n; i++ {
		switch x := r.Intn(12); {
		case x < 3:
			p.Ops = append(p.Ops, &ptn.MoveNumber{Number: r.Intn(4)})
		case x < 8:
			ms := legalMoves(cur)
			if o, _ := cur.GameOver(); o || len(ms) == 0 {
				ms = cur.AllMoves(nil)
			}
			if len(ms) == 0 {
				continue
			}
			m := ms[r.Intn(len(ms))]
			if w, ok := winningMove(cur, ms); ok && r.Chance(1, 2) {
				m = w
			}
			p.Ops = append(p.Ops, &ptn.Move{Move: m})
			if nx, err := cur.Move(m); err == nil {
				cur = nx
			}
		case x == 8:
			p.Ops = append(p.Ops, &ptn.Move{Move: tak.Move{X: int8(r.Intn(size)), Y: int8(r.Intn(size))}}) // Type 0
			c.Count("structured.zero-type-move")
		case x == 9:
			p.Ops = append(p.Ops, &ptn.Move{Move: illegalMoveAt(r, cur)})
		case x == 10:
			p.Ops = append(p.Ops, &ptn.Comment{Comment: "c"})
		default:
			p.Ops = append(p.Ops, &ptn.Result{Result: resultPool[r.Intn(len(resultPool))]})
		}
	}
	enc := fmtPTN(p)
	c.Count("structured")
	c.Emit("ptniterf - " + enc)
	for nn := 0; nn <= 4; nn++ {
		for _, col := range []string{"W", "B"} {
			c.Emit(fmt.Sprintf("ptnatf %d %s - %s", nn, col, enc))
		}
	}
	c.Emit("ptnrender " + enc)
}

func testdataFiles() [][]byte {
	root := os.Getenv("VERIF_REPO")
	if root == "" {
		root = "/repo"
	}
	files, _ := filepath.Glob(filepath.Join(root, "testdata", "*", "*.ptn"))
	more, _ := filepath.Glob(filepath.Join(root, "testdata", "*.ptn"))
	files = append(files, more...)
	var out [][]byte
	for _, f := range files {
		if b, err := os.ReadFile(f); err == nil {
			out = append(out, b)
		}
	}
	return out
}

// emitReuse: a game re-based at ply k (TPS tag + the remaining moves) on the SAME PTN value that was queried before, or
// replaced by an unrelated game of another size
func emitReuse(c *Ctx) {
	r := c.R
	mk := func() (size int, ps []*tak.Position, ms []tak.Move) {
		size = 3 + r.Intn(4)
		cur := tak.New(tak.Config{Size: size})
		ps = append(ps, cur)
		for n := 2 + r.Intn(14); n > 0; n-- {
			if o, _ := cur.GameOver(); o {
				break
			}
			l := legalMoves(cur)
			if len(l) == 0 {
				break
			}
			m := l[r.Intn(len(l))]
			nx, err := cur.Move(m)
			if err != nil {
				break
			}
			cur, ps, ms = nx, append(ps, nx), append(ms, m)
		}
		return
	}
	file := func(size int, tps string, ms []tak.Move) *ptn.PTN {
		p := &ptn.PTN{Tags: []ptn.Tag{{Name: "Size", Value: strconv.Itoa(size)}}}
		if tps != "" {
			p.Tags = append(p.Tags, ptn.Tag{Name: "TPS", Value: tps})
		}
		for _, m := range ms {
			p.Ops = append(p.Ops, &ptn.Move{Move: m})
		}
		return p
	}
	size, ps, ms := mk()
	A := file(size, "", ms)
	var B *ptn.PTN
	kind := "rebase"
	if r.Chance(1, 4) {
		s2, _, ms2 := mk()
		B = file(s2, "", ms2)
		kind = "other-game"
	} else {
		k := r.Intn(len(ps))
		B = file(size, ptn.FormatTPS(ps[k]), ms[k:])
	}
	for _, n := range []int{0, 1 + r.Intn(6)} {
		col := []string{"W", "B", "N"}[r.Intn(3)]
		c.Emit(fmt.Sprintf("ptnreuse %d %d %s %s %s || %s", r.Intn(2), n, col, tpsRes(B), fmtPTN(A), fmtPTN(B)))
	}
	c.Count("reuse." + kind)
}

// emitLateTPSGame: a game given as a [TPS] start late in a 7x7/8x8 game - one side has all but one or two of its pieces
// (stones AND capstones) on the board, in stacks - plus the last plies
func emitLateTPSGame(c *Ctx) {
	r := c.R
	size := 7 + r.Intn(2)
	stones := map[int]int{7: 40, 8: 50}[size]
	who := bothColors[r.Intn(2)]
	other := who.Flip()
	board := emptyBoard(size)
	left := stones - r.Intn(3) // stones of `who` to put on the board
	caps := 2 - r.Intn(2)
	x, y := 0, 0
	next := func() (int, int) {
		cx, cy := x, y
		x += 2
		if x >= size {
			x = (y + 1) % 2
			y++
		}
		return cx, cy
	}
	for left > 0 && y < size-1 {
		h := 3 + r.Intn(5)
		if h > left {
			h = left
		}
		top := tak.MakePiece(who, tak.Flat)
		if caps > 0 && r.Chance(1, 3) {
			top = tak.MakePiece(who, tak.Capstone)
			caps--
			h++ // the capstone is not a stone
		}
		sq := make(tak.Square, h)
		sq[0] = top
		for j := 1; j < h; j++ {
			sq[j] = tak.MakePiece(who, tak.Flat)
		}
		left -= h
		if top.Kind() == tak.Capstone {
			left++
		}
		cx, cy := next()
		board[cy][cx] = sq
	}
	// a few stones of the other side on the top row
	for i := 0; i < size; i += 3 {
		board[size-1][i] = tak.Square{tak.MakePiece(other, tak.Flat)}
	}
	ply := 60 + 2*r.Intn(10)
	if who == tak.White { // the side with the full board has just moved
		ply++
	}
	p, err := tak.FromSquares(tak.Config{Size: size}, board, ply)
	if err != nil {
		c.Count("late-tps.build-failed")
		return
	}
	g := &ptn.PTN{Tags: []ptn.Tag{{Name: "Size", Value: strconv.Itoa(size)}, {Name: "TPS", Value: ptn.FormatTPS(p)}}}
	cur := p
	for i := 0; i < 1+r.Intn(3); i++ {
		if o, _ := cur.GameOver(); o {
			break
		}
		ms := legalMoves(cur)
		if len(ms) == 0 {
			break
		}
		m := ms[r.Intn(len(ms))]
		nx, err := cur.Move(m)
		if err != nil {
			break
		}
		g.Ops = append(g.Ops, &ptn.Move{Move: m})
		cur = nx
	}
	text := []byte(g.Render())
	hx := hexEnc(text)
	c.Emit("ptnparse " + hx)
	if q, err := ptn.ParsePTN(bytes.NewReader(text)); err == nil {
		emitQueries(c, hx, q, 0)
	}
	c.Count("late-tps." + colorStr(who) + "-nearly-out")
}

func genC12(c *Ctx) {
	for k := c.Scale(32, 1600); k > 0; k-- {
		emitLateTPSGame(c)
	}
	emitBoundary(c) // every clause of the render/parse safety predicate, from both sides (gen_ptn_bound.go)
	n := c.Scale(2000, 100000) // thorough: 200k plain games took 37 min wall on a loaded 16-core box; 100k with the puzzle games stays under 30
	for k := 0; k < n; k++ {
		emitGame(c, randomGame(c))
		if k%4 == 0 {
			emitStructured(c)
		}
		if k%3 == 0 {
			emitGame(c, puzzleGame(c))
		}
		if k%12 == 0 {
			emitGame(c, earliestEndGame(c))
		}
		if k%8 == 0 {
			emitReuse(c)
		}
		if k%16 == 0 {
			// AddMoves on a fresh PTN
			var toks []string
			for i := c.R.Intn(9); i > 0; i-- {
				toks = append(toks, encMove(rawMove(c.R, 5)))
			}
			c.Emit("ptnaddmoves " + strings.Join(toks, " "))
			c.Count("addmoves")
		}
	}
	// the repository's own game files (spread over the shards)
	for i, b := range testdataFiles() {
		if i%c.NShard != c.Shard {
			continue
		}
		c.Count("testdata-file")
		hx := hexEnc(b)
		c.Emit("ptnparse " + hx)
		if p, err := ptn.ParsePTN(bytes.NewReader(b)); err == nil {
			c.Emit("ptnrender " + fmtPTN(clearedCopy(p)))
			mx := 0
			for _, op := range p.Ops {
				if mn, ok := op.(*ptn.MoveNumber); ok && mn.Number > mx {
					mx = mn.Number
				}
			}
			emitQueries(c, hx, p, mx)
		}
	}
}

// clearedCopy rebuilds the ops without their source text (the token form for structured input has empty src).
func clearedCopy(p *ptn.PTN) *ptn.PTN {
	q := &ptn.PTN{Tags: p.Tags}
	for _, op := range p.Ops {
		switch o := op.(type) {
		case *ptn.MoveNumber:
			q.Ops = append(q.Ops, &ptn.MoveNumber{Number: o.Number})
		case *ptn.Move:
			q.Ops = append(q.Ops, &ptn.Move{Move: o.Move, Modifiers: o.Modifiers})
		case *ptn.Comment:
			q.Ops = append(q.Ops, &ptn.Comment{Comment: o.Comment})
		case *ptn.Result:
			q.Ops = append(q.Ops, &ptn.Result{Result: o.Result})
		}
	}
	return q
}

// ---------------------------------------------------------------- C13 (PTN files, chat lines, weights JSON)

var ptnAlphabet = []byte("[]{}\". \n\t123456789abcdefgh<>+-CSFR/0x,TPSize?!'*\r\v\f")
var ptnOdd = []byte{0x85, 0xA0, 0xEF, 0xBB, 0xBF, 0x00, 0xFF, 0x80, 0xC2}

func randPTNBytes(r *RNG, n int) []byte {
	out := make([]byte, n)
	for i := range out {
		switch x := r.Intn(20); {
		case x < 16:
			out[i] = ptnAlphabet[r.Intn(len(ptnAlphabet))]
		case x < 18:
			out[i] = ptnOdd[r.Intn(len(ptnOdd))]
		default:
			out[i] = byte(r.Next())
		}
	}
	return out
}

func mutateBytes(r *RNG, b []byte, pool []byte) []byte {
	b = append([]byte{}, b...)
	for k := 1 + r.Intn(3); k > 0; k-- {
		if len(b) == 0 {
			return []byte{pool[r.Intn(len(pool))]}
		}
		i := r.Intn(len(b))
		switch r.Intn(7) {
		case 0: // delete
			b = append(b[:i], b[i+1:]...)
		case 1: // duplicate
			b = append(b[:i+1], b[i:]...)
		case 2: // replace by a structural byte
			b[i] = pool[r.Intn(len(pool))]
		case 3: // truncate
			b = b[:i]
		case 4: // insert a structural byte
			b = append(b[:i], append([]byte{pool[r.Intn(len(pool))]}, b[i:]...)...)
		case 5: // random byte
			b[i] = byte(r.Next())
		default: // drop a span
			j := i + r.Intn(8)
			if j > len(b) {
				j = len(b)
			}
			b = append(b[:i], b[j:]...)
		}
	}
	return b
}

func handcraftedPTN() [][]byte {
	var out [][]byte
	add := func(s string) { out = append(out, []byte(s)) }
	for _, s := range []string{"", " ", "\n", "{", " {", "{ ", "{}", "{a", "{a}", "}", "1. {", "1. a1 {", "1. a1 {x", "[Size \"5\"]\n\n1. a1 {", "[Size \"5\"]\n{",
		"[", "[]", "[ ]", "[Size", "[Size]", "[Size ", "[Size \"5\"", "[Size \"5\"]", "[Size 5]", "[Size \"5\"][", "[Size \"5\"] [TPS", "[Size \"\"]", "[Size \"five\"]",
		"]", "\"", ".", "..", "-.", "+.", "1.", "99999999999999999999.", "-9223372036854775808.", "9223372036854775808.", "1..", "1.a1", "a1.", "R-0", "R-0.", "1/2-1/2", "1/2", "-",
		"a1", "a1?", "?", "?!'", "a1*", "a9", "i1", "Ca1", "3a1", "3a1>", "3a1>12", "3a1>13", "a1>999999999", "9a1>", "0a1>", "\xef\xbb\xbf", "\xef\xbb", "\xef\xbb\xbf{", "\xef\xbb\xbf[Size \"5\"]\n1. a1",
		"\xff\xfe", "\x00", "\x85", "\xa0", "a1\x85b1\xa0c1", "[Size\x85\"5\"]", "[Size\xa0\"5\"]\n1. a1", "[Size \"5\"]\x85\xa01.\x85a1\xa0b2",
	} {
		add(s)
	}
	// the Size tag: every small integer, signs, junk; with and without a TPS tag
	sizes := []string{"-1", "-0", "+5", "05", "5 ", " 5", "5x", "0x5", "5.0", "1e1", "٣", "9223372036854775807", "9223372036854775808", "-9223372036854775809", "4294967301", "18446744073709551621"}
	for i := -2; i <= 14; i++ {
		sizes = append(sizes, strconv.Itoa(i))
	}
	for _, sz := range sizes {
		add("[Size \"" + sz + "\"]\n\n1. a1 b2\n")
		add("[Size \"" + sz + "\"]\n[TPS \"x3/x3/x3 1 1\"]\n\n1. a1 b2\n")
		add("[TPS \"x5/x5/x5/x5/x5 1 1\"]\n[Size \"" + sz + "\"]\n")
	}
	for _, tps := range []string{"", " ", "x", "x3/x3/x3", "x3/x3/x3 1", "x3/x3/x3 1 1 1", "x3/x3/x3 3 1", "x3/x3/x3 1 0", "x3/x3/x3 2 -5", "x9/x9 1 1", "1,2,x/x3/x3 2 1", "x3/x3/x2 1 1", "x4/x4/x4/x4 1 1", "x3/x3/x3 1 1\n"} {
		add("[Size \"3\"]\n[TPS \"" + tps + "\"]\n\n1. a1 b2\n")
	}
	// scanner token limit: ordinary tokens and comments around 64 KiB, long white space, long tags
	for _, n := range []int{4095, 4096, 4097, 65534, 65535, 65536, 65537, 70000, 131072, 140000} {
		big := strings.Repeat("a", n)
		add("[Size \"5\"]\n\n1. " + big)
		add("[Size \"5\"]\n\n1. " + big + " a1")
		add("[Size \"5\"]\n\n1. a1 {" + big[2:] + "} b2")
		add("[Size \"5\"]\n\n1. a1 {" + big[1:] + "} b2")
		add("[Size \"5\"]\n\n1. a1 {" + big + "} b2")
		add("[Size \"5\"]\n\n1. a1 {" + big)
		add("[Size \"5\"]\n\n1. a1" + strings.Repeat(" ", n) + "b2")
		add("[Size \"5\"]\n\n1. a1" + strings.Repeat(" ", n) + big)
		add("[Size \"5\"]\n[X \"" + big + "\"]\n\n1. a1 b2")
		add("[Size \"5\"]" + strings.Repeat("\n", n) + "1. a1 b2")
		add(strings.Repeat("1", n) + ".")
	}
	return out
}

func emitPTNInput(c *Ctx, b []byte, kind string) {
	c.Count("ptn." + kind)
	hx := hexEnc(b)
	out := c.Emit("ptnparse " + hx)
	tr := "-"
	if strings.HasPrefix(out, "ok") {
		c.Count("ptn.parse=ok")
		if c.R.Chance(1, 3) {
			// the parsed game edited by a tool, then rendered
			mods := []string{"", "!", "?", "'", "!!", "?'", "!?"}[c.R.Intn(7)]
			com := []string{"", "x", "edited comment", "a b  c"}[c.R.Intn(4)]
			c.Emit("ptnedit " + hx + " " + hexOrDashStr(mods) + " " + hexOrDashStr(com))
			c.Count("ptn.edit-then-render")
		}
		func() {
			defer func() { recover() }()
			if p, err := ptn.ParsePTN(bytes.NewReader(b)); err == nil {
				tr = tpsRes(p)
			}
		}()
	} else {
		c.Count("ptn.parse=" + out)
	}
	o := c.Emit("ptninit " + hx + " " + tr)
	c.Count("ptn.init=" + strings.Fields(o+" x")[0])
	o = c.Emit("ptnat 0 N " + hx + " " + tr)
	c.Count("ptn.replay=" + strings.Fields(o+" x")[0])
	if c.R.Chance(1, 3) {
		c.Emit("ptniter " + hx + " " + tr)
		c.Emit(fmt.Sprintf("ptnat %d %s %s %s", c.R.Intn(5), []string{"W", "B", "N"}[c.R.Intn(3)], hx, tr))
	}
}

var chatPool = []byte("<> \n\tTellShoutRoomabc123:!?,.")

func emitChat(c *Ctx) {
	r := c.R
	var line []byte
	who := randFrom(r, []byte("abcXYZ019_-\n\xc3\xa9"), 1+r.Intn(8))
	if r.Chance(1, 5) {
		who = randFrom(r, []byte("abcXYZ019_-<>  \n"), r.Intn(8))
	}
	msg := randFrom(r, []byte("hello world <>!?\n\t\xc3\xa9\xff "), r.Intn(16))
	room := randFrom(r, []byte("room12 \t\v\n<>"), 1+r.Intn(6))
	kind := []string{"tell", "shout", "shoutroom"}[r.Intn(3)]
	switch x := r.Intn(10); {
	case x < 5:
		prefix := map[string]string{"tell": "Tell ", "shout": "Shout ", "shoutroom": "ShoutRoom " + string(room) + " "}[kind]
		line = []byte(prefix + "<" + string(who) + "> " + string(msg))
		c.Count("chat.shaped")
	case x < 8:
		prefix := []string{"Tell ", "Shout ", "ShoutRoom r ", "ShoutRoom ", "Tell", "shout "}[r.Intn(6)]
		line = mutateBytes(r, []byte(prefix+"<"+string(who)+"> "+string(msg)), chatPool)
		c.Count("chat.mutated")
	default:
		line = randFrom(r, append(chatPool, 0xff, 0x80, 0), r.Intn(30))
		c.Count("chat.random")
	}
	out := c.Emit("chat " + kind + " " + hexEnc(line))
	if strings.HasPrefix(out, "ok - -") {
		c.Count("chat.nomatch")
	} else if strings.HasPrefix(out, "ok") {
		c.Count("chat.match")
	}
}

func randFrom(r *RNG, pool []byte, n int) []byte {
	out := make([]byte, n)
	for i := range out {
		out[i] = pool[r.Intn(len(pool))]
	}
	return out
}

func emitWeights(c *Ctx) {
	r := c.R
	var bs []byte
	switch x := r.Intn(10); {
	case x < 3:
		var w ai.Weights
		for k := r.Intn(8); k > 0; k-- {
			w[r.Intn(len(w))] = int64(r.Intn(2000)) - 1000
		}
		bs, _ = json.Marshal(&w)
		c.Count("weights.valid")
	case x < 6:
		var w ai.Weights
		for k := 1 + r.Intn(5); k > 0; k-- {
			w[r.Intn(len(w))] = int64(r.Next())
		}
		bs, _ = json.Marshal(&w)
		bs = mutateBytes(r, bs, []byte("{}[]\":,0123456789.eE-+ntf \\u"))
		c.Count("weights.mutated")
	case x < 8:
		hand := []string{"", "null", "{}", "[]", "1", "\"x\"", "{\"Tempo\":1}", "{\"Tempo\":1.5}", "{\"Tempo\":\"1\"}", "{\"Tempo\":null}", "{\"Tempo\":1e3}",
			"{\"Tempo\":9223372036854775807}", "{\"Tempo\":9223372036854775808}", "{\"Tempo\":-9223372036854775808}", "{\"tempo\":1}", "{\"MaxFeature\":1}", "{\"Feature(36)\":1}",
			"{\"Feature(-1)\":1}", "{\"\":1}", "{\"Tempo\":1,\"Tempo\":2}", "{\"Tempo\":1,\"Nope\":2}", "{\"Nope\":2,\"Tempo\":1}", "{\"Tempo\":{\"a\":1}}", "{\"Tempo\":[1]}", "{\"Tempo\":true}",
			"{\"Terminal_OpponentReserves\":-5,\"Groups_8\":7}", "{\"T\\u0065mpo\":3}", "{\"Tempo\\u0000\":3}", "{\"Tempo\":1}x", " {\"Tempo\" : 1 } ", "{\"Tempo\":01}", "{\"Tempo\":-0}", "\xef\xbb\xbf{}", "{\"\xff\":1}"}
		bs = []byte(hand[r.Intn(len(hand))])
		c.Count("weights.handcrafted")
	default:
		bs = randFrom(r, []byte("{}[]\":,0123456789.eE-+ntfalsrue Tempo\\"), r.Intn(24))
		c.Count("weights.random")
	}
	out := c.Emit("weightsjson " + hexEnc(bs) + " " + jsonMapRes(bs))
	c.Count("weights=" + strings.Fields(out+" x")[0])
}

// tpsStress: a start position outside anything a game produces (very tall stacks, many capstones,
// more pieces than the reserves hold, any ply), followed by random well-formed moves.
func tpsStress(r *RNG) []byte {
	size := 3 + r.Intn(6)
	var rows []string
	for y := 0; y < size; y++ {
		var cells []string
		for x := 0; x < size; x++ {
			switch k := r.Intn(10); {
			case k < 4:
				cells = append(cells, "x")
			default:
				h := 1 + r.Intn(4)
				if r.Chance(1, 8) {
					h = []int{63, 64, 65, 66, 100, 127, 128, 129, 255, 256, 257, 300}[r.Intn(12)]
				}
				var b strings.Builder
				for j := 0; j < h; j++ {
					b.WriteByte("12"[r.Intn(2)])
				}
				b.WriteString([]string{"", "", "", "S", "C"}[r.Intn(5)])
				cells = append(cells, b.String())
			}
		}
		rows = append(rows, strings.Join(cells, ","))
	}
	tps := fmt.Sprintf("%s %d %d", strings.Join(rows, "/"), 1+r.Intn(2), []int{1, 1, 2, 3, 10, 0, -3, 1 << 40}[r.Intn(8)])
	var b strings.Builder
	fmt.Fprintf(&b, "[Size \"%d\"]\n[TPS \"%s\"]\n\n", size, tps)
	for k := r.Intn(12); k > 0; k-- {
		x, y := r.Intn(size), r.Intn(size)
		sq := string([]byte{byte('a' + x), byte('1' + y)})
		switch r.Intn(5) {
		case 0:
			b.WriteString([]string{"", "S", "C", "F"}[r.Intn(4)] + sq)
		default:
			n := 1 + r.Intn(size)
			mv := strconv.Itoa(n) + sq + string("<>+-"[r.Intn(4)])
			for n > 0 && r.Chance(2, 3) {
				d := 1 + r.Intn(n)
				mv += strconv.Itoa(d)
				n -= d
			}
			b.WriteString(mv)
		}
		b.WriteByte(' ')
	}
	return []byte(b.String())
}

func genC13ptn(c *Ctx) {
	c.Timeout = 20 * time.Second
	r := c.R
	if c.Shard == 0 {
		for _, b := range handcraftedPTN() {
			emitPTNInput(c, b, "handcrafted")
		}
	}
	td := testdataFiles()
	n := c.Scale(24000, 2400000)
	var poolText []byte
	poolUse := 0
	for k := 0; k < n; k++ {
		switch x := r.Intn(20); {
		case x < 9: // structure-aware mutation of a generated game
			if poolUse%8 == 0 { // a fresh game every 8 mutations (game generation dominates the cost)
				poolText = []byte(randomGame(c).p.Render())
			}
			poolUse++
			text := poolText
			if r.Chance(1, 4) {
				text = append(append([]byte{}, bom...), text...)
			}
			emitPTNInput(c, mutateBytes(r, text, ptnAlphabet), "mutated-game")
		case x < 10:
			if len(td) > 0 {
				emitPTNInput(c, mutateBytes(r, td[r.Intn(len(td))], ptnAlphabet), "mutated-testdata")
			}
		case x < 13:
			emitPTNInput(c, randPTNBytes(r, r.Intn(40)), "random-short")
		case x < 14 && r.Chance(1, 2):
			emitPTNInput(c, tpsStress(r), "tps-stress")
		case x < 14:
			emitPTNInput(c, append([]byte("[Size \""+strconv.Itoa(r.Intn(12))+"\"]\n"), randPTNBytes(r, r.Intn(200))...), "random-after-size")
		case x < 17:
			emitChat(c)
		default:
			emitWeights(c)
		}
	}
}

func init() {
	genTable["C12"] = genC12
	genTable["C13ptn"] = genC13ptn
}

func hexOrDashStr(t string) string { return hexEnc([]byte(t)) }
