package main

// C04, Monte-Carlo part: cornerMove, populate, update directly; the whole player on live positions.

import (
	"context"
	"strconv"
	"strings"
	"time"

	"github.com/nelhage/taktician/ai/mcts"
	"github.com/nelhage/taktician/tak"
)

func parseBits(s string) []int {
	if s == "-" {
		return nil
	}
	out := make([]int, len(s))
	for i := range s {
		out[i] = int(s[i] - '0')
	}
	return out
}

func parseNode(s string) mcts.VerifNode {
	parts := strings.Split(s, ";")
	f := strings.Split(parts[0], ",")
	n := mcts.VerifNode{Proven: atoi(f[0]), Sims: atoi(f[1]), Value: atoi(f[2])}
	if len(parts) > 1 && parts[1] != "" {
		for _, x := range strings.Split(parts[1], ",") {
			n.Siblings = append(n.Siblings, atoi(x))
		}
	}
	return n
}

func fmtNode(n mcts.VerifNode) string {
	s := strconv.Itoa(n.Proven) + "," + strconv.Itoa(n.Sims) + "," + strconv.Itoa(n.Value)
	if len(n.Siblings) > 0 {
		var b []string
		for _, x := range n.Siblings {
			b = append(b, strconv.Itoa(x))
		}
		s += ";" + strings.Join(b, ",")
	}
	return s
}

func init() {
	opTable["corner"] = func(s *Session, a []string) string {
		p := decPos(a[0])
		m, more := mcts.VerifCornerMove(p, parseBits(a[1]))
		if more {
			return "more"
		}
		return encMove(m)
	}
	opTable["mctspop"] = func(s *Session, a []string) string {
		p := decPos(a[0])
		ch := mcts.VerifPopulate(p)
		if len(ch) == 0 {
			return "-"
		}
		parts := make([]string, len(ch))
		for i, c := range ch {
			parts[i] = encMove(c.Move) + ":" + strconv.Itoa(c.Proven)
		}
		return strings.Join(parts, " ")
	}
	opTable["mctsupd"] = func(s *Session, a []string) string {
		var path []mcts.VerifNode
		for _, t := range a[1:] {
			path = append(path, parseNode(t))
		}
		out := mcts.VerifUpdate(path, atoi(a[0]))
		parts := make([]string, len(out))
		for i, n := range out {
			parts[i] = fmtNode(n)
		}
		return strings.Join(parts, " ")
	}
	// mcts <policy|-> <forceCorners 0/1> <limit ms> <seed> <pos>: is the player's answer legal in pos?
	opTable["mcts"] = func(s *Session, a []string) string {
		policy := a[0]
		if policy == "-" {
			policy = ""
		}
		p := decPos(a[4])
		if over, _ := p.GameOver(); over {
			return "n/a"
		}
		mc := mcts.NewMonteCarlo(mcts.MCTSConfig{
			Policy: policy, ForceCorners: a[1] == "1", Limit: time.Duration(atoi(a[2])) * time.Millisecond,
			Seed: int64(atoi(a[3])), Size: p.Size(),
		})
		before := dumpPos(p) + "|" + absDump(p)
		m := mc.GetMove(context.Background(), p)
		if dumpPos(p)+"|"+absDump(p) != before {
			return "input-position-modified"
		}
		if _, err := p.Move(m); err != nil {
			return "illegal:" + encMove(m)
		}
		return "legal"
	}
}

func cornerPositions(size int) []*tak.Position {
	var out []*tak.Position
	p0 := tak.New(tak.Config{Size: size})
	out = append(out, p0)
	for y := 0; y < size; y++ {
		for x := 0; x < size; x++ {
			n, err := p0.Move(tak.Move{X: int8(x), Y: int8(y), Type: tak.PlaceFlat})
			if err != nil {
				panic(err)
			}
			out = append(out, n)
		}
	}
	return out
}

func allBits(n int) []string {
	if n == 0 {
		return []string{"-"}
	}
	var out []string
	for v := 0; v < 1<<uint(n); v++ {
		b := make([]byte, n)
		for i := 0; i < n; i++ {
			b[i] = '0' + byte((v>>uint(i))&1)
		}
		out = append(out, string(b))
	}
	return out
}

func genC04mcts(c *Ctx) {
	// cornerMove: every opening position (empty board, one stone anywhere) of every size, every bit string up to 6 draws
	k := 0
	for size := 3; size <= 8; size++ {
		for _, p := range cornerPositions(size) {
			tok := encPos(p)
			for _, n := range []int{0, 1, 2, 3, 4, 6} {
				for _, bits := range allBits(n) {
					if k%c.NShard == c.Shard {
						out := c.Emit("corner " + tok + " " + bits)
						if out == "more" {
							c.Count("corner.more")
						} else {
							c.Count("corner.move.ply" + strconv.Itoa(p.MoveNumber()))
							if _, err := p.Move(decMove(out)); err != nil {
								c.Count("corner.VIOLATES:illegal")
							}
						}
					}
					k++
				}
			}
		}
	}
	// cornerMove as a function on later positions too (not reachable through GetMove)
	n := c.Scale(2000, 200000)
	for i := 0; i < n; i++ {
		p := randomPosition(c.R)
		bits := make([]byte, 2*(1+c.R.Intn(6)))
		for j := range bits {
			bits[j] = '0' + byte(c.R.Intn(2))
		}
		c.Emit("corner " + encPos(p) + " " + string(bits))
		c.Count("corner.anyposition")
	}
	// populate
	n = c.Scale(4000, 400000)
	for i := 0; i < n; i++ {
		p := randomPosition(c.R)
		classifyPos(c, p)
		out := c.Emit("mctspop " + encPos(p))
		if strings.Contains(out, ":1") || strings.Contains(out, ":-1") {
			c.Count("populate.has-proven-child")
		}
		if out == "-" {
			c.Count("populate.no-children")
		}
	}
	// update on random root-to-leaf paths
	n = c.Scale(20000, 2000000)
	pv := []int{-1, 0, 0, 0, 1, 1, -2, 3}
	for i := 0; i < n; i++ {
		depth := 1 + c.R.Intn(5)
		var toks []string
		for d := 0; d < depth; d++ {
			nd := mcts.VerifNode{Proven: pv[c.R.Intn(len(pv))], Sims: c.R.Intn(50), Value: c.R.Intn(41) - 20}
			if d > 0 {
				for s := c.R.Intn(4); s > 0; s-- {
					nd.Siblings = append(nd.Siblings, pv[c.R.Intn(len(pv))])
				}
			}
			toks = append(toks, fmtNode(nd))
		}
		val := c.R.Intn(3) - 1
		c.Emit("mctsupd " + strconv.Itoa(val) + " " + strings.Join(toks, " "))
		c.Count("update.depth" + strconv.Itoa(depth))
	}
	// the whole player
	n = c.Scale(96, 9600)
	for i := 0; i < n; i++ {
		size := 3 + c.R.Intn(6)
		var p *tak.Position
		corners := c.R.Chance(1, 2)
		if corners && c.R.Chance(2, 3) {
			// corner forcing acts on the first two plies
			_, p = randomLine(c.R, size, c.R.Intn(2))
		} else {
			for {
				_, p = randomLine(c.R, size, c.R.Intn(5*size))
				if over, _ := p.GameOver(); !over {
					break
				}
			}
		}
		policy := []string{"-", "uniform", "place_win"}[c.R.Intn(3)]
		limit := 150 + c.R.Intn(100)
		out := c.Emit("mcts " + policy + " " + strconv.Itoa(b2i(corners)) + " " + strconv.Itoa(limit) + " " + strconv.Itoa(1+c.R.Intn(1000000)) + " " + encPos(p))
		c.Count("mcts." + policy + ".corners" + strconv.Itoa(b2i(corners)) + "." + strings.SplitN(out, ":", 2)[0])
		if p.MoveNumber() < 2 {
			c.Count("mcts.opening-ply")
		}
	}
	genC04mctsReserves(c)
}

func init() {
	genTable["C04mcts"] = genC04mcts
}

// one move from a road, with the mover's reserve nearly or wholly gone: only capstones left, only flats left, one piece
// of each, custom piece counts - a shortcut that proposes "the" road-completing placement must still offer a legal one
func genC04mctsReserves(c *Ctx) {
	n := c.Scale(160, 8000)
	for i := 0; i < n; i++ {
		size := 3 + c.R.Intn(6)
		p := gapBoard(c.R, size, c)
		raw := p.VerifRaw()
		stones, caps := &raw.WS, &raw.WC
		if p.ToMove() == tak.Black {
			stones, caps = &raw.BS, &raw.BC
		}
		switch c.R.Intn(4) {
		case 0:
			*stones, *caps = 0, 1
			c.Count("mcts.reserve=caps-only")
		case 1:
			*stones, *caps = 1, 0
			c.Count("mcts.reserve=one-flat")
		case 2:
			*stones, *caps = 0, byte(1+c.R.Intn(2))
			raw.Pieces, raw.Capstones = size, 2
			c.Count("mcts.reserve=caps-only-custom-config")
		default:
			*stones, *caps = byte(1+c.R.Intn(3)), byte(c.R.Intn(2))
			c.Count("mcts.reserve=few")
		}
		if raw.Move < 2 {
			raw.Move += 2
		}
		q := tak.VerifFromRaw(raw)
		if over, _ := q.GameOver(); over {
			c.Count("mcts.reserve.skipped-over")
			continue
		}
		policy := []string{"-", "uniform", "place_win"}[c.R.Intn(3)]
		out := c.Emit("mcts " + policy + " 0 " + strconv.Itoa(60+c.R.Intn(60)) + " " + strconv.Itoa(1+c.R.Intn(1000000)) + " " + encPos(q))
		c.Count("mcts.reserve." + strings.SplitN(out, ":", 2)[0])
	}
}
