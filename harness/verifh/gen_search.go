package main

// Generators of the search properties: C05 (precise search = negamax, verdicts on reused engines),
// C16 (cancellation), C04ab (legality of what the alpha-beta player returns).

import (
	"fmt"
	"sort"
	"strconv"
	"strings"

	"github.com/nelhage/taktician/ai"
	"github.com/nelhage/taktician/tak"
)

// ---- position sources on small boards

func smallConfig(r *RNG, size int) tak.Config {
	cfg := tak.Config{Size: size, BlackWinsTies: r.Chance(1, 5)}
	if r.Chance(2, 5) {
		// reduced reserves: games end by exhaustion inside the search horizon
		cfg.Pieces = 2 + r.Intn(5)
		cfg.Capstones = r.Intn(2)
		if cfg.Capstones == 0 && defaultCaps[size] == 0 {
			cfg.Capstones = 0
		}
	}
	return cfg
}

// gameLine returns the positions of one biased random playout (the final one included).
func gameLine(r *RNG, cfg tak.Config, maxPlies int) []*tak.Position {
	var out []*tak.Position
	playout(r, cfg, maxPlies, func(p *tak.Position) { out = append(out, p) })
	return out
}

// isLive: not finished and with a legal move.  Constructed boards in the opening plies can have no move at all
// (ply 1 with White's stones exhausted: Black has to place a white flat) although GameOver() is false; such
// positions cannot arise in a game and are outside every claim about searching players.
func isLive(p *tak.Position) bool {
	over, _ := p.GameOver()
	return !over && len(legalMoves(p)) > 0
}

// livePosition: a not-finished position of a random game on the given size.
func livePosition(r *RNG, size int) *tak.Position {
	for {
		line := gameLine(r, smallConfig(r, size), 1+r.Intn(3*size*size))
		var live []*tak.Position
		for _, p := range line {
			if isLive(p) {
				live = append(live, p)
			}
		}
		if len(live) == 0 {
			continue
		}
		// bias towards late positions (near-terminal, low reserves)
		if r.Chance(1, 2) {
			return live[len(live)-1-r.Intn(minInt(3, len(live)))]
		}
		return live[r.Intn(len(live))]
	}
}

func minInt(a, b int) int {
	if a < b {
		return a
	}
	return b
}

// oneMovePosition: exactly one legal move (a full-but-one board in the opening plies, or only a capstone left).
func oneMovePosition(r *RNG, size int) *tak.Position {
	for tries := 0; tries < 200; tries++ {
		board := make([][]tak.Square, size)
		hx, hy := r.Intn(size), r.Intn(size)
		mover := tak.White
		ply := 2 * (1 + r.Intn(20))
		if r.Chance(1, 2) {
			mover = tak.Black
			ply++
		}
		opening := r.Chance(1, 2)
		if opening {
			ply = r.Intn(2)
		}
		for y := 0; y < size; y++ {
			board[y] = make([]tak.Square, size)
			for x := 0; x < size; x++ {
				if x == hx && y == hy {
					continue
				}
				col := mover.Flip()
				if opening && r.Chance(1, 2) {
					col = mover
				}
				board[y][x] = tak.Square{tak.MakePiece(col, tak.Standing)}
			}
		}
		cfg := tak.Config{Size: size, Pieces: size * size, Capstones: 1}
		p, err := tak.FromSquares(cfg, board, ply)
		if err != nil {
			continue
		}
		if isLive(p) && len(legalMoves(p)) == 1 {
			return p
		}
	}
	return nil
}

func sizeTag(c *Ctx, p *tak.Position) { c.Count("size" + strconv.Itoa(p.Size())) }

// ---- configuration tokens

type cfgSpec struct {
	size, depth     int
	tbl             int
	sort, null, red bool
	mc, dd          bool
	me              int
	rw, rs          int
	seed            int
	ev              string
}

func (s cfgSpec) tok() string {
	return fmt.Sprintf("sz=%d,d=%d,tbl=%d,sort=%d,null=%d,red=%d,mc=%d,dd=%d,me=%d,rw=%d,rs=%d,seed=%d,ev=%s",
		s.size, s.depth, s.tbl, b2i(s.sort), b2i(s.null), b2i(s.red), b2i(s.mc), b2i(s.dd), s.me, s.rw, s.rs, s.seed, s.ev)
}

func (s cfgSpec) precise() bool { return !s.null && !s.red && !s.mc }

var tinyTables = []int{2, 3, 5, 8, 16, 64, 257, 1024, 4096}

func pickDepth(r *RNG, size int, thorough bool) int {
	switch size {
	case 3:
		if thorough {
			return 1 + r.Intn(5)
		}
		return 1 + r.Intn(4)
	case 4:
		return 1 + r.Intn(3)
	default:
		if thorough {
			return 1 + r.Intn(3)
		}
		return 1 + r.Intn(2)
	}
}

func pickSize(r *RNG) int {
	switch x := r.Intn(10); {
	case x < 5:
		return 3
	case x < 8:
		return 4
	default:
		return 5
	}
}

func pickEv(r *RNG) string {
	if r.Chance(1, 2) {
		return "m"
	}
	return "w"
}

// exactCfg: a configuration the model mirrors exactly (NoSort).
func exactCfg(c *Ctx, size int, precise bool) cfgSpec {
	r := c.R
	s := cfgSpec{size: size, depth: pickDepth(r, size, c.Thorough()), tbl: -1, seed: 1, ev: pickEv(r)}
	if r.Chance(2, 3) {
		s.tbl = tinyTables[r.Intn(len(tinyTables))]
	}
	if !precise {
		s.null = r.Chance(1, 2)
		s.red = r.Chance(1, 2)
		s.mc = r.Chance(1, 2)
		if s.null || s.mc {
			// null-move and multi-cut need depth >= 3 / > 3 to do anything
			s.depth += 1 + r.Intn(2)
			if size == 5 && s.depth > 3 {
				s.depth = 3
			}
		}
	}
	if r.Chance(1, 8) {
		s.me = 1 + r.Intn(400)
	}
	// symmetry de-duplication only acts in the first plies; the model mirrors it through the symmetry model
	s.dd = r.Chance(1, 4)
	return s
}

func field(out, key string) string {
	for _, f := range strings.Fields(out) {
		if strings.HasPrefix(f, key+"=") {
			return f[len(key)+1:]
		}
	}
	return ""
}

func tagSearchOut(c *Ctx, pre, out string) {
	if out == "panic" || out == "hang" {
		c.Count(pre + "." + out)
		return
	}
	v, _ := strconv.ParseInt(field(out, "v"), 10, 64)
	switch {
	case v > ai.WinThreshold:
		c.Count(pre + ".v=win")
	case v < -ai.WinThreshold:
		c.Count(pre + ".v=loss")
	default:
		c.Count(pre + ".v=open")
	}
	c.Count(pre + ".depth=" + field(out, "d"))
	if field(out, "c") == "1" {
		c.Count(pre + ".canceled")
	}
}

// ---- work budgets: the model costs ~100 us per position, so every generator phase has a node budget per shard

type budget struct{ left int }

func newBudget(c *Ctx, quick, thorough int) *budget {
	n := quick
	if c.Thorough() {
		n = thorough
	}
	return &budget{left: n / c.NShard}
}

// take: false (and the budget counts as spent) when fewer than n units are left
func (b *budget) take(n int) bool {
	if n > b.left {
		b.left = 0
		return false
	}
	b.left -= n
	return true
}

func (b *budget) spent() bool { return b.left <= 0 }

// nmCost: number of positions an exhaustive negamax to depth d visits (counting stops at limit)
func nmCost(p *tak.Position, d int, limit int) int {
	n := 1
	over, _ := p.GameOver()
	if d <= 0 || over {
		return n
	}
	for _, m := range p.AllMoves(nil) {
		c, e := p.Move(m)
		if e != nil {
			continue
		}
		n += nmCost(c, d-1, limit-n)
		if n >= limit {
			return n
		}
	}
	return n
}

// searchCost: leaf evaluations + interior nodes of an Analyze line
func searchCost(out string) int {
	st := strings.Split(field(out, "st"), ",")
	if len(st) < 4 {
		return 1
	}
	return atoi(st[0]) + atoi(st[3]) + 1
}

// dryCost: what one Analyze of p costs on a fresh engine with this configuration
func dryCost(s cfgSpec, p *tak.Position) int {
	e := newEngine(s.size, s.tok())
	e.evals, e.cancelAt = 0, opCap+1 // give up (by cancelling) once the search is known to be too big
	_, _, st := e.ai.Analyze(ctxBackground, p)
	e.cancelAt = 0
	if st.Canceled {
		return 10 * opCap
	}
	return e.evals + int(st.Visited) + 1
}

const opCap = 25000 // no single op above this many model positions

// emitVerdict checks a reported (value, depth) against winner-only exhaustive negamax when that is affordable
func emitVerdict(c *Ctx, b *budget, p *tak.Position, d int, v string) {
	margin := verdictMargin(p.Size())
	cost := nmCost(p, d+margin, opCap+1)
	if cost > opCap || !b.take(2*cost) {
		c.Count("verdict.skipped-too-big")
		return
	}
	c.Emit(fmt.Sprintf("verdict %d %d %s %s", d, margin, encPos(p), v))
	c.Count("verdict.checked")
}

// ---- C05

func genC05(c *Ctx) {
	// the precise configuration as users obtain it (MinimaxConfig.MakePrecise on every combination of the three options)
	if c.Shard == 0 {
		for i := 0; i < 8; i++ {
			c.Emit(fmt.Sprintf("mkprecise null=%d,red=%d,mc=%d", i&1, i>>1&1, i>>2&1))
		}
	}
	r := c.R
	c.Timeout = 0
	// A: one Analyze on a fresh engine, compared field by field with the model
	bud := newBudget(c, 1800000, 80000000)
	for k := 0; !bud.spent() && k < 20000; k++ {
		size := pickSize(r)
		p := livePosition(r, size)
		s := exactCfg(c, size, r.Chance(1, 2))
		if cost := dryCost(s, p); cost > opCap || !bud.take(cost) {
			c.Count("A.skipped-too-big")
			if cost <= opCap {
				break
			}
			continue
		}
		sizeTag(c, p)
		c.Count("A.tbl=" + strconv.Itoa(s.tbl))
		if s.precise() {
			c.Count("A.precise")
		} else {
			c.Count("A.heuristic")
		}
		if s.dd && p.MoveNumber() < 4 {
			c.Count("A.dedup-active(ply<4)")
		}
		out := c.Emit("search " + s.tok() + " " + encPos(p))
		tagSearchOut(c, "A", out)
	}
	// A2: the engine's BUILT-IN evaluator (Evaluate left nil, as `taktician analyze`, serve and the playtak bots run it) on
	// one engine reused over the same board at different move numbers (the terminal bonus depends on the move number, the
	// position hash does not) and over the positions of a game line; exact against the model with the default weights
	bud = newBudget(c, 45000, 12000000)
	for k := 0; !bud.spent() && k < 4000; k++ {
		size := 3 + r.Intn(3)
		s := exactCfg(c, size, true)
		s.ev = "nil"
		s.me = 0
		s.depth = 1 + r.Intn(map[int]int{3: 3, 4: 2, 5: 2}[size])
		line := liveLine(r, size)
		p := line[r.Intn(len(line))]
		if cost := dryCost(s, p); cost > opCap/4 || !bud.take(4*cost) {
			c.Count("A2.skipped-too-big")
			continue
		}
		c.Emit(fmt.Sprintf("case C05nil-%d-%d", c.Shard, k))
		c.Emit("eng A " + s.tok())
		raw := p.VerifRaw()
		for j, dply := range []int{0, 2, 6, 0} {
			q := raw
			q.Move = raw.Move + dply
			if j == 3 {
				q = line[r.Intn(len(line))].VerifRaw()
			}
			out := c.Emit("an A " + encPos(tak.VerifFromRaw(q)))
			tagSearchOut(c, "A2", out)
		}
		c.Count("A2.builtin-evaluator-session")
	}
	// B: value / depth / first move against exhaustive negamax, sort on and off, symmetry de-duplication
	bud = newBudget(c, 1800000, 80000000)
	for k := 0; !bud.spent() && k < 20000; k++ {
		size := pickSize(r)
		p := livePosition(r, size)
		s := cfgSpec{size: size, depth: pickDepth(r, size, c.Thorough()), tbl: -1, seed: 1 + r.Intn(5), ev: pickEv(r),
			sort: r.Chance(1, 2), dd: r.Chance(1, 3)}
		cost := 0
		for d := 1; d <= s.depth; d++ {
			cost += nmCost(p, d, opCap+1)
		}
		if cost > opCap || !bud.take(3*cost) {
			c.Count("B.skipped-too-big")
			if cost <= opCap {
				break
			}
			continue
		}
		c.Count(fmt.Sprintf("B.sort=%d.dd=%d", b2i(s.sort), b2i(s.dd)))
		out := c.Emit("sval " + s.tok() + " " + encPos(p))
		tagSearchOut(c, "B", out)
		// the data form of the first-move claim, checked by the model's negamax
		e := newEngine(size, s.tok())
		pv, v, st := analyzeDirect(e, p)
		if len(pv) > 0 {
			c.Emit(fmt.Sprintf("attains %s %d %s %s %d", s.ev, st.Depth, encPos(p), encMove(pv[0]), v))
		}
		if !s.dd && r.Chance(1, 3) {
			c.Emit("allbest " + s.tok() + " " + encPos(p))
			c.Count("B.allbest")
		}
	}
	// C: histories on one engine, exact (NoSort): related / repeated positions, tiny tables, cancelled calls
	bud = newBudget(c, 2100000, 80000000)
	for k := 0; !bud.spent() && k < 20000; k++ {
		size := pickSize(r)
		s := exactCfg(c, size, r.Chance(2, 3))
		if s.tbl < 0 || r.Chance(1, 2) {
			s.tbl = tinyTables[r.Intn(len(tinyTables))]
		}
		s.me = 0
		line := liveLine(r, size)
		c.Emit(fmt.Sprintf("case C05h-%d-%d", c.Shard, k))
		c.Emit("eng A " + s.tok())
		steps := 3 + r.Intn(6)
		idx := r.Intn(len(line))
		for j := 0; j < steps; j++ {
			switch x := r.Intn(10); {
			case x < 3: // same position again
				c.Count("C.repeat")
			case x < 8: // a neighbour in the game
				idx += r.Intn(3) - 1
			default:
				idx = r.Intn(len(line))
			}
			if idx < 0 {
				idx = 0
			}
			if idx >= len(line) {
				idx = len(line) - 1
			}
			p := line[idx]
			if dryCost(s, p) > opCap {
				c.Count("C.skipped-too-big")
				continue
			}
			kk := 0
			if r.Chance(1, 6) {
				kk = 1 + r.Intn(60)
				c.Count("C.cancelled-call")
			}
			line1 := "an A " + encPos(p)
			if kk > 0 {
				line1 += " " + strconv.Itoa(kk)
			}
			out := c.Emit(line1)
			tagSearchOut(c, "C", out)
			bud.take(minInt(searchCost(out), bud.left))
			if kk == 0 && out != "panic" {
				if d := field(out, "d"); d != "0" {
					emitVerdict(c, bud, p, atoi(d), field(out, "v"))
				}
			}
			if r.Chance(1, 10) {
				c.Emit("gm A " + encPos(p))
				c.Count("C.getmove")
			}
			if r.Chance(1, 12) {
				out = c.Emit("aa A " + encPos(p))
				bud.take(minInt(searchCost(out), bud.left))
				c.Count("C.analyzeall")
			}
		}
	}
	// D: histories with sorting / de-duplication: the engine runs silently, its verdicts are checked
	bud = newBudget(c, 1200000, 60000000)
	for k := 0; !bud.spent() && k < 20000; k++ {
		size := pickSize(r)
		s := cfgSpec{size: size, depth: pickDepth(r, size, c.Thorough()), tbl: tinyTables[r.Intn(len(tinyTables))],
			seed: 1 + r.Intn(5), ev: pickEv(r), sort: r.Chance(3, 4), dd: r.Chance(1, 3)}
		if r.Chance(1, 6) {
			s.tbl = 0 // default size
		}
		line := liveLine(r, size)
		c.Emit(fmt.Sprintf("case C05s-%d-%d", c.Shard, k))
		c.Emit("eng A " + s.tok())
		steps := 3 + r.Intn(6)
		idx := r.Intn(len(line))
		for j := 0; j < steps; j++ {
			if !r.Chance(1, 3) {
				idx += r.Intn(3) - 1
			}
			if idx < 0 {
				idx = 0
			}
			if idx >= len(line) {
				idx = len(line) - 1
			}
			p := line[idx]
			c.Emit("anq A " + encPos(p))
			last, _ := c.S.slots["last:A"].(lastResult)
			bud.take(minInt(200+last.evals/20, bud.left)) // the model side does nothing here; bounds the Go time
			c.Count("D.depth=" + strconv.Itoa(last.depth))
			if last.depth > 0 {
				emitVerdict(c, bud, p, last.depth, strconv.FormatInt(last.v, 10))
			}
		}
	}
}

func verdictMargin(size int) int {
	if size == 3 {
		return 2
	}
	return 1
}

// liveLine: the live positions of one random game (at least two)
func liveLine(r *RNG, size int) []*tak.Position {
	for {
		var live []*tak.Position
		for _, p := range gameLine(r, smallConfig(r, size), 4+r.Intn(3*size*size)) {
			if isLive(p) {
				live = append(live, p)
			}
		}
		if len(live) >= 2 {
			return live
		}
	}
}

type lastResult struct {
	pv    []tak.Move
	v     int64
	depth int
	canc  bool
	evals int
}

func analyzeDirect(e *engine, p *tak.Position) ([]tak.Move, int64, ai.Stats) {
	e.evals, e.cancelAt = 0, 0
	return e.ai.Analyze(ctxBackground, p)
}

// ---- C16

func genC16(c *Ctx) {
	r := c.R
	if c.Thorough() && c.Shard == 0 {
		// data-race clause: supporting evidence only (see raceCheck)
		res, detail := raceCheck()
		c.Count("race-detector(supporting-evidence-only): " + detail)
		if res != "ok" {
			c.Emit("racecheck")
		}
	}
	bud := newBudget(c, 2400000, 160000000)
	for k := 0; !bud.spent() && k < 20000; k++ {
		size := pickSize(r)
		precise := r.Chance(1, 2)
		s := exactCfg(c, size, precise)
		s.me = 0
		if s.depth < 2 {
			s.depth = 2
		}
		line := liveLine(r, size)
		i0 := r.Intn(len(line))
		p := line[i0]
		p2 := line[minInt(len(line)-1, i0+r.Intn(3))]
		sizeTag(c, p)
		c.Count("tbl=" + strconv.Itoa(s.tbl))
		if precise {
			c.Count("precise")
		} else {
			c.Count("default-like")
		}
		// size of the uncancelled search
		if dryCost(s, p) > opCap || dryCost(s, p2) > opCap {
			c.Count("skipped-too-big")
			continue
		}
		e := newEngine(size, s.tok())
		analyzeDirect(e, p)
		total := e.evals
		if total > 3000 {
			c.Count("skipped-too-big")
			continue
		}
		c.Count("evals~" + strconv.Itoa(total/100*100))
		// cancellation points: every k for small searches (thorough: up to 2000 leaves), else a dense evenly
		// spaced sample plus the boundaries and some random points
		var ks []int
		if total <= 48 || (c.Thorough() && total <= 2000) {
			for i := 1; i <= total; i++ {
				ks = append(ks, i)
			}
		} else {
			want := 48
			if c.Thorough() {
				want = 400
			}
			ks = append(ks, 1, 2, total-1, total)
			off := r.Intn(total/want + 1)
			for i := 1 + off; i <= total; i += total/want + 1 {
				ks = append(ks, i)
			}
			for j := 0; j < 8; j++ {
				ks = append(ks, 1+r.Intn(total))
			}
		}
		c.Count("k-points~" + strconv.Itoa(len(ks)/16*16))
		// references that do not depend on k: the uninterrupted searches limited to each depth, and the
		// follow-up position on a fresh engine
		// the real path (context -> watcher goroutine -> flag) at a few of the points, and a context of an earlier,
		// finished call ending in the middle of the next call on the same engine
		for j := 0; j < 3 && len(ks) > 0; j++ {
			kk := ks[r.Intn(len(ks))]
			if !bud.take(3 * total) {
				break
			}
			c.Count("ctxc=" + clip(c.Emit(fmt.Sprintf("ctxc %s %s %d", s.tok(), encPos(p), kk)), 12))
			c.Count("ctxprev=" + clip(c.Emit(fmt.Sprintf("ctxprev %s %s %s %d", s.tok(), encPos(p), encPos(p2), 1+r.Intn(kk))), 12))
			c.Count("real-context-route")
		}
		refByDepth := map[int]string{}
		gmDone := 0
		ref2 := c.Emit("search " + s.tok() + " " + encPos(p2))
		bud.take(minInt(searchCost(ref2), bud.left))
		for _, kk := range ks {
			if !bud.take(kk + 2*searchCost(ref2)/3 + 50) {
				break
			}
			c.Emit(fmt.Sprintf("case C16-%d-%d-%d", c.Shard, k, kk))
			c.Emit("eng A " + s.tok())
			out := c.Emit(fmt.Sprintf("an A %s %d", encPos(p), kk))
			tagSearchOut(c, "cancelled", out)
			if out == "panic" {
				continue
			}
			// the property itself: identical to an uninterrupted search limited to the completed depth
			d := atoi(field(out, "d"))
			if d == 0 {
				c.Count("no-iteration-completed")
				c.Emit(fmt.Sprintf("eqclaim %s|%s pv=-|v=0", "pv="+field(out, "pv"), "v="+field(out, "v")))
			} else {
				ref, ok := refByDepth[d]
				if !ok {
					lim := s
					lim.depth = d
					ref = c.Emit("search " + lim.tok() + " " + encPos(p))
					bud.take(minInt(searchCost(ref), bud.left))
					refByDepth[d] = ref
				}
				c.Emit(fmt.Sprintf("eqclaim %s %s", sigOf(out), sigOf(ref)))
			}
			// the engine afterwards: an uncancelled search on the same engine, exact against the model,
			// and against the fresh-engine reference
			out2 := c.Emit("an A " + encPos(p2))
			if s.tbl < 0 && precise {
				c.Emit(fmt.Sprintf("eqclaim v=%s|d=%s v=%s|d=%s", field(out2, "v"), field(out2, "d"), field(ref2, "v"), field(ref2, "d")))
				c.Count("followup.value-equality")
			} else if field(out2, "d") != "0" && field(out2, "d") != "" {
				emitVerdict(c, bud, p2, atoi(field(out2, "d")), field(out2, "v"))
				c.Count("followup.verdict")
			}
			// GetMove on the reused engine, cancelled inside its first iteration, for a position the earlier search saw
			// as an interior node (a bot whose opponent played an unexpected reply): no iteration completed, so there is
			// no move to return - bound entries the table holds for the new root are not results for it
			if gmDone < 6 {
				gmDone++
				q := p2
				for j := 0; j < 1+r.Intn(2); j++ {
					ms := q.AllMoves(nil)
					for a := len(ms) - 1; a > 0; a-- {
						b := r.Intn(a + 1)
						ms[a], ms[b] = ms[b], ms[a]
					}
					for _, m := range ms {
						if n, err := q.Move(m); err == nil {
							if over, _ := n.GameOver(); !over {
								q = n
							}
							break
						}
					}
				}
				kq := 1 + r.Intn(3)
				outg := c.Emit(fmt.Sprintf("gm A %s %d", encPos(q), kq))
				if strings.HasPrefix(outg, "m=0,0,0,0 ") {
					c.Count("gm-cancelled-early.no-move")
				} else {
					c.Count("gm-cancelled-early.move")
				}
			}
		}
	}
}

// sigOf: value, PV, depth and the statistics counters of an Analyze line (not the cancel flag)
func sigOf(out string) string {
	return "pv=" + field(out, "pv") + "|v=" + field(out, "v") + "|d=" + field(out, "d") + "|st=" + field(out, "st")
}

// ---- C04 (alpha-beta part)

// bigBranchPosition: a 7x7 or 8x8 middle-game board on which the mover owns several tall stacks, so that the
// pseudo-legal move list is long (several hundred slides): move buffers, sorting and the frame arrays are stressed.
func bigBranchPosition(r *RNG) *tak.Position {
	return bigBranchSized(r, 7+r.Intn(2), 1+r.Intn(4))
}

// bigBranchSized: the same on a given size with a given number of tall stacks (more stacks, more moves)
func bigBranchSized(r *RNG, size, nst int) *tak.Position {
	for tries := 0; tries < 50; tries++ {
		board := make([][]tak.Square, size)
		for y := range board {
			board[y] = make([]tak.Square, size)
		}
		ply := 2 * (2 + r.Intn(30))
		mover := tak.White
		if r.Chance(1, 2) {
			mover = tak.Black
			ply++
		}
		spots := [][2]int{{0, 0}, {size - 1, 0}, {0, size - 1}, {size - 1, size - 1}, {size / 2, size / 2}, {0, size / 2}, {size / 2, 0}}
		caps := 0
		placed := 0
		for k := 0; k < 4*nst && placed < nst; k++ {
			sp := spots[r.Intn(len(spots))]
			if board[sp[1]][sp[0]] != nil {
				continue
			}
			h := size - 1 + r.Intn(6)
			sq := make(tak.Square, h)
			kind := tak.Flat
			if caps == 0 && r.Chance(1, 3) {
				kind = tak.Capstone
				caps++
			}
			sq[0] = tak.MakePiece(mover, kind)
			for j := 1; j < h; j++ {
				sq[j] = tak.MakePiece([]tak.Color{tak.White, tak.Black}[r.Intn(2)], tak.Flat)
			}
			board[sp[1]][sp[0]] = sq
			placed++
		}
		// a few single pieces of both colours elsewhere
		for k := 0; k < r.Intn(8); k++ {
			x, y := r.Intn(size), r.Intn(size)
			if board[y][x] == nil {
				kd := tak.Flat
				if r.Chance(1, 4) {
					kd = tak.Standing
				}
				board[y][x] = tak.Square{tak.MakePiece([]tak.Color{tak.White, tak.Black}[r.Intn(2)], kd)}
			}
		}
		p, err := tak.FromSquares(tak.Config{Size: size}, board, ply)
		if err != nil || !isLive(p) {
			continue
		}
		return p
	}
	return nil
}

func genC04ab(c *Ctx) {
	r := c.R
	n := c.Scale(900, 60000)
	kinds := []string{"gm", "gm", "an", "aa"}
	for k := 0; k < n; k++ {
		size := 3 + r.Intn(6)
		if r.Chance(1, 2) {
			size = 3 + r.Intn(3)
		}
		var p *tak.Position
		switch x := r.Intn(10); {
		case x < 1:
			p = oneMovePosition(r, size)
			if p != nil {
				c.Count("pos.one-legal-move")
			}
		case x < 2:
			p = bigBranchPosition(r)
			if p != nil {
				c.Count(fmt.Sprintf("pos.big-branching.moves~%d", len(p.AllMoves(nil))/100*100))
			}
		case x < 4:
			p = randomPosition(r)
			if !isLive(p) {
				p = nil
			} else {
				size = p.Size()
				c.Count("pos.shared-source")
			}
		}
		if p == nil {
			p = livePosition(r, size)
			c.Count("pos.playout")
		}
		size = p.Size()
		sizeTag(c, p)
		if p.WhiteStones() < 3 || p.BlackStones() < 3 {
			c.Count("pos.low-reserve")
		}
		s := latticeCfg(c, size)
		kind := kinds[r.Intn(len(kinds))]
		c.Count("kind=" + kind)
		out := c.Emit("c04 " + kind + " " + s.tok() + " " + encPos(p))
		c.Count("out=" + strings.Fields(out + " x")[0])
		// tie the Go notion of "legal" used above to the rule book for the move actually returned
		if m, ok := safeGetMove(size, s.tok(), p); ok {
			c.Emit("slegalmem " + encPos(p) + " " + encMove(m))
		}
	}
	// table budgets in bytes, from below one entry upwards
	for _, mem := range []int64{1, 8, 31, 32, 33, 63, 64, 65, 100, 1000, 4096} {
		if int(mem)%c.NShard != c.Shard {
			continue
		}
		for j := 0; j < 3; j++ {
			p := livePosition(r, 3+r.Intn(3))
			c.Count("c04mem=" + clip(c.Emit(fmt.Sprintf("c04mem %d %d %s", mem, 1+r.Intn(2), encPos(p))), 8))
		}
	}
	// the bot's pattern: one engine, a context per move; the first move's context ends inside the second search
	// (at its very first leaves, in the middle, near the end)
	n = c.Scale(60, 4000)
	for k := 0; k < n; k++ {
		size := 3 + r.Intn(3)
		s := latticeCfg(c, size)
		s.me = 0
		if s.depth > 3 {
			s.depth = 3
		}
		line := liveLine(r, size)
		if len(line) < 3 {
			continue
		}
		i := r.Intn(len(line) - 2)
		kk := []int{1, 1, 2, 3, 1 + r.Intn(40), 1 + r.Intn(400)}[r.Intn(6)]
		c.Count("gmprev=" + clip(c.Emit(fmt.Sprintf("gmprev %s %s %s %d", s.tok(), encPos(line[i]), encPos(line[i+2]), kk)), 16))
	}
	// stale hints: one engine reused across unrelated positions of the same size
	n = c.Scale(60, 6000)
	for k := 0; k < n; k++ {
		size := 3 + r.Intn(4)
		s := latticeCfg(c, size)
		if s.tbl < 0 {
			s.tbl = []int{1, 2, 3, 4, 64, 0}[r.Intn(6)]
		}
		c.Emit(fmt.Sprintf("case C04s-%d-%d", c.Shard, k))
		c.Emit("eng A " + s.tok())
		for j := 0; j < 6; j++ {
			var p *tak.Position
			if r.Chance(1, 8) {
				p = oneMovePosition(r, size)
			}
			if p == nil {
				p = livePosition(r, size)
			}
			kind := kinds[r.Intn(len(kinds))]
			out := c.Emit("c04s " + kind + " A " + encPos(p))
			c.Count("stale.out=" + strings.Fields(out + " x")[0])
		}
	}
	// related positions on one engine with a table: the positions of one game line visited in take-back order (P+m, then
	// P) and forwards, depth 3..5: table entries and PV hints of a sibling line meet the next search; every reported
	// line must replay (non-decisive values) - a PV assembled from a table hit plus the tail of another line does not
	n = c.Scale(3000, 80000)
	for k := 0; k < n; k++ {
		size := 3 + r.Intn(3)
		s := latticeCfg(c, size)
		s.me, s.rw, s.rs = 0, 0, 0
		s.depth = 3 + r.Intn(map[int]int{3: 3, 4: 2, 5: 1}[size])
		if s.tbl < 0 || s.tbl > 0 && s.tbl < 64 {
			s.tbl = []int{0, 1024, 4096}[r.Intn(3)]
		}
		line := liveLine(r, size)
		if len(line) < 3 {
			continue
		}
		i := 1 + r.Intn(len(line)-1)
		c.Emit(fmt.Sprintf("case C04rel-%d-%d", c.Shard, k))
		c.Emit("eng A " + s.tok())
		order := []int{i, i - 1}
		if i >= 2 && r.Chance(1, 2) {
			order = append(order, i-2)
		}
		if r.Chance(1, 4) {
			order = []int{i - 1, i, i - 1}
		}
		for _, j := range order {
			kind := []string{"an", "an", "aa"}[r.Intn(3)]
			out := c.Emit("c04s " + kind + " A " + encPos(line[j]))
			c.Count("related.out=" + strings.Fields(out + " x")[0] + strings.Fields(out + " x x")[1])
		}
	}
	// one engine reused across 3-5 big-branching positions of one size (7x7/8x8, a few hundred to ~2000 generated
	// moves, in increasing or in random order of move count): the per-frame move and sort buffers are reused
	// across searches and have to follow the largest list seen; sorting on, depth 2, table on and off
	n = c.Scale(16, 800)
	for k := 0; k < n; k++ {
		size := 7 + r.Intn(2)
		s := latticeCfg(c, size)
		s.sort = true
		s.depth = 2
		s.me = 0
		s.ev = []string{"def", "m"}[r.Intn(2)]
		if r.Chance(1, 2) {
			s.tbl = -1
		}
		var ps []*tak.Position
		want := 3 + r.Intn(3)
		for len(ps) < want {
			if p := bigBranchSized(r, size, 1+len(ps)%4+r.Intn(2)); p != nil && len(p.AllMoves(nil)) <= 2200 {
				ps = append(ps, p)
			}
		}
		if r.Chance(2, 3) {
			sort.Slice(ps, func(i, j int) bool { return len(ps[i].AllMoves(nil)) < len(ps[j].AllMoves(nil)) })
			c.Count("bigsession.increasing")
		} else {
			c.Count("bigsession.random-order")
		}
		c.Emit(fmt.Sprintf("case C04big-%d-%d", c.Shard, k))
		c.Emit("eng A " + s.tok())
		for _, p := range ps {
			c.Count(fmt.Sprintf("bigsession.moves~%d", len(p.AllMoves(nil))/250*250))
			kind := []string{"gm", "an"}[r.Intn(2)]
			out := c.Emit("c04s " + kind + " A " + encPos(p))
			c.Count("bigsession.out=" + strings.Fields(out + " x")[0])
		}
	}
}

// safeGetMove: GetMove on a fresh engine; ok=false when the engine panicked (the c04 op line reports that)
func safeGetMove(size int, tok string, p *tak.Position) (m tak.Move, ok bool) {
	defer func() {
		if r := recover(); r != nil {
			ok = false
		}
	}()
	e := newEngine(size, tok)
	return e.ai.GetMove(ctxBackground, p), true
}

// latticeCfg draws from the option lattice of C04.
func latticeCfg(c *Ctx, size int) cfgSpec {
	r := c.R
	s := cfgSpec{size: size, seed: 1 + r.Intn(8), ev: []string{"def", "def", "w", "m"}[r.Intn(4)]}
	maxd := map[int]int{3: 6, 4: 4, 5: 3, 6: 3, 7: 2, 8: 2}[size]
	if !c.Thorough() && maxd > 4 {
		maxd = 4
	}
	s.depth = 1 + r.Intn(maxd)
	s.sort = r.Chance(1, 2)
	s.null = r.Chance(1, 2)
	s.red = r.Chance(1, 2)
	s.mc = r.Chance(1, 2)
	s.dd = r.Chance(1, 3)
	if r.Chance(1, 4) { // precise
		s.null, s.red, s.mc = false, false, false
	}
	switch x := r.Intn(6); {
	case x < 2:
		s.tbl = -1
	case x < 4:
		s.tbl = []int{1, 2, 3, 4, 7, 64}[r.Intn(6)]
	case x < 5:
		s.tbl = 1024
	default:
		s.tbl = 0
	}
	if r.Chance(1, 4) {
		s.me = 1 + r.Intn(2000)
	}
	if r.Chance(1, 3) {
		s.rw = []int{1, 5, 50, 1000, 100000}[r.Intn(5)]
		if r.Chance(1, 3) {
			s.rs = []int{2, 7, 100, 1000000}[r.Intn(4)]
			c.Count("cfg.randomize-scale>1")
		}
	}
	if size == 3 && c.Thorough() && r.Chance(1, 10) {
		s.depth = 7 + r.Intn(9)
		s.me = 20000
	}
	c.Count(fmt.Sprintf("cfg.sort=%d", b2i(s.sort)))
	c.Count(fmt.Sprintf("cfg.tbl=%d", s.tbl))
	c.Count(fmt.Sprintf("cfg.depth=%d", s.depth))
	if s.rw > 0 {
		c.Count("cfg.randomize")
	}
	if s.precise() {
		c.Count("cfg.precise")
	}
	return s
}

func init() {
	genTable["C05"] = genC05
	genTable["C16"] = genC16
	genTable["C04ab"] = genC04ab
}
