package main

// Ops of the search properties (C04 alpha-beta part, C05, C16): the real ai.MinimaxAI.

import (
	"context"
	"fmt"
	"os"
	"os/exec"
	"path/filepath"
	"sort"
	"strconv"
	"strings"
	"time"

	"github.com/nelhage/taktician/ai"
	"github.com/nelhage/taktician/bitboard"
	"github.com/nelhage/taktician/tak"
)

// ---- evaluators that exist identically in the Lean model

func evalWinner(c *bitboard.Constants, p *tak.Position) int64 { return ai.EvaluateWinner(c, p) }

// evalMat: finished games like EvaluateWinner but preferring early wins; otherwise
// 10 x flat-count difference + reserve difference, from the mover's point of view.
func evalMat(_ *bitboard.Constants, p *tak.Position) int64 {
	if over, winner := p.GameOver(); over {
		if winner == tak.NoColor {
			return 0
		}
		v := int64(ai.WinBase) - int64(p.MoveNumber())
		if winner == p.ToMove() {
			return v
		}
		return -v
	}
	w := int64(bitboard.Popcount(p.White &^ (p.Standing | p.Caps)))
	b := int64(bitboard.Popcount(p.Black &^ (p.Standing | p.Caps)))
	d := 10*(w-b) + int64(p.BlackStones()) - int64(p.WhiteStones())
	if p.ToMove() == tak.White {
		return d
	}
	return -d
}

// ---- configuration token

type searchCfg struct {
	kv map[string]string
}

func parseKV(tok string) map[string]string {
	kv := map[string]string{}
	for _, f := range strings.Split(tok, ",") {
		p := strings.SplitN(f, "=", 2)
		if len(p) == 2 {
			kv[p[0]] = p[1]
		}
	}
	return kv
}

func kvInt(kv map[string]string, k string, d int64) int64 {
	if v, ok := kv[k]; ok {
		n, err := strconv.ParseInt(v, 10, 64)
		if err == nil {
			return n
		}
	}
	return d
}

const tableEntryBytes = 32 // unsafe.Sizeof(ai.tableEntry{}); checked against the real table length below

type engine struct {
	ai       *ai.MinimaxAI
	evals    int
	cancelAt int
	// real-context route (ctxc/ctxprev ops): called once, inside the leaf evaluation number hookAt
	hookAt int
	hook   func()
}

func newEngine(size int, tok string) *engine {
	kv := parseKV(tok)
	e := &engine{}
	cfg := ai.MinimaxConfig{
		Size:            size,
		Depth:           int(kvInt(kv, "d", 0)),
		MaxEvals:        uint64(kvInt(kv, "me", 0)),
		Seed:            kvInt(kv, "seed", 1),
		RandomizeWindow: kvInt(kv, "rw", 0),
		RandomizeScale:  kvInt(kv, "rs", 0),
		NoSort:          kvInt(kv, "sort", 0) == 0,
		NoNullMove:      kvInt(kv, "null", 0) == 0,
		NoReduceSlides:  kvInt(kv, "red", 0) == 0,
		MultiCut:        kvInt(kv, "mc", 0) == 1,
		DedupSymmetry:   kvInt(kv, "dd", 0) == 1,
	}
	tbl := kvInt(kv, "tbl", -1)
	switch {
	case tbl < 0:
		cfg.TableMem = -1
	case tbl == 0:
		cfg.TableMem = 0 // the default size
	default:
		cfg.TableMem = tbl * tableEntryBytes
	}
	var base ai.EvaluationFunc
	switch kv["ev"] {
	case "m":
		base = evalMat
	case "def":
		base = ai.MakeEvaluator(size, nil)
	default:
		base = evalWinner
	}
	if kv["ev"] == "nil" {
		// the engine's own evaluator (MinimaxConfig.Evaluate left nil): no leaf counter, hence no cancellation by leaf
		e.ai = ai.NewMinimax(cfg)
		if tbl > 0 && e.ai.VerifTableLen() != int(tbl) {
			panic("verifh: size of ai.tableEntry changed")
		}
		return e
	}
	cfg.Evaluate = func(c *bitboard.Constants, p *tak.Position) int64 {
		v := base(c, p)
		e.evals++
		if e.cancelAt > 0 && e.evals >= e.cancelAt {
			e.ai.VerifCancel()
		}
		if e.hook != nil && e.evals == e.hookAt {
			h := e.hook
			e.hook = nil
			h()
		}
		return v
	}
	e.ai = ai.NewMinimax(cfg)
	if tbl > 0 && e.ai.VerifTableLen() != int(tbl) {
		panic("verifh: size of ai.tableEntry changed")
	}
	return e
}

// ---- digests of engine state (the Lean driver computes the same)

func mix(h, x uint64) uint64 { return (h ^ x) * 1099511628211 }

const fnvOff = 14695981039346656037

func moveWord(m tak.Move) uint64 {
	return uint64(uint8(m.X)) | uint64(uint8(m.Y))<<8 | uint64(m.Type)<<16 | uint64(m.Slides)<<24
}

func digEngine(e *engine) string {
	n := 0
	h := uint64(fnvOff)
	for i, te := range e.ai.VerifTable() {
		if te.Hash == 0 && te.Value == 0 && te.Bound == 0 && te.Depth == 0 && moveWord(te.M) == 0 {
			continue
		}
		n++
		h = mix(h, uint64(i))
		h = mix(h, te.Hash)
		h = mix(h, uint64(te.Value))
		h = mix(h, moveWord(te.M))
		h = mix(h, uint64(te.Bound))
		h = mix(h, uint64(int64(te.Depth)))
	}
	var rs uint64
	resp := e.ai.VerifResponse()
	for k, v := range resp {
		rs += mix(mix(fnvOff, moveWord(k)), moveWord(v))
	}
	pv0, ms := e.ai.VerifFrames()
	f := uint64(fnvOff)
	for _, m := range pv0 {
		f = mix(f, moveWord(m))
	}
	for _, m := range ms {
		f = mix(f, moveWord(m))
	}
	return fmt.Sprintf("tt=%d:%d rs=%d:%d fr=%d", n, h, len(resp), rs, f)
}

func fmtPV(ms []tak.Move) string {
	if len(ms) == 0 {
		return "-"
	}
	parts := make([]string, len(ms))
	for i, m := range ms {
		parts[i] = encMove(m)
	}
	return strings.Join(parts, ";")
}

func fmtStats(st ai.Stats) string {
	return fmt.Sprintf("d=%d c=%d st=%d,%d,%d,%d,%d,%d,%d,%d,%d,%d,%d,%d,%d,%d,%d,%d,%d",
		st.Depth, b2i(st.Canceled),
		st.Evaluated, st.Scout, st.Terminal, st.Visited, st.CutNodes, st.NullSearch, st.NullCut,
		st.Cut0, st.Cut1, st.CutSearch, st.ReSearch, st.AllNodes, st.TTHits, st.TTShortcut,
		st.ReducedSlides, st.MCSearch, st.MCCut)
}

func (e *engine) analyze(p *tak.Position, k int) string {
	e.evals = 0
	e.cancelAt = k
	pv, v, st := e.ai.Analyze(context.Background(), p)
	e.cancelAt = 0
	return fmt.Sprintf("pv=%s v=%d %s %s", fmtPV(pv), v, fmtStats(st), digEngine(e))
}

var ctxBackground = context.Background()

// ctxCompare: reference engine with the same history (an uninterrupted Analyze of `before`, if any), then an
// uninterrupted Analyze of p limited to the depth the observed call reported.
func ctxCompare(tok string, before, p *tak.Position, pv []tak.Move, v int64, st ai.Stats) string {
	kv := parseKV(tok)
	lim := tok
	if st.Canceled {
		if st.Depth == 0 {
			if len(pv) != 0 || v != 0 {
				return "no-iteration-completed-but-result-returned"
			}
			return "ok"
		}
		if int64(st.Depth) > kvInt(kv, "d", 0) && kvInt(kv, "d", 0) > 0 {
			return "reported-depth-above-limit"
		}
		lim = tok + ",d=" + strconv.Itoa(st.Depth)
	}
	ref := newEngine(p.Size(), lim)
	if before != nil {
		full := newEngine(p.Size(), tok)
		full.ai.Analyze(ctxBackground, before)
		// the reference for a truncated search needs the same prior history under the depth limit of the first call
		// (tok), then the limited depth: rebuild through VerifSetDepth is not available, so only uncancelled results
		// are compared on engines with history
		if st.Canceled {
			return "ok"
		}
		ref = full
	}
	pv2, v2, st2 := ref.ai.Analyze(ctxBackground, p)
	if v != v2 || st.Depth != st2.Depth || fmtPV(pv) != fmtPV(pv2) {
		return fmt.Sprintf("differs got=%s/%d/d%d want=%s/%d/d%d", fmtPV(pv), v, st.Depth, fmtPV(pv2), v2, st2.Depth)
	}
	return "ok"
}

func optK(a []string, i int) int {
	if len(a) > i {
		return atoi(a[i])
	}
	return 0
}

func slotEngine(s *Session, name string) *engine {
	e, _ := s.slots["eng:"+name].(*engine)
	return e
}

// ---- an independent exhaustive negamax over the real rules (for the Go-side answers of spec ops)

func goEval(ev string) ai.EvaluationFunc {
	if ev == "m" {
		return evalMat
	}
	return evalWinner
}

func goNegamax(ev ai.EvaluationFunc, p *tak.Position, d int) int64 {
	over, _ := p.GameOver()
	if d <= 0 || over {
		return ev(nil, p)
	}
	best := int64(ai.MinEval - 1)
	for _, m := range p.AllMoves(nil) {
		c, e := p.Move(m)
		if e != nil {
			continue
		}
		if v := -goNegamax(ev, c, d-1); v > best {
			best = v
		}
	}
	return best
}

// replayPV: index of the first illegal move of the line, -1 if it replays
func replayPV(p *tak.Position, pv []tak.Move) int {
	for i, m := range pv {
		n, err := p.Move(m)
		if err != nil {
			return i
		}
		p = n
	}
	return -1
}

func decisive(v int64) bool { return v > ai.WinThreshold || v < -ai.WinThreshold }

// generated: the move value is literally one of p.AllMoves (C04_pv.analyze_pv_head_generated_tak: the searching
// players never return a hint that is merely Equal to a generated move, e.g. a placement with a stray Slides word)
func generated(p *tak.Position, m tak.Move) bool {
	for _, g := range p.AllMoves(nil) {
		if g == m {
			return true
		}
	}
	return false
}

// c04Check runs one engine entry point and reports legality of what came back.
func c04Check(e *engine, kind string, p *tak.Position) string {
	before := dumpPos(p) + "|" + absDump(p)
	out := c04CheckInner(e, kind, p)
	if dumpPos(p)+"|"+absDump(p) != before {
		// the position handed to a searching player belongs to the caller
		return "input-position-modified " + out
	}
	return out
}

func c04CheckInner(e *engine, kind string, p *tak.Position) string {
	e.evals = 0
	e.cancelAt = 0
	ctx := context.Background()
	switch kind {
	case "gm":
		m := e.ai.GetMove(ctx, p)
		if _, err := p.Move(m); err != nil {
			return "illegal " + encMove(m)
		}
		if !generated(p, m) {
			return "ungenerated " + encMove(m)
		}
		return "legal pvok"
	case "an":
		pv, v, _ := e.ai.Analyze(ctx, p)
		if len(pv) == 0 {
			return "nomove"
		}
		if _, err := p.Move(pv[0]); err != nil {
			return "illegal " + encMove(pv[0])
		}
		if !generated(p, pv[0]) {
			return "ungenerated " + encMove(pv[0])
		}
		// C04_pv.pv_replays: the whole line replays whenever the value is inside the root window
		if v >= ai.MinEval && v <= ai.MaxEval {
			if i := replayPV(p, pv); i >= 0 {
				return fmt.Sprintf("legal pvbad@%d %s v=%d", i, fmtPV(pv), v)
			}
		}
		return "legal pvok"
	case "aa":
		pvs, v, _ := e.ai.AnalyzeAll(ctx, p)
		if len(pvs) == 0 {
			return "nomove"
		}
		for _, pv := range pvs {
			if len(pv) == 0 {
				return "emptypv"
			}
			if _, err := p.Move(pv[0]); err != nil {
				return "illegal " + encMove(pv[0])
			}
			if !generated(p, pv[0]) {
				return "ungenerated " + encMove(pv[0])
			}
			if !decisive(v) {
				if i := replayPV(p, pv); i >= 0 {
					return fmt.Sprintf("legal pvbad@%d %s v=%d", i, fmtPV(pv), v)
				}
			}
		}
		return "legal pvok"
	}
	return "bad-kind"
}

func init() {
	opTable["search"] = func(s *Session, a []string) string {
		p := decPos(a[1])
		e := newEngine(p.Size(), a[0])
		return e.analyze(p, optK(a, 2))
	}
	opTable["eng"] = func(s *Session, a []string) string {
		// the board size is part of the token: sz=<n>
		kv := parseKV(a[1])
		s.slots["eng:"+a[0]] = newEngine(int(kvInt(kv, "sz", 5)), a[1])
		return "ok"
	}
	opTable["an"] = func(s *Session, a []string) string {
		e := slotEngine(s, a[0])
		if e == nil {
			return "bad-slot"
		}
		return e.analyze(decPos(a[1]), optK(a, 2))
	}
	// anq: Analyze on a slot engine without printing the (order-dependent) result; the generator
	// reads it from the session and emits the claims about it as separate data ops
	opTable["anq"] = func(s *Session, a []string) string {
		e := slotEngine(s, a[0])
		if e == nil {
			return "bad-slot"
		}
		pv, v, st := analyzeDirect(e, decPos(a[1]))
		s.slots["last:"+a[0]] = lastResult{pv: append([]tak.Move(nil), pv...), v: v, depth: st.Depth, canc: st.Canceled, evals: e.evals}
		return "ok"
	}
	opTable["gm"] = func(s *Session, a []string) string {
		e := slotEngine(s, a[0])
		if e == nil {
			return "bad-slot"
		}
		e.evals, e.cancelAt = 0, optK(a, 2)
		m := e.ai.GetMove(context.Background(), decPos(a[1]))
		e.cancelAt = 0
		return "m=" + encMove(m) + " " + digEngine(e)
	}
	opTable["aa"] = func(s *Session, a []string) string {
		e := slotEngine(s, a[0])
		if e == nil {
			return "bad-slot"
		}
		e.evals, e.cancelAt = 0, 0
		pvs, v, st := e.ai.AnalyzeAll(context.Background(), decPos(a[1]))
		parts := make([]string, len(pvs))
		for i, pv := range pvs {
			parts[i] = fmtPV(pv)
		}
		return fmt.Sprintf("pvs=%s v=%d %s %s", strings.Join(parts, "|"), v, fmtStats(st), digEngine(e))
	}
	// ---- the real cancellation path: context -> watcher goroutine -> flag.  The moment the flag becomes visible is up
	// to the scheduler, so these ops print the property-level comparison only ("ok" is required by C16.cancel_truncates
	// whatever that moment is): the result equals an uninterrupted Analyze limited to the reported depth, from the same
	// engine state (here: engines with identical histories).
	opTable["ctxc"] = func(s *Session, a []string) string {
		p := decPos(a[1])
		k := atoi(a[2])
		e := newEngine(p.Size(), a[0])
		ctx, cancel := context.WithCancel(context.Background())
		defer cancel()
		e.evals, e.cancelAt = 0, 0
		e.hookAt, e.hook = k, func() { cancel(); time.Sleep(500 * time.Microsecond) }
		pv, v, st := e.ai.Analyze(ctx, p)
		e.hook = nil
		return ctxCompare(a[0], nil, p, pv, v, st)
	}
	// ctxprev: Analyze(ctx1, p1) runs to the end with ctx1 still live; ctx1 ends while the same engine analyses p2 under a
	// context of its own that never ends.  The second result must be the uninterrupted one.
	opTable["ctxprev"] = func(s *Session, a []string) string {
		p1, p2 := decPos(a[1]), decPos(a[2])
		k := atoi(a[3])
		e := newEngine(p1.Size(), a[0])
		ctx1, cancel1 := context.WithCancel(context.Background())
		defer cancel1()
		e.evals, e.cancelAt = 0, 0
		e.ai.Analyze(ctx1, p1)
		ctx2, cancel2 := context.WithCancel(context.Background())
		defer cancel2()
		e.evals = 0
		e.hookAt, e.hook = k, func() { cancel1(); time.Sleep(500 * time.Microsecond) }
		pv, v, st := e.ai.Analyze(ctx2, p2)
		e.hook = nil
		if st.Canceled {
			return fmt.Sprintf("second-search-cancelled-by-first-context d=%d", st.Depth)
		}
		return ctxCompare(a[0], p1, p2, pv, v, st)
	}
	// gmprev: the bot's pattern - one engine, one cancellable context per move.  GetMove(ctx1, p1) returns with ctx1 still
	// live; ctx1 is released in the middle of GetMove(ctx2, p2).  The second move is the uninterrupted engine's move
	// for p2 (and so a legal move); the first call's context is no business of the second call.
	opTable["gmprev"] = func(s *Session, a []string) string {
		p1, p2 := decPos(a[1]), decPos(a[2])
		k := atoi(a[3])
		e := newEngine(p1.Size(), a[0])
		ctx1, cancel1 := context.WithCancel(context.Background())
		defer cancel1()
		e.evals, e.cancelAt = 0, 0
		e.ai.GetMove(ctx1, p1)
		ctx2, cancel2 := context.WithCancel(context.Background())
		defer cancel2()
		e.evals = 0
		e.hookAt, e.hook = k, func() { cancel1(); time.Sleep(500 * time.Microsecond) }
		m := e.ai.GetMove(ctx2, p2)
		e.hook = nil
		ref := newEngine(p1.Size(), a[0])
		ref.ai.GetMove(ctxBackground, p1)
		want := ref.ai.GetMove(ctxBackground, p2)
		if _, err := p2.Move(m); err != nil {
			return "illegal-move-after-earlier-context-ended got=" + encMove(m) + " want=" + encMove(want)
		}
		if m != want {
			return "move-changed-by-earlier-context got=" + encMove(m) + " want=" + encMove(want)
		}
		return "ok"
	}
	opTable["sval"] = func(s *Session, a []string) string {
		p := decPos(a[1])
		e := newEngine(p.Size(), a[0])
		_, v, st := e.ai.Analyze(context.Background(), p)
		return fmt.Sprintf("v=%d d=%d", v, st.Depth)
	}
	opTable["attains"] = func(s *Session, a []string) string { return "1" }
	opTable["allbest"] = func(s *Session, a []string) string {
		p := decPos(a[1])
		e := newEngine(p.Size(), a[0])
		pvs, v, st := e.ai.AnalyzeAll(context.Background(), p)
		var first []tak.Move
		for _, pv := range pvs {
			if len(pv) > 0 {
				first = append(first, pv[0])
			}
		}
		return fmt.Sprintf("v=%d d=%d first=%s", v, st.Depth, fmtMoves(first))
	}
	opTable["verdict"] = func(s *Session, a []string) string { return "ok" }
	opTable["eqclaim"] = func(s *Session, a []string) string { return "1" }
	opTable["c04"] = func(s *Session, a []string) string {
		p := decPos(a[2])
		return c04Check(newEngine(p.Size(), a[1]), a[0], p)
	}
	// c04mem <TableMem bytes> <depth> <pos>: the table budget as the caller states it, in BYTES (the `-table-mem` flag), down
	// to budgets that do not pay for a single entry: GetMove answers a legal move
	opTable["c04mem"] = func(s *Session, a []string) string {
		p := decPos(a[2])
		mem, _ := strconv.ParseInt(a[0], 10, 64)
		m := ai.NewMinimax(ai.MinimaxConfig{Size: p.Size(), Depth: atoi(a[1]), TableMem: mem, Seed: 1}).GetMove(context.Background(), p)
		if _, err := p.Move(m); err != nil {
			return "illegal:" + encMove(m)
		}
		return "legal"
	}
	opTable["c04s"] = func(s *Session, a []string) string {
		e := slotEngine(s, a[1])
		if e == nil {
			return "bad-slot"
		}
		return c04Check(e, a[0], decPos(a[2]))
	}
	opTable["slegalmem"] = func(s *Session, a []string) string {
		p := decPos(a[0])
		if _, err := p.Move(decMove(a[1])); err != nil {
			return "0"
		}
		return "1"
	}
	// supporting evidence for the data-race clause of C16 (thorough tier only)
	opTable["racecheck"] = func(s *Session, a []string) string {
		r, _ := raceCheck()
		return r
	}
	opTable["negamax"] = func(s *Session, a []string) string {
		return strconv.FormatInt(goNegamax(goEval(a[0]), decPos(a[2]), atoi(a[1])), 10)
	}
}

// raceCheck runs the repository's concurrent-cancel tests (a watcher goroutine stores the cancel flag while the
// search loads it) under the race detector. SUPPORTING EVIDENCE ONLY: data-race freedom is outside the Lean model,
// and a clean run of a dynamic detector is not a proof. Returns "ok" (clean, or the detector is not available:
// then tagged skipped by the caller through the returned detail) or "race-detected".
func raceCheck() (result, detail string) {
	repo := os.Getenv("VERIF_REPO")
	if repo == "" {
		repo = "/repo"
	}
	exe, err := os.Executable()
	if err != nil {
		return "ok", "skipped: no executable path"
	}
	modfile := filepath.Join(filepath.Dir(exe), "go.mod")
	if _, err := os.Stat(modfile); err != nil {
		return "ok", "skipped: no go.mod copy"
	}
	// a private copy of the mod file: `go test` may rewrite it
	tmp, err := os.MkdirTemp("", "verif-race")
	if err != nil {
		return "ok", "skipped: tmp"
	}
	defer os.RemoveAll(tmp)
	for _, f := range []string{"go.mod", "go.sum"} {
		b, err := os.ReadFile(filepath.Join(filepath.Dir(exe), f))
		if err != nil {
			return "ok", "skipped: " + f
		}
		os.WriteFile(filepath.Join(tmp, f), b, 0o644)
	}
	cmd := exec.Command("go", "test", "-race", "-count=1", "-vet=off", "-modfile="+filepath.Join(tmp, "go.mod"),
		"-run", "TestCancel|TestRepeatedCancel", "./ai/")
	cmd.Dir = repo
	cmd.Env = append(os.Environ(), "GOFLAGS=-mod=mod", "GOPROXY=off", "GOSUMDB=off", "GOTOOLCHAIN=local")
	out, err := cmd.CombinedOutput()
	text := string(out)
	switch {
	case strings.Contains(text, "WARNING: DATA RACE"):
		return "race-detected", "go test -race reported a data race"
	case err != nil && (strings.Contains(text, "-race is only supported") || strings.Contains(text, "requires cgo") || strings.Contains(text, "cannot find package")):
		return "ok", "skipped: race detector unavailable"
	case err != nil:
		return "ok", "skipped: go test failed: " + clip(strings.ReplaceAll(text, "\n", " "), 120)
	}
	return "ok", "clean"
}

func sortedMoves(ms []tak.Move) []tak.Move {
	ms = append([]tak.Move(nil), ms...)
	sort.Slice(ms, func(i, j int) bool { return moveLess(ms[i], ms[j]) })
	return ms
}
