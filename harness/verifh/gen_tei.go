package main

// Generators for C17 (TEI histories, budget rule) and the TEI part of C13 (malformed streams).

import (
	"strconv"
	"strings"

	"github.com/nelhage/taktician/ptn"
	"github.com/nelhage/taktician/tak"
	"github.com/nelhage/taktician/tei"
)

const msNS = int64(1000000)

// budgetGrid: complete for the three branches of the rule (no clock / fraction+increment / clock-1ms
// clamp) and the movetime comparison, plus the ends of the stated domain.
var budgetGrid = []int64{0, 1, 2, msNS - 1, msNS, msNS + 1, 1250000 - 1, 1250000, 1250000 + 1, 5*msNS - 1, 5 * msNS, 5*msNS + 1,
	1000 * msNS, 5000 * msNS, 60000 * msNS, 1 << 31, 1 << 40, 1<<62 - 1, 1 << 62}

func randDuration(r *RNG) int64 {
	switch x := r.Intn(20); {
	case x < 4:
		return budgetGrid[r.Intn(len(budgetGrid))]
	case x < 8:
		return int64(r.Intn(20)) * msNS / int64(1+r.Intn(4))
	case x < 11:
		return int64(r.Intn(10000)) * msNS
	case x < 14:
		return int64(r.Next() >> uint(2+r.Intn(60))) // anywhere in [0, 2^62)
	case x < 16:
		return int64(r.Intn(3000000))
	case x < 18:
		return 0
	case x < 19:
		return int64(r.Next()) // full int64 range incl. negative: outside the rule's domain, wrap-around fidelity
	default:
		return -int64(r.Intn(5000)) * msNS
	}
}

func emitBudget(c *Ctx, mt, gt, inc int64) {
	out := c.Emit("budget " + strconv.FormatInt(mt, 10) + " " + strconv.FormatInt(gt, 10) + " " + strconv.FormatInt(inc, 10))
	if mt < 0 || gt < 0 || inc < 0 || mt > 1<<62 || gt > 1<<62 || inc > 1<<62 {
		c.Count("budget.outside-domain")
		return
	}
	b, _ := strconv.ParseInt(out, 10, 64)
	switch {
	case gt == 0 && mt == 0:
		c.Count("budget.noclock.nomovetime")
	case gt == 0:
		c.Count("budget.noclock.movetime")
	case b == mt && mt > 0:
		c.Count("budget.movetime-wins")
	case b == gt-msNS:
		c.Count("budget.clamped-to-clock-1ms")
	default:
		c.Count("budget.fraction+inc")
	}
	if gt != 0 && b >= gt {
		c.Count("budget.VIOLATES:>=clock")
	}
	if mt > 0 && b > mt {
		c.Count("budget.VIOLATES:>movetime")
	}
}

func genBudget(c *Ctx) {
	// the grid, split over the shards
	k := 0
	for _, mt := range budgetGrid {
		for _, gt := range budgetGrid {
			for _, inc := range budgetGrid {
				if k%c.NShard == c.Shard {
					emitBudget(c, mt, gt, inc)
				}
				k++
			}
		}
	}
	n := c.Scale(100000, 10000000)
	for i := 0; i < n; i++ {
		mt, gt, inc := randDuration(c.R), randDuration(c.R), randDuration(c.R)
		if c.R.Chance(1, 4) {
			// near the clamp boundary gt/5+inc ~ gt-1ms
			gt = int64(c.R.Intn(100000)) * 1000
			inc = gt - msNS - gt/5 + int64(c.R.Intn(5)) - 2
			if inc < 0 && c.R.Chance(3, 4) {
				inc = 0
			}
		}
		if c.R.Chance(1, 4) {
			// movetime next to the clock budget
			b := tei.VerifCalcBudget(0, gt, inc)
			mt = b + int64(c.R.Intn(5)) - 2
		}
		emitBudget(c, mt, gt, inc)
	}
}

// ---------------------------------------------------------------- TEI streams

func fmtMovesPTN(ms []tak.Move) string {
	var b []string
	for _, m := range ms {
		b = append(b, ptn.FormatMove(m))
	}
	return strings.Join(b, " ")
}

// randomLine plays a biased random game prefix on a default-config board and returns the moves.
func randomLine(r *RNG, size, maxPlies int) ([]tak.Move, *tak.Position) {
	p := tak.New(tak.Config{Size: size})
	var ms []tak.Move
	for ply := 0; ply < maxPlies; ply++ {
		if over, _ := p.GameOver(); over {
			break
		}
		lm := legalMoves(p)
		if len(lm) == 0 {
			break
		}
		m := pickBiased(r, p, lm)
		n, err := p.Move(m)
		if err != nil {
			panic("randomLine")
		}
		ms = append(ms, m)
		p = n
	}
	return ms, p
}

// finishedLine plays until the game is over (3x3/4x4 end quickly).
func finishedLine(r *RNG, size int) ([]tak.Move, *tak.Position) {
	for {
		ms, p := randomLine(r, size, 400)
		if over, _ := p.GameOver(); over {
			return ms, p
		}
	}
}

// clock values (ms) around the branches of the budget rule and of analyze's guard
var clockGridMS = []int{0, 1, 2, 4, 5, 6, 10, 1000, 60000}

// bigTimes: clock arguments large enough that the depth-limited search is never cut short
// (so the engine's answer does not depend on the wall clock).
func bigGoArgs(r *RNG) string {
	var a []string
	opts := []string{"movetime", "wtime", "btime", "winc", "binc"}
	for _, o := range opts {
		if r.Chance(1, 2) {
			continue
		}
		v := 20000 + r.Intn(3000000)
		if (o == "winc" || o == "binc") && r.Chance(1, 2) {
			v = r.Intn(5000)
		}
		if r.Chance(1, 2) {
			// boundary clocks: the deadline analyze installs is compared, the search itself runs detached from it
			v = clockGridMS[r.Intn(len(clockGridMS))]
		}
		a = append(a, o, strconv.Itoa(v))
	}
	// order is free
	for i := len(a)/2 - 1; i > 0; i-- {
		j := r.Intn(i + 1)
		a[2*i], a[2*j] = a[2*j], a[2*i]
		a[2*i+1], a[2*j+1] = a[2*j+1], a[2*i+1]
	}
	if len(a) == 0 {
		return "go"
	}
	return "go " + strings.Join(a, " ")
}

func positionCmd(r *RNG, size int, c *Ctx) string {
	switch x := r.Intn(10); {
	case x < 1:
		c.Count("tei.position.startpos")
		return "position startpos"
	case x < 6:
		ms, p := randomLine(r, size, 1+r.Intn(4*size))
		if over, _ := p.GameOver(); over {
			c.Count("tei.position.moves.finished")
		} else {
			c.Count("tei.position.moves.live")
		}
		return "position startpos moves " + fmtMovesPTN(ms)
	case x < 7:
		ms, _ := finishedLine(r, 3+r.Intn(2))
		_ = ms
		ms2, _ := finishedLine(r, size)
		c.Count("tei.position.moves.finished")
		return "position startpos moves " + fmtMovesPTN(ms2)
	case x < 9:
		_, p := randomLine(r, size, r.Intn(6*size))
		c.Count("tei.position.tps")
		return "position tps " + ptn.FormatTPS(p)
	default:
		_, p := randomLine(r, size, r.Intn(3*size))
		var tail []tak.Move
		q := p
		for i := 0; i < 1+r.Intn(4); i++ {
			if over, _ := q.GameOver(); over {
				break
			}
			lm := legalMoves(q)
			if len(lm) == 0 {
				break
			}
			m := lm[r.Intn(len(lm))]
			n, _ := q.Move(m)
			tail = append(tail, m)
			q = n
		}
		c.Count("tei.position.tps+moves")
		if len(tail) == 0 {
			return "position tps " + ptn.FormatTPS(p)
		}
		return "position tps " + ptn.FormatTPS(p) + " moves " + fmtMovesPTN(tail)
	}
}

// history: several games on one engine.
func randomHistory(c *Ctx) []string {
	r := c.R
	var cmds []string
	if r.Chance(3, 4) {
		cmds = append(cmds, "tei")
	}
	games := 1 + r.Intn(3)
	for g := 0; g < games; g++ {
		size := 3 + r.Intn(6)
		if r.Chance(1, 2) {
			size = 3 + r.Intn(3)
		}
		if size == 5 && r.Chance(1, 3) {
			cmds = append(cmds, "teinewgame")
		} else {
			cmds = append(cmds, "teinewgame "+strconv.Itoa(size))
		}
		c.Count("tei.game.size" + strconv.Itoa(size))
		steps := 1 + r.Intn(5)
		for s := 0; s < steps; s++ {
			switch x := r.Intn(12); {
			case x < 5:
				cmds = append(cmds, positionCmd(r, size, c))
			case x < 9:
				cmds = append(cmds, bigGoArgs(r))
				c.Count("tei.go")
			case x < 10:
				cmds = append(cmds, "isready")
			case x < 11:
				cmds = append(cmds, "stop")
			default:
				cmds = append(cmds, "")
			}
		}
	}
	if r.Chance(1, 3) {
		cmds = append(cmds, "quit")
		if r.Chance(1, 2) {
			cmds = append(cmds, "isready")
		}
	}
	return cmds
}

func joinStream(cmds []string, terminated bool) []byte {
	s := strings.Join(cmds, "\n")
	if terminated {
		s += "\n"
	}
	return []byte(s)
}

func countTEI(c *Ctx, out string) {
	f := strings.SplitN(out, " ", 2)
	c.Count("tei.class." + f[0])
	c.Count("tei.bestmoves~" + strconv.Itoa(strings.Count(out, "bestmove ")))
}

// exhaustive streams of <= maxLen commands over a small alphabet for one size
func genTEIExhaustive(c *Ctx, size int, maxLen int) {
	fin, _ := finishedLine(NewRNG(uint64(size)), size)
	mid, midp := randomLine(NewRNG(uint64(size)+77), size, 5)
	alpha := []string{
		"teinewgame " + strconv.Itoa(size),
		"position startpos",
		"position startpos moves " + fmtMovesPTN(mid[:2]),
		"position startpos moves " + fmtMovesPTN(fin),
		"position tps " + ptn.FormatTPS(midp),
		"position startpos moves a1 a1",
		"go",
		"isready",
	}
	k := 0
	var rec func(prefix []string)
	rec = func(prefix []string) {
		if len(prefix) > 0 {
			if k%c.NShard == c.Shard {
				out := c.Emit(teiLine("tei", 2, joinStream(prefix, true)))
				countTEI(c, out)
				c.Count("tei.exhaustive.size" + strconv.Itoa(size) + ".len" + strconv.Itoa(len(prefix)))
			}
			k++
		}
		if len(prefix) == maxLen {
			return
		}
		for _, a := range alpha {
			rec(append(prefix[:len(prefix):len(prefix)], a))
		}
	}
	rec(nil)
}

func teiMin(a, b int) int {
	if a < b {
		return a
	}
	return b
}

// genTEIBoundary: every combination of mover (White / Black to move), wtime, btime on the boundary grid,
// with and without movetime and increments; several `go`s per engine and a second game on the same engine.
func genTEIBoundary(c *Ctx) {
	var gos []string
	mts := []string{"", "movetime 0", "movetime 1", "movetime 300", "movetime 100000"}
	incs := []string{"", "winc 0 binc 0", "winc 1000 binc 2000", "binc 1 winc 5"}
	for _, wt := range clockGridMS {
		for _, bt := range clockGridMS {
			for mi, mt := range mts {
				inc := incs[(wt+bt+mi)%len(incs)]
				parts := []string{"go"}
				if mt != "" {
					parts = append(parts, mt)
				}
				// a zero clock is sometimes sent explicitly, sometimes left out
				if wt != 0 || (bt+mi)%2 == 0 {
					parts = append(parts, "wtime "+strconv.Itoa(wt))
				}
				if bt != 0 || (wt+mi)%2 == 0 {
					parts = append(parts, "btime "+strconv.Itoa(bt))
				}
				if inc != "" {
					parts = append(parts, inc)
				}
				gos = append(gos, strings.Join(parts, " "))
			}
		}
	}
	k := 0
	for _, size := range []int{3, 5} {
		for _, blackToMove := range []bool{false, true} {
			pos := "position startpos"
			pos2 := "position startpos moves a1 b2 c3"
			if blackToMove {
				pos = "position startpos moves a1"
				pos2 = "position startpos moves a1 b2"
			}
			for i := 0; i < len(gos); i += 5 {
				if k%c.NShard == c.Shard {
					cmds := []string{"teinewgame " + strconv.Itoa(size), pos}
					cmds = append(cmds, gos[i:teiMin(i+3, len(gos))]...)
					// a second game on the same engine, same mover, later position
					cmds = append(cmds, "teinewgame "+strconv.Itoa(size), pos2)
					cmds = append(cmds, gos[teiMin(i+3, len(gos)):teiMin(i+5, len(gos))]...)
					out := c.Emit(teiLine("tei", 2, joinStream(cmds, true)))
					countTEI(c, out)
					c.Count("tei.boundary-clock.streams")
					c.Count("tei.boundary-clock.deadline=0~" + strconv.Itoa(strings.Count(out, " dl=0 ")))
					c.Count("tei.boundary-clock.no-deadline~" + strconv.Itoa(strings.Count(out, " dl=- ")))
				}
				k++
			}
		}
	}
}

// genTEIZeroReserve: `go` with clocks on positions whose side to move has NO flat stone left in reserve - only the
// capstone (game still running), or nothing at all (the game ended by exhaustion): a clock rule that looks at the
// reserve must not divide by it
func genTEIZeroReserve(c *Ctx) {
	type zr struct {
		size int
		tps  string
	}
	cases := []zr{
		{5, "2,2,x,2,2/x5/x5/x5/1111111111,1111111111,1,x2 1 12"},
		{5, "1,1,x,1,1/x5/x5/x5/2222222222,2222222222,2,x2 2 12"},
		{3, "x3/x3/11111,11111,x 1 11"},
		{3, "x3/x3/22222,22222,x 2 11"},
		{4, "x4/x4/2,x3/11111,11111,11111,x 1 9"},
		{6, "2,2,2,x3/x6/x6/x6/x6/1111111111,1111111111,1111111111,x3 1 17"},
	}
	gos := []string{"go wtime 60000 btime 60000", "go wtime 1000 btime 1000 winc 100 binc 100", "go wtime 5000", "go btime 5000", "go movetime 10 wtime 9000 btime 9000", "go"}
	for i, z := range cases {
		if i%c.NShard != c.Shard%len(cases) && c.NShard > 1 && i != c.Shard%len(cases) {
			continue
		}
		for _, g := range gos {
			cmds := []string{"teinewgame " + strconv.Itoa(z.size), "position tps " + z.tps, g, "isready"}
			out := c.Emit(teiLine("tei", 1, joinStream(cmds, true)))
			c.Count("tei.zero-reserve." + clip(out, 3))
		}
	}
}

func genTEIExtend(c *Ctx, n int) {
	for i := 0; i < n; i++ {
		s1 := 3 + c.R.Intn(4)
		s2 := s1
		if c.R.Chance(2, 3) {
			s2 = 3 + c.R.Intn(6)
		}
		p := tak.New(tak.Config{Size: s1})
		var mv []string
		var cmds []string
		cmds = append(cmds, "teinewgame "+strconv.Itoa(s1))
		grow := func(k int) {
			for tries := 0; k > 0 && tries < 50; tries++ {
				ms := p.AllMoves(nil)
				if len(ms) == 0 {
					return
				}
				m := ms[c.R.Intn(len(ms))]
				next, err := p.Move(m)
				if err != nil {
					continue
				}
				if over, _ := next.GameOver(); over {
					continue
				}
				p = next
				mv = append(mv, ptn.FormatMove(m))
				k--
			}
		}
		line := func() string {
			if len(mv) == 0 {
				return "position startpos"
			}
			return "position startpos moves " + strings.Join(mv, " ")
		}
		grow(c.R.Intn(4))
		for j := 1 + c.R.Intn(3); j > 0; j-- {
			cmds = append(cmds, line(), "go")
			grow(1 + c.R.Intn(2))
		}
		cmds = append(cmds, "teinewgame "+strconv.Itoa(s2), line(), "go")
		if c.R.Chance(1, 2) {
			grow(1)
			cmds = append(cmds, line(), "go")
		}
		out := c.Emit(teiLine("tei", 1, joinStream(cmds, true)))
		k := "same-size"
		if s2 != s1 {
			k = "other-size"
		}
		c.Count("tei.extend." + k + "." + clip(out, 3))
	}
}

func genC17(c *Ctx) {
	genBudget(c)
	genTEIBoundary(c)
	maxLen := 4
	if c.Thorough() {
		maxLen = 5
	}
	genTEIExhaustive(c, 3, maxLen)
	genTEIExhaustive(c, 5, maxLen)
	n := c.Scale(2000, 100000)
	for i := 0; i < n; i++ {
		cmds := randomHistory(c)
		depth := 1 + c.R.Intn(2)
		out := c.Emit(teiLine("tei", depth, joinStream(cmds, !c.R.Chance(1, 20))))
		countTEI(c, out)
	}
	// `position` lines that EXTEND the previous one (what a GUI sends ply by ply), within a game and - the trap - across a
	// `teinewgame` of another size: the new game's first line is the old game's last line plus moves
	genTEIExtend(c, c.Scale(200, 12000))
	genTEIZeroReserve(c)
	// the engine with its built-in configuration (no ConfigFactory), several games of different sizes in one stream
	if c.Shard < 6 {
		win := map[int]string{
			3: "1,1,x/x3/2,2,x 1 3", 4: "1,1,1,x/x4/x4/2,2,2,x 1 4", 5: "1,1,1,1,x/x5/x5/x5/2,2,2,2,x 1 5",
			6: "1,1,1,1,1,x/x6/x6/x6/x6/2,2,2,2,2,x 1 6",
		}
		seqs := [][]int{{5}, {5, 5}, {5, 6}, {6, 4, 5}, {3, 4, 3}, {4, 6}}
		var cmds []string
		for _, sz := range seqs[c.Shard] {
			cmds = append(cmds, "teinewgame "+strconv.Itoa(sz), "position tps "+win[sz], "go")
		}
		cmds = append(cmds, "isready")
		c.Count("tei.default-config." + clip(c.Emit("teidef "+hexOrDash(joinStream(cmds, true))), 16))
	}
	// pipelined controllers: the same kind of streams handed over in chunks that ignore line boundaries (1 byte, a few
	// bytes, everything at once), among them streams whose LAST command is fatal after several answered `go`s - what was
	// written for the earlier commands must be there when Run returns
	n = c.Scale(300, 20000)
	for i := 0; i < n; i++ {
		cmds := randomHistory(c)
		switch c.R.Intn(4) {
		case 0:
			cmds = append(cmds, "go", []string{"position startpos moves a1 a1", "teinewgame 9", "frobnicate", "position tps x3/x3 1 1", "position startpos moves zz"}[c.R.Intn(5)])
		case 1:
			cmds = append(cmds, "go", "go", "quit", "go")
		}
		chunk := []int{1, 2, 3, 7, 64, 1 << 20, 1 << 20, 1 << 20}[c.R.Intn(8)]
		stream := joinStream(cmds, !c.R.Chance(1, 20))
		line := teiLine("teibulk", 1, stream)
		f := strings.SplitN(line, " ", 3)
		out := c.Emit(f[0] + " " + f[1] + " " + strconv.Itoa(chunk) + " " + f[2])
		c.Count("tei.bulk.chunk~" + strconv.Itoa(chunk) + "." + clip(out, 3))
	}
	// move lists that pass THROUGH a finished game and go on (Position.Move plays on; the declared position is the list's
	// end): a later capture can take the road apart again, so `go` must answer for the live position
	{
		cmds := []string{"teinewgame 3", "position startpos moves a3 a1 b1 a2 c1 a2-", "go", "isready"}
		c.Count("tei.past-end.fixed." + clip(c.Emit(teiLine("tei", 1, joinStream(cmds, true))), 3))
	}
	n = c.Scale(400, 20000)
	for i := 0; i < n; i++ {
		size := 3 + c.R.Intn(2)
		p := tak.New(tak.Config{Size: size})
		var mv []string
		wasOver, live := false, false
		ln := 4 + c.R.Intn(14)
		for tries := 0; len(mv) < ln && tries < 400; tries++ {
			ms := p.AllMoves(nil)
			if len(ms) == 0 {
				break
			}
			m := ms[c.R.Intn(len(ms))]
			next, err := p.Move(m)
			if err != nil {
				continue // (a finished game may have no legal move left at all: the try cap ends the list)
			}
			p = next
			mv = append(mv, ptn.FormatMove(m))
			over, _ := p.GameOver()
			if over {
				wasOver = true
			}
			live = wasOver && !over
		}
		cmds := []string{"teinewgame " + strconv.Itoa(size), "position startpos moves " + strings.Join(mv, " "), "go", "isready"}
		out := c.Emit(teiLine("tei", 1, joinStream(cmds, true)))
		k := "never-over"
		if live {
			k = "over-then-live"
		} else if wasOver {
			k = "over"
		}
		c.Count("tei.past-end." + k + "." + clip(out, 3))
	}
	// protocol lines far longer than any I/O buffer: a legal game of ~1300 plies (both sides shuffle one stone) in ONE
	// `position ... moves` line (> 4096 bytes), then `go`: the position must be installed and answered like any other
	if c.Shard < 4 {
		size := 4 + c.Shard%3
		last := string(rune('a'+size-1)) + strconv.Itoa(size)
		prev := string(rune('a'+size-2)) + strconv.Itoa(size)
		mv := []string{"a1", last}
		for len(mv) < 1300+4*c.Shard {
			mv = append(mv, last+"<", "a1>", prev+">", "b1<")
		}
		cmds := []string{"teinewgame " + strconv.Itoa(size), "position startpos moves " + strings.Join(mv, " "), "go", "isready"}
		out := c.Emit(teiLine("tei", 1, joinStream(cmds, true)))
		c.Count("tei.long-line." + clip(out, 3))
	}
	// budgets that run out inside the first ply: positions whose first generated move is illegal (a1 the mover's own stone
	// next to a wall or capstone; a1 empty and only capstones left cannot arise from startpos) and ordinary ones; every
	// `go` carries a time argument for the side to move, so a deadline is installed - and has passed
	n = c.Scale(120, 6000)
	for i := 0; i < n; i++ {
		size := 3 + c.R.Intn(4)
		lines := [][]string{
			{"a" + strconv.Itoa(size), string(rune('a'+size-1)) + strconv.Itoa(size), "a1", "Sb1"},
			{"a1", string(rune('a'+size-1)) + strconv.Itoa(size), "Sb1"},
			{"a" + strconv.Itoa(size), string(rune('a'+size-1)) + "1", "a1", "Sa2", "b2", "Sb1"},
			{},
			{"a1", "b2"},
		}
		mv := lines[c.R.Intn(len(lines))]
		pos := "position startpos"
		if len(mv) > 0 {
			pos += " moves " + strings.Join(mv, " ")
		}
		goCmd := []string{"go movetime 1", "go wtime 6 btime 6", "go movetime 50 wtime 1000 btime 1000 winc 5 binc 5", "go wtime 1 btime 1"}[c.R.Intn(4)]
		cmds := []string{"teinewgame " + strconv.Itoa(size), pos, goCmd, "isready", goCmd}
		out := c.Emit(teiLine("teiexp", 1+c.R.Intn(3), joinStream(cmds, true)))
		c.Count("teiexp." + clip(out, 3))
	}
}

// ---------------------------------------------------------------- malformed streams (C13, TEI part)

var badSizes = []string{"0", "1", "2", "9", "10", "-1", "-5", "+5", "05", "5.0", "0x5", "5_", "five", "", "99999999999999999999", "9223372036854775807", "-9223372036854775808", "3 4"}
var garbageWords = []string{"", "go", "position", "teinewgame", "Tei", "TEI", "quit ", "\x00", "\x7f", "isready\r", "stop\t", "ucinewgame", "uci", "setoption name X value 1", "moves", "startpos", "tps", "bestmove a1", "info", "a1", "1", "-", "%s%d", "'; DROP", "\\n"}

func randASCII(r *RNG, n int) string {
	b := make([]byte, n)
	for i := range b {
		switch r.Intn(6) {
		case 0:
			b[i] = " \t\r\v\f"[r.Intn(5)]
		case 1:
			b[i] = byte(r.Intn(128))
			if b[i] == '\n' {
				b[i] = ' '
			}
		default:
			b[i] = "abcdefghposition12345678go<>+-,/xSCFtei"[r.Intn(39)]
		}
	}
	return string(b)
}

func mutateASCII(r *RNG, s string) string {
	if len(s) == 0 {
		return s
	}
	b := []byte(s)
	switch r.Intn(6) {
	case 0: // drop a byte
		i := r.Intn(len(b))
		b = append(b[:i:i], b[i+1:]...)
	case 1: // duplicate a byte
		i := r.Intn(len(b))
		b = append(b[:i+1:i+1], b[i:]...)
	case 2: // replace by a structural character
		b[r.Intn(len(b))] = " ,/x12SC<>+-a9h0"[r.Intn(16)]
	case 3: // truncate
		b = b[:r.Intn(len(b))]
	case 4: // swap two words
		w := strings.Fields(string(b))
		if len(w) > 1 {
			i, j := r.Intn(len(w)), r.Intn(len(w))
			w[i], w[j] = w[j], w[i]
		}
		b = []byte(strings.Join(w, " "))
	default: // whitespace variety
		b = []byte(strings.ReplaceAll(string(b), " ", []string{"  ", "\t", " \r", "\v", "\f "}[r.Intn(5)]))
	}
	for i := range b {
		if b[i] == '\n' || b[i] >= 0x80 {
			b[i] = '?'
		}
	}
	return string(b)
}

// any go arguments, including ones whose budget is tiny, zero, negative (after int64 wrap-around) or absent
func anyGoArgs(r *RNG) string {
	opts := []string{"movetime", "wtime", "btime", "winc", "binc", "depth", "infinite", "", "wtime"}
	vals := []string{"0", "1", "2", "5", "10", "100", "1000", "60000", "-1", "+1", "1.5", "abc", "", "18446744073709551615", "18446744073709551616",
		"9223372036854775807", "9223372036854775", "9223372036855", "18446744073709", "1e3", "0x10", "007"}
	n := r.Intn(5)
	var a []string
	for i := 0; i < n; i++ {
		a = append(a, opts[r.Intn(len(opts))])
		if !(i == n-1 && r.Chance(1, 4)) {
			a = append(a, vals[r.Intn(len(vals))])
		}
	}
	return strings.TrimSpace("go " + strings.Join(a, " "))
}

func malformedHistory(c *Ctx) ([]string, bool) {
	r := c.R
	var cmds []string
	timing := false // does the stream contain a `go` whose outcome may depend on the wall clock?
	size := 0
	n := 1 + r.Intn(7)
	for i := 0; i < n; i++ {
		switch x := r.Intn(20); {
		case x < 3:
			size = 3 + r.Intn(6)
			cmds = append(cmds, "teinewgame "+strconv.Itoa(size))
			c.Count("c13tei.newgame.ok")
		case x < 5:
			cmds = append(cmds, "teinewgame "+badSizes[r.Intn(len(badSizes))])
			c.Count("c13tei.newgame.badsize")
		case x < 9:
			sz := size
			if sz == 0 || r.Chance(1, 6) {
				sz = 3 + r.Intn(6) // position for another size than configured / before any teinewgame
				c.Count("c13tei.position.wrong-or-no-size")
			}
			cmd := positionCmd(r, sz, c)
			if r.Chance(1, 3) {
				cmd = mutateASCII(r, cmd)
				c.Count("c13tei.position.mutated")
			}
			cmds = append(cmds, cmd)
		case x < 10:
			// illegal but well-formed moves
			sz := size
			if sz == 0 {
				sz = 5
			}
			ms, _ := randomLine(r, sz, 2+r.Intn(6))
			toks := strings.Fields(fmtMovesPTN(ms))
			if len(toks) > 0 {
				toks[r.Intn(len(toks))] = []string{"a1", "Ca1", "Sa1", "3c3>111", "a1<", "h8", "i9", "a9", "8a1+11111111", "a1>0", "1a1>1", "a1!", "a1?*'", "Fa1", "2a1", "a1+2"}[r.Intn(16)]
			}
			cmds = append(cmds, "position startpos moves "+strings.Join(toks, " "))
			c.Count("c13tei.position.illegal-move")
		case x < 11:
			sz := size
			if sz == 0 {
				sz = 3 + r.Intn(2)
			}
			ms, _ := finishedLine(r, sz)
			cmds = append(cmds, "position startpos moves "+fmtMovesPTN(ms))
			cmds = append(cmds, "go")
			c.Count("c13tei.go-on-finished")
		case x < 14:
			g := anyGoArgs(r)
			cmds = append(cmds, g)
			if g != "go" {
				timing = true
			}
			c.Count("c13tei.go.anyargs")
		case x < 15:
			cmds = append(cmds, "go")
			c.Count("c13tei.go.plain")
		case x < 17:
			cmds = append(cmds, garbageWords[r.Intn(len(garbageWords))])
			c.Count("c13tei.garbage-word")
		case x < 18:
			cmds = append(cmds, randASCII(r, r.Intn(30)))
			c.Count("c13tei.random-ascii")
		case x < 19:
			cmds = append(cmds, []string{"isready", "stop", "tei", "", "  ", "\t"}[r.Intn(6)])
		default:
			cmds = append(cmds, "quit")
		}
	}
	return cmds, timing
}

func genC13tei(c *Ctx) {
	genTEIExtend(c, c.Scale(120, 8000))
	genTEIZeroReserve(c)
	n := c.Scale(6000, 600000)
	for i := 0; i < n; i++ {
		cmds, timing := malformedHistory(c)
		stream := joinStream(cmds, !c.R.Chance(1, 10))
		op := "tei"
		if timing {
			// outcome class only: whether the search beats a tiny budget is a race, the class must not be
			op = "teiclass"
			c.Count("c13tei.op.class-only")
		}
		out := c.Emit(teiLine(op, 1+c.R.Intn(2), stream))
		f := strings.SplitN(out, " ", 2)
		c.Count("c13tei.class." + f[0])
	}
}

func init() {
	genTable["C17"] = genC17
	genTable["C13tei"] = genC13tei
}
