package main

// Work package "cmdglue2": three more command front ends that consume anchored code, run in-process through
// harness/export/cmd_internal_{canonicalize,importptn,play}__export.go; the model side is lean/Driver/OpsCmd2.lean.
//
//   cmd.canon <hex file | ! | 0>      `taktician canonicalize FILE` (`!`: a file that does not exist, `0`: no argument):
//                                     `usage`, `FATAL` (left through log.Fatalf), or `out <hex of standard output>`
//   cmd.imp1 <row>                    importOne on one row of the playtak games table: `none`, `err`, `ok <hex PTN>`
//   cmd.impdb <row>...                `taktician import-ptn DB` twice on a real sqlite file holding these rows: the ptns
//                                     table after the first run, whether the second run changed it
//   cmd.play <flags> <hex stdin>      `taktician play <flags>` (two human players) on scripted standard input: every
//                                     printed line (white space normalised, error texts cut), PANIC, the -out file
//
// <row> = id:date:size:white:black:notation:result:timertime:timerinc:datestr:timestr (texts in hex, `-` = empty);
// datestr/timestr are time.Time.Format of the row's date (the standard library's calendar is not modelled).

import (
	"os"
	"strconv"
	"strings"
	"time"

	"github.com/nelhage/taktician/cmd/internal/canonicalize"
	"github.com/nelhage/taktician/cmd/internal/importptn"
	"github.com/nelhage/taktician/cmd/internal/play"
)

func runCanon(tok string) string {
	var args []string
	switch tok {
	case "0":
	case "!":
		args = []string{"/nonexistent/verifh-no-such-file.ptn"}
	default:
		name := cmdTmpFile(hexDec(tok))
		defer os.Remove(name)
		args = []string{name}
	}
	stdout, fatal, usage := canonicalize.VerifRun(args)
	switch {
	case fatal:
		return "FATAL"
	case usage:
		return "usage"
	}
	return "out " + hexEnc([]byte(stdout))
}

func importDateStrings(date int) (string, string) {
	t := time.Unix(int64(date)/1000, int64(date%1000)*int64(time.Millisecond))
	return t.Format("2006.01.02"), t.Format("15:04:05")
}

func encRow(g importptn.VerifGame) string {
	d, t := importDateStrings(g.Date)
	return strings.Join([]string{strconv.Itoa(g.Id), strconv.Itoa(g.Date), strconv.Itoa(g.Size), hexOf(g.PlayerWhite), hexOf(g.PlayerBlack),
		hexOf(g.Notation), hexOf(g.Result), strconv.Itoa(g.TimerTime), strconv.Itoa(g.TimerInc), hexOf(d), hexOf(t)}, ":")
}

func decRow(tok string) importptn.VerifGame {
	f := strings.Split(tok, ":")
	if len(f) != 11 {
		panic("bad row")
	}
	return importptn.VerifGame{Id: atoi(f[0]), Date: atoi(f[1]), Size: atoi(f[2]), PlayerWhite: unhex(f[3]), PlayerBlack: unhex(f[4]),
		Notation: unhex(f[5]), Result: unhex(f[6]), TimerTime: atoi(f[7]), TimerInc: atoi(f[8])}
}

func fmtPTNRows(rows []importptn.VerifPTN) string {
	w := []string{"n=" + strconv.Itoa(len(rows))}
	for _, r := range rows {
		w = append(w, strconv.Itoa(r.Id)+":"+hexOf(r.PTN))
	}
	return strings.Join(w, " ")
}

// playCanon: the printed text line by line, white space normalised, empty lines dropped, the error text after
// `parse error:` / `illegal move:` cut (Go error strings are not modelled)
func playCanon(stdout string) []string {
	var lines []string
	for _, l := range strings.Split(stdout, "\n") {
		for _, mark := range []string{"parse error:", "illegal move:"} {
			if i := strings.Index(l, mark); i >= 0 {
				l = l[:i+len(mark)]
			}
		}
		fs := strings.Fields(l)
		if len(fs) > 0 {
			lines = append(lines, strings.Join(fs, " "))
		}
	}
	return lines
}

func runPlay(flagTok string, stdin string) string {
	outFile := ""
	var args []string
	for _, a := range cmdArgs(flagTok) {
		if a == "-out=@" {
			f, err := os.CreateTemp("", "verifh-play-*.ptn")
			if err != nil {
				panic(err)
			}
			outFile = f.Name()
			f.Close()
			os.Remove(outFile)
			defer os.Remove(outFile)
			a = "-out=" + outFile
		}
		args = append(args, a)
	}
	stdout, flagErr, panicked := play.VerifRun(args, stdin)
	if flagErr {
		return "flagerr"
	}
	lines := playCanon(stdout)
	if panicked {
		lines = append(lines, "PANIC")
	}
	res := strings.Join(lines, " | ")
	if res == "" {
		res = "-"
	}
	if outFile != "" {
		if b, err := os.ReadFile(outFile); err == nil {
			res += " || outfile=" + hexEnc(b)
		} else {
			res += " || outfile=none"
		}
	}
	return res
}

func init() {
	opTable["cmd.canon"] = func(s *Session, a []string) string { return runCanon(a[0]) }
	opTable["cmd.imp1"] = func(s *Session, a []string) string {
		g := decRow(a[0])
		out, err := importptn.VerifImportOne(&g)
		switch {
		case err != nil:
			return "err"
		case out == "":
			return "none"
		}
		return "ok " + hexOf(out)
	}
	opTable["cmd.impdb"] = func(s *Session, a []string) string {
		var games []importptn.VerifGame
		for _, t := range a {
			games = append(games, decRow(t))
		}
		first, second, fatal, logged := importptn.VerifImport(games)
		res := fmtPTNRows(first)
		if fmtPTNRows(second) == res {
			res += " | again=same"
		} else {
			res += " | again=" + fmtPTNRows(second)
		}
		_ = logged // the "could not import" log line is unreachable on the pinned tree (see DESIGN 5); not compared
		if fatal {
			res += " | FATAL"
		}
		return res
	}
	opTable["cmd.play"] = func(s *Session, a []string) string { return runPlay(a[0], unhex(a[1])) }
}
