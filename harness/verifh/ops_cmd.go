package main

// Ops on the command front ends that the properties name as consumers (work package "cmdglue"):
// `taktician analyze` (cmd/internal/analyze: which position of a PTN file is analysed for which flags, and what the
// minimax / PN / DFPN analyzers print) and the labelling stage of `taktician gencorpus` (cmd/internal/gencorpus: one
// worker = one solver for every position it receives).  Both are called in-process through
// harness/export/cmd_internal_{analyze,gencorpus}__export.go; the model side is lean/Driver/OpsCmd.lean.

import (
	"fmt"
	"os"
	"strings"
	"time"

	"github.com/nelhage/taktician/cmd/internal/analyze"
	"github.com/nelhage/taktician/cmd/internal/gencorpus"
	"github.com/nelhage/taktician/prove"
	"github.com/nelhage/taktician/tak"
)

func cmdTmpFile(data []byte) string {
	f, err := os.CreateTemp("", "verifh-cmd-*.ptn")
	if err != nil {
		panic(err)
	}
	defer f.Close()
	if _, err := f.Write(data); err != nil {
		panic(err)
	}
	return f.Name()
}

// cmdArgs turns the flag token of an op line (`name`, `name=value`, `name=hex:<hex>` separated by `;`, `-` = none)
// into the argument list the real flag parser gets.
func cmdArgs(tok string) []string {
	if tok == "-" {
		return nil
	}
	var out []string
	for _, f := range strings.Split(tok, ";") {
		if i := strings.Index(f, "=hex:"); i >= 0 {
			f = f[:i+1] + string(hexDec(f[i+5:]))
		}
		out = append(out, "-"+f)
	}
	return out
}

// cmdCanon: the printed lines with white space normalised, without empty lines and without the wall-clock fields
// (`duration=…`, the hit percentage `(…%)`), joined by ` | `.
func cmdCanon(stdout string) []string {
	var lines []string
	for _, l := range strings.Split(stdout, "\n") {
		var fs []string
		for _, f := range strings.Fields(l) {
			if strings.HasPrefix(f, "duration=") || (strings.HasPrefix(f, "(") && strings.HasSuffix(f, "%)")) {
				continue
			}
			fs = append(fs, f)
		}
		if len(fs) > 0 {
			lines = append(lines, strings.Join(fs, " "))
		}
	}
	return lines
}

func runAnalyze(flagTok string, file []byte) string {
	if prove.VerifEntrySize() != 32 {
		panic("verifh: size of prove.entry changed")
	}
	name := cmdTmpFile(file)
	defer os.Remove(name)
	stdout, fatal, _, flagErr := analyze.VerifRun(append(cmdArgs(flagTok), name))
	if flagErr {
		return "flagerr"
	}
	lines := cmdCanon(stdout)
	if fatal {
		lines = append(lines, "FATAL")
	}
	if len(lines) == 0 {
		return "-"
	}
	return strings.Join(lines, " | ")
}

func labelStr(l gencorpus.VerifLabel) string {
	if l.Dropped {
		return "drop"
	}
	return encMove(l.Move) + ":" + fmt.Sprintf("%+f", l.Value)
}

func runCorpus(analysis string, size int, limit time.Duration, ps []*tak.Position) []gencorpus.VerifLabel {
	return gencorpus.VerifEvaluate(analysis, size, limit, ps)
}

func init() {
	// cmd.an <flags> <hex of the PTN file>: `taktician analyze <flags> FILE` in-process; everything it prints
	opTable["cmd.an"] = func(s *Session, a []string) string {
		return runAnalyze(a[0], hexDec(a[1]))
	}
	// cmd.gc <analysis> <size> <pos>...: the entries ONE worker of `taktician gencorpus -analysis <analysis> -size <size>`
	// sends for these positions, received in this order (exact comparison: dfpn, none)
	opTable["cmd.gc"] = func(s *Session, a []string) string {
		var ps []*tak.Position
		for _, t := range a[2:] {
			ps = append(ps, decPos(t))
		}
		var w []string
		for _, l := range runCorpus(a[0], atoi(a[1]), time.Hour, ps) {
			w = append(w, labelStr(l))
		}
		return strings.Join(w, " ")
	}
	// cmd.gcmm <label> <move> <pos>: a label the real minimax worker gave (the engine sorts its moves and runs
	// against the clock: not reproducible by the model).  The model side answers whether the label contradicts what
	// exhaustive search of the first plies says; the real code has nothing to add.
	opTable["cmd.gcmm"] = func(s *Session, a []string) string { return "ok" }
}
