package main

import (
	"fmt"
	"strings"

	"github.com/nelhage/taktician/ai"
	"github.com/nelhage/taktician/tak"
)

// `fn.zwsearch`: the seventh batch of regenerated functions (work package gen7, task 2): Generated/FuncsZw.lean - `zwSearch`
// itself, EXECUTED against the real function (no bridge theorem).  The Go op runs the REAL `zwSearch` on an engine built by
// `NewMinimax` (harness/export/ai__genfn7.go) for each depth of the list in turn (the engine state is kept between the calls,
// so the later calls meet a filled table); the Lean side runs `Gen.zwSearch` on the same inputs with the position functions of
// the model.  NoSort is always set (the ordering by `sort.Sort` is not part of the subset).  Generator: FNZW (C04, C05, C16).
//
//	fn.zwsearch <pos> <ev: m|w> <opts: NoNullMove NoReduceSlides MultiCut as 0/1 digits> <table entries | -1> <ply> <depths d1,d2..>
//	            <alpha per call a1,a2.. (the last one is repeated)> <cut> <frame move at ply-1> <pv hint: -|moves>
//	   ->  <value> <pv: -|moves> <stats> <table> <response map> <history map> <15 frame moves> <pv buffer of frame ply>   |   panic

func init() {
	opTable["fn.zwsearch"] = func(s *Session, a []string) string {
		p := decPos(a[0])
		cfg := ai.MinimaxConfig{Size: p.Size(), NoSort: true, NoNullMove: a[2][0] == '1', NoReduceSlides: a[2][1] == '1', MultiCut: a[2][2] == '1'}
		cfg.Evaluate = evalWinner
		if a[1] == "m" {
			cfg.Evaluate = evalMat
		}
		z := ai.VerifNewZW(cfg, atoi(a[3]))
		ply := atoi(a[4])
		z.SetFrameMove(ply-1, parseMvTok(a[8]))
		var pv []tak.Move
		if a[9] != "-" {
			pv = parseMvs(a[9])
		}
		var ms []tak.Move
		var v int64
		alphas := strings.Split(a[6], ",")
		for i, d := range strings.Split(a[5], ",") {
			al := alphas[len(alphas)-1]
			if i < len(alphas) {
				al = alphas[i]
			}
			ms, v = z.Search(p, ply, atoi(d), pv, int64(atoi(al)), a[7] == "1")
		}
		return fmt.Sprintf("%d %s %s %s %s %s %s %s", v, mvsTok0(ms, false), statsTok(z.Stats()), tableTok(z.M.VerifTable(), z.M.VerifHasTable()),
			respTok(z.M.VerifResponse()), histTok(z.History()), mvsTok(z.FrameMoves()), mvsTok(z.FramePV(ply)))
	}
	genTable["FNZW"] = genFNZW
}

func genFNZW(c *Ctx) {
	r := c.R
	for k := 0; k < c.Scale(320, 16000); k++ {
		size := 3 + r.Intn(2)
		var p *tak.Position
		stop := 1 + r.Intn(3*size*size)
		playout(r, randomConfig(r, size), stop, func(q *tak.Position) { p = q })
		if p == nil {
			continue
		}
		// half of the time the frame move at ply-1 is the move that led to the position (the slide reduction and the response
		// table then see a consistent history), preferring slides
		var led *tak.Move
		if r.Chance(1, 2) {
			am0 := p.AllMoves(nil)
			for try := 0; try < 8 && len(am0) > 0; try++ {
				mv := am0[r.Intn(len(am0))]
				if !mv.IsSlide() && try < 4 {
					continue
				}
				if child, err := p.MovePreallocated(mv, nil); err == nil {
					if over, _ := child.GameOver(); !over || try >= 6 {
						p, led = child, &mv
						break
					}
				}
			}
		}
		am := p.AllMoves(nil)
		ev := []string{"m", "w"}[r.Intn(2)]
		opts := fmt.Sprintf("%d%d%d", r.Intn(2), r.Intn(2), r.Intn(2))
		tbl := []int{-1, 0, 1, 2, 7, 64, 1021}[r.Intn(7)]
		if tbl == 0 && r.Chance(3, 4) {
			tbl = 64 // an empty non-nil table panics (`h % 0`): keep a few
		}
		ply := r.Intn(4)
		depth := 1 + r.Intn(3)
		if size == 4 && depth == 3 && r.Chance(2, 3) {
			depth = 2
		}
		depths := fmt.Sprint(depth)
		switch r.Intn(4) {
		case 0:
			if depth > 1 {
				depths = fmt.Sprintf("%d,%d", depth-1, depth)
			}
		case 1:
			depths = fmt.Sprintf("%d,%d", depth, depth)
		}
		cut := r.Intn(2)
		if opts[2] == '1' && r.Chance(2, 3) && size == 3 {
			depths = "4" // multi-cut needs depth > 3
			if r.Chance(3, 4) {
				cut = 1
			}
		}
		if r.Chance(1, 20) {
			depths = []string{"0", "-1"}[r.Intn(2)]
		}
		alpha := []int{0, 1, -1, 5, -5, 12, -12, 30, -30, 1 << 28, -(1 << 28), int(ai.WinThreshold), -int(ai.WinThreshold)}[r.Intn(13)]
		prev := tak.Move{X: int8(r.Intn(size)), Y: int8(r.Intn(size)), Type: tak.PlaceFlat}
		switch r.Intn(4) {
		case 0:
			prev = tak.Move{Type: tak.Pass}
		case 1:
			// a one-step slide that could have produced a stack here (the slide reduction looks at its source and destination)
			prev = tak.Move{X: int8(r.Intn(size)), Y: int8(r.Intn(size)), Type: tak.MoveType(int(tak.SlideLeft) + r.Intn(4)), Slides: tak.Slides(1 + r.Intn(3))}
		}
		if led != nil {
			prev = *led
			if ply == 0 {
				ply = 1 + r.Intn(3)
			}
		}
		alphas := fmt.Sprint(alpha)
		if strings.Contains(depths, ",") && r.Chance(2, 3) {
			// a second call with a lower / higher window meets the bounds the first one stored
			alphas = fmt.Sprintf("%d,%d", alpha, alpha+[]int{-1, -3, -20, 1, 7}[r.Intn(5)])
		}
		pv := "-"
		if len(am) > 0 && r.Chance(1, 2) {
			pv = mvTok(am[r.Intn(len(am))])
			if r.Chance(1, 3) {
				pv += "," + mvTok(am[r.Intn(len(am))])
			}
		}
		c.Count(fmt.Sprintf("size=%d depths=%s opts=%s tbl=%d", size, depths, opts, tbl))
		out := c.Emit(fmt.Sprintf("fn.zwsearch %s %s %s %d %d %s %s %d %s %s", encRaw(p.VerifRaw(), false), ev, opts, tbl, ply, depths, alphas, cut, mvTok(prev), pv))
		if out == "panic" {
			c.Count("zw=panic")
		} else if f := strings.Fields(out); len(f) > 1 && f[1] != "-" {
			c.Count("zw=pv")
		} else {
			c.Count("zw=nopv")
		}
	}
}

// `fn.sortmoves` (work package gen7, task 3): Generated/FuncsSort.lean - `moveGenerator.sortMoves` with `sort.Sort` as a
// permutation ORACLE.  The Go op runs the REAL `sortMoves` (harness/export/ai__genfn7.go) and prints the resulting list with the
// history value of every move; the oracle token of the line is that real result (re-checked by the Go op: `oracle-mismatch`).
// The Lean side runs the regenerated definition, hands the oracle token out as `sort.Sort`'s answer after RE-CHECKING that it is a
// permutation of `ms` whose REGENERATED values are non-increasing (`oracle-mismatch` otherwise).  Generator: FNSORT (C04, C05, C16).
//
//	fn.sortmoves <history> <ms: -|moves> <buffer mode 0..3> <fill> <oracle: -|moves>   ->   <ms> <values: -|v,v,..>   |   oracle-mismatch

func valsTok(h map[tak.Move]int, ms []tak.Move) string {
	if len(ms) == 0 {
		return "-"
	}
	var out []string
	for _, m := range ms {
		out = append(out, fmt.Sprint(h[m]))
	}
	return strings.Join(out, ",")
}

func init() {
	opTable["fn.sortmoves"] = func(s *Session, a []string) string {
		h := parseHist(a[0])
		res := ai.VerifSortMovesBuf(h, parseMvs0(a[1]), atoi(a[2]), atoi(a[3]))
		if mvsTok0(res, false) != a[4] {
			return "oracle-mismatch"
		}
		return mvsTok0(res, false) + " " + valsTok(h, res)
	}
	genTable["FNSORT"] = genFNSORT
}

func genFNSORT(c *Ctx) {
	r := c.R
	for k := 0; k < c.Scale(160, 16000); k++ {
		p := randomPosition(r)
		if p == nil {
			continue
		}
		am := p.AllMoves(nil)
		var ms []tak.Move
		switch r.Intn(6) {
		case 0: // empty
		case 1: // one move
			if len(am) > 0 {
				ms = []tak.Move{am[r.Intn(len(am))]}
			}
		case 2: // the whole list (often > 12: beyond sort.Sort's insertion-sort range)
			ms = am
		default:
			for _, m := range am {
				if r.Chance(1, 3) {
					ms = append(ms, m)
				}
			}
		}
		if len(ms) > 40 {
			ms = ms[:40]
		}
		if len(ms) > 1 && r.Chance(1, 5) {
			ms = append(ms, ms[0]) // a duplicated move
		}
		h := map[tak.Move]int{}
		vals := []int{1, 2, 3, 1 << 12, 1 << 30}
		if r.Chance(1, 2) {
			vals = []int{5, 5, 5, 9} // many equal values
		}
		for _, m := range ms {
			if r.Chance(2, 3) { // the others are absent from the map: value 0
				h[m] = vals[r.Intn(len(vals))]
			}
		}
		for i := r.Intn(3); i > 0; i-- {
			h[randMv(r)] = 7 // keys that are not in the list
		}
		mode, fill := r.Intn(4), []int{-1, 77, 1 << 40}[r.Intn(3)]
		res := ai.VerifSortMovesBuf(h, ms, mode, fill)
		c.Count(fmt.Sprintf("sort n=%s mode=%d", bucket(len(ms)), mode))
		c.Emit(fmt.Sprintf("fn.sortmoves %s %s %d %d %s", histTok(h), mvsTok0(ms, false), mode, fill, mvsTok0(res, false)))
	}
}

func bucket(n int) string {
	switch {
	case n == 0:
		return "0"
	case n == 1:
		return "1"
	case n <= 12:
		return "2-12"
	}
	return ">12"
}
