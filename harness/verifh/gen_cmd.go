package main

// Generators of work package "cmdglue": C12cmd (which position `taktician analyze` analyses for which flags),
// C06cmd (the -prove / -dfpn analyzers and `gencorpus -analysis dfpn` workers), C05cmd (the minimax analyzer on one
// engine per colour under -all, and the labels of `gencorpus -analysis minimax` workers).

import (
	"bytes"
	"fmt"
	"strconv"
	"strings"
	"time"

	"github.com/nelhage/taktician/prove"
	"github.com/nelhage/taktician/ptn"
	"github.com/nelhage/taktician/tak"
)

func hexTok(s string) string { return "hex:" + hexEnc([]byte(s)) }

func joinFlags(fs []string) string {
	if len(fs) == 0 {
		return "-"
	}
	return strings.Join(fs, ";")
}

func countAnalyzeOut(c *Ctx, kind, out string) {
	switch {
	case out == "panic" || out == "hang" || out == "flagerr":
		c.Count(kind + "." + out)
	case strings.HasSuffix(out, "FATAL"):
		c.Count(kind + ".fatal")
	case out == "-":
		c.Count(kind + ".silent")
	default:
		c.Count(kind + ".ok")
		for _, w := range []string{"value=WIN", "value=DRAW|LOSE", "value=UNKNOWN", "move=(none)", "Resulting position:"} {
			if strings.Contains(out, w) {
				c.Count(kind + "." + w)
			}
		}
	}
}

// moveCandidates: the -move values worth asking for: 0 (final), the markers of the file, their neighbours, beyond
// the game, negative.
func moveCandidates(c *Ctx, p *ptn.PTN, maxNum int) []int {
	seen := map[int]bool{}
	var marks []int
	mx := maxNum
	for _, op := range p.Ops {
		if mn, ok := op.(*ptn.MoveNumber); ok && !seen[mn.Number] {
			seen[mn.Number] = true
			marks = append(marks, mn.Number)
			if mn.Number > mx && mn.Number < 1000 {
				mx = mn.Number
			}
		}
	}
	cand := []int{0, 0, 1, 2, mx, mx + 1, mx + 2, -1 - c.R.Intn(3)}
	for k := 0; k < 4 && len(marks) > 0; k++ {
		cand = append(cand, marks[c.R.Intn(len(marks))])
	}
	return cand
}

// selectionFlags draws -move / -white / -black.
func selectionFlags(c *Ctx, cand []int) (fs []string, move int, color tak.Color) {
	r := c.R
	move = cand[r.Intn(len(cand))]
	if move != 0 || r.Chance(1, 8) {
		fs = append(fs, "move="+strconv.Itoa(move))
	}
	switch x := r.Intn(12); {
	case x < 4:
		fs = append(fs, "white")
		color = tak.White
	case x < 8:
		fs = append(fs, "black")
		color = tak.Black
	case x == 8:
		fs = append(fs, "white", "black")
		c.Count("sel.white+black")
	default:
		if move != 0 {
			color = tak.White
		}
	}
	return
}

// variationFor: a -variation value for the position the flags select (nil: the selection fails).
func variationFor(c *Ctx, p *tak.Position) string {
	r := c.R
	var parts []string
	cur := p
	for k := 1 + r.Intn(3); k > 0 && cur != nil; k-- {
		ms := legalMoves(cur)
		if len(ms) == 0 {
			break
		}
		m := ms[r.Intn(len(ms))]
		parts = append(parts, ptn.FormatMove(m))
		cur, _ = cur.Move(m)
	}
	switch x := r.Intn(10); {
	case x == 0:
		c.Count("variation.garbage")
		parts = append(parts, []string{"zz", "a9", "", "1", "Ca1x"}[r.Intn(5)])
	case x == 1 && p != nil:
		c.Count("variation.illegal")
		if bad := illegalMoveAt(r, p); formattable(bad) {
			parts = append([]string{ptn.FormatMove(bad)}, parts...)
		}
	case x == 2:
		c.Count("variation.double-space")
		return strings.Join(parts, "  ")
	case x == 3:
		c.Count("variation.trailing-space")
		return strings.Join(parts, " ") + " "
	}
	if len(parts) == 0 {
		return "a1"
	}
	return strings.Join(parts, " ")
}

var cheapModes = [][]string{
	{"quiet", "tps", "depth=1", "table-mem=-1", "limit=0"},
	{"tps", "depth=1", "table-mem=-1", "limit=0"},
	{"quiet", "tps", "depth=1", "table-mem=4096", "limit=1h"},
	{"quiet", "evaluate", "table-mem=-1", "limit=0"},
	{"evaluate", "table-mem=-1"},
	{"evaluate"},
}

func gameText(c *Ctx, g *genGame) []byte {
	text := []byte(g.p.Render())
	if c.R.Chance(1, 5) {
		text = append(append([]byte{}, bom...), text...)
		c.Count("file.bom")
	}
	return text
}

func genC12cmd(c *Ctx) {
	r := c.R
	for k := c.Scale(400, 12000); k > 0; k-- {
		var g *genGame
		switch x := r.Intn(10); {
		case x < 6:
			g = randomGame(c)
		case x < 9:
			g = puzzleGame(c)
		default:
			g = earliestEndGame(c)
		}
		for _, f := range g.features {
			c.Count("game." + f)
		}
		text := gameText(c, g)
		hx := hexEnc(text)
		back, err := ptn.ParsePTN(bytes.NewReader(text))
		if err != nil {
			c.Count("file.unparsable")
			countAnalyzeOut(c, "an", c.Emit("cmd.an quiet;depth=1;limit=0 "+hx))
			continue
		}
		size := 0
		if p0, e := back.InitialPosition(); e == nil {
			size = p0.Size()
		} else {
			c.Count("file.no-initial-position")
		}
		cand := moveCandidates(c, back, g.maxNum)
		nops := 3
		if c.Thorough() {
			nops = 5
		}
		for i := 0; i < nops; i++ {
			fs, move, color := selectionFlags(c, cand)
			mode := cheapModes[r.Intn(len(cheapModes))]
			if size >= 7 && len(mode) > 1 && mode[1] == "depth=1" && r.Chance(1, 2) {
				mode = cheapModes[3] // wide boards: mostly the static evaluation (the model searches them slowly)
			}
			all := size != 0 && size <= 5 && g.nmoves <= 24 && r.Chance(1, 6)
			if all {
				fs = append(fs, "all")
				c.Count("sel.all")
			} else if r.Chance(1, 5) {
				var sel *tak.Position
				if !(len(fs) >= 2 && fs[len(fs)-1] == "black" && fs[len(fs)-2] == "white") {
					sel, _ = back.PositionAtMove(move, color)
				}
				fs = append(fs, "variation="+hexTok(variationFor(c, sel)))
				c.Count("sel.variation")
			}
			switch {
			case move == 0:
				c.Count("sel.move=0")
			case move < 0:
				c.Count("sel.move<0")
			default:
				c.Count("sel.move>0")
			}
			out := c.Emit("cmd.an " + joinFlags(append(fs, mode...)) + " " + hx)
			countAnalyzeOut(c, "an", out)
		}
	}
	// files that are not games
	pool := handcraftedPTN()
	for k := c.Scale(64, 3200); k > 0; k-- {
		var b []byte
		switch x := r.Intn(4); {
		case x == 0:
			b = pool[r.Intn(len(pool))]
		case x == 1:
			b = randPTNBytes(r, 40+r.Intn(200))
		default:
			g := randomGame(c)
			b = mutateBytes(r, []byte(g.p.Render()), oddPool)
		}
		c.Count("file.malformed-stream")
		fs, _, _ := selectionFlags(c, []int{0, 0, 1, 2, 3})
		if r.Chance(1, 6) {
			fs = append(fs, "all")
		}
		out := c.Emit("cmd.an " + joinFlags(append(fs, cheapModes[r.Intn(2)]...)) + " " + hexEnc(b))
		countAnalyzeOut(c, "an.malformed", out)
	}
	// the flag parser itself
	if c.Shard == 0 {
		g := earliestEndGame(c)
		hx := hexEnc([]byte(g.p.Render()))
		for _, fl := range []string{"bogus", "move=x", "quiet=maybe", "white=false;black;move=1;quiet;depth=1;limit=0", "quiet=0;evaluate", "depth", "-", "mcts;prove"} {
			c.Emit("cmd.an " + fl + " " + hx)
		}
	}
}

// ---------------------------------------------------------------- C06cmd

// endgame: a default-configuration game on a small board with all its positions.
type endgame struct {
	size  int
	pos   []*tak.Position
	moves []tak.Move
}

func playEndgame(r *RNG, size int) *endgame {
	for {
		e := &endgame{size: size}
		p := tak.New(tak.Config{Size: size})
		for ply := 0; ply < 8*size*size; ply++ {
			e.pos = append(e.pos, p)
			if over, _ := p.GameOver(); over {
				break
			}
			ms := legalMoves(p)
			if len(ms) == 0 {
				break
			}
			var m tak.Move
			if w, ok := winningMove(p, ms); ok && ply >= 2 && r.Chance(2, 3) {
				m = w
			} else {
				m = pickBiased(r, p, ms)
			}
			if !formattable(m) {
				break
			}
			n, err := p.Move(m)
			if err != nil {
				panic("playEndgame: legal move rejected")
			}
			e.moves = append(e.moves, m)
			p = n
		}
		if over, _ := e.pos[len(e.pos)-1].GameOver(); over && len(e.moves) >= 6 && len(e.moves) == len(e.pos)-1 {
			return e
		}
	}
}

// file renders the game from position index `from` on (from > 0: a [TPS] start) up to move index `upto`.
func (e *endgame) file(from, upto int) (*ptn.PTN, int) {
	p := &ptn.PTN{Tags: []ptn.Tag{{Name: "Size", Value: strconv.Itoa(e.size)}}}
	if from > 0 {
		p.Tags = append(p.Tags, ptn.Tag{Name: "TPS", Value: ptn.FormatTPS(e.pos[from])})
	}
	ply := e.pos[from].MoveNumber()
	maxNum := 0
	for i := from; i < upto; i++ {
		if i == from || ply%2 == 0 {
			p.Ops = append(p.Ops, &ptn.MoveNumber{Number: ply/2 + 1})
			maxNum = ply/2 + 1
		}
		p.Ops = append(p.Ops, &ptn.Move{Move: e.moves[i]})
		ply++
	}
	return p, maxNum
}

// cheapForSolvers: plain PN search settles the position within `nodes` nodes and the depth-first solver comes back
// within `work` for either attacker.
func cheapForSolvers(p *tak.Position, nodes, work uint64) bool {
	if _, st := runPN(pnArgs{maxNodes: nodes + 1}, p); st.Nodes > nodes {
		return false
	}
	for _, att := range []tak.Color{tak.White, tak.Black} {
		w, ok := dfpnWork(att, 1<<16, p, time.Second)
		if !ok || w > work {
			return false
		}
	}
	return true
}

func solverFlags(c *Ctx) []string {
	r := c.R
	var fs []string
	if r.Chance(1, 2) {
		fs = append(fs, "prove")
		c.Count("mode.prove")
		if r.Chance(1, 2) {
			fs = append(fs, "max-nodes="+strconv.FormatUint(pnMaxNodes[r.Intn(len(pnMaxNodes))], 10))
		}
		if r.Chance(1, 3) {
			fs = append(fs, "max-depth="+strconv.Itoa(pnMaxDepth[r.Intn(len(pnMaxDepth))]))
		}
		if r.Chance(1, 4) {
			fs = append(fs, "pn2")
		}
	} else {
		fs = append(fs, "dfpn")
		c.Count("mode.dfpn")
		switch x := r.Intn(10); {
		case x < 2:
			fs = append(fs, "attacker=white")
			c.Count("mode.dfpn.attacker")
		case x < 4:
			fs = append(fs, "attacker=black")
			c.Count("mode.dfpn.attacker")
		case x == 4 && r.Chance(1, 4):
			fs = append(fs, "attacker="+[]string{"White", "w", "hex:20"}[r.Intn(3)])
			c.Count("mode.dfpn.attacker-bad")
		}
		switch x := r.Intn(10); {
		case x < 5:
			fs = append(fs, "table-mem="+strconv.Itoa(32*dfpnEntries[r.Intn(len(dfpnEntries))]))
		case x == 5:
			fs = append(fs, "table-mem=-1") // <= 0: the default size
		}
	}
	if r.Chance(1, 2) {
		fs = append(fs, "quiet")
	}
	if r.Chance(1, 2) {
		fs = append(fs, "limit=0")
	}
	return fs
}

// corpusPositions: positions for one gencorpus worker: both colours to move, none finished (the position
// selector never passes on the last position of a game).
func corpusPositions(c *Ctx, size, n int, cheap func(*tak.Position) bool) []*tak.Position {
	r := c.R
	var out []*tak.Position
	for try := 0; try < 40 && len(out) < n; try++ {
		e := playEndgame(r, size)
		i := len(e.pos) - 2 - r.Intn(3)
		if i < 2 {
			continue
		}
		if p := e.pos[i]; cheap(p) {
			out = append(out, p)
			// often the next position of the same game too: the other side to move, related table contents
			if r.Chance(1, 2) && i+1 < len(e.pos)-1 && cheap(e.pos[i+1]) {
				out = append(out, e.pos[i+1])
			}
		}
	}
	return out
}

func genC06cmd(c *Ctx) {
	r := c.R
	nodes, work := uint64(400), uint64(2500)
	if c.Thorough() {
		nodes, work = 3000, 20000
	}
	cheap := func(p *tak.Position) bool { return cheapForSolvers(p, nodes, work) }
	// (1) taktician analyze -prove / -dfpn on game files whose selected positions are a few plies from the end
	for k := c.Scale(96, 2400); k > 0; k-- {
		size := 3
		if r.Chance(1, 3) {
			size = 4
		}
		e := playEndgame(r, size)
		last := len(e.pos) - 1
		back := 1 + r.Intn(4)
		if back > last-2 {
			back = last - 2
		}
		ok := true
		for i := last - back; i <= last; i++ {
			if !cheap(e.pos[i]) {
				ok = false
			}
		}
		if !ok {
			c.Count("an.skipped-too-large")
			continue
		}
		from := 0
		if r.Chance(1, 2) {
			from = last - back
			c.Count("file.tps-start")
		}
		upto := last
		if r.Chance(1, 3) {
			upto = last - 1 // the record stops before the game-ending move
			c.Count("file.unfinished")
		}
		file, _ := e.file(from, upto)
		hx := hexEnc(gameText(c, &genGame{p: file}))
		c.Count("file.size" + strconv.Itoa(size))
		for i := 0; i < 3; i++ {
			fs := solverFlags(c)
			switch x := r.Intn(10); {
			case x < 5:
				// a position of the vetted tail, by move number and colour
				j := last - r.Intn(back+1)
				if j > upto {
					j = upto
				}
				ply := e.pos[j].MoveNumber()
				fs = append(fs, "move="+strconv.Itoa(ply/2+1), []string{"white", "black"}[ply%2])
				c.Count("sel.move+colour")
			case x < 7:
				c.Count("sel.final")
			case x == 7:
				fs = append(fs, "move="+strconv.Itoa(e.pos[last].MoveNumber()/2+3), "black")
				c.Count("sel.beyond")
			default:
				if from == last-back {
					fs = append(fs, "all")
					c.Count("sel.all")
				}
			}
			line := "cmd.an " + joinFlags(fs) + " " + hx
			if !solverRunFits(c, line, 4*nodes, 4*work) {
				c.Count("an.skipped-run-too-large")
				continue
			}
			out := c.Emit(line)
			countAnalyzeOut(c, "an", out)
		}
	}
	// (2) gencorpus -analysis dfpn: ONE worker, positions of both colours to move in one stream
	for k := c.Scale(64, 1600); k > 0; k-- {
		size := 3
		if r.Chance(1, 3) {
			size = 4
		}
		ps := corpusPositions(c, size, 2+r.Intn(4), cheap)
		if len(ps) == 0 {
			continue
		}
		movers := map[tak.Color]bool{}
		var toks []string
		for _, p := range ps {
			movers[p.ToMove()] = true
			toks = append(toks, encPos(p))
		}
		if len(movers) == 2 {
			c.Count("gc.dfpn.both-colours-in-one-worker")
		}
		line := fmt.Sprintf("cmd.gc dfpn %d %s", size, strings.Join(toks, " "))
		if !cmdComesBack(c, line, 3*time.Second) {
			c.Count("gc.dfpn.skipped-no-return")
			continue
		}
		out := c.Emit(line)
		for _, w := range strings.Fields(out) {
			c.Count("gc.dfpn.label" + w[strings.IndexByte(w, ':')+1:])
		}
	}
}

// solverRunFits runs the op once under a watchdog and reads the sizes of the searches from what it printed: the model
// replays them some fifty times slower, so runs beyond the budgets (tiny tables make the depth-first solver re-search)
// are not used.
func solverRunFits(c *Ctx, line string, nodes, work uint64) bool {
	out := execTimed(NewSession(), line, 3*time.Second)
	if out == "hang" {
		return false
	}
	for _, w := range strings.Fields(out) {
		switch {
		case strings.HasPrefix(w, "searched="):
			if v, _ := strconv.ParseUint(w[9:], 10, 64); v > nodes {
				return false
			}
		case strings.HasPrefix(w, "work="):
			if v, _ := strconv.ParseUint(w[5:], 10, 64); v > work {
				return false
			}
		case strings.HasPrefix(w, "hit="):
			if i := strings.IndexByte(w, '/'); i > 0 {
				if v, _ := strconv.ParseUint(w[i+1:], 10, 64); v > 20*work {
					return false
				}
			}
		}
	}
	return true
}

// cmdComesBack runs the op once under a watchdog (the depth-first solver has no limit of its own; a run that does
// not come back is left behind and the case is not used).
func cmdComesBack(c *Ctx, line string, d time.Duration) bool {
	return execTimed(NewSession(), line, d) != "hang"
}

// ---------------------------------------------------------------- C05cmd

func genC05cmd(c *Ctx) {
	r := c.R
	// (1) taktician analyze (minimax) on small games: one engine per colour under -all, a fresh one otherwise;
	// engines that never sort (-sort=false, or depth 1), so that the model reproduces every line
	for k := c.Scale(48, 1600); k > 0; k-- {
		size := 3
		if r.Chance(1, 4) {
			size = 4
		}
		e := playEndgame(r, size)
		last := len(e.pos) - 1
		back := 2 + r.Intn(4)
		if back > last-2 {
			back = last - 2
		}
		from := last - back
		upto := last
		if r.Chance(1, 3) {
			upto = last - 1
		}
		file, _ := e.file(from, upto)
		hx := hexEnc([]byte(file.Render()))
		depth := 2 + r.Intn(2)
		if size == 4 {
			depth = 2
		}
		fs := []string{"depth=" + strconv.Itoa(depth), "sort=false", "limit=0"}
		if r.Chance(2, 3) {
			fs = append(fs, "precise")
			c.Count("mm.precise")
		} else {
			c.Count("mm.default-pruning")
		}
		switch x := r.Intn(6); {
		case x < 2:
			fs = append(fs, "table-mem=-1")
			c.Count("mm.no-table")
		case x < 4:
			fs = append(fs, "table-mem="+strconv.Itoa(32*[]int{1, 3, 16, 256}[r.Intn(4)]))
			c.Count("mm.small-table")
		case x == 4:
			fs = append(fs, "table-mem="+strconv.Itoa(32*(1<<14)))
		default:
			c.Count("mm.default-table")
		}
		if r.Chance(1, 2) {
			fs = append(fs, "quiet")
		}
		if r.Chance(1, 2) {
			fs = append(fs, "tps")
		}
		if r.Chance(1, 2) {
			fs = append(fs, "all")
			c.Count("mm.all")
			if x := r.Intn(4); x == 0 {
				fs = append(fs, "white")
			} else if x == 1 {
				fs = append(fs, "black")
			}
		} else {
			j := last - r.Intn(back+1)
			if j > upto {
				j = upto
			}
			ply := e.pos[j].MoveNumber()
			fs = append(fs, "move="+strconv.Itoa(ply/2+1), []string{"white", "black"}[ply%2])
		}
		out := c.Emit("cmd.an " + joinFlags(fs) + " " + hx)
		countAnalyzeOut(c, "an", out)
		if strings.Contains(out, "value=") {
			for _, w := range strings.Fields(out) {
				if strings.HasPrefix(w, "value=") {
					v, _ := strconv.ParseInt(w[6:], 10, 64)
					switch {
					case v > 1<<29:
						c.Count("mm.value.win")
					case v < -(1 << 29):
						c.Count("mm.value.loss")
					default:
						c.Count("mm.value.heuristic")
					}
				}
			}
		}
	}
	// (2) gencorpus -analysis minimax: one worker (one default engine against the clock) on positions near the end
	// of small games; its labels against exhaustive search of the first plies.  -analysis none beside it.
	for k := c.Scale(48, 1200); k > 0; k-- {
		size := 3 + r.Intn(2)
		ps := corpusPositions(c, size, 2+r.Intn(3), func(*tak.Position) bool { return true })
		if len(ps) == 0 {
			continue
		}
		labels := runCorpus("minimax", size, 40*time.Millisecond, ps)
		for i, l := range labels {
			c.Count("gc.minimax.label" + fmt.Sprintf("%+.1f", l.Value))
			c.Emit(fmt.Sprintf("cmd.gcmm %s %s %s", fmt.Sprintf("%+f", l.Value), encMove(l.Move), encPos(ps[i])))
		}
		if r.Chance(1, 4) {
			var toks []string
			for _, p := range ps {
				toks = append(toks, encPos(p))
			}
			c.Emit(fmt.Sprintf("cmd.gc none %d %s", size, strings.Join(toks, " ")))
		}
	}
}

var _ = prove.EvalTrue

func init() {
	genTable["C12cmd"] = genC12cmd
	genTable["C06cmd"] = genC06cmd
	genTable["C05cmd"] = genC05cmd
}
