package main

// Ops of work package "selfplay": the real cmd/internal/selfplay (`Simulate`, `readOpenings`, `writeGame`,
// `(*Command).Execute`) in-process, with players supplied by this file through the hooks of
// harness/export/cmd_internal_selfplay__export.go (see harness/rewrite/cmd_selfplay_*.json for what is replaced).
//
//   sp.sim <cfg> <p1 hex> <p2 hex> <opening>...   Simulate with one worker: totals, every result, the calls, how it ended
//   sp.open <hex file>                            readOpenings: `err` or the positions
//   sp.game <p1 hex> <p2 hex> <oi> <i> <p1c> <initial> <final> <moves>   writeGame: the bytes of the file
//   sp.run <flags> <hex openings file | ->        `taktician selfplay <flags>`: log lines, table, files, summary
//
// A player command line (split at single blanks, as Execute does):
//   rnd A B D0 D1 [K:err | K:x,y,t,s]...   answers legal move number (A*ply + B) mod #legal (generation order of AllMoves
//                                          filtered through Position.Move; the zero move when there is none), thinking
//                                          D0 + D1*ply ns; at ply K it answers an error / the given raw move instead
//   mm <cfg token> D0 D1                   a fresh ai.MinimaxAI (newEngine) per game, GetMove
//   fail                                   the client cannot be started;   failgame: NewGame fails
// anything else: the client cannot be started (like a command that is not in PATH).

import (
	"context"
	"encoding/json"
	"errors"
	"fmt"
	"os"
	"path/filepath"
	"sort"
	"strconv"
	"strings"
	"sync"
	"time"

	"github.com/nelhage/taktician/cmd/internal/selfplay"
	"github.com/nelhage/taktician/tak"
	"github.com/nelhage/taktician/tei"
)

var spMu sync.Mutex

// state of the run in progress (guarded by spMu)
var spCalls, spDeadlines int
var spClocks []string

type spInject struct {
	err bool
	m   tak.Move
}

type spSpec struct {
	kind   string
	a, b   int
	d0, d1 int64
	at     map[int]spInject
	cfg    string
}

func spParse(argv []string) (spSpec, bool) {
	s := spSpec{at: map[int]spInject{}}
	num := func(t string) (int64, bool) {
		v, err := strconv.ParseInt(t, 10, 64)
		return v, err == nil && v >= 0
	}
	if len(argv) == 0 {
		return s, false
	}
	s.kind = argv[0]
	switch s.kind {
	case "fail":
		return s, false
	case "failgame":
		return s, len(argv) == 1
	case "rnd":
		if len(argv) < 5 {
			return s, false
		}
		var v [4]int64
		for i := range v {
			x, ok := num(argv[1+i])
			if !ok {
				return s, false
			}
			v[i] = x
		}
		s.a, s.b, s.d0, s.d1 = int(v[0]), int(v[1]), v[2], v[3]
		for _, t := range argv[5:] {
			i := strings.Index(t, ":")
			if i < 0 {
				return s, false
			}
			k, ok := num(t[:i])
			if !ok {
				return s, false
			}
			if t[i+1:] == "err" {
				s.at[int(k)] = spInject{err: true}
				continue
			}
			f := strings.Split(t[i+1:], ",")
			if len(f) != 4 {
				return s, false
			}
			for _, w := range f {
				if _, err := strconv.ParseInt(w, 10, 64); err != nil {
					return s, false
				}
			}
			s.at[int(k)] = spInject{m: decMove(t[i+1:])}
		}
		return s, true
	case "mm":
		if len(argv) != 4 {
			return s, false
		}
		s.cfg = argv[1]
		var ok1, ok2 bool
		s.d0, ok1 = num(argv[2])
		s.d1, ok2 = num(argv[3])
		return s, ok1 && ok2
	}
	return s, false
}

func spNote(ctx context.Context, p *tak.Position, tc *tei.TimeControl, s spSpec) {
	spCalls++
	if _, ok := ctx.Deadline(); ok {
		spDeadlines++
	}
	if tc != nil {
		spClocks = append(spClocks, fmt.Sprintf("%d/%d/%d/%d", int64(tc.White), int64(tc.Black), int64(tc.WInc), int64(tc.BInc)))
	}
	selfplay.VerifAdvance(time.Duration(s.d0 + s.d1*int64(p.MoveNumber())))
}

func init() {
	selfplay.VerifHookNewClient = func(cmdline []string) error {
		if _, ok := spParse(cmdline); !ok {
			return errors.New("verifh: no such player")
		}
		return nil
	}
	selfplay.VerifHookNewGame = func(cmdline []string, size int) (selfplay.VerifMover, error) {
		s, _ := spParse(cmdline)
		switch s.kind {
		case "failgame":
			return nil, errors.New("verifh: NewGame refused")
		case "mm":
			e := newEngine(size, s.cfg)
			return func(ctx context.Context, p *tak.Position, tc *tei.TimeControl) selfplay.VerifAnswer {
				spNote(ctx, p, tc, s)
				return selfplay.VerifAnswer{Move: e.ai.GetMove(context.Background(), p)}
			}, nil
		}
		return func(ctx context.Context, p *tak.Position, tc *tei.TimeControl) selfplay.VerifAnswer {
			spNote(ctx, p, tc, s)
			ply := p.MoveNumber()
			if inj, ok := s.at[ply]; ok {
				if inj.err {
					return selfplay.VerifAnswer{Err: errors.New("verifh: scripted error")}
				}
				return selfplay.VerifAnswer{Move: inj.m}
			}
			ms := legalMoves(p)
			if len(ms) == 0 {
				return selfplay.VerifAnswer{}
			}
			return selfplay.VerifAnswer{Move: ms[(s.a*ply+s.b)%len(ms)]}
		}, nil
	}
}

func spColor(c tak.Color) string {
	switch c {
	case tak.White:
		return "W"
	case tak.Black:
		return "B"
	}
	return "N"
}

func spDecColor(s string) tak.Color {
	switch s {
	case "W":
		return tak.White
	case "B":
		return tak.Black
	}
	return tak.NoColor
}

func spMoves(ms []tak.Move) string {
	if len(ms) == 0 {
		return "-"
	}
	w := make([]string, len(ms))
	for i, m := range ms {
		w[i] = encMove(m)
	}
	return strings.Join(w, ";")
}

func spDecMoves(tok string) []tak.Move {
	if tok == "-" {
		return nil
	}
	var out []tak.Move
	for _, w := range strings.Split(tok, ";") {
		out = append(out, decMove(w))
	}
	return out
}

func spStats(st *selfplay.Stats) string {
	pl := func(i int) string {
		p := st.Players[i]
		return fmt.Sprintf("%d,%d,%d,%d,%d,%d", p.Wins, p.WhiteWins, p.BlackWins, p.FlatWins, p.RoadWins, p.TimeWins)
	}
	return fmt.Sprintf("st=%d,%d,%d,%d p1=%s p2=%s", st.White, st.Black, st.Ties, st.Cutoff, pl(0), pl(1))
}

func spCrashClass(crash string) string {
	switch {
	case crash == "":
		return "ok"
	case strings.HasPrefix(crash, "fatal:Get move"):
		return "fatal:getmove"
	case strings.HasPrefix(crash, "fatal:starting client"):
		return "fatal:client"
	case strings.HasPrefix(crash, "fatal:starting game"):
		return "fatal:game"
	case strings.HasPrefix(crash, "fatal:parsing time control"):
		return "fatal:tc"
	case strings.HasPrefix(crash, "fatal:-openings"):
		return "fatal:openings"
	case strings.HasPrefix(crash, "panic:illegal move"):
		return "panic:illegal"
	case strings.HasPrefix(crash, "fatal:"):
		return "fatal:other"
	}
	return "panic:other"
}

func spReset() { spCalls, spDeadlines, spClocks = 0, 0, nil }

func runSpSim(a []string) string {
	spMu.Lock()
	defer spMu.Unlock()
	spReset()
	kv := parseKV(a[0])
	cfg := &selfplay.Config{
		Games:     int(kvInt(kv, "games", 1)),
		Swap:      kvInt(kv, "swap", 1) == 1,
		Cutoff:    int(kvInt(kv, "cutoff", 80)),
		Limit:     time.Duration(kvInt(kv, "limit", 0)),
		GameTime:  time.Duration(kvInt(kv, "gt", 0)),
		Increment: time.Duration(kvInt(kv, "inc", 0)),
		Threads:   1,
		Seed:      1,
		P1:        strings.Split(unhex(a[1]), " "),
		P2:        strings.Split(unhex(a[2]), " "),
	}
	for _, t := range a[3:] {
		cfg.Initial = append(cfg.Initial, decPos(t))
	}
	st, games, crash := selfplay.VerifSimulate(cfg)
	var sb strings.Builder
	sb.WriteString(spStats(&st))
	fmt.Fprintf(&sb, " n=%d count=%d", len(games), st.Count())
	for _, g := range games {
		fmt.Fprintf(&sb, " g=%d.%d.%s.%s.%d.%d:%s", g.Oi, g.I, spColor(g.P1Color), spColor(g.Winner), g.Position.Hash(), g.Position.MoveNumber(), spMoves(g.Moves))
	}
	if crash == "" {
		// (the calls of a game that ended the process are not part of any result)
		fmt.Fprintf(&sb, " calls=%d,%d", spCalls, spDeadlines)
		if len(spClocks) > 0 {
			sb.WriteString(" clk=" + strings.Join(spClocks, ";"))
		}
	}
	sb.WriteString(" stop=" + spCrashClass(crash))
	return sb.String()
}

func runSpOpen(tok string) string {
	name := cmdTmpFile(hexDec(tok))
	defer os.Remove(name)
	ps, err := selfplay.VerifReadOpenings(name)
	if err != nil {
		return "err"
	}
	w := []string{"ok"}
	for _, p := range ps {
		w = append(w, dumpPos(p))
	}
	return strings.Join(w, " ")
}

func runSpGame(a []string) string {
	dir, err := os.MkdirTemp("", "verifh-sp-*")
	if err != nil {
		panic(err)
	}
	defer os.RemoveAll(dir)
	g := selfplay.VerifGame{Oi: atoi(a[2]), I: atoi(a[3]), P1Color: spDecColor(a[4]), Initial: decPos(a[5]), Position: decPos(a[6]), Moves: spDecMoves(a[7])}
	selfplay.VerifWriteGame(dir, strings.Split(unhex(a[0]), " "), strings.Split(unhex(a[1]), " "), g)
	b, err := os.ReadFile(filepath.Join(dir, fmt.Sprintf("%d-%d.ptn", g.Oi, g.I)))
	if err != nil {
		return "nofile"
	}
	return "file " + hexEnc(b)
}

func spCanonLines(text string) []string {
	var out []string
	for _, l := range strings.Split(text, "\n") {
		if f := strings.Fields(l); len(f) > 0 {
			out = append(out, strings.Join(f, " "))
		}
	}
	return out
}

func runSpRun(flagTok string, openings string) string {
	spMu.Lock()
	defer spMu.Unlock()
	spReset()
	dir, err := os.MkdirTemp("", "verifh-sprun-*")
	if err != nil {
		panic(err)
	}
	defer os.RemoveAll(dir)
	outDir := ""
	var args []string
	for _, arg := range cmdArgs(flagTok) {
		switch arg {
		case "-openings=@":
			f := filepath.Join(dir, "openings.txt")
			if err := os.WriteFile(f, hexDec(openings), 0644); err != nil {
				panic(err)
			}
			arg = "-openings=" + f
		case "-openings=!":
			arg = "-openings=" + filepath.Join(dir, "no-such-file")
		case "-out=@":
			outDir = filepath.Join(dir, "out")
			arg = "-out=" + outDir
		}
		args = append(args, arg)
	}
	logged, stderr, flagErr, crash := selfplay.VerifExecute(args)
	if flagErr {
		return "flagerr"
	}
	if crash != "" {
		return "stop=" + spCrashClass(crash)
	}
	var w []string
	for _, l := range logged {
		l = strings.TrimSpace(l)
		if i := strings.Index(l, " seed="); i >= 0 && strings.HasPrefix(l, "done games=") {
			// the seed and the Duration text of -limit are not compared
			j := strings.Index(l, " ties=")
			k := strings.Index(l, " limit=")
			l = l[:i] + l[j:k]
		}
		if strings.HasPrefix(l, "writing summary:") {
			l = "writing summary:" // the text of the os error is not compared
		}
		if strings.HasPrefix(l, "ΔELO") || strings.HasPrefix(l, "p[one-sided]") {
			continue
		}
		w = append(w, l)
	}
	w = append(w, spCanonLines(stderr)...)
	res := strings.Join(w, " | ")
	if outDir != "" {
		ents, _ := os.ReadDir(outDir)
		var names []string
		for _, e := range ents {
			names = append(names, e.Name())
		}
		sort.Strings(names)
		for _, n := range names {
			b, _ := os.ReadFile(filepath.Join(outDir, n))
			if n == "summary.json" {
				var s struct {
					Player1, Player2           string
					Limit, GameTime, Increment int64
					Stats                      *selfplay.Stats
				}
				if err := json.Unmarshal(b, &s); err != nil || s.Stats == nil {
					res += " || summary=bad"
				} else {
					res += fmt.Sprintf(" || summary=%s,%s,%d,%d,%d %s", hexOf(s.Player1), hexOf(s.Player2), s.Limit, s.GameTime, s.Increment, spStats(s.Stats))
				}
				continue
			}
			res += " || " + n + "=" + hexEnc(b)
		}
	}
	return res + " || calls=" + strconv.Itoa(spCalls) + "," + strconv.Itoa(spDeadlines)
}

func init() {
	opTable["sp.sim"] = func(s *Session, a []string) string { return runSpSim(a) }
	opTable["sp.open"] = func(s *Session, a []string) string { return runSpOpen(a[0]) }
	opTable["sp.game"] = func(s *Session, a []string) string { return runSpGame(a) }
	opTable["sp.run"] = func(s *Session, a []string) string { return runSpRun(a[0], a[1]) }
}
