package main

// Generators for C14 (symmetries), C15 (canonicalisation) and the opening-book part of C04.

import (
	"strconv"
	"strings"

	"github.com/nelhage/taktician/cmd/internal/playtak"
	"github.com/nelhage/taktician/ptn"
	"github.com/nelhage/taktician/tak"
)

// --- the generator's own notion of the eight maps (independent of the code under test)

func gSym(k, n int, x, y int) (int, int) {
	f := func(i int) int { return n - 1 - i }
	switch k {
	case 1:
		return f(x), y
	case 2:
		return x, f(y)
	case 3:
		return y, x
	case 4:
		return f(y), f(x)
	case 5:
		return f(x), f(y)
	case 6:
		return y, f(x)
	case 7:
		return f(y), x
	}
	return x, y
}

// gMove maps a well-shaped move (coordinates far from the int8 limits) under map k.
func gMove(k, n int, m tak.Move) tak.Move {
	x, y := gSym(k, n, int(m.X), int(m.Y))
	out := tak.Move{X: int8(x), Y: int8(y), Type: m.Type}
	if m.Type < tak.SlideLeft || m.Type > tak.SlideDown {
		return out
	}
	out.Slides = m.Slides
	dx, dy := 0, 0
	switch m.Type {
	case tak.SlideLeft:
		dx = -1
	case tak.SlideRight:
		dx = 1
	case tak.SlideUp:
		dy = 1
	case tak.SlideDown:
		dy = -1
	}
	ox, oy := gSym(k, n, 0, 0)
	ex, ey := gSym(k, n, dx, dy)
	switch {
	case ex-ox == -1:
		out.Type = tak.SlideLeft
	case ex-ox == 1:
		out.Type = tak.SlideRight
	case ey-oy == 1:
		out.Type = tak.SlideUp
	case ey-oy == -1:
		out.Type = tak.SlideDown
	}
	return out
}

func gMoves(k, n int, ms []tak.Move) []tak.Move {
	out := make([]tak.Move, len(ms))
	for i, m := range ms {
		out[i] = gMove(k, n, m)
	}
	return out
}

// subgroups of the dihedral group in the numbering of symmetries()
var symSubgroups = [][]int{
	{0}, {0, 1}, {0, 2}, {0, 3}, {0, 4}, {0, 5},
	{0, 1, 2, 5}, {0, 3, 4, 5}, {0, 5, 6, 7}, {0, 1, 2, 3, 4, 5, 6, 7},
}

// symmetricPosition builds a board invariant under a random subgroup (stacks copied along orbits),
// optionally perturbed on one square, through FromSquares.
func symmetricPosition(r *RNG, size int) *tak.Position {
	for {
		h := symSubgroups[1+r.Intn(len(symSubgroups)-1)]
		board := make([][]tak.Square, size)
		done := make([][]bool, size)
		for y := range board {
			board[y] = make([]tak.Square, size)
			done[y] = make([]bool, size)
		}
		density := 10 + r.Intn(85)
		var cnt, capCnt [2]int
		for y := 0; y < size; y++ {
			for x := 0; x < size; x++ {
				if done[y][x] {
					continue
				}
				var sq tak.Square
				if r.Intn(100) < density {
					hgt := randHeight(r, false)
					if hgt > 7 {
						hgt = 1 + r.Intn(3)
					}
					sq = make(tak.Square, hgt)
					ci := r.Intn(2)
					kind := tak.Flat
					switch kk := r.Intn(100); {
					case kk < 22:
						kind = tak.Standing
					case kk < 30:
						kind = tak.Capstone
					}
					sq[0] = tak.MakePiece([]tak.Color{tak.White, tak.Black}[ci], kind)
					for j := 1; j < hgt; j++ {
						sq[j] = tak.MakePiece([]tak.Color{tak.White, tak.Black}[r.Intn(2)], tak.Flat)
					}
				}
				for _, k := range h {
					rx, ry := gSym(k, size, x, y)
					if done[ry][rx] {
						continue
					}
					done[ry][rx] = true
					board[ry][rx] = sq
					for j, pc := range sq {
						ci := 0
						if pc.Color() == tak.Black {
							ci = 1
						}
						if j == 0 && pc.Kind() == tak.Capstone {
							capCnt[ci]++
						} else {
							cnt[ci]++
						}
					}
				}
			}
		}
		if r.Chance(1, 4) {
			// break the symmetry on one square
			x, y := r.Intn(size), r.Intn(size)
			if len(board[y][x]) == 0 {
				board[y][x] = tak.Square{tak.MakePiece(tak.White, tak.Flat)}
				cnt[0]++
			} else if len(board[y][x]) == 1 && board[y][x][0].Kind() != tak.Capstone {
				board[y][x] = nil
			}
		}
		need := cnt[0]
		if cnt[1] > need {
			need = cnt[1]
		}
		needCaps := capCnt[0]
		if capCnt[1] > needCaps {
			needCaps = capCnt[1]
		}
		cfg := tak.Config{Size: size, BlackWinsTies: r.Chance(1, 4)}
		if need >= defaultPieces[size] || r.Chance(1, 5) {
			cfg.Pieces = need + 1 + r.Intn(4)
			if r.Chance(1, 6) {
				cfg.Pieces = need
			}
			if cfg.Pieces == 0 {
				cfg.Pieces = 1
			}
		}
		if needCaps > defaultCaps[size] || r.Chance(1, 5) {
			cfg.Capstones = needCaps + r.Intn(2)
		}
		if cfg.Pieces > 250 || cfg.Capstones > 250 {
			continue
		}
		ply := 2 + r.Intn(60)
		if r.Chance(1, 12) {
			ply = r.Intn(2)
		}
		p, err := tak.FromSquares(cfg, board, ply)
		if err != nil {
			panic(err)
		}
		return p
	}
}

// stabiliser: the maps k whose image of p equals p
func stabiliser(p *tak.Position) []int {
	out := []int{0}
	for k := 1; k < 8; k++ {
		im, err := imageOf(p, k)
		if err == nil && im.Equal(p) {
			out = append(out, k)
		}
	}
	return out
}

func containsMove(ms []tak.Move, m tak.Move) bool {
	for _, x := range ms {
		if x.Equal(m) {
			return true
		}
	}
	return false
}

// symGame plays a legal game from the start that tends to stay (or become again) self-symmetric:
// each player owes the mirror images of the moves it made while the board was symmetric, and
// otherwise prefers moves whose result has many symmetries.  Returns moves and final position.
func symGame(r *RNG, cfg tak.Config, maxPlies int) ([]tak.Move, *tak.Position) {
	size := cfg.Size
	p := tak.New(cfg)
	var ms []tak.Move
	var pending [2][]tak.Move
	greedy := r.Intn(100)  // chance (percent) to choose the most symmetric continuation
	payDebt := 50 + r.Intn(50)
	keepSym := []int{0, 0, 30, 70, 95}[r.Intn(5)] // chance to play a move that is its own mirror image
	for ply := 0; ply < maxPlies; ply++ {
		if over, _ := p.GameOver(); over {
			break
		}
		legal := legalMoves(p)
		if len(legal) == 0 {
			break
		}
		side := ply % 2
		var m tak.Move
		chosen := false
		if len(pending[side]) > 0 && r.Intn(100) < payDebt {
			i := r.Intn(len(pending[side]))
			cand := pending[side][i]
			pending[side] = append(pending[side][:i:i], pending[side][i+1:]...)
			if containsMove(legal, cand) {
				m, chosen = cand, true
			}
		}
		if !chosen && r.Intn(100) < keepSym {
			// a move that one of the symmetries of the position maps to itself keeps that symmetry
			st := stabiliser(p)
			if len(st) > 1 {
				var fixed []tak.Move
				for _, cand := range legal {
					for _, k := range st[1:] {
						if gMove(k, size, cand).Equal(cand) {
							fixed = append(fixed, cand)
							break
						}
					}
				}
				if len(fixed) > 0 {
					m, chosen = fixed[r.Intn(len(fixed))], true
				}
			}
		}
		if !chosen && r.Intn(100) < greedy {
			best := 9
			for t := 0; t < 10; t++ {
				cand := legal[r.Intn(len(legal))]
				if t < 3 {
					cand = pickBiased(r, p, legal)
				}
				n, err := p.Move(cand)
				if err != nil {
					continue
				}
				d := 8 / len(stabiliser(n)) // number of distinct images
				if d < best || (d == best && r.Chance(1, 2)) {
					best, m, chosen = d, cand, true
				}
			}
		}
		if !chosen {
			m = pickBiased(r, p, legal)
		}
		for _, k := range stabiliser(p) {
			if k == 0 {
				continue
			}
			tm := gMove(k, size, m)
			if !tm.Equal(m) && !containsMove(pending[side], tm) {
				pending[side] = append(pending[side], tm)
			}
		}
		n, err := p.Move(m)
		if err != nil {
			panic("symGame: legal move rejected")
		}
		p = n
		ms = append(ms, m)
	}
	return ms, p
}

func symGamePosition(r *RNG) *tak.Position {
	size := 3 + r.Intn(6)
	_, p := symGame(r, randomConfig(r, size), 2+r.Intn(3*size))
	return p
}

// malformed slides the property names: no drops at all, destination off the board, zero nibble inside
func namedBadSlides(r *RNG, size int) []tak.Move {
	x, y := int8(r.Intn(size)), int8(r.Intn(size))
	ty := tak.MoveType(int(tak.SlideLeft) + r.Intn(4))
	out := []tak.Move{
		{X: x, Y: y, Type: ty, Slides: 0},
		{X: x, Y: y, Type: ty, Slides: tak.MkSlides(1, 1, 1, 1, 1, 1, 1, 1)},
		{X: int8(size - 1), Y: y, Type: tak.SlideRight, Slides: tak.MkSlides(1)},
		{X: x, Y: 0, Type: tak.SlideDown, Slides: tak.MkSlides(1, 1)},
		{X: x, Y: y, Type: ty, Slides: 0x101},
		{X: x, Y: y, Type: ty, Slides: 0x10},
	}
	return out
}

func c14Position(c *Ctx) *tak.Position {
	switch x := c.R.Intn(100); {
	case x < 45:
		c.Count("src.random")
		return randomPosition(c.R)
	case x < 72:
		c.Count("src.symmetric-board")
		return symmetricPosition(c.R, 3+c.R.Intn(6))
	case x < 82:
		c.Count("src.deep-break-board")
		return deepBreakPosition(c.R, 3+c.R.Intn(6))
	case x < 88:
		if tg := towerGame(c.R, 3+c.R.Intn(3)); tg != nil {
			c.Count("src.tower-game")
			if len(tg.marks) > 0 && c.R.Chance(1, 2) {
				if q := replayAll(tg.size, tg.ms[:tg.marks[c.R.Intn(len(tg.marks))]]); q != nil {
					return q
				}
			}
			return tg.final
		}
		fallthrough
	default:
		c.Count("src.symmetric-game")
		return symGamePosition(c.R)
	}
}

func genC14(c *Ctx) {
	n := c.Scale(1100, 110000)
	for it := 0; it < n; it++ {
		p := c14Position(c)
		classifyPos(c, p)
		size := p.Size()
		tok := encPos(p)
		out := c.Emit("syms " + tok)
		c.Emit("ssyms " + tok)
		if it%5 == 0 {
			// the same through a Config borrowed from a game of another size (road boards: the verdicts matter)
			other := roadBoard(c.R, 3+c.R.Intn(6))
			q := p
			if c.R.Chance(1, 2) {
				q = roadBoard(c.R, size)
			}
			c.Count("symscfg=" + clip(c.Emit("symscfg "+encPos(other)+" "+encPos(q)), 5))
		}
		c.Count("images=" + strconv.Itoa(len(strings.Fields(out))))
		ks := []int{c.R.Intn(8), 1 + c.R.Intn(7)}
		if c.R.Chance(1, 5) {
			ks = []int{0, 1, 2, 3, 4, 5, 6, 7}
		}
		for _, k := range ks {
			o := c.Emit("xover " + strconv.Itoa(k) + " " + tok)
			c.Emit("sxover " + strconv.Itoa(k) + " " + tok)
			if f := strings.Fields(o); len(f) > 0 {
				c.Count("xover.over=" + f[0])
			}
		}
		var moves []tak.Move
		legal := p.AllMoves(nil)
		for j := 0; j < 5 && len(legal) > 0; j++ {
			if j < 2 {
				ls := legalMoves(p)
				if len(ls) > 0 {
					moves = append(moves, pickBiased(c.R, p, ls))
					continue
				}
			}
			moves = append(moves, legal[c.R.Intn(len(legal))])
		}
		for j := 0; j < 4; j++ {
			moves = append(moves, rawMove(c.R, size))
		}
		bad := namedBadSlides(c.R, size)
		moves = append(moves, bad[c.R.Intn(len(bad))], bad[0])
		for _, m := range moves {
			for _, k := range ks {
				if len(ks) == 8 && c.R.Chance(1, 2) {
					continue
				}
				ka := strconv.Itoa(k)
				xo := c.Emit("xmove " + ka + " " + tok + " " + encMove(m))
				c.Emit("sxmove " + ka + " " + tok + " " + encMove(m))
				c.Emit("xform " + ka + " " + strconv.Itoa(size) + " " + encMove(m))
				kind := "place"
				if m.IsSlide() {
					kind = "slide"
					if m.Slides == 0 {
						kind = "slide0"
					}
				}
				if m.Type < 2 || m.Type > 8 {
					kind = "badtype"
				}
				f := strings.Fields(xo)
				res := "?"
				if len(f) >= 3 {
					res = f[0] + "." + f[1] + "." + f[2]
				} else if len(f) > 0 {
					res = strings.Join(f, ".")
				}
				c.Count("xmove." + kind + "." + res)
			}
		}
		// composed maps and preferMove
		if c.R.Chance(1, 3) {
			w := strconv.Itoa(c.R.Intn(8))
			for j := c.R.Intn(4); j > 0; j-- {
				w += "." + strconv.Itoa(c.R.Intn(8))
			}
			m := moves[c.R.Intn(len(moves))]
			c.Emit("xform " + w + " " + strconv.Itoa(size) + " " + encMove(m))
			c.Emit("prefer " + encMove(moves[c.R.Intn(len(moves))]) + " " + encMove(m))
			c.Emit("prefer " + encMove(m) + " " + encMove(gMove(c.R.Intn(8), size, m)))
		}
	}
	genXformShapes(c)
}

// genXformShapes: every slide shape of a size (all compositions, no drops, zero nibbles, too long) from
// origins on and just off the board, every type code 0..10, under all eight maps; sizes 3..4 in the quick
// tier, 3..8 in the thorough tier.  Work is split over the shards by index.
func genXformShapes(c *Ctx) {
	maxSize := 4
	if c.Thorough() {
		maxSize = 8
	}
	tbl := tak.VerifSlidesTable()
	idx := 0
	for size := 3; size <= maxSize; size++ {
		var words []tak.Slides
		words = append(words, 0, 0x10, 0x101, 0x11111111, 0x9, 0xf)
		for h := 1; h <= size; h++ {
			words = append(words, tbl[h]...)
		}
		coords := []int{-1, 0, 1, size - 2, size - 1, size}
		for _, x := range coords {
			for _, y := range coords {
				for ty := 0; ty <= 10; ty++ {
					ws := words
					if ty < int(tak.SlideLeft) {
						ws = words[:2]
					}
					for _, w := range ws {
						for k := 0; k < 8; k++ {
							idx++
							if idx%c.NShard != c.Shard {
								continue
							}
							m := tak.Move{X: int8(x), Y: int8(y), Type: tak.MoveType(ty), Slides: w}
							o := c.Emit("xform " + strconv.Itoa(k) + " " + strconv.Itoa(size) + " " + encMove(m))
							if o == "panic" {
								c.Count("shapes.panic")
							} else {
								c.Count("shapes.ok")
							}
						}
					}
				}
			}
		}
	}
	// int8 extremes
	for _, x := range []int{-128, -127, -121, -120, 119, 120, 126, 127} {
		for ty := 2; ty <= 8; ty++ {
			for k := 0; k < 8; k++ {
				idx++
				if idx%c.NShard != c.Shard {
					continue
				}
				size := 3 + (idx/c.NShard)%6
				m := tak.Move{X: int8(x), Y: int8(1), Type: tak.MoveType(ty), Slides: 0x21}
				c.Emit("xform " + strconv.Itoa(k) + " " + strconv.Itoa(size) + " " + encMove(m))
				m.X, m.Y = m.Y, m.X
				c.Emit("xform " + strconv.Itoa(k) + " " + strconv.Itoa(size) + " " + encMove(m))
			}
		}
	}
}

// --- C15

func emitCanonFamily(c *Ctx, size int, ms []tak.Move, full bool) {
	sz := strconv.Itoa(size)
	out := c.Emit("canon " + sz + " " + encMoves(ms))
	if size >= 3 && size <= 8 {
		c.Emit("scanon " + sz + " " + encMoves(ms))
	}
	switch {
	case out == "err":
		c.Count("canon.err")
	case out == "panic":
		c.Count("canon.panic")
	default:
		c.Count("canon.ok")
		if out != encMoves(ms) {
			c.Count("canon.changed")
		}
	}
	if out != "err" && out != "panic" && out != "-" {
		// double application
		c.Emit("canon " + sz + " " + out)
	}
	ks := []int{1 + c.R.Intn(7)}
	if full {
		ks = []int{1, 2, 3, 4, 5, 6, 7}
	}
	for _, k := range ks {
		c.Emit("canon " + sz + " " + encMoves(gMoves(k, size, ms)))
	}
	if len(ms) > 1 {
		cut := 1 + c.R.Intn(len(ms)-1)
		c.Emit("canon " + sz + " " + encMoves(ms[:cut]))
	}
	if full {
		c.Emit("canonchk " + sz + " " + encMoves(ms))
	}
}

// all legal sequences of exactly `plies` moves from the start, split over the shards
func enumGames(c *Ctx, size, plies int, idx *int, f func(ms []tak.Move)) {
	var rec func(p *tak.Position, ms []tak.Move)
	rec = func(p *tak.Position, ms []tak.Move) {
		if len(ms) == plies {
			*idx++
			if *idx%c.NShard == c.Shard {
				f(ms)
			}
			return
		}
		if over, _ := p.GameOver(); over {
			return
		}
		for _, m := range legalMoves(p) {
			n, _ := p.Move(m)
			rec(n, append(ms[:len(ms):len(ms)], m))
		}
	}
	rec(tak.New(tak.Config{Size: size}), nil)
}

var canonSeeds = []struct {
	size int
	line string
}{
	{5, "a1 a5 e5 e1 c4 b4"},
	{5, "a1 e5 b4"},
	{6, "a2 b2 e2 f2 e5 f5 b5 a5 c4 b6 d4 e6 d3 e1 c3 b1 c1"},
	{6, "a2 b2 e2 f2 e5 f5 b5 a5 c4 b6 d4 e6 d3 e1 c3 b1 f3"},
	{5, "a1 e5 c3 c4 c3+ c2 2c4- c2+"},
	{4, "a1 d4 b2 c3 c2 b3 b2+ c3-"},
}

func genC15(c *Ctx) {
	// fixed seeds (shard 0 only): the shapes of the repository's own test plus slides through the centre
	if c.Shard == 0 {
		for _, s := range canonSeeds {
			var ms []tak.Move
			for _, w := range strings.Fields(s.line) {
				m, err := ptn.ParseMove(w)
				if err != nil {
					panic(err)
				}
				ms = append(ms, m)
			}
			emitCanonFamily(c, s.size, ms, true)
		}
	}
	// mirrored tall stacks that differ only deep down (see gen_tower.go)
	emitTowerGames(c, c.Scale(160, 16000))
	// orbit games: both players fill whole orbits of a rotation (90 or 180 degrees), so the game keeps coming back to
	// positions with a pure rotational symmetry and is re-oriented by the SAME rotation more than once
	for it := c.Scale(240, 24000); it > 0; it-- {
		size := 4 + c.R.Intn(5)
		if ms := orbitGame(c.R, size); len(ms) > 0 {
			c.Count("game.orbit")
			emitCanonFamily(c, size, ms, true)
		}
	}
	n := c.Scale(1000, 100000)
	for it := 0; it < n; it++ {
		size := 3 + c.R.Intn(6)
		if c.R.Chance(1, 3) {
			size = 3 + c.R.Intn(3)
		}
		maxPlies := 2 + c.R.Intn(4*size)
		if c.R.Chance(1, 10) {
			maxPlies = 4*size + c.R.Intn(40)
		}
		ms, _ := symGame(c.R, tak.Config{Size: size}, maxPlies)
		{
			// how symmetric did the game stay: plies (from 4 on) whose position is self-symmetric, and re-entries
			q := tak.New(tak.Config{Size: size})
			late, re, wasTrivial := 0, 0, false
			for i, m := range ms {
				q, _ = q.Move(m)
				st := len(stabiliser(q))
				if st > 1 && i >= 3 {
					late++
				}
				if st > 1 && wasTrivial {
					re++
				}
				wasTrivial = st == 1
			}
			if late > 0 {
				c.Count("game.symmetric-at-ply>=4")
			}
			if late >= 6 {
				c.Count("game.symmetric-for>=6-late-plies")
			}
			if re > 0 {
				c.Count("game.re-entered-symmetry")
			}
		}
		c.Count("size" + strconv.Itoa(size))
		c.Count("len~" + strconv.Itoa(len(ms)/8*8))
		ns := 0
		for _, m := range ms {
			if m.IsSlide() {
				ns++
			}
		}
		if ns > 0 {
			c.Count("game.with-slides")
		}
		emitCanonFamily(c, size, ms, c.R.Chance(1, 6))
		// malformed stream
		if c.R.Chance(1, 5) && len(ms) > 0 {
			bad := append([]tak.Move(nil), ms...)
			i := c.R.Intn(len(bad))
			switch c.R.Intn(4) {
			case 0:
				bad[i] = rawMove(c.R, size)
			case 1:
				bs := namedBadSlides(c.R, size)
				bad[i] = bs[c.R.Intn(len(bs))]
			case 2:
				bad[i] = bad[c.R.Intn(len(bad))] // a repeated move: usually occupied / not yours
			case 3:
				bad = append(bad, bad[len(bad)-1])
			}
			o := c.Emit("canon " + strconv.Itoa(size) + " " + encMoves(bad))
			c.Emit("scanon " + strconv.Itoa(size) + " " + encMoves(bad))
			c.Count("malformed." + map[bool]string{true: "rejected", false: "accepted"}[o == "err" || o == "panic"])
		}
		if c.R.Chance(1, 60) {
			c.Emit("canon " + strconv.Itoa([]int{0, 1, 2, 9, 10}[c.R.Intn(5)]) + " " + encMoves(ms))
			c.Emit("canon " + strconv.Itoa(size) + " -")
		}
	}
	// exhaustive short games
	type job struct{ size, plies int }
	jobs := []job{{3, 1}, {3, 2}, {4, 1}, {4, 2}, {3, 3}}
	if c.Thorough() {
		jobs = append(jobs, job{4, 3}, job{3, 4}, job{4, 4}, job{5, 1}, job{5, 2}, job{5, 3}, job{6, 2})
	}
	idx := 0
	for _, j := range jobs {
		enumGames(c, j.size, j.plies, &idx, func(ms []tak.Move) {
			sz := strconv.Itoa(j.size)
			c.Count("exhaustive." + sz + "x" + sz + ".plies" + strconv.Itoa(j.plies))
			c.Emit("canon " + sz + " " + encMoves(ms))
			c.Emit("scanon " + sz + " " + encMoves(ms))
			c.Emit("canonchk " + sz + " " + encMoves(ms))
		})
	}
}

// --- C04, opening book

// replay returns the position after the moves (nil if one is illegal)
func replay(size int, ms []tak.Move) *tak.Position {
	p := tak.New(tak.Config{Size: size})
	for _, m := range ms {
		n, err := p.Move(m)
		if err != nil {
			return nil
		}
		p = n
	}
	return p
}

// queryBook asks for every prefix position of every line, each under all eight maps, plus a few positions off the book
func queryBook(c *Ctx, size int, lines [][]tak.Move) {
	seen := map[string]bool{}
	for _, l := range lines {
		for cut := 0; cut < len(l); cut++ {
			for k := 0; k < 8; k++ {
				p := replay(size, gMoves(k, size, l[:cut]))
				if p == nil {
					continue
				}
				tok := encPos(p)
				if seen[tok] {
					continue
				}
				seen[tok] = true
				c.Count("bookwrap=" + clip(c.Emit("bookwrap "+tok), 12))
				o := c.Emit("bookget " + tok)
				f := strings.Fields(o)
				if len(f) == 4 {
					c.Count("bookget." + f[0] + "." + f[2] + "." + strings.SplitN(f[3], ":", 2)[0])
				} else {
					c.Count("bookget." + o)
				}
			}
		}
		// the end of the line and a deviation are normally not in the book
		if p := replay(size, l); p != nil {
			c.Emit("bookwrap " + encPos(p))
			c.Emit("bookget " + encPos(p))
			if ls := legalMoves(p); len(ls) > 0 {
				if n, err := p.Move(ls[c.R.Intn(len(ls))]); err == nil {
					c.Emit("bookget " + encPos(n))
				}
			}
		}
	}
}

func parsePTNLines(lines []string) [][]tak.Move {
	var out [][]tak.Move
	for _, l := range lines {
		var ms []tak.Move
		for _, w := range strings.Split(l, " ") {
			m, err := ptn.ParseMove(w)
			if err != nil {
				panic("book line: " + err.Error())
			}
			ms = append(ms, m)
		}
		out = append(out, ms)
	}
	return out
}

func genC04book(c *Ctx) {
	// the two built-in books (once, on two different shards): the object built by playtak's init()
	for i, size := range []int{5, 6} {
		if c.Shard != i%c.NShard {
			continue
		}
		lines := parsePTNLines(playtak.VerifBookLines(size))
		c.Emit("case real" + strconv.Itoa(size))
		c.Emit("realbook " + strconv.Itoa(size) + " " + encBookLines(lines))
		c.Count("book.real")
		queryBook(c, size, lines)
		// and the same lines through BuildOpeningBook
		c.Emit("case rebuilt" + strconv.Itoa(size))
		c.Emit("book " + strconv.Itoa(size) + " " + encBookLines(lines))
		queryBook(c, size, lines)
	}
	caseCounter := 0
	n := c.Scale(130, 13000)
	for it := 0; it < n; it++ {
		size := 3 + c.R.Intn(6)
		nl := 1 + c.R.Intn(7)
		var lines [][]tak.Move
		for j := 0; j < nl; j++ {
			var l []tak.Move
			if len(lines) > 0 && c.R.Chance(2, 3) {
				// share a prefix with an earlier line, possibly through a symmetry (a transposed line)
				src := lines[c.R.Intn(len(lines))]
				cut := c.R.Intn(len(src) + 1)
				l = append(l, src[:cut]...)
				if c.R.Chance(1, 3) {
					l = gMoves(c.R.Intn(8), size, l)
				}
			}
			p := replay(size, l)
			if p == nil {
				l, p = nil, tak.New(tak.Config{Size: size})
			}
			// continue with a symmetric-ish game
			more, _ := symGameFrom(c.R, p, 1+c.R.Intn(7))
			l = append(l, more...)
			if len(l) == 0 {
				continue
			}
			lines = append(lines, l)
		}
		malformed := c.R.Chance(1, 8)
		if malformed && len(lines) > 0 {
			li := c.R.Intn(len(lines))
			l := append([]tak.Move(nil), lines[li]...)
			i := c.R.Intn(len(l))
			// stays printable in PTN: a square of the board, but occupied / wrong phase / bad slide
			switch c.R.Intn(3) {
			case 0:
				l[i] = l[c.R.Intn(len(l))]
			case 1:
				l[i] = tak.Move{X: int8(c.R.Intn(size)), Y: int8(c.R.Intn(size)), Type: tak.MoveType(int(tak.SlideLeft) + c.R.Intn(4)), Slides: tak.MkSlides(1 + c.R.Intn(3))}
			case 2:
				l[i] = tak.Move{X: int8(c.R.Intn(size)), Y: int8(c.R.Intn(size)), Type: tak.PlaceCapstone}
			}
			lines[li] = l
		}
		caseCounter++
		c.Emit("case b" + strconv.Itoa(c.Shard) + "." + strconv.Itoa(caseCounter))
		o := c.Emit("book " + strconv.Itoa(size) + " " + encBookLines(lines))
		c.Count("size" + strconv.Itoa(size))
		if strings.HasPrefix(o, "ok") {
			c.Count("book.built")
			queryBook(c, size, lines)
		} else {
			c.Count("book." + o)
			c.Emit("bookget " + encPos(tak.New(tak.Config{Size: size})))
		}
	}
}

// symGameFrom continues a game from p for up to n plies in the style of symGame.
func symGameFrom(r *RNG, p *tak.Position, n int) ([]tak.Move, *tak.Position) {
	var ms []tak.Move
	for i := 0; i < n; i++ {
		if over, _ := p.GameOver(); over {
			break
		}
		legal := legalMoves(p)
		if len(legal) == 0 {
			break
		}
		m := pickBiased(r, p, legal)
		if r.Chance(1, 2) {
			best := 9
			for t := 0; t < 6; t++ {
				cand := legal[r.Intn(len(legal))]
				q, err := p.Move(cand)
				if err != nil {
					continue
				}
				if d := 8 / len(stabiliser(q)); d < best {
					best, m = d, cand
				}
			}
		}
		q, err := p.Move(m)
		if err != nil {
			panic("symGameFrom: legal move rejected")
		}
		p = q
		ms = append(ms, m)
	}
	return ms, p
}

func init() {
	genTable["C14"] = genC14
	genTable["C15"] = genC15
	genTable["C04book"] = genC04book
}

// orbitGame: ply 0 puts a black stone on a, ply 1 a white stone on b; then White completes the orbit of b and Black the
// orbit of a under the rotation rot (quarter turn: orbits of four, half turn: orbits of two), possibly for a second
// pair of squares, and a short random tail follows.  nil when a square of the plan is taken.
func orbitGame(r *RNG, size int) []tak.Move {
	rot := []int{6, 6, 7, 5}[r.Intn(4)] // numbering of gSym: 5 = half turn, 6 and 7 = the quarter turns
	orbit := func(x, y int) [][2]int {
		out := [][2]int{{x, y}}
		for {
			nx, ny := gSym(rot, size, out[len(out)-1][0], out[len(out)-1][1])
			if nx == x && ny == y {
				return out
			}
			out = append(out, [2]int{nx, ny})
			if len(out) > 4 {
				return nil
			}
		}
	}
	p := tak.New(tak.Config{Size: size})
	var ms []tak.Move
	play := func(m tak.Move) bool {
		n, err := p.Move(m)
		if err != nil {
			return false
		}
		p = n
		ms = append(ms, m)
		return true
	}
	for round := 0; round < 1+r.Intn(2); round++ {
		oa := orbit(r.Intn(size), r.Intn(size))
		ob := orbit(r.Intn(size), r.Intn(size))
		if len(oa) < 2 || len(oa) != len(ob) {
			return ms
		}
		// interleave: the side that owns orbit a / orbit b alternates; in round 0 the first two plies are the swapped opening
		var white, black [][2]int
		if round == 0 {
			black, white = oa, ob // ply 0 (White to move) places a BLACK stone on oa[0]; ply 1 a white one on ob[0]
			if !play(tak.Move{X: int8(oa[0][0]), Y: int8(oa[0][1]), Type: tak.PlaceFlat}) || !play(tak.Move{X: int8(ob[0][0]), Y: int8(ob[0][1]), Type: tak.PlaceFlat}) {
				return nil
			}
			white, black = white[1:], black[1:]
		} else {
			white, black = oa, ob
		}
		for i := 0; i < len(white) || i < len(black); i++ {
			if i < len(white) && !play(tak.Move{X: int8(white[i][0]), Y: int8(white[i][1]), Type: tak.PlaceFlat}) {
				return ms
			}
			if i < len(black) && !play(tak.Move{X: int8(black[i][0]), Y: int8(black[i][1]), Type: tak.PlaceFlat}) {
				return ms
			}
		}
	}
	for t := r.Intn(4); t > 0; t-- {
		if over, _ := p.GameOver(); over {
			break
		}
		ls := legalMoves(p)
		if len(ls) == 0 {
			break
		}
		play(pickBiased(r, p, ls))
	}
	return ms
}
