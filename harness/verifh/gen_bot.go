package main

// C07 generator: the generator plays the playtak server and the opponent.  For each scenario it
// enumerates ALL schedules (orderings of the enabled events: next server line, AI answer of the thinker
// inside GetMove, grace-timer expiry, undo traffic, chat, game end, close) up to a depth bound, after an
// optional canonical prefix that plays the scripted game up to a given ply, and adds random deep walks.
// Every schedule is run on the real bot loop through the ops of ops_bot.go; the same op lines go to the
// Lean model.  The enumeration needs the *real* state to know which events are enabled, so it is adaptive;
// the op lines themselves are self-contained and replay without the generator.
//
// "C07" is a thin parent: each shard re-executes this binary as a single-shard worker ("C07w") so that
// the stop-the-world goroutine dumps used for quiescence see a handful of goroutines only.

import (
	"bufio"
	"encoding/hex"
	"encoding/json"
	"fmt"
	"os"
	"os/exec"
	"path/filepath"
	"runtime"
	"strconv"
	"strings"
	"time"

	"github.com/nelhage/taktician/playtak"
	"github.com/nelhage/taktician/ptn"
	"github.com/nelhage/taktician/tak"
)

func init() {
	genTable["C07"] = genBotParent
	genTable["C07w"] = genBotWorker
}

func genBotParent(c *Ctx) {
	if c.Shard == 0 { // sweep what killed runs left behind
		if old, _ := filepath.Glob(filepath.Join(os.TempDir(), "c07-*")); len(old) > 0 {
			for _, d := range old {
				if st, err := os.Stat(d); err == nil && time.Since(st.ModTime()) > 2*time.Hour {
					os.RemoveAll(d)
				}
			}
		}
	}
	dir, err := os.MkdirTemp("", "c07-")
	if err != nil {
		panic(err)
	}
	defer os.RemoveAll(dir)
	cmd := exec.Command(os.Args[0], "run", "-prop", "C07w", "-seed", strconv.FormatUint(c.Seed, 10), "-tier", c.Tier, "-out", dir, "-shards", "1")
	journal := filepath.Join(dir, "journal")
	cmd.Env = append(os.Environ(), fmt.Sprintf("VERIF_C07_SHARD=%d", c.Shard), fmt.Sprintf("VERIF_C07_NSHARD=%d", c.NShard), "GOMAXPROCS=1", "VERIF_C07_JOURNAL="+journal)
	if out, err := cmd.CombinedOutput(); err != nil {
		// the worker died (a panic outside the protocol goroutine kills the process): report the case in
		// progress as a disagreement - its last op has no output on the Go side
		jb, jerr := os.ReadFile(journal)
		if jerr != nil || len(jb) == 0 {
			panic(fmt.Sprintf("C07 worker failed: %v\n%s", err, out))
		}
		lines := strings.Split(strings.TrimRight(string(jb), "\n"), "\n")
		for i := 0; i < len(lines); i++ {
			if !strings.HasPrefix(lines[i], "> ") {
				continue
			}
			op, res := lines[i][2:], "worker-crashed"
			if i+1 < len(lines) && strings.HasPrefix(lines[i+1], "< ") {
				res = lines[i+1][2:]
			}
			c.ops.WriteString(op + "\n")
			c.exp.WriteString(res + "\n")
			c.N++
		}
		c.Count("WORKER-CRASHED")
		fmt.Fprintf(os.Stderr, "C07 worker %d crashed: %v\n%s\n", c.Shard, err, clip(string(out), 2000))
		return
	}
	of, err := os.Open(filepath.Join(dir, "C07w.00.ops"))
	if err != nil {
		panic(err)
	}
	defer of.Close()
	ef, err := os.Open(filepath.Join(dir, "C07w.00.exp"))
	if err != nil {
		panic(err)
	}
	defer ef.Close()
	so, se := bufio.NewScanner(of), bufio.NewScanner(ef)
	so.Buffer(make([]byte, 1<<20), 1<<26)
	se.Buffer(make([]byte, 1<<20), 1<<26)
	first := true
	caseHash, caseLen := uint64(14695981039346656037), 0
	for so.Scan() {
		if !se.Scan() {
			panic("C07 worker: short .exp")
		}
		line, out := so.Text(), se.Text()
		if first && strings.HasPrefix(line, "basis ") {
			first = false
			continue
		}
		first = false
		c.ops.WriteString(line)
		c.ops.WriteByte('\n')
		c.exp.WriteString(out)
		c.exp.WriteByte('\n')
		c.N++
		// distinct = distinct schedules: hash of all op lines of a case (the `case n` line excluded)
		if strings.HasPrefix(line, "case ") {
			if caseLen > 1 {
				c.distinct[caseHash] = struct{}{}
			}
			caseHash, caseLen = 14695981039346656037, 0
		} else {
			caseHash = (caseHash ^ hashStr(line)) * 1099511628211
			caseLen++
		}
		if len(c.samples) < 3 || (c.N%9973 == 0 && len(c.samples) < 8) {
			c.samples = append(c.samples, line+" => "+clip(out, 300))
		}
	}
	if caseLen > 1 {
		c.distinct[caseHash] = struct{}{}
	}
	var sum struct {
		Distribution map[string]int `json:"distribution"`
	}
	if b, err := os.ReadFile(filepath.Join(dir, "C07w.summary.json")); err == nil && json.Unmarshal(b, &sum) == nil {
		for k, v := range sum.Distribution {
			c.Stats[k] += v
		}
	}
}

// ---- journal: the op lines of the case in progress, so that a worker killed by a panic on a goroutine
// the harness cannot guard (a thinker goroutine of handleMove) still yields a replayable violation

var botJournal *os.File

func jemit(c *Ctx, line string) string {
	if botJournal != nil {
		if strings.HasPrefix(line, "case ") {
			botJournal.Truncate(0)
			botJournal.Seek(0, 0)
		}
		botJournal.WriteString("> " + line + "\n")
	}
	out := c.Emit(line)
	if botJournal != nil {
		botJournal.WriteString("< " + out + "\n")
	}
	return out
}

// ---- scenarios

type botScn struct {
	name   string
	colour string // w b o
	size   int
	script []tak.Move
	alt    tak.Move // a flat on a square the script never touches: legal at every ply of the script
	hasAlt bool     // false (full-board scripts): the alternative answer is the first move legal in the record's current position
	pre    int      // plies played by the canonical prefix before the enumeration starts
	replay int      // moves the server replays (resume) from the start, whoever is to move
	menu   string   // enabled event classes
	depth  int
	gameNo int
	end    string // class of the script's final position ("" = game still running)
}

var botDeadline time.Time

type botScript struct {
	name  string
	size  int
	moves []string
	end   string // "" = the script stops in a running game; else the class of its final position
}

// the three long games of the ordinary scenarios ...
var botScripts = []botScript{
	{"g3", 3, []string{"a1", "c3", "c2", "a2", "c1"}, "road-W"},                                      // white road at ply 5
	{"g4", 4, []string{"a1", "d4", "b1", "c4", "b2", "c3", "b1+", "c4-", "Sa3", "d1", "2b2>11"}, ""}, // slides and a wall
	{"g5", 5, []string{"a1", "e1", "e3", "b1", "e2", "b2", "Ce4", "a2", "e5"}, "road-W"},             // the transcript of bot_test.go (capstone, white road)
}

// ... and short 3x3 games for every class of final position x colour of the last mover: draw (board full,
// equal flats, BlackWinsTies=false), decisive flat count, road of the mover, road of the other side.  With the
// bot playing either colour every class is reached both by the opponent's move and by the bot's own move.
var botEndScripts = []botScript{
	{"drawW", 3, []string{"a1", "c1", "Sc2", "Sc3", "b1", "a3", "Sb3", "b2", "a2"}, "flats-N"},
	{"drawB", 3, []string{"c2", "a2", "Sa1", "c2<", "b3", "Sc1", "Sc3", "c2", "a3", "b1"}, "flats-N"},
	{"draw9", 3, []string{"b3", "a3", "c3", "a2", "Sb2", "c2", "a1", "b1", "c1"}, "flats-N"},
	{"flatsWW", 3, []string{"b2", "c2", "c1", "Sa3", "Sa2", "Sa1", "Sb1", "Sc3", "b3"}, "flats-W"},
	{"flatsWB", 3, []string{"a2", "b3", "c2", "Sb2", "Sb1", "a3", "c1", "a2-", "Sc3", "Sa2"}, "flats-W"},
	{"flatsBW", 3, []string{"b2", "b1", "Sa2", "a3", "Sc1", "Sc3", "c2", "b3", "Sa1"}, "flats-B"},
	{"flatsBB", 3, []string{"a2", "b3", "Sb1", "a1", "b3>", "c1", "b3", "Sa3", "Sc2", "Sb2"}, "flats-B"},
	{"roadWW", 3, []string{"c3", "b1", "c1", "c2", "a1"}, "road-W"},
	{"roadWB", 3, []string{"b3", "c3", "b1", "b3>", "b2", "2c3<11"}, "road-W"},
	{"roadBB", 3, []string{"c2", "a2", "a3", "c1", "b2", "c3"}, "road-B"},
	{"roadBW", 3, []string{"b3", "a1", "a3", "b1", "a3>", "b2", "b3<"}, "road-B"},
}

// towerPrefix: White and Black feed a stack on d4 from c4 and e4 until it is eight high with a white stone on top and
// White to move (22 plies)
var towerPrefix = []string{"a8", "h8",
	"c4", "e4", "c4>", "e4<", "c4", "e4", "c4>", "e4<", "c4", "e4", "c4>", "e4<",
	"c4", "e4", "c4>", "h1", "c4", "g1", "c4>", "f1"}

// mkScript parses and replays a script on the real rules (no move after the end of the game, the final
// position of the declared class) and picks the `alt` answer: a flat on a square no move of the script touches
// (legal at every ply), if there is one.
func mkScript(sc botScript) ([]tak.Move, tak.Move, bool) {
	var ms []tak.Move
	size := sc.size
	p := tak.New(tak.Config{Size: size})
	touched := map[[2]int8]bool{}
	for _, s := range sc.moves {
		if over, _ := p.GameOver(); over {
			panic("C07 script " + sc.name + ": move after the end: " + s)
		}
		m, err := ptn.ParseMove(s)
		if err != nil {
			panic("C07 script: " + s)
		}
		n, err := p.Move(m)
		if err != nil {
			panic("C07 script " + sc.name + " illegal: " + s)
		}
		touched[[2]int8{m.X, m.Y}] = true
		if m.IsSlide() {
			dx, dy := int8(0), int8(0)
			switch m.Type {
			case tak.SlideLeft:
				dx = -1
			case tak.SlideRight:
				dx = 1
			case tak.SlideUp:
				dy = 1
			case tak.SlideDown:
				dy = -1
			}
			for i := 1; i <= m.Slides.Len(); i++ {
				touched[[2]int8{m.X + dx*int8(i), m.Y + dy*int8(i)}] = true
			}
		}
		ms = append(ms, m)
		p = n
	}
	d := p.WinDetails()
	got := ""
	if d.Over {
		got = "flats-" + colorStr(d.Winner)
		if d.Reason == tak.RoadWin {
			got = "road-" + colorStr(d.Winner)
		}
	}
	if got != sc.end {
		panic("C07 script " + sc.name + ": final position is " + got + ", declared " + sc.end)
	}
	for y := int8(size - 1); y >= 0; y-- {
		for x := int8(size - 1); x >= 0; x-- {
			if !touched[[2]int8{x, y}] && int(x) != int(y) {
				return ms, tak.Move{X: x, Y: y, Type: tak.PlaceFlat}, true
			}
		}
	}
	return ms, tak.Move{}, false
}

// ---- one run = one schedule on a fresh bot

type botRun struct {
	c       *Ctx
	scn     *botScn
	b       *botSess
	srv     []*tak.Position // the server's authoritative history
	seen    int             // entries of b.sent already accounted for
	replay  int             // replayed moves still to come
	undoReq bool            // the bot answered RequestUndo and the server has not sent Undo yet
	used    map[byte]int    // quota counters per event class
	times   int
	variant string
}

func (r *botRun) cur() *tak.Position { return r.srv[len(r.srv)-1] }

func (r *botRun) emit(line string) string {
	out := jemit(r.c, line)
	r.b = botOf(r.c.S)
	r.sync()
	return out
}

// sync: the server reads what the bot transmitted
func (r *botRun) sync() {
	if r.b == nil {
		return
	}
	r.b.mu.Lock()
	sent := append([]string(nil), r.b.sent[r.seen:]...)
	r.seen = len(r.b.sent)
	r.b.mu.Unlock()
	for _, x := range sent {
		rest := strings.TrimPrefix(x, r.b.gameStr+" ")
		if rest == "RequestUndo" {
			r.undoReq = true
			continue
		}
		m, err := playtak.ParseServer(rest)
		if err != nil {
			r.c.Count("srv:unparsable")
			continue
		}
		mine := (r.scn.colour == "w" && r.cur().ToMove() == tak.White) || (r.scn.colour == "b" && r.cur().ToMove() == tak.Black)
		n, err := r.cur().Move(m)
		if err != nil || !mine {
			if r.used['g'] > 0 {
				r.c.Count("srv:NOK-after-a-line-no-server-sends")
			} else {
				r.c.Count("srv:NOK")
			}
			if os.Getenv("VERIF_C07_DEBUG") != "" {
				fmt.Fprintf(os.Stderr, "NOK: scn=%s sent=%q mine=%v err=%v ply=%d N=%d\n", r.scn.name, x, mine, err, r.cur().MoveNumber(), r.c.N)
			}
			continue
		}
		r.srv = append(r.srv, n)
	}
}

func (r *botRun) start(id int) {
	jemit(r.c, fmt.Sprintf("case %d", id))
	r.srv = []*tak.Position{tak.New(tak.Config{Size: r.scn.size})}
	r.seen, r.undoReq, r.times = 0, false, 0
	r.replay = r.scn.replay
	r.used = map[byte]int{}
	line := fmt.Sprintf("botnew %s %d 600 %d", r.scn.colour, r.scn.size, r.scn.gameNo)
	if r.variant != "" {
		line += " v=" + r.variant
	}
	r.emit(line)
}

func (r *botRun) deliver(line string, extra string) string {
	// a move line of this game is a move of the server's history (whoever wrote the line)
	if bits := strings.Split(line, " "); len(bits) >= 2 && bits[0] == r.gs() && (bits[1] == "P" || bits[1] == "M") {
		if m, err := playtak.ParseServer(strings.Join(bits[1:], " ")); err == nil {
			if n, err := r.cur().Move(m); err == nil {
				r.srv = append(r.srv, n)
			}
		}
	}
	op := "ev deliver " + hex.EncodeToString([]byte(line))
	if line == "" {
		op = "ev deliver -"
	}
	if a := auxMove(line); a != "-" {
		op += " mv=" + a
	}
	if extra != "" {
		op += " " + extra
	}
	return r.emit(op)
}

func legalIn(p *tak.Position, m tak.Move) bool {
	_, err := p.Move(m)
	return err == nil
}

func firstLegal(p *tak.Position) (tak.Move, bool) {
	for _, m := range p.AllMoves(nil) {
		if legalIn(p, m) {
			return m, true
		}
	}
	return tak.Move{}, false
}

// scriptMove: the script's move for p if p is still on the script and the move is legal, else the first move that
// Position.Move accepts (which does not look at the end of the game: a thinker asked about a finished position gets
// an answer that would be transmitted)
func (r *botRun) scriptMove(p *tak.Position) (tak.Move, bool) {
	if k := p.MoveNumber(); k < len(r.scn.script) && legalIn(p, r.scn.script[k]) {
		return r.scn.script[k], true
	}
	return firstLegal(p)
}

func (r *botRun) botToMove() bool {
	t := r.cur().ToMove()
	return (r.scn.colour == "w" && t == tak.White) || (r.scn.colour == "b" && t == tak.Black)
}

type botOpt struct {
	class byte
	do    func()
}

var botQuota = map[byte]int{'T': 2, 'u': 1, 'd': 1, 'V': 1, 'c': 2, 'o': 1, 'n': 1, 'z': 1, 'x': 1, 'A': 2, 'g': 1}

func (r *botRun) gs() string { return r.b.gameStr }

// options: the events enabled now, in a fixed order
func (r *botRun) options() []botOpt {
	var o []botOpt
	b := r.b
	if b == nil || b.game == nil {
		return nil
	}
	add := func(cl byte, f func()) {
		if strings.IndexByte(r.scn.menu, cl) < 0 {
			return
		}
		if q, ok := botQuota[cl]; ok && r.used[cl] >= q {
			return
		}
		o = append(o, botOpt{cl, func() { r.used[cl]++; r.c.Count("ev:" + string(cl)); f() }})
	}
	// M: the next move announced by the server (opponent's move, any move while replaying or observing)
	srvOver, _ := r.cur().GameOver()
	if !srvOver && (r.replay > 0 || r.scn.colour == "o" || !r.botToMove()) {
		if m, ok := r.scriptMove(r.cur()); ok {
			add('M', func() {
				if r.replay > 0 {
					r.replay--
				}
				r.deliver(r.gs()+" "+playtak.FormatServer(m), "")
			})
		}
	}
	add('T', func() {
		r.times++
		r.deliver(fmt.Sprintf("%s Time %d %d", r.gs(), 600-7*r.times, 590-3*r.times), "")
	})
	b.mu.Lock()
	c := b.cur
	nt := len(b.pending)
	b.mu.Unlock()
	if c != nil {
		tag := func() {
			switch {
			case c.ctx.Err() != nil:
				r.c.Count("ai:answers-after-cancel")
			case c.p == b.game.VerifP():
				r.c.Count("ai:answers-for-current-position")
			default:
				r.c.Count("ai:answers-for-superseded-position")
			}
		}
		if m, ok := r.scriptMove(c.p); ok {
			add('a', func() { tag(); r.emit("ev aireturns " + encMove(m)) })
		}
		alt, okAlt := r.scn.alt, r.scn.hasAlt
		if !okAlt {
			alt, okAlt = firstLegal(b.game.VerifP())
		}
		if okAlt {
			add('A', func() { tag(); r.emit("ev aireturns " + encMove(alt)) })
		}
		add('x', func() { tag(); r.emit("ev aireturns 0,0,0,0") })
	} else if over, _ := b.game.VerifP().GameOver(); over && !b.over() {
		r.c.Count("state:decided-position-idle-thinker")
	}
	// t: the clock - the OLDEST armed timer expires.  After several server moves inside one invocation (a resume
	// replay) the first expiries are those of overwritten timers: the grace period runs from the LAST move.
	if nt > 0 {
		add('t', func() {
			if nt > 1 {
				r.c.Count("timer:expiry-with-a-newer-timer-armed")
			}
			out := r.emit("ev timer")
			if i := strings.LastIndex(out, " r="); i >= 0 {
				r.c.Count("timer:" + out[i+3:])
			}
		})
	}
	if len(r.srv) > 1 {
		add('u', func() { r.deliver(r.gs()+" RequestUndo", "a=1") })
		add('d', func() { r.deliver(r.gs()+" RequestUndo", "a=0") })
		if r.undoReq {
			add('U', func() {
				r.undoReq = false
				r.srv = r.srv[:len(r.srv)-1]
				r.deliver(r.gs()+" Undo", "")
			})
		}
		add('V', func() { // an Undo the bot was not asked about
			r.srv = r.srv[:len(r.srv)-1]
			r.deliver(r.gs()+" Undo", "")
		})
	}
	add('c', func() {
		lines := []string{"Shout <Opp> hello there", "Tell <Opp> good luck", "ShoutRoom lobby <Opp> hi all", "Game#99999 P A1", "Online 17", r.gs() + " Noise", "Message hi",
			// chat rooms are named by users: a room spelled like a game verb is still chat
			"ShoutRoom Undo <Opp> oops", "ShoutRoom Over <Opp> gg", "ShoutRoom Abandoned. <Opp> bye", "ShoutRoom RequestUndo <Opp> pls",
			"ShoutRoom P <Opp> A1", "ShoutRoom M <Opp> A1 B1 1", "ShoutRoom Time <Opp> 1 2"}
		r.deliver(lines[(r.used['c']-1+len(r.srv)+r.times)%len(lines)], "")
	})
	add('o', func() { r.deliver(r.gs()+" Over R-0", "") })
	add('n', func() { r.deliver(r.gs()+" Abandoned. Opp quit", "") })
	add('z', func() { r.emit("ev close") })
	add('g', func() { // garbage the server never sends: the loop panics or ignores, the model must say which
		lines := []string{r.gs(), r.gs() + " Time 5", r.gs() + " Over", r.gs() + " P Z9", r.gs() + " M A1 B2 1", "Tell Undo", "Tell", r.gs() + " Time x -3", r.gs() + " Time +12 99999999999999999999", r.gs() + " P A1", ""}
		r.deliver(lines[(len(r.srv)+r.times+r.seen)%len(lines)], "")
	})
	return o
}

// prefix: play the script to ply k in the plain way (move, clock, answer), keeping one thinker per position
func (r *botRun) prefix(k int) {
	for guard := 0; len(r.srv)-1 < k && guard < 200; guard++ {
		if r.b.over() {
			return
		}
		if r.scn.colour != "o" && r.botToMove() {
			r.b.mu.Lock()
			c := r.b.cur
			r.b.mu.Unlock()
			if c == nil {
				return
			}
			if c.ctx.Err() != nil || c.p.Hash() != r.cur().Hash() {
				r.emit("ev aireturns 0,0,0,0") // a thinker of an earlier invocation runs out
				continue
			}
			m, ok := r.scriptMove(c.p)
			if !ok {
				return
			}
			r.emit("ev aireturns " + encMove(m))
			continue
		}
		if over, _ := r.cur().GameOver(); over {
			return
		}
		m, ok := r.scriptMove(r.cur())
		if !ok {
			return
		}
		r.deliver(r.gs()+" "+playtak.FormatServer(m), "")
		r.times++
		r.deliver(fmt.Sprintf("%s Time %d %d", r.gs(), 600-7*r.times, 590-3*r.times), "")
	}
	// the prefix was played long ago: the grace timers of its moves (all abandoned when the clock line came) have expired
	if r.b.armed() > 0 {
		r.emit("ev drain")
	}
}

// ---- exhaustive enumeration of one scenario (odometer over option indices; one run per leaf)

type botFrame struct{ choice, n int }

func exploreScn(c *Ctx, scn *botScn, first int, caseID *int, variant string, budget int) int {
	stack := []botFrame{}
	runs := 0
	for runs < budget {
		if runs > 0 && scn.depth > 2 && time.Now().After(botDeadline) {
			c.Count("budget:unit-truncated")
			break
		}
		r := &botRun{c: c, scn: scn, variant: variant}
		*caseID++
		r.start(*caseID)
		r.prefix(scn.pre)
		depth := 0
		for depth < scn.depth {
			opts := r.options()
			if len(opts) == 0 {
				break
			}
			if depth == len(stack) {
				ch := 0
				if depth == 0 {
					ch = first
				}
				stack = append(stack, botFrame{ch, len(opts)})
			} else if stack[depth].n != len(opts) {
				c.Count("NONDETERMINISTIC-MENU")
				c.Emit("botnondet " + scn.name)
				return runs
			}
			if stack[depth].choice >= len(opts) {
				break // only at depth 0: this first choice does not exist
			}
			opts[stack[depth].choice].do()
			depth++
		}
		jemit(c, "state")
		runs++
		c.Count("scn:" + scn.name)
		c.Count(fmt.Sprintf("len:%d", depth))
		if r.b != nil {
			c.Count("end:" + r.b.status())
			c.Count(fmt.Sprintf("sent:%d", r.seen))
			if over, _ := r.cur().GameOver(); over && scn.end != "" {
				who := "opponent"
				if !r.botToMove() && scn.colour != "o" {
					who = "bot"
				}
				if scn.colour == "o" {
					who = "observed"
				}
				c.Count("finished:" + scn.end + ":last-move-by-" + who)
			}
		}
		if depth < len(stack) {
			stack = stack[:depth]
		}
		// next leaf; the first choice (depth 0) is fixed for this unit
		for len(stack) > 1 && stack[len(stack)-1].choice+1 >= stack[len(stack)-1].n {
			stack = stack[:len(stack)-1]
		}
		if len(stack) <= 1 {
			break
		}
		stack[len(stack)-1].choice++
	}
	return runs
}

// randomWalk: long schedules over the full menu
func randomWalk(c *Ctx, scn *botScn, rng *RNG, caseID *int, variant string, length int) {
	r := &botRun{c: c, scn: scn, variant: variant}
	*caseID++
	r.start(*caseID)
	r.prefix(scn.pre)
	n := 0
	for ; n < length; n++ {
		opts := r.options()
		if len(opts) == 0 {
			break
		}
		// bias towards progress: moves, answers and timers twice as likely
		var w []int
		for i, o := range opts {
			w = append(w, i)
			if strings.IndexByte("MaAt", o.class) >= 0 {
				w = append(w, i, i)
			}
		}
		opts[w[rng.Intn(len(w))]].do()
		if r.b != nil && r.b.over() && rng.Chance(1, 2) {
			break
		}
	}
	jemit(c, "state")
	c.Count("scn:" + scn.name)
	c.Count(fmt.Sprintf("len:%d", n))
	if r.b != nil {
		c.Count("end:" + r.b.status())
	}
}

func envInt(k string, d int) int {
	if v, err := strconv.Atoi(os.Getenv(k)); err == nil {
		return v
	}
	return d
}

func genBotWorker(c *Ctx) {
	if jp := os.Getenv("VERIF_C07_JOURNAL"); jp != "" {
		botJournal, _ = os.Create(jp)
	}
	shard, nshard := envInt("VERIF_C07_SHARD", 0), envInt("VERIF_C07_NSHARD", 1)
	variant := os.Getenv("VERIF_C07_VARIANT")
	extra := 0
	if c.Thorough() {
		extra = 2
	}
	extra += envInt("VERIF_C07_EXTRA_DEPTH", 0)
	var scns []*botScn
	for _, sc := range botScripts {
		script, alt, hasAlt := mkScript(sc)
		size := sc.size
		mk := func(name, colour, menu string, pre, replay, depth int) {
			scns = append(scns, &botScn{name: fmt.Sprintf("%s-%s%d", name, colour, size), colour: colour, size: size, script: script, alt: alt, hasAlt: hasAlt,
				pre: pre, replay: replay, menu: menu, depth: depth + extra, gameNo: 100 + len(scns)})
		}
		maxPre := len(script) - 1
		if size != 3 && !c.Thorough() {
			maxPre = 2
		}
		for _, colour := range []string{"w", "b"} {
			for rp := 1; rp <= maxPre+1 && rp <= len(script); rp++ {
				mk(fmt.Sprintf("resume%d", rp), colour, "MTaAt", 0, rp, 5)
			}
			for pre := 0; pre <= maxPre; pre++ {
				mk(fmt.Sprintf("core@%d", pre), colour, "MTaAt", pre, 0, 5)
				mk(fmt.Sprintf("undo@%d", pre), colour, "MaAtuU", pre, 0, 5)
			}
			mk("end@1", colour, "MaAtonz", 1, 0, 4)
			mk("end@last", colour, "MTaAtonz", len(script)-2, 0, 4)
			mk("misc@1", colour, "MTaxtcdV", 1, 0, 4)
		}
		mk("obs@0", "o", "MTatuUo", 0, 0, 5)
		mk("obs@2", "o", "MTatV", 2, 0, 4)
	}
	// finished positions of every class, reached by the opponent's and by the bot's own move; afterwards the clock
	// line, the grace timer, Over and whatever a thinker might answer, in every order
	var fin []*botScn
	for _, sc := range botEndScripts {
		script, alt, hasAlt := mkScript(sc)
		n := len(script)
		mk := func(name, colour, menu string, pre, depth int) {
			fin = append(fin, &botScn{name: fmt.Sprintf("fin-%s-%s%s", sc.name, name, colour), colour: colour, size: sc.size, script: script, alt: alt, hasAlt: hasAlt,
				pre: pre, menu: menu, depth: depth + extra, gameNo: 500 + len(fin), end: sc.end})
		}
		for _, colour := range []string{"w", "b"} {
			mk("last", colour, "MTaAto", n-1, 4)
			mk("undo", colour, "MTatuUo", n-1, 4)
		}
		mk("last", "o", "MTato", n-1, 3)
	}
	// 8x8 games that build an eight-high stack and then lift all of it (the carry limit of the largest board), with each
	// drop pattern that has a drop of 7 or 8: the wire spellings `M D4 D5 8`, `M D4 D6 7 1`, ... travel through
	// ParseServer when the opponent (or a resume replay) plays them and through FormatServer when the bot does
	for ti, last := range []string{"8d4+", "8d4+71", "8d4-17", "8d4+611", "8d4-116"} {
		sc := botScript{name: fmt.Sprintf("tower%d", ti), size: 8, moves: append(append([]string{}, towerPrefix...), last)}
		script, alt, hasAlt := mkScript(sc)
		n := len(script)
		for _, colour := range []string{"w", "b"} {
			scns = append(scns, &botScn{name: fmt.Sprintf("tower%d-core-%s", ti, colour), colour: colour, size: 8, script: script, alt: alt, hasAlt: hasAlt,
				pre: n - 2, menu: "MTaAt", depth: 3 + extra, gameNo: 900 + len(scns)})
			scns = append(scns, &botScn{name: fmt.Sprintf("tower%d-resume-%s", ti, colour), colour: colour, size: 8, script: script, alt: alt, hasAlt: hasAlt,
				replay: n, menu: "MTaAt", depth: 2 + extra, gameNo: 900 + len(scns)})
		}
	}
	// the same tower on the edge square d1, spread over the whole file d2..d8: seven drops, the longest wire line there is
	// (`M D1 D8 2 1 1 1 1 1 1`)
	var edgePrefix []string
	for _, mv := range towerPrefix {
		mv = strings.NewReplacer("c4", "c1", "e4", "e1", "h1", "h2", "g1", "g2", "f1", "f2").Replace(mv)
		edgePrefix = append(edgePrefix, mv)
	}
	for ti, last := range []string{"8d1+2111111", "7d1+1111111"} {
		sc := botScript{name: fmt.Sprintf("edgetower%d", ti), size: 8, moves: append(append([]string{}, edgePrefix...), last)}
		script, alt, hasAlt := mkScript(sc)
		n := len(script)
		for _, colour := range []string{"w", "b"} {
			scns = append(scns, &botScn{name: fmt.Sprintf("edgetower%d-core-%s", ti, colour), colour: colour, size: 8, script: script, alt: alt, hasAlt: hasAlt,
				pre: n - 2, menu: "MTaAt", depth: 3 + extra, gameNo: 950 + len(scns)})
			scns = append(scns, &botScn{name: fmt.Sprintf("edgetower%d-resume-%s", ti, colour), colour: colour, size: 8, script: script, alt: alt, hasAlt: hasAlt,
				replay: n, menu: "MTaAt", depth: 2 + extra, gameNo: 950 + len(scns)})
			// the bot itself is to play the seven-drop move
			scns = append(scns, &botScn{name: fmt.Sprintf("edgetower%d-own-%s", ti, colour), colour: colour, size: 8, script: script, alt: alt, hasAlt: hasAlt,
				pre: n - 1, menu: "MTaAt", depth: 2 + extra, gameNo: 950 + len(scns)})
		}
	}
	scns = append(fin, scns...)
	budget := time.Duration(envInt("VERIF_C07_BUDGET_S", map[bool]int{false: 8, true: 900}[c.Thorough()])) * time.Second
	botDeadline = time.Now().Add(budget)
	caseID := shard * 10000000
	for _, scn := range scns {
		for first := 0; first < 8; first++ {
			if int(hashStr(fmt.Sprintf("%s/%d", scn.name, first))%uint64(nshard)) != shard {
				continue
			}
			if time.Now().After(botDeadline) {
				// over the wall-clock budget (a loaded machine): every remaining unit still runs, two events deep
				c.Count("budget:unit-cut-to-depth-2")
				cut := *scn
				cut.depth = 2
				exploreScn(c, &cut, first, &caseID, variant, 1<<30)
				continue
			}
			exploreScn(c, scn, first, &caseID, variant, 1<<30)
		}
	}
	if n := runtime.NumGoroutine(); n > 16 {
		// bot games that were not shut down leave goroutines behind and make every quiescence dump slower
		c.Count(fmt.Sprintf("GOROUTINE-LEAK:%d", n))
		c.Emit("botleak")
	}
	// random deep walks over everything, including lines the server never sends
	rng := NewRNG(c.Seed*7919 + uint64(shard)*104729 + 12345)
	walks := 3200 / nshard
	if c.Thorough() {
		walks = 160000 / nshard
	}
	for i := 0; i < walks; i++ {
		if time.Now().After(botDeadline) {
			c.Count("budget:walks-cut")
			break
		}
		base := scns[rng.Intn(len(scns))]
		w := *base
		w.name = "walk-" + w.colour + strconv.Itoa(w.size)
		w.menu = "MTaAxtudUVconzg"
		if rng.Chance(2, 3) {
			w.menu = "MTaAxtudUVconz" // well-formed traffic only
		}
		w.pre = rng.Intn(len(w.script))
		w.replay = 0
		w.gameNo = 1 + rng.Intn(99999)
		if rng.Chance(1, 3) {
			w.pre = 0
			w.replay = 1 + rng.Intn(len(w.script))
		}
		randomWalk(c, &w, rng, &caseID, variant, 6+rng.Intn(30))
	}
}

func init() {
	opTable["botnondet"] = func(s *Session, a []string) string { return "nondeterministic-menu" }
	opTable["botleak"] = func(s *Session, a []string) string { return "goroutine-leak" }
}
