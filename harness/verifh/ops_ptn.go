package main

// Ops on the real code for PTN files (C12) and for the PTN-file / chat-line /
// weights-JSON part of C13. Encodings are described in lean/Driver/OpsPTN.lean.

import (
	"os"
	"bytes"
	"encoding/hex"
	"encoding/json"
	"fmt"
	"regexp"
	"sort"
	"strconv"
	"strings"
	"unicode"

	"github.com/nelhage/taktician/ai"
	"github.com/nelhage/taktician/playtak"
	"github.com/nelhage/taktician/ptn"
	"github.com/nelhage/taktician/tak"
)

func hexEnc(b []byte) string {
	if len(b) == 0 {
		return "-"
	}
	return hex.EncodeToString(b)
}

func hexDec(s string) []byte {
	if s == "-" || s == "" {
		return nil
	}
	b, err := hex.DecodeString(s)
	if err != nil {
		panic("bad hex")
	}
	return b
}

func fmtPTNOp(op ptn.Op) string {
	src := hexEnc([]byte(op.Source()))
	switch o := op.(type) {
	case *ptn.MoveNumber:
		return fmt.Sprintf("N%d:%s", o.Number, src)
	case *ptn.Move:
		return fmt.Sprintf("M%s:%s:%s", encMove(o.Move), hexEnc([]byte(o.Modifiers)), src)
	case *ptn.Comment:
		return fmt.Sprintf("C%s:%s", hexEnc([]byte(o.Comment)), src)
	case *ptn.Result:
		return fmt.Sprintf("R%s:%s", hexEnc([]byte(o.Result)), src)
	}
	return "?"
}

func fmtPTN(p *ptn.PTN) string {
	var w []string
	for _, t := range p.Tags {
		w = append(w, "T"+hexEnc([]byte(t.Name))+":"+hexEnc([]byte(t.Value)))
	}
	w = append(w, "|")
	for _, op := range p.Ops {
		w = append(w, fmtPTNOp(op))
	}
	return strings.Join(w, " ")
}

// decPTN reads the token form (the src fields must be empty: they are not settable from outside package ptn).
func decPTN(toks []string) *ptn.PTN {
	p := &ptn.PTN{}
	i := 0
	for ; i < len(toks) && toks[i] != "|"; i++ {
		f := strings.Split(toks[i][1:], ":")
		if toks[i][0] != 'T' || len(f) != 2 {
			panic("bad tag token")
		}
		p.Tags = append(p.Tags, ptn.Tag{Name: string(hexDec(f[0])), Value: string(hexDec(f[1]))})
	}
	for i++; i < len(toks); i++ {
		f := strings.Split(toks[i][1:], ":")
		switch {
		case toks[i][0] == 'N' && len(f) == 2:
			p.Ops = append(p.Ops, &ptn.MoveNumber{Number: atoi(f[0])})
		case toks[i][0] == 'M' && len(f) == 3:
			p.Ops = append(p.Ops, &ptn.Move{Move: decMove(f[0]), Modifiers: string(hexDec(f[1]))})
		case toks[i][0] == 'C' && len(f) == 2:
			p.Ops = append(p.Ops, &ptn.Comment{Comment: string(hexDec(f[0]))})
		case toks[i][0] == 'R' && len(f) == 2:
			p.Ops = append(p.Ops, &ptn.Result{Result: string(hexDec(f[0]))})
		default:
			panic("bad op token")
		}
	}
	return p
}

// tpsRes is ParseTPS's own answer for the file's TPS tag, passed to the model (which does not model ParseTPS here).
func tpsRes(p *ptn.PTN) (out string) {
	tps := p.FindTag("TPS")
	if tps == "" {
		return "-"
	}
	key := hexEnc([]byte(tps))
	defer func() {
		if r := recover(); r != nil {
			out = key + "=panic"
		}
	}()
	pos, err := ptn.ParseTPS(tps)
	if err != nil {
		return key + "=err"
	}
	return key + "=" + encPos(pos)
}

func colorOf(s string) tak.Color {
	switch s {
	case "W":
		return tak.White
	case "B":
		return tak.Black
	}
	return tak.NoColor
}

func traceOf(p *ptn.PTN) string {
	var w []string
	it := p.Iterator()
	limit := len(p.Ops) + 3
	// positions handed out by Position() are kept and looked at again after the loop
	var kept []*tak.Position
	var keptDump []string
	for it.Next() {
		pos := "nil"
		if it.Position() != nil {
			pos = dumpPos(it.Position())
			kept = append(kept, it.Position())
			keptDump = append(keptDump, pos)
		}
		w = append(w, fmt.Sprintf("T:%d:%s:%s:%s", it.PTNMove(), encMove(it.Move()), encMove(it.PeekMove()), pos))
		limit--
		if limit < 0 {
			w = append(w, "hang")
			return strings.Join(w, " ")
		}
	}
	if it.Err() != nil {
		w = append(w, "F:err")
	} else {
		w = append(w, "F:ok")
	}
	r := "R:kept"
	for i, q := range kept {
		if dumpPos(q) != keptDump[i] {
			r = fmt.Sprintf("R:changed@%d", i)
			break
		}
	}
	w = append(w, r)
	return strings.Join(w, " ")
}

func posResult(p *tak.Position, err error) string {
	if err != nil {
		return "err"
	}
	if p == nil {
		return "ok nil"
	}
	return "ok " + dumpPos(p)
}

// The safety predicate of lean/TakVerif/Impl/PTNSafe.lean, written again in Go (with the real FormatMove /
// ParseMove for the moveSafe clause). The model proves: class "safe" <=> render+parse gives the value back
// (for values whose moves are moveSafe); the op prints class and outcome, so a value on which the real code
// behaves otherwise shows up as a disagreement with the model.
var resultMirrorRE = regexp.MustCompile(`^(F|R|1/2|1|0)-(F|R|1/2|1|0)$`)

const scanWindow = 64 * 1024 // bufio.MaxScanTokenSize

func moveSafeGo(m tak.Move) bool {
	s := ptn.FormatMove(m)
	if len(s) == 0 || s[0] == '{' || s[0] == '[' {
		return false
	}
	if l := s[len(s)-1]; l == '.' || l == '?' || l == '!' || l == '\'' {
		return false
	}
	for i := 0; i < len(s); i++ {
		if unicode.IsSpace(rune(s[i])) {
			return false
		}
	}
	if resultMirrorRE.MatchString(s) {
		return false
	}
	r, err := ptn.ParseMove(s)
	return err == nil && r == m
}

func ptnSafeClass(p *ptn.PTN) string {
	for _, op := range p.Ops {
		if m, ok := op.(*ptn.Move); ok && !moveSafeGo(m.Move) {
			return "nomove"
		}
	}
	for _, t := range p.Tags {
		if strings.ContainsAny(t.Name, " ]") || strings.ContainsAny(t.Value, "\"]") {
			return "lossy"
		}
	}
	for _, op := range p.Ops {
		switch o := op.(type) {
		case *ptn.Move:
			if strings.Trim(o.Modifiers, "?!'") != "" || len(ptn.FormatMove(o.Move))+len(o.Modifiers) >= scanWindow {
				return "lossy"
			}
		case *ptn.Comment:
			if strings.Contains(o.Comment, "}") || len(o.Comment)+2 > scanWindow {
				return "lossy"
			}
		case *ptn.Result:
			if !resultMirrorRE.MatchString(o.Result) {
				return "lossy"
			}
		}
	}
	return "safe"
}

func init() {
	opTable["ptnsafe"] = func(s *Session, a []string) string {
		p := decPTN(a)
		cls := ptnSafeClass(p)
		back, err := ptn.ParsePTN(bytes.NewReader([]byte(p.Render())))
		switch {
		case err != nil:
			return cls + " err"
		case samePTN(p, back):
			return cls + " same"
		}
		return cls + " differs"
	}
	opTable["ptnparse"] = func(s *Session, a []string) string {
		p, err := ptn.ParsePTN(bytes.NewReader(hexDec(a[0])))
		if err != nil {
			return "err"
		}
		return "ok " + fmtPTN(p)
	}
	// ptnchunk <k> <hex>: the same bytes through a reader that hands over at most k bytes per Read (a pipe, a socket)
	opTable["ptnchunk"] = func(s *Session, a []string) string {
		p, err := ptn.ParsePTN(&chunkReader{b: hexDec(a[1]), n: atoi(a[0])})
		if err != nil {
			return "err"
		}
		return "ok " + fmtPTN(p)
	}
	// ptnfile: the same bytes through ptn.ParseFile (a file on disk), the entry point the command-line tools use
	opTable["ptnfile"] = func(s *Session, a []string) string {
		f, err := os.CreateTemp("", "verif-ptn-*.ptn")
		if err != nil {
			return "tmp-err"
		}
		defer os.Remove(f.Name())
		f.Write(hexDec(a[0]))
		f.Close()
		p, err := ptn.ParseFile(f.Name())
		if err != nil {
			return "err"
		}
		return "ok " + fmtPTN(p)
	}
	opTable["ptnrender"] = func(s *Session, a []string) string {
		return hexEnc([]byte(decPTN(a).Render()))
	}
	opTable["ptnrt"] = func(s *Session, a []string) string {
		p := decPTN(a)
		back, err := ptn.ParsePTN(bytes.NewReader([]byte(p.Render())))
		if err != nil {
			return "err"
		}
		if samePTN(p, back) {
			return "same"
		}
		return "differs"
	}
	// ptnedit: a game is parsed, then edited the way a tool does (annotations of every other move replaced, every third
	// comment replaced, the result replaced), then rendered: the text must be the rendering of the EDITED value
	opTable["ptnedit"] = func(s *Session, a []string) string {
		p, err := ptn.ParsePTN(bytes.NewReader(hexDec(a[0])))
		if err != nil {
			return "err"
		}
		mods, com := string(hexDec(a[1])), string(hexDec(a[2]))
		nm, nc := 0, 0
		for _, o := range p.Ops {
			switch o := o.(type) {
			case *ptn.Move:
				if nm%2 == 0 {
					o.Modifiers = mods
				}
				nm++
			case *ptn.Comment:
				if nc%3 == 0 {
					o.Comment = com
				}
				nc++
			}
		}
		return hexEnc([]byte(p.Render()))
	}
	opTable["ptnaddmoves"] = func(s *Session, a []string) string {
		var ms []tak.Move
		for _, t := range a {
			ms = append(ms, decMove(t))
		}
		p := &ptn.PTN{}
		p.AddMoves(ms)
		return fmtPTN(p)
	}
	opTable["ptninit"] = func(s *Session, a []string) string {
		p, err := ptn.ParsePTN(bytes.NewReader(hexDec(a[0])))
		if err != nil {
			return "err"
		}
		return posResult(p.InitialPosition())
	}
	opTable["ptnat"] = func(s *Session, a []string) string {
		p, err := ptn.ParsePTN(bytes.NewReader(hexDec(a[2])))
		if err != nil {
			return "err"
		}
		return posResult(p.PositionAtMove(atoi(a[0]), colorOf(a[1])))
	}
	opTable["ptniter"] = func(s *Session, a []string) string {
		p, err := ptn.ParsePTN(bytes.NewReader(hexDec(a[0])))
		if err != nil {
			return "err"
		}
		return traceOf(p)
	}
	opTable["ptnatf"] = func(s *Session, a []string) string {
		return posResult(decPTN(a[3:]).PositionAtMove(atoi(a[0]), colorOf(a[1])))
	}
	// ptnreuse <mode> <n> <colour> <tps answer of B> <file A> || <file B>: ONE PTN value is queried as file A (InitialPosition,
	// an iterator run, PositionAtMove), then given file B's tags and moves (mode 0: in place; 1: on a struct copy), and
	// queried again: the answers are those of file B - a PTN value has no memory of what it used to say
	opTable["ptnreuse"] = func(s *Session, a []string) string {
		cut := -1
		for i, t := range a {
			if t == "||" {
				cut = i
			}
		}
		A, B := decPTN(a[4:cut]), decPTN(a[cut+1:])
		func() {
			defer func() { recover() }()
			A.InitialPosition()
			traceOf(A)
			A.PositionAtMove(atoi(a[1]), colorOf(a[2]))
		}()
		p := A
		if a[0] == "1" {
			q := *A
			p = &q
		}
		p.Tags, p.Ops = B.Tags, B.Ops
		return posResult(p.PositionAtMove(atoi(a[1]), colorOf(a[2]))) + " / " + posResult(p.InitialPosition())
	}
	opTable["ptniterf"] = func(s *Session, a []string) string {
		return traceOf(decPTN(a[1:]))
	}
	opTable["chat"] = func(s *Session, a []string) string {
		line := string(hexDec(a[1]))
		switch a[0] {
		case "tell":
			x, y := playtak.ParseTell(line)
			return "ok " + hexEnc([]byte(x)) + " " + hexEnc([]byte(y))
		case "shout":
			x, y := playtak.ParseShout(line)
			return "ok " + hexEnc([]byte(x)) + " " + hexEnc([]byte(y))
		default:
			x, y, z := playtak.ParseShoutRoom(line)
			return "ok " + hexEnc([]byte(x)) + " " + hexEnc([]byte(y)) + " " + hexEnc([]byte(z))
		}
	}
	// weights <hex json> <json.Unmarshal's answer>: the second argument is for the model only
	opTable["weightsjson"] = func(s *Session, a []string) string {
		var w ai.Weights
		if err := w.UnmarshalJSON(hexDec(a[0])); err != nil {
			return "err"
		}
		parts := make([]string, len(w))
		for i, v := range w {
			parts[i] = strconv.FormatInt(v, 10)
		}
		return "ok " + strings.Join(parts, ",")
	}
}

// jsonMapRes is encoding/json's own answer for decoding into map[string]int64 (what UnmarshalJSON does first).
func jsonMapRes(bs []byte) string {
	h := make(map[string]int64)
	if err := json.Unmarshal(bs, &h); err != nil {
		return "err"
	}
	if len(h) == 0 {
		return "-"
	}
	keys := make([]string, 0, len(h))
	for k := range h {
		keys = append(keys, k)
	}
	sort.Strings(keys)
	parts := make([]string, len(keys))
	for i, k := range keys {
		parts[i] = hexEnc([]byte(k)) + "=" + strconv.FormatInt(h[k], 10)
	}
	return strings.Join(parts, ",")
}
