package main

// Generator "C17client": the TEI client (tei/client.go, tei/time.go) against the real engine and against
// scripted engines; formatTime on a boundary grid.

import (
	"encoding/hex"
	"strconv"
	"strings"

	"github.com/nelhage/taktician/tak"
)

// clock values (ns) around the client's two tests (`dur != 0`, `dur < 1ms`) and the ms truncation
var tcGridNS = []int64{0, 1, msNS - 1, msNS, msNS + 1, 5 * msNS, 1000 * msNS, 1 << 62}
var tcExtraNS = []int64{-1, -1000 * msNS, 2*msNS - 1, 1234567, 60000 * msNS, 1<<63 - 1, -1 << 63, 999 * msNS, 20000*msNS + 999999}

// remaining per-move times (ns).  Values of at least 1 ms sit half a millisecond above a millisecond boundary
// (the client reads the clock a few nanoseconds after the context computed the deadline: see relCtx);
// the others are below 1 ms whatever the clock does.
var remGridNS = []int64{-1000 * msNS, 0, 1, msNS - 1, msNS + msNS/2, 5*msNS + msNS/2, 1000*msNS + msNS/2, 1 << 62}

func fmtTC(w, b, wi, bi int64) string {
	return strconv.FormatInt(w, 10) + "," + strconv.FormatInt(b, 10) + "," + strconv.FormatInt(wi, 10) + "," + strconv.FormatInt(bi, 10)
}

func randTCField(r *RNG) int64 {
	switch x := r.Intn(10); {
	case x < 4:
		return tcGridNS[r.Intn(len(tcGridNS))]
	case x < 5:
		return tcExtraNS[r.Intn(len(tcExtraNS))]
	case x < 8:
		return int64(1+r.Intn(600000))*msNS + int64(r.Intn(int(msNS)))
	default:
		return int64(r.Next() >> uint(1+r.Intn(62)))
	}
}

func randTC(r *RNG) string {
	if r.Chance(1, 5) {
		return "-"
	}
	var f [4]int64
	for i := range f {
		f[i] = randTCField(r)
	}
	if r.Chance(1, 2) {
		// the usual selfplay shape: equal increments, often none
		f[3] = f[2]
		if r.Chance(1, 2) {
			f[2], f[3] = 0, 0
		}
	}
	return fmtTC(f[0], f[1], f[2], f[3])
}

func randRem(r *RNG) string {
	if r.Chance(1, 2) {
		return "-"
	}
	if r.Chance(2, 3) {
		return strconv.FormatInt(remGridNS[r.Intn(len(remGridNS))], 10)
	}
	return strconv.FormatInt(int64(1+r.Intn(100000))*msNS+msNS/2, 10)
}

// clientPosition: a position to ask a move for, its size, and a label for the distribution
// clientPosition: a position the engine can be asked about - finished, or with at least one legal move (a constructed
// board on which the game is not over but NO move is legal, e.g. ply 1 with the opponent's flats exhausted, is outside
// every property's domain: no engine can answer it)
func clientPosition(r *RNG, size int) (*tak.Position, string) {
	for tries := 0; ; tries++ {
		p, lab := clientPosition0(r, size)
		if over, _ := p.GameOver(); over || len(legalMoves(p)) > 0 || tries > 20 {
			if tries > 20 {
				return tak.New(tak.Config{Size: size}), "startpos"
			}
			return p, lab
		}
	}
}

func clientPosition0(r *RNG, size int) (*tak.Position, string) {
	switch x := r.Intn(20); {
	case x < 2:
		return tak.New(tak.Config{Size: size}), "startpos"
	case x < 11:
		_, p := randomLine(r, size, 1+r.Intn(6*size))
		return p, "playout"
	case x < 13:
		if size <= 5 {
			_, p := finishedLine(r, size)
			return p, "finished"
		}
		_, p := randomLine(r, size, 400)
		return p, "long-playout"
	case x < 15:
		// default piece counts, stacks, any ply: what TPS can express exactly
		for i := 0; i < 50; i++ {
			p := constructed(r, size)
			raw := p.VerifRaw()
			if raw.Pieces == 0 && raw.Capstones == 0 && !raw.BWT {
				return p, "constructed-default"
			}
		}
		return tak.New(tak.Config{Size: size}), "startpos"
	case x < 17:
		return constructed(r, size), "constructed-any-config"
	default:
		var keep *tak.Position
		playout(r, randomConfig(r, size), 1+r.Intn(3*size*size), func(p *tak.Position) { keep = p })
		if keep == nil {
			keep = tak.New(tak.Config{Size: size})
		}
		return keep, "playout-any-config"
	}
}

func clientDepth(r *RNG, size int) int {
	if size <= 5 && r.Chance(1, 2) {
		return 2
	}
	return 1
}

// emitClient: dry run to learn what the searcher answers (the oracle of the model), then the compared run.
func emitClient(c *Ctx, depth int, steps []string) string {
	dry := runClientLine(depth, steps)
	final := make([]string, len(steps))
	for i, st := range steps {
		final[i] = st
		if strings.HasPrefix(st, "mv:") {
			o := "-"
			if i < len(dry.infos) {
				o = oracleOfInfo(dry.infos[i])
			}
			final[i] = st + ":" + o
		}
	}
	out := c.Emit("teicl " + strconv.Itoa(depth) + " " + strings.Join(final, " "))
	for i, part := range strings.Split(out, " | ") {
		// the property end to end, read off the real code's answer: a `go` was sent for a call that carried a
		// per-move time, and the engine installed no deadline or a later one
		if i < len(steps) && strings.HasPrefix(steps[i], "mv:") && strings.Contains(part, "go") {
			f := strings.Split(steps[i], ":")
			if f[3] != "-" && strings.Contains(part, "~go") && (strings.Contains(part, "] ok ") || strings.Contains(part, "] hang ")) {
				rem, _ := strconv.ParseInt(f[3], 10, 64)
				for _, w := range strings.Fields(part) {
					if w == "dl=-" {
						c.Count("client.VIOLATES:per-move-time-given-but-no-deadline-installed")
					} else if strings.HasPrefix(w, "dl=") {
						if d, err := strconv.ParseInt(w[3:], 10, 64); err == nil && d > rem {
							c.Count("client.VIOLATES:deadline>per-move-time")
						}
					}
				}
			}
		}
		switch {
		case strings.HasPrefix(part, "["):
			j := strings.Index(part, "] ")
			if j < 0 {
				continue
			}
			res := strings.Fields(part[j+2:])
			if len(res) > 0 {
				c.Count("client.getmove." + res[0])
			}
			if strings.Contains(part[:j], "~go") || strings.HasPrefix(part, "[go") {
				c.Count("client.go-sent")
				g := part[strings.Index(part, "go"):j]
				for _, k := range []string{"movetime", "wtime", "btime", "winc", "binc"} {
					if strings.Contains(g, k+" ") {
						c.Count("client.go.key." + k)
					}
				}
			}
			if strings.Contains(part, " legal=0 ") {
				if strings.Contains(part, " same=1") {
					c.Count("client.VIOLATES:move-illegal-in-the-caller's-position-although-the-engine-held-that-position")
				} else {
					c.Count("client.move-illegal-in-the-caller's-position(engine-held-another:non-default-config)")
				}
			}
			for _, f := range res {
				if strings.HasPrefix(f, "same=") {
					c.Count("client.engine-position." + f)
				}
				if f == "dl=0" {
					c.Count("client.deadline=0")
				}
			}
		case strings.HasPrefix(part, "engine="):
			c.Count("client." + part)
		}
	}
	return out
}

func mvStep(player int, p *tak.Position, rem, tc string) string {
	return "mv:" + strconv.Itoa(player) + ":" + encPos(p) + ":" + rem + ":" + tc
}

// the boundary grid: every (White clock, Black clock) pair for both movers on a small board
func genClientGrid(c *Ctx) {
	k := 0
	start := tak.New(tak.Config{Size: 3})
	black, _ := start.Move(tak.Move{X: 0, Y: 0, Type: tak.PlaceFlat})
	for mi, p := range []*tak.Position{start, black} {
		for wi, w := range tcGridNS {
			for bi, b := range tcGridNS {
				if k%c.NShard == c.Shard {
					inc := tcGridNS[(wi+bi+mi)%len(tcGridNS)]
					binc := inc
					if (wi+2*bi)%3 == 0 {
						binc = tcGridNS[(wi*3+bi)%len(tcGridNS)]
					}
					if (wi+bi)%2 == 0 {
						inc, binc = 0, 0
					}
					rem := "-"
					if (wi+bi+mi)%3 == 0 {
						rem = strconv.FormatInt(remGridNS[(wi+bi)%len(remGridNS)], 10)
					}
					emitClient(c, 1, []string{"ng3", mvStep(0, p, rem, fmtTC(w, b, inc, binc))})
					c.Count("client.grid")
				}
				k++
			}
		}
		// every per-move time, with and without clocks; every single field on its own
		for _, rem := range remGridNS {
			for _, tc := range []string{"-", fmtTC(0, 0, 0, 0), fmtTC(60000*msNS, 60000*msNS, 0, 0)} {
				if k%c.NShard == c.Shard {
					emitClient(c, 1, []string{"ng3", mvStep(0, p, strconv.FormatInt(rem, 10), tc)})
					c.Count("client.grid.rem")
				}
				k++
			}
		}
		for _, v := range append(append([]int64{}, tcGridNS...), tcExtraNS...) {
			for f := 0; f < 4; f++ {
				if k%c.NShard == c.Shard {
					var x [4]int64
					x[f] = v
					emitClient(c, 1, []string{"ng3", mvStep(0, p, "-", fmtTC(x[0], x[1], x[2], x[3]))})
					c.Count("client.grid.single-field")
				}
				k++
			}
		}
	}
}

func genClientRandom(c *Ctx) {
	r := c.R
	n := c.Scale(1400, 60000)
	for i := 0; i < n; i++ {
		size := 3 + r.Intn(6)
		depth := clientDepth(r, size)
		var steps []string
		if r.Chance(1, 3) {
			steps = append(steps, "hs")
		}
		switch x := r.Intn(20); {
		case x < 11:
			// one game, one to three requests (selfplay: successive positions on one player)
			steps = append(steps, "ng"+strconv.Itoa(size))
			for j := 0; j < 1+r.Intn(3); j++ {
				p, lab := clientPosition(r, size)
				c.Count("client.position." + lab)
				c.Count("client.size" + strconv.Itoa(size))
				if p.ToMove() == tak.White {
					c.Count("client.tomove.white")
				} else {
					c.Count("client.tomove.black")
				}
				steps = append(steps, mvStep(0, p, randRem(r), randTC(r)))
			}
			// the same board with the same side to move at a later ply (a shuffle came back to it): the `position tps`
			// line is the text of THIS position, move number included
			if r.Chance(1, 3) {
				if last := decPos(strings.Split(steps[len(steps)-1], ":")[2]); last.MoveNumber() >= 2 {
					n := last.Size()
					board := make([][]tak.Square, n)
					for y := 0; y < n; y++ {
						board[y] = make([]tak.Square, n)
						for x := 0; x < n; x++ {
							board[y][x] = last.At(x, y)
						}
					}
					if q, err := tak.FromSquares(last.Config(), board, last.MoveNumber()+2*(1+r.Intn(6))); err == nil {
						steps = append(steps, mvStep(0, q, randRem(r), randTC(r)))
						c.Count("client.position.same-board-later-ply")
					}
				}
			}
			c.Count("client.script.one-game")
		case x < 14:
			// two games on one client; the second request goes to the new or to the dead player
			size2 := 3 + r.Intn(6)
			p1, _ := clientPosition(r, size)
			p2, _ := clientPosition(r, size2)
			steps = append(steps, "ng"+strconv.Itoa(size), mvStep(0, p1, randRem(r), randTC(r)), "ng"+strconv.Itoa(size2))
			if r.Chance(1, 3) {
				p3, _ := clientPosition(r, size)
				steps = append(steps, mvStep(0, p3, "-", randTC(r)))
				c.Count("client.script.dead-player")
			} else {
				steps = append(steps, mvStep(1, p2, randRem(r), randTC(r)))
				c.Count("client.script.two-games")
			}
		case x < 16:
			// the engine is configured for another size than the position
			other := 3 + r.Intn(6)
			p, _ := clientPosition(r, size)
			steps = append(steps, "ng"+strconv.Itoa(other), mvStep(0, p, randRem(r), randTC(r)))
			if r.Chance(1, 2) {
				steps = append(steps, "ng"+strconv.Itoa(size))
				if r.Chance(1, 2) {
					steps = append(steps, mvStep(1, p, "-", "-"))
				}
			}
			if other != size {
				c.Count("client.script.wrong-size")
			}
		case x < 17:
			// a size the engine refuses: NewGame itself succeeds (nothing is read back), the next call fails
			bad := []int{0, 1, 2, 9, 10, -1, 100}[r.Intn(7)]
			p, _ := clientPosition(r, size)
			steps = append(steps, "ng"+strconv.Itoa(bad), mvStep(0, p, "-", randTC(r)))
			if r.Chance(1, 2) {
				steps = append(steps, "ng"+strconv.Itoa(size))
			}
			c.Count("client.script.bad-size")
		case x < 19:
			// a whole short game as selfplay drives it: alternate players of two... one engine here, both colours
			steps = append(steps, "ng"+strconv.Itoa(size))
			ms, _ := randomLine(r, size, 2+r.Intn(8))
			p := tak.New(tak.Config{Size: size})
			w, b := int64(3+r.Intn(5000))*msNS+int64(r.Intn(int(msNS))), int64(3+r.Intn(5000))*msNS+int64(r.Intn(int(msNS)))
			inc := []int64{0, 0, msNS, 5 * msNS, 1000 * msNS}[r.Intn(5)]
			for _, m := range ms {
				steps = append(steps, mvStep(0, p, "-", fmtTC(w, b, inc, inc)))
				dur := int64(r.Intn(3000)) * msNS / 2
				if p.ToMove() == tak.White {
					w = w - dur
					if w <= msNS {
						break
					}
					w += inc
				} else {
					b = b - dur
					if b <= msNS {
						break
					}
					b += inc
				}
				p, _ = p.Move(m)
			}
			c.Count("client.script.selfplay-clocks")
		default:
			// no game at all / request before NewGame is impossible through the API; handshake only
			steps = []string{"hs", "hs", "ng" + strconv.Itoa(size)}
			c.Count("client.script.handshake-only")
		}
		emitClient(c, depth, steps)
	}
}

var scriptedReplies = []string{
	"bestmove a1\n", "info depth 1 time 0 nodes 1 score cp 0 pv a1\nbestmove a1\n", "id name X\nreadyok\nbestmove b2\n",
	"\nbestmove a1\n", "   \nbestmove a1\n", "\t\r\nbestmove a1\n", "info\n\n", "\n",
	"bestmove\n", "bestmove a1 b2\n", "bestmove a1 \n", "  bestmove   a1  \n", "\tbestmove\ta1\r\n", "bestmove\va1\n",
	"bestmove zz\n", "bestmove a9\n", "bestmove i1\n", "bestmove a\n", "bestmove 3c3>111\n", "bestmove 3c3>12\n", "bestmove Ca1\n", "bestmove Sa1!\n", "bestmove a1?!\n", "bestmove a1>\n", "bestmove 9a1>\n",
	"bestmove a1", "bestmove", "", "info depth 1\n", "bestmovea1\n", "Bestmove a1\n", "best move a1\n", "bestmove  \n",
	"ponder a1 bestmove b1\n", "info bestmove a1\nbestmove c3\n", "bestmove a1\nbestmove b2\n", "bestmove \x00\n", "bestmove a1\x00\n",
}

func genClientScripted(c *Ctx) {
	r := c.R
	emit := func(reply string, eof bool) {
		size := 3 + r.Intn(6)
		p, _ := clientPosition(r, size)
		h := "-"
		if reply != "" {
			h = hex.EncodeToString([]byte(reply))
		}
		out := c.Emit("teiscr " + strconv.Itoa(size) + " " + encPos(p) + " " + h + " " + strconv.Itoa(b2i(eof)))
		c.Count("client.scripted." + strings.Fields(out)[0])
	}
	k := 0
	for _, rep := range scriptedReplies {
		for _, eof := range []bool{false, true} {
			if k%c.NShard == c.Shard {
				emit(rep, eof)
			}
			k++
		}
	}
	n := c.Scale(600, 60000)
	for i := 0; i < n; i++ {
		var rep string
		switch r.Intn(3) {
		case 0:
			rep = mutateASCII(r, scriptedReplies[r.Intn(len(scriptedReplies))])
		case 1:
			var ls []string
			for j := 0; j < r.Intn(4); j++ {
				ls = append(ls, randASCII(r, r.Intn(12)))
			}
			ls = append(ls, "bestmove "+randASCII(r, r.Intn(6)))
			rep = strings.Join(ls, "\n")
			if r.Chance(3, 4) {
				rep += "\n"
			}
		default:
			ms, _ := randomLine(r, 3+r.Intn(6), 1+r.Intn(30))
			toks := strings.Fields(fmtMovesPTN(ms))
			rep = "bestmove " + toks[len(toks)-1] + "\n"
			if r.Chance(1, 3) {
				rep = mutateASCII(r, rep)
			}
		}
		// mutateASCII maps '\n' to '?': put line ends back where the original had them, sometimes
		if !strings.Contains(rep, "\n") && r.Chance(3, 4) {
			rep += "\n"
		}
		emit(rep, r.Chance(1, 2))
	}
}

func genFormatTime(c *Ctx) {
	k := 0
	emit := func(v int64) {
		out := c.Emit("fmttime " + strconv.FormatInt(v, 10))
		switch {
		case v < 0:
			c.Count("fmttime.negative")
		case v < msNS:
			c.Count("fmttime.below-1ms")
		default:
			c.Count("fmttime.ms-digits~" + strconv.Itoa(len(out)))
		}
	}
	var grid []int64
	for _, v := range budgetGrid {
		grid = append(grid, v, -v, v-1, v+1)
	}
	grid = append(grid, tcExtraNS...)
	for p := int64(1); p < 1<<62/10; p *= 10 {
		grid = append(grid, p*msNS-1, p*msNS, p*msNS+1, -p*msNS)
	}
	for _, v := range grid {
		if k%c.NShard == c.Shard {
			emit(v)
		}
		k++
	}
	n := c.Scale(20000, 2000000)
	for i := 0; i < n; i++ {
		v := int64(c.R.Next())
		if c.R.Chance(2, 3) {
			v >>= uint(c.R.Intn(63))
		}
		emit(v)
	}
}

func genC17client(c *Ctx) {
	genFormatTime(c)
	genClientGrid(c)
	genClientScripted(c)
	genClientRandom(c)
}

func init() {
	genTable["C17client"] = genC17client
}
