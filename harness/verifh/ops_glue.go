package main

// C20 / C07 glue: the real Friendly.GetMove and Taktician.GetMove (cmd/internal/playtak) on game records.
//
//   glue F <variant|none> <W|B|N> <size> <level|-> <stub|ai> <tokens...>
//   glue T <limit ns> <W|B|N> <size> <useOpponentTime 0|1> <stub|ai> <tokens...>
//
// tokens, executed left to right on a game that starts at tak.New(Config(size)) / NewGame:
//   m<move>   the record grows by this move (as bot.handleMove appends it); an illegal one ends the op with `illegal`
//   u         the record shrinks by one ply (an `Undo` line); ends the op with `ubad` on a one-position record
//   c[;j=<i>][;a=<move>][;k=<v1>:<d1>:<v2>]
//             GetMove is called on the newest position (j: on the i-th position that ever entered the record instead - it may
//             have been undone since -, the case of a thinker that was started earlier); a: the stub searcher's answer (default tak.Move{}); k: the answers of
//             Friendly's depth-3 check engine (value and depth for the position to move on, value for the position before).
//             A finished position is not handed to GetMove (the bot loop does not either): `over`.
// One output word per call: <commands>/<searcher consulted n times>/<clock and engine requests in order>/<returned move>
//   commands: `-` or e.g. Resign,Tell:ds2,wait  (wait = GetMove blocked on the context after resigning)
//   returned: `z` zero move, `=` the searcher's answer, else the move; then :L legal on the position / :I illegal / :z zero

import (
	"strconv"
	"strings"
	"time"

	fpa "github.com/nelhage/taktician/cmd/internal/playtak"
	"github.com/nelhage/taktician/tak"
)

func glueColor(s string) tak.Color {
	switch s {
	case "W":
		return tak.White
	case "B":
		return tak.Black
	}
	return tak.NoColor
}

type glueCall struct {
	j      int // -1: newest
	ans    tak.Move
	chk    []fpa.VerifChk
	hasChk bool
	expire bool // the per-call time budget runs out while the searcher works
}

func parseGlueCall(tok string) glueCall {
	c := glueCall{j: -1}
	for _, f := range strings.Split(tok, ";")[1:] {
		switch {
		case strings.HasPrefix(f, "j="):
			c.j = atoi(f[2:])
		case strings.HasPrefix(f, "a="):
			c.ans = decMove(f[2:])
		case f == "x=1":
			c.expire = true
		case strings.HasPrefix(f, "k="):
			w := strings.Split(f[2:], ":")
			if len(w) != 3 {
				panic("bad k=")
			}
			v1, _ := strconv.ParseInt(w[0], 10, 64)
			v2, _ := strconv.ParseInt(w[2], 10, 64)
			c.chk = []fpa.VerifChk{{V: v1, Depth: atoi(w[1])}, {V: v2}}
			c.hasChk = true
		default:
			panic("bad call field")
		}
	}
	return c
}

func glueRender(p *tak.Position, ret tak.Move, r *fpa.VerifGlueRec) string {
	var cmds, clock []string
	for _, e := range r.Events {
		switch {
		case strings.HasPrefix(e, "cmd "):
			w := e[4:]
			switch {
			case w == fpa.VerifGlueGameStr+" Resign":
				cmds = append(cmds, "Resign")
			case strings.HasPrefix(w, "Tell "+fpa.VerifGlueOpponent+" "):
				cmds = append(cmds, "Tell:"+strings.ReplaceAll(fpa.VerifGlueMsgClass(w[len("Tell "+fpa.VerifGlueOpponent+" "):]), " ", "_"))
			default:
				cmds = append(cmds, "cmd<"+strings.ReplaceAll(w, " ", "_")+">")
			}
		case e == "wait":
			cmds = append(cmds, "wait")
		default:
			clock = append(clock, e)
		}
	}
	cs, ks := "-", "-"
	if len(cmds) > 0 {
		cs = strings.Join(cmds, ",")
	}
	if len(clock) > 0 {
		ks = strings.Join(clock, ",")
	}
	zero := ret == tak.Move{}
	var rs string
	switch {
	case r.AICalls > 0 && ret == r.AIAnswer:
		rs = "="
	case zero:
		rs = "z"
	default:
		rs = encMove(ret)
	}
	switch {
	case zero:
		rs += ":z"
	default:
		if _, err := p.Move(ret); err == nil {
			rs += ":L"
		} else {
			rs += ":I"
		}
	}
	return cs + "/" + strconv.Itoa(r.AICalls) + "/" + ks + "/" + rs
}

// glueRun executes a glue line; probe: the real check engine answers and each call reports its verdicts instead
// (`obs=<v1>:<d1>:<v2>`, `obs=-` when it was not consulted) - used by the generator only.
func glueRun(a []string, probe bool) (ret string) {
	if len(a) < 6 {
		return "bad-op"
	}
	realAI := a[5] == "ai"
	var v *fpa.VerifGlue
	switch a[0] {
	case "F":
		level := -1
		if a[4] != "-" {
			level = atoi(a[4])
		}
		v = fpa.VerifNewGlueFriendly(a[1], glueColor(a[2]), atoi(a[3]), level, realAI)
	case "T":
		lim, err := strconv.ParseInt(a[1], 10, 64)
		if err != nil {
			return "bad-op"
		}
		v = fpa.VerifNewGlueTaktician(time.Duration(lim), a[4] == "1", true, 2, glueColor(a[2]), atoi(a[3]), realAI)
	default:
		return "bad-op"
	}
	defer v.Close()
	var out []string
	// on a tree without fixes/C07-fpa-record-notes.diff: a call used rule notes that are not those of the record
	// (known finding C07-fpa-resume-panic; never printed by the model, never set on a patched tree)
	outOfStep := false
	defer func() {
		if outOfStep {
			ret = "notes-" + ret
		}
	}()
	for _, tok := range a[6:] {
		switch {
		case strings.HasPrefix(tok, "m"):
			if err := v.Push(decMove(tok[1:])); err != nil {
				out = append(out, "illegal")
				return strings.Join(out, " ")
			}
		case tok == "u":
			if !v.Pop() {
				out = append(out, "ubad")
				return strings.Join(out, " ")
			}
		case strings.HasPrefix(tok, "c"):
			c := parseGlueCall(tok)
			ps := v.G.Positions
			p := ps[len(ps)-1]
			if c.j >= 0 {
				if c.j >= len(v.All) {
					return strings.Join(append(out, "bad-op"), " ")
				}
				p = v.All[c.j]
			}
			if over, _ := p.GameOver(); over {
				out = append(out, "over")
				continue
			}
			if !probe && v.VerifNotesOutOfStep(p) {
				outOfStep = true
			}
			var word string
			panicked := false
			// a panic raised by the FPA rule's own script (dir, adjacent, the cairn script): known finding
			// C07-fpa-script-panics-on-foreign-record on a tree without fixes/C07-fpa-script-declines.diff; the model is of the patched
			// code and never prints `scriptpanic:` (with the patch the scripts decline and nothing reaches this recover)
			scriptPanic := ""
			func() {
				defer func() {
					if r := recover(); r != nil {
						panicked = true
						if msg, ok := r.(string); ok {
							switch msg {
							case "bad dir() call", "no empty adjacency", "no square for black's cairn stone",
								"no center square between the cairn stones":
								scriptPanic = strings.ReplaceAll(msg, " ", "_")
							}
						}
					}
				}()
				if c.expire {
					v.ExpireNext()
				}
				ret, rec := v.Call(p, c.ans, c.chk, probe)
				if probe {
					word = "obs=-"
					if len(rec.Obs) > 0 {
						o := rec.Obs
						v2 := int64(0)
						if len(o) > 1 {
							v2 = o[1].V
						}
						word = "obs=" + strconv.FormatInt(o[0].V, 10) + ":" + strconv.Itoa(o[0].Depth) + ":" + strconv.FormatInt(v2, 10)
					}
				} else {
					word = glueRender(p, ret, rec)
				}
			}()
			if panicked {
				if scriptPanic != "" {
					out = append(out, "scriptpanic:"+scriptPanic)
				} else {
					out = append(out, "panic")
				}
				return strings.Join(out, " ")
			}
			out = append(out, word)
		default:
			return strings.Join(append(out, "bad-op"), " ")
		}
	}
	if len(out) == 0 {
		return "-"
	}
	return strings.Join(out, " ")
}

// glueReplyClass names a reply of Friendly.handleCommand
func glueReplyClass(reply string, level int) string {
	switch {
	case reply == "":
		return "nothing"
	case strings.HasPrefix(reply, "OK! I'll play as best"):
		return "level:max"
	case reply == "I only know about levels up to "+strconv.Itoa(fpa.VerifNumLevels()+1):
		return "level:unknown"
	case reply == "OK! I'll play at level "+strconv.Itoa(level)+" for future games.":
		return "level:future"
	case reply == "OK! I'll play at level "+strconv.Itoa(level)+", starting right now.":
		return "level:now"
	case reply == "[FriendlyBot@level "+strconv.Itoa(level)+"]: http://bit.ly/25h33rC":
		return "help"
	}
	return "other<" + strings.ReplaceAll(reply, " ", "_") + ">"
}

func init() {
	opTable["glue"] = func(s *Session, a []string) string { return glueRun(a, false) }
	opTable["glueprobe"] = func(s *Session, a []string) string { return glueRun(a, true) }
	// gluefn level <level>                       depth chosen by levelSettings
	// gluefn levelcmd <level> <inGame> <fromOpp> <hex arg>   reply class, new level, searcher rebuilt?
	// gluefn cfg <variant|none> <size>           Friendly.Config
	// gluefn book <0|1> <size>                   wrapWithBook wraps?
	opTable["gluefn"] = func(s *Session, a []string) string {
		switch a[0] {
		case "level":
			return strconv.Itoa(fpa.VerifLevelDepth(5, atoi(a[1])))
		case "levelcmd":
			arg := string(unhex(a[4]))
			reply, nl, rebuilt := fpa.VerifLevelCommand(atoi(a[1]), a[2] == "1", a[3] == "1", arg)
			cls := "other"
			switch {
			case reply == "":
				cls = "none"
			case strings.HasPrefix(reply, "OK! I'll play as best"):
				cls = "max"
			case strings.HasPrefix(reply, "I only know about levels up to "+strconv.Itoa(fpa.VerifNumLevels()+1)):
				cls = "unknown"
			case strings.HasSuffix(reply, "for future games."):
				cls = "future"
			case strings.HasSuffix(reply, "starting right now."):
				cls = "now"
			}
			return cls + " " + strconv.Itoa(nl) + " " + strconv.Itoa(b2i(rebuilt))
		case "tell":
			// gluefn tell <F|T> <level> <inGame> <fromOpp> <hex msg>
			cmds, nl, ns := fpa.VerifHandleTell(a[1], atoi(a[2]), a[3] == "1", a[4] == "1", unhex(a[5]))
			who := "someone"
			if a[4] == "1" {
				who = fpa.VerifGlueOpponent
			}
			cls := "nothing"
			switch {
			case len(cmds) > 1:
				cls = "many<" + strings.ReplaceAll(strings.Join(cmds, "|"), " ", "_") + ">"
			case len(cmds) == 1 && strings.HasPrefix(cmds[0], "Tell "+who+" "):
				cls = glueReplyClass(cmds[0][len("Tell "+who+" "):], nl)
			case len(cmds) == 1 && cmds[0] == "Seek "+strconv.Itoa(ns)+" 1200 0":
				cls = "seek:" + strconv.Itoa(ns)
			case len(cmds) == 1:
				cls = "other<" + strings.ReplaceAll(cmds[0], " ", "_") + ">"
			case ns != 0:
				cls = "sizeset:" + strconv.Itoa(ns)
			}
			return cls + " " + strconv.Itoa(nl)
		case "cfg":
			c := fpa.VerifFriendlyConfig(a[1], atoi(a[2]))
			return strconv.Itoa(c.Size) + " " + strconv.Itoa(c.Pieces) + " " + strconv.Itoa(c.Capstones) + " " + strconv.Itoa(b2i(c.BlackWinsTies))
		case "book":
			return strconv.Itoa(b2i(fpa.VerifWrapsWithBook(a[1] == "1", atoi(a[2]))))
		}
		return "bad-op"
	}
}
