package main

import (
	"fmt"
	"sort"
	"strconv"
	"strings"
	"time"

	"github.com/nelhage/taktician/ai"
	"github.com/nelhage/taktician/tak"
)

// `fn.*` ops of the fifth batch of regenerated functions (work package gen5): Generated/FuncsSearch.lean - the helpers of the
// alpha-beta search in ai/minimax.go: Stats.Merge, nullMoveOK, ttGet, ttPut, recordCut.  Each op runs the real function on a
// bare engine holding exactly the given fields (harness/export/ai__genfn5.go); the Lean side evaluates the regenerated
// definition (Driver/OpsFnGen5.lean).  Generator: FNSEARCH (C05; C04 and C16 use the same bridges).
//
// Encodings: a move is `x:y:type:slides`; a move list is `,`-joined; a map is `nil`, `-` (empty) or `;`-joined `key=value`
// (printed sorted by key); a table is `nil` or `<len>/<i>=<hash>:<value>:<bound>:<depth>:<move>,...` (only the entries that
// differ from the zero entry).

func mvTok(m tak.Move) string {
	return fmt.Sprintf("%d:%d:%d:%d", m.X, m.Y, m.Type, m.Slides)
}

func parseMvTok(s string) tak.Move {
	f := strings.Split(s, ":")
	return tak.Move{X: int8(atoi(f[0])), Y: int8(atoi(f[1])), Type: tak.MoveType(atoi(f[2])), Slides: tak.Slides(atou(f[3]))}
}

func mvsTok(ms []tak.Move) string {
	var out []string
	for _, m := range ms {
		out = append(out, mvTok(m))
	}
	return strings.Join(out, ",")
}

func parseMvs(s string) []tak.Move {
	var out []tak.Move
	for _, f := range strings.Split(s, ",") {
		out = append(out, parseMvTok(f))
	}
	return out
}

func mvKey(m tak.Move) [4]int64 {
	return [4]int64{int64(m.X), int64(m.Y), int64(m.Type), int64(m.Slides)}
}

func mvLess(a, b tak.Move) bool {
	ka, kb := mvKey(a), mvKey(b)
	for i := range ka {
		if ka[i] != kb[i] {
			return ka[i] < kb[i]
		}
	}
	return false
}

func histTok(h map[tak.Move]int) string {
	if h == nil {
		return "nil"
	}
	if len(h) == 0 {
		return "-"
	}
	var ks []tak.Move
	for k := range h {
		ks = append(ks, k)
	}
	sort.Slice(ks, func(i, j int) bool { return mvLess(ks[i], ks[j]) })
	var out []string
	for _, k := range ks {
		out = append(out, fmt.Sprintf("%s=%d", mvTok(k), h[k]))
	}
	return strings.Join(out, ";")
}

func respTok(h map[tak.Move]tak.Move) string {
	if h == nil {
		return "nil"
	}
	if len(h) == 0 {
		return "-"
	}
	var ks []tak.Move
	for k := range h {
		ks = append(ks, k)
	}
	sort.Slice(ks, func(i, j int) bool { return mvLess(ks[i], ks[j]) })
	var out []string
	for _, k := range ks {
		out = append(out, fmt.Sprintf("%s=%s", mvTok(k), mvTok(h[k])))
	}
	return strings.Join(out, ";")
}

func parseHist(s string) map[tak.Move]int {
	if s == "nil" {
		return nil
	}
	out := map[tak.Move]int{}
	if s == "-" {
		return out
	}
	for _, kv := range strings.Split(s, ";") {
		f := strings.Split(kv, "=")
		out[parseMvTok(f[0])] = atoi(f[1])
	}
	return out
}

func parseResp(s string) map[tak.Move]tak.Move {
	if s == "nil" {
		return nil
	}
	out := map[tak.Move]tak.Move{}
	if s == "-" {
		return out
	}
	for _, kv := range strings.Split(s, ";") {
		f := strings.Split(kv, "=")
		out[parseMvTok(f[0])] = parseMvTok(f[1])
	}
	return out
}

func tableTok(t []ai.VerifTE, hasTable bool) string {
	if !hasTable {
		return "nil"
	}
	var out []string
	for i, e := range t {
		if e != (ai.VerifTE{}) {
			out = append(out, fmt.Sprintf("%d=%d:%d:%d:%d:%s", i, e.Hash, e.Value, e.Bound, e.Depth, mvTok(e.M)))
		}
	}
	return fmt.Sprintf("%d/%s", len(t), strings.Join(out, ","))
}

func parseTable(s string) ([]ai.VerifTE, bool) {
	if s == "nil" {
		return nil, false
	}
	f := strings.SplitN(s, "/", 2)
	t := make([]ai.VerifTE, atoi(f[0]))
	if f[1] != "" {
		for _, kv := range strings.Split(f[1], ",") {
			g := strings.SplitN(kv, "=", 2)
			h := strings.SplitN(g[1], ":", 5)
			v, _ := strconv.ParseInt(h[1], 10, 64)
			t[atoi(g[0])] = ai.VerifTE{Hash: atou(h[0]), Value: v, Bound: byte(atoi(h[2])), Depth: int8(atoi(h[3])), M: parseMvTok(h[4])}
		}
	}
	return t, true
}

func statsTok(s ai.Stats) string {
	return fmt.Sprintf("%d,%d,%d,", s.Depth, b2i(s.Canceled), int64(s.Elapsed)) + u64s([]uint64{s.Generated, s.Evaluated, s.Scout, s.Terminal, s.Visited,
		s.CutNodes, s.NullSearch, s.NullCut, s.Cut0, s.Cut1, s.CutSearch, s.ReSearch, s.AllNodes, s.TTHits, s.TTShortcut, s.Extensions,
		s.ReducedSlides, s.MCSearch, s.MCCut})
}

func parseStats(tok string) ai.Stats {
	f := strings.Split(tok, ",")
	u := func(i int) uint64 { return atou(f[i]) }
	el, _ := strconv.ParseInt(f[2], 10, 64)
	return ai.Stats{Depth: atoi(f[0]), Canceled: f[1] == "1", Elapsed: time.Duration(el), Generated: u(3), Evaluated: u(4), Scout: u(5), Terminal: u(6),
		Visited: u(7), CutNodes: u(8), NullSearch: u(9), NullCut: u(10), Cut0: u(11), Cut1: u(12), CutSearch: u(13), ReSearch: u(14),
		AllNodes: u(15), TTHits: u(16), TTShortcut: u(17), Extensions: u(18), ReducedSlides: u(19), MCSearch: u(20), MCCut: u(21)}
}

func init() {
	opTable["fn.statsmerge"] = func(s *Session, a []string) string {
		return statsTok(parseStats(a[0]).Merge(parseStats(a[1])))
	}
	// fn.nullok <NoNullMove 0/1> <ply> <depth> <15 frame moves> <position>
	opTable["fn.nullok"] = func(s *Session, a []string) string {
		return strconv.Itoa(b2i(ai.VerifNullMoveOK(a[0] == "1", parseMvs(a[3]), atoi(a[1]), atoi(a[2]), decPos(a[4]))))
	}
	// fn.ttget <table> <hash>  ->  nil | index
	opTable["fn.ttget"] = func(s *Session, a []string) string {
		t, has := parseTable(a[0])
		slot, _ := ai.VerifTT(false, has, t, 0, atou(a[1]))
		if slot == -1 {
			return "nil"
		}
		return strconv.Itoa(slot)
	}
	// fn.ttput <table> <cancel flag> <hash>  ->  (nil | index) <table afterwards>
	opTable["fn.ttput"] = func(s *Session, a []string) string {
		t, has := parseTable(a[0])
		slot, out := ai.VerifTT(true, has, t, int32(atoi(a[1])), atou(a[2]))
		st := "nil"
		if slot != -1 {
			st = strconv.Itoa(slot)
		}
		return st + " " + tableTok(out, has)
	}
	// fn.recordcut <history> <response> <cut0> <cut1> <cutnodes> <cutsearch> <15 frame moves> <move> <searched> <depth> <ply>
	opTable["fn.recordcut"] = func(s *Session, a []string) string {
		st := ai.Stats{Cut0: atou(a[2]), Cut1: atou(a[3]), CutNodes: atou(a[4]), CutSearch: atou(a[5])}
		h, r, st := ai.VerifRecordCut(parseHist(a[0]), parseResp(a[1]), st, parseMvs(a[6]), parseMvTok(a[7]), atoi(a[8]), atoi(a[9]), atoi(a[10]))
		return fmt.Sprintf("%s %s %d %d %d %d", histTok(h), respTok(r), st.Cut0, st.Cut1, st.CutNodes, st.CutSearch)
	}
	genTable["FNSEARCH"] = genFNSEARCH
}

func randMv(r *RNG) tak.Move {
	// few distinct moves so that keys collide; the pass and the zero move among them
	switch r.Intn(8) {
	case 0:
		return tak.Move{}
	case 1:
		return tak.Move{Type: tak.Pass}
	case 2:
		return tak.Move{X: int8(r.Intn(3)), Y: int8(r.Intn(3)), Type: tak.SlideRight, Slides: tak.Slides(1 + r.Intn(3))}
	default:
		return tak.Move{X: int8(r.Intn(3)), Y: int8(r.Intn(2)), Type: tak.MoveType(2 + r.Intn(3))}
	}
}

func frameMoves(r *RNG) []tak.Move {
	ms := make([]tak.Move, ai.VerifMaxDepth)
	for i := range ms {
		ms[i] = randMv(r)
	}
	return ms
}

func genFNSEARCH(c *Ctx) {
	r := c.R
	// Stats.Merge: counters that wrap, every field distinct
	for k := 0; k < c.Scale(40, 20000); k++ {
		mk := func() ai.Stats {
			var f [19]uint64
			for i := range f {
				switch r.Intn(4) {
				case 0:
					f[i] = edgeU64(r)
				case 1:
					f[i] = ^uint64(0) - uint64(r.Intn(3))
				default:
					f[i] = uint64(r.Intn(1000))
				}
			}
			return ai.Stats{Depth: r.Intn(20) - 2, Canceled: r.Chance(1, 2), Elapsed: time.Duration(r.Intn(1 << 30)), Generated: f[0], Evaluated: f[1], Scout: f[2],
				Terminal: f[3], Visited: f[4], CutNodes: f[5], NullSearch: f[6], NullCut: f[7], Cut0: f[8], Cut1: f[9], CutSearch: f[10], ReSearch: f[11],
				AllNodes: f[12], TTHits: f[13], TTShortcut: f[14], Extensions: f[15], ReducedSlides: f[16], MCSearch: f[17], MCCut: f[18]}
		}
		c.Emit("fn.statsmerge " + statsTok(mk()) + " " + statsTok(mk()))
		c.Count("statsmerge")
	}
	// nullMoveOK: every early exit; ply out of the frame array; reserves around 3; boards around "3 empty squares left"
	for k := 0; k < c.Scale(250, 100000); k++ {
		p := randomPosition(r)
		if p == nil {
			continue
		}
		raw := p.VerifRaw()
		n := raw.Size * raw.Size
		switch r.Intn(5) {
		case 0:
			raw.WS = byte(r.Intn(5))
		case 1:
			raw.BS = byte(r.Intn(5))
		case 2:
			// fill the board up to 2..5 empty squares (bitboards only: nullMoveOK counts bits)
			empty := 2 + r.Intn(4)
			raw.White, raw.Black = 0, 0
			for i := 0; i < n-empty; i++ {
				if r.Chance(1, 2) {
					raw.White |= 1 << uint(i)
				} else {
					raw.Black |= 1 << uint(i)
				}
			}
			raw.WS, raw.BS = 5, 5
		}
		ms := frameMoves(r)
		ply := 1 + r.Intn(14)
		switch r.Intn(10) {
		case 0:
			ply = 0
		case 1:
			ply = []int{-1, 15, 16, 17, 1 << 40}[r.Intn(5)]
		}
		if ply >= 1 && ply <= 15 && r.Chance(2, 3) {
			ms[ply-1] = tak.Move{X: 1, Y: 1, Type: tak.PlaceFlat} // mostly no pass before, so that the position tests are reached
		}
		depth := r.Intn(7)
		out := c.Emit(fmt.Sprintf("fn.nullok %d %d %d %s %s", b2i(r.Chance(1, 8)), ply, depth, mvsTok(ms), encRaw(raw, false)))
		c.Count("nullok=" + out)
	}
	// ttGet / ttPut: small tables so that both probe slots, their collision (i1 == i2), the eviction and a full table occur
	for k := 0; k < c.Scale(400, 200000); k++ {
		var tok string
		var t []ai.VerifTE
		has := true
		switch r.Intn(12) {
		case 0:
			has = false
			c.Count("table:nil")
		case 1:
			t = []ai.VerifTE{}
			c.Count("table:empty")
		default:
			n := 1 + r.Intn(7)
			if r.Chance(1, 6) {
				n = 8 + r.Intn(60)
			}
			t = make([]ai.VerifTE, n)
			fill := r.Intn(4) // 0: empty, 1: sparse, 2: half, 3: full
			for i := range t {
				if fill == 3 || (fill == 2 && r.Chance(1, 2)) || (fill == 1 && r.Chance(1, 5)) {
					h := uint64(r.Intn(40))
					if r.Chance(1, 3) {
						h = edgeU64(r)
					}
					if r.Chance(1, 10) {
						h = 0 // a stored entry whose hash is 0 is never evicted to the second slot
					}
					t[i] = ai.VerifTE{Hash: h, Value: int64(r.Intn(2001) - 1000), M: randMv(r), Bound: byte(r.Intn(3)), Depth: int8(r.Intn(16))}
				}
			}
			c.Count(fmt.Sprintf("table:fill%d", fill))
		}
		tok = tableTok(t, has)
		// a hash that is stored (in its first slot, its second slot, or elsewhere) or a fresh one
		h := uint64(r.Intn(40))
		if len(t) > 0 && r.Chance(1, 2) {
			h = t[r.Intn(len(t))].Hash
		}
		if r.Chance(1, 6) {
			h = edgeU64(r)
		}
		out := c.Emit(fmt.Sprintf("fn.ttget %s %d", tok, h))
		switch out {
		case "nil", "panic":
			c.Count("ttget=" + out)
		default:
			if len(t) > 0 && uint64(atoi(out)) == h%uint64(len(t)) {
				c.Count("ttget=slot1")
			} else {
				c.Count("ttget=slot2")
			}
		}
		cancel := 0
		if r.Chance(1, 6) {
			cancel = []int{1, -1, 7}[r.Intn(3)]
		}
		out = c.Emit(fmt.Sprintf("fn.ttput %s %d %d", tok, cancel, h))
		switch {
		case out == "panic":
			c.Count("ttput=panic")
		case strings.HasPrefix(out, "nil"):
			c.Count("ttput=nil")
		case strings.SplitN(out, " ", 2)[1] != tok:
			c.Count("ttput=evict")
		default:
			c.Count("ttput=keep")
		}
	}
	// recordCut: every `searched` class, shifts from 0 to beyond 64 and negative depths, frames out of range, nil maps
	for k := 0; k < c.Scale(250, 100000); k++ {
		hist := map[tak.Move]int{}
		resp := map[tak.Move]tak.Move{}
		for i := r.Intn(5); i > 0; i-- {
			hist[randMv(r)] = r.Intn(1 << 20)
		}
		for i := r.Intn(5); i > 0; i-- {
			resp[randMv(r)] = randMv(r)
		}
		switch r.Intn(12) {
		case 0:
			hist = nil
		case 1:
			resp = nil
		}
		ms := frameMoves(r)
		ply := r.Intn(15)
		if r.Chance(1, 10) {
			ply = []int{-1, 15, 16, 17, 1 << 40}[r.Intn(5)]
		}
		depth := r.Intn(16)
		if r.Chance(1, 6) {
			depth = []int{-1, -64, 62, 63, 64, 65, 1 << 40}[r.Intn(7)]
		}
		move := []int{1, 2, 3, 7, 0, -1, -2, 1 << 40}[r.Intn(8)]
		cnt := func() uint64 {
			if r.Chance(1, 5) {
				return ^uint64(0) - uint64(r.Intn(3))
			}
			return uint64(r.Intn(100000))
		}
		out := c.Emit(fmt.Sprintf("fn.recordcut %s %s %d %d %d %d %s %s %d %d %d", histTok(hist), respTok(resp), cnt(), cnt(), cnt(), cnt(),
			mvsTok(ms), mvTok(randMv(r)), move, depth, ply))
		if out == "panic" {
			c.Count("recordcut=panic")
		} else {
			c.Count("recordcut=ok")
		}
	}
}
