package main

import (
	"strings"

	"github.com/nelhage/taktician/bitboard"
	"github.com/nelhage/taktician/ptn"
	"github.com/nelhage/taktician/tak"
)

func eqU64s(a, b []uint64) bool {
	if len(a) != len(b) {
		return false
	}
	for i := range a {
		if a[i] != b[i] {
			return false
		}
	}
	return true
}

// wfBoard evaluates, on the real code's data, the hypothesis of the C02 theorems:
// size 3..8, bitboards on the board, colours disjoint, walls/capstones on occupied squares and
// disjoint, the stored groups are what FloodGroups yields for the road bitboards.
func wfBoard(r tak.VerifRaw) bool {
	if r.Size < 3 || r.Size > 8 {
		return false
	}
	c := bitboard.Precompute(uint(r.Size))
	if r.White&^c.Mask != 0 || r.Black&^c.Mask != 0 {
		return false
	}
	if r.White&r.Black != 0 {
		return false
	}
	if (r.Standing|r.Caps)&^(r.White|r.Black) != 0 {
		return false
	}
	if r.Standing&r.Caps != 0 {
		return false
	}
	wg := bitboard.FloodGroups(&c, r.White&^r.Standing, nil)
	bg := bitboard.FloodGroups(&c, r.Black&^r.Standing, nil)
	if !eqU64s(wg, r.WG) || !eqU64s(bg, r.BG) {
		return false
	}
	return true
}

func init() {
	// ptn.ResultFromGame panics when the game is not over (execLine maps that to "panic")
	opTable["result"] = func(s *Session, a []string) string {
		return ptn.ResultFromGame(decPos(a[0])).Result
	}
	opTable["sresult"] = opTable["result"]
	opTable["wfb"] = func(s *Session, a []string) string {
		f := strings.Split(a[0], "/")
		if len(f) != 18 {
			panic("wfb needs the 18-field token")
		}
		r := decRaw(a[0])
		r.WG = parseU64s(f[16])
		r.BG = parseU64s(f[17])
		if wfBoard(r) {
			return "1"
		}
		return "0"
	}
}
