package main

import (
	"fmt"
	"sort"
	"strconv"
	"strings"

	"github.com/nelhage/taktician/tak"
)

func parseU64s(s string) []uint64 {
	if s == "-" || s == "" {
		return nil
	}
	parts := strings.Split(s, ",")
	out := make([]uint64, len(parts))
	for i, p := range parts {
		v, err := strconv.ParseUint(p, 10, 64)
		if err != nil {
			panic("bad number " + p)
		}
		out[i] = v
	}
	return out
}

func atoi(s string) int {
	v, err := strconv.Atoi(s)
	if err != nil {
		panic("bad int " + s)
	}
	return v
}

func atou(s string) uint64 {
	v, err := strconv.ParseUint(s, 10, 64)
	if err != nil {
		panic("bad uint " + s)
	}
	return v
}

func decRaw(tok string) tak.VerifRaw {
	f := strings.Split(tok, "/")
	if len(f) != 16 && len(f) != 18 {
		panic("bad pos")
	}
	r := tak.VerifRaw{
		Size: atoi(f[0]), Pieces: atoi(f[1]), Capstones: atoi(f[2]), BWT: f[3] != "0",
		Move: atoi(f[4]),
		WS:   byte(atoi(f[5])), WC: byte(atoi(f[6])), BS: byte(atoi(f[7])), BC: byte(atoi(f[8])),
		White: atou(f[9]), Black: atou(f[10]), Standing: atou(f[11]), Caps: atou(f[12]),
		Stacks: parseU64s(f[14]), Hash: atou(f[15]),
	}
	for _, h := range parseU64s(f[13]) {
		r.Height = append(r.Height, uint8(h))
	}
	return r
}

func decPos(tok string) *tak.Position { return tak.VerifFromRaw(decRaw(tok)) }

func decMove(tok string) tak.Move {
	f := strings.Split(tok, ",")
	if len(f) != 4 {
		panic("bad move")
	}
	return tak.Move{X: int8(atoi(f[0])), Y: int8(atoi(f[1])), Type: tak.MoveType(atoi(f[2])), Slides: tak.Slides(atou(f[3]))}
}

func moveLess(a, b tak.Move) bool {
	if a.X != b.X {
		return a.X < b.X
	}
	if a.Y != b.Y {
		return a.Y < b.Y
	}
	if a.Type != b.Type {
		return a.Type < b.Type
	}
	return a.Slides < b.Slides
}

func fmtMoves(ms []tak.Move) string {
	if len(ms) == 0 {
		return "-"
	}
	ms = append([]tak.Move(nil), ms...)
	sort.Slice(ms, func(i, j int) bool { return moveLess(ms[i], ms[j]) })
	parts := make([]string, len(ms))
	for i, m := range ms {
		parts[i] = encMove(m)
	}
	return strings.Join(parts, " ")
}

func fmtOutcome(p *tak.Position) string {
	d := p.WinDetails()
	reason := "flats"
	if d.Reason == tak.RoadWin {
		reason = "road"
	}
	return fmt.Sprintf("%d %s %s %d %d", b2i(d.Over), colorStr(d.Winner), reason, d.WhiteFlats, d.BlackFlats)
}

func preamble(c *Ctx) {
	b := tak.VerifBasis()
	c.Emit("basis " + strings.ReplaceAll(u64s(b[:]), ",", " "))
}

func init() {
	opTable["basis"] = func(s *Session, a []string) string { return "ok" }
	opTable["move"] = func(s *Session, a []string) string {
		p := decPos(a[0])
		n, err := p.Move(decMove(a[1]))
		if err != nil {
			return "err"
		}
		return "ok " + dumpPos(n)
	}
	opTable["smove"] = func(s *Session, a []string) string {
		p := decPos(a[0])
		n, err := p.Move(decMove(a[1]))
		if err != nil {
			return "err"
		}
		for _, h := range n.VerifRaw().Height {
			if h > 64 {
				return "overlimit" // beyond the documented 64-piece representation limit: outside the claim
			}
		}
		return "ok " + absDump(n)
	}
	opTable["abs"] = func(s *Session, a []string) string { return absDump(decPos(a[0])) }
	opTable["over"] = func(s *Session, a []string) string { return fmtOutcome(decPos(a[0])) }
	opTable["sover"] = opTable["over"]
	opTable["allmoves"] = func(s *Session, a []string) string {
		return fmtMoves(decPos(a[0]).AllMoves(nil))
	}
	// allmovesbuf <pos> <move> <k>: the move list of a successor that lives in caller-supplied storage of ANOTHER board
	// size (tak.Alloc(k), k >= size: a size-independent pool of scratch positions)
	opTable["allmovesbuf"] = func(s *Session, a []string) string {
		p := decPos(a[0])
		q, err := p.MovePreallocated(decMove(a[1]), tak.Alloc(atoi(a[2])))
		if err != nil {
			return "err"
		}
		return fmtMoves(q.AllMoves(nil))
	}
	// the legal set as search sees it: AllMoves filtered by Move
	opTable["slegal"] = func(s *Session, a []string) string {
		p := decPos(a[0])
		var ok []tak.Move
		for _, m := range p.AllMoves(nil) {
			if _, err := p.Move(m); err == nil {
				ok = append(ok, m)
			}
		}
		return fmtMoves(ok)
	}
	opTable["hash"] = func(s *Session, a []string) string {
		return strconv.FormatUint(decPos(a[0]).Hash(), 10)
	}
	opTable["dump"] = func(s *Session, a []string) string { return dumpPos(decPos(a[0])) }
	opTable["equal"] = func(s *Session, a []string) string {
		return strconv.Itoa(b2i(decPos(a[0]).Equal(decPos(a[1]))))
	}
}
