package main

// Games and positions with two mirrored tall stacks that agree in height and in their upper stones but differ
// deeper down ("tower games").  They are what separates a stabiliser test on the whole position (Hash) from
// one that looks only at the tops, the heights or the upper part of the stacks: after every completed round
// the position is symmetric in everything but a buried stone, and the next move is one whose mirror image
// may sort earlier in preferMove.

import (
	"strconv"

	"github.com/nelhage/taktician/tak"
)

type sqr struct{ x, y int }

func (s sqr) img(k, n int) sqr { x, y := gSym(k, n, s.x, s.y); return sqr{x, y} }

func placeAt(s sqr) tak.Move { return tak.Move{X: int8(s.x), Y: int8(s.y), Type: tak.PlaceFlat} }

// slideOne moves the single top stone of `from` onto the adjacent square `to`.
func slideOne(from, to sqr) tak.Move {
	m := tak.Move{X: int8(from.x), Y: int8(from.y), Slides: tak.MkSlides(1)}
	switch {
	case to.x == from.x+1:
		m.Type = tak.SlideRight
	case to.x == from.x-1:
		m.Type = tak.SlideLeft
	case to.y == from.y+1:
		m.Type = tak.SlideUp
	default:
		m.Type = tak.SlideDown
	}
	return m
}

type towerGameT struct {
	size   int
	sigma  int         // the involution under which the towers are mirror images
	ms     []tak.Move  // the game
	marks  []int       // lengths of the prefixes after which both towers have equal height and equal upper stones
	final  *tak.Position
	height int
}

// towerGame builds such a game by legal play.  Two feeder squares next to the tower square t (and their images
// next to the image tower) are used by White and Black in turn: a round of eight plies puts a white and then a
// black stone on both towers.  The buried difference comes from the opening (ply 0 puts a black stone under one
// tower, ply 1 a white stone under the other) and from "asymmetric" rounds of four plies that put a white stone
// on one tower and a black one on the other; symmetric rounds then bury it.
func towerGame(r *RNG, size int) *towerGameT {
	for attempt := 0; attempt < 60; attempt++ {
		sigma := 1 + r.Intn(5)
		t := sqr{r.Intn(size), r.Intn(size)}
		st := t.img(sigma, size)
		if st == t {
			continue
		}
		var nb []sqr
		for _, d := range [][2]int{{1, 0}, {-1, 0}, {0, 1}, {0, -1}} {
			q := sqr{t.x + d[0], t.y + d[1]}
			if q.x >= 0 && q.y >= 0 && q.x < size && q.y < size {
				nb = append(nb, q)
			}
		}
		if len(nb) < 2 {
			continue
		}
		i := r.Intn(len(nb))
		j := (i + 1 + r.Intn(len(nb)-1)) % len(nb)
		f, g := nb[i], nb[j]
		sf, sg := f.img(sigma, size), g.img(sigma, size)
		six := map[sqr]bool{t: true, st: true, f: true, g: true, sf: true, sg: true}
		if len(six) != 6 {
			continue
		}
		tg := &towerGameT{size: size, sigma: sigma}
		p := tak.New(tak.Config{Size: size})
		play := func(m tak.Move) bool {
			n, err := p.Move(m)
			if err != nil {
				return false
			}
			p = n
			tg.ms = append(tg.ms, m)
			return true
		}
		// opening
		var fixed []sqr
		for x := 0; x < size; x++ {
			for y := 0; y < size; y++ {
				q := sqr{x, y}
				if q.img(sigma, size) == q && !six[q] {
					fixed = append(fixed, q)
				}
			}
		}
		h := 0
		if len(fixed) >= 2 && r.Chance(1, 2) {
			a := r.Intn(len(fixed))
			b := (a + 1 + r.Intn(len(fixed)-1)) % len(fixed)
			if !play(placeAt(fixed[a])) || !play(placeAt(fixed[b])) {
				continue
			}
		} else {
			// a black stone under one tower, a white one under the other: the deepest possible difference
			first, second := t, st
			if r.Chance(1, 2) {
				first, second = st, t
			}
			if !play(placeAt(first)) || !play(placeAt(second)) {
				continue
			}
			h = 1
		}
		target := size + 2 + r.Intn(3)
		asymLeft := r.Intn(3)
		ok := true
		for h < target && ok {
			if asymLeft > 0 && r.Chance(1, 3) {
				asymLeft--
				// white stone on one tower, black stone on the other
				wf, wt, bf, bt := f, t, sg, st
				if r.Chance(1, 2) {
					wf, wt, bf, bt = sf, st, g, t
				}
				ok = play(placeAt(wf)) && play(placeAt(bf)) && play(slideOne(wf, wt)) && play(slideOne(bf, bt))
				if ok {
					h++
				}
				continue
			}
			if r.Chance(1, 4) {
				// a round in which only one colour feeds the towers (one stone each, so buried differences also sit
				// at odd depths); the other colour fills mirrored pairs of free squares or squares on the axis
				var fill []tak.Move
				usedSq := map[sqr]bool{}
				for x := 0; x < size && len(fill) < 4; x++ {
					for y := 0; y < size && len(fill) < 4; y++ {
						q := sqr{x, y}
						sq := q.img(sigma, size)
						if six[q] || usedSq[q] || len(p.At(x, y)) != 0 || len(p.At(sq.x, sq.y)) != 0 {
							continue
						}
						if sq == q {
							fill = append(fill, placeAt(q))
							usedSq[q] = true
						} else if len(fill) <= 2 {
							fill = append(fill, placeAt(q), placeAt(sq))
							usedSq[q], usedSq[sq] = true, true
						}
					}
				}
				if len(fill) == 4 {
					a, sa := f, sf
					if r.Chance(1, 2) {
						a, sa = g, sg
					}
					feed := []tak.Move{placeAt(a), placeAt(sa), slideOne(a, t), slideOne(sa, st)}
					if r.Chance(1, 2) {
						feed = []tak.Move{placeAt(sa), placeAt(a), slideOne(sa, st), slideOne(a, t)}
					}
					// whoever is to move feeds
					for i := 0; i < 4 && ok; i++ {
						ok = play(feed[i]) && play(fill[i])
					}
					if ok {
						h++
						tg.marks = append(tg.marks, len(tg.ms))
					}
					continue
				}
			}
			w1, w2 := f, sf
			if r.Chance(1, 2) {
				w1, w2 = sf, f
			}
			b1, b2 := g, sg
			if r.Chance(1, 2) {
				b1, b2 = sg, g
			}
			// both colours feed the towers in the same order, so the towers get the same stones
			ws1, wt1, ws2, wt2 := f, t, sf, st
			bs1, bt1, bs2, bt2 := g, t, sg, st
			if r.Chance(1, 2) {
				ws1, wt1, ws2, wt2 = sf, st, f, t
				bs1, bt1, bs2, bt2 = sg, st, g, t
			}
			ok = play(placeAt(w1)) && play(placeAt(b1)) && play(placeAt(w2)) && play(placeAt(b2)) &&
				play(slideOne(ws1, wt1)) && play(slideOne(bs1, bt1)) && play(slideOne(ws2, wt2)) && play(slideOne(bs2, bt2))
			if ok {
				h += 2
				tg.marks = append(tg.marks, len(tg.ms))
			}
		}
		if len(tg.marks) == 0 {
			continue
		}
		tg.height = h
		// a continuation: first a placement off the axis (the caller also plays its mirror image), then a few more moves
		var empties []sqr
		for x := 0; x < size; x++ {
			for y := 0; y < size; y++ {
				q := sqr{x, y}
				if len(p.At(x, y)) == 0 && q.img(sigma, size) != q {
					empties = append(empties, q)
				}
			}
		}
		if len(empties) > 0 {
			play(placeAt(empties[r.Intn(len(empties))]))
		}
		for extra := r.Intn(3); extra > 0; extra-- {
			ls := legalMoves(p)
			if len(ls) == 0 {
				break
			}
			play(pickBiased(r, p, ls))
		}
		tg.final = p
		return tg
	}
	return nil
}

// nearSymmetry reports, for a position, the smallest depth (1 = the stone under the top) at which it differs
// from its image under map k, given that tops and heights agree; 0 if tops/heights differ, -1 if fully symmetric.
func nearSymmetry(p *tak.Position, k int) int {
	n := p.Size()
	best := -1
	for x := 0; x < n; x++ {
		for y := 0; y < n; y++ {
			rx, ry := gSym(k, n, x, y)
			a, b := p.At(x, y), p.At(rx, ry)
			if len(a) != len(b) {
				return 0
			}
			for d := range a {
				if a[d] != b[d] {
					if d == 0 {
						return 0
					}
					if best == -1 || d < best {
						best = d
					}
					break
				}
			}
		}
	}
	return best
}

func replayAll(size int, ms []tak.Move) *tak.Position {
	p := tak.New(tak.Config{Size: size})
	for _, m := range ms {
		n, err := p.Move(m)
		if err != nil {
			return nil
		}
		p = n
	}
	return p
}

// emitTowerGames: the canonical form of tower games, of every prefix that ends one move after a completed
// round (where a test that misses the buried difference would rewrite the move), of the alternative mirrored
// continuation, and the property clauses on the real code.
func emitTowerGames(c *Ctx, count int) {
	for it := 0; it < count; it++ {
		size := []int{3, 3, 3, 4, 4, 5}[c.R.Intn(6)]
		tg := towerGame(c.R, size)
		if tg == nil {
			c.Count("tower.failed")
			continue
		}
		marks := tg.marks
		orient := 0
		if c.R.Chance(1, 2) {
			orient = 1 + c.R.Intn(7) // another orientation of the same game
		}
		ms := gMoves(orient, size, tg.ms)
		sz := strconv.Itoa(size)
		c.Count("tower.games")
		c.Count("tower.size" + sz + ".height" + strconv.Itoa(tg.height))
		for _, mk := range marks {
			if q := replayAll(size, ms[:mk]); q != nil {
				deep := 0
				for k := 1; k < 8; k++ {
					if d := nearSymmetry(q, k); d > deep {
						deep = d
					}
				}
				switch {
				case deep > size:
					c.Count("tower.round.diff-deeper-than-size")
				case deep > 0:
					c.Count("tower.round.diff-depth" + strconv.Itoa(deep))
				}
			}
			if mk < len(ms) {
				c.Emit("canon " + sz + " " + encMoves(ms[:mk+1]))
				c.Emit("scanon " + sz + " " + encMoves(ms[:mk+1]))
				// the same prefix with the mirrored next move (legal as well when the position is near-symmetric)
				orig := append(append([]tak.Move(nil), tg.ms[:mk]...), gMove(tg.sigma, size, tg.ms[mk]))
				alt := gMoves(orient, size, orig)
				if replayAll(size, alt) != nil {
					c.Emit("canon " + sz + " " + encMoves(alt))
					c.Emit("scanon " + sz + " " + encMoves(alt))
					c.Count("tower.mirrored-continuation")
				}
			}
		}
		emitCanonFamily(c, size, ms, c.R.Chance(1, 3))
		if len(marks) > 0 && c.R.Chance(1, 2) {
			mk := marks[c.R.Intn(len(marks))]
			if mk < len(ms) {
				c.Emit("canonchk " + sz + " " + encMoves(ms[:mk+1]))
			}
		}
	}
}

// deepBreakPosition: a board invariant under a random subgroup with tall stacks, then one buried stone of one
// stack recoloured at a random depth (1 .. height-1): tops, heights and the rest of the stacks stay symmetric.
func deepBreakPosition(r *RNG, size int) *tak.Position {
	for {
		h := symSubgroups[1+r.Intn(len(symSubgroups)-1)]
		board := make([][]tak.Square, size)
		done := make([][]bool, size)
		for y := range board {
			board[y] = make([]tak.Square, size)
			done[y] = make([]bool, size)
		}
		cols := []tak.Color{tak.White, tak.Black}
		for y := 0; y < size; y++ {
			for x := 0; x < size; x++ {
				if done[y][x] {
					continue
				}
				var sq tak.Square
				if r.Intn(100) < 70 {
					hgt := 1 + r.Intn(size+7)
					if r.Chance(1, 3) {
						hgt = 1
					}
					sq = make(tak.Square, hgt)
					kind := tak.Flat
					if r.Chance(1, 5) {
						kind = tak.Standing
					}
					sq[0] = tak.MakePiece(cols[r.Intn(2)], kind)
					for j := 1; j < hgt; j++ {
						sq[j] = tak.MakePiece(cols[r.Intn(2)], tak.Flat)
					}
				}
				for _, k := range h {
					rx, ry := gSym(k, size, x, y)
					if !done[ry][rx] {
						done[ry][rx] = true
						board[ry][rx] = append(tak.Square(nil), sq...)
					}
				}
			}
		}
		// recolour one buried stone on a square that some element of the subgroup moves
		var cands []sqr
		for y := 0; y < size; y++ {
			for x := 0; x < size; x++ {
				if len(board[y][x]) < 2 {
					continue
				}
				for _, k := range h[1:] {
					if rx, ry := gSym(k, size, x, y); rx != x || ry != y {
						cands = append(cands, sqr{x, y})
						break
					}
				}
			}
		}
		if len(cands) == 0 {
			continue
		}
		s := cands[r.Intn(len(cands))]
		st := board[s.y][s.x]
		d := 1 + r.Intn(len(st)-1)
		if r.Chance(1, 2) && len(st) > size+1 {
			d = size + 1 + r.Intn(len(st)-size-1) // deeper than the board size
		}
		st[d] = tak.MakePiece(st[d].Color().Flip(), tak.Flat)
		var cnt [2]int
		for y := 0; y < size; y++ {
			for x := 0; x < size; x++ {
				for _, pc := range board[y][x] {
					if pc.Color() == tak.Black {
						cnt[1]++
					} else {
						cnt[0]++
					}
				}
			}
		}
		need := cnt[0]
		if cnt[1] > need {
			need = cnt[1]
		}
		if need > 240 {
			continue
		}
		cfg := tak.Config{Size: size, Pieces: need + 1 + r.Intn(3), Capstones: defaultCaps[size]}
		p, err := tak.FromSquares(cfg, board, 2+r.Intn(40))
		if err != nil {
			panic(err)
		}
		return p
	}
}
