package main

import (
	"fmt"
	"strconv"
	"strings"

	"github.com/nelhage/taktician/ai"
	"github.com/nelhage/taktician/bitboard"
	playtak "github.com/nelhage/taktician/cmd/internal/playtak"
	"github.com/nelhage/taktician/symmetry"
	"github.com/nelhage/taktician/tak"
)

// `fn.*` ops for the functions /verif/gen regenerates into Generated/Funcs{Tak,Sym,AI,FPA}.lean: each op runs
// the real function; the Lean side evaluates the regenerated definition (Driver/OpsFnGen.lean).  Generators:
// FNTAK (pieces: C01, C02), FNOVER (flood, flat count, game end: C02), FNMOVE (Slides.Len, Move methods: C05, C14, C20),
// FNSYM (C14, C15), FNAI (C05), FNFPA (C20), FNEVAL (terminal scores: C18), FNHASH (Position.Hash: C08).

func i8(s string) int8 { return int8(atoi(s)) }

func argMove(a []string) tak.Move {
	return tak.Move{X: i8(a[0]), Y: i8(a[1]), Type: tak.MoveType(atoi(a[2])), Slides: tak.Slides(atou(a[3]))}
}

var sizedPos = map[int]*tak.Position{}

func posOfSize(size int) *tak.Position {
	if p, ok := sizedPos[size]; ok {
		return p
	}
	p := tak.New(tak.Config{Size: size})
	sizedPos[size] = p
	return p
}

func init() {
	for size := 3; size <= 8; size++ {
		posOfSize(size)
	}
	opTable["fn.flood"] = func(s *Session, a []string) string {
		c := bitboard.Precompute(uint(atoi(a[0])))
		return strconv.FormatUint(bitboard.Flood(&c, atou(a[1]), atou(a[2])), 10)
	}
	opTable["fn.popcount"] = func(s *Session, a []string) string {
		return fmt.Sprintf("%d %d", bitboard.Popcount(atou(a[0])), bitboard.TrailingZeros(atou(a[0])))
	}
	opTable["fn.piece"] = func(s *Session, a []string) string {
		p := tak.Piece(atoi(a[2]))
		return fmt.Sprintf("%d %d %d %d", tak.MakePiece(tak.Color(atoi(a[0])), tak.Kind(atoi(a[1]))), p.Color(), p.Kind(), b2i(p.IsRoad()))
	}
	opTable["fn.flip"] = func(s *Session, a []string) string {
		return strconv.Itoa(int(tak.Color(atoi(a[0])).Flip()))
	}
	opTable["fn.slen"] = func(s *Session, a []string) string {
		return strconv.Itoa(tak.Slides(atou(a[0])).Len())
	}
	opTable["fn.mequal"] = func(s *Session, a []string) string {
		m, r := argMove(a[0:4]), argMove(a[4:8])
		return fmt.Sprintf("%d %d", b2i(m.IsSlide()), b2i(m.Equal(r)))
	}
	opTable["fn.mdest"] = func(s *Session, a []string) string {
		x, y := argMove(a).Dest()
		return fmt.Sprintf("%d %d", x, y)
	}
	opTable["fn.pos"] = func(s *Session, a []string) string {
		p := decPos(a[0])
		cw, cb := p.VerifCountFlats()
		over, w := p.GameOver()
		return fmt.Sprintf("%d %d %d %d %d %d", p.ToMove(), cw, cb, p.VerifFlatsWinner(), b2i(over), w)
	}
	opTable["fn.dims"] = func(s *Session, a []string) string {
		c := bitboard.Precompute(uint(atoi(a[0])))
		w, h := bitboard.Dimensions(&c, atou(a[1]))
		return fmt.Sprintf("%d %d", w, h)
	}
	opTable["fn.hash"] = func(s *Session, a []string) string {
		return strconv.FormatUint(decPos(a[0]).Hash(), 10)
	}
	opTable["fn.sym"] = func(s *Session, a []string) string {
		x, y := symmetry.VerifSymmetries(atoi(a[0]))[atoi(a[1])](i8(a[2]), i8(a[3]))
		return fmt.Sprintf("%d %d", x, y)
	}
	opTable["fn.prefer"] = func(s *Session, a []string) string {
		return strconv.Itoa(b2i(symmetry.VerifPreferMove(argMove(a[0:4]), argMove(a[4:8]))))
	}
	opTable["fn.tesuff"] = func(s *Session, a []string) string {
		return strconv.Itoa(b2i(ai.VerifTeSuffices(int64(atoi(a[0])), byte(atoi(a[1])), i8(a[2]), atoi(a[3]), int64(atoi(a[4])), int64(atoi(a[5])))))
	}
	// the terminal scores: same Go calls as `evalterm` / `evalwinner` (ops_eval.go); the Lean side evaluates Gen.*
	opTable["fn.evalterm"] = func(s *Session, a []string) string { return opTable["evalterm"](s, a) }
	opTable["fn.evalwinner"] = func(s *Session, a []string) string { return opTable["evalwinner"](s, a) }
	opTable["fn.centered"] = func(s *Session, a []string) string {
		p := posOfSize(atoi(a[0]))
		m := tak.Move{X: i8(a[1]), Y: i8(a[2]), Type: tak.PlaceFlat}
		return fmt.Sprintf("%d %d", b2i(playtak.VerifIsCentered(p, m)), b2i(playtak.VerifIsCenterAdjacent(p, m)))
	}
	opTable["fn.distance"] = func(s *Session, a []string) string {
		return strconv.Itoa(int(playtak.VerifDistance(i8(a[0]), i8(a[1]), i8(a[2]), i8(a[3]))))
	}
	opTable["fn.dir"] = func(s *Session, a []string) string {
		return strconv.Itoa(int(playtak.VerifDir(atoi(a[0]), atoi(a[1]), atoi(a[2]), atoi(a[3]))))
	}
}

// edge8: an int8 biased to the extremes and to board coordinates
func edge8(r *RNG) int {
	switch r.Intn(8) {
	case 0:
		return -128
	case 1:
		return 127
	case 2:
		return -1
	case 3:
		return 0
	case 4, 5:
		return r.Intn(10) - 1
	default:
		return r.Intn(256) - 128
	}
}

func edgeType(r *RNG) int {
	switch r.Intn(6) {
	case 0:
		return 0
	case 1:
		return 9 + r.Intn(247)
	default:
		return 1 + r.Intn(8)
	}
}

func edgeSlides(r *RNG) uint32 {
	switch r.Intn(6) {
	case 0:
		return 0
	case 1:
		return edgeU32(r)
	case 2: // a zero nibble below a non-zero one (the iterator stops there, Len does not)
		return uint32(1+r.Intn(8))<<uint(4*(1+r.Intn(7))) | uint32(r.Intn(9))
	default:
		n := 1 + r.Intn(8)
		var s uint32
		for i := 0; i < n; i++ {
			s = s<<4 | uint32(1+r.Intn(8))
		}
		return s
	}
}

func edgeMoveArgs(r *RNG) string {
	return fmt.Sprintf("%d %d %d %d", edge8(r), edge8(r), edgeType(r), edgeSlides(r))
}

func genFNTAK(c *Ctx) {
	if c.Shard == 0 {
		for v := 0; v < 256; v++ {
			c.Emit(fmt.Sprintf("fn.flip %d", v))
			c.Emit(fmt.Sprintf("fn.piece %d %d %d", v&0xc0, v&3, v))
			c.Emit(fmt.Sprintf("fn.piece %d %d %d", v, 255-v, v))
		}
	}
	n := c.Scale(2000, 200000)
	for k := 0; k < n; k++ {
		c.Emit(fmt.Sprintf("fn.piece %d %d %d", c.R.Intn(256), c.R.Intn(256), c.R.Intn(256)))
	}
}

func genFNMOVE(c *Ctx) {
	if c.Shard == 0 {
		for t := 0; t <= 16; t++ { // every move type (and the bad ones), every length
			for n := 0; n <= 8; n++ {
				var s uint32
				for i := 0; i < n; i++ {
					s = s<<4 | 1
				}
				for _, xy := range [][2]int{{0, 0}, {3, 4}, {127, 127}, {-128, -128}, {-128, 127}} {
					c.Emit(fmt.Sprintf("fn.mdest %d %d %d %d", xy[0], xy[1], t, s))
				}
			}
		}
	}
	n := c.Scale(4000, 400000)
	for k := 0; k < n; k++ {
		c.Emit(fmt.Sprintf("fn.slen %d", edgeSlides(c.R)))
		m := edgeMoveArgs(c.R)
		if c.R.Chance(1, 2) {
			c.Emit("fn.mequal " + m + " " + m)
			c.Count("mequal:same")
		} else {
			c.Emit("fn.mequal " + m + " " + edgeMoveArgs(c.R))
		}
		if out := c.Emit("fn.mdest " + edgeMoveArgs(c.R)); out == "panic" {
			c.Count("mdest:panic")
		} else {
			c.Count("mdest:ok")
		}
	}
}

func genFNOVER(c *Ctx) {
	if c.Shard == 0 {
		for _, x := range []uint64{0, 1, 1 << 63, ^uint64(0), 0x5555555555555555, 0xff00} {
			c.Emit(fmt.Sprintf("fn.popcount %d", x))
		}
	}
	n := c.Scale(6000, 600000)
	for k := 0; k < n; k++ {
		size := 3 + c.R.Intn(6)
		mask := uint64(1)<<uint(size*size) - 1
		w, s := edgeU64(c.R), edgeU64(c.R)
		if c.R.Chance(3, 4) {
			w &= mask
		}
		if c.R.Chance(1, 2) {
			s = uint64(1) << uint(c.R.Intn(size*size))
		} else if c.R.Chance(1, 2) {
			s &= w
		}
		c.Emit(fmt.Sprintf("fn.flood %d %d %d", size, w, s))
		c.Emit(fmt.Sprintf("fn.popcount %d", edgeU64(c.R)))
		if k%4 == 0 {
			var p *tak.Position
			switch c.R.Intn(5) {
			case 0:
				p = roadBoard(c.R, size)
				c.Count("pos:road")
			case 1:
				p = flatBoard(c.R, size)
				c.Count("pos:flat")
			case 2:
				p = wrapReserves(c.R, randomPosition(c.R))
				c.Count("pos:wrapreserves")
			default:
				p = randomPosition(c.R)
				c.Count("pos:random")
			}
			if p != nil {
				out := c.Emit("fn.pos " + encPos(p))
				if f := strings.Fields(out); len(f) == 6 {
					c.Count("pos:over=" + f[4] + ",winner=" + f[5])
				}
			}
		}
	}
}

func genFNSYM(c *Ctx) {
	coords := []int{-128, -127, -2, -1, 0, 1, 2, 3, 4, 5, 6, 7, 8, 9, 126, 127}
	if c.Shard == 0 {
		// all sizes, all 8 maps, boundary coordinates (on board, just off, int8 extremes)
		for size := 3; size <= 8; size++ {
			for k := 0; k < 8; k++ {
				for _, x := range coords {
					for _, y := range coords {
						c.Emit(fmt.Sprintf("fn.sym %d %d %d %d", size, k, x, y))
					}
				}
			}
		}
		// sizes int8(size) wraps on
		for _, size := range []int{0, 1, 2, 9, 127, 128, 129, 255, 256, 300} {
			for k := 0; k < 8; k++ {
				c.Emit(fmt.Sprintf("fn.sym %d %d %d %d", size, k, 1, 2))
				c.Emit(fmt.Sprintf("fn.sym %d %d %d %d", size, k, -128, 127))
			}
		}
	}
	n := c.Scale(1000, 200000)
	for k := 0; k < n; k++ {
		c.Emit(fmt.Sprintf("fn.sym %d %d %d %d", 3+c.R.Intn(6), c.R.Intn(8), edge8(c.R), edge8(c.R)))
		m := edgeMoveArgs(c.R)
		switch c.R.Intn(3) {
		case 0:
			c.Emit("fn.prefer " + m + " " + m)
		default:
			c.Emit("fn.prefer " + m + " " + edgeMoveArgs(c.R))
		}
	}
}

func genFNAI(c *Ctx) {
	wt := int64(ai.WinThreshold)
	vals := []int64{0, 1, -1, wt - 1, wt, wt + 1, -wt + 1, -wt, -wt - 1, int64(ai.MaxEval), int64(ai.MinEval), 1 << 40, -(1 << 40)}
	pick := func() int64 {
		if c.R.Chance(1, 4) {
			return int64(c.R.Intn(2001)) - 1000
		}
		return vals[c.R.Intn(len(vals))] + int64(c.R.Intn(3)) - 1
	}
	if c.Shard == 0 {
		for b := 0; b <= 3; b++ {
			for _, v := range vals {
				for _, d := range []int{-128, -1, 0, 5, 127} {
					for _, depth := range []int{-1, 0, 5, 6, 127, 128, 1000} {
						c.Emit(fmt.Sprintf("fn.tesuff %d %d %d %d %d %d", v, b, d, depth, v+1, v-1))
						c.Emit(fmt.Sprintf("fn.tesuff %d %d %d %d %d %d", v, b, d, depth, v, v))
						c.Emit(fmt.Sprintf("fn.tesuff %d %d %d %d %d %d", v, b, d, depth, v-1, v+1))
					}
				}
			}
		}
	}
	n := c.Scale(6000, 600000)
	for k := 0; k < n; k++ {
		b := c.R.Intn(3)
		if c.R.Chance(1, 10) {
			b = c.R.Intn(256)
		}
		out := c.Emit(fmt.Sprintf("fn.tesuff %d %d %d %d %d %d", pick(), b, edge8(c.R), c.R.Intn(40)-5, pick(), pick()))
		c.Count("tesuff=" + out)
	}
}

func genFNFPA(c *Ctx) {
	if c.Shard == 0 {
		coords := []int{-128, -127, -3, -2, -1, 0, 1, 2, 3, 4, 5, 6, 7, 8, 9, 126, 127}
		for size := 3; size <= 8; size++ {
			for _, x := range coords {
				for _, y := range coords {
					c.Emit(fmt.Sprintf("fn.centered %d %d %d", size, x, y))
				}
			}
		}
		for _, x := range coords {
			for _, y := range coords {
				c.Emit(fmt.Sprintf("fn.distance %d %d %d %d", x, y, y, x))
				c.Emit(fmt.Sprintf("fn.distance %d 0 %d 0", x, y))
				c.Emit(fmt.Sprintf("fn.dir %d %d %d %d", x, y, y, x))
				c.Emit(fmt.Sprintf("fn.dir %d 3 %d 3", x, y))
				c.Emit(fmt.Sprintf("fn.dir 3 %d 3 %d", x, y))
			}
		}
	}
	n := c.Scale(4000, 400000)
	for k := 0; k < n; k++ {
		c.Emit(fmt.Sprintf("fn.centered %d %d %d", 3+c.R.Intn(6), edge8(c.R), edge8(c.R)))
		c.Emit(fmt.Sprintf("fn.distance %d %d %d %d", edge8(c.R), edge8(c.R), edge8(c.R), edge8(c.R)))
		a, b := c.R.Intn(12)-2, c.R.Intn(12)-2
		x, y := a, b
		if c.R.Chance(3, 4) {
			x += c.R.Intn(3) - 1
		}
		if c.R.Chance(1, 2) {
			y += c.R.Intn(3) - 1
		}
		if out := c.Emit(fmt.Sprintf("fn.dir %d %d %d %d", a, b, x, y)); out == "panic" {
			c.Count("dir:panic")
		} else {
			c.Count("dir:" + out)
		}
	}
}

func genFNEVAL(c *Ctx) {
	n := c.Scale(3000, 300000)
	for k := 0; k < n; k++ {
		size := 3 + c.R.Intn(6)
		var p *tak.Position
		switch c.R.Intn(5) {
		case 0, 1:
			p = roadBoard(c.R, size)
		case 2:
			p = flatBoard(c.R, size)
		case 3:
			p = wrapReserves(c.R, randomPosition(c.R))
		default:
			p = randomPosition(c.R)
		}
		if p == nil {
			continue
		}
		tok := encPos(p)
		w := "default"
		switch c.R.Intn(4) {
		case 0:
			w = randWeights(c.R)
		case 1:
			w = "easy"
		}
		out := c.Emit("fn.evalterm " + w + " " + tok)
		switch {
		case out == "0":
			c.Count("evalterm:zero")
		case strings.HasPrefix(out, "-"):
			c.Count("evalterm:neg")
		default:
			c.Count("evalterm:pos")
		}
		c.Count("evalwinner=" + c.Emit("fn.evalwinner "+tok))
		// Dimensions of a non-empty set inside the board (outside it the Go loop does not end), and of 0
		mask := uint64(1)<<uint(size*size) - 1
		bits := edgeU64(c.R) & mask
		if r := p.VerifRaw(); c.R.Chance(1, 2) && len(r.WG)+len(r.BG) > 0 {
			gs := append(append([]uint64{}, r.WG...), r.BG...)
			bits = gs[c.R.Intn(len(gs))]
			size = p.Size()
		}
		c.Emit(fmt.Sprintf("fn.dims %d %d", size, bits))
	}
}

func genFNHASH(c *Ctx) {
	n := c.Scale(3000, 300000)
	for k := 0; k < n; k++ {
		p := randomPosition(c.R)
		if p == nil {
			continue
		}
		c.Emit("fn.hash " + encPos(p))
	}
}

func init() {
	genTable["FNHASH"] = genFNHASH
	genTable["FNEVAL"] = genFNEVAL
	genTable["FNTAK"] = genFNTAK
	genTable["FNMOVE"] = genFNMOVE
	genTable["FNOVER"] = genFNOVER
	genTable["FNSYM"] = genFNSYM
	genTable["FNAI"] = genFNAI
	genTable["FNFPA"] = genFNFPA
}
