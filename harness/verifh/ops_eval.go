package main

// Ops for C18 (evaluation ranges) and C19 (immediate road threats): the real
// ai.evaluate / ai.EvaluateWinner / ai.CountThreats and a one-ply road search.

import (
	"strconv"
	"strings"

	"github.com/nelhage/taktician/ai"
	"github.com/nelhage/taktician/bitboard"
	cmdplaytak "github.com/nelhage/taktician/cmd/internal/playtak"
	"github.com/nelhage/taktician/tak"
)

func i64s(xs []int64) string {
	parts := make([]string, len(xs))
	for i, x := range xs {
		parts[i] = strconv.FormatInt(x, 10)
	}
	return strings.Join(parts, ",")
}

// weightSet resolves a weight-set token: default (by size), easy, med, raw, over6, 3..8, c:<csv>.
func weightSet(tok string, size int) *ai.Weights {
	var w ai.Weights
	switch {
	case tok == "default":
		w = ai.DefaultWeights[size]
	case tok == "easy":
		w = cmdplaytak.VerifEvalEasyWeights()
	case tok == "med":
		w = cmdplaytak.VerifEvalMedWeights()
	case tok == "raw":
		w = ai.VerifEvalRawDefaultWeights()
	case tok == "over6":
		w = ai.VerifEvalOverrides6()
	case strings.HasPrefix(tok, "c:"):
		f := strings.Split(tok[2:], ",")
		if len(f) != len(w) {
			panic("bad weight vector")
		}
		for i, s := range f {
			v, err := strconv.ParseInt(s, 10, 64)
			if err != nil {
				panic("bad weight")
			}
			w[i] = v
		}
	default:
		w = ai.DefaultWeights[atoi(tok)]
	}
	return &w
}

func classifyEval(v int64) string {
	switch {
	case v == 0:
		return "zero"
	case v > ai.WinThreshold:
		return "out+"
	case v < -ai.WinThreshold:
		return "out-"
	case v == ai.WinThreshold || v == -ai.WinThreshold:
		return "edge"
	}
	return "in"
}

// what C18 demands of the value, from the rules alone
func demandedClass(p *tak.Position) string {
	over, winner := p.GameOver()
	switch {
	case !over:
		return "in"
	case winner == tak.NoColor:
		return "zero"
	case winner == p.ToMove():
		return "out+"
	}
	return "out-"
}

// oneLyRoadWin: is there a move of the generator that Move accepts and that ends the game by a road of the mover?
func onePlyRoadWin(p *tak.Position) (tak.Move, bool) {
	mover := p.ToMove()
	for _, m := range p.AllMoves(nil) {
		n, err := p.Move(m)
		if err != nil {
			continue
		}
		d := n.WinDetails()
		if d.Over && d.Winner == mover && d.Reason == tak.RoadWin {
			return m, true
		}
	}
	return tak.Move{}, false
}

func threatReal(p *tak.Position) string {
	if over, _ := p.GameOver(); over {
		return "over"
	}
	if p.MoveNumber() < 2 {
		return "opening"
	}
	c := bitboard.Precompute(uint(p.Size()))
	wp, wt, bp, bt := ai.CountThreats(&c, p)
	n := wp + wt
	if p.ToMove() == tak.Black {
		n = bp + bt
	}
	if n == 0 {
		return "none"
	}
	if _, ok := onePlyRoadWin(p); ok {
		return "ok"
	}
	return "BOGUS " + strconv.Itoa(wp) + " " + strconv.Itoa(wt) + " " + strconv.Itoa(bp) + " " + strconv.Itoa(bt)
}

func init() {
	opTable["evalconsts"] = func(s *Session, a []string) string {
		feats := []ai.Feature{ai.Tempo, ai.TopFlat, ai.Standing, ai.Capstone, ai.HardTopCap, ai.CapMobility,
			ai.FlatCaptives_Soft, ai.FlatCaptives_Hard, ai.StandingCaptives_Soft, ai.StandingCaptives_Hard,
			ai.CapstoneCaptives_Soft, ai.CapstoneCaptives_Hard, ai.Liberties, ai.GroupLiberties,
			ai.Groups, ai.Groups_1, ai.Groups_2, ai.Groups_3, ai.Groups_4, ai.Groups_5, ai.Groups_6, ai.Groups_7, ai.Groups_8,
			ai.Potential, ai.Threat, ai.EmptyControl, ai.FlatControl, ai.Center, ai.CenterControl,
			ai.ThrowMine, ai.ThrowTheirs, ai.ThrowEmpty,
			ai.Terminal_Plies, ai.Terminal_Flats, ai.Terminal_Reserves, ai.Terminal_OpponentReserves, ai.MaxFeature}
		fs := make([]int64, len(feats))
		for i, f := range feats {
			fs[i] = int64(f)
		}
		return i64s(ai.VerifEvalConsts()) + " " + i64s(fs)
	}
	opTable["weights"] = func(s *Session, a []string) string {
		w := weightSet(a[0], 5)
		return i64s(w[:])
	}
	opTable["eval"] = func(s *Session, a []string) string {
		p := decPos(a[0])
		c := bitboard.Precompute(uint(p.Size()))
		return strconv.FormatInt(ai.MakeEvaluator(p.Size(), nil)(&c, p), 10)
	}
	opTable["evalw"] = func(s *Session, a []string) string {
		p := decPos(a[1])
		c := bitboard.Precompute(uint(p.Size()))
		return strconv.FormatInt(ai.MakeEvaluator(p.Size(), weightSet(a[0], p.Size()))(&c, p), 10)
	}
	opTable["evalterm"] = func(s *Session, a []string) string {
		p := decPos(a[1])
		return strconv.FormatInt(ai.VerifEvaluateTerminal(p, weightSet(a[0], p.Size())), 10)
	}
	opTable["evalwinner"] = func(s *Session, a []string) string {
		p := decPos(a[0])
		c := bitboard.Precompute(uint(p.Size()))
		return strconv.FormatInt(ai.EvaluateWinner(&c, p), 10)
	}
	// the property itself on the real code: class of the value vs class demanded by the rules
	opTable["evalcheck"] = func(s *Session, a []string) string {
		p := decPos(a[1])
		c := bitboard.Precompute(uint(p.Size()))
		var v int64
		if a[0] == "winner" {
			v = ai.EvaluateWinner(&c, p)
			if over, _ := p.GameOver(); !over {
				if v != 0 {
					return "in?" // the winner-only evaluator must be 0 on unfinished games
				}
				return "in"
			}
		} else {
			v = ai.VerifEvaluate(&c, weightSet(a[0], p.Size()), p)
		}
		cl := classifyEval(v)
		if cl == "zero" && demandedClass(p) == "in" {
			cl = "in" // 0 is inside the undecided range
		}
		if v > ai.MaxEval || v < ai.MinEval {
			cl += "!range"
		}
		return cl
	}
	opTable["evalparts"] = func(s *Session, a []string) string {
		p := decPos(a[1])
		c := bitboard.Precompute(uint(p.Size()))
		w := weightSet(a[0], p.Size())
		r := p.VerifRaw()
		return strconv.FormatInt(ai.VerifScoreThreats(&c, w, p), 10) + " " +
			strconv.FormatInt(ai.VerifScoreControl(&c, w, p), 10) + " " +
			strconv.FormatInt(ai.VerifScoreGroups(&c, r.WG, w, r.Black|r.Standing), 10) + " " +
			strconv.FormatInt(ai.VerifScoreGroups(&c, r.BG, w, r.White|r.Standing), 10)
	}
	opTable["mobility"] = func(s *Session, a []string) string {
		p := decPos(a[0])
		c := bitboard.Precompute(uint(p.Size()))
		return strconv.FormatUint(ai.VerifMobility(&c, p, uint64(1)<<uint(atoi(a[1])), atoi(a[2])), 10)
	}
	opTable["control"] = func(s *Session, a []string) string {
		p := decPos(a[0])
		c := bitboard.Precompute(uint(p.Size()))
		wc, bc := ai.VerifComputeControl(&c, p)
		return strconv.FormatUint(wc, 10) + " " + strconv.FormatUint(bc, 10)
	}
	opTable["dims"] = func(s *Session, a []string) string {
		c := bitboard.Precompute(uint(atoi(a[0])))
		w, h := bitboard.Dimensions(&c, atou(a[1]))
		return strconv.Itoa(w) + " " + strconv.Itoa(h)
	}
	opTable["threats"] = func(s *Session, a []string) string {
		p := decPos(a[0])
		c := bitboard.Precompute(uint(p.Size()))
		wp, wt, bp, bt := ai.CountThreats(&c, p)
		return strconv.Itoa(wp) + " " + strconv.Itoa(wt) + " " + strconv.Itoa(bp) + " " + strconv.Itoa(bt)
	}
	// the hypotheses of the C19 theorem, computed from the raw fields on the Go side
	opTable["c19hyp"] = func(s *Session, a []string) string {
		r := decPos(a[0]).VerifRaw()
		n := r.Size
		if n < 3 || n > 8 {
			return "0"
		}
		mask := ^uint64(0)
		if n*n < 64 {
			mask = (uint64(1) << uint(n*n)) - 1
		}
		ok := r.White&^mask == 0 && r.Black&^mask == 0 && r.White&r.Black == 0 &&
			(r.Standing|r.Caps)&^(r.White|r.Black) == 0 && r.Standing&r.Caps == 0
		for i := 0; i < 64; i++ {
			if (r.White|r.Black)>>uint(i)&1 == 1 && (i >= len(r.Height) || r.Height[i] < 1) {
				ok = false
			}
		}
		return strconv.Itoa(b2i(ok))
	}
	// threatstack: the detector on a position that lives in a search-stack frame: p --m1--> A (frame 1) --pass--> B
	// (frame 2), then a sibling of A is generated into frame 1 (as a search does when it moves on), and the detector is
	// asked about B.  The required answer is the detector's answer for B's position, however it is stored.
	opTable["threatstack"] = func(s *Session, a []string) string {
		p := decPos(a[0])
		f1, f2 := tak.Alloc(p.Size()), tak.Alloc(p.Size())
		A, err := p.MovePreallocated(decMove(a[1]), f1)
		if err != nil {
			return "err"
		}
		B, err := A.MovePreallocated(tak.Move{Type: tak.Pass}, f2)
		if err != nil {
			return "err"
		}
		if _, err := p.MovePreallocated(decMove(a[2]), f1); err != nil {
			p.MovePreallocated(tak.Move{Type: tak.Pass}, f1)
		}
		c := bitboard.Precompute(uint(B.Size()))
		wp, wt, bp, bt := ai.CountThreats(&c, B)
		return strconv.Itoa(wp) + " " + strconv.Itoa(wt) + " " + strconv.Itoa(bp) + " " + strconv.Itoa(bt) + " " + threatReal(B)
	}
	// threatclone: the detector on a CLONE of a position that lived in a search-stack frame, after that frame was reused
	opTable["threatclone"] = func(s *Session, a []string) string {
		p := decPos(a[0])
		f1 := tak.Alloc(p.Size())
		A, err := p.MovePreallocated(decMove(a[1]), f1)
		if err != nil {
			return "err"
		}
		K := A.Clone()
		if _, err := p.MovePreallocated(decMove(a[2]), f1); err != nil {
			p.MovePreallocated(tak.Move{Type: tak.Pass}, f1)
		}
		c := bitboard.Precompute(uint(K.Size()))
		wp, wt, bp, bt := ai.CountThreats(&c, K)
		return strconv.Itoa(wp) + " " + strconv.Itoa(wt) + " " + strconv.Itoa(bp) + " " + strconv.Itoa(bt) + " " + threatReal(K)
	}
	opTable["threatreal"] = func(s *Session, a []string) string { return threatReal(decPos(a[0])) }
	opTable["sthreatreal"] = opTable["threatreal"]
	// is there a one-ply road win at all (for the under-count statistics and as a tie on win detection)
	opTable["roadwin1"] = func(s *Session, a []string) string {
		p := decPos(a[0])
		if over, _ := p.GameOver(); over {
			return "over"
		}
		if _, ok := onePlyRoadWin(p); ok {
			return "1"
		}
		return "0"
	}
}
