package main

// splitmix64: every random choice of the harness is drawn from one of these,
// derived from VERIF_SEED, so that a run replays exactly.
type RNG struct{ s uint64 }

func NewRNG(seed uint64) *RNG { return &RNG{s: seed} }

func (r *RNG) Next() uint64 {
	r.s += 0x9e3779b97f4a7c15
	z := r.s
	z = (z ^ (z >> 30)) * 0xbf58476d1ce4e5b9
	z = (z ^ (z >> 27)) * 0x94d049bb133111eb
	return z ^ (z >> 31)
}

func (r *RNG) Intn(n int) int {
	if n <= 0 {
		return 0
	}
	return int(r.Next() % uint64(n))
}

func (r *RNG) Chance(num, den int) bool { return r.Intn(den) < num }

func (r *RNG) Fork() *RNG { return NewRNG(r.Next()) }
