package main

// Generators for C18 (evaluation stays out of / inside the decided range) and
// C19 (a counted immediate road threat is a real winning move).

import (
	"strconv"
	"strings"

	"github.com/nelhage/taktician/tak"
)

var bothColors = []tak.Color{tak.White, tak.Black}

func emptyBoard(size int) [][]tak.Square {
	b := make([][]tak.Square, size)
	for y := range b {
		b[y] = make([]tak.Square, size)
	}
	return b
}

// bigCfg: reserves large enough for any board built here (reserve bytes are overridden afterwards anyway)
func bigCfg(r *RNG, size int) tak.Config {
	return tak.Config{Size: size, Pieces: 250, Capstones: 120, BlackWinsTies: r.Chance(1, 4)}
}

// fromBoard builds the position through FromSquares and then sets the reserve bytes.
func fromBoard(cfg tak.Config, board [][]tak.Square, ply int, ws, wc, bs, bc int) *tak.Position {
	p, err := tak.FromSquares(cfg, board, ply)
	if err != nil {
		panic(err)
	}
	raw := p.VerifRaw()
	raw.WS, raw.WC, raw.BS, raw.BC = byte(ws), byte(wc), byte(bs), byte(bc)
	return tak.VerifFromRaw(raw)
}

// uncoverBoard: row r belongs to the mover except for one square held by an enemy flat; directly above (or below) it the
// mover's flat sits on a stack of enemy flats too tall to be carried off whole, inside a row that is otherwise the
// enemy's.  Sliding that flat onto the enemy flat completes the mover's row and uncovers the enemy's: a double road.
func uncoverBoard(r *RNG, size int) *tak.Position {
	board := emptyBoard(size)
	mover := bothColors[r.Intn(2)]
	other := mover.Flip()
	row := r.Intn(size - 1)
	up := row + 1
	if r.Chance(1, 2) {
		row, up = up, row
	}
	gx := r.Intn(size)
	for x := 0; x < size; x++ {
		board[row][x] = tak.Square{tak.MakePiece(mover, tak.Flat)}
		board[up][x] = tak.Square{tak.MakePiece(other, tak.Flat)}
	}
	board[row][gx] = tak.Square{tak.MakePiece(other, tak.Flat)}
	h := size + 1 + r.Intn(3)
	st := make(tak.Square, h)
	st[0] = tak.MakePiece(mover, tak.Flat)
	for j := 1; j < h; j++ {
		st[j] = tak.MakePiece(other, tak.Flat)
	}
	board[up][gx] = st
	ply := 2 * (2 + r.Intn(30))
	if mover == tak.Black {
		ply++
	}
	cfg := tak.Config{Size: size, Pieces: 250, Capstones: 120, BlackWinsTies: r.Chance(1, 2)}
	return fromBoard(cfg, board, ply, 5+r.Intn(20), r.Intn(2), 5+r.Intn(20), r.Intn(2))
}

// stackOf: a stack of height h with the given top and captives chosen by mode
// (0 all own colour = hard, 1 all other colour = soft, 2 alternating, 3 random).
func stackOf(r *RNG, top tak.Piece, h int, mode int) tak.Square {
	sq := make(tak.Square, h)
	sq[0] = top
	for j := 1; j < h; j++ {
		c := top.Color()
		switch mode {
		case 1:
			c = c.Flip()
		case 2:
			if j%2 == 1 {
				c = c.Flip()
			}
		case 3:
			if r.Chance(1, 2) {
				c = c.Flip()
			}
		}
		sq[j] = tak.MakePiece(c, tak.Flat)
	}
	return sq
}

func randKind(r *RNG, capPct, wallPct int) tak.Kind {
	x := r.Intn(100)
	switch {
	case x < capPct:
		return tak.Capstone
	case x < capPct+wallPct:
		return tak.Standing
	}
	return tak.Flat
}

// extremalBoard: feature-maximising boards, per size. Returns a tag for the distribution.
func extremalBoard(r *RNG, size int) (*tak.Position, string) {
	board := emptyBoard(size)
	cfg := bigCfg(r, size)
	ply := 2 + r.Intn(400)
	tag := ""
	holes := r.Intn(3) // squares left empty so that the game need not be over
	switch r.Intn(8) {
	case 0: // full board of flats of one colour / two colours in halves / checkerboard
		tag = "ext.flats"
		mode := r.Intn(4)
		for y := 0; y < size; y++ {
			for x := 0; x < size; x++ {
				c := tak.White
				switch mode {
				case 1:
					c = tak.Black
				case 2:
					if (x+y)%2 == 1 {
						c = tak.Black
					}
				case 3:
					c = bothColors[r.Intn(2)]
				}
				board[y][x] = tak.Square{tak.MakePiece(c, tak.Flat)}
			}
		}
	case 1: // capstone-topped (and wall-/flat-topped) tall stacks everywhere
		tag = "ext.tallcaps"
		mode := r.Intn(4)
		side := r.Intn(3)
		for y := 0; y < size; y++ {
			for x := 0; x < size; x++ {
				c := bothColors[(x+y)%2]
				if side < 2 {
					c = bothColors[side]
				}
				h := 2 + r.Intn(63)
				if r.Chance(1, 2) {
					h = 64
				}
				board[y][x] = stackOf(r, tak.MakePiece(c, randKind(r, 60, 20)), h, mode)
			}
		}
	case 2: // maximal group count: dominoes of alternating colours, no two same-coloured dominoes adjacent
		tag = "ext.dominoes"
		for y := 0; y < size; y++ {
			for x := 0; x < size; x++ {
				c := bothColors[((x/2)+y)%2]
				board[y][x] = tak.Square{tak.MakePiece(c, tak.Flat)}
			}
		}
		if r.Chance(1, 2) { // same colour dominoes separated by walls of the other colour
			for y := 0; y < size; y++ {
				for x := 0; x < size; x++ {
					if ((x/2)+y)%2 == 1 {
						board[y][x] = tak.Square{tak.MakePiece(tak.Black, tak.Standing)}
					}
				}
			}
		}
	case 3: // combs: many simultaneous placement threats (rows one square short of the far edge)
		tag = "ext.combs"
		col := bothColors[r.Intn(2)]
		vertical := r.Chance(1, 2)
		for a := 0; a < size; a += 2 {
			gap := 0
			switch r.Intn(3) {
			case 1:
				gap = size - 1
			case 2:
				gap = r.Intn(size)
			}
			for b := 0; b < size; b++ {
				if b == gap {
					continue
				}
				if vertical {
					board[b][a] = tak.Square{tak.MakePiece(col, tak.Flat)}
				} else {
					board[a][b] = tak.Square{tak.MakePiece(col, tak.Flat)}
				}
			}
		}
		// enemy flats / own loose flats in the free rows: slide threats
		for a := 1; a < size; a += 2 {
			for b := 0; b < size; b++ {
				if r.Chance(1, 2) {
					continue
				}
				pc := tak.MakePiece(bothColors[r.Intn(2)], randKind(r, 5, 15))
				if vertical {
					board[b][a] = tak.Square{pc}
				} else {
					board[a][b] = tak.Square{pc}
				}
			}
		}
		if col == tak.White {
			ply &^= 1
		} else {
			ply |= 1
		}
		if r.Chance(1, 4) {
			ply ^= 1
		}
		holes = 0
	case 4: // all walls / all capstones (no road pieces, maximal wall and cap counts)
		tag = "ext.walls"
		k := []tak.Kind{tak.Standing, tak.Capstone}[r.Intn(2)]
		for y := 0; y < size; y++ {
			for x := 0; x < size; x++ {
				h := 1
				if r.Chance(1, 3) {
					h = 1 + r.Intn(12)
				}
				board[y][x] = stackOf(r, tak.MakePiece(bothColors[r.Intn(2)], k), h, 3)
			}
		}
	case 5: // alternating hard/soft captives under flats: stacks of height size+1 .. 64, throw range maximal
		tag = "ext.captives"
		mode := r.Intn(4)
		for y := 0; y < size; y++ {
			for x := 0; x < size; x++ {
				if r.Chance(1, 6) {
					continue
				}
				h := size + 1 + r.Intn(64-size)
				board[y][x] = stackOf(r, tak.MakePiece(bothColors[r.Intn(2)], randKind(r, 10, 10)), h, mode)
			}
		}
		holes = 0
	case 6: // one colour controls everything: flats of one colour with isolated enemy walls
		tag = "ext.control"
		col := bothColors[r.Intn(2)]
		for y := 0; y < size; y++ {
			for x := 0; x < size; x++ {
				switch {
				case (x+y)%2 == 0:
					board[y][x] = tak.Square{tak.MakePiece(col, tak.Flat)}
				case r.Chance(1, 5):
					board[y][x] = tak.Square{tak.MakePiece(col.Flip(), tak.Standing)}
				}
			}
		}
		holes = 0
	default: // every square a capstone stack with a hard top (own flat directly beneath) and full mobility height
		tag = "ext.hardcaps"
		col := bothColors[r.Intn(2)]
		for y := 0; y < size; y++ {
			for x := 0; x < size; x++ {
				if (x+y)%3 == 0 {
					board[y][x] = stackOf(r, tak.MakePiece(col, tak.Capstone), 2+r.Intn(20), 0)
				} else if r.Chance(1, 2) {
					board[y][x] = tak.Square{tak.MakePiece(col.Flip(), tak.Flat)}
				}
			}
		}
		holes = 0
	}
	for k := 0; k < holes; k++ {
		board[r.Intn(size)][r.Intn(size)] = nil
	}
	res := func() int {
		switch x := r.Intn(40); {
		case x < 10:
			return 0
		case x < 20:
			return 1
		case x < 21:
			return 255 // a byte sum of exactly 256 wraps in the unfixed GameOver (known finding): keep it rare
		}
		return r.Intn(60)
	}
	ws, wc, bs, bc := 1+res(), res(), 1+res(), res()
	if r.Chance(1, 6) {
		ws, wc = res(), res()
	}
	return fromBoard(cfg, board, ply, ws&255, wc&255, bs&255, bc&255), tag
}

var bigPlies = []int{200, 500, 999, 10000, 100000, 1000000, 1999999, 2000000}

// beyond the bound the theorem needs (terminal value drifts back into the undecided range): eval equality only
var hugePlies = []int{2000001, 2600000, 2684000, 2684400, 2684500, 2700000, 3000000, 8000000, 8100000, 10000000, 1000000000}

// finishedGame: a finished position (road, full board, or a reserve run out) at the given ply.
func finishedGame(r *RNG, size int, ply int) (*tak.Position, string) {
	cfg := bigCfg(r, size)
	switch r.Intn(3) {
	case 0:
		p := roadBoard(r, size)
		raw := p.VerifRaw()
		raw.Move = ply
		raw.WS, raw.BS = byte(r.Intn(256)), byte(r.Intn(256))
		if r.Chance(1, 2) {
			raw.WS, raw.BS = byte(1+r.Intn(50)), byte(1+r.Intn(50))
		}
		return tak.VerifFromRaw(raw), "fin.roadboard"
	case 1:
		board := emptyBoard(size)
		for y := 0; y < size; y++ {
			for x := 0; x < size; x++ {
				h := 1
				if r.Chance(1, 4) {
					h = 1 + r.Intn(10)
				}
				board[y][x] = stackOf(r, tak.MakePiece(bothColors[r.Intn(2)], randKind(r, 5, 20)), h, 3)
			}
		}
		return fromBoard(cfg, board, ply, r.Intn(256), r.Intn(3), r.Intn(256), r.Intn(3)), "fin.full"
	default:
		board := emptyBoard(size)
		for y := 0; y < size; y++ {
			for x := 0; x < size; x++ {
				if r.Chance(1, 2) {
					board[y][x] = tak.Square{tak.MakePiece(bothColors[r.Intn(2)], randKind(r, 5, 30))}
				}
			}
		}
		ws, wc, bs, bc := r.Intn(256), r.Intn(3), r.Intn(256), r.Intn(3)
		if r.Chance(1, 2) {
			ws, wc = 0, 0
		} else {
			bs, bc = 0, 0
		}
		return fromBoard(cfg, board, ply, ws, wc, bs, bc), "fin.reserves"
	}
}

// rawState: any bitboards within the mask (overlaps allowed), any uint8 heights, any stack words:
// the domain of the bound theorem, far outside the reachable positions.
func rawState(r *RNG, size int) *tak.Position {
	n := uint(size * size)
	mask := ^uint64(0)
	if n < 64 {
		mask = (uint64(1) << n) - 1
	}
	bits := func() uint64 {
		switch r.Intn(4) {
		case 0:
			return r.Next() & mask
		case 1:
			return r.Next() & r.Next() & mask
		case 2:
			return (r.Next() | r.Next()) & mask
		}
		return r.Next() & r.Next() & r.Next() & mask
	}
	raw := tak.VerifRaw{Size: size, Pieces: 250, Capstones: 5, BWT: r.Chance(1, 4), Move: r.Intn(500),
		WS: byte(r.Next()), WC: byte(r.Intn(3)), BS: byte(r.Next()), BC: byte(r.Intn(3))}
	raw.White, raw.Black, raw.Standing, raw.Caps = bits(), bits(), bits(), bits()
	if r.Chance(1, 2) {
		raw.Black &^= raw.White
		raw.Caps &^= raw.Standing
	}
	raw.Height = make([]uint8, n)
	raw.Stacks = make([]uint64, n)
	for i := range raw.Height {
		switch r.Intn(4) {
		case 0:
			raw.Height[i] = uint8(r.Intn(3))
		case 1:
			raw.Height[i] = uint8(r.Intn(20))
		case 2:
			raw.Height[i] = uint8(r.Next())
		default:
			raw.Height[i] = 255
		}
		raw.Stacks[i] = r.Next()
		if r.Chance(1, 3) {
			raw.Stacks[i] = ^uint64(0)
		}
	}
	return tak.VerifFromRaw(raw)
}

func randWeights(r *RNG) string {
	parts := make([]string, 36)
	sparse := r.Chance(1, 2)
	for i := range parts {
		v := 0
		if !sparse || r.Chance(1, 4) {
			v = r.Intn(2001) - 1000
		}
		parts[i] = strconv.Itoa(v)
	}
	return "c:" + strings.Join(parts, ",")
}

func absClass(out string) string {
	v, err := strconv.ParseInt(out, 10, 64)
	if err != nil {
		return "eval=" + out
	}
	if v < 0 {
		v = -v
	}
	switch {
	case v == 0:
		return "|eval|=0"
	case v < 1<<10:
		return "|eval|<2^10"
	case v < 1<<16:
		return "|eval|<2^16"
	case v < 1<<20:
		return "|eval|<2^20"
	case v < 1<<24:
		return "|eval|<2^24"
	case v <= 1<<29:
		return "|eval|<=2^29"
	case v <= 1<<30:
		return "|eval|<=2^30"
	}
	return "|eval|>2^30"
}

func genC18(c *Ctx) {
	if c.Shard == 0 {
		c.Emit("evalconsts")
		for _, s := range []string{"raw", "over6", "3", "4", "5", "6", "7", "8", "easy", "med"} {
			c.Emit("weights " + s)
		}
	}
	n := c.Scale(14000, 700000)
	for k := 0; k < n; k++ {
		size := 3 + c.R.Intn(6)
		var p *tak.Position
		inDomain := true // within the bound the terminal theorem needs (ply <= 2*10^6) and a well-formed position
		x := c.R.Intn(100)
		switch {
		case x < 35:
			p = randomPosition(c.R)
			c.Count("src.random")
		case x < 60:
			var tag string
			p, tag = extremalBoard(c.R, size)
			c.Count("src." + tag)
		case x < 70:
			var tag string
			ply := 2 + c.R.Intn(1000)
			if c.R.Chance(1, 2) {
				ply = bigPlies[c.R.Intn(len(bigPlies))] - c.R.Intn(2)
			}
			p, tag = finishedGame(c.R, size, ply)
			c.Count("src." + tag)
		case x < 74:
			var tag string
			p, tag = finishedGame(c.R, size, hugePlies[c.R.Intn(len(hugePlies))]+c.R.Intn(2))
			c.Count("src." + tag + ".hugeply")
			inDomain = false
		case x < 82:
			p = gapBoard(c.R, size, c)
			c.Count("src.gap")
		case x < 87:
			p = smallBoard(c.R, 3+c.R.Intn(3))
			c.Count("src.smallboard")
		case x < 92:
			p = roadBoard(c.R, size)
			c.Count("src.roadboard")
		default:
			p = rawState(c.R, size)
			c.Count("src.rawstate")
			inDomain = false
		}
		classifyPos(c, p)
		tok := encPos(p)
		out := c.Emit("eval " + tok)
		c.Count(absClass(out))
		// MinimaxAI.Evaluate on the run-long engine of this size; and the same board under other rules of the game (a side
		// out of pieces -> finished; the tie-break flag flipped), before or after it, on the same engine
		if inDomain {
			twin := p.VerifRaw()
			switch c.R.Intn(3) {
			case 0:
				twin.WS, twin.WC = 0, 0
			case 1:
				twin.BS, twin.BC = 0, 0
			default:
				twin.BWT = !twin.BWT
			}
			ttok := encPos(tak.VerifFromRaw(twin))
			if c.R.Chance(1, 4) {
				// right after a search on the same engine whose context has ended since
				c.Emit("evalmm " + tok + " s")
				c.Emit("evalmm " + ttok)
				c.Count("evalmm.after-search")
			} else if c.R.Chance(1, 2) {
				c.Emit("evalmm " + tok)
				c.Emit("evalmm " + ttok)
			} else {
				c.Emit("evalmm " + ttok)
				c.Emit("evalmm " + tok)
			}
			c.Count("evalmm.twin")
		} else {
			c.Emit("evalmm " + tok)
		}
		if over, _ := p.GameOver(); !over && inDomain {
			c.Count("undecided, well-formed: " + absClass(out))
		}
		if inDomain {
			c.Count("check.default=" + c.Emit("evalcheck default "+tok))
			if c.R.Chance(1, 3) {
				// the hypotheses of the rule-book form of the theorems (C02's WFBoard and ReservesOK)
				c.Count("rulebook-hypotheses=" + c.Emit("wfb "+dumpPos(p)))
			}
		}
		switch c.R.Intn(6) {
		case 0:
			c.Emit("evalw easy " + tok)
			if inDomain {
				c.Count("check.easy=" + c.Emit("evalcheck easy "+tok))
			}
		case 1:
			c.Emit("evalw med " + tok)
			if inDomain {
				c.Count("check.med=" + c.Emit("evalcheck med "+tok))
			}
		case 2:
			w := randWeights(c.R)
			c.Emit("evalw " + w + " " + tok)
			if c.R.Chance(1, 3) {
				c.Emit("evalparts " + w + " " + tok)
			}
		case 3:
			c.Emit("evalwinner " + tok)
			c.Count("check.winner=" + c.Emit("evalcheck winner "+tok))
		case 4:
			c.Emit("control " + tok)
			c.Emit("threats " + tok)
			c.Emit("evalterm default " + tok)
		default:
			i := c.R.Intn(p.Size() * p.Size())
			h := c.R.Intn(12) - 1
			c.Emit("mobility " + tok + " " + strconv.Itoa(i) + " " + strconv.Itoa(h))
			r := p.VerifRaw()
			gs := append(append([]uint64{}, r.WG...), r.BG...)
			if len(gs) > 0 {
				c.Emit("dims " + strconv.Itoa(p.Size()) + " " + strconv.FormatUint(gs[c.R.Intn(len(gs))], 10))
			}
		}
	}
}

// ---------------------------------------------------------------------------------------------
// C19: gap geometry

// gapBoard: the mover is one square short of a road. A random edge-to-edge walk of the mover's
// colour with one square of it (the gap) taken out; the gap holds nothing / an enemy flat (stack) /
// a wall / a capstone; the squares next to the gap hold every kind of filler, including own flats
// that belong to the walk itself; reserves of both sides at 0/1/many.
func gapBoard(r *RNG, size int, c *Ctx) *tak.Position {
	board := emptyBoard(size)
	mover := bothColors[r.Intn(2)]
	other := mover.Flip()
	horizontal := r.Chance(1, 2)
	x, y := 0, r.Intn(size)
	if !horizontal {
		x, y = r.Intn(size), 0
	}
	var path [][2]int
	seen := map[[2]int]bool{}
	for {
		if !seen[[2]int{x, y}] {
			path = append(path, [2]int{x, y})
			seen[[2]int{x, y}] = true
		}
		if horizontal && x == size-1 || !horizontal && y == size-1 {
			break
		}
		d := r.Intn(5)
		nx, ny := x, y
		if horizontal {
			switch d {
			case 0, 1, 2:
				nx++
			case 3:
				ny++
			case 4:
				ny--
			}
		} else {
			switch d {
			case 0, 1, 2:
				ny++
			case 3:
				nx++
			case 4:
				nx--
			}
		}
		if nx < 0 || ny < 0 || nx >= size || ny >= size {
			continue
		}
		x, y = nx, ny
	}
	capUsed := false
	for _, sq := range path {
		k := tak.Flat
		if !capUsed && r.Chance(1, 10) {
			k = tak.Capstone
			capUsed = true
		}
		h := 1
		if r.Chance(1, 6) {
			h = 2 + r.Intn(6)
		}
		board[sq[1]][sq[0]] = stackOf(r, tak.MakePiece(mover, k), h, 3)
	}
	// the gap
	gi := r.Intn(len(path))
	switch r.Intn(4) {
	case 0:
		gi = 0
	case 1:
		gi = len(path) - 1
	}
	gx, gy := path[gi][0], path[gi][1]
	gapKind := r.Intn(10)
	switch {
	case gapKind < 4:
		board[gy][gx] = nil
		c.Count("gap.empty")
	case gapKind < 7:
		h := 1
		if r.Chance(1, 3) {
			h = 2 + r.Intn(8)
		}
		if size == 8 && r.Chance(1, 3) {
			// a tower in the gap (Tak has no height limit; the 64-bit stack word holds the top 64 stones only): the
			// slide onto it is as legal, and as winning, as onto a single flat
			h = 56 + r.Intn(16)
			c.Count("gap.enemyflat.tower~" + strconv.Itoa(h/4*4))
		}
		board[gy][gx] = stackOf(r, tak.MakePiece(other, tak.Flat), h, 3)
		c.Count("gap.enemyflat")
	case gapKind < 8:
		board[gy][gx] = tak.Square{tak.MakePiece(bothColors[r.Intn(2)], tak.Standing)}
		c.Count("gap.wall")
	case gapKind < 9:
		board[gy][gx] = tak.Square{tak.MakePiece(other, tak.Capstone)}
		c.Count("gap.enemycap")
	default:
		board[gy][gx] = stackOf(r, tak.MakePiece(mover, tak.Standing), 1+r.Intn(4), 3)
		c.Count("gap.ownwall")
	}
	// fillers next to the gap (not on the walk)
	for _, d := range [][2]int{{1, 0}, {-1, 0}, {0, 1}, {0, -1}} {
		fx, fy := gx+d[0], gy+d[1]
		if fx < 0 || fy < 0 || fx >= size || fy >= size || seen[[2]int{fx, fy}] {
			continue
		}
		switch r.Intn(9) {
		case 0, 1:
			// empty
		case 2, 3:
			h := 1
			if r.Chance(1, 2) {
				h = 2 + r.Intn(5) // own flat on top of a stack: sliding it uncovers what is beneath
			}
			board[fy][fx] = stackOf(r, tak.MakePiece(mover, tak.Flat), h, 3)
			c.Count("filler.ownflat")
		case 4:
			board[fy][fx] = tak.Square{tak.MakePiece(mover, tak.Standing)}
			c.Count("filler.ownwall")
		case 5:
			board[fy][fx] = stackOf(r, tak.MakePiece(mover, tak.Capstone), 1+r.Intn(3), 3)
			c.Count("filler.owncap")
		case 6:
			board[fy][fx] = tak.Square{tak.MakePiece(other, tak.Flat)}
			c.Count("filler.enemyflat")
		case 7:
			board[fy][fx] = tak.Square{tak.MakePiece(other, tak.Standing)}
			c.Count("filler.enemywall")
		default:
			board[fy][fx] = tak.Square{tak.MakePiece(other, tak.Capstone)}
			c.Count("filler.enemycap")
		}
	}
	// the rest of the board: sparse noise, sometimes an almost-road of the opponent under own flats (pinned)
	fill := r.Intn(60)
	for yy := 0; yy < size; yy++ {
		for xx := 0; xx < size; xx++ {
			if board[yy][xx] != nil || seen[[2]int{xx, yy}] || (abs(xx-gx)+abs(yy-gy) == 1) {
				continue
			}
			if r.Intn(100) < fill {
				col := bothColors[r.Intn(2)]
				h := 1
				if r.Chance(1, 5) {
					h = 2 + r.Intn(4)
				}
				board[yy][xx] = stackOf(r, tak.MakePiece(col, randKind(r, 4, 20)), h, 3)
			}
		}
	}
	if r.Chance(1, 5) {
		// pinned: a line of the opponent parallel to the walk, right beside the gap, covered there by an own
		// flat: sliding that flat into the gap completes the opponent's road as well (the mover still wins)
		line := gy + 1 - 2*r.Intn(2)
		if !horizontal {
			line = gx + 1 - 2*r.Intn(2)
		}
		if line >= 0 && line < size {
			for i := 0; i < size; i++ {
				xx, yy := i, line
				if !horizontal {
					xx, yy = line, i
				}
				if seen[[2]int{xx, yy}] || (xx == gx && yy == gy) {
					continue
				}
				if abs(xx-gx)+abs(yy-gy) == 1 {
					board[yy][xx] = tak.Square{tak.MakePiece(mover, tak.Flat), tak.MakePiece(other, tak.Flat)}
				} else {
					board[yy][xx] = tak.Square{tak.MakePiece(other, tak.Flat)}
				}
			}
			c.Count("gap.pinnedline")
		}
	}
	ply := 2 + r.Intn(80)
	if r.Chance(1, 25) {
		ply = r.Intn(2)
		c.Count("gap.opening")
	}
	if (mover == tak.White) != (ply%2 == 0) {
		ply++
	}
	if r.Chance(1, 10) {
		ply++ // the other side is to move: its threat counts are reported, not the walker's
	}
	res := func() int {
		switch r.Intn(5) {
		case 0, 1:
			return 0
		case 2:
			return 1
		}
		return 1 + r.Intn(30)
	}
	ws, wc, bs, bc := res(), res(), res(), res()
	if r.Chance(3, 4) {
		// keep the game going: both sides own something
		if ws+wc == 0 {
			if r.Chance(1, 2) {
				ws = 1
			} else {
				wc = 1
			}
		}
		if bs+bc == 0 {
			if r.Chance(1, 2) {
				bs = 1
			} else {
				bc = 1
			}
		}
	}
	c.Count("gap.reserves.mover=" + map[bool]string{true: "flats", false: "noflats"}[(mover == tak.White && ws > 0) || (mover == tak.Black && bs > 0)])
	return fromBoard(bigCfg(r, size), board, ply, ws, wc, bs, bc)
}

func abs(x int) int {
	if x < 0 {
		return -x
	}
	return x
}

// twoGroups: two groups of the mover on opposite edges with a one-square junction between them.
func junctionBoard(r *RNG, size int, c *Ctx) *tak.Position {
	board := emptyBoard(size)
	mover := bothColors[r.Intn(2)]
	other := mover.Flip()
	vertical := r.Chance(1, 2)
	put := func(a, b int, sq tak.Square) { // a along the road direction, b across
		if vertical {
			board[a][b] = sq
		} else {
			board[b][a] = sq
		}
	}
	row := r.Intn(size)
	gap := 1 + r.Intn(size-2)
	for a := 0; a < size; a++ {
		if a == gap {
			continue
		}
		put(a, row, tak.Square{tak.MakePiece(mover, tak.Flat)})
	}
	// make the single squares groups (or leave them single): thicken
	if r.Chance(2, 3) {
		row2 := row + 1
		if row2 >= size || r.Chance(1, 2) && row > 0 {
			row2 = row - 1
		}
		if row2 >= 0 && row2 < size {
			for a := 0; a < size; a++ {
				if a == gap || r.Chance(1, 3) {
					continue
				}
				if abs(a-gap) == 1 && r.Chance(1, 2) {
					continue
				}
				put(a, row2, tak.Square{tak.MakePiece(mover, tak.Flat)})
			}
		}
	}
	switch r.Intn(5) {
	case 0, 1:
	case 2:
		put(gap, row, tak.Square{tak.MakePiece(other, tak.Flat)})
	case 3:
		put(gap, row, tak.Square{tak.MakePiece(other, tak.Standing)})
	default:
		put(gap, row, tak.Square{tak.MakePiece(other, tak.Flat), tak.MakePiece(mover, tak.Flat)})
	}
	for yy := 0; yy < size; yy++ {
		for xx := 0; xx < size; xx++ {
			if board[yy][xx] == nil && r.Chance(1, 4) {
				board[yy][xx] = tak.Square{tak.MakePiece(bothColors[r.Intn(2)], randKind(r, 5, 25))}
			}
		}
	}
	ply := 2 + r.Intn(60)
	if (mover == tak.White) != (ply%2 == 0) {
		ply++
	}
	res := func() int { return []int{0, 1, 1, 5}[r.Intn(4)] }
	ws, wc, bs, bc := res(), res(), res(), res()
	if ws+wc == 0 {
		wc = 1
	}
	if bs+bc == 0 {
		bs = 1
	}
	return fromBoard(bigCfg(r, size), board, ply, ws, wc, bs, bc)
}

// smallBoard: a dense random 3x3 / 4x4 / 5x5 board of single pieces (occasionally two-high stacks):
// every local geometry of gaps, junctions, walls and capstones turns up quickly at these sizes.
func smallBoard(r *RNG, size int) *tak.Position {
	board := emptyBoard(size)
	fill := 30 + r.Intn(60)
	capPct := r.Intn(12)
	wallPct := r.Intn(30)
	for y := 0; y < size; y++ {
		for x := 0; x < size; x++ {
			if r.Intn(100) >= fill {
				continue
			}
			col := bothColors[r.Intn(2)]
			h := 1
			if r.Chance(1, 8) {
				h = 2 + r.Intn(3)
			}
			board[y][x] = stackOf(r, tak.MakePiece(col, randKind(r, capPct, wallPct)), h, 3)
		}
	}
	ply := 2 + r.Intn(40)
	res := func() int { return []int{0, 1, 1, 2, 7}[r.Intn(5)] }
	ws, wc, bs, bc := res(), res(), res(), res()
	if ws+wc == 0 {
		ws = 1
	}
	if bs+bc == 0 {
		bc = 1
	}
	return fromBoard(bigCfg(r, size), board, ply, ws, wc, bs, bc)
}

// enum3: the k-th 3x3 board over {empty, white flat, black flat, white wall, black wall} (5^9 boards).
func enum3(k int, ply int) *tak.Position {
	board := emptyBoard(3)
	pcs := []tak.Piece{0, tak.MakePiece(tak.White, tak.Flat), tak.MakePiece(tak.Black, tak.Flat),
		tak.MakePiece(tak.White, tak.Standing), tak.MakePiece(tak.Black, tak.Standing)}
	for i := 0; i < 9; i++ {
		d := k % 5
		k /= 5
		if d != 0 {
			board[i/3][i%3] = tak.Square{pcs[d]}
		}
	}
	return fromBoard(tak.Config{Size: 3, Pieces: 250, Capstones: 120}, board, ply, 3, 0, 3, 0)
}

func genC19(c *Ctx) {
	if c.Thorough() {
		// every 3x3 board of flats and walls, both sides to move (5^9 = 1953125 boards, split over the shards)
		total := 1953125
		for k := c.Shard; k < total; k += c.NShard {
			p := enum3(k, 2+k%2)
			if over, _ := p.GameOver(); over {
				continue
			}
			tok := encPos(p)
			c.Emit("threats " + tok)
			c.Count("enum3.threatreal=" + strings.Fields(c.Emit("threatreal "+tok) + " x")[0])
		}
	}
	n := c.Scale(12000, 600000)
	for k := 0; k < n; k++ {
		size := 3 + c.R.Intn(6)
		if c.R.Chance(1, 3) {
			size = 3 + c.R.Intn(3)
		}
		var p *tak.Position
		for try := 0; ; try++ {
			src := ""
			x := c.R.Intn(100)
			switch {
			case x < 40:
				p = gapBoard(c.R, size, c)
				src = "src.gap"
			case x < 53:
				p = junctionBoard(c.R, size, c)
				src = "src.junction"
			case x < 63:
				p = roadBoard(c.R, size)
				src = "src.roadboard"
			case x < 70:
				p, src = extremalBoard(c.R, size)
				src = "src." + src
			case x < 84:
				p = smallBoard(c.R, 3+c.R.Intn(3))
				src = "src.smallboard"
			case x < 88:
				// the mover's only road-completing move uncovers a road of the other colour (double road: the mover wins,
				// whatever the tie-break flag says)
				p = uncoverBoard(c.R, size)
				src = "src.uncover-double-road"
			case x < 92:
				// many separate road groups per colour (more than `size`, more than 2*size in all): the detector reads
				// them through Analysis()
				p = groupsBoard(c.R, size)
				src = "src.groupsboard"
			default:
				p = randomPosition(c.R)
				src = "src.random"
			}
			// finished positions are outside the claim: keep only a few of them
			if over, _ := p.GameOver(); over && try < 4 && !c.R.Chance(1, 8) {
				continue
			}
			c.Count(src)
			break
		}
		classifyPos(c, p)
		tok := encPos(p)
		c.Count("theorem-hypotheses=" + c.Emit("c19hyp "+tok))
		out := c.Emit("threats " + tok)
		f := strings.Fields(out)
		if len(f) == 4 {
			mine := atoi(f[0]) + atoi(f[1])
			if p.ToMove() == tak.Black {
				mine = atoi(f[2]) + atoi(f[3])
			}
			switch {
			case mine == 0:
				c.Count("mover.count=0")
			case mine == 1:
				c.Count("mover.count=1")
			default:
				c.Count("mover.count>1")
			}
		}
		res := c.Emit("threatreal " + tok)
		c.Count("threatreal=" + strings.Fields(res + " x")[0])
		if ms := legalMoves(p); len(ms) > 0 && c.R.Chance(1, 3) {
			c.Count("threatstack=" + clip(c.Emit("threatstack "+tok+" "+encMove(ms[c.R.Intn(len(ms))])+" "+encMove(ms[c.R.Intn(len(ms))])), 3))
			c.Emit("threatclone " + tok + " " + encMove(ms[c.R.Intn(len(ms))]) + " " + encMove(ms[c.R.Intn(len(ms))]))
		}
		if c.R.Chance(1, 4) || strings.HasPrefix(res, "ok") && c.R.Chance(1, 2) {
			c.Emit("sthreatreal " + tok)
		}
		if c.R.Chance(1, 5) {
			w := c.Emit("roadwin1 " + tok)
			if res == "none" && w == "1" {
				c.Count("undercount(win exists, count 0)")
			}
		}
	}
}

func init() {
	genTable["C18"] = genC18
	genTable["C19"] = genC19
}
