package main

import (
	"strconv"
	"strings"

	"github.com/nelhage/taktician/playtak"
	"github.com/nelhage/taktician/ptn"
	"github.com/nelhage/taktician/tak"
)

// ---------------------------------------------------------------- C11: exhaustive move notations

// compositions returns every sequence of drops (each >= 1) with sum <= maxSum and length <= maxLen.
func compositions(maxSum, maxLen int) [][]int {
	var out [][]int
	var rec func(cur []int, sum int)
	rec = func(cur []int, sum int) {
		if len(cur) > 0 {
			out = append(out, append([]int(nil), cur...))
		}
		if len(cur) == maxLen {
			return
		}
		for d := 1; sum+d <= maxSum; d++ {
			rec(append(cur, d), sum+d)
		}
	}
	rec(nil, 0)
	return out
}

// legalShapes enumerates every move shape that can be legal on a size x size board.
func legalShapes(size int) []tak.Move {
	var out []tak.Move
	for x := 0; x < size; x++ {
		for y := 0; y < size; y++ {
			for _, t := range []tak.MoveType{tak.PlaceFlat, tak.PlaceStanding, tak.PlaceCapstone} {
				out = append(out, tak.Move{X: int8(x), Y: int8(y), Type: t})
			}
			dirs := []struct {
				t tak.MoveType
				d int
			}{{tak.SlideLeft, x}, {tak.SlideRight, size - 1 - x}, {tak.SlideDown, y}, {tak.SlideUp, size - 1 - y}}
			for _, dd := range dirs {
				for _, c := range compositions(size, dd.d) {
					out = append(out, tak.Move{X: int8(x), Y: int8(y), Type: dd.t, Slides: tak.MkSlides(c...)})
				}
			}
		}
	}
	return out
}

var annotChars = "!?'*"

func annotSuffixes() []string {
	out := []string{""}
	for i := 0; i < len(annotChars); i++ {
		out = append(out, annotChars[i:i+1])
	}
	for i := 0; i < len(annotChars); i++ {
		for j := 0; j < len(annotChars); j++ {
			out = append(out, annotChars[i:i+1]+annotChars[j:j+1])
		}
	}
	return out
}

func genC11(c *Ctx) {
	sfx := annotSuffixes()
	k := 0
	for size := 3; size <= 8; size++ {
		sz := strconv.Itoa(size)
		if size%c.NShard == c.Shard {
			c.Emit("shapecount " + sz)
		}
		for _, m := range legalShapes(size) {
			k++
			if k%c.NShard != c.Shard {
				continue
			}
			c.Count("size" + sz)
			if m.IsSlide() {
				c.Count("slide.drops" + strconv.Itoa(m.Slides.Len()))
			} else {
				c.Count("place")
			}
			mt := encMove(m)
			short := ptn.FormatMove(m)
			long := ptn.FormatMoveLong(m)
			srv := playtak.FormatServer(m)
			c.Emit("shape " + sz + " " + mt)
			c.Emit("fmtmove " + mt)
			c.Emit("fmtmovelong " + mt)
			c.Emit("fmtserver " + mt)
			c.Emit("parsemove " + hexOf(short))
			c.Emit("parsemove " + hexOf(long))
			c.Emit("parseserver " + hexOf(srv))
			if out := c.Emit("rtmove " + sz + " " + mt); out != "ok" {
				c.Count("RT-FAIL")
			}
			if short != long {
				c.Count("short!=long")
			}
			// annotation suffixes: once per distinct move (the size-8 set contains every smaller one)
			if size == 8 {
				for _, s := range sfx[1:] {
					c.Emit("parsemove " + hexOf(short+s))
					c.Emit("parsemove " + hexOf(long+s))
				}
				// longer suffixes (the theorem is for any length): the longest annotations PTN writes
				// and a few random ones of length 3..9 per move
				for _, s := range []string{"*''!!", "*'??", "''!?", "*''?!", "'!!", "*!?"} {
					c.Emit("parsemove " + hexOf(short+s))
					c.Emit("parsemove " + hexOf(long+s))
				}
				for j := 0; j < 3; j++ {
					n := 3 + c.R.Intn(7)
					b := make([]byte, n)
					for q := range b {
						b[q] = annotChars[c.R.Intn(len(annotChars))]
					}
					c.Emit("parsemove " + hexOf(short+string(b)))
					c.Emit("parsemove " + hexOf(long+string(b)))
					c.Count("suffix.len" + strconv.Itoa(n))
				}
			}
		}
	}
	// raw move values beyond the legal shapes through the three formatters (outside the claim of the
	// theorems; keeps the formatter models honest about int8/uint8 wrap-around and odd type codes)
	n := c.Scale(8000, 400000)
	for i := 0; i < n; i++ {
		size := 3 + c.R.Intn(6)
		m := rawMove(c.R, size)
		mt := encMove(m)
		c.Count("rawmove")
		c.Count("rawmove.shape=" + c.Emit("shape "+strconv.Itoa(size)+" "+mt))
		c.Emit("fmtmove " + mt)
		c.Emit("fmtmovelong " + mt)
		c.Emit("fmtserver " + mt)
		c.Emit("parsemove " + hexOf(ptn.FormatMove(m)))
		c.Emit("parseserver " + hexOf(playtak.FormatServer(m)))
	}
}

// ---------------------------------------------------------------- C10: TPS

func emitTPSPos(c *Ctx, p *tak.Position, src string) {
	c.Count("src." + src)
	classifyPos(c, p)
	tok := encPos(p)
	if c.R.Chance(1, 6) {
		// a caller that reads the board through At and writes into what it got back, before the formatter reads it
		c.Emit("acc " + tok)
		c.Count("acc-before-tps")
	}
	out := c.Emit("tps " + tok)
	if out != "panic" {
		c.Emit("parsetps " + out)
	}
	hyp := c.Emit("tpshyp " + tok)
	rt := c.Emit("rttps " + tok)
	c.Count("hyp=" + hyp + ".rt=" + strings.Fields(rt + " x")[0])
}

func mkStack(r *RNG, h int, top tak.Kind) tak.Square {
	sq := make(tak.Square, h)
	cols := []tak.Color{tak.White, tak.Black}
	sq[0] = tak.MakePiece(cols[r.Intn(2)], top)
	for j := 1; j < h; j++ {
		sq[j] = tak.MakePiece(cols[r.Intn(2)], tak.Flat)
	}
	return sq
}

// textFromBoard builds the position with the default configuration when the board fits the default
// piece counts, otherwise with just enough pieces.
func textFromBoard(board [][]tak.Square, ply int) *tak.Position {
	size := len(board)
	var cnt, caps [2]int
	for _, row := range board {
		for _, sq := range row {
			for _, pc := range sq {
				i := 0
				if pc.Color() == tak.Black {
					i = 1
				}
				if pc.Kind() == tak.Capstone {
					caps[i]++
				} else {
					cnt[i]++
				}
			}
		}
	}
	cfg := tak.Config{Size: size}
	if cnt[0] > defaultPieces[size] || cnt[1] > defaultPieces[size] {
		cfg.Pieces = cnt[0]
		if cnt[1] > cfg.Pieces {
			cfg.Pieces = cnt[1]
		}
	}
	if caps[0] > defaultCaps[size] || caps[1] > defaultCaps[size] {
		cfg.Capstones = caps[0]
		if caps[1] > cfg.Capstones {
			cfg.Capstones = caps[1]
		}
	}
	p, err := tak.FromSquares(cfg, board, ply)
	if err != nil {
		panic(err)
	}
	return p
}

func textEmptyBoard(size int) [][]tak.Square {
	b := make([][]tak.Square, size)
	for y := range b {
		b[y] = make([]tak.Square, size)
	}
	return b
}

func randPly(r *RNG) int {
	switch x := r.Intn(10); {
	case x < 2:
		return r.Intn(3)
	case x < 8:
		return r.Intn(200)
	case x < 9:
		return r.Intn(1 << 20)
	default:
		return int(r.Next() >> 2) // up to 2^62
	}
}

// a random canonical TPS string straight from the grammar (not through the formatter)
func canonicalTPSString(r *RNG) string {
	size := 3 + r.Intn(6)
	rows := make([]string, size)
	for y := range rows {
		var cells []string
		x := 0
		lastEmpty := false
		for x < size {
			if !lastEmpty && r.Chance(1, 2) {
				n := 1 + r.Intn(size-x)
				if n == 1 {
					cells = append(cells, "x")
				} else {
					cells = append(cells, "x"+strconv.Itoa(n))
				}
				x += n
				lastEmpty = true
				continue
			}
			h := randHeight(r, true)
			var b strings.Builder
			for j := 0; j < h; j++ {
				b.WriteByte("12"[r.Intn(2)])
			}
			switch r.Intn(4) {
			case 0:
				b.WriteByte('S')
			case 1:
				b.WriteByte('C')
			}
			cells = append(cells, b.String())
			x++
			lastEmpty = false
		}
		rows[y] = strings.Join(cells, ",")
	}
	num := 1 + randPly(r)/2
	if r.Chance(1, 20) {
		num = 1 << 62
	}
	return strings.Join(rows, "/") + " " + "12"[r.Intn(2):][:1] + " " + strconv.Itoa(num)
}

func genC10(c *Ctx) {
	r := c.R
	// (a) shared position sources
	n := c.Scale(9000, 400000)
	for k := 0; k < n; k++ {
		emitTPSPos(c, randomPosition(r), "random")
	}
	// (b) every pattern of empty/occupied squares of a row, in every row, sizes 3..8
	idx := 0
	for size := 3; size <= 8; size++ {
		for y := 0; y < size; y++ {
			for mask := 0; mask < 1<<uint(size); mask++ {
				idx++
				if idx%c.NShard != c.Shard {
					continue
				}
				board := textEmptyBoard(size)
				for x := 0; x < size; x++ {
					if mask&(1<<uint(x)) != 0 {
						board[y][x] = mkStack(r, 1+r.Intn(3), []tak.Kind{tak.Flat, tak.Standing, tak.Flat}[r.Intn(3)])
					}
				}
				// the other rows: sparse random
				for yy := 0; yy < size; yy++ {
					if yy == y {
						continue
					}
					for x := 0; x < size; x++ {
						if r.Chance(1, 4) {
							board[yy][x] = mkStack(r, 1, tak.Flat)
						}
					}
				}
				emitTPSPos(c, textFromBoard(board, randPly(r)), "rowpattern")
			}
		}
	}
	// (c) stacks of every height 1..64 with every top kind at both ends of a row
	for size := 3; size <= 8; size++ {
		for h := 1; h <= 64; h++ {
			for _, kind := range []tak.Kind{tak.Flat, tak.Standing, tak.Capstone} {
				for _, x := range []int{0, size - 1} {
					idx++
					if idx%c.NShard != c.Shard {
						continue
					}
					board := textEmptyBoard(size)
					y := r.Intn(size)
					board[y][x] = mkStack(r, h, kind)
					if r.Chance(1, 2) {
						board[y][size-1-x] = mkStack(r, 1+r.Intn(64), tak.Flat)
					}
					c.Count("stackheight~" + strconv.Itoa(h/16*16))
					emitTPSPos(c, textFromBoard(board, randPly(r)), "rowend-stack")
				}
			}
		}
	}
	// (d) canonical strings drawn from the grammar: parse, and format(parse s) = s
	n = c.Scale(10000, 800000)
	for k := 0; k < n; k++ {
		s := canonicalTPSString(r)
		c.Count("src.canonical")
		c.Emit("parsetps " + hexOf(s))
		out := c.Emit("canontps " + hexOf(s))
		c.Count("canon=" + strings.Fields(out + " x")[0])
	}
	// (e) mutated strings (shared with C13)
	n = c.Scale(12000, 800000)
	for k := 0; k < n; k++ {
		var s string
		if r.Chance(1, 2) {
			s = canonicalTPSString(r)
		} else {
			s = ptn.FormatTPS(randomPosition(r))
		}
		s = mutate(r, s, tpsAlphabet, tpsTokens)
		out := c.Emit("parsetps " + hexOf(s))
		c.Count("mutated=" + strings.Fields(out + " x")[0])
	}
}

// ---------------------------------------------------------------- C13 (text part): byte streams

var specialBytes = []byte{0x00, 0x80, 0xff}

var tpsAlphabet = "x12SC,/ 0123456789+-"
var moveAlphabet = "FSC12345678abcdefgh<>+-!?*'09i`@/"
var serverAlphabet = "PM ABCDEFGH12345678CW09+-I@"

// tokens spliced in by the structure-aware mutator
var tpsTokens = []string{"", ",", ",,", "/", "//", " ", "  ", "x", "x0", "x1", "x9", "x:", "xx", "S", "C", "1S", "2C", "SS", "1SC", "C1", "12", "0", "3",
	" 1 1", " 2 1", " 0 1", " 3 1", " 1 0", " 1 -1", " +1 +1", " 1 9223372036854775807", " 1 9223372036854775808", " 1 -9223372036854775808",
	" 1 4611686018427387905", " 1 00001", " 1 1_0", " 1 0x1", "\xa0", "\x85", "\xc3\xa9", "\xef\xbb\xbf", "\xc2\xa0", "\xe2\x80\xa8", "\xf0\x9f\x98\x80", "\xc0\x80", "\xed\xa0\x80"}
var moveTokens = []string{"", "a1", "h8", "i1", "a9", "a0", "A1", "3", "9", "0", "+", "-", "<", ">", "++", "!", "?", "'", "*", "!!", "?!", "F", "S", "C", "FF", "12345678", "11111111", "111111111", "8", "88",
	"\xa0", "\x85", "\xc3\xa9", "\xef\xbb\xbf", "\xe2\x80\xa8", "\xc0\x80"}
var serverTokens = []string{"", " ", "  ", "P", "M", "P ", "M ", "A1", "H8", "I1", "A9", "A0", "a1", " C", " W", " F", " S", " 0", " 1", " 8", " 9", " -1", " +1", " -0", " 007", " 1 1 1 1 1 1 1 1 1", " 9223372036854775808",
	" 18446744073709551616", " 1_0", " 0x1", " 1e0", "\xa0", "\x85", "\xc3\xa9", "\xef\xbb\xbf", "\xe2\x80\xa8", "\xc0\x80"}

func randByte(r *RNG, alphabet string) byte {
	switch x := r.Intn(10); {
	case x < 7:
		return alphabet[r.Intn(len(alphabet))]
	case x < 8:
		return specialBytes[r.Intn(len(specialBytes))]
	default:
		return byte(r.Next())
	}
}

// mutate applies 1..3 structure-aware edits: delete / duplicate / replace / insert a byte, splice a
// token, drop or duplicate a separator, cut the string, swap two neighbours.
func mutate(r *RNG, s string, alphabet string, tokens []string) string {
	b := []byte(s)
	for k := 1 + r.Intn(3); k > 0; k-- {
		pos := 0
		if len(b) > 0 {
			pos = r.Intn(len(b) + 1)
		}
		switch r.Intn(9) {
		case 0: // delete
			if pos < len(b) {
				b = append(b[:pos:pos], b[pos+1:]...)
			}
		case 1: // duplicate
			if pos < len(b) {
				b = append(b[:pos+1:pos+1], b[pos:]...)
			}
		case 2: // replace
			if pos < len(b) {
				b[pos] = randByte(r, alphabet)
			}
		case 3: // insert
			b = append(b[:pos:pos], append([]byte{randByte(r, alphabet)}, b[pos:]...)...)
		case 4: // splice a token
			t := tokens[r.Intn(len(tokens))]
			b = append(b[:pos:pos], append([]byte(t), b[pos:]...)...)
		case 5: // drop or duplicate a separator
			var seps []int
			for i, ch := range b {
				if ch == ',' || ch == '/' || ch == ' ' {
					seps = append(seps, i)
				}
			}
			if len(seps) > 0 {
				i := seps[r.Intn(len(seps))]
				if r.Chance(1, 2) {
					b = append(b[:i:i], b[i+1:]...)
				} else {
					b = append(b[:i+1:i+1], b[i:]...)
				}
			}
		case 6: // cut
			b = b[:pos]
		case 7: // swap neighbours
			if pos+1 < len(b) {
				b[pos], b[pos+1] = b[pos+1], b[pos]
			}
		case 8: // replace a token-sized window by a token
			t := tokens[r.Intn(len(tokens))]
			end := pos + len(t)
			if end > len(b) {
				end = len(b)
			}
			b = append(b[:pos:pos], append([]byte(t), b[end:]...)...)
		}
	}
	return string(b)
}

func randomBytes(r *RNG, alphabet string) string {
	n := r.Intn(14)
	if r.Chance(1, 10) {
		n = r.Intn(300)
	}
	b := make([]byte, n)
	uniform := r.Chance(1, 2)
	for i := range b {
		if uniform {
			b[i] = byte(r.Next())
		} else {
			b[i] = randByte(r, alphabet)
		}
	}
	return string(b)
}

// shortStrings calls f on every string of length <= maxLen over alphabet ∪ specialBytes whose index is in this shard.
func shortStrings(c *Ctx, alphabet string, maxLen int, f func(s string)) {
	alpha := append([]byte(alphabet), specialBytes...)
	idx := 0
	var rec func(cur []byte)
	rec = func(cur []byte) {
		idx++
		if idx%c.NShard == c.Shard {
			f(string(cur))
		}
		if len(cur) == maxLen {
			return
		}
		for _, ch := range alpha {
			rec(append(cur, ch))
		}
	}
	rec(nil)
}

func outClass(out string) string { return strings.Fields(out + " x")[0] }

func randomLegalShape(r *RNG) tak.Move {
	size := 3 + r.Intn(6)
	ms := shapesCache[size]
	if ms == nil {
		ms = legalShapes(size)
		shapesCache[size] = ms
	}
	return ms[r.Intn(len(ms))]
}

var shapesCache = map[int][]tak.Move{}

func init() {
	for size := 3; size <= 8; size++ {
		shapesCache[size] = legalShapes(size)
	}
}

func genC13tps(c *Ctx) {
	r := c.R
	type parser struct {
		op       string
		alphabet string
		tokens   []string
		valid    func() string
	}
	sfx := annotSuffixes()
	parsers := []parser{
		{"parsemove", moveAlphabet, moveTokens, func() string {
			m := randomLegalShape(r)
			s := ptn.FormatMove(m)
			if r.Chance(1, 2) {
				s = ptn.FormatMoveLong(m)
			}
			return s + sfx[r.Intn(len(sfx))]
		}},
		{"parsetps", tpsAlphabet, tpsTokens, func() string {
			if r.Chance(1, 2) {
				return canonicalTPSString(r)
			}
			return ptn.FormatTPS(randomPosition(r))
		}},
		{"parseserver", serverAlphabet, serverTokens, func() string { return playtak.FormatServer(randomLegalShape(r)) }},
	}
	for _, p := range parsers {
		p := p
		emit := func(stream, s string) {
			out := c.Emit(p.op + " " + hexOf(s))
			c.Count(p.op + "." + stream + "." + outClass(out))
		}
		// stream 1: valid formatter outputs
		n := c.Scale(8000, 400000)
		if p.op == "parsetps" {
			n = c.Scale(4000, 200000)
		}
		for k := 0; k < n; k++ {
			emit("valid", p.valid())
		}
		// stream 2: structure-aware mutations
		n = c.Scale(40000, 2000000)
		if p.op == "parsetps" {
			n = c.Scale(24000, 1000000)
		}
		for k := 0; k < n; k++ {
			emit("mutated", mutate(r, p.valid(), p.alphabet, p.tokens))
		}
		// every single-byte deletion and duplication of some valid inputs
		n = c.Scale(200, 20000)
		for k := 0; k < n; k++ {
			s := p.valid()
			if len(s) > 60 {
				continue
			}
			for i := 0; i < len(s); i++ {
				emit("del1", s[:i]+s[i+1:])
				emit("dup1", s[:i+1]+s[i:])
			}
		}
		// stream 3: random bytes
		n = c.Scale(24000, 1500000)
		for k := 0; k < n; k++ {
			s := randomBytes(r, p.alphabet)
			if p.op == "parsetps" && r.Chance(1, 2) {
				// a random board field in front of a well-formed tail, so that parseRow is reached
				s = strings.ReplaceAll(s, " ", "/") + []string{" 1 1", " 2 1", " 1 2", " 2 40"}[r.Intn(4)]
			}
			emit("random", s)
		}
	}
	// exhaustive short strings (both tiers: cheap), also behind the shortest prefixes that reach the inner loops
	shortStrings(c, moveAlphabet, 3, func(s string) {
		c.Count("parsemove.short3")
		c.Emit("parsemove " + hexOf(s))
	})
	shortStrings(c, "<+12389!?x", 3, func(s string) {
		c.Count("parsemove.short3.afterdir")
		c.Emit("parsemove " + hexOf("3c3"+s))
		c.Emit("parsemove " + hexOf("c3"+s))
	})
	shortStrings(c, tpsAlphabet, 3, func(s string) {
		c.Count("parsetps.short3")
		c.Emit("parsetps " + hexOf(s))
	})
	shortStrings(c, "x12SC,/39", 4, func(s string) {
		out := c.Emit("parsetps " + hexOf(s+" 1 1"))
		c.Count("parsetps.short4-board." + outClass(out))
		if c.Thorough() {
			c.Emit("parsetps " + hexOf("x3/x3/"+s+" 2 7"))
		}
	})
	shortStrings(c, " 0129+-", 3, func(s string) {
		c.Count("parsetps.short3-tail")
		c.Emit("parsetps " + hexOf("x3/x3/x3 1"+s))
		c.Emit("parsetps " + hexOf("x3/x3/x3"+s+" 1"))
	})
	shortStrings(c, serverAlphabet, 3, func(s string) {
		c.Count("parseserver.short3")
		c.Emit("parseserver " + hexOf(s))
	})
	shortStrings(c, " 0189+-CW", 3, func(s string) {
		c.Count("parseserver.short3-tail")
		c.Emit("parseserver " + hexOf("M A1 B1"+s))
		c.Emit("parseserver " + hexOf("M A1 A3 1"+s))
		c.Emit("parseserver " + hexOf("P A1"+s))
		c.Emit("parseserver " + hexOf("M"+s+" A1 1"))
	})
}

func init() {
	genTable["C10"] = genC10
	genTable["C11"] = genC11
	genTable["C13tps"] = genC13tps
}
