package ai

// Access for the `fn.*` ops of the sixth batch of regenerated functions (work package gen6): the move generator's state
// machine (ai/moves.go Reset, Next).  VerifMGNext builds a bare engine and a generator holding exactly the given fields and
// runs the REAL `Next`.  Compiled in only through `go build -overlay`.

import "github.com/nelhage/taktician/tak"

// VerifMG: the fields of a moveGenerator (and of the engine behind it) that `Next` reads or assigns.
type VerifMG struct {
	NoSort   bool
	Response map[tak.Move]tak.Move
	History  map[tak.Move]int
	Frames   []tak.Move // ai.stack[i].m
	Ply      int
	Depth    int
	P        *tak.Position
	HasTE    bool
	TEM      tak.Move
	PV       []tak.Move
	R        tak.Move
	MS       []tak.Move // nil: not generated yet
	I        int
}

func (g *VerifMG) build() (*MinimaxAI, *moveGenerator) {
	m := &MinimaxAI{history: g.History, response: g.Response}
	m.Cfg.NoSort = g.NoSort
	for i := range m.stack {
		if i < len(g.Frames) {
			m.stack[i].m = g.Frames[i]
		}
	}
	f := &frame{}
	mg := &moveGenerator{ai: m, f: f, ply: g.Ply, depth: g.Depth, p: g.P, pv: g.PV, r: g.R, i: g.I}
	if g.HasTE {
		mg.te = &tableEntry{m: g.TEM}
	}
	if g.MS != nil {
		mg.ms = append(make([]tak.Move, 0, len(g.MS)+1), g.MS...)
	}
	return m, mg
}

// VerifMGNext runs the real Next once; the generator state afterwards is written back into g.
func VerifMGNext(g *VerifMG) (tak.Move, *tak.Position) {
	_, mg := g.build()
	mv, child := mg.Next()
	g.I, g.R, g.MS = mg.i, mg.r, mg.ms
	return mv, child
}

// VerifMGReset runs the real Reset and returns the generator's counter.
func VerifMGReset(i int) int {
	mg := &moveGenerator{i: i}
	mg.Reset()
	return mg.i
}

// VerifSortMoves runs the real sortMoves on a copy of ms with the given history.
func VerifSortMoves(history map[tak.Move]int, ms []tak.Move) []tak.Move {
	g := &VerifMG{History: history, MS: ms}
	if ms == nil {
		g.MS = []tak.Move{}
	}
	_, mg := g.build()
	mg.sortMoves()
	return mg.ms
}
