package ai

// Read-only access for the /verif harness (compiled in only through `go build -overlay`).

// VerifTeSuffices runs teSuffices on a table entry with the given fields (hash and move do not enter the test).
func VerifTeSuffices(value int64, bound byte, entryDepth int8, depth int, alpha, beta int64) bool {
	te := tableEntry{value: value, bound: boundType(bound), depth: entryDepth}
	return teSuffices(&te, depth, alpha, beta)
}
