package ai

// Read-only access for the /verif harness (compiled in only through `go build -overlay`).

import "github.com/nelhage/taktician/bitboard"

// VerifTeSuffices runs teSuffices on a table entry with the given fields (hash and move do not enter the test).
func VerifTeSuffices(value int64, bound byte, entryDepth int8, depth int, alpha, beta int64) bool {
	te := tableEntry{value: value, bound: boundType(bound), depth: entryDepth}
	return teSuffices(&te, depth, alpha, beta)
}

// VerifComputeInfluence runs computeInfluence on a copy of out and returns the counters it leaves there.
func VerifComputeInfluence(size uint, mine uint64, out []uint64) []uint64 {
	c := bitboard.Precompute(size)
	o := append([]uint64{}, out...)
	computeInfluence(&c, mine, o)
	return o
}
