package analyze

import (
	"bytes"
	"context"
	"flag"
	"fmt"
	"io"
	"os"
	"sync"
)

// Access for the /verif harness (compiled in only through `go build -overlay`).
//
// `taktician analyze` is run in-process exactly as the subcommand dispatcher runs it: a fresh Command, its
// own SetFlags on a fresh FlagSet, Parse of the argument list, Execute.  Two things of the process shell are
// replaced: (1) log.Fatal/Fatalf/Printf of the package (build-time rewrite harness/rewrite/cmd_analyze_*.json:
// `log.` -> `verifLog.`) — Fatal panics with verifFatal instead of leaving the process; (2) os.Stdout is pointed
// at a pipe for the duration of the call (all printing of the package goes through fmt.Printf / os.Stdout).

type verifFatal struct{ msg string }

type verifLogger struct{}

var verifLog verifLogger

func (verifLogger) Fatal(a ...interface{})            { panic(verifFatal{fmt.Sprint(a...)}) }
func (verifLogger) Fatalf(f string, a ...interface{}) { panic(verifFatal{fmt.Sprintf(f, a...)}) }
func (verifLogger) Printf(f string, a ...interface{}) {}

var verifMu sync.Mutex

// VerifRun runs `taktician analyze args...` (args = flags followed by the PTN file name).  It returns what the
// command printed on standard output, whether it left through log.Fatal (and with which text), and whether the
// flag parser rejected the arguments.  A panic of the command itself propagates to the caller after standard
// output has been restored.
func VerifRun(args []string) (stdout string, fatal bool, fatalMsg string, flagErr bool) {
	verifMu.Lock()
	defer verifMu.Unlock()

	cmd := &Command{}
	fs := flag.NewFlagSet("analyze", flag.ContinueOnError)
	fs.SetOutput(io.Discard)
	cmd.SetFlags(fs)
	if err := fs.Parse(args); err != nil {
		return "", false, "", true
	}

	r, w, err := os.Pipe()
	if err != nil {
		panic(err)
	}
	saved := os.Stdout
	os.Stdout = w
	var buf bytes.Buffer
	done := make(chan struct{})
	go func() {
		io.Copy(&buf, r)
		close(done)
	}()
	restore := func() {
		os.Stdout = saved
		w.Close()
		<-done
		r.Close()
	}
	func() {
		defer func() {
			if x := recover(); x != nil {
				restore()
				if f, ok := x.(verifFatal); ok {
					fatal, fatalMsg = true, f.msg
					return
				}
				panic(x)
			}
			restore()
		}()
		cmd.Execute(context.Background(), fs)
	}()
	return buf.String(), fatal, fatalMsg, false
}
