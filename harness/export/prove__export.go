package prove

import (
	"sync/atomic"
	"unsafe"

	"github.com/nelhage/taktician/tak"
)

// Read-only access for the /verif harness. Compiled in only through
// `go build -overlay`; not part of the repository.

// VerifEntrySize is the divisor NewDFPN uses to turn TableMem into a number of entries.
func VerifEntrySize() int64 { return int64(unsafe.Sizeof(entry{})) }

// VerifTableLen is the number of entries of the solver's table.
func (d *DFPNSolver) VerifTableLen() int { return len(d.table.entries) }

// VerifConsts: the constants of the package the Lean model takes from Generated/FactsProve.lean.
func VerifConsts() (infinity uint32, checkFreq, pn2thr int, eps float64) {
	return INFINITY, kCheckFrequency, pn2Threshold, epsilon
}

// VerifAbort stops a runaway Prove (the solver has no limit or cancellation of its own): the length
// word of the table slice is set to zero (one aligned word, so the solver's goroutine sees either the
// old or the new length, never a torn slice header), and the solver's next table access panics with a
// division by zero or an index out of range in its own goroutine, where the harness recovers.
// Only used on runs whose result is discarded.
func (d *DFPNSolver) VerifAbort() {
	type sliceHeader struct {
		data unsafe.Pointer
		len  int
		cap  int
	}
	h := (*sliceHeader)(unsafe.Pointer(&d.table.entries))
	atomic.StoreInt64((*int64)(unsafe.Pointer(&h.len)), 0)
}

// VerifEntry is one occupied table slot: position hash and the bounds stored for it.
type VerifEntry struct {
	Hash       uint64
	Phi, Delta uint32
	Work       uint64
}

// VerifTable lists the occupied slots of the solver's table.
func (d *DFPNSolver) VerifTable() []VerifEntry {
	var out []VerifEntry
	for _, e := range d.table.entries {
		if e.hash != 0 || e.bounds.phi != 0 || e.bounds.delta != 0 {
			out = append(out, VerifEntry{e.hash, e.bounds.phi, e.bounds.delta, e.work})
		}
	}
	return out
}

// VerifAttacker is the attacker the solver settled on.
func (d *DFPNSolver) VerifAttacker() tak.Color { return d.attacker }

func VerifSaturatingAdd(l, r uint32) uint32 { return saturatingAdd(l, r) }

// VerifSnap is everything a DFPNSolver carries from one Prove to the next.
type VerifSnap struct {
	attacker tak.Color
	entries  []entry
	killers  []tak.Move
	pool     positionPool
}

// VerifSnapshot / VerifRestore let the harness probe "does Prove come back on this position" on a solver
// that is in use, and put the solver back exactly as it was.
func (d *DFPNSolver) VerifSnapshot() *VerifSnap {
	return &VerifSnap{
		attacker: d.attacker,
		entries:  append([]entry(nil), d.table.entries...),
		killers:  append([]tak.Move(nil), d.killers...),
		pool:     d.pool,
	}
}

func (d *DFPNSolver) VerifRestore(s *VerifSnap) {
	d.attacker = s.attacker
	copy(d.table.entries, s.entries)
	d.killers = append([]tak.Move(nil), s.killers...)
	d.pool = s.pool
	d.stack = nil
}
