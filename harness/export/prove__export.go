package prove

// Read-only access for the /verif harness (go build -overlay only).
func VerifSaturatingAdd(l, r uint32) uint32 { return saturatingAdd(l, r) }
