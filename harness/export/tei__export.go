package tei

import (
	"time"

	"github.com/nelhage/taktician/tak"
)

// Read-only access for the /verif harness. Compiled in only through
// `go build -overlay`; not part of the repository.

// VerifCalcBudget exposes the unexported budget rule (nanoseconds in, nanoseconds out).
func VerifCalcBudget(movetime, gametime, inc int64) int64 {
	return int64(calcBudget(time.Duration(movetime), time.Duration(gametime), time.Duration(inc)))
}

// VerifState returns the engine's remembered state: is a searcher cached, the current position, the size.
func (e *Engine) VerifState() (bool, *tak.Position, int) {
	return e.mm != nil, e.pos, e.size
}
