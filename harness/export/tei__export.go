package tei

import (
	"context"
	"time"

	"github.com/nelhage/taktician/tak"
)

// Read-only access for the /verif harness. Compiled in only through
// `go build -overlay`; not part of the repository.

// VerifCalcBudget exposes the unexported budget rule (nanoseconds in, nanoseconds out).
func VerifCalcBudget(movetime, gametime, inc int64) int64 {
	return int64(calcBudget(time.Duration(movetime), time.Duration(gametime), time.Duration(inc)))
}

// VerifState returns the engine's remembered state: is a searcher cached, the current position, the size.
func (e *Engine) VerifState() (bool, *tak.Position, int) {
	return e.mm != nil, e.pos, e.size
}

type verifRecKey struct{}

// VerifDeadlines records every duration analyze hands to context.WithTimeout during one Run.
// With Detach set the search context gets no deadline at all (the duration is only recorded), so that
// what the engine prints does not depend on the wall clock even for budgets of 0 or a few milliseconds.
type VerifDeadlines struct {
	Installed []int64
	Detach    bool
	// Expired: every deadline analyze installs has already passed when the search starts (a budget that runs out
	// inside the first ply); the harness' evaluator yields on every leaf so that the watcher goroutine gets to run
	Expired bool
}

// VerifRecording returns a context for Engine.Run that carries the recorder.
func VerifRecording(ctx context.Context, r *VerifDeadlines) context.Context {
	return context.WithValue(ctx, verifRecKey{}, r)
}

// verifWithTimeout stands in for context.WithTimeout in analyze (harness/rewrite/tei_server.json).
var verifWithTimeout = func(ctx context.Context, d time.Duration) (context.Context, context.CancelFunc) {
	if r, ok := ctx.Value(verifRecKey{}).(*VerifDeadlines); ok {
		r.Installed = append(r.Installed, int64(d))
		if r.Expired {
			c, cancel := context.WithCancel(ctx)
			cancel()
			return c, cancel
		}
		if r.Detach {
			return context.WithCancel(ctx)
		}
	}
	return context.WithTimeout(ctx, d)
}
