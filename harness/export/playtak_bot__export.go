package bot

// Read-only access and the timer seam for the /verif harness (C07). Compiled in only
// through `go build -overlay`; not part of the repository.

import (
	"time"

	"github.com/nelhage/taktician/tak"
)

// verifAfter stands where handleMove calls time.After for its post-move grace
// period (harness/rewrite/playtak_bot.json). The default is the real thing.
var verifAfter = time.After

// VerifSetAfter installs (nil: removes) the scheduler's timer source.
func VerifSetAfter(f func(time.Duration) <-chan time.Time) {
	if f == nil {
		verifAfter = time.After
	} else {
		verifAfter = f
	}
}

// VerifP is the bot's current position g.p.
func (g *Game) VerifP() *tak.Position { return g.p }

// VerifTimes are the clocks as last told by the server.
func (g *Game) VerifTimes() (mine, theirs time.Duration) { return g.times.mine, g.times.theirs }
