package selfplay

import (
	"bytes"
	"context"
	"flag"
	"fmt"
	"io"
	"sync"
	"time"

	"github.com/nelhage/taktician/tak"
	"github.com/nelhage/taktician/tei"
)

// Access for the /verif harness (compiled in only through `go build -overlay`).
//
// `Simulate` (and `taktician selfplay` = `(*Command).Execute` around it) runs in-process.  The build-time rewrites
// harness/rewrite/cmd_selfplay_simulate.json / cmd_selfplay_main.json replace exactly the process shell:
//
//   - tei.NewClient(argv) (starts a child process speaking TEI) -> verifNewClient(argv): an in-process client with the
//     same surface (`DebugPfx`, `Close`, `NewGame(size) -> player`, `player.TEIGetMove(ctx, pos, tc)`, incl. the
//     "dead player" game id check) whose answers come from a hook the harness installs (scripted players, or the real
//     ai.MinimaxAI).  The TEI client / engine themselves are the subject of C17 (generators C17, C17client).
//   - time.Now() / time.Since(..) in worker -> a virtual clock the players advance by the time they "think".
//   - log.Fatalf (= os.Exit(1)) -> a panic with a sentinel; the call `worker(c, i, gc, rc)` in the worker goroutine ->
//     verifWorker, which recovers a panic of the worker (Fatalf, or the worker's own `panic("illegal move: ..")` - in
//     the real process either one ends the process), records it, and drains the game channel so that Simulate returns
//     what was counted before.  Only one worker thread is used.
//   - log.Printf / log.Println / os.Stderr in main.go -> captured.

type VerifAnswer struct {
	Move tak.Move
	Err  error
}

type VerifMover func(ctx context.Context, p *tak.Position, tc *tei.TimeControl) VerifAnswer

// hooks the harness installs before a run
var VerifHookNewClient func(cmdline []string) error
var VerifHookNewGame func(cmdline []string, size int) (VerifMover, error)

var verifMu sync.Mutex
var verifClockNs int64
var verifCrash string
var verifLogLines []string
var verifStderr io.Writer = io.Discard

// VerifAdvance moves the virtual clock (called by a player while it is asked for a move).
func VerifAdvance(d time.Duration) { verifClockNs += int64(d) }

func verifNow() time.Time                 { return time.Unix(0, verifClockNs) }
func verifSince(t time.Time) time.Duration { return verifNow().Sub(t) }

type verifFatal struct{ msg string }

func verifFatalf(f string, a ...interface{}) { panic(verifFatal{fmt.Sprintf(f, a...)}) }
func verifLogPrintf(f string, a ...interface{}) {
	verifLogLines = append(verifLogLines, fmt.Sprintf(f, a...))
}
func verifLogPrintln(a ...interface{}) { verifLogLines = append(verifLogLines, fmt.Sprintln(a...)) }

type verifClient struct {
	DebugPfx string
	cmdline  []string
	gameid   int
}

type verifPlayer struct {
	client *verifClient
	gameid int
	mv     VerifMover
}

func verifNewClient(cmdline []string) (*verifClient, error) {
	if err := VerifHookNewClient(cmdline); err != nil {
		return nil, err
	}
	return &verifClient{cmdline: cmdline}, nil
}

func (c *verifClient) Close() {}

func (c *verifClient) NewGame(size int) (*verifPlayer, error) {
	c.gameid += 1
	mv, err := VerifHookNewGame(c.cmdline, size)
	if err != nil {
		return nil, err
	}
	return &verifPlayer{client: c, gameid: c.gameid, mv: mv}, nil
}

func (p *verifPlayer) TEIGetMove(ctx context.Context, pos *tak.Position, tc *tei.TimeControl) (tak.Move, error) {
	if p.gameid != p.client.gameid {
		panic("bad gameid: calling GetMove on a dead player")
	}
	a := p.mv(ctx, pos, tc)
	return a.Move, a.Err
}

func verifCrashText(x interface{}) string {
	if f, ok := x.(verifFatal); ok {
		return "fatal:" + f.msg
	}
	return fmt.Sprintf("panic:%v", x)
}

func verifWorker(c *Config, wid int, games <-chan gameSpec, out chan<- Result) {
	defer func() {
		if x := recover(); x != nil {
			verifCrash = verifCrashText(x)
			for range games {
			}
		}
	}()
	worker(c, wid, games, out)
}

// VerifGame is a Result with its unexported game specification spelled out.
type VerifGame struct {
	Oi, I    int
	P1Color  tak.Color
	Initial  *tak.Position
	Position *tak.Position
	Moves    []tak.Move
	Winner   tak.Color
}

func verifGames(st *Stats) []VerifGame {
	var out []VerifGame
	for _, r := range st.Games {
		out = append(out, VerifGame{r.spec.oi, r.spec.i, r.spec.p1color, r.Initial, r.Position, r.Moves, r.Winner})
	}
	return out
}

// VerifSimulate runs Simulate(c) on the virtual clock.  crash != "" when the (single) worker died: the text of the
// log.Fatalf or panic that would have ended the process.
func VerifSimulate(c *Config) (st Stats, games []VerifGame, crash string) {
	verifMu.Lock()
	defer verifMu.Unlock()
	verifClockNs, verifCrash = 0, ""
	st = Simulate(c)
	return st, verifGames(&st), verifCrash
}

func VerifReadOpenings(path string) ([]*tak.Position, error) { return readOpenings(path) }

// VerifWriteGame calls writeGame for one result.
func VerifWriteGame(dir string, p1, p2 []string, g VerifGame) {
	c := &Config{P1: p1, P2: p2}
	r := Result{spec: gameSpec{c: c, opening: g.Initial, oi: g.Oi, i: g.I, p1color: g.P1Color},
		Initial: g.Initial, Position: g.Position, Moves: g.Moves, Winner: g.Winner}
	writeGame(dir, &r)
}

// VerifExecute runs `taktician selfplay args...` as the subcommand dispatcher does (fresh Command, SetFlags, Parse,
// Execute).  Returned: the lines given to package log, what went to standard error (the table of printSummary),
// whether the flag parser rejected the arguments, and the crash text (a Fatalf on the main goroutine, or of the worker).
func VerifExecute(args []string) (logged []string, stderr string, flagErr bool, crash string) {
	verifMu.Lock()
	defer verifMu.Unlock()
	verifClockNs, verifCrash, verifLogLines = 0, "", nil
	var buf bytes.Buffer
	verifStderr = &buf
	defer func() { verifStderr = io.Discard }()
	cmd := &Command{}
	fs := flag.NewFlagSet("selfplay", flag.ContinueOnError)
	fs.SetOutput(io.Discard)
	cmd.SetFlags(fs)
	if err := fs.Parse(args); err != nil {
		return nil, "", true, ""
	}
	func() {
		defer func() {
			if x := recover(); x != nil {
				verifCrash = verifCrashText(x)
			}
		}()
		cmd.Execute(context.Background(), fs)
	}()
	return verifLogLines, buf.String(), false, verifCrash
}
