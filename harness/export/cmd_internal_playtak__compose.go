package playtak

// C07 composed: the real Friendly / Taktician as the Bot of the real bot.PlayGame / ObserveGame, for the
// lock-step scheduler of the /verif harness (harness/verifh/ops_compose.go).  Compiled in only through
// `go build -overlay`; not part of the repository.
//
// What is replaced: the searching player (f.ai / t.ai) by a stub that asks the harness (which makes it wait for
// the scheduler), and - through the seams of cmd_internal_playtak__glue.go - the wall clock of GetMove and the
// verdicts of Friendly's depth-3 check engine.  Everything else is the real code: NewGame, GetMove (rule check
// on the live record, Resign / Tell through the real client wrapper, the wait on the real moveCtx), AcceptUndo,
// HandleTell / HandleChat, GameOver.

import (
	"context"
	"fmt"
	"strconv"
	"time"

	"github.com/nelhage/taktician/ai"
	"github.com/nelhage/taktician/playtak"
	"github.com/nelhage/taktician/playtak/bot"
	"github.com/nelhage/taktician/tak"
)

// VerifCompose implements bot.Bot (and bot.Configger for a Friendly).
type VerifCompose struct {
	F *Friendly
	T *Taktician
	G *bot.Game

	// Enter is called with g.moveLock held, before the real GetMove; it returns the check engine's verdicts for
	// this call.  ok == false: the call is parked (the harness' cap on calls per game) until Parked is closed.
	Enter func(ctx context.Context, p *tak.Position) (chk []VerifChk, ok bool)
	// Search stands for f.ai.GetMove(ctx, p) / t.ai.GetMove(ctx, p).
	Search func(ctx context.Context, p *tak.Position) tak.Move
	// Left is called when the real GetMove has returned (panicked: it panicked; the harness plays dead).
	Left   func(m tak.Move, panicked bool)
	Parked chan struct{}
	// LastPanic: what the real GetMove panicked with (set before Left(_, true))
	LastPanic string
	// the `level` command (work package botcompose2): Built counts how often HandleTell / HandleChat replaced f.ai
	// during this game (the real engine it built is kept in LastBuilt and replaced by the stub again), SearchGen is
	// the build of the f.ai object the search in progress was called on
	Built     int
	LastBuilt *ai.MinimaxAI
	SearchGen int

	v *VerifGlue
}

type verifComposeCfg struct{ *VerifCompose }

func (c verifComposeCfg) Config(size int) tak.Config { return c.F.Config(size) }

// VerifNewComposeFriendly: a Friendly as Command.Execute builds it (no opening book, no table; the searching
// player is replaced anyway).  variant "none": no FPA rule.
func VerifNewComposeFriendly(variant string, client playtak.Client) *VerifCompose {
	var rule FPARule
	if variant != "none" {
		rule = VerifNewRule(variant)
	}
	c := &VerifCompose{Parked: make(chan struct{}), v: &VerifGlue{}}
	c.F = &Friendly{
		cmd:    &Command{tableMem: -1, sort: true, book: false},
		client: &playtak.Commands{User: "FriendlyBot", Client: client},
		fpa:    rule,
	}
	c.v.F = c.F
	return c
}

// VerifNewComposeTaktician: a Taktician with the given flags.
func VerifNewComposeTaktician(limit time.Duration, useOpponentTime bool, client playtak.Client) *VerifCompose {
	c := &VerifCompose{Parked: make(chan struct{}), v: &VerifGlue{}}
	c.T = &Taktician{
		cmd:    &Command{tableMem: -1, sort: true, book: false, limit: limit, useOpponentTime: useOpponentTime, depth: 2},
		client: &playtak.Commands{User: "Taktician", Client: client},
	}
	c.v.T = c.T
	return c
}

// Bot returns the value to hand to bot.PlayGame: a Configger exactly when the real bot is one.
func (c *VerifCompose) Bot() bot.Bot {
	if c.F != nil {
		return verifComposeCfg{c}
	}
	return c
}

type verifComposeSpy struct {
	c   *VerifCompose
	gen int
}

func (s verifComposeSpy) GetMove(ctx context.Context, p *tak.Position) tak.Move {
	s.c.SearchGen = s.gen
	return s.c.Search(ctx, p)
}

// restub: when the real code has just replaced f.ai ("starting right now"), keep what it built and put a stub of the
// next build in its place
func (c *VerifCompose) restub(old ai.TakPlayer) {
	if c.F == nil || c.F.ai == old {
		return
	}
	c.Built++
	c.LastBuilt, _ = c.F.ai.(*ai.MinimaxAI)
	c.F.ai = verifComposeSpy{c, c.Built}
}

// VerifLevel: f.level, how often f.ai was rebuilt, the Depth of the engine built last (-1: none)
func (c *VerifCompose) VerifLevel() (level, built, depth int) {
	if c.F == nil {
		return -1, 0, -1
	}
	depth = -1
	if c.LastBuilt != nil {
		depth = c.LastBuilt.Cfg.Depth
	}
	return c.F.level, c.Built, depth
}

func (c *VerifCompose) NewGame(g *bot.Game) {
	c.G = g
	c.v.G = g
	if c.F != nil {
		c.F.NewGame(g)
		c.F.ai = verifComposeSpy{c, 0}
		verifGlueEngines.Store(c.F.check, c.v)
	} else {
		c.T.NewGame(g)
		c.T.ai = verifComposeSpy{c, 0}
	}
}

func (c *VerifCompose) GameOver() {
	if c.F != nil {
		verifGlueEngines.Delete(c.F.check)
		c.F.GameOver()
	} else {
		c.T.GameOver()
	}
}

func (c *VerifCompose) AcceptUndo() bool {
	if c.F != nil {
		return c.F.AcceptUndo()
	}
	return c.T.AcceptUndo()
}

func (c *VerifCompose) HandleChat(room, who, msg string) {
	if c.F != nil {
		old := c.F.ai
		c.F.HandleChat(room, who, msg)
		c.restub(old)
	} else {
		c.T.HandleChat(room, who, msg)
	}
}

func (c *VerifCompose) HandleTell(who, msg string) {
	if c.F != nil {
		old := c.F.ai
		c.F.HandleTell(who, msg)
		c.restub(old)
	} else {
		c.T.HandleTell(who, msg)
	}
}

func (c *VerifCompose) GetMove(ctx context.Context, p *tak.Position, mine, theirs time.Duration) (ret tak.Move) {
	chk, ok := c.Enter(ctx, p)
	if !ok {
		<-c.Parked
		return tak.Move{}
	}
	rec := &VerifGlueRec{stubs: chk, useStubs: true, p: p, g: c.G}
	c.v.rec = rec
	ctx = context.WithValue(ctx, verifGlueKey{}, rec)
	defer func() {
		c.v.rec = nil
		if r := recover(); r != nil {
			// a panic on a thinker goroutine ends the real process: the harness plays dead, this goroutine
			// stays where it is (moveLock held) until the session is torn down
			ret = tak.Move{}
			c.LastPanic = fmt.Sprint(r)
			c.Left(ret, true)
			<-c.Parked
			return
		}
		c.Left(ret, false)
	}()
	if c.F != nil {
		return c.F.GetMove(ctx, p, mine, theirs)
	}
	return c.T.GetMove(ctx, p, mine, theirs)
}

// VerifRuleNotes: the squares the FPA rule remembers.
func (c *VerifCompose) VerifRuleNotes() string {
	if c.F == nil || c.F.fpa == nil {
		return "-"
	}
	i := strconv.Itoa
	switch r := c.F.fpa.(type) {
	case *DoubleStack:
		return "bp=" + i(int(r.blackPlace.X)) + "," + i(int(r.blackPlace.Y)) + ";wp=" + i(int(r.whitePlace.X)) + "," + i(int(r.whitePlace.Y)) +
			";bt=" + i(r.blackTmp.x) + "," + i(r.blackTmp.y) + ";wt=" + i(r.whiteTmp.x) + "," + i(r.whiteTmp.y)
	case *Cairn:
		return "bp=" + i(int(r.blackPlace.X)) + "," + i(int(r.blackPlace.Y)) + ";wp=" + i(int(r.whitePlace.X)) + "," + i(int(r.whitePlace.Y)) +
			";bt=0,0;wt=0,0"
	}
	return "bp=0,0;wp=0,0;bt=0,0;wt=0,0"
}

// VerifResignText classifies a Tell sent from inside GetMove.
func VerifResignText(text string) string { return VerifGlueMsgClass(text) }

// VerifRuleAccepts: would the FPA rule, with the notes it has now, accept m on p?  (asked of a copy: the live
// rule's notes are not touched).  true without a rule.
func (c *VerifCompose) VerifRuleAccepts(p *tak.Position, m tak.Move) (ok bool) {
	if c.F == nil || c.F.fpa == nil {
		return true
	}
	defer func() {
		if recover() != nil {
			ok = false
		}
	}()
	return VerifCloneRule(c.F.fpa).LegalMove(p, m) == nil
}
