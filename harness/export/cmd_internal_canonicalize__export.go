package canonicalize

import (
	"bytes"
	"context"
	"flag"
	"fmt"
	"io"
	"os"
	"sync"
)

// Access for the /verif harness (compiled in only through `go build -overlay`).
//
// `taktician canonicalize FILE` is run in-process exactly as the subcommand dispatcher runs it: a fresh Command,
// its own SetFlags on a fresh FlagSet, Parse of the argument list, Execute.  log.Fatalf of the package is redirected
// at build time (harness/rewrite/cmd_canonicalize_main.json) to verifLog, whose Fatalf panics with a sentinel;
// os.Stdout is pointed at a pipe for the duration of the call (the command prints with fmt.Printf).

type verifFatal struct{ msg string }

type verifLogger struct{}

var verifLog verifLogger

func (verifLogger) Fatalf(f string, a ...interface{}) { panic(verifFatal{fmt.Sprintf(f, a...)}) }

var verifMu sync.Mutex

// VerifRun runs `taktician canonicalize args...`.  It returns what the command printed on standard output, whether
// it left through log.Fatalf, and whether it returned ExitUsageError.  A panic of the command itself propagates to
// the caller after standard output has been restored.
func VerifRun(args []string) (stdout string, fatal bool, usage bool) {
	verifMu.Lock()
	defer verifMu.Unlock()

	cmd := &Command{}
	fs := flag.NewFlagSet("canonicalize", flag.ContinueOnError)
	fs.SetOutput(io.Discard)
	cmd.SetFlags(fs)
	if err := fs.Parse(args); err != nil {
		return "", false, true
	}

	r, w, err := os.Pipe()
	if err != nil {
		panic(err)
	}
	saved := os.Stdout
	os.Stdout = w
	var buf bytes.Buffer
	done := make(chan struct{})
	go func() {
		io.Copy(&buf, r)
		close(done)
	}()
	restore := func() {
		os.Stdout = saved
		w.Close()
		<-done
		r.Close()
	}
	func() {
		defer func() {
			if x := recover(); x != nil {
				restore()
				if _, ok := x.(verifFatal); ok {
					fatal = true
					return
				}
				panic(x)
			}
			restore()
		}()
		usage = cmd.Execute(context.Background(), fs) != 0
	}()
	return buf.String(), fatal, usage
}
