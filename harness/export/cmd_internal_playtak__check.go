package playtak

// C07 check engine (work package botcompose2): the real (*Friendly).waitUndo with the REAL f.check that
// Friendly.NewGame built, for harness/verifh/ops_check.go.  Compiled in only through `go build -overlay`.

import "github.com/nelhage/taktician/tak"

// VerifWaitUndo runs the real waitUndo(p) on the record as it stands; the real check engine answers and its
// verdicts are reported in call order.
func (v *VerifGlue) VerifWaitUndo(p *tak.Position) (w bool, obs []VerifChk) {
	r := &VerifGlueRec{useStubs: false, p: p, g: v.G}
	v.rec = r
	defer func() { v.rec = nil }()
	w = v.F.waitUndo(p)
	return w, r.Obs
}
