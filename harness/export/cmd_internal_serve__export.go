package serve

import (
	"context"

	"github.com/nelhage/taktician/ai"
	"github.com/nelhage/taktician/pb"
)

// Read-only access for the /verif harness (compiled in only through `go build -overlay`).
// The three gRPC handlers of the unexported `server` type are called in-process: no listener, no network.

// VerifServer wraps one `server` value exactly as `Execute` registers it (`&server{}`), so that the two
// engine caches live as long as the wrapper.
type VerifServer struct{ s *server }

func VerifNewServer() *VerifServer { return &VerifServer{s: &server{}} }

// Analyze is the handler `(*server).Analyze` on a background context.
func (v *VerifServer) Analyze(position string, depth int32, precise bool) (pv []string, value int64, err error) {
	resp, err := v.s.Analyze(context.Background(), &pb.AnalyzeRequest{Position: position, Depth: depth, Precise: precise})
	if err != nil {
		return nil, 0, err
	}
	return resp.Pv, resp.Value, nil
}

// Canonicalize is the handler `(*server).Canonicalize`.
func (v *VerifServer) Canonicalize(size int32, moves []string) ([]string, error) {
	resp, err := v.s.Canonicalize(context.Background(), &pb.CanonicalizeRequest{Size: size, Moves: moves})
	if err != nil {
		return nil, err
	}
	return resp.Moves, nil
}

// IsPositionInTak is the handler `(*server).IsPositionInTak`.
func (v *VerifServer) IsPositionInTak(position string) (inTak bool, takMove string, err error) {
	resp, err := v.s.IsPositionInTak(context.Background(), &pb.IsPositionInTakRequest{Position: position})
	if err != nil {
		return false, "", err
	}
	return resp.InTak, resp.TakMove, nil
}

// VerifAnalyzePlayer / VerifIsTakPlayer return the engines the two caches hold at the moment (nil before the
// first request); the harness only compares them for identity (was the engine replaced?) and reads their
// configuration.
func (v *VerifServer) VerifAnalyzePlayer() *ai.MinimaxAI { return v.s.analyzeCache.player }
func (v *VerifServer) VerifIsTakPlayer() *ai.MinimaxAI   { return v.s.istakCache.player }

// VerifAnalyzeKey / VerifIsTakKey return the cache keys as `getPlayer` compares them.
func (v *VerifServer) VerifAnalyzeKey() (size, depth int, precise bool) {
	c := &v.s.analyzeCache
	return c.cfg.Size, c.cfg.Depth, c.precise
}
func (v *VerifServer) VerifIsTakKey() (size, depth int, precise bool) {
	c := &v.s.istakCache
	return c.cfg.Size, c.cfg.Depth, c.precise
}
