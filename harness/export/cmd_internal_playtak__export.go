package playtak

// Access for the /verif harness to the first-player-advantage rules and to Friendly.GetMove.
// Compiled in only through `go build -overlay`; not part of the repository.

import (
	"context"
	"strings"

	"github.com/nelhage/taktician/ai"
	"github.com/nelhage/taktician/playtak"
	"github.com/nelhage/taktician/playtak/bot"
	"github.com/nelhage/taktician/tak"
)

type verifMock struct {
	cmds   []string
	cancel context.CancelFunc // the call's context ends once the bot has resigned (it then waits for exactly that)
}

func (m *verifMock) SendCommand(args ...string) {
	m.cmds = append(m.cmds, strings.Join(args, " "))
	if len(args) > 0 && args[len(args)-1] == "Resign" && m.cancel != nil {
		m.cancel()
	}
}
func (m *verifMock) Recv() <-chan string        { return nil }
func (m *verifMock) Error() error               { return nil }
func (m *verifMock) Shutdown()                  {}

type verifStub struct {
	move   tak.Move
	called bool
	cancel context.CancelFunc // ... or once the searching player has answered (no think-time floor in the harness)
}

func (s *verifStub) GetMove(ctx context.Context, p *tak.Position) tak.Move {
	s.called = true
	if s.cancel != nil {
		s.cancel()
	}
	return s.move
}

// VerifFPA drives the real Friendly.GetMove with a given rule: a mock server connection, a stub
// in place of the searching player (it answers with a move chosen by the caller), and a context that
// is live on entry and ends when the bot resigns or the searching player answers (so that the
// resignation wait and the think-time floor return at once).
type VerifFPA struct {
	F    *Friendly
	G    *bot.Game
	Rule FPARule
	mock *verifMock
	stub *verifStub
}

func VerifNewRule(variant string) FPARule {
	switch variant {
	case "center":
		return &CenterBlack{}
	case "doublestack":
		return &DoubleStack{}
	case "cairn":
		return &Cairn{}
	}
	panic("unknown variant")
}

// VerifCloneRule copies a rule together with its remembered squares.
func VerifCloneRule(r FPARule) FPARule {
	switch x := r.(type) {
	case *CenterBlack:
		c := *x
		return &c
	case *DoubleStack:
		c := *x
		return &c
	case *Cairn:
		c := *x
		return &c
	}
	panic("unknown rule")
}

func VerifNewFPA(variant string, color tak.Color, size int) *VerifFPA {
	mock := &verifMock{}
	stub := &verifStub{}
	rule := VerifNewRule(variant)
	f := &Friendly{
		cmd:    &Command{},
		client: &playtak.Commands{User: "", Client: mock},
		fpa:    rule,
		ai:     stub,
		check: ai.NewMinimax(ai.MinimaxConfig{
			Depth: 1, Size: size, TableMem: -1, Evaluate: ai.EvaluateWinner, Seed: 1,
		}),
	}
	g := &bot.Game{ID: "1", GameStr: "Game#1", Opponent: "opponent", Color: color, Size: size}
	f.g = g
	v := &VerifFPA{F: f, G: g, Rule: rule, mock: mock, stub: stub}
	p := tak.New(f.Config(size))
	g.Positions = append(g.Positions, p)
	return v
}

// Step calls Friendly.GetMove on the current position. It reports the returned move, whether the
// searching player (the stub, answering `choice`) was consulted, and whether the bot resigned
// because the rule rejected the previous move.
func (v *VerifFPA) Step(choice tak.Move) (m tak.Move, searched bool, resigned bool) {
	v.stub.move = choice
	v.stub.called = false
	v.mock.cmds = nil
	p := v.G.Positions[len(v.G.Positions)-1]
	ctx, cancel := context.WithCancel(context.Background())
	defer cancel()
	v.mock.cancel, v.stub.cancel = cancel, cancel
	m = v.F.GetMove(ctx, p, 0, 0)
	for _, c := range v.mock.cmds {
		if strings.HasSuffix(c, " Resign") {
			resigned = true
		}
	}
	return m, v.stub.called, resigned
}

// Play records a move the way bot.handleMove does.
func (v *VerifFPA) Play(m tak.Move) error {
	p := v.G.Positions[len(v.G.Positions)-1]
	next, err := p.Move(m)
	if err != nil {
		return err
	}
	v.G.Positions = append(v.G.Positions, next)
	v.G.Moves = append(v.G.Moves, m)
	return nil
}

func VerifIsCentered(p *tak.Position, m tak.Move) bool       { return isCentered(p, m) }
func VerifIsCenterAdjacent(p *tak.Position, m tak.Move) bool { return isCenterAdjacent(p, m) }
func VerifDistance(x1, y1, x2, y2 int8) int8                 { return distance(x1, y1, x2, y2) }
func VerifDir(x, y, ex, ey int) tak.MoveType                 { return dir(x, y, ex, ey) }
func VerifAdjacent(p *tak.Position, x, y int) (int, int)     { return adjacent(p, x, y) }
