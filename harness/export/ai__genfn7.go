package ai

// Access for the `fn.zwsearch` op of the seventh batch of regenerated functions (work package gen7): the REAL `zwSearch` on an
// engine built by NewMinimax whose table, frame moves and cancel flag are set as given.  Compiled in only through `go build -overlay`.

import "github.com/nelhage/taktician/tak"

// VerifZW: an engine for `zwSearch` calls.
type VerifZW struct {
	M *MinimaxAI
}

// VerifNewZW builds the engine: tableLen < 0 = no table, otherwise a zeroed table of that many entries; the cancel flag is a
// fresh zero (Analyze would install it).
func VerifNewZW(cfg MinimaxConfig, tableLen int) *VerifZW {
	cfg.TableMem = -1
	m := NewMinimax(cfg)
	if tableLen >= 0 {
		m.table = make([]tableEntry, tableLen)
	}
	var c int32
	m.cancel = &c
	return &VerifZW{M: m}
}

// SetFrameMove sets ai.stack[i].m.
func (z *VerifZW) SetFrameMove(i int, mv tak.Move) {
	if i >= 0 && i < len(z.M.stack) {
		z.M.stack[i].m = mv
	}
}

// Search runs the real zwSearch; the returned principal variation is copied out of the frame buffer.
func (z *VerifZW) Search(p *tak.Position, ply, depth int, pv []tak.Move, alpha int64, cut bool) ([]tak.Move, int64) {
	ms, v := z.M.zwSearch(p, ply, depth, pv, alpha, cut)
	return append([]tak.Move{}, ms...), v
}

func (z *VerifZW) Stats() Stats              { return z.M.st }
func (z *VerifZW) History() map[tak.Move]int { return z.M.history }

// FrameMoves: ai.stack[i].m for every frame.
func (z *VerifZW) FrameMoves() []tak.Move {
	var out []tak.Move
	for i := range z.M.stack {
		out = append(out, z.M.stack[i].m)
	}
	return out
}

// FramePV: the whole principal-variation buffer of frame i.
func (z *VerifZW) FramePV(i int) []tak.Move {
	if i < 0 || i >= len(z.M.stack) {
		return nil
	}
	return append([]tak.Move{}, z.M.stack[i].pv[:]...)
}

// VerifSortMovesBuf runs the real sortMoves on a bare generator holding ms, with the scratch buffer `f.vals` prepared:
// mode 0: slice nil, alloc zeroed; 1: slice nil, alloc filled with fill; 2: slice non-nil, dirty, 3 longer than ms;
// 3: slice non-nil, dirty, one shorter than ms (empty for an empty ms): `make` is taken.
func VerifSortMovesBuf(history map[tak.Move]int, ms []tak.Move, mode, fill int) []tak.Move {
	m := &MinimaxAI{history: history}
	f := &frame{}
	switch mode {
	case 1:
		for i := range f.vals.alloc {
			f.vals.alloc[i] = fill
		}
	case 2, 3:
		n := len(ms) + 3
		if mode == 3 {
			n = len(ms) - 1
			if n < 0 {
				n = 0
			}
		}
		f.vals.slice = make([]int, n)
		for i := range f.vals.slice {
			f.vals.slice[i] = fill
		}
	}
	mg := &moveGenerator{ai: m, f: f}
	mg.ms = append(make([]tak.Move, 0, len(ms)+1), ms...)
	mg.sortMoves()
	return mg.ms
}
