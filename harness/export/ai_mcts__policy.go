package mcts

// Access for the /verif harness to the rollout policies (findPlaceWins, placeWinMove, the two Select
// implementations) and to rollout.  Compiled in only through `go build -overlay`; not part of the repository.

import (
	"context"
	"math/rand"

	"github.com/nelhage/taktician/ai"
	"github.com/nelhage/taktician/bitboard"
	"github.com/nelhage/taktician/tak"
)

// verifDraws is a rand.Source that dictates the results of Int31n: with every value below 2^30,
// Int31n(n) = Int31() % n = vals[i] % n for every n > 0 (power of two: masked; otherwise the rejection
// bound max >= 2^31-1-n is never exceeded), one Int63 call per Int31n call.
type verifDraws struct {
	vals []int64
	i    int
}

func (s *verifDraws) Int63() int64 {
	if s.i >= len(s.vals) {
		panic(verifExhausted{})
	}
	v := s.vals[s.i]
	s.i++
	return v << 32
}
func (s *verifDraws) Seed(int64) {}

func VerifFindPlaceWins(size int, mask, empty uint64, gs []uint64) uint64 {
	c := bitboard.Precompute(uint(size))
	return findPlaceWins(mask, empty, gs, &c)
}

func VerifPlaceWinMove(p *tak.Position) tak.Move {
	c := bitboard.Precompute(uint(p.Size()))
	return placeWinMove(&c, p)
}

func verifPlayer(policy string, size int, src rand.Source, maxRollout int, threshold int64) *MonteCarloAI {
	mc := &MonteCarloAI{
		cfg: MCTSConfig{Size: size, Policy: policy, MaxRollout: maxRollout, EvalThreshold: threshold},
		c:   bitboard.Precompute(uint(size)),
		r:   rand.New(src),
	}
	mc.policy = mc.buildPolicy()
	mc.eval = ai.MakeEvaluator(size, nil)
	return mc
}

// catchMore turns the exhaustion of the dictated stream into more=true; every other panic passes through.
func catchMore(more *bool) {
	if r := recover(); r != nil {
		if _, ok := r.(verifExhausted); ok {
			*more = true
			return
		}
		panic(r)
	}
}

// VerifSelect runs ONE Select step of the named policy ("uniform", "place_win") on p, Int31n(n) answering
// draws[i] % n.  used = number of draws consumed; more = the draws ran out.
// aliased = the returned position is the argument itself (it never may be: the argument becomes the scratch buffer).
func VerifSelect(policy string, p *tak.Position, draws []int64) (out *tak.Position, used int, more bool, aliased bool) {
	src := &verifDraws{vals: draws}
	mc := verifPlayer(policy, p.Size(), src, 1, 1)
	defer catchMore(&more)
	out = mc.policy.Select(context.Background(), mc, p)
	return out, src.i, false, out == p
}

// VerifSelectSeed runs one Select step with the real math/rand stream of the given seed (as NewMonteCarlo builds it).
func VerifSelectSeed(policy string, p *tak.Position, seed int64) *tak.Position {
	mc := verifPlayer(policy, p.Size(), rand.NewSource(seed), 1, 1)
	return mc.policy.Select(context.Background(), mc, p)
}

// VerifRollout runs rollout on a tree node holding p with a dictated stream.
func VerifRollout(policy string, p *tak.Position, maxRollout int, threshold int64, draws []int64) (val int, used int, more bool) {
	src := &verifDraws{vals: draws}
	mc := verifPlayer(policy, p.Size(), src, maxRollout, threshold)
	defer catchMore(&more)
	val = mc.rollout(context.Background(), &tree{position: p})
	return val, src.i, false
}

// VerifRollouts runs n rollouts from the same node on ONE player (so the policy's scratch buffer left by one
// rollout is the scratch of the next), each with the real stream of `seed`, and returns the values.
func VerifRollouts(policy string, p *tak.Position, maxRollout int, threshold int64, seed int64, n int) []int {
	mc := verifPlayer(policy, p.Size(), rand.NewSource(seed), maxRollout, threshold)
	t := &tree{position: p}
	var out []int
	for i := 0; i < n; i++ {
		out = append(out, mc.rollout(context.Background(), t))
	}
	return out
}
