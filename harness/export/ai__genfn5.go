package ai

// Access for the `fn.*` ops of the fifth batch of regenerated functions (work package gen5): the small helpers of the
// alpha-beta search.  Each function builds a bare MinimaxAI with exactly the fields the helper reads and runs the REAL helper.
// Compiled in only through `go build -overlay`.

import "github.com/nelhage/taktician/tak"

// VerifNullMoveOK runs nullMoveOK on an engine whose frames hold the moves ms.
func VerifNullMoveOK(noNull bool, ms []tak.Move, ply, depth int, p *tak.Position) bool {
	m := &MinimaxAI{}
	m.Cfg.NoNullMove = noNull
	for i := range m.stack {
		if i < len(ms) {
			m.stack[i].m = ms[i]
		}
	}
	return m.nullMoveOK(ply, depth, p)
}

// VerifTT runs ttGet (put = false) or ttPut on an engine with the given table (hasTable = false: `table == nil`; an empty
// table with hasTable is the non-nil empty slice) and cancel flag.  slot: index of the returned entry, -1 for nil, -2 when
// the pointer does not point into the table; out: the table afterwards.
func VerifTT(put, hasTable bool, table []VerifTE, cancel int32, h uint64) (slot int, out []VerifTE) {
	m := &MinimaxAI{}
	if hasTable {
		m.table = make([]tableEntry, len(table))
		for i, e := range table {
			m.table[i] = tableEntry{hash: e.Hash, value: e.Value, m: e.M, bound: boundType(e.Bound), depth: e.Depth}
		}
	}
	c := cancel
	m.cancel = &c
	var te *tableEntry
	if put {
		te = m.ttPut(h)
	} else {
		te = m.ttGet(h)
	}
	slot = -1
	if te != nil {
		slot = -2
		for i := range m.table {
			if &m.table[i] == te {
				slot = i
			}
		}
	}
	return slot, m.VerifTable()
}

// VerifRecordCut runs recordCut on an engine without cut log whose statistics, history / response maps and frame moves are given.
func VerifRecordCut(history map[tak.Move]int, response map[tak.Move]tak.Move, st Stats, ms []tak.Move, mv tak.Move, move, depth, ply int) (map[tak.Move]int, map[tak.Move]tak.Move, Stats) {
	m := &MinimaxAI{history: history, response: response, st: st}
	for i := range m.stack {
		if i < len(ms) {
			m.stack[i].m = ms[i]
		}
	}
	m.recordCut(nil, mv, move, depth, ply)
	return m.history, m.response, m.st
}
