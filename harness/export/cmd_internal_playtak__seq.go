package playtak

// /verif: one FPA rule value used for several games in a row, the way cmd/internal/playtak/main.go builds one rule for
// the bot's lifetime while the "size" tell changes the board between games.

import (
	"github.com/nelhage/taktician/ai"
	"github.com/nelhage/taktician/playtak"
	"github.com/nelhage/taktician/playtak/bot"
	"github.com/nelhage/taktician/tak"
)

// VerifNewFPAWithRule is VerifNewFPA with a rule value that has played earlier games.
func VerifNewFPAWithRule(rule FPARule, color tak.Color, size int) *VerifFPA {
	mock := &verifMock{}
	stub := &verifStub{}
	f := &Friendly{
		cmd:    &Command{},
		client: &playtak.Commands{User: "", Client: mock},
		fpa:    rule,
		ai:     stub,
		check: ai.NewMinimax(ai.MinimaxConfig{
			Depth: 1, Size: size, TableMem: -1, Evaluate: ai.EvaluateWinner, Seed: 1,
		}),
	}
	g := &bot.Game{ID: "1", GameStr: "Game#1", Opponent: "opponent", Color: color, Size: size}
	f.g = g
	v := &VerifFPA{F: f, G: g, Rule: rule, mock: mock, stub: stub}
	g.Positions = append(g.Positions, tak.New(f.Config(size)))
	return v
}
