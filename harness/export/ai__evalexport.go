package ai

// Read-only access for the /verif harness (C18/C19). Compiled in only through
// `go build -overlay`; not part of the repository.

import (
	"github.com/nelhage/taktician/bitboard"
	"github.com/nelhage/taktician/tak"
)

func VerifEvalRawDefaultWeights() Weights { return defaultWeights }
func VerifEvalOverrides6() Weights        { return overrides6 }

// VerifEvalConsts: MaxEval MinEval WinThreshold WinBase ForcedWin moveScale MaxFeature
func VerifEvalConsts() []int64 {
	return []int64{MaxEval, MinEval, WinThreshold, WinBase, ForcedWin, moveScale, int64(MaxFeature)}
}

func VerifEvaluate(c *bitboard.Constants, w *Weights, p *tak.Position) int64 {
	return evaluate(c, w, p)
}

func VerifEvaluateTerminal(p *tak.Position, w *Weights) int64 { return evaluateTerminal(p, w) }

func VerifMobility(c *bitboard.Constants, p *tak.Position, bit uint64, height int) uint64 {
	return mobility(c, p, bit, height)
}

func VerifComputeControl(c *bitboard.Constants, p *tak.Position) (uint64, uint64) {
	return computeControl(c, p)
}

func VerifScoreThreats(c *bitboard.Constants, w *Weights, p *tak.Position) int64 {
	return scoreThreats(c, w, p)
}

func VerifScoreControl(c *bitboard.Constants, w *Weights, p *tak.Position) int64 {
	return scoreControl(c, w, p)
}

func VerifScoreGroups(c *bitboard.Constants, gs []uint64, w *Weights, other uint64) int64 {
	return scoreGroups(c, gs, w, other)
}
