package tak

// Read-only access for the /verif harness (compiled in only through `go build -overlay`):
// the unexported helpers that /verif/gen regenerates into Lean (fn.* correspondence ops).

func (p *Position) VerifCountFlats() (int, int) { return p.countFlats() }
func (p *Position) VerifFlatsWinner() Color    { return p.flatsWinner() }
