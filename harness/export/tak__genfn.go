package tak

// Read-only access for the /verif harness (compiled in only through `go build -overlay`):
// the unexported helpers that /verif/gen regenerates into Lean (fn.* correspondence ops).

func (p *Position) VerifCountFlats() (int, int) { return p.countFlats() }
func (p *Position) VerifFlatsWinner() Color    { return p.flatsWinner() }

// second round (work package gen2): slice-reading / slice-building functions regenerated into FuncsPos / FuncsRoad / FuncsMoveGen
func (p *Position) VerifHashAt(i uint) uint64      { return p.hashAt(i) }
func (p *Position) VerifHasRoad() (Color, bool)    { return p.hasRoad() }
func VerifCalculateSlides(stack int) []Slides      { return calculateSlides(stack) }
