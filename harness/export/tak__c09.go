package tak

import "unsafe"

// Read-only view of the storage reachable from a *Position, for the C09 (positions are values) check.
// Compiled in only through `go build -overlay`; not part of the repository.

// VerifStore describes the positionN object that embeds p and the four backing-array windows p's slices
// can reach: base address of the slice's data pointer, len and cap (element counts).
type VerifStore struct {
	Obj, ObjEnd            uintptr
	W, B, H, S             uintptr
	WLen, WCap, BLen, BCap int
	HLen, HCap, SLen, SCap int
}

func verifData(p unsafe.Pointer) uintptr { return *(*uintptr)(p) } // first word of a slice header

func (p *Position) VerifStore() VerifStore {
	var sz uintptr
	switch p.Size() {
	case 3:
		sz = unsafe.Sizeof(position3{})
	case 4:
		sz = unsafe.Sizeof(position4{})
	case 5:
		sz = unsafe.Sizeof(position5{})
	case 6:
		sz = unsafe.Sizeof(position6{})
	case 7:
		sz = unsafe.Sizeof(position7{})
	case 8:
		sz = unsafe.Sizeof(position8{})
	}
	base := uintptr(unsafe.Pointer(p))
	return VerifStore{
		Obj: base, ObjEnd: base + sz,
		W: verifData(unsafe.Pointer(&p.analysis.WhiteGroups)), WLen: len(p.analysis.WhiteGroups), WCap: cap(p.analysis.WhiteGroups),
		B: verifData(unsafe.Pointer(&p.analysis.BlackGroups)), BLen: len(p.analysis.BlackGroups), BCap: cap(p.analysis.BlackGroups),
		H: verifData(unsafe.Pointer(&p.Height)), HLen: len(p.Height), HCap: cap(p.Height),
		S: verifData(unsafe.Pointer(&p.Stacks)), SLen: len(p.Stacks), SCap: cap(p.Stacks),
	}
}
