package prove

import "github.com/nelhage/taktician/tak"

// Read-only access for the /verif harness (compiled in only through `go build -overlay`): the helpers /verif/gen
// regenerates into Generated/FuncsProve.lean (work package gen2).

// VerifTerminalBounds is DFPNSolver.terminalBounds on a solver whose only set field is the attacker.
func VerifTerminalBounds(attacker tak.Color, g *tak.Position, result tak.Color) (uint32, uint32) {
	d := &DFPNSolver{attacker: attacker}
	b := d.terminalBounds(g, result)
	return b.phi, b.delta
}

// VerifNodeFlags runs the flag readers of a proof-number node.
func VerifNodeFlags(flags int8, phi, delta uint32) (expanded, and bool, proof, disproof uint32) {
	n := &node{flags: flags, phi: phi, delta: delta}
	return n.expanded(), n.andNode(), n.proof(), n.disproof()
}
