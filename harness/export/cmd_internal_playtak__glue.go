package playtak

// Access for the /verif harness to the glue between the bot loop and the searching players:
// Friendly.GetMove / waitUndo / Config / levelSettings / the level command, Taktician.GetMove,
// wrapWithBook.  Compiled in only through `go build -overlay`; not part of the repository.
//
// Seams (harness/rewrite/playtak_friendly.json, playtak_taktician.json): the places where GetMove
// reads the wall clock (time.After for the reply-time floor, context.WithDeadline / WithTimeout for
// the search) and where waitUndo consults its depth-3 engine are redirected to the package
// functions below.  Without a recorder in the context (every caller but the harness) they do
// exactly what the replaced expression did.

import (
	"context"
	"strconv"
	"strings"
	"sync"
	"time"

	"github.com/nelhage/taktician/ai"
	"github.com/nelhage/taktician/playtak"
	"github.com/nelhage/taktician/playtak/bot"
	"github.com/nelhage/taktician/tak"
)

type verifGlueKey struct{}

// VerifChk is one verdict of the "did they just blunder" engine: value and the depth it stopped at.
type VerifChk struct {
	V     int64
	Depth int
}

// VerifGlueRec records, in program order, what one GetMove call did.
type VerifGlueRec struct {
	mu       sync.Mutex
	Events   []string // "cmd <words>", "after:<ns>", "deadline:<ns>", "timeout:<ns>", "chk:p|prev|other", "wait"
	AICalls  int
	AIAnswer tak.Move
	resigned bool
	stubs    []VerifChk // answers for the check engine (nil: the real engine answers)
	useStubs bool
	Obs      []VerifChk // what the check engine answered
	p        *tak.Position
	g        *bot.Game
	// the per-call time budget (WithDeadline / WithTimeout seam) and whether it runs out while the searcher works
	budgetCancel   context.CancelFunc
	expireInSearch bool
}

func (r *VerifGlueRec) add(e string) {
	r.mu.Lock()
	r.Events = append(r.Events, e)
	r.mu.Unlock()
}

var verifGlueClosed = func() chan struct{} { c := make(chan struct{}); close(c); return c }()

// verifGlueCtx is the context handed to GetMove: live, except that once the bot has resigned it is
// "ended by the bot loop" the moment GetMove waits for it (the wait is recorded).
type verifGlueCtx struct {
	context.Context
	rec *VerifGlueRec
}

func (c verifGlueCtx) Done() <-chan struct{} {
	c.rec.mu.Lock()
	res := c.rec.resigned
	if res {
		c.rec.Events = append(c.rec.Events, "wait")
	}
	c.rec.mu.Unlock()
	if res {
		return verifGlueClosed
	}
	return c.Context.Done()
}

func (c verifGlueCtx) Err() error {
	c.rec.mu.Lock()
	res := c.rec.resigned
	c.rec.mu.Unlock()
	if res {
		return context.Canceled
	}
	return c.Context.Err()
}

func verifGlueRecOf(ctx context.Context) *VerifGlueRec {
	r, _ := ctx.Value(verifGlueKey{}).(*VerifGlueRec)
	return r
}

// verifGlueAfter stands in for time.After in Friendly.GetMove.
func verifGlueAfter(ctx context.Context, d time.Duration) <-chan time.Time {
	if r := verifGlueRecOf(ctx); r != nil {
		r.add("after:" + strconv.FormatInt(int64(d), 10))
		ch := make(chan time.Time, 1)
		ch <- time.Time{}
		return ch
	}
	return time.After(d)
}

// verifGlueWithDeadline stands in for context.WithDeadline(ctx, time.Now().Add(d)) in Friendly.GetMove.
func verifGlueWithDeadline(ctx context.Context, d time.Duration) (context.Context, context.CancelFunc) {
	if r := verifGlueRecOf(ctx); r != nil {
		r.add("deadline:" + strconv.FormatInt(int64(d), 10))
		c, cancel := context.WithCancel(ctx)
		r.budgetCancel = cancel
		return c, cancel
	}
	return context.WithDeadline(ctx, time.Now().Add(d))
}

// verifGlueWithTimeout stands in for context.WithTimeout in Taktician.GetMove.
func verifGlueWithTimeout(ctx context.Context, d time.Duration) (context.Context, context.CancelFunc) {
	if r := verifGlueRecOf(ctx); r != nil {
		r.add("timeout:" + strconv.FormatInt(int64(d), 10))
		c, cancel := context.WithCancel(ctx)
		r.budgetCancel = cancel
		return c, cancel
	}
	return context.WithTimeout(ctx, d)
}

var verifGlueEngines sync.Map // *ai.MinimaxAI (a Friendly's check engine) -> *VerifGlue

// verifGlueAnalyze stands in for f.check.Analyze in waitUndo.
func verifGlueAnalyze(m *ai.MinimaxAI, ctx context.Context, p *tak.Position) ([]tak.Move, int64, ai.Stats) {
	x, ok := verifGlueEngines.Load(m)
	if !ok {
		return m.Analyze(ctx, p)
	}
	r := x.(*VerifGlue).rec
	if r == nil {
		return m.Analyze(ctx, p)
	}
	// the first consultation is expected on the position GetMove was called on, later ones on the
	// position before the newest of the record
	which := "other"
	switch {
	case len(r.Obs) == 0 && p == r.p:
		which = "p"
	case len(r.Obs) > 0 && len(r.g.Positions) >= 2 && p == r.g.Positions[len(r.g.Positions)-2]:
		which = "prev"
	}
	r.add("chk:" + which)
	if r.useStubs {
		var c VerifChk
		if len(r.stubs) > 0 {
			c, r.stubs = r.stubs[0], r.stubs[1:]
		}
		r.Obs = append(r.Obs, c)
		return nil, c.V, ai.Stats{Depth: c.Depth}
	}
	pv, v, st := m.Analyze(ctx, p)
	r.Obs = append(r.Obs, VerifChk{V: v, Depth: st.Depth})
	return pv, v, st
}

// ---- mock server connection

type verifGlueClient struct{ v *VerifGlue }

func (c *verifGlueClient) SendCommand(args ...string) {
	r := c.v.rec
	line := strings.Join(args, " ")
	if r == nil {
		c.v.Setup = append(c.v.Setup, line)
		return
	}
	r.mu.Lock()
	r.Events = append(r.Events, "cmd "+line)
	if len(args) == 2 && args[1] == "Resign" {
		r.resigned = true
	}
	r.mu.Unlock()
}
func (c *verifGlueClient) Recv() <-chan string { return nil }
func (c *verifGlueClient) Error() error        { return nil }
func (c *verifGlueClient) Shutdown()           {}

// ---- the searching player seen by GetMove: notes that it was consulted, then asks the real one / the stub

type verifGlueSpy struct {
	v     *VerifGlue
	inner ai.TakPlayer // nil: answer v.stubAnswer
}

func (s *verifGlueSpy) GetMove(ctx context.Context, p *tak.Position) tak.Move {
	r := s.v.rec
	var m tak.Move
	if s.inner != nil {
		m = s.inner.GetMove(ctx, p)
	} else {
		m = s.v.stubAnswer
	}
	if r != nil && r.expireInSearch && r.budgetCancel != nil {
		// the budget ran out while the engine searched: the engine truncates to its deepest completed iteration and
		// returns that iteration's move - an answer like any other
		r.budgetCancel()
	}
	if r != nil {
		r.mu.Lock()
		r.AICalls++
		r.AIAnswer = m
		if p != r.p {
			// the searcher must be asked about the position GetMove was called on
			r.Events = append(r.Events, "ai:other-position")
		}
		r.mu.Unlock()
	}
	return m
}

// VerifGlue is one game seen by a real Friendly or Taktician.
type VerifGlue struct {
	F     *Friendly
	T     *Taktician
	G     *bot.Game
	Setup []string        // commands sent outside GetMove (greetings, level replies)
	All   []*tak.Position // every position that ever was in the record, in order of creation

	rec        *VerifGlueRec
	stubAnswer tak.Move
	expireNext bool
}

const (
	VerifGlueOpponent = "opponent"
	VerifGlueGameStr  = "Game#7"
)

func verifGlueGame(color tak.Color, size int, cfg tak.Config) *bot.Game {
	g := &bot.Game{ID: "7", GameStr: VerifGlueGameStr, Opponent: VerifGlueOpponent, Color: color, Size: size}
	g.Positions = append(g.Positions, tak.New(cfg))
	return g
}

// VerifNewGlueFriendly builds a Friendly the way Command.Execute does and starts a game through the
// real NewGame.  variant "none": no FPA rule.  level >= 0: the opponent sends `level <n>` after the
// game started (real handleCommand; rebuilds the searching player).  realAI false: the searching
// player is replaced by a stub answering what Call is told.
func VerifNewGlueFriendly(variant string, color tak.Color, size int, level int, realAI bool) *VerifGlue {
	v := &VerifGlue{}
	var rule FPARule
	if variant != "none" {
		rule = VerifNewRule(variant)
	}
	f := &Friendly{
		cmd:    &Command{tableMem: -1, sort: true, book: true},
		client: &playtak.Commands{User: "FriendlyBot", Client: &verifGlueClient{v}},
		fpa:    rule,
	}
	v.F = f
	v.G = verifGlueGame(color, size, f.Config(size))
	v.All = append(v.All, v.G.Positions[0])
	f.NewGame(v.G)
	if level >= 0 {
		f.HandleTell(VerifGlueOpponent, "level "+strconv.Itoa(level))
	}
	if realAI {
		f.ai = &verifGlueSpy{v: v, inner: f.ai}
	} else {
		f.ai = &verifGlueSpy{v: v}
	}
	verifGlueEngines.Store(f.check, v)
	return v
}

// VerifNewGlueTaktician: a Taktician with the given flags, game started through the real NewGame.
func VerifNewGlueTaktician(limit time.Duration, useOpponentTime, book bool, depth int, color tak.Color, size int, realAI bool) *VerifGlue {
	v := &VerifGlue{}
	t := &Taktician{
		cmd:    &Command{tableMem: -1, sort: true, book: book, limit: limit, useOpponentTime: useOpponentTime, depth: depth},
		client: &playtak.Commands{User: "Taktician", Client: &verifGlueClient{v}},
	}
	v.T = t
	v.G = verifGlueGame(color, size, tak.Config{Size: size})
	v.All = append(v.All, v.G.Positions[0])
	t.NewGame(v.G)
	if realAI {
		t.ai = &verifGlueSpy{v: v, inner: t.ai}
	} else {
		t.ai = &verifGlueSpy{v: v}
	}
	return v
}

// Close forgets the engine registration.
func (v *VerifGlue) Close() {
	if v.F != nil {
		verifGlueEngines.Delete(v.F.check)
	}
}

// Call runs the real GetMove on p with the record as it stands.  stub: the stub searcher's answer;
// chk: the check engine's answers in call order (nil: the real engine answers, see Obs).
// ExpireNext: in the next Call the per-call time budget runs out while the searcher works
func (v *VerifGlue) ExpireNext() { v.expireNext = true }

func (v *VerifGlue) Call(p *tak.Position, stub tak.Move, chk []VerifChk, realCheck bool) (tak.Move, *VerifGlueRec) {
	r := &VerifGlueRec{stubs: chk, useStubs: !realCheck, p: p, g: v.G, expireInSearch: v.expireNext}
	v.expireNext = false
	v.rec = r
	v.stubAnswer = stub
	defer func() { v.rec = nil }()
	base, cancel := context.WithCancel(context.WithValue(context.Background(), verifGlueKey{}, r))
	defer cancel()
	ctx := verifGlueCtx{Context: base, rec: r}
	var m tak.Move
	if v.F != nil {
		m = v.F.GetMove(ctx, p, time.Minute, time.Minute)
	} else {
		m = v.T.GetMove(ctx, p, time.Minute, time.Minute)
	}
	return m, r
}

// Push / Pop change the record the way bot.handleMove does for a move / an Undo line.
func (v *VerifGlue) Push(m tak.Move) error {
	p := v.G.Positions[len(v.G.Positions)-1]
	next, err := p.Move(m)
	if err != nil {
		return err
	}
	v.G.Positions = append(v.G.Positions, next)
	v.G.Moves = append(v.G.Moves, m)
	v.All = append(v.All, next)
	return nil
}

func (v *VerifGlue) Pop() bool {
	if len(v.G.Positions) < 2 || len(v.G.Moves) < 1 {
		return false
	}
	v.G.Positions = v.G.Positions[:len(v.G.Positions)-1]
	v.G.Moves = v.G.Moves[:len(v.G.Moves)-1]
	return true
}

// VerifGlueMsgClass names a resignation text: which rule, which entry of its table.
func VerifGlueMsgClass(text string) string {
	if text != "" {
		for i, s := range doubleStackErrors {
			if s == text {
				return "ds" + strconv.Itoa(i)
			}
		}
		for i, s := range cairnErrors {
			if s == text {
				return "cairn" + strconv.Itoa(i)
			}
		}
		p := tak.New(tak.Config{Size: 5})
		if err := (&CenterBlack{}).LegalMove(p, tak.Move{X: 0, Y: 0, Type: tak.PlaceFlat}); err != nil && err.Error() == text {
			return "center"
		}
	}
	return "other<" + text + ">"
}

// VerifLevelDepth: the depth levelSettings chooses (the evaluator is built too, as in AIConfig).
func VerifLevelDepth(size, level int) int {
	f := &Friendly{cmd: &Command{}}
	d, _ := f.levelSettings(size, level)
	return d
}

func VerifNumLevels() int { return len(levels) }

// VerifLevelCommand runs the real handleCommand(who, "level", arg) on a Friendly whose level is `level`,
// inside a game or not, and reports the reply, the new level and whether the searching player was rebuilt.
func VerifLevelCommand(level int, inGame, fromOpponent bool, arg string) (reply string, newLevel int, rebuilt bool) {
	v := &VerifGlue{}
	f := &Friendly{
		cmd:    &Command{tableMem: -1, sort: true, book: true},
		client: &playtak.Commands{User: "FriendlyBot", Client: &verifGlueClient{v}},
		level:  level,
	}
	if inGame {
		f.g = verifGlueGame(tak.White, 5, tak.Config{Size: 5})
	}
	who := "someone"
	if fromOpponent {
		who = VerifGlueOpponent
	}
	before := f.ai
	reply = f.handleCommand(who, "level", arg)
	return reply, f.level, f.ai != before
}

// VerifFriendlyConfig: Friendly.Config(size) with or without an FPA rule.
func VerifFriendlyConfig(variant string, size int) tak.Config {
	f := &Friendly{cmd: &Command{}}
	if variant != "none" {
		f.fpa = VerifNewRule(variant)
	}
	return f.Config(size)
}

type verifGlueNull struct{}

func (verifGlueNull) GetMove(ctx context.Context, p *tak.Position) tak.Move { return tak.Move{} }

// VerifWrapsWithBook: does wrapWithBook put the opening book in front of the searching player?
func VerifWrapsWithBook(book bool, size int) bool {
	c := &Command{book: book}
	var inner ai.TakPlayer = verifGlueNull{}
	return c.wrapWithBook(size, inner) != inner
}

// VerifGlueConsts: the named durations of friendly.go, for the distribution tags only.
func VerifGlueConsts() (minT, maxT, undoT time.Duration) { return minThink, maxThink, undoTimeout }

// VerifHandleTell runs the real HandleTell of a Friendly ("F") or Taktician ("T") and reports what it did:
// the commands sent, the level and the configured size afterwards (the size starts at 0).
func VerifHandleTell(kind string, level int, inGame, fromOpponent bool, msg string) (cmds []string, newLevel int, newSize int) {
	v := &VerifGlue{}
	cmd := &Command{tableMem: -1, sort: true, book: true, gameTime: 20 * time.Minute}
	client := &playtak.Commands{User: "FriendlyBot", Client: &verifGlueClient{v}}
	who := "someone"
	if fromOpponent {
		who = VerifGlueOpponent
	}
	var g *bot.Game
	if inGame {
		g = verifGlueGame(tak.White, 5, tak.Config{Size: 5})
	}
	if kind == "F" {
		f := &Friendly{cmd: cmd, client: client, level: level, g: g}
		f.HandleTell(who, msg)
		return v.Setup, f.level, cmd.size
	}
	t := &Taktician{cmd: cmd, client: client, g: g}
	t.HandleTell(who, msg)
	return v.Setup, level, cmd.size
}
