package symmetry

import "github.com/nelhage/taktician/tak"

// Read-only access for the /verif harness (compiled in only through `go build -overlay`).

// VerifSymmetries returns the eight coordinate maps in the order Symmetries and Canonical use them.
func VerifSymmetries(size int) []Symmetry { return symmetries(size) }

// VerifCompose is compose.
func VerifCompose(ss ...Symmetry) Symmetry { return compose(ss...) }

// VerifPreferMove is preferMove.
func VerifPreferMove(l, r tak.Move) bool { return preferMove(l, r) }
