package play

import (
	"bytes"
	"context"
	"flag"
	"io"
	"strings"
	"sync"
)

// Access for the /verif harness (compiled in only through `go build -overlay`).
//
// `taktician play args...` is run in-process exactly as the subcommand dispatcher runs it (fresh Command, SetFlags,
// Parse, Execute) with the scripted text as standard input (build-time rewrite harness/rewrite/cmd_play_main.json:
// os.Stdin / os.Stdout -> verifStdin / verifStdout).

var verifStdin io.Reader
var verifStdout io.Writer
var verifMu sync.Mutex

// VerifRun returns everything the command printed, whether the flag parser rejected the arguments, and whether the
// command panicked (cliPlayer.GetMove panics on end of input); the text printed before the panic is returned too.
func VerifRun(args []string, stdin string) (stdout string, flagErr bool, panicked bool) {
	verifMu.Lock()
	defer verifMu.Unlock()
	cmd := &Command{}
	fs := flag.NewFlagSet("play", flag.ContinueOnError)
	fs.SetOutput(io.Discard)
	cmd.SetFlags(fs)
	if err := fs.Parse(args); err != nil {
		return "", true, false
	}
	var buf bytes.Buffer
	verifStdin = strings.NewReader(stdin)
	verifStdout = &buf
	func() {
		defer func() {
			if x := recover(); x != nil {
				panicked = true
			}
		}()
		cmd.Execute(context.Background(), fs)
	}()
	return buf.String(), false, panicked
}
