package ai

// Read-only access (plus the cancel flag setter) for the /verif harness. Compiled in only through
// `go build -overlay`; not part of the repository.

import (
	"reflect"
	"sync/atomic"
	"unsafe"

	"github.com/nelhage/taktician/tak"
)

// VerifCancel sets the cancel flag of the Analyze call in progress, exactly as the
// watcher goroutine does when the context ends. The harness calls it from inside the
// evaluation callback, so the point of cancellation is deterministic.
// The field is reached by name through reflection so that the hook does not depend on whether the flag
// is held by pointer or by value; if no int32 flag named `cancel` exists the harness falls back to real contexts
// (VerifCancel reports false).
func (m *MinimaxAI) VerifCancel() bool {
	f := reflect.ValueOf(m).Elem().FieldByName("cancel")
	if !f.IsValid() {
		return false
	}
	switch {
	case f.Kind() == reflect.Ptr && f.Type().Elem().Kind() == reflect.Int32:
		if f.IsNil() {
			return true
		}
		atomic.StoreInt32((*int32)(unsafe.Pointer(f.Pointer())), 1)
		return true
	case f.Kind() == reflect.Int32:
		atomic.StoreInt32((*int32)(unsafe.Pointer(f.UnsafeAddr())), 1)
		return true
	}
	return false
}

type VerifTE struct {
	Hash  uint64
	Value int64
	M     tak.Move
	Bound byte
	Depth int8
}

// VerifTable copies the transposition table (nil when the engine has none).
func (m *MinimaxAI) VerifTable() []VerifTE {
	if m.table == nil {
		return nil
	}
	out := make([]VerifTE, len(m.table))
	for i, e := range m.table {
		out[i] = VerifTE{e.hash, e.value, e.m, byte(e.bound), e.depth}
	}
	return out
}

func (m *MinimaxAI) VerifHasTable() bool { return m.table != nil }
func (m *MinimaxAI) VerifTableLen() int  { return len(m.table) }

// VerifResponse exposes the response-move map (callers only read it).
func (m *MinimaxAI) VerifResponse() map[tak.Move]tak.Move { return m.response }

// VerifFrames returns, for each preallocated frame, the first PV buffer element and the frame's move.
func (m *MinimaxAI) VerifFrames() (pv0 []tak.Move, ms []tak.Move) {
	for i := range m.stack {
		pv0 = append(pv0, m.stack[i].pv[0])
		ms = append(ms, m.stack[i].m)
	}
	return
}

const VerifMaxDepth = maxDepth
