package playtak

import (
	"strings"

	"github.com/nelhage/taktician/ai"
)

// Read-only access to the built-in opening books for the /verif harness.

// VerifBookLines returns the text lines of the built-in book for the size (nil if none), split as init() does.
func VerifBookLines(size int) []string {
	switch size {
	case 5:
		return strings.Split(strings.Trim(book5, " \n"), "\n")
	case 6:
		return strings.Split(strings.Trim(book6, " \n"), "\n")
	}
	return nil
}

// VerifBook returns the book object built by init() (nil if none).
func VerifBook(size int) *ai.OpeningBook {
	if size < 0 || size >= len(books) {
		return nil
	}
	return books[size]
}
