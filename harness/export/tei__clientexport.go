package tei

import (
	"bufio"
	"io"
	"time"
)

// Access to the client side for the /verif harness. Compiled in only through
// `go build -overlay`; not part of the repository.

// VerifNewClient builds a Client around an existing pair of streams instead of a child process
// (what NewClient does after cmd.Start, minus the handshake). The result has no process: never call Close.
func VerifNewClient(r io.Reader, w io.Writer) *Client {
	return &Client{read: bufio.NewReader(r), write: w}
}

// VerifHandshake is the `tei` / `teiok` exchange NewClient performs after starting the engine.
func (c *Client) VerifHandshake() error {
	_, err := c.sendCommand("tei", "teiok")
	return err
}

// VerifSend exposes sendCommand (used only to feed the client replies of engines other than ours).
func (c *Client) VerifSend(cmd, expect string) ([]string, error) {
	return c.sendCommand(cmd, expect)
}

// VerifFormatTime exposes the unexported duration formatter (nanoseconds in).
func VerifFormatTime(ns int64) string {
	return formatTime(time.Duration(ns))
}
