package gencorpus

import (
	"context"
	"time"

	"github.com/nelhage/taktician/tak"
)

// Access for the /verif harness (compiled in only through `go build -overlay`).
//
// VerifEvaluate runs the labelling stage of `taktician gencorpus` — `(*Command).evaluate`, the goroutine that
// Execute starts between the position selector and the CSV writer — in-process on a given list of positions,
// with ONE worker (threads = 1), so that all positions go through one worker's one solver / engine in the
// given order, exactly as the positions a worker happens to receive do.  Nothing of the command is replaced.

// VerifLabel is one corpus entry as the CSV writer would receive it (Dropped: the worker did not emit an entry
// for the position, which only `-analysis winning` does).
type VerifLabel struct {
	Dropped bool
	Move    tak.Move
	Value   float64
	Other   []tak.Move
}

func VerifEvaluate(analysis string, size int, limit time.Duration, ps []*tak.Position) []VerifLabel {
	c := &Command{size: size, threads: 1, analysis: analysis, limit: limit}
	positions := make(chan *tak.Position)
	results := make(chan entry)
	go c.evaluate(context.Background(), positions, results)
	out := make([]VerifLabel, len(ps))
	for i := range out {
		out[i].Dropped = true
	}
	index := func(p *tak.Position) int {
		for i, q := range ps {
			if q == p {
				return i
			}
		}
		panic("VerifEvaluate: entry for a position that was not sent")
	}
	take := func(e entry) {
		out[index(e.pos)] = VerifLabel{Move: e.move, Value: e.value, Other: e.otherMoves}
	}
	// The single worker alternates between receiving a position and (unless it drops the entry) sending the
	// result; both channels are unbuffered, so offering the next position and accepting a result at the same
	// time follows it whichever it does.
	for _, p := range ps {
		sent := false
		for !sent {
			select {
			case positions <- p:
				sent = true
			case e := <-results:
				take(e)
			}
		}
	}
	close(positions)
	for e := range results {
		take(e)
	}
	return out
}
