package tak

// Read-only access for the /verif harness. Compiled in only through
// `go build -overlay`; not part of the repository.

type VerifRaw struct {
	Size, Pieces, Capstones int
	BWT                     bool
	Move                    int
	WS, WC, BS, BC          byte
	White, Black, Standing  uint64
	Caps                    uint64
	Height                  []uint8
	Stacks                  []uint64
	Hash                    uint64
	WG, BG                  []uint64
}

func VerifBasis() [64]uint64 { return basis }

// VerifFromRaw builds a position with exactly the given fields and runs analyze().
func VerifFromRaw(r VerifRaw) *Position {
	p := New(Config{Size: r.Size, Pieces: r.Pieces, Capstones: r.Capstones, BlackWinsTies: r.BWT})
	p.cfg.Pieces = r.Pieces
	p.cfg.Capstones = r.Capstones
	p.move = r.Move
	p.whiteStones, p.whiteCaps, p.blackStones, p.blackCaps = r.WS, r.WC, r.BS, r.BC
	p.White, p.Black, p.Standing, p.Caps = r.White, r.Black, r.Standing, r.Caps
	copy(p.Height, r.Height)
	copy(p.Stacks, r.Stacks)
	p.hash = r.Hash
	p.analyze()
	return p
}

func (p *Position) VerifRaw() VerifRaw {
	r := VerifRaw{
		Size: p.cfg.Size, Pieces: p.cfg.Pieces, Capstones: p.cfg.Capstones, BWT: p.cfg.BlackWinsTies,
		Move: p.move,
		WS:   p.whiteStones, WC: p.whiteCaps, BS: p.blackStones, BC: p.blackCaps,
		White: p.White, Black: p.Black, Standing: p.Standing, Caps: p.Caps,
		Hash: p.hash,
	}
	r.Height = append(r.Height, p.Height...)
	r.Stacks = append(r.Stacks, p.Stacks...)
	r.WG = append(r.WG, p.analysis.WhiteGroups...)
	r.BG = append(r.BG, p.analysis.BlackGroups...)
	return r
}

// VerifHashFromScratch recomputes the internal hash field from the stacks.
func (p *Position) VerifHashFromScratch() uint64 {
	h := uint64(fnvBasis)
	for i := range p.Height {
		h ^= p.hashAt(uint(i))
	}
	return h
}

func VerifSlidesTable() [][]Slides { return slides }

// VerifRehash returns the raw form with the internal hash field recomputed from the stacks.
func (p *Position) VerifRehash() VerifRaw {
	p.hash = p.VerifHashFromScratch()
	return p.VerifRaw()
}

func VerifHash8(basis uint64, b byte) uint64    { return hash8(basis, b) }
func VerifHash64(basis uint64, w uint64) uint64 { return hash64(basis, w) }
