package importptn

import (
	"context"
	"flag"
	"fmt"
	"io"
	"os"
	"sync"
	"sync/atomic"

	"github.com/jmoiron/sqlx"
)

// Access for the /verif harness (compiled in only through `go build -overlay`).
//
// `taktician import-ptn GAMES.db` is run in-process exactly as the subcommand dispatcher runs it (fresh Command,
// SetFlags, Parse, Execute) on a real sqlite database file that the harness creates with the schema quoted in sql.go,
// fills with the generated rows and reads back afterwards.  Package log is redirected at build time
// (harness/rewrite/cmd_importptn_command.json).

type verifFatal struct{ msg string }

type verifLogger struct{}

var verifLog verifLogger
var verifLogged int64 // number of Printf/Println calls (the "could not import" line among them)

func (verifLogger) Fatal(a ...interface{})            { panic(verifFatal{fmt.Sprint(a...)}) }
func (verifLogger) Fatalf(f string, a ...interface{}) { panic(verifFatal{fmt.Sprintf(f, a...)}) }
func (verifLogger) Printf(f string, a ...interface{}) { atomic.AddInt64(&verifLogged, 1) }
func (verifLogger) Println(a ...interface{})          { atomic.AddInt64(&verifLogged, 1) }

// VerifGame is one row of the playtak `games` table as the command reads it.
type VerifGame = gameRow

// VerifPTN is one row of the `ptns` table the command writes.
type VerifPTN = ptnRow

// VerifImportOne is importOne: the PTN text of one game row ("" when the row has no notation or is rejected).
func VerifImportOne(g *VerifGame) (string, error) { return importOne(g) }

const verifGamesSchema = `
CREATE TABLE games (
   id INTEGER PRIMARY KEY,
   date INT,
   size INT,
   player_white VARCHAR(20),
   player_black VARCHAR(20),
   notation TEXT,
   result VARCAR(10),
   timertime INT DEFAULT 0,
   timerinc INT DEFAULT 0,
   rating_white int default 1000,
   rating_black int default 1000,
   unrated int default 0,
   tournament int default 0,
   komi int default 0,
   pieces int default -1,
   capstones int default -1,
   rating_change_white int default 0,
   rating_change_black int default 0);
`

var verifMu sync.Mutex

func verifReadPTNs(path string) []VerifPTN {
	db, err := sqlx.Open("sqlite3", path)
	if err != nil {
		panic(err)
	}
	defer db.Close()
	var out []VerifPTN
	if err := db.Select(&out, "SELECT id, ptn FROM ptns ORDER BY id"); err != nil {
		panic(err)
	}
	return out
}

func verifExecute(path string) (fatal bool, logged int64) {
	atomic.StoreInt64(&verifLogged, 0)
	cmd := &Command{}
	fs := flag.NewFlagSet("import-ptn", flag.ContinueOnError)
	fs.SetOutput(io.Discard)
	cmd.SetFlags(fs)
	if err := fs.Parse([]string{path}); err != nil {
		panic(err)
	}
	func() {
		defer func() {
			if x := recover(); x != nil {
				if _, ok := x.(verifFatal); ok {
					fatal = true
					return
				}
				panic(x)
			}
		}()
		cmd.Execute(context.Background(), fs)
	}()
	return fatal, atomic.LoadInt64(&verifLogged)
}

// VerifImport builds a database holding `games`, runs the command on it twice and returns the `ptns` table
// (ordered by id) after each run, and the number of log lines of each run.
func VerifImport(games []VerifGame) (first, second []VerifPTN, fatal bool, logged [2]int64) {
	verifMu.Lock()
	defer verifMu.Unlock()
	f, err := os.CreateTemp("", "verifh-import-*.db")
	if err != nil {
		panic(err)
	}
	path := f.Name()
	f.Close()
	defer os.Remove(path)
	db, err := sqlx.Open("sqlite3", path)
	if err != nil {
		panic(err)
	}
	db.MustExec(verifGamesSchema)
	for i := range games {
		g := &games[i]
		db.MustExec("INSERT INTO games (id, date, size, player_white, player_black, notation, result, timertime, timerinc) VALUES (?,?,?,?,?,?,?,?,?)",
			g.Id, g.Date, g.Size, g.PlayerWhite, g.PlayerBlack, g.Notation, g.Result, g.TimerTime, g.TimerInc)
	}
	db.Close()
	var ft bool
	ft, logged[0] = verifExecute(path)
	fatal = fatal || ft
	first = verifReadPTNs(path)
	ft, logged[1] = verifExecute(path)
	fatal = fatal || ft
	second = verifReadPTNs(path)
	return
}
