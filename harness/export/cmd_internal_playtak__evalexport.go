package playtak

// Read-only access for the /verif harness (C18: further built-in weight sets).

import "github.com/nelhage/taktician/ai"

func VerifEvalEasyWeights() ai.Weights { return easyWeights }
func VerifEvalMedWeights() ai.Weights  { return medWeights }
