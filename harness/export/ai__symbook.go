package ai

import "github.com/nelhage/taktician/tak"

// Read-only access to the opening book for the /verif harness (compiled in only through `go build -overlay`).

// VerifBookHashes lists the keys of the book.
func (ob *OpeningBook) VerifBookHashes() []uint64 {
	var out []uint64
	for h := range ob.book {
		out = append(out, h)
	}
	return out
}

// VerifBookEntry returns the stored position and its children (moves and weights, in stored order).
func (ob *OpeningBook) VerifBookEntry(h uint64) (*tak.Position, []tak.Move, []int, bool) {
	pos, ok := ob.book[h]
	if !ok {
		return nil, nil, nil, false
	}
	var ms []tak.Move
	var ws []int
	for _, ch := range pos.moves {
		ms = append(ms, ch.move)
		ws = append(ws, ch.weight)
	}
	return pos.p, ms, ws, true
}
