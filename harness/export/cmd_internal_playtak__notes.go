package playtak

// /verif (work package fparepair): does this tree carry fixes/C07-fpa-record-notes.diff (the FPA rule's notes are
// rebuilt from the game record on every Friendly.GetMove call), and - on a tree that does not - is a GetMove call
// about to use notes that are not those of the record?  Compiled in only through `go build -overlay`.

import (
	"sync"

	"github.com/nelhage/taktician/playtak/bot"
	"github.com/nelhage/taktician/tak"
)

var verifRepairedOnce sync.Once
var verifRepaired bool

// VerifFPARepaired probes the real Friendly.GetMove: a double-stack game, bot Black, 5x5, record c3 d4 d4< of
// which the rule was shown nothing.  The repaired code scripts Black's second stone next to c3; the code before
// the patch next to a1 (the zero value of blackPlace).
func VerifFPARepaired() bool {
	verifRepairedOnce.Do(func() {
		defer func() { recover() }()
		v := VerifNewFPA("doublestack", tak.Black, 5)
		for _, m := range []tak.Move{
			{X: 2, Y: 2, Type: tak.PlaceFlat},
			{X: 3, Y: 3, Type: tak.PlaceFlat},
			{X: 3, Y: 3, Type: tak.SlideLeft, Slides: tak.MkSlides(1)},
		} {
			if v.Play(m) != nil {
				return
			}
		}
		m, _, _ := v.Step(tak.Move{})
		dx, dy := int(m.X)-2, int(m.Y)-2
		verifRepaired = m.Type == tak.PlaceFlat && dx*dx+dy*dy == 1
	})
	return verifRepaired
}

func verifNotesOf(r FPARule) string {
	c := &VerifCompose{F: &Friendly{fpa: r}}
	return c.VerifRuleNotes()
}

func verifFreshLike(r FPARule) FPARule {
	switch r.(type) {
	case *CenterBlack:
		return &CenterBlack{}
	case *DoubleStack:
		return &DoubleStack{}
	case *Cairn:
		return &Cairn{}
	}
	return nil
}

// VerifNotesOutOfStep: on a tree WITHOUT the patch, would a live Friendly.GetMove(p) on the record g judge the
// newest pair differently, or be left with other notes, than a rule that was shown the whole record in order
// (which is what the patched code computes)?  Always false on a patched tree.  The live rule is not touched.
func VerifNotesOutOfStep(rule FPARule, g *bot.Game, p *tak.Position) (out bool) {
	if rule == nil || g == nil || p == nil || p.MoveNumber() <= 0 || VerifFPARepaired() {
		return false
	}
	if len(g.Moves) == 0 || len(g.Positions) != len(g.Moves)+1 {
		return false
	}
	fresh := verifFreshLike(rule)
	if fresh == nil {
		return false
	}
	// a panic inside LegalMove on either side: the two disagree unless both panic; leave that to the comparison
	type res struct {
		notes    string
		ok, died bool
	}
	run := func(f func() error, r FPARule) (x res) {
		defer func() {
			if recover() != nil {
				x = res{died: true}
			}
		}()
		err := f()
		return res{notes: verifNotesOf(r), ok: err == nil}
	}
	live := VerifCloneRule(rule)
	n := len(g.Moves)
	a := run(func() error { return live.LegalMove(g.Positions[n-1], g.Moves[n-1]) }, live)
	b := run(func() error {
		var err error
		for i := 0; i < n; i++ {
			err = fresh.LegalMove(g.Positions[i], g.Moves[i])
		}
		return err
	}, fresh)
	return a != b
}

// VerifNotesOutOfStep on the game of a composed session
func (c *VerifCompose) VerifNotesOutOfStep(p *tak.Position) bool {
	if c.F == nil {
		return false
	}
	return VerifNotesOutOfStep(c.F.fpa, c.G, p)
}

// ... and of a glue session
func (v *VerifGlue) VerifNotesOutOfStep(p *tak.Position) bool {
	if v.F == nil {
		return false
	}
	return VerifNotesOutOfStep(v.F.fpa, v.G, p)
}
