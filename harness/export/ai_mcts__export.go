package mcts

// Access for the /verif harness to cornerMove, populate and update.
// Compiled in only through `go build -overlay`; not part of the repository.

import (
	"context"
	"math/rand"

	"github.com/nelhage/taktician/tak"
)

type verifBits struct {
	bits []int
	i    int
}

type verifExhausted struct{}

// Int63 feeds chosen bits to rand.Rand: Intn(2) = Int31n(2) = Int31()&1 = (Int63()>>32)&1.
func (s *verifBits) Int63() int64 {
	if s.i >= len(s.bits) {
		panic(verifExhausted{})
	}
	b := s.bits[s.i]
	s.i++
	return int64(b) << 32
}
func (s *verifBits) Seed(int64) {}

// VerifCornerMove runs cornerMove with math/rand answering Intn(2) from `bits`.
// more = the bits ran out before an empty corner was drawn.
func VerifCornerMove(p *tak.Position, bits []int) (m tak.Move, more bool) {
	src := &verifBits{bits: bits}
	ai := &MonteCarloAI{r: rand.New(src)}
	defer func() {
		if r := recover(); r != nil {
			if _, ok := r.(verifExhausted); ok {
				more = true
				return
			}
			panic(r)
		}
	}()
	m = ai.cornerMove(p)
	return m, false
}

type VerifChild struct {
	Move   tak.Move
	Proven int
}

// VerifPopulate expands one node the way the search does.
func VerifPopulate(p *tak.Position) []VerifChild {
	mc := &MonteCarloAI{}
	t := &tree{position: p}
	mc.populate(context.Background(), t)
	var out []VerifChild
	for _, c := range t.children {
		out = append(out, VerifChild{c.move, c.proven})
	}
	return out
}

// VerifNode is one node on a root-to-leaf path plus the `proven` marks of its siblings.
type VerifNode struct {
	Proven, Sims, Value int
	Siblings            []int
}

// VerifUpdate builds the path (path[0] = root), runs update(leaf, value) and returns the path's numbers
// and every sibling's `proven` afterwards.
func VerifUpdate(path []VerifNode, value int) []VerifNode {
	mc := &MonteCarloAI{}
	var nodes []*tree
	var parent *tree
	for _, n := range path {
		t := &tree{proven: n.Proven, simulations: n.Sims, value: n.Value, parent: parent}
		if parent != nil {
			parent.children = append(parent.children, t)
			for _, sp := range n.Siblings {
				parent.children = append(parent.children, &tree{proven: sp, parent: parent})
			}
		}
		nodes = append(nodes, t)
		parent = t
	}
	mc.update(nodes[len(nodes)-1], value)
	out := make([]VerifNode, len(nodes))
	for i, t := range nodes {
		out[i] = VerifNode{Proven: t.proven, Sims: t.simulations, Value: t.value}
		if t.parent != nil {
			for _, s := range t.parent.children[1:] {
				out[i].Siblings = append(out[i].Siblings, s.proven)
			}
		}
	}
	return out
}
