import TakVerif.Generated.Facts
import TakVerif.Generated.Funcs
import TakVerif.Impl.Bitboard
import TakVerif.Impl.Position
import TakVerif.Impl.Move
import TakVerif.Spec.Tak
import TakVerif.Spec.Shapes
