import TakVerif.Proofs.Flood
#check @List.nodup_append
example (g : Nat) : [g].Nodup := by simp
