-- hand-written bootstrap; replaced by gen/factgen output
namespace Facts
def defaultPieces : List Nat := [0, 0, 0, 10, 15, 21, 30, 40, 50]
def defaultCaps : List Nat := [0, 0, 0, 0, 0, 1, 1, 2, 2]
def colorWhite : Nat := 128
def colorBlack : Nat := 64
def colorMask : Nat := 192
def kindFlat : Nat := 1
def kindStanding : Nat := 2
def kindCapstone : Nat := 3
def typeMask : Nat := 3
def fnvBasis : Nat := 14695981039346656037
def mtPass : Nat := 1
def mtPlaceFlat : Nat := 2
def mtPlaceStanding : Nat := 3
def mtPlaceCapstone : Nat := 4
def mtSlideLeft : Nat := 5
def mtSlideRight : Nat := 6
def mtSlideUp : Nat := 7
def mtSlideDown : Nat := 8
end Facts
