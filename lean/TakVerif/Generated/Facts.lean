-- Values taken from the Go sources. Every annotated line is re-extracted from /repo by /verif/gen on each check run.
namespace Facts
def defaultPieces : List Nat := [0, 0, 0, 10, 15, 21, 30, 40, 50]  -- go: tak/game.go var defaultPieces
def defaultCaps : List Nat := [0, 0, 0, 0, 0, 1, 1, 2, 2]  -- go: tak/game.go var defaultCaps
def colorWhite : Nat := 128  -- go: tak/pieces.go const White
def colorBlack : Nat := 64  -- go: tak/pieces.go const Black
def colorMask : Nat := 192  -- go: tak/pieces.go const colorMask
def kindFlat : Nat := 1  -- go: tak/pieces.go const Flat
def kindStanding : Nat := 2  -- go: tak/pieces.go const Standing
def kindCapstone : Nat := 3  -- go: tak/pieces.go const Capstone
def typeMask : Nat := 3  -- go: tak/pieces.go const typeMask
def fnvBasis : Nat := 14695981039346656037  -- go: tak/hash.go const fnvBasis
def fnvPrime : Nat := 1099511628211  -- go: tak/hash.go const fnvPrime
def mtPass : Nat := 1  -- go: tak/move.go const Pass
def mtPlaceFlat : Nat := 2  -- go: tak/move.go const PlaceFlat
def mtPlaceStanding : Nat := 3  -- go: tak/move.go const PlaceStanding
def mtPlaceCapstone : Nat := 4  -- go: tak/move.go const PlaceCapstone
def mtSlideLeft : Nat := 5  -- go: tak/move.go const SlideLeft
def mtSlideRight : Nat := 6  -- go: tak/move.go const SlideRight
def mtSlideUp : Nat := 7  -- go: tak/move.go const SlideUp
def mtSlideDown : Nat := 8  -- go: tak/move.go const SlideDown
def mtTypeMask : Nat := 15  -- go: tak/move.go const TypeMask
end Facts
