-- constants of cmd/internal/playtak/friendly.go used by the bot glue model (Impl/Friendly.lean, Props/C20_glue.lean)
-- (hand-written bootstrap in the annotated format; re-extracted from /repo by gen)
namespace Facts
def minThink : Int := 5000000000  -- go: cmd/internal/playtak/friendly.go const minThink
def maxThink : Int := 60000000000  -- go: cmd/internal/playtak/friendly.go const maxThink
def undoTimeout : Int := 30000000000  -- go: cmd/internal/playtak/friendly.go const undoTimeout
def defaultLevel : Int := 6  -- go: cmd/internal/playtak/friendly.go const defaultLevel
end Facts
