-- constants read by the command front ends (cmd/internal/analyze, cmd/internal/gencorpus); re-extracted from the Go source on every run
namespace Facts
def dfpnDefaultTableMem : Nat := 104857600  -- go: prove/dfpn.go const defaultTableMem
end Facts
