-- hand-written bootstrap; replaced by gen/go2lean output
namespace Gen

structure Constants where
  Size : Nat
  L : BitVec 64
  R : BitVec 64
  T : BitVec 64
  B : BitVec 64
  Edge : BitVec 64
  Mask : BitVec 64
deriving Repr, DecidableEq, Inhabited

def precompute_loop0 (size : Nat) : Nat → BitVec 64 → BitVec 64
  | 0, r => r
  | n+1, r =>
    let i := size - (n+1)
    precompute_loop0 size n (r ||| (1#64 <<< (i * size)))

def precompute (size : Nat) : Constants :=
  let r := precompute_loop0 size size 0#64
  let l := r <<< (size - 1)
  let t := ((1#64 <<< size) - 1#64) <<< (size * (size - 1))
  let b := (1#64 <<< size) - 1#64
  let mask := (1#64 <<< (size * size)) - 1#64
  { Size := size, L := l, R := r, T := t, B := b, Mask := mask, Edge := l ||| r ||| b ||| t }

def grow (c : Constants) (within seed : BitVec 64) : BitVec 64 :=
  let next := seed
  let next := next ||| ((seed <<< 1) &&& ~~~c.R)
  let next := next ||| ((seed >>> 1) &&& ~~~c.L)
  let next := next ||| (seed >>> c.Size)
  let next := next ||| (seed <<< c.Size)
  next &&& within

end Gen

namespace Gen
def fnvPrime : BitVec 64 := 1099511628211#64

def hash8 (basis : BitVec 64) (b : BitVec 8) : BitVec 64 :=
  (basis ^^^ b.setWidth 64) * fnvPrime

def hash64 (basis : BitVec 64) (w : BitVec 64) : BitVec 64 :=
  let h := basis
  let h := (h ^^^ (w &&& 0xff#64)) * fnvPrime
  let h := (h ^^^ ((w >>> 8) &&& 0xff#64)) * fnvPrime
  let h := (h ^^^ ((w >>> 16) &&& 0xff#64)) * fnvPrime
  let h := (h ^^^ (w >>> 24)) * fnvPrime
  h
end Gen
