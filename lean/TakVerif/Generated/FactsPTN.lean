-- constants of ptn/, playtak/client.go and ai/ that the PTN-file / chat / weights-JSON models depend on
-- (`Facts.maxFeature` is in FactsEval.lean)
namespace Facts
def resultRE : String := "^(F|R|1/2|1|0)-(F|R|1/2|1|0)$"  -- go: ptn/ptn.go regexp resultRE
def tellRE : String := "^Tell <([^> ]+)> (.+)$"  -- go: playtak/client.go regexp tellRE
def shoutRE : String := "^Shout <([^> ]+)> (.+)$"  -- go: playtak/client.go regexp shoutRE
def shoutRoomRE : String := "^ShoutRoom (\\S+) <([^> ]+)> (.+)$"  -- go: playtak/client.go regexp shoutRoomRE
def featureNameBlob : String := "TempoTopFlatStandingCapstoneHardTopCapCapMobilityFlatCaptives_SoftFlatCaptives_HardStandingCaptives_SoftStandingCaptives_HardCapstoneCaptives_SoftCapstoneCaptives_HardLibertiesGroupLibertiesGroupsGroups_1Groups_2Groups_3Groups_4Groups_5Groups_6Groups_7Groups_8PotentialThreatEmptyControlFlatControlCenterCenterControlThrowMineThrowTheirsThrowEmptyTerminal_PliesTerminal_FlatsTerminal_ReservesTerminal_OpponentReservesMaxFeature"  -- go: ai/feature_string.go const _Feature_name
def featureIndex : List Nat := [0, 5, 12, 20, 28, 38, 49, 66, 83, 104, 125, 146, 167, 176, 190, 196, 204, 212, 220, 228, 236, 244, 252, 260, 269, 275, 287, 298, 304, 317, 326, 337, 347, 361, 375, 392, 417, 427]  -- go: ai/feature_string.go var _Feature_index
end Facts
