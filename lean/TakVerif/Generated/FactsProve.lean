-- constants of package prove (and the ones of math the solvers use); re-extracted from the Go source on every run
namespace Facts
def dfpnInfinity : Nat := 1073741824  -- go: prove/dfpn.go const INFINITY
def kCheckFrequency : Nat := 1000  -- go: prove/pn.go const kCheckFrequency
def pn2Threshold : Nat := 1000  -- go: prove/pn.go const pn2Threshold
def evalUnknown : Nat := 0  -- go: prove/pn.go const EvalUnknown
def evalTrue : Nat := 1  -- go: prove/pn.go const EvalTrue
def evalFalse : Nat := 2  -- go: prove/pn.go const EvalFalse
def flagIrreversible : Nat := 1  -- go: prove/pn.go const flagIrreversible
def flagExpanded : Nat := 2  -- go: prove/pn.go const flagExpanded
def flagAnd : Nat := 4  -- go: prove/pn.go const flagAnd
def poolSize : Nat := 1024  -- go: prove/dfpn.go const poolSize
end Facts
