-- constants of ai/minimax.go the search model and the C04/C05/C16 theorems depend on
-- (MaxEval, MinEval, WinThreshold, WinBase, ForcedWin are in FactsEval.lean)
import TakVerif.Generated.FactsEval
namespace Facts
def defaultTableMem : Nat := 104857600  -- go: ai/minimax.go const defaultTableMem
def maxDedup : Int := 4  -- go: ai/minimax.go const maxDedup
def maxDepth : Nat := 15  -- go: ai/minimax.go const maxDepth
def multiCutSearch : Nat := 6  -- go: ai/minimax.go const multiCutSearch
def multiCutThreshold : Nat := 3  -- go: ai/minimax.go const multiCutThreshold
def hashMul : Nat := 7046029254386353131  -- go: ai/minimax.go const hashMul
def lowerBound : Nat := 0  -- go: ai/minimax.go const lowerBound
def exactBound : Nat := 1  -- go: ai/minimax.go const exactBound
def upperBound : Nat := 2  -- go: ai/minimax.go const upperBound
end Facts
