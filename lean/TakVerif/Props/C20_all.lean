import TakVerif.Props.C20_size4
import TakVerif.Props.C20_size5
import TakVerif.Props.C20_size6
import TakVerif.Props.C20_size7
import TakVerif.Props.C20_size8
import TakVerif.Props.C20_glue

/-! # C20 over all board sizes: the per-size theorems combined

`fpa_doubleStack` is the full claim `fpa_doubleStack_statement` and `fpa_cairn` the full claim
`fpa_cairn_statement` (sizes 4..8, both colours).  Cairn on 4×4 and 5×5 is evaluated opening by opening;
on 6×6, 7×7 and 8×8 it goes through the frame theorem (`holds_of_frame`, `Proofs.FPAFrame.check_frame`):
first stones that are neither on a centre square nor next to one are never looked at or moved, so that
the 1260 / 2352 / 4032 pairs of first stones reduce to 157 / 31 / 157 placements on those squares. -/
namespace C20
open Tak Tak.FPA Tak.Glue Spec.FPA Proofs.FPA Proofs.FPAMini

/-- **Double-stack variant, every board size 4..8, both colours** (`fpa_doubleStack_statement`): for every
opening — all placements of the two first stones, every move of the generator that is legal by the rule
book and accepted by the variant's own rule check at each unscripted ply — every move the bot scripts
(plies 2 and 4 as White: the detour of its first stone and the way back; plies 3 and 5 as Black: the
second stone beside the first, not on White's return square, and the stacking slide) is legal by the rule
book and accepted by that same rule check, and the rule code never panics. -/
theorem fpa_doubleStack : fpa_doubleStack_statement := by
  intro size hs color hc
  simp only [List.mem_cons, List.mem_nil_iff, or_false] at hs hc
  rcases hs with rfl | rfl | rfl | rfl | rfl <;> rcases hc with rfl | rfl
  · exact fpa_doubleStack_partial_white
  · exact fpa_doubleStack_partial_black
  · exact fpa_doubleStack_partial5_white
  · exact fpa_doubleStack_partial5_black
  · exact fpa_doubleStack_partial6_white
  · exact fpa_doubleStack_partial6_black
  · exact fpa_doubleStack_partial7_white
  · exact fpa_doubleStack_partial7_black
  · exact fpa_doubleStack_partial8_white
  · exact fpa_doubleStack_partial8_black

/-- **Cairn variant, every board size 4..8, both colours** (`fpa_cairn_statement`): for every opening — all
placements of the two first stones, every move of the generator that is legal by the rule book and accepted
by the variant's own rule check at each unscripted ply — every move the bot scripts (plies 2 and 4 as
White: the stone beside the centre and its step onto a centre square next to Black's stone; plies 3 and 5 as
Black: the first free square the rule accepts two steps from White's stone, diagonal towards the centre
first, and the capture of White's stone) is legal by the rule book and accepted by that same rule check, and
the rule code never panics. -/
theorem fpa_cairn : fpa_cairn_statement := by
  intro size hs color hc
  simp only [List.mem_cons, List.mem_nil_iff, or_false] at hs hc
  rcases hs with rfl | rfl | rfl | rfl | rfl <;> rcases hc with rfl | rfl
  · exact fpa_cairn_partial_white
  · exact fpa_cairn_partial_black
  · exact fpa_cairn_partial5_white
  · exact fpa_cairn_partial5_black
  · exact fpa_cairn_partial6_white
  · exact fpa_cairn_partial6_black
  · exact fpa_cairn_partial7_white
  · exact fpa_cairn_partial7_black
  · exact fpa_cairn_partial8_white
  · exact fpa_cairn_partial8_black

/-- all three variants, sizes 4..8, both colours, with the horizon each is stated for -/
theorem fpa_all (var : Variant) (size : Nat) (hs : size ∈ [4, 5, 6, 7, 8]) (color : Color)
    (hc : color ∈ [Color.white, Color.black]) : Holds var color size (if var = .center then 2 else 6) := by
  cases var
  · exact fpa_centre size hs color hc
  · exact fpa_doubleStack size hs color hc
  · exact fpa_cairn size hs color hc

/-- **`Friendly.GetMove` under the double-stack or the cairn rule, every board size 4..8, both colours**: every
move returned during the scripted opening (6 plies and the check of the last one) is the zero move or legal by
the rule book — `friendly_move_legal` (`Props/C20_glue.lean`) with its hypothesis `Holds` discharged by
`fpa_doubleStack` and `fpa_cairn` (there it was available for 4×4 and 5×5 only: `friendly_move_legal_4x4_5x5`). -/
theorem friendly_move_legal_all_sizes (var : Variant) (hv : var ≠ .center) (color : Color)
    (hc : color ∈ [Color.white, Color.black]) (size : Nat) (hs : size ∈ [4, 5, 6, 7, 8])
    (k : Nat) (hk : k ≤ 6) (t : St Spec.State) (hreach : Reach specBoard var color k (init size) t)
    (g : GameRec) (p : Pos) (o : CheckOracle) (f' : Option (Variant × Rule)) (a : Action)
    (hcol : g.color = color) (hview : viewOfPos p = viewOf t.cur) (hmv : p.toMove = t.cur.toMove)
    (hprev : prevViews g = t.prev.map (fun (q, m) => (viewOf q, m)))
    (r : Rule) (hnotes : Glue.entryNotes var r g p = .ok t.rule)
    (h : Glue.friendlyGetMove (some (var, r)) g p o = .ok (f', a))
    (ans : Move) (hsearch : a.searches = true → (Spec.step t.cur (Spec.decode ans)).isSome = true) :
    a.returned ans = zeroMove ∨ (Spec.step t.cur (Spec.decode (a.returned ans))).isSome = true := by
  have hH : Holds var color size 6 := by
    cases var
    · exact absurd rfl hv
    · exact fpa_doubleStack size hs color hc
    · exact fpa_cairn size hs color hc
  exact friendly_move_legal var color size 6 hH k hk t hreach g p o f' a hcol hview hmv hprev r hnotes h ans hsearch

/-! ### a concrete instance on the 8×8 board

`a1`, `h8` (the first two candidates that lead anywhere are picked by index), the bot as White: the
state after two moves is reachable, the double-stack rule scripts the detour `h8<` there, and
`fpa_doubleStack` says it is legal. -/

section instance8
set_option maxRecDepth 1000000

/-- the state after Black's stone on a1 -/
def ex1 : St Spec.State := (next specBoard .doubleStack .white (init 8)).getD 0 (init 8)
/-- … and White's stone on h8 (the last flat placement of the generator: 3·63 candidates on the empty squares, four slides of the a1 stone before them) -/
def ex2 : St Spec.State := (next specBoard .doubleStack .white ex1).getD 62 (init 8)

theorem ex1_mem : ex1 ∈ next specBoard .doubleStack .white (init 8) := by
  unfold ex1
  have h : 0 < (next specBoard .doubleStack .white (init 8)).length := by decide +kernel
  simp only [List.getD_eq_getElem?_getD, List.getElem?_eq_getElem h, Option.getD_some]
  exact List.getElem_mem h

theorem ex2_mem : ex2 ∈ next specBoard .doubleStack .white ex1 := by
  unfold ex2
  have h : 62 < (next specBoard .doubleStack .white ex1).length := by decide +kernel
  simp only [List.getD_eq_getElem?_getD, List.getElem?_eq_getElem h, Option.getD_some]
  exact List.getElem_mem h

theorem ex2_reach : Reach specBoard .doubleStack .white 2 (init 8) ex2 :=
  .step 1 _ _ _ ex1_mem (.step 0 _ _ _ ex2_mem (.refl _))

/-- what the rule does at `ex2`: Black's stone is on a1, White's on h8, and the bot (White) scripts `h8<` -/
theorem ex2_turn :
    (turn specBoard .doubleStack .white ex2).toOption.map (·.2) = some (.scripted ⟨7, 7, Facts.mtSlideLeft, 1⟩) ∧
    (ex2.cur.squares.getD 0 [], ex2.cur.squares.getD 63 []) = ([⟨.black, .flat⟩], [⟨.white, .flat⟩]) := by
  decide +kernel

/-- the instance of `fpa_doubleStack`: that scripted move is legal by the rule book -/
example : (Spec.step ex2.cur (Spec.decode ⟨7, 7, Facts.mtSlideLeft, 1⟩)).isSome = true := by
  have hg := fpa_doubleStack 8 (by simp) .white (by simp) 2 ex2 (by omega) ex2_reach
  cases ht : turn specBoard .doubleStack .white ex2 with
  | error e =>
    have h2 := ex2_turn.1
    simp [ht, Except.toOption] at h2
  | ok v =>
    obtain ⟨r, rep⟩ := v
    have h2 := ex2_turn.1
    simp only [ht, Except.toOption, Option.map] at h2
    cases h2
    exact good_scripted _ _ _ _ _ hg ht

/-! ### … and one for the cairn variant: `a1`, `h8`, White's cairn stone on `d4`, the bot as Black -/

/-- the state after Black's stone on a1 -/
def cx1 : St Spec.State := (next specBoard .cairn .black (init 8)).getD 0 (init 8)
/-- … White's stone on h8 (placed by the bot) -/
def cx2 : St Spec.State := (next specBoard .cairn .black cx1).getD 62 (init 8)
/-- … and White's cairn stone on d4 (the fourth of the 12 squares the rule accepts) -/
def cx3 : St Spec.State := (next specBoard .cairn .black cx2).getD 3 (init 8)

theorem cx1_mem : cx1 ∈ next specBoard .cairn .black (init 8) := by
  unfold cx1
  have h : 0 < (next specBoard .cairn .black (init 8)).length := by decide +kernel
  simp only [List.getD_eq_getElem?_getD, List.getElem?_eq_getElem h, Option.getD_some]
  exact List.getElem_mem h

theorem cx2_mem : cx2 ∈ next specBoard .cairn .black cx1 := by
  unfold cx2
  have h : 62 < (next specBoard .cairn .black cx1).length := by decide +kernel
  simp only [List.getD_eq_getElem?_getD, List.getElem?_eq_getElem h, Option.getD_some]
  exact List.getElem_mem h

theorem cx3_mem : cx3 ∈ next specBoard .cairn .black cx2 := by
  unfold cx3
  have h : 3 < (next specBoard .cairn .black cx2).length := by decide +kernel
  simp only [List.getD_eq_getElem?_getD, List.getElem?_eq_getElem h, Option.getD_some]
  exact List.getElem_mem h

theorem cx3_reach : Reach specBoard .cairn .black 3 (init 8) cx3 :=
  .step 2 _ _ _ cx1_mem (.step 1 _ _ _ cx2_mem (.step 0 _ _ _ cx3_mem (.refl _)))

/-- what the rule does at `cx3`: Black's first stone is on a1 and White's on h8 (both far from the centre: the
frame theorem's case), White's cairn stone on d4, and the bot (Black) scripts its own on e5 -/
theorem cx3_turn :
    (turn specBoard .cairn .black cx3).toOption.map (·.2) = some (.scripted (place 4 4)) ∧
    (cx3.cur.squares.getD 0 [], cx3.cur.squares.getD 63 [], cx3.cur.squares.getD 27 []) =
      ([⟨.black, .flat⟩], [⟨.white, .flat⟩], [⟨.white, .flat⟩]) := by
  decide +kernel

/-- the instance of `fpa_cairn`: that scripted move is legal by the rule book -/
example : (Spec.step cx3.cur (Spec.decode (place 4 4))).isSome = true := by
  have hg := fpa_cairn 8 (by simp) .black (by simp) 3 cx3 (by omega) cx3_reach
  cases ht : turn specBoard .cairn .black cx3 with
  | error e =>
    have h2 := cx3_turn.1
    simp [ht, Except.toOption] at h2
  | ok v =>
    obtain ⟨r, rep⟩ := v
    have h2 := cx3_turn.1
    simp only [ht, Except.toOption, Option.map] at h2
    cases h2
    exact good_scripted _ _ _ _ _ hg ht

end instance8

end C20
