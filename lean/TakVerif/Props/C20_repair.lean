import TakVerif.Props.C20_all
import TakVerif.Proofs.FPARepair

/-! # C20 for the code with `fixes/C07-fpa-record-notes.diff`

`C20.Holds` (`Props/C20.lean`, proved for every variant, colour and size 4..8 by the evaluated shards) is about the
opening game in which the rule value is shown each pair of the record exactly once, in order (`Spec.FPA.turn`: one
`LegalMove` per call on the newest pair) — what the code did before the patch.  The patched `Friendly.GetMove` rebuilds
the notes from the whole record on every call (`Spec.FPA.turnR`, `Tak.FPA.friendlyGetMoveR`).  `holdsR_of_holds`: the
record-based game is simulated move for move by the incremental one (`Proofs.FPARepair.reach_sim`), **whatever notes the
rule value holds at the start of the game** — so every `Holds` theorem carries over without evaluating a single
opening again, and the claim now also covers one rule value used for several games. -/
namespace C20
open Tak Tak.FPA Spec.FPA Proofs.FPARepair

/-- C20 for one variant, bot colour and board size, for the patched code: from the start of a game, with a rule value
that remembers anything (`r0`), every state reachable within the horizon is good (no panic in the rule code, no
resignation over the bot's own scripted move, the move scripted now is legal) -/
def HoldsR (var : Variant) (color : Color) (size horizon : Nat) : Prop :=
  ∀ (r0 : Rule) (k : Nat) (t : StR Spec.State), k ≤ horizon →
    ReachR specBoard var color k (initR size r0) t → goodR specBoard var color t = true

/-- **the patched code plays the opening as the evaluated model did** -/
theorem holdsR_of_holds (var : Variant) (color : Color) (size horizon : Nat) (h : Holds var color size horizon) :
    HoldsR var color size horizon := by
  intro r0 k t hk hr
  obtain ⟨v, hv, hsim⟩ := reach_sim (color := color) spec_ply hr (init size) (sim_init var size r0)
  rw [good_sim (color := color) hsim]
  exact h k v hk hv

/-- **`fpa_all_repaired`** — every variant, both colours, sizes 4..8, any notes left in the rule value: the patched
opening scripts produce only legal, self-accepted moves and never panic (horizon 6; centre: 2 suffices) -/
theorem fpa_all_repaired (var : Variant) (size : Nat) (hs : size ∈ [4, 5, 6, 7, 8]) (color : Color)
    (hc : color ∈ [Color.white, Color.black]) : HoldsR var color size (if var = .center then 2 else 6) := by
  cases var with
  | center => exact holdsR_of_holds _ _ _ _ (fpa_centre size hs color hc)
  | doubleStack => exact holdsR_of_holds _ _ _ _ (fpa_doubleStack size hs color hc)
  | cairn => exact holdsR_of_holds _ _ _ _ (fpa_cairn size hs color hc)

theorem fpa_centre_repaired : ∀ size ∈ [4, 5, 6, 7, 8], ∀ color ∈ [Color.white, Color.black], HoldsR .center color size 2 :=
  fun size hs color hc => holdsR_of_holds _ _ _ _ (fpa_centre size hs color hc)

theorem fpa_doubleStack_repaired : ∀ size ∈ [4, 5, 6, 7, 8], ∀ color ∈ [Color.white, Color.black], HoldsR .doubleStack color size 6 :=
  fun size hs color hc => holdsR_of_holds _ _ _ _ (fpa_doubleStack size hs color hc)

theorem fpa_cairn_repaired : ∀ size ∈ [4, 5, 6, 7, 8], ∀ color ∈ [Color.white, Color.black], HoldsR .cairn color size 6 :=
  fun size hs color hc => holdsR_of_holds _ _ _ _ (fpa_cairn size hs color hc)

/-- what `goodR` gives at a state where the patched rule scripts a move: it is legal by the rule book -/
theorem goodR_scripted (var : Variant) (color : Color) (t : StR Spec.State) (r : Rule) (m : Move)
    (hg : goodR specBoard var color t = true) (ht : turnR specBoard var color t = .ok (r, .scripted m)) :
    (Spec.step t.cur (Spec.decode m)).isSome = true := by
  unfold goodR at hg
  rw [ht] at hg
  exact hg

/-- a concrete instance: a cairn rule value that still holds the squares of another game (`whitePlace = e5`, …), bot
White, 5×5: at the start it scripts nothing and leaves the notes alone; the state is good -/
example : goodR specBoard .cairn .white (initR 5 { whitePlaceX := 4, whitePlaceY := 4, blackPlaceX := 3, blackPlaceY := 3 }) = true ∧
    ReachR specBoard .cairn .white 0 (initR 5 { whitePlaceX := 4, whitePlaceY := 4 }) (initR 5 { whitePlaceX := 4, whitePlaceY := 4 }) :=
  ⟨by decide +kernel, .refl _⟩

end C20
