import TakVerif.Props.C20_glue
import TakVerif.Props.C04_pv
import TakVerif.Props.C03_WF

/-! # C20 (glue): `Friendly.GetMove` with the alpha-beta model as its searching player

`C20.friendly_move_legal` takes the legality of the searcher's answer as a hypothesis (`hsearch`: "legal whenever it is
consulted", the C04 contract).  Here the answer is what `Search.getMove` on the Tak instance returns from the engine
state the bot's `MinimaxAI` is in, and the hypothesis is *derived* (`C04.getMove_generated_tak` + `C01.move_ok_iff`):
every move `Friendly.GetMove` returns under an FPA rule is the zero move — resignation, not the bot's turn, or a
search cancelled before its first iteration completed — or legal by the rule book. -/
set_option linter.unusedVariables false
namespace C20
open Tak Tak.FPA Tak.Glue Spec.FPA Search

/-- **`friendly_move_legal_minimax`**.  As `friendly_move_legal`, with the opening-game state's current position being
the abstraction of the bit-level position `p` the bot holds (`hcur`; then `hview`/`hmv` hold by `viewOfPos_abs`,
`toMove_abs`) and the searcher's answer `ans` being `Search.getMove`'s on `p` (engine without a table, any options,
any cancel oracle and move order, any random stream; hints of known origin, `EngOK … FromGen`).
What remains assumed is about the position (`WF`, C01; a legal move exists, C04; the 64-piece stack limit, automatic
for default games ≤ 6×6) and the evaluator (C18's bound). -/
theorem friendly_move_legal_minimax (var : Variant) (color : Color) (size horizon : Nat)
    (hH : Holds var color size horizon) (k : Nat) (hk : k ≤ horizon) (t : St Spec.State)
    (hreach : Reach specBoard var color k (init size) t)
    (g : GameRec) (p : Pos) (o : CheckOracle) (f' : Option (Variant × Rule)) (a : Action)
    (hcol : g.color = color) (hview : viewOfPos p = viewOf t.cur) (hmv : p.toMove = t.cur.toMove)
    (hprev : prevViews g = t.prev.map (fun (q, m) => (viewOf q, m)))
    (r : Rule) (hnotes : Glue.entryNotes var r g p = .ok t.rule)
    (h : Glue.friendlyGetMove (some (var, r)) g p o = .ok (f', a))
    -- the searching player is the alpha-beta model
    (basis : Array W) (hcur : t.cur = Spec.abs p) (hwf : WF basis p) (hlim : ∀ m, StackLimit p m)
    (ev : Pos → Int) (sym : Pos → List H) (cfg : Search.Cfg) (orc : Oracle Move) (hord : OrderOK orc)
    (s s' : Eng Move) (ans : Move)
    (hrun : a.searches = true → Search.getMove (takGame basis ev sym) cfg orc p s = .ok (ans, s'))
    (hnt : s.hasTable = false)
    (hs : EngOK (takGame basis ev sym) (C04.FromGen (takGame basis ev sym) C04.SizeOK) (fun _ => False) s)
    (hmove : ∃ m ∈ p.allMoves, (p.apply basis m).isOk = true)
    (hev : ∀ m c, p.apply basis m = .ok c → ev c ≤ Facts.maxEval) :
    a.returned ans = zeroMove ∨ (Spec.step t.cur (Spec.decode (a.returned ans))).isSome = true := by
  by_cases hsr : a.searches = true
  · have hg := C04.getMove_generated_tak basis ev sym hord cfg p hwf hmove hev s hnt hs _ (hrun hsr)
    rcases hg.2 with hz | ⟨hmem, hok⟩
    · left
      cases a with
      | think l f => exact hz
      | resign msg => rfl
      | noMove => rfl
      | move m => exact absurd hsr (by simp [Action.searches])
    · have hnp : ans.type ≠ Facts.mtPass :=
        Tak.Proofs.legalShape_not_pass (Tak.Proofs.allMoves_legalShape' p hwf.size_ge hwf.size_le ans hmem)
      have hacc : ∃ q, p.apply basis ans = .ok q := by
        cases ha : p.apply basis ans with
        | ok q => exact ⟨q, rfl⟩
        | error e => rw [ha] at hok; cases hok
      have hrule := (C01.move_ok_iff C03.analyzeTotal basis p ans hwf hnp (hlim ans)).1 hacc
      exact friendly_move_legal var color size horizon hH k hk t hreach g p o f' a hcol hview hmv hprev r hnotes h ans
        (fun _ => by rw [hcur]; exact hrule)
  · exact friendly_move_legal var color size horizon hH k hk t hreach g p o f' a hcol hview hmv hprev r hnotes h ans
      (fun hh => absurd hh hsr)

/-- the two view hypotheses follow from `hcur` on a well-formed position -/
theorem views_of_abs (basis : Array W) (p : Pos) (hwf : WF basis p) (t : St Spec.State) (hcur : t.cur = Spec.abs p) :
    viewOfPos p = viewOf t.cur ∧ p.toMove = t.cur.toMove := by
  rw [hcur]
  exact ⟨viewOfPos_abs hwf, rfl⟩

/-- the hypotheses about the position and the engine are satisfiable: the friendly bot's 5×5 start position is
well-formed and has a generated move that `MovePreallocated` accepts; a new engine without a table is `EngOK` -/
example : (∀ p0, Pos.new (friendlyConfig false 5) = .ok p0 → WF (Array.replicate 64 0#64) p0) ∧
    (match Pos.new (friendlyConfig false 5) with
      | .ok p0 => p0.allMoves.any (fun m => (p0.apply (Array.replicate 64 0#64) m).isOk)
      | .error _ => false) = true ∧
    (∀ (g : Game Pos Move) (cfg : Search.Cfg), cfg.tableEntries = none →
      EngOK g (C04.FromGen g C04.SizeOK) (fun _ => False) (Eng.new g cfg) ∧ (Eng.new g cfg).hasTable = false) :=
  ⟨fun p0 h => C01.new_wf _ _ p0 h, by decide +kernel,
   fun g cfg h => ⟨C04.engOK_new_fromGen g _ _ cfg, by simp [Eng.new, h]⟩⟩

end C20
