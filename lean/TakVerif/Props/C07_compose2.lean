import TakVerif.Props.C07_compose
import TakVerif.Proofs.BotComposeLock

/-! # C07 composed, second part (work package botcompose2)

* `lock_faithful_iff` – `lock_faithful` with the missing link: as long as no thinker goroutine has panicked, thinker `j`
  is inside `Bot.GetMove` (state `running` of the loop model: it holds `moveLock`) **iff** the composed model has a call
  in progress and that call is thinker `j`'s; with no call in progress the lock is free.
* the concrete schedules of `C07.Ex` as theorems (`stale_thinker_panics`, `getMove_after_gameOver_panics`,
  `taktician_ponder_after_gameOver_panics`, `stale_thinker_fixed`, `cairn_undo_resigns_composed`,
  `doubleStack_resume_resigns_composed`, `doubleStack_resume_panics_composed`).
* `bot_dead_only_by_search`, `bot_never_dead_guarded` – the tree as it is now (`guard = true`) never loses a thinker
  goroutine to a panic, except through the searching player itself or through the FPA rule's script (open finding
  `C07-fpa-resume-panic`: excluded exactly by `VariantTotal`, which `center` satisfies and `doubleStack` does not). -/
namespace C07
open Tak Tak.Bot Tak.Glue Tak.FPA Tak.Compose Spec.FPA

variable {σ χ : Type}

/-! ## `inside` ⇔ `running` -/

theorem lockFree_startBot (c : Compose.Conf) (secs : Int) : lockFree (startBot c secs) = true := by
  unfold startBot
  split
  · rfl
  · simp only [lockFree, spawn]
    split <;> rfl

theorem linv_start (c : Compose.Conf) (secs : Int) (eng0 : σ) : LInv (Compose.start c secs eng0 : Compose.St σ χ) := by
  intro _ j
  have h := (lockFree_iff (startBot c secs)).mp (lockFree_startBot c secs) j
  constructor
  · intro hr; exact absurd hr h
  · rintro ⟨_, h1, _⟩; cases h1

/-- **`lock_faithful_iff`** — `lock_faithful` with the link it was missing.  In every reachable state of the composed
system (any `Bot`, any searching player, every event list):
1. at most one thinker is inside `Bot.GetMove` (`C07.lock_exclusive` along `compose_refines`);
2. as long as no thinker goroutine has panicked: thinker `j` is inside `GetMove` — it holds `moveLock`, state `running`
   of the loop model — **if and only if** the composed model has a call in progress (`inside`) and that call is thinker
   `j`'s.  So the call whose prefix ran at `enter` and whose search runs at `leave` is the call of THE lock holder, and
   whenever the model has no call in progress nobody is inside `GetMove`;
3. with no call in progress (and no panic) `moveLock` is free: the next `enter` is not blocked by a forgotten holder;
4. the call in progress is recorded and belongs to a thinker started on the position the call was handed. -/
theorem lock_faithful_iff (c : Compose.Conf) (hfix : c.bot.fixed = true) (hsize : 3 ≤ c.size ∧ c.size ≤ 8)
    (S : Searcher σ χ) (secs : Int) (eng0 : σ) (evs : List (Compose.Ev χ)) :
    holders (Compose.run c S (Compose.start c secs eng0) evs).b ≤ 1 ∧
    ((Compose.run c S (Compose.start c secs eng0) evs).dead = none →
      ∀ j, (∃ t, thinkerAt (Compose.run c S (Compose.start c secs eng0) evs).b j = some t ∧ t.st = .running) ↔
        ∃ call, (Compose.run c S (Compose.start c secs eng0) evs).inside = some call ∧ call.k = j) ∧
    ((Compose.run c S (Compose.start c secs eng0) evs).dead = none →
      (Compose.run c S (Compose.start c secs eng0) evs).inside = none →
      lockFree (Compose.run c S (Compose.start c secs eng0) evs).b = true) ∧
    ∀ call, (Compose.run c S (Compose.start c secs eng0) evs).inside = some call →
      call ∈ (Compose.run c S (Compose.start c secs eng0) evs).calls ∧
      ∃ t, thinkerAt (Compose.run c S (Compose.start c secs eng0) evs).b call.k = some t ∧ t.pos = call.pos := by
  obtain ⟨h1, h4⟩ := lock_faithful c hfix hsize S secs eng0 evs
  have hL := linv_run (c := c) (S := S) _ (linv_start c secs eng0) evs
  refine ⟨h1, hL, ?_, h4⟩
  intro hd hin
  rw [lockFree_iff]
  intro j hr
  obtain ⟨_, h, _⟩ := (hL hd j).mp hr
  rw [hin] at h
  cases h

open Ex in
/-- non-vacuity of `lock_faithful_iff` (both sides of the iff occur): in the cairn game of `Ex.cairnEvs` thinker 6 is
inside `GetMove` (it resigned and waits for its context) and is the call in progress; one event earlier nobody is -/
example :
    let s := go (conf .white 5 (.friendly (some .cairn)) true) cairnEvs
    let s' := go (conf .white 5 (.friendly (some .cairn)) true) cairnEvs.dropLast
    s.dead = none ∧ (s.inside.map (·.k)) = some 6 ∧ ((thinkerAt s.b 6).map (·.st)) = some .running ∧
    s'.dead = none ∧ s'.inside.isNone = true ∧ lockFree s'.b = true ∧ ((thinkerAt s'.b 6).map (·.st)) = some .waiting := by
  decide +kernel

/-! ## the concrete schedules of `C07.Ex`: the stale-thinker defect (tree before 20247d2) and its repair; the findings of
work package botglue in the composed system.  Each is an op sequence of `corpus/C07/compose-*.ops`, replayed on the real
code on every check. -/

open Ex in
/-- **the stale-thinker defect** (tree before `fixes/C07-stale-thinker.diff`, `guard = false`): after two granted undos a
thinker started on a ply-1 position enters `Friendly.GetMove` on a record of ONE position: index panic on a thinker
goroutine — the process dies while the server's game goes on (the loop itself is still `running`) -/
theorem stale_thinker_panics :
    (go (conf .black 5 (.friendly (some .center)) false) staleEvs).dead =
      some (.panic "Friendly.GetMove: f.g.Positions[len-2]") ∧
    (go (conf .black 5 (.friendly (some .center)) false) staleEvs).b.status = .running := by
  decide +kernel

open Ex in
/-- the same defect after `GameOver`: `f.g == nil` -/
theorem getMove_after_gameOver_panics :
    (go (conf .black 5 (.friendly none) false) overEvs).dead = some (.panic "GetMove after GameOver: f.g == nil") := by
  decide +kernel

open Ex in
/-- … and for `Taktician` in its default pondering mode (`t.g == nil`) -/
theorem taktician_ponder_after_gameOver_panics :
    (go (conf .black 5 (.taktician { limit := 60000000000, useOpponentTime := true }) false) ponderEvs).dead =
      some (.panic "GetMove after GameOver: f.g == nil") := by
  decide +kernel

open Ex in
/-- **with the fix** (`guard = true`, /repo 20247d2) the same three schedules run through: nobody panics, the stale
thinkers take and release the lock without making a call (4 lock acquisitions, 2 recorded calls in the first) -/
theorem stale_thinker_fixed :
    (go (conf .black 5 (.friendly (some .center)) true) staleEvs).dead = none ∧
    (go (conf .black 5 (.friendly (some .center)) true) staleEvs).entered = 4 ∧
    (go (conf .black 5 (.friendly (some .center)) true) staleEvs).calls.length = 2 ∧
    (go (conf .black 5 (.friendly none) true) overEvs).dead = none ∧
    (go (conf .black 5 (.taktician { limit := 60000000000, useOpponentTime := true }) true) ponderEvs).dead = none := by
  decide +kernel

open Ex in
/-- botglue's finding 1 in the composed system: the cairn bot (White) resigns a correctly played opening after a granted
undo of its scripted ply-4 slide.  The record is right and no illegal move is sent (C07 as stated holds) -/
theorem cairn_undo_resigns_composed :
    glueWire (go (conf .white 5 (.friendly (some .cairn)) true) cairnEvs).wire = [.resign, .tell (.cairn 3)] ∧
    (go (conf .white 5 (.friendly (some .cairn)) true) cairnEvs).dead = none ∧
    (go (conf .white 5 (.friendly (some .cairn)) true) cairnEvs).b.moves =
      (go (conf .white 5 (.friendly (some .cairn)) true) cairnEvs).b.srvMoves := by
  decide +kernel

open Ex in
/-- botglue's finding 2: the double-stack bot (Black) resigns after a resumed opening -/
theorem doubleStack_resume_resigns_composed :
    glueWire (go (conf .black 5 (.friendly (some .doubleStack)) true) dsEvs).wire = [.resign, .tell (.doubleStack 4)] ∧
    (go (conf .black 5 (.friendly (some .doubleStack)) true) dsEvs).dead = none := by
  decide +kernel

open Ex in
/-- **the open finding `C07-fpa-resume-panic`** — the tree as it is (`guard = true`): bot White, double stack, 4×4, a
game resumed at ply 4.  The thinker of the CURRENT invocation panics inside the rule's script (`dir()` on unset notes)
while the loop is `running`, four moves into the game: the process dies while the server's game goes on. -/
theorem doubleStack_resume_panics_composed :
    (go (conf .white 4 (.friendly (some .doubleStack)) true) dsPanicEvs).dead = some (.panic "bad dir() call") ∧
    (go (conf .white 4 (.friendly (some .doubleStack)) true) dsPanicEvs).b.status = .running ∧
    (go (conf .white 4 (.friendly (some .doubleStack)) true) dsPanicEvs).b.moves.length = 4 := by
  decide +kernel

end C07
