import TakVerif.Props.C07_compose
import TakVerif.Props.C07_fpa
import TakVerif.Proofs.BotComposeLock

/-! # C07 composed, second part (work package botcompose2)

* `lock_faithful_iff` – `lock_faithful` with the missing link: as long as no thinker goroutine has panicked, thinker `j`
  is inside `Bot.GetMove` (state `running` of the loop model: it holds `moveLock`) **iff** the composed model has a call
  in progress and that call is thinker `j`'s; with no call in progress the lock is free.
* the stale-thinker schedules of `C07.Ex` as theorems (`stale_thinker_panics`, `getMove_after_gameOver_panics`,
  `taktician_ponder_after_gameOver_panics`, `stale_thinker_fixed`); the cairn form of the FPA finding
  (`cairn_burst_panics_composed_pinned`, `cairn_burst_no_panic`; the other FPA histories are in `Props/C07_fpa.lean`).
* `bot_dead_only_by_search`, `bot_never_dead_guarded` – the tree as it is now (`guard = true`, `replay = true`: /repo
  fefa081) never loses a thinker goroutine to a panic, except through the searching player itself — under `RuleOK`: the
  rule's own code does not panic on the records the live calls are made on (`C20.RuleTotal`, what `fparepair` left as a
  hypothesis of `current_thinker_total`).  `RuleOK` is discharged for every rule whose code is total (`VariantTotal`:
  no rule, the centre rule, `Taktician`); for double stack / cairn it stays a hypothesis: their `LegalMove` / `GetMove`
  can panic on records that are not openings played by the rule (`not_variantTotal_doubleStack`). -/
namespace C07
open Tak Tak.Bot Tak.Glue Tak.FPA Tak.Compose Spec.FPA

variable {σ χ : Type}

/-! ## `inside` ⇔ `running` -/

theorem lockFree_startBot (c : Compose.Conf) (secs : Int) : lockFree (startBot c secs) = true := by
  unfold startBot
  split
  · rfl
  · simp only [lockFree, spawn]
    split <;> rfl

theorem linv_start (c : Compose.Conf) (secs : Int) (eng0 : σ) : LInv (Compose.start c secs eng0 : Compose.St σ χ) := by
  intro _ j
  have h := (lockFree_iff (startBot c secs)).mp (lockFree_startBot c secs) j
  constructor
  · intro hr; exact absurd hr h
  · rintro ⟨_, h1, _⟩; cases h1

/-- **`lock_faithful_iff`** — `lock_faithful` with the link it was missing.  In every reachable state of the composed
system (any `Bot`, any searching player, every event list):
1. at most one thinker is inside `Bot.GetMove` (`C07.lock_exclusive` along `compose_refines`);
2. as long as no thinker goroutine has panicked: thinker `j` is inside `GetMove` — it holds `moveLock`, state `running`
   of the loop model — **if and only if** the composed model has a call in progress (`inside`) and that call is thinker
   `j`'s.  So the call whose prefix ran at `enter` and whose search runs at `leave` is the call of THE lock holder, and
   whenever the model has no call in progress nobody is inside `GetMove`;
3. with no call in progress (and no panic) `moveLock` is free: the next `enter` is not blocked by a forgotten holder;
4. the call in progress is recorded and belongs to a thinker started on the position the call was handed. -/
theorem lock_faithful_iff (c : Compose.Conf) (hfix : c.bot.fixed = true) (hsize : 3 ≤ c.size ∧ c.size ≤ 8)
    (S : Searcher σ χ) (secs : Int) (eng0 : σ) (evs : List (Compose.Ev χ)) :
    holders (Compose.run c S (Compose.start c secs eng0) evs).b ≤ 1 ∧
    ((Compose.run c S (Compose.start c secs eng0) evs).dead = none →
      ∀ j, (∃ t, thinkerAt (Compose.run c S (Compose.start c secs eng0) evs).b j = some t ∧ t.st = .running) ↔
        ∃ call, (Compose.run c S (Compose.start c secs eng0) evs).inside = some call ∧ call.k = j) ∧
    ((Compose.run c S (Compose.start c secs eng0) evs).dead = none →
      (Compose.run c S (Compose.start c secs eng0) evs).inside = none →
      lockFree (Compose.run c S (Compose.start c secs eng0) evs).b = true) ∧
    ∀ call, (Compose.run c S (Compose.start c secs eng0) evs).inside = some call →
      call ∈ (Compose.run c S (Compose.start c secs eng0) evs).calls ∧
      ∃ t, thinkerAt (Compose.run c S (Compose.start c secs eng0) evs).b call.k = some t ∧ t.pos = call.pos := by
  obtain ⟨h1, h4⟩ := lock_faithful c hfix hsize S secs eng0 evs
  have hL := linv_run (c := c) (S := S) _ (linv_start c secs eng0) evs
  refine ⟨h1, hL, ?_, h4⟩
  intro hd hin
  rw [lockFree_iff]
  intro j hr
  obtain ⟨_, h, _⟩ := (hL hd j).mp hr
  rw [hin] at h
  cases h

open Ex in
/-- non-vacuity of `lock_faithful_iff` (both sides of the iff occur): in the cairn game of `Ex.cairnEvs` thinker 6 is
inside `GetMove` (it resigned and waits for its context) and is the call in progress; one event earlier nobody is -/
example :
    let s := go (conf .white 5 (.friendly (some .cairn)) true) cairnEvs
    let s' := go (conf .white 5 (.friendly (some .cairn)) true) cairnEvs.dropLast
    s.dead = none ∧ (s.inside.map (·.k)) = some 6 ∧ ((thinkerAt s.b 6).map (·.st)) = some .running ∧
    s'.dead = none ∧ s'.inside.isNone = true ∧ lockFree s'.b = true ∧ ((thinkerAt s'.b 6).map (·.st)) = some .waiting := by
  decide +kernel

/-! ## the concrete schedules of `C07.Ex`: the stale-thinker defect (tree before 20247d2) and its repair; the findings of
work package botglue in the composed system.  Each is an op sequence of `corpus/C07/compose-*.ops`, replayed on the real
code on every check. -/

open Ex in
/-- **the stale-thinker defect** (tree before `fixes/C07-stale-thinker.diff`, `guard = false`): after two granted undos a
thinker started on a ply-1 position enters `Friendly.GetMove` on a record of ONE position: index panic on a thinker
goroutine — the process dies while the server's game goes on (the loop itself is still `running`) -/
theorem stale_thinker_panics :
    (go (conf .black 5 (.friendly (some .center)) false) staleEvs).dead =
      some (.panic "Friendly.GetMove: f.g.Positions[len-2]") ∧
    (go (conf .black 5 (.friendly (some .center)) false) staleEvs).b.status = .running := by
  decide +kernel

open Ex in
/-- the same defect after `GameOver`: `f.g == nil` -/
theorem getMove_after_gameOver_panics :
    (go (conf .black 5 (.friendly none) false) overEvs).dead = some (.panic "GetMove after GameOver: f.g == nil") := by
  decide +kernel

open Ex in
/-- … and for `Taktician` in its default pondering mode (`t.g == nil`) -/
theorem taktician_ponder_after_gameOver_panics :
    (go (conf .black 5 (.taktician { limit := 60000000000, useOpponentTime := true }) false) ponderEvs).dead =
      some (.panic "GetMove after GameOver: f.g == nil") := by
  decide +kernel

open Ex in
/-- **with the fix** (`guard = true`, /repo 20247d2) the same three schedules run through: nobody panics, the stale
thinkers take and release the lock without making a call (4 lock acquisitions, 2 recorded calls in the first) -/
theorem stale_thinker_fixed :
    (go (conf .black 5 (.friendly (some .center)) true) staleEvs).dead = none ∧
    (go (conf .black 5 (.friendly (some .center)) true) staleEvs).entered = 4 ∧
    (go (conf .black 5 (.friendly (some .center)) true) staleEvs).calls.length = 2 ∧
    (go (conf .black 5 (.friendly none) true) overEvs).dead = none ∧
    (go (conf .black 5 (.taktician { limit := 60000000000, useOpponentTime := true }) true) ponderEvs).dead = none := by
  decide +kernel

/-- bot White, cairn, 4×4: the bot's `a3` is transmitted, then the server sends `c3 d2 c1` in one burst and the clock
line; thinker 1 (started after `a3`) is cancelled and returns at the guard, thinker 2 asks the rule for ply 4 -/
def Ex.cairnBurstEvs : List (Compose.Ev Move) :=
  [.enter 0 Ex.quiet, .leave 0 (place 0 2), Ex.srv ["P", "C3"] (place 2 2), Ex.srv ["P", "D2"] (place 3 1),
   Ex.srv ["P", "C1"] (place 2 0), Ex.tm, .enter 1 Ex.quiet, .enter 2 Ex.quiet]

open Ex in
/-- **the cairn form of the finding `C07-fpa-resume-panic`** (found by `./check C07` of this work package, seeds 2 and 3;
`corpus/C07/compose-fpa-cairn-burst.ops`), on the model of the tree before `fixes/C07-fpa-record-notes.diff`: the rule has
been shown none of the replayed plies, its ply-4 script finds "no center square between the cairn stones" and panics on
the CURRENT thinker's goroutine, loop `running` -/
theorem cairn_burst_panics_composed_pinned :
    (go (pinned (conf .white 4 (.friendly (some .cairn)) true)) cairnBurstEvs).dead =
      some (.panic "no center square between the cairn stones") ∧
    (go (pinned (conf .white 4 (.friendly (some .cairn)) true)) cairnBurstEvs).b.status = .running ∧
    (go (pinned (conf .white 4 (.friendly (some .cairn)) true)) cairnBurstEvs).b.moves.length = 4 := by
  decide +kernel

open Ex in
/-- … and with the patch (/repo fefa081: the notes are rebuilt from the record) the same schedule runs through -/
theorem cairn_burst_no_panic :
    (go (conf .white 4 (.friendly (some .cairn)) true) cairnBurstEvs).dead = none ∧
    (go (conf .white 4 (.friendly (some .cairn)) true) cairnBurstEvs).b.moves.length = 4 := by
  decide +kernel

/-! ## no thinker goroutine panics on the tree as it is (`guard = true`, `replay = true`), except through the searcher -/

/-- the FPA rule's own code (`LegalMove`, `GetMove` of the variant) answers on every view, every move and every state of
its notes.  `center` has it; `doubleStack` has not (`dir()` on notes that are not those of a double-stack opening). -/
def VariantTotal (var : Variant) : Prop :=
  (∀ r v m, ∃ x, legalMove var r v m = .ok x) ∧ (∀ r v, ∃ y, FPA.getMove var r v = .ok y)

theorem variantTotal_center : VariantTotal .center := by
  refine ⟨fun r v m => ⟨_, rfl⟩, fun r v => ?_⟩
  unfold FPA.getMove
  dsimp only
  split <;> exact ⟨_, rfl⟩

/-- the double-stack rule is not total: with fresh notes its ply-4 script calls `dir(0, 0, 0, 0)` -/
theorem not_variantTotal_doubleStack : ¬ VariantTotal .doubleStack := by
  intro h
  obtain ⟨y, hy⟩ := h.2 {} { size := 4, ply := 4, empty := fun _ _ => true }
  have h4 : FPA.getMove .doubleStack {} { size := 4, ply := 4, empty := fun _ _ => true } =
      .error (.panic "bad dir() call") := rfl
  rw [h4] at hy
  cases hy

/-- the variant of the installed rule (`none`: no rule; `Taktician` has none) -/
def confVariant (c : Compose.Conf) : Option Variant :=
  match c.who with
  | .friendly v => v
  | .taktician _ => none

theorem fpaCheck_var {fpa f' : Option (Variant × Rule)} {g : GameRec} {p : Pos} {rej : Option Msg}
    (h : fpaCheck fpa g p = .ok (f', rej)) : f'.map (·.1) = fpa.map (·.1) := by
  cases fpa with
  | none =>
    rw [fpaCheck_none] at h
    injection h with h
    rw [← (Prod.mk.inj h).1]
  | some vr =>
    obtain ⟨var, r⟩ := vr
    rw [fpaCheck_some] at h
    split at h
    · cases h
    · injection h with h; rw [← (Prod.mk.inj h).1]; rfl
    · split at h
      · cases h
      · split at h
        · cases h
        · injection h with h; rw [← (Prod.mk.inj h).1]; rfl

theorem friendly_var {fpa f' : Option (Variant × Rule)} {g : GameRec} {p : Pos} {o : CheckOracle} {a : Action}
    (h : Glue.friendlyGetMove fpa g p o = .ok (f', a)) : f'.map (·.1) = fpa.map (·.1) := by
  rw [Tak.Glue.friendly_cases] at h
  cases hc : fpaCheck fpa g p with
  | error e => rw [hc] at h; cases h
  | ok v =>
    obtain ⟨f1, rej⟩ := v
    have hv := fpaCheck_var hc
    rw [hc] at h
    cases rej with
    | some msg =>
      injection h with h; rw [← (Prod.mk.inj h).1]; exact hv
    | none =>
      dsimp only at h
      split at h
      · injection h with h; rw [← (Prod.mk.inj h).1]; exact hv
      · split at h
        · cases h
        · injection h with h; rw [← (Prod.mk.inj h).1]; exact hv
        · split at h
          · cases h
          · injection h with h; rw [← (Prod.mk.inj h).1]; exact hv

theorem glueOn_var {c : Compose.Conf} (hrep : c.replay = true) {fpa f' : Option (Variant × Rule)} {ps : List Pos}
    {ms : List Move} {p : Pos} {mine : Int} {chk : CheckOracle} {a : Action}
    (h : glueOn c fpa ps ms p mine chk = .ok (f', a)) : f'.map (·.1) = fpa.map (·.1) := by
  unfold glueOn at h
  split at h
  · rw [if_pos hrep] at h
    obtain ⟨rej, hc⟩ := Compose.friendlyOf_check c h
    exact fpaCheck_var hc
  · injection h with h; rw [← (Prod.mk.inj h).1]

/-- the rule object keeps its variant through the game -/
def FpaOK (c : Compose.Conf) (s : Compose.St σ χ) : Prop := s.fpa.map (·.1) = confVariant c

theorem fpaOK_start (c : Compose.Conf) (secs : Int) (eng0 : σ) : FpaOK c (Compose.start c secs eng0 : Compose.St σ χ) := by
  unfold FpaOK confVariant Compose.start
  dsimp only
  cases c.who with
  | friendly v => cases v <;> rfl
  | taktician _ => rfl

theorem fpaOK_step (c : Compose.Conf) (hrep : c.replay = true) (S : Searcher σ χ) (s : Compose.St σ χ) (e : Compose.Ev χ)
    (h : FpaOK c s) : FpaOK c (Compose.step c S s e) := by
  unfold Compose.step
  split
  · exact h
  · cases e with
    | deliver bits parsed => exact h
    | close => exact h
    | timerFires => exact h
    | enter k chk =>
      dsimp only
      unfold Compose.enter
      split
      · exact h
      · split
        · exact h
        · split
          · exact h
          · split
            · exact h
            · split
              · exact h
              · rename_i hg
                unfold FpaOK
                dsimp only
                rw [glueOn_var hrep hg]
                exact h
    | leave k x =>
      dsimp only
      unfold Compose.leave
      split
      · exact h
      · split
        · exact h
        · split
          · exact h
          · split
            · exact h
            · split
              · split <;> exact h
              · exact h
              · exact h
              · split <;> exact h

/-- the call of the CURRENT thinker runs through (`current_thinker_total` at the level of one state) -/
theorem glueCall_cur_ok (c : Compose.Conf) (hrep : c.replay = true) {b : Bot.St} {p0 : Pos} (hs : SInv c.bot b)
    (hP : PInv (fun p => p.cfg.size = c.size) p0 b) (hp0 : p0.move = 0) (hnc : ¬ b.crashed)
    (fpa : Option (Variant × Rule)) (chk : CheckOracle)
    (hrule : C20.RuleTotal fpa (recOf c b) b.cur.pos) (hchk : asksPrev chk = true → b.cur.pos.move > 0) :
    ∃ x, glueCall c fpa b b.cur chk = .ok x := by
  have hshape := hs.core.shape hnc
  have hmem := hP.cmem hnc
  have hlast := hP.last hnc
  have hlen : b.cur.pos.move > 0 → 2 ≤ b.positions.length := by
    intro hm
    match hps : b.positions with
    | [] => rw [hps] at hmem; cases hmem
    | [x] =>
      rw [hps] at hmem hlast
      simp only [List.getLast?_singleton, Option.some.injEq] at hlast
      simp only [List.mem_singleton] at hmem
      rw [hmem, hlast, hp0] at hm
      exact absurd hm (by decide)
    | _ :: _ :: _ => simp
  unfold glueCall glueOn
  split
  · rw [if_pos hrep]
    suffices h : ∃ x, Glue.friendlyGetMove fpa (recOf c b) b.cur.pos chk = .ok x by
      obtain ⟨x, hx⟩ := h
      exact ⟨x, Compose.friendlyOf_of_ok c hx⟩
    apply friendly_total_of _ _ _ _ hrule
    · intro hm
      have := hlen hm
      show 2 ≤ b.positions.length ∧ 1 ≤ b.moves.length
      omega
    · intro ha
      exact hlen (hchk ha)
  · exact ⟨_, rfl⟩

/-- the loop over the older pairs of the record never panics when the rule's code is total -/
theorem replay_total {var : Variant} (hv : VariantTotal var) : ∀ (l : List (View × Move)) (r : Rule),
    ∃ r1, FPA.replay var r l = .ok r1
  | [], r => ⟨r, rfl⟩
  | (v, m) :: rest, r => by
    unfold FPA.replay
    obtain ⟨⟨r', ok⟩, hx⟩ := hv.1 (if v.ply = 0 then {} else r) v m
    have : legalMoveR var r v m = .ok (r', ok) := hx
    rw [this]
    exact replay_total hv rest r'

/-- a rule whose code is total does not panic on any record of the right shape -/
theorem ruleTotal_of_variantTotal (fpa : Option (Variant × Rule)) (g : GameRec) (p : Pos)
    (hvar : ∀ var r, fpa = some (var, r) → VariantTotal var) (hshape : g.positions.length = g.moves.length + 1) :
    C20.RuleTotal fpa g p := by
  intro var r hf
  have hv := hvar var r hf
  refine ⟨fun _ => ?_, fun r' => hv.2 r' _⟩
  have hop : ∃ h, olderPairs g = .ok h := by
    unfold olderPairs
    dsimp only
    split
    · rename_i hlt
      simp only [List.length_reverse, List.length_dropLast] at hlt
      omega
    · exact ⟨_, rfl⟩
  obtain ⟨h, hh⟩ := hop
  obtain ⟨r1, hr1⟩ := replay_total hv h r
  refine ⟨r1, by unfold entryRule; rw [hh]; exact hr1, fun q m _ => ?_⟩
  exact hv.1 _ _ m

/-- **what is asked of the check engine's verdicts** along an event list: a win in one (`v ≥ WinThreshold` found at depth
≤ 1, which makes `waitUndo` read `f.g.Positions[len-2]`) is only claimed for a position beyond ply 0. -/
def ChkOK (c : Compose.Conf) (S : Searcher σ χ) : Compose.St σ χ → List (Compose.Ev χ) → Prop
  | _, [] => True
  | s, e :: es =>
    (match e with
     | .enter k chk => ∀ t, thinkerAt s.b k = some t → asksPrev chk = true → t.pos.move > 0
     | _ => True) ∧ ChkOK c S (Compose.step c S s e) es

/-- verdicts that never claim a win in one are sane -/
theorem chkOK_of_noAsk (c : Compose.Conf) (S : Searcher σ χ) : ∀ (evs : List (Compose.Ev χ)) (s : Compose.St σ χ),
    evs.all (fun e => match e with | .enter _ chk => !asksPrev chk | _ => true) = true → ChkOK c S s evs
  | [], _, _ => trivial
  | e :: es, s, h => by
    simp only [List.all_cons, Bool.and_eq_true] at h
    refine ⟨?_, chkOK_of_noAsk c S es _ h.2⟩
    cases e with
    | enter k chk =>
      intro t _ ha
      have h1 := h.1
      simp only [Bool.not_eq_true'] at h1
      rw [h1] at ha
      cases ha
    | _ => trivial

/-- **what is asked of the rule** along an event list — the hypothesis `fparepair` left in `current_thinker_total`, as a
property of the run: whenever a call is made while the loop runs, the rule's own code (the replay loop over the record,
`LegalMove` on the newest pair, the script) does not panic on the record as it stands (`C20.RuleTotal`).  It holds for
every rule whose code is total (`ruleOK_of_variantTotal`); for double stack / cairn it is what remains to be shown of the
records that occur (for openings played by the rule: C20). -/
def RuleOK (c : Compose.Conf) (S : Searcher σ χ) : Compose.St σ χ → List (Compose.Ev χ) → Prop
  | _, [] => True
  | s, e :: es =>
    (match e with
     | .enter _ _ => s.b.status = .running → C20.RuleTotal s.fpa (recOf c s.b) s.b.cur.pos
     | _ => True) ∧ RuleOK c S (Compose.step c S s e) es

/-- a thinker goroutine is lost only to an error of the searching player, raised by the call in progress -/
def DeadBySearch (S : Searcher σ χ) (s : Compose.St σ χ) : Prop :=
  ∀ e, s.dead = some e → ∃ call x lim fl, s.inside = some call ∧ call.act = .think lim fl ∧
    S.run x call.pos s.eng = .error e

theorem cancInv_startBot (c : Compose.Conf) (secs : Int) (hsize : 3 ≤ c.size ∧ c.size ≤ 8) : CancInv (startBot c secs) := by
  obtain ⟨p0, hp⟩ := startBot_ok c hsize
  unfold startBot
  rw [hp]
  exact ⟨(fun _ h => by cases h), fun h => absurd rfl h⟩

/-- what the no-crash argument needs of one state -/
structure SafeInv (c : Compose.Conf) (p0 : Pos) (s : Compose.St σ χ) : Prop where
  sinv : SInv c.bot s.b
  pinv : PInv (fun p => p.cfg.size = c.size) p0 s.b
  p0m : p0.move = 0
  canc : CancInv s.b
  fpa : FpaOK c s

theorem safeInv_step {c : Compose.Conf} (hrep : c.replay = true) (hfix : c.bot.fixed = true) {p0 : Pos}
    (S : Searcher σ χ) {s : Compose.St σ χ} (h : SafeInv c p0 s) (e : Compose.Ev χ) :
    SafeInv c p0 (Compose.step c S s e) := by
  have hA : ∀ (p : Pos) (m : Move) (q : Pos), p.cfg.size = c.size → p.apply c.bot.basis m = .ok q → q.cfg.size = c.size :=
    fun p m q hp ha => by rw [apply_cfg ha]; exact hp
  obtain ⟨evs, he⟩ := step_b c S s e
  refine ⟨?_, pinv_composed_step hA S h.pinv e, h.p0m, ?_, fpaOK_step c hrep S s e h.fpa⟩
  · rw [he]; exact sinv_run hfix h.sinv evs
  · rw [he]; exact cancInv_run c.bot _ evs h.canc

theorem safeInv_start (c : Compose.Conf) (hsize : 3 ≤ c.size ∧ c.size ≤ 8) (secs : Int) (eng0 : σ) :
    ∃ p0, SafeInv c p0 (Compose.start c secs eng0 : Compose.St σ χ) := by
  obtain ⟨p0, hp0, hP0⟩ := pinv_startBot c secs hsize
  exact ⟨p0, sinv_startBot c secs, hP0, hp0, cancInv_startBot c secs hsize, fpaOK_start c secs eng0⟩

/-- with a rule whose code is total the rule never panics on the record of a running loop -/
theorem ruleTotal_of_safeInv {c : Compose.Conf} (hvar : ∀ var, confVariant c = some var → VariantTotal var) {p0 : Pos}
    {s : Compose.St σ χ} (hI : SafeInv c p0 s) (hrun : s.b.status = .running) (p : Pos) :
    C20.RuleTotal s.fpa (recOf c s.b) p := by
  apply ruleTotal_of_variantTotal
  · intro var r hf
    apply hvar
    have hF := hI.fpa
    unfold FpaOK at hF
    rw [← hF, hf]; rfl
  · exact hI.sinv.core.shape (not_crashed_of_running hrun)

/-- under the guard, with a rule that does not panic on this record and a sane check verdict, `enter` never kills a thinker -/
theorem enter_dead_of_call (c : Compose.Conf) (hguard : c.guard = true) {p0 : Pos}
    {s : Compose.St σ χ} (hI : SafeInv c p0 s) (k : Nat) (chk : CheckOracle)
    (hcall : s.b.status = .running → (asksPrev chk = true → s.b.cur.pos.move > 0) →
      ∃ x, glueCall c s.fpa s.b s.b.cur chk = .ok x)
    (hchk : ∀ t, thinkerAt s.b k = some t → asksPrev chk = true → t.pos.move > 0) :
    (Compose.enter c s k chk).dead = s.dead := by
  have hC := hI.canc
  unfold Compose.enter
  split
  · rfl
  · rename_i t ht
    split
    · rfl
    · split
      · rfl
      · rename_i hng
        have hlive : t.cancelled = false := by
          rw [hguard] at hng
          simpa using hng
        obtain ⟨_, htc, hrun⟩ := live_thinker_is_current hC ht hlive
        split
        · rename_i hst
          exact absurd hrun (by simpa using hst)
        · split
          · rename_i e hg
            exfalso
            obtain ⟨x, hx⟩ := hcall hrun (fun ha => by rw [← htc]; exact hchk t ht ha)
            rw [htc, hx] at hg
            cases hg
          · rfl

/-- under the guard, with a rule that does not panic on this record and a sane check verdict, `enter` never kills a thinker -/
theorem enter_dead_of (c : Compose.Conf) (hguard : c.guard = true) (hrep : c.replay = true) {p0 : Pos}
    {s : Compose.St σ χ} (hI : SafeInv c p0 s) (k : Nat) (chk : CheckOracle)
    (hrule : s.b.status = .running → C20.RuleTotal s.fpa (recOf c s.b) s.b.cur.pos)
    (hchk : ∀ t, thinkerAt s.b k = some t → asksPrev chk = true → t.pos.move > 0) :
    (Compose.enter c s k chk).dead = s.dead :=
  enter_dead_of_call c hguard hI k chk
    (fun hrun hc => glueCall_cur_ok c hrep hI.sinv hI.pinv hI.p0m (not_crashed_of_running hrun) s.fpa chk (hrule hrun) hc) hchk

/-- **what is asked of the calls** along an event list: whenever thinker `k` is let into `GetMove` while the loop runs, the
call of the current thinker on the record as it stands runs through, provided the check verdict is sane.  `RuleOK` gives
it (`callsOK_of_ruleOK`: `current_thinker_total`); with the declining scripts much less does (`C07.callsOK_declining`). -/
def CallsOK (c : Compose.Conf) (S : Searcher σ χ) : Compose.St σ χ → List (Compose.Ev χ) → Prop
  | _, [] => True
  | s, e :: es =>
    (match e with
     | .enter _ chk => s.b.status = .running → (asksPrev chk = true → s.b.cur.pos.move > 0) →
        ∃ x, glueCall c s.fpa s.b s.b.cur chk = .ok x
     | _ => True) ∧ CallsOK c S (Compose.step c S s e) es

theorem deadBySearch_step_of_call (c : Compose.Conf) (hguard : c.guard = true)
    (S : Searcher σ χ) {p0 : Pos} {s : Compose.St σ χ} (hI : SafeInv c p0 s)
    (hD : DeadBySearch S s) (e : Compose.Ev χ) (hchk : ChkOK c S s [e]) (hrule : CallsOK c S s [e]) :
    DeadBySearch S (Compose.step c S s e) := by
  unfold Compose.step
  split
  · exact hD
  · rename_i hdead
    have hnone : s.dead = none := by
      cases hd : s.dead with
      | none => rfl
      | some x => rw [hd] at hdead; exact absurd rfl hdead
    cases e with
    | deliver bits parsed => exact hD
    | close => exact hD
    | timerFires => exact hD
    | enter k chk =>
      dsimp only
      intro e he
      rw [enter_dead_of_call c hguard hI k chk hrule.1 hchk.1, hnone] at he
      cases he
    | leave k x =>
      dsimp only
      unfold Compose.leave
      split
      · exact hD
      · rename_i call hin
        split
        · exact hD
        · split
          · exact hD
          · split
            · exact hD
            · have hret : ∀ (xo : Option χ) (m : Move) (eng' : σ), DeadBySearch S (Compose.ret c s call xo m eng') := by
                intro xo m eng' e he
                have : s.dead = some e := he
                rw [hnone] at this; cases this
              split
              · split
                · exact hret _ _ _
                · exact hD
              · exact hret _ _ _
              · exact hret _ _ _
              · rename_i lim fl hact
                split
                · rename_i err hrun
                  intro e he
                  have he' : some err = some e := he
                  injection he' with he'
                  subst he'
                  exact ⟨call, x, lim, fl, hin, hact, hrun⟩
                · exact hret _ _ _

theorem deadBySearch_step_of (c : Compose.Conf) (hguard : c.guard = true) (hrep : c.replay = true)
    (S : Searcher σ χ) {p0 : Pos} {s : Compose.St σ χ} (hI : SafeInv c p0 s)
    (hD : DeadBySearch S s) (e : Compose.Ev χ) (hchk : ChkOK c S s [e]) (hrule : RuleOK c S s [e]) :
    DeadBySearch S (Compose.step c S s e) := by
  refine deadBySearch_step_of_call c hguard S hI hD e hchk ⟨?_, trivial⟩
  cases e with
  | enter k chk =>
    exact fun hrun hc => glueCall_cur_ok c hrep hI.sinv hI.pinv hI.p0m (not_crashed_of_running hrun) s.fpa chk (hrule.1 hrun) hc
  | _ => trivial

theorem deadBySearch_run_call (c : Compose.Conf) (hguard : c.guard = true) (hrep : c.replay = true) (hfix : c.bot.fixed = true)
    (S : Searcher σ χ) {p0 : Pos} (evs : List (Compose.Ev χ)) :
    ∀ (s : Compose.St σ χ), SafeInv c p0 s → DeadBySearch S s → ChkOK c S s evs → CallsOK c S s evs →
      DeadBySearch S (Compose.run c S s evs) := by
  induction evs with
  | nil => intro s _ hD _ _; exact hD
  | cons e es ih =>
    intro s hI hD hchk hrule
    exact ih (Compose.step c S s e) (safeInv_step hrep hfix S hI e)
      (deadBySearch_step_of_call c hguard S hI hD e ⟨hchk.1, trivial⟩ ⟨hrule.1, trivial⟩) hchk.2 hrule.2

theorem deadBySearch_run (c : Compose.Conf) (hguard : c.guard = true) (hrep : c.replay = true) (hfix : c.bot.fixed = true)
    (S : Searcher σ χ) {p0 : Pos} (evs : List (Compose.Ev χ)) :
    ∀ (s : Compose.St σ χ), SafeInv c p0 s → DeadBySearch S s → ChkOK c S s evs → RuleOK c S s evs →
      DeadBySearch S (Compose.run c S s evs) := by
  induction evs with
  | nil => intro s _ hD _ _; exact hD
  | cons e es ih =>
    intro s hI hD hchk hrule
    exact ih (Compose.step c S s e) (safeInv_step hrep hfix S hI e)
      (deadBySearch_step_of c hguard hrep S hI hD e ⟨hchk.1, trivial⟩ ⟨hrule.1, trivial⟩) hchk.2 hrule.2

/-- `RuleOK` holds along every event list when the rule's code is total: no rule, the centre rule, `Taktician` -/
theorem ruleOK_run_of_variantTotal (c : Compose.Conf) (hrep : c.replay = true) (hfix : c.bot.fixed = true)
    (hvar : ∀ var, confVariant c = some var → VariantTotal var) (S : Searcher σ χ) {p0 : Pos}
    (evs : List (Compose.Ev χ)) : ∀ (s : Compose.St σ χ), SafeInv c p0 s → RuleOK c S s evs := by
  induction evs with
  | nil => intro _ _; trivial
  | cons e es ih =>
    intro s hI
    refine ⟨?_, ih _ (safeInv_step hrep hfix S hI e)⟩
    cases e with
    | enter k chk => exact fun hrun => ruleTotal_of_safeInv hvar hI hrun _
    | _ => trivial

/-- **`ruleOK_of_variantTotal`** — the hypothesis `RuleOK` is discharged for `Taktician`, `Friendly` without a rule and
`Friendly` with the centre rule (`variantTotal_center`), for every event list -/
theorem ruleOK_of_variantTotal (c : Compose.Conf) (hrep : c.replay = true) (hfix : c.bot.fixed = true)
    (hsize : 3 ≤ c.size ∧ c.size ≤ 8) (hvar : ∀ var, confVariant c = some var → VariantTotal var)
    (S : Searcher σ χ) (secs : Int) (eng0 : σ) (evs : List (Compose.Ev χ)) :
    RuleOK c S (Compose.start c secs eng0) evs := by
  obtain ⟨p0, hI⟩ := safeInv_start (χ := χ) c hsize secs eng0
  exact ruleOK_run_of_variantTotal c hrep hfix hvar S evs _ hI

/-- **`bot_dead_only_by_search`** — the tree as it is now (`guard = true`: /repo 20247d2; `replay = true`: /repo fefa081).
For `Taktician` and `Friendly` with any rule or none, any searching player, any colour, size 3..8, clock and EVERY event
list whose check verdicts are sane (`ChkOK`) and on whose records the rule's own code does not panic (`RuleOK`: automatic
without a rule and for the centre rule — `ruleOK_of_variantTotal` —, a hypothesis for double stack / cairn): if a thinker
goroutine is ever lost (`dead = some e`), then `e` is an error **raised by the searching player itself**
(`f.ai.GetMove` / `t.ai.GetMove`) in the call in progress, on the position that thinker was started on and the engine
state the previous calls left.  No index panic on the record, no nil game: thinkers of finished invocations are all
cancelled (`CancInv`) and return at the guard; the live one is the current thinker, whose position is still in the
record (`current_thinker_total`). -/
theorem bot_dead_only_by_search (c : Compose.Conf) (hguard : c.guard = true) (hrep : c.replay = true)
    (hfix : c.bot.fixed = true) (hsize : 3 ≤ c.size ∧ c.size ≤ 8)
    (S : Searcher σ χ) (secs : Int) (eng0 : σ) (evs : List (Compose.Ev χ))
    (hchk : ChkOK c S (Compose.start c secs eng0) evs) (hrule : RuleOK c S (Compose.start c secs eng0) evs) :
    DeadBySearch S (Compose.run c S (Compose.start c secs eng0) evs) := by
  obtain ⟨p0, hI⟩ := safeInv_start (χ := χ) c hsize secs eng0
  exact deadBySearch_run c hguard hrep hfix S evs _ hI (fun _ h => by cases h) hchk hrule

/-- a searching player that answers on every `size`×`size` position from every state satisfying its invariant `G` never
raises the error `DeadBySearch` leaves as the only way to lose a thinker -/
theorem never_dead_of_deadBySearch (c : Compose.Conf) (hsize : 3 ≤ c.size ∧ c.size ≤ 8)
    (S : Searcher σ χ) (G : σ → Prop)
    (hS : ∀ x p e m e', p.cfg.size = c.size → G e → S.run x p e = .ok (m, e') → G e')
    (hT : ∀ x p e, p.cfg.size = c.size → G e → ∃ r, S.run x p e = .ok r)
    (secs : Int) (eng0 : σ) (h0 : G eng0) (evs : List (Compose.Ev χ))
    (hD : DeadBySearch S (Compose.run c S (Compose.start c secs eng0) evs)) :
    (Compose.run c S (Compose.start c secs eng0) evs).dead = none := by
  obtain ⟨p0, _, hP⟩ := pinv_startBot c secs hsize
  have hA : ∀ (p : Pos) (m : Move) (q : Pos), p.cfg.size = c.size → p.apply c.bot.basis m = .ok q → q.cfg.size = c.size :=
    fun p m q hp ha => by rw [apply_cfg ha]; exact hp
  have hz : ∀ (p q : Pos), p.cfg.size = c.size → p.apply c.bot.basis Bot.zeroMove ≠ .ok q :=
    fun p q hp => zero_rejected c.bot.basis c.size hsize p q hp
  obtain ⟨hC, hP'⟩ := cinv_run (A := fun p => p.cfg.size = c.size) hA hS hz _ hP (cinv_start c S G secs eng0 h0) evs
  cases hd : (Compose.run c S (Compose.start c secs eng0) evs).dead with
  | none => rfl
  | some e =>
    exfalso
    obtain ⟨call, x, lim, fl, hin, _, hrun⟩ := hD e hd
    obtain ⟨_, t, ht, hpos⟩ := hC.inside call hin
    have hsz : call.pos.cfg.size = c.size := by
      rw [← hpos]
      have hmem : t ∈ thinkers (Compose.run c S (Compose.start c secs eng0) evs).b := List.mem_of_getElem? ht
      unfold thinkers at hmem
      simp only [List.mem_append, List.mem_singleton] at hmem
      rcases hmem with hm | rfl
      · exact hP'.old t hm
      · exact hP'.cur
    obtain ⟨r, hr⟩ := hT x call.pos _ hsz hC.eng
    rw [hr] at hrun
    cases hrun

/-- **`bot_never_dead_guarded`** — with a searching player that answers on every `size`×`size` position from every state
satisfying its invariant `G` (kept by every call), the composed system NEVER loses a thinker goroutine: for every event
list with sane check verdicts and `RuleOK`, `dead = none`.  Together with `C07.bot_no_panic` (the protocol goroutine)
this is C07's last clause — the bot process survives every interleaving — for the code as it is.  What remains after
`fixes/C07-fpa-record-notes.diff`, exactly: `RuleOK` for double stack / cairn (their code panics on some records that are
not openings played by the rule, `not_variantTotal_doubleStack`), and the searcher's totality. -/
theorem bot_never_dead_guarded (c : Compose.Conf) (hguard : c.guard = true) (hrep : c.replay = true)
    (hfix : c.bot.fixed = true) (hsize : 3 ≤ c.size ∧ c.size ≤ 8)
    (S : Searcher σ χ) (G : σ → Prop)
    (hS : ∀ x p e m e', p.cfg.size = c.size → G e → S.run x p e = .ok (m, e') → G e')
    (hT : ∀ x p e, p.cfg.size = c.size → G e → ∃ r, S.run x p e = .ok r)
    (secs : Int) (eng0 : σ) (h0 : G eng0) (evs : List (Compose.Ev χ))
    (hchk : ChkOK c S (Compose.start c secs eng0) evs) (hrule : RuleOK c S (Compose.start c secs eng0) evs) :
    (Compose.run c S (Compose.start c secs eng0) evs).dead = none :=
  never_dead_of_deadBySearch c hsize S G hS hT secs eng0 h0 evs
    (bot_dead_only_by_search c hguard hrep hfix hsize S secs eng0 evs hchk hrule)

/-- the instance the correspondence runs: the stub searcher of the harness (it answers what the schedule says), with a
rule whose code is total -/
theorem bot_never_dead_stub (c : Compose.Conf) (hguard : c.guard = true) (hrep : c.replay = true)
    (hfix : c.bot.fixed = true) (hsize : 3 ≤ c.size ∧ c.size ≤ 8)
    (hvar : ∀ var, confVariant c = some var → VariantTotal var)
    (secs : Int) (evs : List (Compose.Ev Move)) (hchk : ChkOK c stubSearcher (Compose.start c secs ()) evs) :
    (Compose.run c stubSearcher (Compose.start c secs ()) evs).dead = none :=
  bot_never_dead_guarded c hguard hrep hfix hsize stubSearcher (fun _ => True) (fun _ _ _ _ _ _ _ _ => trivial)
    (fun x _ e _ _ => ⟨(x, e), rfl⟩) secs () trivial evs hchk
    (ruleOK_of_variantTotal c hrep hfix hsize hvar stubSearcher secs () evs)

/-- the full statement for the alpha-beta model as searching player: NOT proved.  Missing is exactly the totality of
`Search.getMove` on `takGame` (`∃ r, getMove … = .ok r` from an `EngInv` state on a position of a 3..8 board): every
search theorem of the framework (C04, C05, C16, `getMove_engOK`) is a partial-correctness statement (`Sat`: IF the model
returns `.ok` …), none shows the model never takes one of its `.error` exits (`ai.stack[ply]` beyond `maxDepth`,
`best[0]` on a position without legal move, `ttPut` on an empty table, `rand.Int63n`). -/
def bot_never_dead_minimax_statement : Prop :=
  ∀ (c : Compose.Conf), c.guard = true → c.replay = true → c.bot.fixed = true → 3 ≤ c.size ∧ c.size ≤ 8 →
    ∀ (ev : Pos → Int) (sym : Pos → List Search.H) (scfg : Search.Cfg) (secs : Int)
      (evs : List (Compose.Ev { o : Search.Oracle Move // Search.OrderOK o })),
      ChkOK c (minimaxOK c.bot.basis ev sym scfg)
        (Compose.start c secs (Search.Eng.new (Search.takGame c.bot.basis ev sym) scfg)) evs →
      RuleOK c (minimaxOK c.bot.basis ev sym scfg)
        (Compose.start c secs (Search.Eng.new (Search.takGame c.bot.basis ev sym) scfg)) evs →
      (Compose.run c (minimaxOK c.bot.basis ev sym scfg)
        (Compose.start c secs (Search.Eng.new (Search.takGame c.bot.basis ev sym) scfg)) evs).dead = none

/-- **`bot_never_dead_minimax_partial`** — what is proved of it: with the alpha-beta model as searching player, a lost
thinker goroutine can only be an `.error` exit of `Search.getMove` itself, taken on the position the current call was
handed (board size as configured) from an engine state satisfying `EngInv`.  Nothing in `bot.go`, `friendly.go`,
`taktician.go` panics, and nothing in the rule under `RuleOK`. -/
theorem bot_never_dead_minimax_partial (c : Compose.Conf) (hguard : c.guard = true) (hrep : c.replay = true)
    (hfix : c.bot.fixed = true) (hsize : 3 ≤ c.size ∧ c.size ≤ 8)
    (ev : Pos → Int) (sym : Pos → List Search.H) (scfg : Search.Cfg) (secs : Int)
    (evs : List (Compose.Ev { o : Search.Oracle Move // Search.OrderOK o }))
    (hchk : ChkOK c (minimaxOK c.bot.basis ev sym scfg)
      (Compose.start c secs (Search.Eng.new (Search.takGame c.bot.basis ev sym) scfg)) evs)
    (hrule : RuleOK c (minimaxOK c.bot.basis ev sym scfg)
      (Compose.start c secs (Search.Eng.new (Search.takGame c.bot.basis ev sym) scfg)) evs) :
    let g := Search.takGame c.bot.basis ev sym
    let s := Compose.run c (minimaxOK c.bot.basis ev sym scfg) (Compose.start c secs (Search.Eng.new g scfg)) evs
    ∀ e, s.dead = some e → ∃ (p : Pos) (o : Search.Oracle Move), p.cfg.size = c.size ∧ Search.OrderOK o ∧
      EngInv c.bot.basis ev sym s.eng ∧ Search.getMove g scfg o p s.eng = .error e := by
  intro g s e he
  obtain ⟨call, x, lim, fl, hin, _, hrun⟩ :=
    bot_dead_only_by_search c hguard hrep hfix hsize (minimaxOK c.bot.basis ev sym scfg) secs _ evs hchk hrule e he
  obtain ⟨_, _, _, _, hG⟩ := bot_inv_composed c hfix hsize (minimaxOK c.bot.basis ev sym scfg) (EngInv c.bot.basis ev sym)
    (minimax_keeps_engInv c.bot.basis ev sym scfg c.size hsize) secs _ (engInv_new c.bot.basis ev sym scfg) evs
  obtain ⟨_, t, ht, hpos⟩ := (lock_faithful c hfix hsize (minimaxOK c.bot.basis ev sym scfg) secs _ evs).2 call hin
  obtain ⟨p0, _, hP0⟩ := pinv_startBot c secs hsize
  have hA : ∀ (p : Pos) (m : Move) (q : Pos), p.cfg.size = c.size → p.apply c.bot.basis m = .ok q → q.cfg.size = c.size :=
    fun p m q hp ha => by rw [apply_cfg ha]; exact hp
  obtain ⟨bevs, hb⟩ := compose_refines c (minimaxOK c.bot.basis ev sym scfg) secs
    (Search.Eng.new (Search.takGame c.bot.basis ev sym) scfg) evs
  have hP := pinv_run hA c.bot rfl hP0 bevs
  rw [← hb] at hP
  refine ⟨call.pos, x.1, ?_, x.2, hG, hrun⟩
  rw [← hpos]
  have hmem : t ∈ thinkers s.b := List.mem_of_getElem? ht
  unfold thinkers at hmem
  simp only [List.mem_append, List.mem_singleton] at hmem
  rcases hmem with hm | rfl
  · exact hP.old t hm
  · exact hP.cur

open Ex in
/-- non-vacuity of `bot_never_dead_guarded` / `bot_dead_only_by_search`: the stale-thinker schedule (centre rule, guard on)
meets every hypothesis — the rule is total (so `RuleOK`), the verdicts of the schedule are sane — and nobody dies; the
double-stack rule's code is not total -/
example :
    (∀ var, confVariant (conf .black 5 (.friendly (some .center)) true) = some var → VariantTotal var) ∧
    ChkOK (conf .black 5 (.friendly (some .center)) true) stubSearcher
      (Compose.start (conf .black 5 (.friendly (some .center)) true) 600 ()) staleEvs ∧
    RuleOK (conf .black 5 (.friendly (some .center)) true) stubSearcher
      (Compose.start (conf .black 5 (.friendly (some .center)) true) 600 ()) staleEvs ∧
    (go (conf .black 5 (.friendly (some .center)) true) staleEvs).dead = none ∧
    confVariant (conf .white 4 (.friendly (some .doubleStack)) true) = some .doubleStack ∧ ¬ VariantTotal .doubleStack := by
  have hv : ∀ var, confVariant (conf .black 5 (.friendly (some .center)) true) = some var → VariantTotal var := by
    intro var hv
    have : var = .center := by
      have h : some Variant.center = some var := hv
      injection h with h; exact h.symm
    rw [this]; exact variantTotal_center
  exact ⟨hv, chkOK_of_noAsk _ _ _ _ (by decide),
    ruleOK_of_variantTotal _ rfl rfl (by decide) hv stubSearcher 600 () staleEvs,
    stale_thinker_fixed.1, rfl, not_variantTotal_doubleStack⟩

end C07
