import TakVerif.Proofs.TextTotal

/-! C13, text part: `ptn.ParseMove`, `ptn.ParseTPS` and `playtak.ParseServer` are total.
The models are byte-level mirrors of the Go functions in which every place where Go can panic
(string/slice index, `stack[1:]`, `MkSlides`' explicit panic, `FromSquares`' board indexing, `New`'s
table lookups) is an explicit `.error (.panic site)` outcome.  The theorems say no input reaches one.
They are about the tree **with** `fixes/C13-tps-empty-cell.diff` and `fixes/C13-tps-lone-marker.diff`;
for the pinned tree `parseTPS_total` is false (witnesses: `corpus/C13/*.ops`). -/
namespace C13
open Tak Go

/-- `ptn.ParseMove` on any byte string: a move or an error, never a panic.
(Termination is by construction: the model is structurally recursive over the bytes.) -/
theorem parseMove_total (bytes : Bytes) (site : String) : PTN.parseMove bytes ≠ .error (.panic site) :=
  PTN.parseMove_noPanic bytes site

/-- `playtak.ParseServer` on any byte string: a move or an error, never a panic
(`words[0]` exists because `strings.Split` never returns an empty slice; any number of drops is
accepted and the ninth and later ones silently fall out of the 32-bit `Slides` word). -/
theorem parseServer_total (bytes : Bytes) (site : String) : Server.parseServer bytes ≠ .error (.panic site) :=
  Server.parseServer_noPanic bytes site

/-- `ptn.ParseTPS` (through `parseRow` and `tak.FromSquares`) on any byte string and any Zobrist table:
a position or an error, never a panic. -/
theorem parseTPS_total (basis : Array W) (bytes : Bytes) (site : String) :
    TPS.parseTPS basis bytes ≠ .error (.panic site) :=
  TPS.parseTPS_noPanic basis bytes site

/-- `ParseTPS` never *hangs* either.  In the model the only unbounded Go loop is `bitboard.Flood` inside
`analyze()` (called at the end of `FromSquares`), modelled with fuel and a `.hang` outcome when the fuel runs
out.  That the fuel always suffices (`hA`) is proved without assumptions in the C02 package as
`Roads.analyze_ne_none`; it is a hypothesis here so that the packages stay independent and is to be
discharged with that theorem after the merge.  (`ParseMove` and `ParseServer` contain no unbounded loop:
their models are structurally recursive over the input bytes.) -/
theorem parseTPS_terminates (hA : ∀ p : Pos, p.analyze ≠ none) (basis : Array W) (bytes : Bytes) (site : String) :
    TPS.parseTPS basis bytes ≠ .error (.hang site) :=
  TPS.parseTPS_noHang basis bytes hA site

/-! Non-trivial instances: the three outcome classes are all inhabited, and the two inputs that crash
the pinned tree are ordinary errors of the model of the repaired tree. -/
example : PTN.parseMove (lit "3c3+12!") = .ok ⟨2, 2, Facts.mtSlideUp, 0x21#32⟩ := rfl
example : PTN.parseMove (lit "c") = .error (.illegal "move too short") := rfl
example : Server.parseServer (lit "M A1 A3 1 2") = .ok ⟨0, 0, Facts.mtSlideUp, 0x21#32⟩ := rfl
example : Server.parseServer [] = .error (.illegal "bad command") := rfl
example (basis : Array W) : TPS.parseTPS basis (lit "x,,x/x3/x3 1 1") = .error (.illegal "empty square") := rfl
example (basis : Array W) : TPS.parseTPS basis (lit "S 1 1") = .error (.illegal "stone type without a stone") := rfl

end C13
