import TakVerif.Impl.TPS
import TakVerif.Impl.ServerMove
namespace C13
theorem placeholder_tps : True := trivial
end C13
