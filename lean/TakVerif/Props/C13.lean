import TakVerif.Props.C13_tps
/-! placeholder root of C13 (the coordinator merges the parts) -/
