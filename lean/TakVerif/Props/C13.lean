import TakVerif.Props.C13_ptn
import TakVerif.Props.C13_tps
import TakVerif.Props.C13_tei
/-! # C13 — text entry points are total

Root of the C13 theorems.  The property is a conjunction over entry points; each part lives in its own file
(`./check C13` audits every `Props/C13_*.lean`):

* `C13_tps.lean`  — `ptn.ParseMove`, `ptn.ParseTPS`, `playtak.ParseServer` (byte-level models)
* `C13_ptn.lean`  — `ptn.ParsePTN`, `InitialPosition`, replay through the iterator, chat lines, weights JSON glue
* `C13_tei.lean`  — the TEI command stream (`tei.Engine.Run`)
-/
