import TakVerif.Impl.TEI
/-! placeholder so that `./check C13` builds in this worktree; the C13 owner's file replaces it.
The TEI part of C13 is in `Props/C13_tei.lean`. -/
namespace C13
end C13
