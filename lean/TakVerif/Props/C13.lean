import TakVerif.Props.C13_ptn
/-! temporary: the PTN-file part of C13 only (the other parts belong to other work packages) -/
