import TakVerif.Impl.Evaluate
import TakVerif.Generated.FuncsEval
import TakVerif.Props.C02_gen

/-! Tie #1 for C18: the terminal scores of `ai/evaluate.go` - `evaluateTerminal` (the value the search returns for a
finished game) and `EvaluateWinner` - are regenerated from the source on every run; the model's definitions, on which
the "decided scores are outside the heuristic range" theorems rest, are proved equal to them for all positions and all
weight vectors.  `p *tak.Position` enters through the accessors the function calls (`WinDetails()`, `WhiteStones()`,
`BlackStones()`, `Size()`, `MoveNumber()`) and `ToMove` / `GameOver`, themselves regenerated; `w *Weights` through the four
constant indices it reads.  `int64` is modelled as `Int` (no overflow: see C18's range theorems). -/
namespace C18
open Tak

/-- the model's `WinDetails` as the regenerated struct (`RoadWin = 0`, `FlatsWin = 1`) -/
def genDetails (d : WinDetails) : Gen.WinDetails :=
  { Over := d.over, Reason := if d.reason == .road then 0 else 1, Winner := BitVec.ofNat 8 d.winner.code,
    WhiteFlats := d.whiteFlats, BlackFlats := d.blackFlats }

theorem toMove_byte (p : Pos) : Gen.positionToMove p.move = BitVec.ofNat 8 p.toMove.code :=
  (C02.toMove_is_source p).symm

theorem colorByte_eq (a b : Color) : (BitVec.ofNat 8 a.code == BitVec.ofNat 8 b.code) = (a == b) := by
  cases a <;> cases b <;> decide

/-- `evaluateTerminal(p, w)` -/
theorem evaluateTerminal_is_source (p : Pos) (w : Weights) :
    evaluateTerminal p w =
      Gen.evaluateTerminal p.blackStones.toNat p.move p.cfg.size p.whiteStones.toNat (genDetails p.winDetails) p.move
        (w.at Facts.fTerminalFlats) (w.at Facts.fTerminalOpponentReserves) (w.at Facts.fTerminalPlies)
        (w.at Facts.fTerminalReserves) := by
  unfold evaluateTerminal terminalValue Gen.evaluateTerminal genDetails
  rw [toMove_byte]
  generalize p.winDetails = d
  have c0 : (BitVec.ofNat 8 d.winner.code == 0#8) = (d.winner == .none) := colorByte_eq d.winner .none
  have cw : (BitVec.ofNat 8 d.winner.code == 128#8) = (d.winner == .white) := colorByte_eq d.winner .white
  have ct := colorByte_eq d.winner p.toMove
  simp only [c0, cw, ct, Facts.winBase]
  cases hw : d.winner <;> cases hr : d.reason <;> cases ht : p.toMove <;> simp <;>
    split <;> simp_all <;> omega

/-- `EvaluateWinner(c, p)` -/
theorem evaluateWinner_is_source (p : Pos) :
    evaluateWinner p =
      Gen.evaluateWinner p.black p.caps p.standing p.white p.blackCaps p.blackStones p.cfg.blackWinsTies p.c.Mask
        (BitVec.ofNat 8 p.hasRoad.1.code, p.hasRoad.2) p.move p.whiteCaps p.whiteStones := by
  unfold evaluateWinner Gen.evaluateWinner
  have h := C02.gameOver_is_source p
  unfold C02.colorByte at h
  rw [← h, toMove_byte]
  have c0 : (BitVec.ofNat 8 p.gameOver.2.code == 0#8) = (p.gameOver.2 == .none) := colorByte_eq _ .none
  have ct := colorByte_eq p.gameOver.2 p.toMove
  simp only [c0, ct, Facts.winBase]

example : Gen.evaluateWinner 0#64 0#64 0#64 0x1ff#64 0#8 5#8 false 0x1ff#64 (128#8, false) 9 0#8 1#8 = -805306368 := by decide

end C18
