import TakVerif.Impl.Evaluate
import TakVerif.Generated.FuncsEval
import TakVerif.Props.C02_gen

/-! Tie #1 for C18: the terminal scores of `ai/evaluate.go` - `evaluateTerminal` (the value the search returns for a
finished game) and `EvaluateWinner` - are regenerated from the source on every run; the model's definitions, on which
the "decided scores are outside the heuristic range" theorems rest, are proved equal to them for all positions and all
weight vectors.  `p *tak.Position` enters through the accessors the function calls (`WinDetails()`, `WhiteStones()`,
`BlackStones()`, `Size()`, `MoveNumber()`) and `ToMove` / `GameOver`, themselves regenerated; `w *Weights` through the four
constant indices it reads.  `int64` is modelled as `Int` (no overflow: see C18's range theorems).
`bitboard.Dimensions` (four `for cond` loops, whitelist fuel 70 each, as in the hand model) is regenerated too. -/
namespace C18
open Tak

/-- the model's `WinDetails` as the regenerated struct (`RoadWin = 0`, `FlatsWin = 1`) -/
def genDetails (d : WinDetails) : Gen.WinDetails :=
  { Over := d.over, Reason := if d.reason == .road then 0 else 1, Winner := BitVec.ofNat 8 d.winner.code,
    WhiteFlats := d.whiteFlats, BlackFlats := d.blackFlats }

/-- helper: the regenerated `ToMove` gives the byte of the model's side to move (`C02.toMove_is_source`) -/
theorem toMove_byte (p : Pos) : Gen.positionToMove p.move = BitVec.ofNat 8 p.toMove.code :=
  (C02.toMove_is_source p).symm

/-- helper: colour bytes are equal iff the colours are -/
theorem colorByte_eq (a b : Color) : (BitVec.ofNat 8 a.code == BitVec.ofNat 8 b.code) = (a == b) := by
  cases a <;> cases b <;> decide

/-- `evaluateTerminal(p, w)` -/
theorem evaluateTerminal_is_source (p : Pos) (w : Weights) :
    evaluateTerminal p w =
      Gen.evaluateTerminal p.blackStones.toNat p.move p.cfg.size p.whiteStones.toNat (genDetails p.winDetails) p.move
        (w.at Facts.fTerminalFlats) (w.at Facts.fTerminalOpponentReserves) (w.at Facts.fTerminalPlies)
        (w.at Facts.fTerminalReserves) := by
  unfold evaluateTerminal terminalValue Gen.evaluateTerminal genDetails
  rw [toMove_byte]
  generalize p.winDetails = d
  have c0 : (BitVec.ofNat 8 d.winner.code == 0#8) = (d.winner == .none) := colorByte_eq d.winner .none
  have cw : (BitVec.ofNat 8 d.winner.code == 128#8) = (d.winner == .white) := colorByte_eq d.winner .white
  have ct := colorByte_eq d.winner p.toMove
  simp only [c0, cw, ct, Facts.winBase]
  cases hw : d.winner <;> cases hr : d.reason <;> cases ht : p.toMove <;> simp <;>
    split <;> simp_all <;> omega

/-- `EvaluateWinner(c, p)` -/
theorem evaluateWinner_is_source (p : Pos) :
    evaluateWinner p =
      Gen.evaluateWinner p.black p.caps p.standing p.white p.blackCaps p.blackStones p.cfg.blackWinsTies p.c.Mask
        (BitVec.ofNat 8 p.hasRoad.1.code, p.hasRoad.2) p.move p.whiteCaps p.whiteStones := by
  unfold evaluateWinner Gen.evaluateWinner
  have h := C02.gameOver_is_source p
  unfold C02.colorByte at h
  rw [← h, toMove_byte]
  have c0 : (BitVec.ofNat 8 p.gameOver.2.code == 0#8) = (p.gameOver.2 == .none) := colorByte_eq _ .none
  have ct := colorByte_eq p.gameOver.2 p.toMove
  simp only [c0, ct, Facts.winBase]

example : Gen.evaluateWinner 0#64 0#64 0#64 0x1ff#64 0#8 5#8 false 0x1ff#64 (128#8, false) 9 0#8 1#8 = -805306368 := by decide

/-! ### `bitboard.Dimensions` -/

theorem dimSkip_loop0 (bits : W) (n : Nat) (b b' : W) (h : dimSkip bits 1 n b = some b') :
    Gen.dimensions_loop0 bits n b = b' ∧ Gen.dimensions_loop0_more bits b' = false := by
  induction n generalizing b with
  | zero => simp [dimSkip] at h
  | succ n ih =>
    unfold dimSkip at h
    unfold Gen.dimensions_loop0
    by_cases hc : (bits &&& b == 0#64) = true
    · simp only [hc, if_true] at h ⊢; exact ih _ h
    · simp only [hc] at h ⊢
      simp only [Bool.false_eq_true, if_false, Option.some.injEq] at h
      subst h
      exact ⟨rfl, by simpa [Gen.dimensions_loop0_more] using hc⟩

/-- helper: same for the row loop (`b >>= c.Size`) -/
theorem dimSkip_loop2 (c : Consts) (bits : W) (n : Nat) (b b' : W) (h : dimSkip bits c.Size n b = some b') :
    Gen.dimensions_loop2 bits c n b = b' ∧ Gen.dimensions_loop2_more bits c b' = false := by
  induction n generalizing b with
  | zero => simp [dimSkip] at h
  | succ n ih =>
    unfold dimSkip at h
    unfold Gen.dimensions_loop2
    by_cases hc : (bits &&& b == 0#64) = true
    · simp only [hc, if_true] at h ⊢; exact ih _ h
    · simp only [hc] at h ⊢
      simp only [Bool.false_eq_true, if_false, Option.some.injEq] at h
      subst h
      exact ⟨rfl, by simpa [Gen.dimensions_loop2_more] using hc⟩

/-- helper: the model's width count is the regenerated counting loop -/
theorem dimCount_loop1 (bits : W) (n : Nat) (b : W) (k : Nat) (w : Int) (hw : w = k) :
    (Gen.dimensions_loop1 bits n (b, w)).2 = (dimCount bits 1 n b k : Int) := by
  induction n generalizing b k w with
  | zero => simp [Gen.dimensions_loop1, dimCount, hw]
  | succ n ih =>
    unfold dimCount Gen.dimensions_loop1
    by_cases hc : (b != 0#64 && (bits &&& b != 0#64)) = true
    · simp only [hc, if_true]; exact ih _ (k + 1) _ (by omega)
    · simp only [hc]; simp [hw]

/-- helper: the model's height count is the regenerated counting loop -/
theorem dimCount_loop3 (c : Consts) (bits : W) (n : Nat) (b : W) (k : Nat) (w : Int) (hw : w = k) :
    (Gen.dimensions_loop3 bits c n (b, w)).2 = (dimCount bits c.Size n b k : Int) := by
  induction n generalizing b k w with
  | zero => simp [Gen.dimensions_loop3, dimCount, hw]
  | succ n ih =>
    unfold dimCount Gen.dimensions_loop3
    by_cases hc : (b != 0#64 && (bits &&& b != 0#64)) = true
    · simp only [hc, if_true]; exact ih _ (k + 1) _ (by omega)
    · simp only [hc]; simp [hw]

/-- `bitboard.Dimensions`: whenever the model's loops end (the model returns `some`; `none` = the Go loop hangs on a
bit set outside the board), the regenerated function - same loops, same fuel 70 - returns the same width and height -/
theorem dimensions_is_source (c : Consts) (bits : W) (r : Nat × Nat) (h : dimensions c bits = some r) :
    Gen.dimensions c bits = ((r.1 : Int), (r.2 : Int)) := by
  unfold dimensions at h
  unfold Gen.dimensions
  by_cases hz : bits = 0#64
  · subst hz; simp at h; subst h; simp
  · have hb : (bits == 0#64) = false := by simpa using hz
    simp only [hb] at h ⊢
    simp only [Bool.false_eq_true, if_false] at h ⊢
    cases h1 : dimSkip bits 1 70 c.L with
    | none => simp [h1] at h
    | some b1 =>
      cases h2 : dimSkip bits c.Size 70 c.T with
      | none => simp [h1, h2] at h
      | some b2 =>
        simp only [h1, h2, Option.some.injEq] at h
        subst h
        rw [(dimSkip_loop0 bits 70 c.L b1 h1).1, (dimSkip_loop2 c bits 70 c.T b2 h2).1]
        have e1 := dimCount_loop1 bits 70 b1 0 0 rfl
        have e3 := dimCount_loop3 c bits 70 b2 0 0 rfl
        generalize Gen.dimensions_loop1 bits 70 (b1, 0) = s1 at e1
        generalize Gen.dimensions_loop3 bits c 70 (b2, 0) = s3 at e3
        obtain ⟨a1, w1⟩ := s1
        obtain ⟨a3, w3⟩ := s3
        simp at e1 e3
        simp [e1, e3]


/-- helper: a 64-bit word shifted right by 64 or more is 0 -/
theorem shr_ge64 (b : W) (n : Nat) (h : 64 ≤ n) : b >>> n = 0#64 := by
  apply BitVec.eq_of_toNat_eq
  simp only [BitVec.toNat_ushiftRight, BitVec.toNat_ofNat, Nat.shiftRight_eq_div_pow]
  have hb := b.isLt
  have : 2 ^ 64 ≤ 2 ^ n := Nat.pow_le_pow_right (by omega) h
  rw [Nat.div_eq_of_lt (by omega)]

/-- helper: after `n` rounds the height loop has stopped or holds `b >>> (Size*n)` -/
theorem loop3_state (c : Consts) (bits : W) (n : Nat) (b : W) (h : Int) :
    Gen.dimensions_loop3_more bits c (Gen.dimensions_loop3 bits c n (b, h)) = false ∨
    (Gen.dimensions_loop3 bits c n (b, h)).1 = b >>> (c.Size * n) := by
  induction n generalizing b h with
  | zero => right; simp [Gen.dimensions_loop3]
  | succ n ih =>
    unfold Gen.dimensions_loop3
    by_cases hc : (b != 0#64 && (bits &&& b != 0#64)) = true
    · simp only [hc, if_true]
      rcases ih (b >>> c.Size) (h + 1) with h0 | h1
      · left; exact h0
      · right; rw [h1, ← BitVec.shiftRight_add]; congr 1; rw [Nat.mul_succ]; omega
    · left; simp only [hc]; simpa [Gen.dimensions_loop3_more] using hc

/-- helper: after `n` rounds the width loop has stopped or holds `b >>> n` -/
theorem loop1_state (bits : W) (n : Nat) (b : W) (w : Int) :
    Gen.dimensions_loop1_more bits (Gen.dimensions_loop1 bits n (b, w)) = false ∨
    (Gen.dimensions_loop1 bits n (b, w)).1 = b >>> n := by
  induction n generalizing b w with
  | zero => right; simp [Gen.dimensions_loop1]
  | succ n ih =>
    unfold Gen.dimensions_loop1
    by_cases hc : (b != 0#64 && (bits &&& b != 0#64)) = true
    · simp only [hc, if_true]
      rcases ih (b >>> 1) (w + 1) with h0 | h1
      · left; exact h0
      · right; rw [h1, ← BitVec.shiftRight_add]; congr 1; omega
    · left; simp only [hc]; simpa [Gen.dimensions_loop1_more] using hc

/-- the whitelisted fuel 70 of the width loop of `Dimensions` suffices for every mask -/
theorem dimensions_width_fuel (bits b : W) (w : Int) :
    Gen.dimensions_loop1_more bits (Gen.dimensions_loop1 bits 70 (b, w)) = false := by
  rcases loop1_state bits 70 b w with h0 | h1
  · exact h0
  · rw [shr_ge64 b 70 (by omega)] at h1
    generalize Gen.dimensions_loop1 bits 70 (b, w) = r at h1
    obtain ⟨rb, rw'⟩ := r
    simp at h1; simp [Gen.dimensions_loop1_more, h1]

/-- the whitelisted fuel 70 of the counting loops of `Dimensions` suffices on every board (`Size ≥ 1`): after 70
shifts by `Size` the mask is 0 -/
theorem dimensions_count_fuel (c : Consts) (hs : 1 ≤ c.Size) (bits b : W) (h : Int) :
    Gen.dimensions_loop3_more bits c (Gen.dimensions_loop3 bits c 70 (b, h)) = false := by
  rcases loop3_state c bits 70 b h with h0 | h1
  · exact h0
  · have hz : b >>> (c.Size * 70) = 0#64 := shr_ge64 b _ (by omega)
    rw [hz] at h1
    generalize Gen.dimensions_loop3 bits c 70 (b, h) = r at h1
    obtain ⟨rb, rh⟩ := r
    simp at h1; simp [Gen.dimensions_loop3_more, h1]

example : Gen.dimensions (Gen.precompute 5) 0x63#64 = (2, 2) ∧ dimensions (Gen.precompute 5) 0x63#64 = some (2, 2) := by decide

end C18
