import TakVerif.Impl.Book
namespace C04
open Tak
/-- placeholder until the real theorems land -/
theorem bumpChild_ne_nil (m : Move) (l : List BookChild) : bumpChild m l ≠ [] := by
  cases l <;> simp [bumpChild]; split <;> simp
end C04
