import TakVerif.Proofs.BookLegal
import TakVerif.Proofs.PosFactsInst
import TakVerif.Proofs.ImageFact

/-!
# C04 (opening-book clause) — book moves are legal in the position they are looked up for

Model: `Tak.buildOpeningBook`, `Tak.Book.getMove` (`Impl/Book.lean`, mirror of `ai/opening.go`), on top of
`Tak.symmetries` / `Tak.transformMove` (`Impl/Symmetry.lean`).  The book is a list of move sequences
(the PTN text of the moves is C11's subject); `math/rand` is an arbitrary oracle `rnd i n` for the `i`-th
call `Int31n(n)`, assumed only to respect its contract `0 ≤ rnd i n < n`.

Legality is the rule book's (`Tak.SLegal q m`: `Spec.step (abs q) (decode m)` is `some _`), so the theorems are
about what the position shows through `At`, the reserves and the ply.  They rest on `Tak.PosFacts basis size Inv Ok` and `Tak.ImageFact basis Inv`:
for the positions satisfying an invariant `Inv` — C01's well-formedness `WF basis` — and (position, move) pairs
satisfying `Ok` — C01's side conditions: not the internal pass move, result within the 64-piece limit —
`tak.New` establishes `Inv`, a move accepted by `Move` preserves `Inv`, is legal by the rule book and leads to
the position the rule book says (`C01.move_refines`), and the `k`-th image rebuilt by `Symmetries` shows the
`k`-image (`Spec.Sym.state k`; not yet a theorem).  `LinesOk` says `Ok` holds along the book lines.  Given these, the argument is
C14's `step_equivariant` and `transformMove_spec`; the hash is only used as a key, and the absence of
collisions is an explicit hypothesis where it is needed.
-/
namespace C04
open Tak Spec

/-- **Stored replies are legal.**  In a book built without error every entry has at least one reply, all
weights are positive, and every reply is legal in a rebuilt image of a book-line position that has the
entry's key (`BookImg`: the eight images of every position of every line at which the line continues). -/
theorem book_entries_legal {basis : Array W} {size : Nat} {Inv : Pos → Prop} {Ok : Pos → Tak.Move → Prop}
    (F : PosFacts basis size Inv Ok) (himg : ImageFact basis Inv)
    {lines : List (List Tak.Move)} (hOk : LinesOk basis size lines Ok) {book : Book}
    (h : buildOpeningBook basis size lines = .ok book) :
    ∀ e ∈ book.entries, e.moves ≠ [] ∧ ∀ c ∈ e.moves, 0 < c.weight ∧
      ∃ q₀, BookImg basis size lines q₀ ∧ q₀.hashOf = e.hash ∧ SLegal q₀ c.move :=
  build_ok F himg hOk h

/-- **Book positions and all their symmetric images are found**: the hash of each of the eight rebuilt
images of each book-line position (with a continuation) is a key of the book. -/
theorem book_contains_images {basis : Array W} {size : Nat} {lines : List (List Tak.Move)} {book : Book}
    (h : buildOpeningBook basis size lines = .ok book) (q : Pos) (hq : BookImg basis size lines q) :
    ∃ e ∈ book.entries, e.hash = q.hashOf :=
  build_keys h q hq

/-- **Book moves are legal in the position they are looked up for.**  Let the book be built without error,
the oracle respect the contract of `Int31n`, and the looked-up position `q` not collide with a *different*
board among the images stored (same hash as a `BookImg` position ⇒ same board, reserves, ply).  Then whenever
`GetMove` answers with a move, that move is legal in `q`. -/
theorem book_moves_legal {basis : Array W} {size : Nat} {Inv : Pos → Prop} {Ok : Pos → Tak.Move → Prop}
    (F : PosFacts basis size Inv Ok) (himg : ImageFact basis Inv)
    {lines : List (List Tak.Move)} (hOk : LinesOk basis size lines Ok) {book : Book}
    (hb : buildOpeningBook basis size lines = .ok book)
    (q : Pos) (rnd : Nat → Nat → Nat) (hr : ∀ i n, 0 < n → rnd i n < n)
    (hnc : ∀ q₀, BookImg basis size lines q₀ → q₀.hashOf = q.hashOf → Spec.abs q₀ = Spec.abs q)
    (m : Tak.Move) (h : book.getMove q rnd = .ok (some m)) : SLegal q m :=
  getMove_legal F himg hOk hb q rnd hr hnc m h

/-- …and for a book position or any of its symmetric images `GetMove` does answer (it neither reports "not in
the book" nor panics in `Int31n`), as long as the weights of the entry sum to less than 2^31. -/
theorem book_answers_images {basis : Array W} {size : Nat} {Inv : Pos → Prop} {Ok : Pos → Tak.Move → Prop}
    (F : PosFacts basis size Inv Ok) (himg : ImageFact basis Inv)
    {lines : List (List Tak.Move)} (hOk : LinesOk basis size lines Ok) {book : Book}
    (hb : buildOpeningBook basis size lines = .ok book)
    (q : Pos) (hq : BookImg basis size lines q) (rnd : Nat → Nat → Nat)
    (hsmall : ∀ e ∈ book.entries, (e.moves.map (·.weight)).sum < 2147483648) :
    ∃ m, book.getMove q rnd = .ok (some m) := by
  obtain ⟨e, he, hk⟩ := build_keys hb q hq
  -- `find` returns the first entry with the key
  cases hf : book.find q.hashOf with
  | none =>
    have := List.find?_eq_none.1 hf e he
    simp [hk] at this
  | some e1 =>
    have he1 : e1 ∈ book.entries := List.mem_of_find?_eq_some hf
    obtain ⟨-, hall⟩ := build_ok F himg hOk hb e1 he1
    obtain ⟨m, hm⟩ := pickChild_ok rnd e1.moves 0 0 { x := 0, y := 0, type := 0, slides := 0#32 }
      (fun c hc => (hall c hc).1) (by simpa using hsmall e1 he1)
    exact ⟨m, by simp [Book.getMove, hf, hm, bind, Except.bind, pure, Except.pure]⟩

/-- **For the default games up to 6×6 every hypothesis but the absence of collisions is a theorem.**
`PosFacts` holds for `InvD basis` — C01's `WF basis`, piece budget ≤ 64, the configuration `New` stores,
conservation of pieces — by `C01.move_refines`, `C01_spec.step_conserves` and C02's `analyze_ne_none`
(`Tak.posFacts2_defaultD`); `ImageFact` by `Tak.imageFact_invD` (the C10 package's reading of `FromSquares`);
`LinesOk` because book lines never contain the internal pass move (`ptn.ParseMove` cannot produce it).
So: in a book built without error from pass-free lines, whenever `GetMove` answers for a position that does not
collide with a different stored image, the move is legal there. -/
theorem book_moves_legal_default (basis : Array W) {size : Nat} (hs : size ≤ 6)
    {lines : List (List Tak.Move)} (hnp : ∀ line ∈ lines, ∀ m ∈ line, m.type ≠ Facts.mtPass) {book : Book}
    (hb : buildOpeningBook basis size lines = .ok book)
    (q : Pos) (rnd : Nat → Nat → Nat) (hr : ∀ i n, 0 < n → rnd i n < n)
    (hnc : ∀ q₀, BookImg basis size lines q₀ → q₀.hashOf = q.hashOf → Spec.abs q₀ = Spec.abs q)
    (m : Tak.Move) (h : book.getMove q rnd = .ok (some m)) : SLegal q m :=
  book_moves_legal (posFacts2_defaultD basis size hs).toPosFacts (imageFact_invD basis)
    (linesOk_of (posFacts2_defaultD basis size hs).toPosFacts
      (fun _ m hi hm => ⟨hm, stackLimit_of_budget m hi.2.1⟩) lines hnp) hb q rnd hr hnc m h

/-- likewise: every stored reply is legal in a stored image with the entry's key, and book positions and all
their images are answered -/
theorem book_entries_legal_default (basis : Array W) {size : Nat} (hs : size ≤ 6)
    {lines : List (List Tak.Move)} (hnp : ∀ line ∈ lines, ∀ m ∈ line, m.type ≠ Facts.mtPass) {book : Book}
    (hb : buildOpeningBook basis size lines = .ok book) :
    (∀ e ∈ book.entries, e.moves ≠ [] ∧ ∀ c ∈ e.moves, 0 < c.weight ∧
      ∃ q₀, BookImg basis size lines q₀ ∧ q₀.hashOf = e.hash ∧ SLegal q₀ c.move) ∧
    (∀ q, BookImg basis size lines q → ∃ e ∈ book.entries, e.hash = q.hashOf) :=
  ⟨book_entries_legal (posFacts2_defaultD basis size hs).toPosFacts (imageFact_invD basis)
    (linesOk_of (posFacts2_defaultD basis size hs).toPosFacts
      (fun _ m hi hm => ⟨hm, stackLimit_of_budget m hi.2.1⟩) lines hnp) hb,
   fun q hq => book_contains_images hb q hq⟩

/-! ## the hypotheses are satisfiable: a concrete book (zero Zobrist basis) -/

def zeroBasis : Array W := Array.replicate 64 0#64
def a1 : Tak.Move := ⟨0, 0, Facts.mtPlaceFlat, 0#32⟩
def c3 : Tak.Move := ⟨2, 2, Facts.mtPlaceFlat, 0#32⟩

/-- the one-line book `a1 c3` on 5×5 builds; it has 1 key for the empty board and 4 for the position after
`a1` (a corner stone has four distinct images), and the reply stored for the image with the stone on e5 is c3 -/
example : (match buildOpeningBook zeroBasis 5 [[a1, c3]] with
    | .ok b => b.entries.length == 5 && b.entries.all (fun e => e.moves.length == 1)
    | .error _ => false) = true := by decide

end C04
