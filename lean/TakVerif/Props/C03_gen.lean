import TakVerif.Props.C03
import TakVerif.Proofs.GenMove
import TakVerif.Generated.FuncsMoveGen
import TakVerif.Proofs.GenSlices
import TakVerif.Props.C02_gen

set_option linter.unusedSimpArgs false

/-! Tie #1 for C03: the move generator itself is regenerated from the source on every run.
`Generated/FuncsMoveGen.lean` holds the translations of `tak.MkSlides`, `calculateSlides`, the `init` that fills the
`slides` table and `Position.AllMoves` (four nested loops, `append`s, `continue`s, the index reads `p.Height[i]`,
`slides[h]`, a local struct type and an array literal) - with Go's index panics explicit (`none`).

* `slidesInit_is_source`: the table the regenerated `init` builds from the zero value **is** the model's `slidesTable`
  (kernel evaluation of the finite table; `C03.slides_table` describes its rows for all words).
* `allMoves_is_source`: for **every** position of a board of size ≤ 8 whose `Height` slice covers the board (all that
  `alloc` builds), the regenerated `AllMoves(nil)` does not panic and returns the model's `Pos.allMoves`, move for move,
  in the same order.  So `C03.allMoves_complete`, `allMoves_nodup`, `allMoves_onboard`, `legal_filter_eq` … are
  theorems about the function `gen` reads out of `tak/move.go` (`gen_allMoves_complete`, `gen_allMoves_sound`). -/
namespace C03
open Tak GenMove

/-- a move list of the model as the Go slice of `tak.Move` structs -/
def enc (l : List Move) : Array Gen.Move := (l.map genMove).toArray

theorem enc_push (l : List Move) (m : Move) : enc (l ++ [m]) = (enc l).push (genMove m) := by simp [enc]

/-- the `slides` table of the model as the Go `[][]Slides` -/
def genTable : Array (Array (BitVec 32)) := slidesTable.map List.toArray

theorem genTable_row (h : Nat) : (genTable.getD h #[]).toList = slidesTable.getD h [] := by
  unfold genTable
  by_cases hh : h < slidesTable.size
  · simp [Array.getD, hh]
  · simp [Array.getD, hh]

theorem genTable_size : genTable.size = 10 := by unfold genTable; rw [Array.size_map]; decide +kernel

/-- **the `slides` table**: what the regenerated `init` builds (from the zero value of the variable, through the
regenerated `calculateSlides`, `MkSlides`, `Slides.Prepend`) is the model's table -/
theorem slidesInit_is_source : Gen.slidesInit #[] = some genTable := by decide +kernel

/-- innermost loop of `AllMoves` (over `slides[h]`) -/
def slideRow (xi yi : Int) (d : Nat) (mask : BitVec 32) (moves : List Move) (s : BitVec 32) : List Move :=
  if s &&& mask == 0#32 then moves ++ [⟨xi, yi, d, s⟩] else moves

theorem loop3_eq (d : Gen.positionAllMoves_dircnt) (dN : Nat) (hd : d.d = BitVec.ofNat 8 dN) (mask : BitVec 32)
    (x y : Int) (hx : Gen.wrap8 x = x) (hy : Gen.wrap8 y = y) (l : List (BitVec 32)) (a : List Move) :
    Gen.positionAllMoves_loop3 d mask x y l (enc a) = some (enc (l.foldl (slideRow x y dN mask) a)) := by
  induction l generalizing a with
  | nil => simp [Gen.positionAllMoves_loop3]
  | cons s tl ih =>
    unfold Gen.positionAllMoves_loop3
    simp only [List.foldl_cons, slideRow]
    by_cases h : (s &&& mask == 0#32) = true
    · simp only [h, ↓reduceIte]
      rw [← ih]; congr 1
      rw [enc_push]; simp [genMove, hx, hy, hd]
    · simp only [h, ↓reduceIte, Bool.false_eq_true]
      exact ih a

/-- the loop over the four directions -/
def dirStep (p : Pos) (i : Nat) (xi yi : Int) (moves : List Move) (dc : Nat × Nat) : List Move :=
  let h0 := (p.height.getD i 0).toNat
  let h := if h0 > p.cfg.size then p.cfg.size else h0
  let mask : BitVec 32 := ~~~((1#32 <<< (4 * dc.2)) - 1#32)
  (slidesTable.getD h []).foldl (slideRow xi yi dc.1 mask) moves

def genDir (dc : Nat × Nat) : Gen.positionAllMoves_dircnt := { d := BitVec.ofNat 8 dc.1, c := (dc.2 : Int) }

theorem loop2_eq (p : Pos) (hsz : p.cfg.size ≤ 8) (i : Nat) (hi : i < p.height.size)
    (x y : Int) (hx : Gen.wrap8 x = x) (hy : Gen.wrap8 y = y) (dl : List (Nat × Nat)) (hc : ∀ dc ∈ dl, dc.2 ≤ 8) (a : List Move) :
    Gen.positionAllMoves_loop2 genTable i p.height p.cfg.size x y (dl.map genDir) (enc a) =
      some (enc (dl.foldl (dirStep p i x y) a)) := by
  induction dl generalizing a with
  | nil => simp [Gen.positionAllMoves_loop2]
  | cons dc tl ih =>
    have hc' : ∀ dc ∈ tl, dc.2 ≤ 8 := fun d hd => hc d (List.mem_cons_of_mem _ hd)
    have hc0 : dc.2 ≤ 8 := hc dc List.mem_cons_self
    simp only [List.map_cons, List.foldl_cons]
    unfold Gen.positionAllMoves_loop2
    have hsz8 : (BitVec.ofInt 8 (p.cfg.size : Int)).toNat = p.cfg.size := by
      rw [BitVec.ofInt_natCast]; simp; omega
    have hconv : Int.toNat (((dc.2 : Nat) : Int) % 18446744073709551616) = dc.2 := by
      have : (((dc.2 : Nat) : Int) % 18446744073709551616) = dc.2 := Int.emod_eq_of_lt (by omega) (by omega)
      rw [this]; simp
    simp only [hi, decide_true, Bool.not_true, Bool.false_eq_true, ↓reduceIte, genDir, hconv, Gen.shl_eq, genTable_size]
    have hgt : (p.height.getD i 0#8 > BitVec.ofInt 8 (p.cfg.size : Int)) ↔ (p.height.getD i 0#8).toNat > p.cfg.size := by
      rw [gt_iff_lt, BitVec.lt_def, hsz8]
    by_cases hg : (p.height.getD i 0#8).toNat > p.cfg.size
    · have hg' := hgt.mpr hg
      simp only [hg', decide_true, ↓reduceIte, hsz8, show p.cfg.size < 10 by omega, Bool.not_true, Bool.false_eq_true, genTable_row]
      rw [loop3_eq _ dc.1 rfl _ x y hx hy]
      simp only []
      rw [ih hc']
      have hg2 : (p.height.getD i 0).toNat > p.cfg.size := hg
      simp only [dirStep, hg2, ↓reduceIte]
    · have hg' : ¬ (p.height.getD i 0#8 > BitVec.ofInt 8 (p.cfg.size : Int)) := fun h => hg (hgt.mp h)
      have hlt : (p.height.getD i 0#8).toNat < 10 := by omega
      simp only [hg', decide_false, ↓reduceIte, hlt, decide_true, Bool.not_true, Bool.false_eq_true, genTable_row]
      rw [loop3_eq _ dc.1 rfl _ x y hx hy]
      simp only []
      rw [ih hc']
      have hg2 : ¬ (p.height.getD i 0).toNat > p.cfg.size := hg
      simp only [dirStep, hg2, ↓reduceIte]
      rfl

/-- the body of the double loop of `AllMoves` for the square `(x, y)` (text of `Pos.allMoves`) -/
def cellStep (p : Pos) (x : Nat) (moves : List Move) (y : Nat) : List Move :=
  let next := p.toMove
  let cap := if next == .white then p.whiteCaps != 0#8 else p.blackCaps != 0#8
  let sz := p.cfg.size
  let i := y * sz + x
  let xi : Int := x
  let yi : Int := y
  if p.height.getD i 0 == 0#8 then
    let moves := moves ++ [⟨xi, yi, Facts.mtPlaceFlat, 0⟩]
    if p.move ≥ 2 then
      let moves := moves ++ [⟨xi, yi, Facts.mtPlaceStanding, 0⟩]
      if cap then moves ++ [⟨xi, yi, Facts.mtPlaceCapstone, 0⟩] else moves
    else moves
  else if p.move < 2 then moves
  else if next == .white ∧ !p.white.getLsbD i then moves
  else if next == .black ∧ !p.black.getLsbD i then moves
  else
    let dirs : List (Nat × Nat) :=
      [(Facts.mtSlideLeft, x), (Facts.mtSlideRight, sz - x - 1), (Facts.mtSlideDown, y), (Facts.mtSlideUp, sz - y - 1)]
    dirs.foldl (dirStep p i xi yi) moves

theorem allMoves_unfold (p : Pos) :
    p.allMoves = (List.range p.cfg.size).foldl (fun moves x => (List.range p.cfg.size).foldl (cellStep p x) moves) [] := rfl

/-- the capstone flag as `AllMoves` computes it -/
def capG (p : Pos) : Bool := if p.toMove == .white then decide (p.whiteCaps > 0#8) else decide (p.blackCaps > 0#8)

theorem capG_eq (p : Pos) : capG p = (if p.toMove == .white then p.whiteCaps != 0#8 else p.blackCaps != 0#8) := by
  have h : ∀ v : U8, decide (v > 0#8) = (v != 0#8) := by decide
  unfold capG; rw [h, h]

theorem loop1_step (p : Pos) (hsz : p.cfg.size ≤ 8) (hH : p.cfg.size * p.cfg.size ≤ p.height.size)
    (x : Nat) (hx : x < p.cfg.size) (n : Nat) (hn : n + 1 ≤ p.cfg.size) (a : List Move) :
    Gen.positionAllMoves_loop1 (capG p) genTable (Gen.positionToMove p.move) p.black p.height p.white p.cfg.size p.move x p.cfg.size (n + 1) (enc a) =
    Gen.positionAllMoves_loop1 (capG p) genTable (Gen.positionToMove p.move) p.black p.height p.white p.cfg.size p.move x p.cfg.size n
      (enc (cellStep p x a (p.cfg.size - (n + 1)))) := by
  generalize hy : p.cfg.size - (n + 1) = y
  have hyl : y < p.cfg.size := by omega
  have hyi : (p.cfg.size : Int) - Int.ofNat (n + 1) = (y : Int) := by simp only [Int.ofNat_eq_natCast]; omega
  have hmul : y * p.cfg.size + x < p.cfg.size * p.cfg.size := by
    have : y * p.cfg.size ≤ (p.cfg.size - 1) * p.cfg.size := Nat.mul_le_mul_right _ (by omega)
    have e : (p.cfg.size - 1) * p.cfg.size + p.cfg.size = p.cfg.size * p.cfg.size := by
      rw [← Nat.succ_mul]; congr 1; omega
    omega
  have hi64 : y * p.cfg.size + x < 2 ^ 64 := by
    have : p.cfg.size * p.cfg.size ≤ 8 * 8 := Nat.mul_le_mul hsz hsz
    omega
  have hconv : Int.toNat ((((y : Int) * (p.cfg.size : Int)) + (x : Int)) % 18446744073709551616) = y * p.cfg.size + x := by
    have e : ((y : Int) * (p.cfg.size : Int)) + (x : Int) = ((y * p.cfg.size + x : Nat) : Int) := by simp
    rw [e, Int.emod_eq_of_lt (by omega) (by omega)]; exact Int.toNat_natCast _
  have hiH : y * p.cfg.size + x < p.height.size := by omega
  have wx : Gen.wrap8 (x : Int) = x := by unfold Gen.wrap8; omega
  have wy : Gen.wrap8 (y : Int) = y := by unfold Gen.wrap8; omega
  rw [Gen.positionAllMoves_loop1]
  simp only [hyi, hconv, hiH, decide_true, Bool.not_true, Bool.false_eq_true, ↓reduceIte, wx, wy,
    Gen.and_shl_eq_zero]
  unfold cellStep
  simp only []
  rw [← C02.toMove_is_source, capG_eq]
  have hw : (C02.colorByte p.toMove == 128#8) = (p.toMove == Color.white) := by cases p.toMove <;> decide
  have hb : (C02.colorByte p.toMove == 64#8) = (p.toMove == Color.black) := by cases p.toMove <;> decide
  simp only [hw, hb]
  have h00 : (p.height.getD (y * p.cfg.size + x) 0 == 0#8) = (p.height.getD (y * p.cfg.size + x) 0#8 == 0#8) := rfl
  by_cases c0 : (p.height.getD (y * p.cfg.size + x) 0#8 == 0#8) = true
  · simp only [h00, c0, ↓reduceIte]
    by_cases c1 : p.move ≥ 2
    · simp only [c1, decide_true, ↓reduceIte]
      cases hc : (if (p.toMove == Color.white) = true then p.whiteCaps != 0#8 else p.blackCaps != 0#8)
      · simp only [Bool.false_eq_true, ↓reduceIte]; rw [enc_push, enc_push]; rfl
      · simp only [↓reduceIte]; rw [enc_push, enc_push, enc_push]; rfl
    · simp only [c1, decide_false, ↓reduceIte, Bool.false_eq_true]; rw [enc_push]; rfl
  · simp only [h00, c0, ↓reduceIte, Bool.false_eq_true]
    by_cases c1 : p.move < 2
    · simp only [c1, decide_true, ↓reduceIte]
    · simp only [c1, decide_false, ↓reduceIte, Bool.false_eq_true]
      have e1 : ((p.cfg.size - x - 1 : Nat) : Int) = (p.cfg.size : Int) - x - 1 := by omega
      have e2 : ((p.cfg.size - y - 1 : Nat) : Int) = (p.cfg.size : Int) - y - 1 := by omega
      have hdl : [({ d := 5#8, c := (x : Int) } : Gen.positionAllMoves_dircnt), { d := 6#8, c := (p.cfg.size : Int) - x - 1 },
          { d := 8#8, c := (y : Int) }, { d := 7#8, c := (p.cfg.size : Int) - y - 1 }] =
          [(Facts.mtSlideLeft, x), (Facts.mtSlideRight, p.cfg.size - x - 1), (Facts.mtSlideDown, y),
            (Facts.mtSlideUp, p.cfg.size - y - 1)].map genDir := by
        simp only [List.map, genDir, e1, e2]; rfl
      have hcs : ∀ dc ∈ [(Facts.mtSlideLeft, x), (Facts.mtSlideRight, p.cfg.size - x - 1), (Facts.mtSlideDown, y),
            (Facts.mtSlideUp, p.cfg.size - y - 1)], dc.2 ≤ 8 := by
        intro dc hdc
        simp only [List.mem_cons, List.not_mem_nil, or_false] at hdc
        rcases hdc with rfl | rfl | rfl | rfl <;> simp only [] <;> omega
      rw [hdl, loop2_eq p hsz _ hiH x y wx wy _ hcs a]
      cases cw : (p.toMove == Color.white) <;> cases cb : (p.toMove == Color.black) <;>
        cases bw : p.white.getLsbD (y * p.cfg.size + x) <;> cases bb : p.black.getLsbD (y * p.cfg.size + x) <;>
        simp only [Bool.not_false, Bool.not_true, Bool.and_true, Bool.and_false, Bool.false_eq_true, and_self,
          and_true, and_false, false_and, true_and, ↓reduceIte, Bool.and_self]

theorem loop1_eq (p : Pos) (hsz : p.cfg.size ≤ 8) (hH : p.cfg.size * p.cfg.size ≤ p.height.size)
    (x : Nat) (hx : x < p.cfg.size) (n : Nat) (hn : n ≤ p.cfg.size) (a : List Move) :
    Gen.positionAllMoves_loop1 (capG p) genTable (Gen.positionToMove p.move) p.black p.height p.white p.cfg.size p.move x p.cfg.size n (enc a) =
      some (enc ((List.range' (p.cfg.size - n) n).foldl (cellStep p x) a)) := by
  induction n generalizing a with
  | zero => simp [Gen.positionAllMoves_loop1]
  | succ n ih =>
    rw [loop1_step p hsz hH x hx n hn, ih (by omega)]
    have e : p.cfg.size - (n + 1) + 1 = p.cfg.size - n := by omega
    rw [List.range'_succ, List.foldl_cons, e]

theorem loop0_eq (p : Pos) (hsz : p.cfg.size ≤ 8) (hH : p.cfg.size * p.cfg.size ≤ p.height.size)
    (n : Nat) (hn : n ≤ p.cfg.size) (a : List Move) :
    Gen.positionAllMoves_loop0 (capG p) genTable (Gen.positionToMove p.move) p.black p.height p.white p.cfg.size p.move p.cfg.size n (enc a) =
      some (enc ((List.range' (p.cfg.size - n) n).foldl
        (fun moves x => (List.range p.cfg.size).foldl (cellStep p x) moves) a)) := by
  induction n generalizing a with
  | zero => simp [Gen.positionAllMoves_loop0]
  | succ n ih =>
    rw [Gen.positionAllMoves_loop0]
    have hx : (p.cfg.size : Int) - Int.ofNat (n + 1) = ((p.cfg.size - (n + 1) : Nat) : Int) := by
      simp only [Int.ofNat_eq_natCast]; omega
    have hc : ((p.cfg.size : Int) - (0 : Int)).toNat = p.cfg.size := by simp
    simp only [hx, hc]
    rw [loop1_eq p hsz hH _ (by omega) _ (Nat.le_refl _)]
    simp only [Nat.sub_self]
    rw [ih (by omega)]
    have e : p.cfg.size - (n + 1) + 1 = p.cfg.size - n := by omega
    rw [List.range'_succ, List.foldl_cons, e, List.range_eq_range']

/-- **`Position.AllMoves(nil)`**: on every position of a board of size ≤ 8 whose `Height` slice covers the board, the
regenerated generator returns (without panicking) exactly the model's move list, in the same order -/
theorem allMoves_is_source (p : Pos) (hsz : p.cfg.size ≤ 8) (hH : p.cfg.size * p.cfg.size ≤ p.height.size) :
    Gen.positionAllMoves genTable p.black p.height p.white p.blackCaps p.cfg.size p.move p.whiteCaps #[] =
      some (enc p.allMoves) := by
  have h0 := loop0_eq p hsz hH p.cfg.size (Nat.le_refl _) []
  simp only [Nat.sub_self, ← List.range_eq_range', ← allMoves_unfold] at h0
  have hc : ((p.cfg.size : Int) - (0 : Int)).toNat = p.cfg.size := by simp
  have hw : (Gen.positionToMove p.move == 128#8) = (p.toMove == Color.white) := by
    rw [← C02.toMove_is_source]; cases p.toMove <;> decide
  unfold Gen.positionAllMoves
  simp only [hc, hw]
  have e0 : (#[] : Array Gen.Move) = enc [] := rfl
  cases hm : (p.toMove == Color.white)
  · have : capG p = decide (p.blackCaps > 0#8) := by simp [capG, hm]
    simp only [Bool.false_eq_true, ↓reduceIte, ← this, e0, h0]
  · have : capG p = decide (p.whiteCaps > 0#8) := by simp [capG, hm]
    simp only [↓reduceIte, ← this, e0, h0]


/-- the regenerated generator never panics on such a position -/
theorem gen_allMoves_total (p : Pos) (hsz : p.cfg.size ≤ 8) (hH : p.cfg.size * p.cfg.size ≤ p.height.size) :
    (Gen.positionAllMoves genTable p.black p.height p.white p.blackCaps p.cfg.size p.move p.whiteCaps #[]).isSome = true := by
  rw [allMoves_is_source p hsz hH]; rfl

/-- **completeness, stated for the regenerated generator**: every legal non-pass raw move is `Equal` to an entry of the
slice the regenerated `AllMoves` returns (`C03.allMoves_complete` transported through `allMoves_is_source`) -/
theorem gen_allMoves_complete (p : Pos) (wf : Tak.Proofs.WFlite p) (hH : p.cfg.size * p.cfg.size ≤ p.height.size)
    (m : Tak.Move) (hnp : m.type ≠ Facts.mtPass) (hl : Spec.step (Spec.abs p) (Spec.decode m) ≠ none) :
    ∃ ms, Gen.positionAllMoves genTable p.black p.height p.white p.blackCaps p.cfg.size p.move p.whiteCaps #[] = some ms ∧
      ∃ m', genMove m' ∈ ms.toList ∧ m'.equal m = true := by
  obtain ⟨m', hm', he⟩ := allMoves_complete p wf m hnp hl
  refine ⟨_, allMoves_is_source p wf.size_hi hH, m', ?_, he⟩
  simp only [enc, List.mem_map]
  exact ⟨m', hm', rfl⟩

/-- **soundness of shape, stated for the regenerated generator**: every entry of the returned slice is the image of a
model move, which is on the board, not a pass, and listed once (`allMoves_onboard`, `allMoves_nodup`) -/
theorem gen_allMoves_sound (p : Pos) (h3 : 3 ≤ p.cfg.size) (h8 : p.cfg.size ≤ 8) (hH : p.cfg.size * p.cfg.size ≤ p.height.size) :
    ∃ ms, Gen.positionAllMoves genTable p.black p.height p.white p.blackCaps p.cfg.size p.move p.whiteCaps #[] = some ms ∧
      ms.size = p.allMoves.length ∧ p.allMoves.Nodup ∧
      ∀ g ∈ ms.toList, ∃ m ∈ p.allMoves, g = genMove m ∧ m.type ≠ Facts.mtPass ∧ 0 ≤ m.x ∧ m.x < p.cfg.size ∧ 0 ≤ m.y ∧ m.y < p.cfg.size := by
  refine ⟨_, allMoves_is_source p h8 hH, by simp [enc], allMoves_nodup p h8, ?_⟩
  intro g hg
  simp only [enc, List.mem_map] at hg
  obtain ⟨m, hm, rfl⟩ := hg
  have := allMoves_onboard p h3 h8 m hm
  have hnp : m.type ≠ Facts.mtPass := by
    rcases this.2.2.2.2.1 with h | h | h | h | h | h | h <;> rw [h] <;> decide
  exact ⟨m, hm, rfl, hnp, this.1, this.2.1, this.2.2.1, this.2.2.2.1⟩

example : Gen.positionAllMoves genTable exPos.black exPos.height exPos.white exPos.blackCaps 3 2 exPos.whiteCaps #[] =
    some (enc exPos.allMoves) := allMoves_is_source exPos (by decide) (by decide)
example : (Gen.positionAllMoves genTable exPos2.black exPos2.height exPos2.white exPos2.blackCaps 5 11 exPos2.whiteCaps #[]).map (·.size) =
    some 107 := by decide +kernel
example : Gen.mkSlides #[2, 1, 1, 1] = some 0x1112#32 ∧ Gen.mkSlides #[9] = none ∧
    (Gen.calculateSlides genTable 2).map (·.toList) = some [1#32, 0x11#32, 2#32] := by decide +kernel

end C03
