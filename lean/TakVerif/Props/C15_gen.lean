import TakVerif.Impl.Symmetry
import TakVerif.Generated.FuncsSym

/-! Tie #1 for C15: `preferMove` (the order that picks the canonical image of a move) is regenerated from
`symmetry/canonical.go` on every run; the model's `preferMove` is proved equal to it. -/
namespace C15
open Tak

def genMove (m : Move) : Gen.Move := { X := m.x, Y := m.y, Type_ := BitVec.ofNat 8 m.type, Slides := m.slides }

/-- `preferMove(l, r)`: by `Y`, then `X`, then `Type` (a byte in Go, a number below 256 in the model) -/
theorem preferMove_is_source (l r : Move) (hl : l.type < 256) (hr : r.type < 256) :
    preferMove l r = Gen.preferMove (genMove l) (genMove r) := by
  unfold preferMove Gen.preferMove genMove
  by_cases hy : l.y = r.y <;> by_cases hx : l.x = r.x <;> simp [hy, hx, BitVec.lt_def, Nat.mod_eq_of_lt hl, Nat.mod_eq_of_lt hr]

example : preferMove ⟨1, 0, 2, 0#32⟩ ⟨0, 1, 2, 0#32⟩ = true ∧ Gen.preferMove (genMove ⟨1, 0, 2, 0#32⟩) (genMove ⟨0, 1, 2, 0#32⟩) = true := by decide

end C15
