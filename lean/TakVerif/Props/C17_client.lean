import TakVerif.Proofs.TEIClientCompose
import TakVerif.Proofs.TEIClientTotal
import TakVerif.Props.C17

/-! # C17, observed at `tei.Player.TEIGetMove` — the client side of TEI

Theorems about `Tak.TEIClient` (the model of `tei/client.go`, `tei/time.go` and the clock bookkeeping of
`cmd/internal/selfplay/simulate.go`, *with* the repair `fixes/C17-client-movetime.diff`) composed with
`Tak.TEI` (the model of `tei/server.go`).  Durations are nanoseconds (`time.Duration`), `Bytes` are Go strings,
`str` turns them into the `String`s the server model reads. -/
set_option linter.unusedVariables false
set_option linter.unusedSimpArgs false
namespace C17
open Tak Tak.TEI Tak.TEIClient Spec.TEIClient Spec.TEI Proofs.TEIClient Proofs.TEI Go Notation

/-! ## `formatTime` -/

/-- **`formatTime d` is the decimal spelling of `max(0, d / 10^6)`** (division truncating toward zero, as
Go's `/` on `int64`), i.e. of `⌊d / 1 ms⌋` for `d ≥ 0` and of `0` for a negative duration — and the engine's
`strconv.ParseUint` reads exactly that number back from it (for every `int64` duration). -/
theorem formatTime_spec (d : Int) (h : d < 9223372036854775808) :
    formatTime d = itoaNat (max 0 (Int.tdiv d 1000000)).toNat ∧
    parseUint64 (str (formatTime d)) = some (max 0 (Int.tdiv d 1000000)).toNat ∧
    (0 ≤ d → ((max 0 (Int.tdiv d 1000000)).toNat : Int) = d / 1000000) ∧
    (d < 0 → (max 0 (Int.tdiv d 1000000)).toNat = 0) := by
  refine ⟨formatTime_eq d, ?_, msOf_nonneg d, msOf_neg d⟩
  rw [formatTime_eq]
  apply parseUint64_itoaNat
  by_cases h0 : 0 ≤ d
  · have := msOf_nonneg d h0
    omega
  · have := msOf_neg d (by omega)
    omega

example : str (formatTime 1999999) = "1" := by decide
example : str (formatTime 999999) = "0" := by decide
example : str (formatTime (-5000000)) = "0" := by decide
example : str (formatTime 4611686018427387904) = "4611686018427" := by decide +kernel

/-! ## the `go` line -/

/-- **The `go` line is well formed and carries exactly the clocks given.**  For a per-move time `rem`
(`deadline.Sub(time.Now())` when the context has a deadline) and a time control `tc` (`none` behaves as the
all-zero one), all within `int64`:
* if some duration cannot be expressed in whole milliseconds (`TooShort`: a per-move time below 1 ms, or a
  non-zero clock/increment below 1 ms — negative ones included) `TEIGetMove`'s `go` line is **not** written:
  the error "Timeout too short" is returned;
* otherwise the words written are exactly `go [movetime ms] [wtime ms] [btime ms] [winc ms] [binc ms]`
  (`goWords`): a key appears iff its duration is non-zero, `ms = ⌊duration / 1 ms⌋` in decimal;
* the engine's tokeniser (`TrimSpace`, `Fields`) splits the written line into exactly these words, and
* the engine's option loop accepts them and ends up with **every duration truncated to whole milliseconds**
  (`goArgs`: `movetime = 10^6·⌊rem/10^6⌋` or 0 if none, `wtime = 10^6·⌊White/10^6⌋`, …) — nothing else. -/
theorem client_go_wellformed (rem : Option Int) (tc : Option TimeControl)
    (hr : InRange rem (tc.getD {})) :
    (TooShort rem (tc.getD {}) → goCmd rem tc = .error (.illegal "Timeout too short")) ∧
    (¬ TooShort rem (tc.getD {}) →
      goCmd rem tc = .ok (goWords rem (tc.getD {})) ∧
      fields (goLine (goWords rem (tc.getD {}))).toList = (goWords rem (tc.getD {})).map str ∧
      parseGoArgs (((goWords rem (tc.getD {})).map str).drop 1) {} = some (goArgs rem (tc.getD {}))) := by
  have hsome : goCmd rem tc = goCmd rem (some (tc.getD {})) := by
    cases tc with
    | none => exact goCmd_none rem
    | some t => rfl
  rw [hsome]
  exact ⟨goCmd_short rem _, fun h => ⟨goCmd_ok rem _ h, fields_goLine rem _, parseGoArgs_goWords rem _ h hr⟩⟩

/-- a non-trivial instance: 1.5 s per move, White 90.0007 s, Black exactly 1 ms, increment 2.5 ms for White only -/
example : goLine (goWords (some 1500000000) { white := 90000700000, black := 1000000, winc := 2500000 })
    = "go movetime 1500 wtime 90000 btime 1 winc 2" := by decide +kernel
example : ¬ TooShort (some 1500000000) { white := 90000700000, black := 1000000, winc := 2500000 } := by decide
example : goArgs (some 1500000000) { white := 90000700000, black := 1000000, winc := 2500000 }
    = { movetime := 1500000000, white := 90000000000, black := 1000000, winc := 2000000, binc := 0 } := by decide
example : TooShort none { white := 60000000000, black := 60000000000, winc := 500000, binc := 500000 } := by decide
example : TooShort (some (-3)) {} := by decide

/-- **The pinned client turns a per-move time below 1 ms into "no limit".**  With 999 999 ns left (or a
deadline that has passed) it writes `go movetime 0`, and the engine's option loop reads that as
`movetime = 0`, which `analyze` treats as "no per-move time given".  Replayed on the real code by
`corpus/C17/client-movetime-zero.ops`. -/
theorem client_movetime_pinned_counterexample :
    goCmdPinned (some 999999) none = .ok [lit "go", lit "movetime", lit "0"] ∧
    parseGoArgs ["movetime", "0"] {} = some {} ∧
    goCmd (some 999999) none = .error (.illegal "Timeout too short") := ⟨by rfl, by decide +kernel, by rfl⟩

/-! ## selfplay: the clock after every move -/

/-- one step of the bookkeeping, spelled out: the mover is flagged iff at most 1 ms is left after the move;
otherwise the increment is added -/
theorem clockStep_spec (tm inc dur : Int) :
    (tm - dur ≤ 1000000 → clockStep tm inc dur = none) ∧
    (1000000 < tm - dur → clockStep tm inc dur = some (tm - dur + inc)) := by
  unfold clockStep millisecond
  constructor <;> intro h
  · rw [if_pos h]
  · rw [if_neg (by omega)]

/-- **A side that has not been flagged always has more than 1 ms on its clock when it is asked to move.**
For a game clock above 1 ms and a non-negative increment, whatever the durations of the successive
`TEIGetMove` calls (any integers): every `TimeControl` selfplay hands to `TEIGetMove` during the game has both
clocks above 1 ms and carries the configured increment for both sides. -/
theorem selfplay_clocks_above_1ms (inc : Int) (hinc : 0 ≤ inc) (durs : List Int) :
    ∀ (whiteToMove : Bool) (w b : Int), 1000000 < w → 1000000 < b →
      ∀ tc ∈ clockTrace inc whiteToMove w b durs,
        1000000 < tc.white ∧ 1000000 < tc.black ∧ tc.winc = inc ∧ tc.binc = inc := by
  induction durs with
  | nil => intro _ _ _ _ _ tc h; cases h
  | cons dur rest ih =>
    intro wtm w b hw hb tc htc
    cases wtm with
    | true =>
      simp only [clockTrace, if_true] at htc
      cases hs : clockStep w inc dur with
      | none =>
        rw [hs] at htc
        simp only [List.mem_singleton] at htc
        subst htc
        exact ⟨hw, hb, rfl, rfl⟩
      | some w' =>
        rw [hs] at htc
        rcases List.mem_cons.mp htc with e | e
        · subst e; exact ⟨hw, hb, rfl, rfl⟩
        · have hw' : 1000000 < w' := by
            unfold clockStep millisecond at hs
            split at hs
            · cases hs
            · injection hs with hs; omega
          exact ih false w' b hw' hb tc e
    | false =>
      simp only [clockTrace, Bool.false_eq_true, if_false] at htc
      cases hs : clockStep b inc dur with
      | none =>
        rw [hs] at htc
        simp only [List.mem_singleton] at htc
        subst htc
        exact ⟨hw, hb, rfl, rfl⟩
      | some b' =>
        rw [hs] at htc
        rcases List.mem_cons.mp htc with e | e
        · subst e; exact ⟨hw, hb, rfl, rfl⟩
        · have hb' : 1000000 < b' := by
            unfold clockStep millisecond at hs
            split at hs
            · cases hs
            · injection hs with hs; omega
          exact ih true w b' hw hb' tc e

/-- **… hence in selfplay `TEIGetMove` fails with "Timeout too short" exactly when the configured
increment (or per-move limit) cannot be expressed in milliseconds** — never because of a clock: with a game
clock above 1 ms, for every `TimeControl` of the game and every per-move time `rem`,
`TooShort` holds iff `rem < 1 ms` or `0 < inc < 1 ms`.  (With such an increment — e.g. `-increment 500us` —
the very first call fails, the clock test right after it passes, and `worker` ends the whole tournament with
`log.Fatalf("Get move: Timeout too short")`: an error return of the client, reported, not a crash of a
parser; outside C13/C17 as stated.) -/
theorem selfplay_tooShort_iff (inc : Int) (hinc : 0 ≤ inc) (durs : List Int) (whiteToMove : Bool) (w b : Int)
    (hw : 1000000 < w) (hb : 1000000 < b) (tc : TimeControl) (htc : tc ∈ clockTrace inc whiteToMove w b durs)
    (rem : Option Int) :
    TooShort rem tc ↔ (∃ r, rem = some r ∧ r < 1000000) ∨ (inc ≠ 0 ∧ inc < 1000000) := by
  obtain ⟨h1, h2, h3, h4⟩ := selfplay_clocks_above_1ms inc hinc durs whiteToMove w b hw hb tc htc
  unfold TooShort
  rw [h3, h4]
  constructor
  · rintro (h | h | h | h | h)
    · exact .inl h
    · omega
    · omega
    · exact .inr h
    · exact .inr h
  · rintro (h | h)
    · exact .inl h
    · exact .inr (.inr (.inr (.inl h)))

/-- a game: 5 ms each, 2 ms increment; White uses 1 ms, Black 3.5 ms, White 1 ms, Black 3 ms (flagged: 0.5 ms left) -/
example : (clockTrace 2000000 true 5000000 5000000 [1000000, 3500000, 1000000, 3000000, 7]).map (fun tc => (tc.white, tc.black))
    = [(5000000, 5000000), (6000000, 5000000), (6000000, 3500000), (7000000, 3500000)] := by decide

/-! ## the position the engine analyses -/

/-- **The engine ends up with the position the caller handed to `TEIGetMove`.**  For every well-formed
position `p` with the default piece counts of its size (`Notation.tpsHyp`, the hypothesis of
`C10.tps_roundtrip`; `AnalyzeTotal` is discharged by `Roads.analyze_ne_none`) and every engine state configured for
`p`'s size (whatever searcher it has cached, whatever position it held, at any point `k` of its command
stream): `FormatTPS p` succeeds, and the engine fed the client's line `position tps <FormatTPS p>` —
tokenised as `Run` does — carries on without output holding a position `p'` that is `Equal` to `p`, has the
same `Hash()`, the same four reserve counters, the same side to move and the same ply.
(TPS does not carry piece counts or `BlackWinsTies`: for other configurations the engine analyses a
different game; the correspondence reports those as `same=0`.) -/
theorem client_position_roundtrip (basis : Array W) (search : Nat → Pos → Option Int → SearchRes) (p : Pos)
    (h : tpsHyp basis p = true) (k : Nat) (st : Engine) (hsize : st.size = p.cfg.size) :
    ∃ tps p', TPS.formatTPS p = .ok tps ∧ TPS.parseTPS basis tps = .ok p' ∧
      step (realEnv basis search) k st (fields ("position tps " ++ str tps).toList)
        = .cont { out := [], st := { st with pos := some p' } } ∧
      p'.equal p = true ∧ p'.hashOf = p.hashOf ∧
      p'.whiteStones = p.whiteStones ∧ p'.whiteCaps = p.whiteCaps ∧
      p'.blackStones = p.blackStones ∧ p'.blackCaps = p.blackCaps ∧
      p'.toMove = p.toMove ∧ p'.move = p.move :=
  position_step basis search p h k st hsize

/-! ## one `TEIGetMove` against the engine -/

/-- what the client holds between calls in a running game of `size`: the engine process is alive, every line
it wrote has been read, the player belongs to the current game, the engine is configured for `size` and a
cached searcher (if any) was built for that size — the state after `NewGame(size)` and after every
completed `TEIGetMove` (`connAfter`). -/
structure Ready (c : Conn EngSt) (pl : Player) (size : Nat) : Prop where
  alive : c.alive = true
  unread : c.unread = []
  game : pl.gameid = c.gameid
  size : c.eng.st.size = size
  mm : ∀ s, c.eng.st.mm = some s → s = c.eng.st.size

/-- **`TEIGetMove` returns exactly the head of the searcher's principal variation** for the position the
engine was told, after writing exactly two lines.  For a ready connection, a well-formed default-count
position `p` of the game's size and durations that can be expressed in milliseconds: let `p'` be the position
the engine rebuilds from the client's TPS (`client_position_roundtrip`: `Equal` to `p`, same hash, reserves,
side, ply) and `r` the searcher's answer for `p'` under the limit `goBudget p' (goArgs rem tc)`.
* If `r.pv = m :: _` and `m` is a canonical move value, the call returns `ok m`; the client wrote
  `position tps <FormatTPS p>` and `go …` (`goWords`) and nothing else; afterwards the connection is ready
  again (nothing unread, engine alive, searcher cached for the size) and the deadline the engine installed
  is `goBudget p' (goArgs rem tc)`.
* If `r.pv = []` (what the searcher answers on a finished game, or when its limit cut it short before
  depth 1) the engine writes nothing and keeps waiting for commands: the call **never returns** (`.hang`).
  `selfplay` asks for a move only while `GameOver` is false; a finished opening position would block its
  worker for good. -/
theorem client_returns_pv_head (basis : Array W) (search : Nat → Pos → Option Int → SearchRes)
    (c : Conn EngSt) (pl : Player) (p : Pos) (rem : Option Int) (tc : Option TimeControl)
    (hp : tpsHyp basis p = true) (hrange : InRange rem (tc.getD {})) (hlong : ¬ TooShort rem (tc.getD {}))
    (hready : Ready c pl p.cfg.size) :
    ∃ tps p', TPS.formatTPS p = .ok tps ∧ TPS.parseTPS basis tps = .ok p' ∧
      (∀ m rest, (search (c.eng.k + 1) p' (goBudget p' (goArgs rem (tc.getD {})))).pv = m :: rest →
          LegalShape p'.cfg.size m →
          teiGetMove (serverPeer (realEnv basis search)) c pl p rem tc
            = (connAfter c p' (goBudget p' (goArgs rem (tc.getD {})))
                ["position tps " ++ str tps, goLine (goWords rem (tc.getD {}))], .ok m)) ∧
      ((search (c.eng.k + 1) p' (goBudget p' (goArgs rem (tc.getD {})))).pv = [] →
          teiGetMove (serverPeer (realEnv basis search)) c pl p rem tc
            = (connAfter c p' (goBudget p' (goArgs rem (tc.getD {})))
                ["position tps " ++ str tps, goLine (goWords rem (tc.getD {}))],
               .error (.hang "sendCommand: the engine writes nothing more and waits for input"))) := by
  obtain ⟨tps, p', h1, h2, _, h4, h5⟩ :=
    getMove_live basis search c pl p rem tc hp hrange hlong hready.alive hready.unread hready.game hready.size hready.mm
  exact ⟨tps, p', h1, h2, h4, h5⟩

/-- **A duration that cannot be expressed in milliseconds makes the call fail cleanly.**  On a running engine
of the position's size, if `TooShort rem tc` the call returns the error "Timeout too short" after having
written the `position` line only: no `go` is sent (so the engine is never asked to think without the limit
the caller wanted), the engine holds the new position and keeps waiting, nothing else about the connection
changes. -/
theorem client_tooShort_returns_error (basis : Array W) (search : Nat → Pos → Option Int → SearchRes)
    (c : Conn EngSt) (pl : Player) (p : Pos) (rem : Option Int) (tc : Option TimeControl)
    (hp : tpsHyp basis p = true) (hshort : TooShort rem (tc.getD {}))
    (halive : c.alive = true) (hgame : pl.gameid = c.gameid) (hsize : c.eng.st.size = p.cfg.size) :
    ∃ tps p', TPS.formatTPS p = .ok tps ∧ TPS.parseTPS basis tps = .ok p' ∧
      teiGetMove (serverPeer (realEnv basis search)) c pl p rem tc
        = ({ c with eng := { st := { c.eng.st with pos := some p' }, k := c.eng.k + 1, exit := none, deadline := none }
                    wrote := c.wrote ++ ["position tps " ++ str tps] },
           .error (.illegal "Timeout too short")) :=
  getMove_short basis search c pl p rem tc hp hshort halive hgame hsize

/-- **On a live position the client returns a move that is legal there.**  Composition of the above with
the searcher contract `SearcherCanonical` (C04 + C03: on a live position the PV is non-empty and starts with a
move `Position.Move` accepts that is a canonical move value): if the position the engine was told (`p'`, which
is `p` in the sense of `client_position_roundtrip`) is not over, `TEIGetMove` returns `ok m` with `m` accepted
by `Position.Move` in `p'`.  The move travels as its short PTN spelling and is read back by `ParseMove`
(`C11.ptn_short_rt`).  Legality is stated in `p'`: that `Equal` positions with equal reserves and ply accept the
same moves is C01/C08 (`move_ok_iff` over `Spec.abs`), not repeated here. -/
theorem client_server_bestmove_legal (basis : Array W) (search : Nat → Pos → Option Int → SearchRes)
    (hS : SearcherCanonical (realEnv basis search))
    (c : Conn EngSt) (pl : Player) (p : Pos) (rem : Option Int) (tc : Option TimeControl)
    (hp : tpsHyp basis p = true) (hrange : InRange rem (tc.getD {})) (hlong : ¬ TooShort rem (tc.getD {}))
    (hready : Ready c pl p.cfg.size) :
    ∃ tps p', TPS.formatTPS p = .ok tps ∧ TPS.parseTPS basis tps = .ok p' ∧
      (p'.equal p = true ∧ p'.hashOf = p.hashOf ∧ p'.toMove = p.toMove ∧ p'.move = p.move) ∧
      (p'.gameOver.1 = false →
        ∃ m c', teiGetMove (serverPeer (realEnv basis search)) c pl p rem tc = (c', .ok m) ∧
          (p'.apply basis m).isOk = true ∧ Ready c' pl p.cfg.size ∧
          c'.wrote = c.wrote ++ ["position tps " ++ str tps, goLine (goWords rem (tc.getD {}))]) := by
  obtain ⟨tps, p', h1, h2, h3, h4, _⟩ :=
    getMove_live basis search c pl p rem tc hp hrange hlong hready.alive hready.unread hready.game hready.size hready.mm
  refine ⟨tps, p', h1, h2, ⟨h3.1, h3.2.1, h3.2.2.2.2.2.2.1, h3.2.2.2.2.2.2.2⟩, ?_⟩
  intro hlive
  obtain ⟨m, rest, hpv, hlegal, hshape⟩ := hS (c.eng.k + 1) p' (goBudget p' (goArgs rem (tc.getD {}))) hlive
  refine ⟨m, _, h4 m rest hpv hshape, hlegal, ?_, rfl⟩
  exact ⟨rfl, rfl, hready.game, hready.size, fun s hs => by simpa [connAfter] using hs.symm⟩

/-- **End to end, the engine never gets more time than the caller gave.**  For durations the client accepts
(`¬ TooShort`) within `[0, 2^62]` ns and whatever position `p'` the engine holds, the deadline its `analyze`
installs for the client's `go` line (`goBudget p' (goArgs rem tc)`, the value `client_returns_pv_head` shows
in the connection afterwards) satisfies: with a per-move time `r` a deadline is installed and is at most
`r`; with a clock for the side to move it is installed and strictly below that clock; with neither, none is
installed.  (Client: truncation to milliseconds only shortens; engine: `C17.goBudget_within_clock`.) -/
theorem client_go_within_given_time (p' : Pos) (rem : Option Int) (tc : TimeControl)
    (hlong : ¬ TooShort rem tc) (hr : ∀ r, rem = some r → r ≤ 2^62)
    (hw : 0 ≤ tc.white ∧ tc.white ≤ 2^62) (hb : 0 ≤ tc.black ∧ tc.black ≤ 2^62)
    (hwi : 0 ≤ tc.winc ∧ tc.winc ≤ 2^62) (hbi : 0 ≤ tc.binc ∧ tc.binc ≤ 2^62) :
    let dl := goBudget p' (goArgs rem tc)
    let tm := if p'.toMove == .white then tc.white else tc.black
    (∀ r, rem = some r → ∃ d, dl = some d ∧ d ≤ r ∧ (tm ≠ 0 → d < tm)) ∧
    (tm ≠ 0 → ∃ d, dl = some d ∧ d < tm) ∧
    (rem = none → tm = 0 → dl = none) := by
  intro dl tm
  have hb0 : ∀ d : Int, 0 ≤ d → d ≤ 2^62 → 0 ≤ msTrunc d ∧ msTrunc d ≤ 2^62 ∧ msTrunc d ≤ d := by
    intro d h0 h1; unfold msTrunc; omega
  have hbig : ∀ d : Int, 1000000 ≤ d → 1000000 ≤ msTrunc d := by
    intro d h0; unfold msTrunc; omega
  have hshort : ¬ TooShort none tc := fun hx => hlong ((tooShort_split rem tc).2 (.inr hx))
  unfold TooShort at hshort
  simp only [reduceCtorEq, false_and, exists_false, false_or, not_or, not_and, Int.not_lt] at hshort
  obtain ⟨s1, s2, s3, s4⟩ := hshort
  have hrem : ∀ r, rem = some r → 1000000 ≤ r := by
    intro r hr'
    have : ¬ r < 1000000 := fun hlt => hlong (.inl ⟨r, hr', hlt⟩)
    omega
  have hmt : 0 ≤ (goArgs rem tc).movetime := by
    unfold goArgs
    cases rem with
    | none => simp
    | some r => simp only []; have := hbig r (hrem r rfl); omega
  have key := fun b h => C17.goBudget_within_clock p' (goArgs rem tc) b hmt
    ⟨(hb0 _ hw.1 hw.2).1, (hb0 _ hw.1 hw.2).2.1⟩ ⟨(hb0 _ hb.1 hb.2).1, (hb0 _ hb.1 hb.2).2.1⟩
    ⟨(hb0 _ hwi.1 hwi.2).1, (hb0 _ hwi.1 hwi.2).2.1⟩ ⟨(hb0 _ hbi.1 hbi.2).1, (hb0 _ hbi.1 hbi.2).2.1⟩ h
  -- the mover's clock as the engine sees it
  have htm : (if p'.toMove == .white then (goArgs rem tc).white else (goArgs rem tc).black) = msTrunc tm := by
    simp only [tm, goArgs]; split <;> rfl
  have htm0 : 0 ≤ tm ∧ tm ≤ 2^62 := by simp only [tm]; split <;> assumption
  have htmbig : tm ≠ 0 → 1000000 ≤ tm := by
    simp only [tm]; split
    · exact s1
    · exact s2
  have hsome : (0 < (goArgs rem tc).movetime ∨ tm ≠ 0) → ∃ d, dl = some d := by
    intro h
    simp only [dl, goBudget]
    cases hc : (p'.toMove == Color.white)
    · simp only [hc, Bool.false_eq_true, if_false] at htm ⊢
      have : (goArgs rem tc).movetime > 0 ∨ (goArgs rem tc).black > 0 := by
        rcases h with h | h
        · exact .inl h
        · right; rw [htm]; have := hbig tm (htmbig h); omega
      rw [if_pos this]; exact ⟨_, rfl⟩
    · simp only [hc, if_true] at htm ⊢
      have : (goArgs rem tc).movetime > 0 ∨ (goArgs rem tc).white > 0 := by
        rcases h with h | h
        · exact .inl h
        · right; rw [htm]; have := hbig tm (htmbig h); omega
      rw [if_pos this]; exact ⟨_, rfl⟩
  refine ⟨?_, ?_, ?_⟩
  · intro r hr'
    subst hr'
    have hmv : (goArgs (some r) tc).movetime = msTrunc r := rfl
    have hr1 := hrem r rfl
    have hr2 := hb0 r (by omega) (hr r rfl)
    have hr3 := hbig r hr1
    obtain ⟨d, hd⟩ := hsome (.inl (by rw [hmv]; omega))
    have k := key d hd
    simp only [] at k
    rw [htm] at k
    refine ⟨d, hd, ?_, ?_⟩
    · have := k.2 (by rw [hmv]; omega); rw [hmv] at this; omega
    · intro h0
      have h1 := hbig tm (htmbig h0)
      have := k.1 (by omega)
      have := (hb0 tm htm0.1 htm0.2).2.2
      omega
  · intro h0
    obtain ⟨d, hd⟩ := hsome (.inr h0)
    have k := key d hd
    simp only [] at k
    rw [htm] at k
    have h1 := hbig tm (htmbig h0)
    have := k.1 (by omega)
    have := (hb0 tm htm0.1 htm0.2).2.2
    exact ⟨d, hd, by omega⟩
  · intro hn h0
    subst hn
    simp only [dl, goBudget]
    cases hc : (p'.toMove == Color.white)
    · simp only [hc, Bool.false_eq_true, if_false] at htm ⊢
      have : ¬ ((goArgs none tc).movetime > 0 ∨ (goArgs none tc).black > 0) := by
        rw [htm, h0]; simp [goArgs, msTrunc]
      rw [if_neg this]
    · simp only [hc, if_true] at htm ⊢
      have : ¬ ((goArgs none tc).movetime > 0 ∨ (goArgs none tc).white > 0) := by
        rw [htm, h0]; simp [goArgs, msTrunc]
      rw [if_neg this]

example : goBudget (TPS.startPos 3 0) (goArgs (some 1500000000) { white := 60000700000, black := 1500000, winc := 2000000 })
    = some 1500000000 := by decide +kernel
example : goBudget (TPS.startPos 3 1) (goArgs none { white := 60000700000, black := 1500000, winc := 2000000 })
    = some 0 := by decide +kernel

/-! ## the client against this engine never fails an index -/

/-- **The engine never writes an empty line**: whatever the command and the engine state, every line `Run`
writes for it has a first word (`id`, `teiok`, `readyok`, `info`, `bestmove`).  `sendCommand` indexes
`words[0]` of each line it reads and would panic on a line without words — an engine that is not ours can make
it do so (correspondence op `teiscr`), this one cannot: -/
theorem server_never_writes_empty_line (env : Env) (k : Nat) (st : Engine) (words : List String) :
    ∀ l ∈ (recOf (step env k st words)).out, fields l.toList ≠ [] :=
  step_linesOK env k st words

/-- … so `sendCommand` against it never panics, for any command, any expected word and any state of the
connection whose unread lines came from this engine; and the lines it leaves unread are again such lines. -/
theorem client_send_never_panics (env : Env) (c : Conn EngSt) (cmd expect : String)
    (h : ∀ l ∈ c.unread, fields l.toList ≠ []) :
    (∀ s, (sendCommand (serverPeer env) c cmd expect).2 ≠ .error (.panic s)) ∧
    (∀ l ∈ (sendCommand (serverPeer env) c cmd expect).1.unread, fields l.toList ≠ []) :=
  sendCommand_no_panic env c cmd expect h

/-- the index does fail on a line without words: a scripted engine that answers `go` with an empty line -/
example : (readUntil "bestmove" ["", "bestmove a1"]).1 = some (.error (.panic "sendCommand: words[0] of an empty line")) := by
  rfl

/-- `NewGame(size)` on a fresh connection makes it ready -/
theorem newGame_ready (env : Env) (size : Nat) (h3 : 3 ≤ size) (h8 : size ≤ 8) :
    ∃ c pl, newGame (serverPeer env) { eng := {} } size = (c, .ok pl) ∧ Ready c pl size ∧
      c.wrote = ["teinewgame " ++ str (itoa size)] := by
  have hs : size = 3 ∨ size = 4 ∨ size = 5 ∨ size = 6 ∨ size = 7 ∨ size = 8 := by omega
  rcases hs with rfl | rfl | rfl | rfl | rfl | rfl <;>
    exact ⟨_, _, rfl, ⟨rfl, rfl, rfl, rfl, fun s hs => by cases hs⟩, rfl⟩

/-! ### a concrete session (the hypotheses are satisfiable) -/

def exBasis : Array W := Array.replicate 64 0#64
/-- a searcher that always answers b2 -/
def exSearch : Nat → Pos → Option Int → SearchRes :=
  fun _ _ _ => { depth := 1, elapsedMs := 0, nodes := 1, val := 0, pv := [⟨1, 1, Facts.mtPlaceFlat, 0#32⟩] }
def exPeer := serverPeer (realEnv exBasis exSearch)
def exConn : Conn EngSt := (newGame exPeer { eng := {} } 3).1
def exTC : TimeControl := { white := 60000700000, black := 1500000, winc := 2000000 }

example : tpsHyp exBasis (TPS.startPos 3 0) = true := by decide +kernel
example : InRange (some 1500000000) exTC ∧ ¬ TooShort (some 1500000000) exTC := by
  refine ⟨⟨?_, ?_, ?_, ?_, ?_⟩, ?_⟩ <;> first | decide | (intro r hr; cases hr; decide)
example : LegalShape 3 ⟨1, 1, Facts.mtPlaceFlat, 0#32⟩ := by decide
/-- the whole call on the model: lines written, move returned, deadline installed by the engine (White to
move, 60.0007 s on the clock, 2 ms increment: 60 s / 5 + 2 ms, cut down to the movetime of 1.5 s) -/
example :
    let r := teiGetMove exPeer exConn ⟨1⟩ (TPS.startPos 3 0) (some 1500000000) (some exTC)
    r.1.wrote = ["teinewgame 3", "position tps x3/x3/x3 1 1", "go movetime 1500 wtime 60000 btime 1 winc 2"] ∧
    toOpt r.2 = some ⟨1, 1, Facts.mtPlaceFlat, 0#32⟩ ∧ r.1.eng.deadline = some 1500000000 ∧
    r.1.unread = [] ∧ r.1.alive = true := by decide +kernel
/-- the same call with a 500 µs increment: only the position line is written, the call fails -/
example :
    let r := teiGetMove exPeer exConn ⟨1⟩ (TPS.startPos 3 0) none (some { exTC with binc := 500000 })
    r.1.wrote = ["teinewgame 3", "position tps x3/x3/x3 1 1"] ∧ toOpt r.2 = none ∧ r.1.alive = true := by decide +kernel

end C17
