import TakVerif.Proofs.TEIClient

/-! # C17, observed at `tei.Player.TEIGetMove` — the client side of TEI

Theorems about `Tak.TEIClient` (the model of `tei/client.go`, `tei/time.go` and the clock bookkeeping of
`cmd/internal/selfplay/simulate.go`, *with* the repair `fixes/C17-client-movetime.diff`) composed with
`Tak.TEI` (the model of `tei/server.go`).  Durations are nanoseconds (`time.Duration`), `Bytes` are Go strings,
`str` turns them into the `String`s the server model reads. -/
set_option linter.unusedVariables false
set_option linter.unusedSimpArgs false
namespace C17
open Tak Tak.TEI Tak.TEIClient Spec.TEIClient Proofs.TEIClient Go

/-! ## `formatTime` -/

/-- **`formatTime d` is the decimal spelling of `max(0, d / 10^6)`** (division truncating toward zero, as
Go's `/` on `int64`), i.e. of `⌊d / 1 ms⌋` for `d ≥ 0` and of `0` for a negative duration — and the engine's
`strconv.ParseUint` reads exactly that number back from it (for every `int64` duration). -/
theorem formatTime_spec (d : Int) (h : d < 9223372036854775808) :
    formatTime d = itoaNat (max 0 (Int.tdiv d 1000000)).toNat ∧
    parseUint64 (str (formatTime d)) = some (max 0 (Int.tdiv d 1000000)).toNat ∧
    (0 ≤ d → ((max 0 (Int.tdiv d 1000000)).toNat : Int) = d / 1000000) ∧
    (d < 0 → (max 0 (Int.tdiv d 1000000)).toNat = 0) := by
  refine ⟨formatTime_eq d, ?_, msOf_nonneg d, msOf_neg d⟩
  rw [formatTime_eq]
  apply parseUint64_itoaNat
  by_cases h0 : 0 ≤ d
  · have := msOf_nonneg d h0
    omega
  · have := msOf_neg d (by omega)
    omega

example : str (formatTime 1999999) = "1" := by decide
example : str (formatTime 999999) = "0" := by decide
example : str (formatTime (-5000000)) = "0" := by decide
example : str (formatTime 4611686018427387904) = "4611686018427" := by decide +kernel

/-! ## the `go` line -/

/-- **The `go` line is well formed and carries exactly the clocks given.**  For a per-move time `rem`
(`deadline.Sub(time.Now())` when the context has a deadline) and a time control `tc` (`none` behaves as the
all-zero one), all within `int64`:
* if some duration cannot be expressed in whole milliseconds (`TooShort`: a per-move time below 1 ms, or a
  non-zero clock/increment below 1 ms — negative ones included) `TEIGetMove`'s `go` line is **not** written:
  the error "Timeout too short" is returned;
* otherwise the words written are exactly `go [movetime ms] [wtime ms] [btime ms] [winc ms] [binc ms]`
  (`goWords`): a key appears iff its duration is non-zero, `ms = ⌊duration / 1 ms⌋` in decimal;
* the engine's tokeniser (`TrimSpace`, `Fields`) splits the written line into exactly these words, and
* the engine's option loop accepts them and ends up with **every duration truncated to whole milliseconds**
  (`goArgs`: `movetime = 10^6·⌊rem/10^6⌋` or 0 if none, `wtime = 10^6·⌊White/10^6⌋`, …) — nothing else. -/
theorem client_go_wellformed (rem : Option Int) (tc : Option TimeControl)
    (hr : InRange rem (tc.getD {})) :
    (TooShort rem (tc.getD {}) → goCmd rem tc = .error (.illegal "Timeout too short")) ∧
    (¬ TooShort rem (tc.getD {}) →
      goCmd rem tc = .ok (goWords rem (tc.getD {})) ∧
      fields (goLine (goWords rem (tc.getD {}))).toList = (goWords rem (tc.getD {})).map str ∧
      parseGoArgs (((goWords rem (tc.getD {})).map str).drop 1) {} = some (goArgs rem (tc.getD {}))) := by
  have hsome : goCmd rem tc = goCmd rem (some (tc.getD {})) := by
    cases tc with
    | none => exact goCmd_none rem
    | some t => rfl
  rw [hsome]
  exact ⟨goCmd_short rem _, fun h => ⟨goCmd_ok rem _ h, fields_goLine rem _, parseGoArgs_goWords rem _ h hr⟩⟩

/-- a non-trivial instance: 1.5 s per move, White 90.0007 s, Black exactly 1 ms, increment 2.5 ms for White only -/
example : goLine (goWords (some 1500000000) { white := 90000700000, black := 1000000, winc := 2500000 })
    = "go movetime 1500 wtime 90000 btime 1 winc 2" := by decide +kernel
example : ¬ TooShort (some 1500000000) { white := 90000700000, black := 1000000, winc := 2500000 } := by decide
example : goArgs (some 1500000000) { white := 90000700000, black := 1000000, winc := 2500000 }
    = { movetime := 1500000000, white := 90000000000, black := 1000000, winc := 2000000, binc := 0 } := by decide
example : TooShort none { white := 60000000000, black := 60000000000, winc := 500000, binc := 500000 } := by decide
example : TooShort (some (-3)) {} := by decide

/-- **The pinned client turns a per-move time below 1 ms into "no limit".**  With 999 999 ns left (or a
deadline that has passed) it writes `go movetime 0`, and the engine's option loop reads that as
`movetime = 0`, which `analyze` treats as "no per-move time given".  Replayed on the real code by
`corpus/C17/client-movetime-zero.ops`. -/
theorem client_movetime_pinned_counterexample :
    goCmdPinned (some 999999) none = .ok [lit "go", lit "movetime", lit "0"] ∧
    parseGoArgs ["movetime", "0"] {} = some {} ∧
    goCmd (some 999999) none = .error (.illegal "Timeout too short") := ⟨by rfl, by decide +kernel, by rfl⟩

/-! ## selfplay: the clock after every move -/

/-- one step of the bookkeeping, spelled out: the mover is flagged iff at most 1 ms is left after the move;
otherwise the increment is added -/
theorem clockStep_spec (tm inc dur : Int) :
    (tm - dur ≤ 1000000 → clockStep tm inc dur = none) ∧
    (1000000 < tm - dur → clockStep tm inc dur = some (tm - dur + inc)) := by
  unfold clockStep millisecond
  constructor <;> intro h
  · rw [if_pos h]
  · rw [if_neg (by omega)]

/-- **A side that has not been flagged always has more than 1 ms on its clock when it is asked to move.**
For a game clock above 1 ms and a non-negative increment, whatever the durations of the successive
`TEIGetMove` calls (any integers): every `TimeControl` selfplay hands to `TEIGetMove` during the game has both
clocks above 1 ms and carries the configured increment for both sides. -/
theorem selfplay_clocks_above_1ms (inc : Int) (hinc : 0 ≤ inc) (durs : List Int) :
    ∀ (whiteToMove : Bool) (w b : Int), 1000000 < w → 1000000 < b →
      ∀ tc ∈ clockTrace inc whiteToMove w b durs,
        1000000 < tc.white ∧ 1000000 < tc.black ∧ tc.winc = inc ∧ tc.binc = inc := by
  induction durs with
  | nil => intro _ _ _ _ _ tc h; cases h
  | cons dur rest ih =>
    intro wtm w b hw hb tc htc
    cases wtm with
    | true =>
      simp only [clockTrace, if_true] at htc
      cases hs : clockStep w inc dur with
      | none =>
        rw [hs] at htc
        simp only [List.mem_singleton] at htc
        subst htc
        exact ⟨hw, hb, rfl, rfl⟩
      | some w' =>
        rw [hs] at htc
        rcases List.mem_cons.mp htc with e | e
        · subst e; exact ⟨hw, hb, rfl, rfl⟩
        · have hw' : 1000000 < w' := by
            unfold clockStep millisecond at hs
            split at hs
            · cases hs
            · injection hs with hs; omega
          exact ih false w' b hw' hb tc e
    | false =>
      simp only [clockTrace, Bool.false_eq_true, if_false] at htc
      cases hs : clockStep b inc dur with
      | none =>
        rw [hs] at htc
        simp only [List.mem_singleton] at htc
        subst htc
        exact ⟨hw, hb, rfl, rfl⟩
      | some b' =>
        rw [hs] at htc
        rcases List.mem_cons.mp htc with e | e
        · subst e; exact ⟨hw, hb, rfl, rfl⟩
        · have hb' : 1000000 < b' := by
            unfold clockStep millisecond at hs
            split at hs
            · cases hs
            · injection hs with hs; omega
          exact ih true w b' hw hb' tc e

/-- **… hence in selfplay `TEIGetMove` fails with "Timeout too short" exactly when the configured
increment (or per-move limit) cannot be expressed in milliseconds** — never because of a clock: with a game
clock above 1 ms, for every `TimeControl` of the game and every per-move time `rem`,
`TooShort` holds iff `rem < 1 ms` or `0 < inc < 1 ms`.  (With such an increment — e.g. `-increment 500us` —
the very first call fails, the clock test right after it passes, and `worker` ends the whole tournament with
`log.Fatalf("Get move: Timeout too short")`: an error return of the client, reported, not a crash of a
parser; outside C13/C17 as stated.) -/
theorem selfplay_tooShort_iff (inc : Int) (hinc : 0 ≤ inc) (durs : List Int) (whiteToMove : Bool) (w b : Int)
    (hw : 1000000 < w) (hb : 1000000 < b) (tc : TimeControl) (htc : tc ∈ clockTrace inc whiteToMove w b durs)
    (rem : Option Int) :
    TooShort rem tc ↔ (∃ r, rem = some r ∧ r < 1000000) ∨ (inc ≠ 0 ∧ inc < 1000000) := by
  obtain ⟨h1, h2, h3, h4⟩ := selfplay_clocks_above_1ms inc hinc durs whiteToMove w b hw hb tc htc
  unfold TooShort
  rw [h3, h4]
  constructor
  · rintro (h | h | h | h | h)
    · exact .inl h
    · omega
    · omega
    · exact .inr h
    · exact .inr h
  · rintro (h | h)
    · exact .inl h
    · exact .inr (.inr (.inr (.inl h)))

/-- a game: 5 ms each, 2 ms increment; White uses 1 ms, Black 3.5 ms, White 1 ms, Black 3 ms (flagged: 0.5 ms left) -/
example : (clockTrace 2000000 true 5000000 5000000 [1000000, 3500000, 1000000, 3000000, 7]).map (fun tc => (tc.white, tc.black))
    = [(5000000, 5000000), (6000000, 5000000), (6000000, 3500000), (7000000, 3500000)] := by decide

end C17
