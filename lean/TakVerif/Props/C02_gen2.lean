import TakVerif.Props.C02_gen
import TakVerif.Generated.FuncsRoad

/-! Tie #1 for C02, second round: `Position.hasRoad` (the two loops over `analysis.WhiteGroups` / `BlackGroups` with their
`break`s) and `bitboard.FloodGroups` (the loop over the set bits with its `append`s) are regenerated from the source
(`Generated/FuncsRoad.lean`).  With `C02_gen.gameOver_is_source` this makes the whole of `GameOver` a regenerated
function of the position's fields (`gameOver_is_source_full`): nothing of the game-end decision is a hand-written
mirror any more; and `analyze()`'s group lists are the regenerated `FloodGroups` (`analyze_is_source`). -/
namespace C02
open Tak

/-- the first loop of `hasRoad`: `white` stays set once set, else it is set by the first road group -/
theorem hasRoad_loop0_eq (c : Consts) (l : List W) (b : Bool) :
    Gen.positionHasRoad_loop0 c.B c.L c.R c.T l b = if l.any (isRoadGroup c) then true else b := by
  induction l generalizing b with
  | nil => simp [Gen.positionHasRoad_loop0]
  | cons g tl ih =>
    unfold Gen.positionHasRoad_loop0
    -- by cases on the four edge tests: independent of the order in which the source combines them
    cases h1 : (g &&& c.T != 0#64) <;> cases h2 : (g &&& c.B != 0#64) <;> cases h3 : (g &&& c.L != 0#64) <;>
      cases h4 : (g &&& c.R != 0#64) <;> simp [isRoadGroup, h1, h2, h3, h4, ih]

theorem hasRoad_loop1_eq (c : Consts) (l : List W) (b : Bool) :
    Gen.positionHasRoad_loop1 c.B c.L c.R c.T l b = if l.any (isRoadGroup c) then true else b := by
  induction l generalizing b with
  | nil => simp [Gen.positionHasRoad_loop1]
  | cons g tl ih =>
    unfold Gen.positionHasRoad_loop1
    -- by cases on the four edge tests: independent of the order in which the source combines them
    cases h1 : (g &&& c.T != 0#64) <;> cases h2 : (g &&& c.B != 0#64) <;> cases h3 : (g &&& c.L != 0#64) <;>
      cases h4 : (g &&& c.R != 0#64) <;> simp [isRoadGroup, h1, h2, h3, h4, ih]

/-- `Position.hasRoad`: the model's `hasRoad` is the regenerated function of the group lists, the four edge masks and the ply -/
theorem hasRoad_is_source (p : Pos) :
    (colorByte p.hasRoad.1, p.hasRoad.2) =
      Gen.positionHasRoad p.bgroups.toArray p.wgroups.toArray p.c.B p.c.L p.c.R p.c.T p.move := by
  unfold Gen.positionHasRoad Pos.hasRoad
  simp only [hasRoad_loop0_eq, hasRoad_loop1_eq]
  rw [← toMove_is_source]
  cases hw : p.wgroups.any (isRoadGroup p.c) <;> cases hb : p.bgroups.any (isRoadGroup p.c) <;>
    cases hm : p.toMove <;> simp [colorByte, Color.code, Facts.colorWhite, Facts.colorBlack]

/-- `Position.GameOver` with nothing left as a parameter: the model's game-end decision is the regenerated `GameOver`
applied to the regenerated `hasRoad`, both reading only fields of the position -/
theorem gameOver_is_source_full (p : Pos) :
    (p.gameOver.1, colorByte p.gameOver.2) =
      Gen.positionGameOver p.black p.caps p.standing p.white p.blackCaps p.blackStones p.cfg.blackWinsTies p.c.Mask
        (Gen.positionHasRoad p.bgroups.toArray p.wgroups.toArray p.c.B p.c.L p.c.R p.c.T p.move) p.whiteCaps p.whiteStones := by
  rw [← hasRoad_is_source]; exact gameOver_is_source p

/-- the loop of `FloodGroups` (state: remaining bits, output slice, seen mask): the model's fuelled loop with fuel `n`
is the regenerated one with fuel `n + 1` (the regenerated helper spends one unit on the final `bits != 0` test) -/
theorem floodGroups_loop_eq (c : Consts) (all : W) (n : Nat) (bits seen : W) (out : List W) :
    (floodGroupsFuel c all n bits seen out).map List.toArray =
      (Gen.floodGroups_loop0 c (n + 1) (bits, out.toArray, seen)).map (fun s => s.2.1) := by
  have z : ∀ s, Gen.floodGroups_loop0 c 0 s = none := fun s => rfl
  induction n generalizing bits seen out with
  | zero =>
    unfold floodGroupsFuel Gen.floodGroups_loop0
    by_cases h : bits = 0#64
    · subst h; simp
    · have hb : (bits != 0#64) = true := by simpa using h
      have hb' : (bits == 0#64) = false := by simpa using h
      simp only [hb, hb', ↓reduceIte, z, Bool.false_eq_true]
      split
      · split <;> simp
      · simp
  | succ n ih =>
    unfold floodGroupsFuel Gen.floodGroups_loop0
    by_cases h : bits = 0#64
    · subst h; simp
    · have hb : (bits != 0#64) = true := by simpa using h
      have hb' : (bits == 0#64) = false := by simpa using h
      simp only [hb, hb', ↓reduceIte, Bool.false_eq_true]
      by_cases hs : (seen &&& (bits &&& ~~~(bits &&& (bits - 1#64))) == 0#64) = true
      · simp only [hs, ↓reduceIte]
        rw [← flood_is_source]
        cases hf : flood c bits (bits &&& ~~~(bits &&& (bits - 1#64))) with
        | none => simp
        | some g =>
          simp only []
          by_cases hg : (g != bits &&& ~~~(bits &&& (bits - 1#64))) = true
          · simp only [hg, ↓reduceIte]; rw [ih]; simp
          · simp only [hg, ↓reduceIte, Bool.false_eq_true]; rw [ih]
      · simp only [hs, ↓reduceIte, Bool.false_eq_true]; rw [ih]

/-- `bitboard.FloodGroups(c, bits, nil)`: the model's group enumeration is the regenerated function (whitelist fuel 66 =
the model's 65 + 1; `Proofs.Flood.floodGroups_isSome` shows the model's fuel suffices) -/
theorem floodGroups_is_source (c : Consts) (bits : W) :
    (floodGroups c bits).map List.toArray = Gen.floodGroups c bits #[] := by
  unfold floodGroups Gen.floodGroups
  have h := floodGroups_loop_eq c bits 65 bits 0#64 []
  rw [h]
  show _ = (match Gen.floodGroups_loop0 c 66 (bits, #[], 0#64) with
    | none => none
    | some (_, out, _) => some out)
  cases Gen.floodGroups_loop0 c 66 (bits, #[], 0#64) with
  | none => rfl
  | some s => obtain ⟨a, b, d⟩ := s; rfl

/-- `analyze()`: the group lists the model stores are the regenerated `FloodGroups` of the road pieces of each colour -/
theorem analyze_is_source (p q : Pos) (h : p.analyze = some q) :
    Gen.floodGroups p.c (p.white &&& ~~~p.standing) #[] = some q.wgroups.toArray ∧
    Gen.floodGroups p.c (p.black &&& ~~~p.standing) #[] = some q.bgroups.toArray := by
  unfold Pos.analyze at h
  rw [← floodGroups_is_source, ← floodGroups_is_source]
  cases hw : floodGroups p.c (p.white &&& ~~~p.standing) with
  | none => simp [hw] at h
  | some wg =>
    cases hb : floodGroups p.c (p.black &&& ~~~p.standing) with
    | none => simp [hw, hb] at h
    | some bg =>
      simp only [hw, hb, Option.some.injEq] at h
      subst h; simp

/-- the model's `WinDetails` as the regenerated struct (`RoadWin = 0`, `FlatsWin = 1`) -/
def genDetails (d : WinDetails) : Gen.WinDetails :=
  { Over := d.over, Reason := if d.reason == .road then 0 else 1, Winner := colorByte d.winner,
    WhiteFlats := d.whiteFlats, BlackFlats := d.blackFlats }

/-- `Position.WinDetails()` (over?, winner, road or flats, the two flat counts): the model's `winDetails` is the regenerated
function applied to the position's fields and the regenerated `hasRoad` - the whole of "game end, winner, reason" is read
out of `tak/game.go` -/
theorem winDetails_is_source (p : Pos) :
    genDetails p.winDetails =
      Gen.positionWinDetails p.black p.caps p.standing p.white p.blackCaps p.blackStones p.cfg.blackWinsTies p.c.Mask
        (Gen.positionHasRoad p.bgroups.toArray p.wgroups.toArray p.c.B p.c.L p.c.R p.c.T p.move) p.whiteCaps p.whiteStones := by
  unfold Gen.positionWinDetails Pos.winDetails genDetails
  rw [← hasRoad_is_source, ← gameOver_is_source, ← countFlats_is_source]
  cases p.hasRoad.2 <;> simp

example : Gen.positionHasRoad #[] #[0x3#64] 0x7#64 0x124#64 0x49#64 0x1c0#64 0 = (128#8, false) ∧
    Gen.positionHasRoad #[] #[0x49#64] 0x7#64 0x124#64 0x49#64 0x1c0#64 0 = (128#8, true) := by decide

example : Gen.floodGroups (Gen.precompute 3) 0x1b#64 #[] = some #[0x1b#64] := by decide

end C02
