import TakVerif.Props.C08
import TakVerif.Props.C01_gen3

/-! Tie #1 for C08, third round: the incremental hash theorem stated for the **regenerated** `MovePreallocated`
(`Generated/FuncsApply.lean`, bridged in `Props/C01_gen3.lean`): the three `next.hash ^= next.hashAt(i)` brackets of the
source - not a hand-written mirror of them - keep the hash field equal to the from-scratch fold. -/
namespace C08
open Tak GenMove GenApply

/-- an accepted result of the regenerated function is the encoding of the model's successor -/
theorem gen_ok_is_apply (basis : Array W) (p : Pos) (hB : p.cfg.size * p.cfg.size ≤ basis.size) (m : Move) (nextNil : Bool)
    (hsz : p.cfg.size ≤ 8) (hH : p.cfg.size * p.cfg.size ≤ p.height.size) (hS : p.cfg.size * p.cfg.size ≤ p.stacks.size)
    (hm : m.type < 256) (t : NextT) (h : genApply basis p (genMove m) nextNil = some (.ok t)) :
    ∃ q, p.apply basis m = .ok q ∧ t = encNext q := by
  have hsrc : genApply basis p (genMove m) nextNil = encR (p.apply basis m) :=
    C01.movePreallocated_is_source basis p hB m nextNil hsz hH hS hm
  rw [hsrc] at h
  cases ha : p.apply basis m with
  | error e => rw [ha] at h; cases e <;> simp [encR] at h
  | ok q =>
    rw [ha] at h
    simp only [encR, Option.some.injEq, Except.ok.injEq] at h
    exact ⟨q, rfl, h.symm⟩

/-- **incremental hash = from-scratch hash, for the regenerated `MovePreallocated`**: from a position satisfying `HInv`
(hash field = from-scratch fold, size ≤ 8, empty squares have height 0) whose slices cover the board, whatever move
value the regenerated function accepts, the `hash` it returns is the from-scratch fold over the `Height` / `Stacks` it
returns (`C08.hash_inv` transported through `C01.movePreallocated_is_source`) -/
theorem gen_hash_inv (basis : Array W) (p : Pos) (hB : p.cfg.size * p.cfg.size ≤ basis.size) (m : Move) (nextNil : Bool)
    (hp : HInv basis p) (hH : p.cfg.size * p.cfg.size ≤ p.height.size) (hS : p.cfg.size * p.cfg.size ≤ p.stacks.size)
    (hm : m.type < 256) (t : NextT) (h : genApply basis p (genMove m) nextNil = some (.ok t)) :
    (decNext p t).hash = scratchHash basis (decNext p t) := by
  obtain ⟨q, hq, rfl⟩ := gen_ok_is_apply basis p hB m nextNil hp.size hH hS hm t h
  have := (hash_inv basis p q m hp hq).1
  show q.hash = scratchHash basis (decNext p (encNext q))
  rw [this]
  rfl

example : ∃ t, genApply Ex.basis Ex.mid (genMove ⟨1, 0, 7, 1⟩) false = some (.ok t) ∧
    (decNext Ex.mid t).hash = scratchHash Ex.basis (decNext Ex.mid t) := by
  have h : genApply Ex.basis Ex.mid (genMove ⟨1, 0, 7, 1⟩) false = encR (Ex.mid.apply Ex.basis ⟨1, 0, 7, 1⟩) :=
    C01.movePreallocated_is_source Ex.basis Ex.mid (by decide +kernel) ⟨1, 0, 7, 1⟩ false (by decide +kernel) (by decide +kernel)
      (by decide +kernel) (by decide)
  obtain ⟨q, hq⟩ := Ex.mid_slide_ok
  have hg : genApply Ex.basis Ex.mid (genMove ⟨1, 0, 7, 1⟩) false = some (.ok (encNext q)) := by rw [h, hq]; rfl
  exact ⟨_, hg, gen_hash_inv Ex.basis Ex.mid (by decide +kernel) ⟨1, 0, 7, 1⟩ false
    ((new_hinv Ex.basis Ex.start5_ok).applyAll _ Ex.mid_ok) (by decide +kernel) (by decide +kernel) (by decide) _ hg⟩

end C08
