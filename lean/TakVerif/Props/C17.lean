import TakVerif.Impl.TEI

/-! # C17 — TEI engine: the told position, one legal bestmove per `go`, within the clock

Theorems about `Tak.TEI` (the model of `tei/server.go` *with* the repairs `fixes/C17-budget.diff`,
`fixes/C13-tei-*.diff`).  Part 1: the budget rule. -/
set_option linter.unusedVariables false
namespace C17
open Tak Tak.TEI

/-! ## the thinking-time budget -/

/-- **Budget rule** (mathematical integers, nanoseconds).  For non-negative clock values the time
allotted is strictly below the remaining clock whenever a clock is given, and never above a given
per-move time.  No upper bound on the values is needed here; `budget_rule64` transfers the statement
to the machine arithmetic on the domain where `int64` does not wrap. -/
theorem budget_rule (mt gt inc : Int) (h1 : 0 ≤ mt) (h2 : 0 ≤ gt) (h3 : 0 ≤ inc) :
    (gt ≠ 0 → calcBudget mt gt inc < gt) ∧ (mt > 0 → calcBudget mt gt inc ≤ mt) := by
  unfold calcBudget millisecond
  constructor
  · intro hg
    simp only [hg, ne_eq, not_false_eq_true, if_true, false_or]
    split <;> split <;> omega
  · intro hm
    by_cases hg : gt = 0
    · simp [hg, hm]
    · simp only [hg, ne_eq, not_false_eq_true, if_true, false_or]
      split <;> split <;> omega

example : calcBudget 5000000000 1000000 0 = 0 := by decide
example : calcBudget 1000000000 3000000000 3000000000 = 1000000000 := by decide

theorem wrap64_id (v : Int) (h1 : -two63 ≤ v) (h2 : v < two63) : wrap64 v = v := by
  unfold wrap64 two63 two64 at *
  omega

/-- On the stated domain (all three values in `[0, 2^62]`) no intermediate result of `calcBudget`
leaves the `int64` range … -/
theorem budget_intermediates_in_range (gt inc : Int) (h2 : 0 ≤ gt) (h3 : 0 ≤ inc)
    (b2 : gt ≤ 2^62) (b3 : inc ≤ 2^62) :
    (-two63 ≤ gt / 5 + inc ∧ gt / 5 + inc < two63) ∧ (-two63 ≤ gt - millisecond ∧ gt - millisecond < two63) := by
  unfold two63 millisecond
  refine ⟨⟨?_, ?_⟩, ?_, ?_⟩ <;> omega

/-- … hence the machine computation (`int64`, truncating division) equals the mathematical one. -/
theorem budget_no_overflow (mt gt inc : Int) (h2 : 0 ≤ gt) (h3 : 0 ≤ inc)
    (b2 : gt ≤ 2^62) (b3 : inc ≤ 2^62) : calcBudget64 mt gt inc = calcBudget mt gt inc := by
  obtain ⟨⟨r1, r2⟩, r3, r4⟩ := budget_intermediates_in_range gt inc h2 h3 b2 b3
  unfold calcBudget64 calcBudget
  rw [Int.tdiv_eq_ediv_of_nonneg h2, wrap64_id _ r1 r2, wrap64_id _ r3 r4]

/-- **Budget rule for the code's arithmetic**: `0 ≤ mt`, `0 ≤ gt, inc ≤ 2^62` ns (146 years). -/
theorem budget_rule64 (mt gt inc : Int) (h1 : 0 ≤ mt) (h2 : 0 ≤ gt) (h3 : 0 ≤ inc)
    (b2 : gt ≤ 2^62) (b3 : inc ≤ 2^62) :
    (gt ≠ 0 → calcBudget64 mt gt inc < gt) ∧ (mt > 0 → calcBudget64 mt gt inc ≤ mt) := by
  rw [budget_no_overflow mt gt inc h2 h3 b2 b3]
  exact budget_rule mt gt inc h1 h2 h3

example : calcBudget64 (2^62) (2^62) (2^62) = 2^62 - 1000000 := by decide

/-- The rule as written in the pinned tree (`budget == 0` read as "no clock") is false:
5 s of movetime against a 1 ms clock yields 5 s.  Replayed on the real code by
`corpus/C17/budget-exceeds-clock.ops`. -/
theorem budget_pinned_counterexample :
    ¬ (calcBudgetPinned 5000000000 1000000 0 < 1000000) := by decide

end C17
