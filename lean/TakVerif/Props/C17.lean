import TakVerif.Proofs.TEI

/-! # C17 — TEI engine: the told position, one legal bestmove per `go`, within the clock

Theorems about `Tak.TEI` (the model of `tei/server.go` *with* the repairs `fixes/C17-budget.diff`,
`fixes/C13-tei-*.diff`).  Part 1: the budget rule. -/
set_option linter.unusedVariables false
set_option linter.unusedSimpArgs false
namespace C17
open Tak Tak.TEI Spec.TEI Proofs.TEI

/-! ## the thinking-time budget -/

/-- **Budget rule** (mathematical integers, nanoseconds).  For non-negative clock values the time
allotted is strictly below the remaining clock whenever a clock is given, and never above a given
per-move time.  No upper bound on the values is needed here; `budget_rule64` transfers the statement
to the machine arithmetic on the domain where `int64` does not wrap. -/
theorem budget_rule (mt gt inc : Int) (h1 : 0 ≤ mt) (h2 : 0 ≤ gt) (h3 : 0 ≤ inc) :
    (gt ≠ 0 → calcBudget mt gt inc < gt) ∧ (mt > 0 → calcBudget mt gt inc ≤ mt) := by
  unfold calcBudget millisecond
  constructor
  · intro hg
    simp only [hg, ne_eq, not_false_eq_true, if_true, false_or]
    split <;> split <;> omega
  · intro hm
    by_cases hg : gt = 0
    · simp [hg, hm]
    · simp only [hg, ne_eq, not_false_eq_true, if_true, false_or]
      split <;> split <;> omega

example : calcBudget 5000000000 1000000 0 = 0 := by decide +kernel
example : calcBudget 1000000000 3000000000 3000000000 = 1000000000 := by decide +kernel

/-- On the stated domain (all three values in `[0, 2^62]`) no intermediate result of `calcBudget`
leaves the `int64` range … -/
theorem budget_intermediates_in_range (gt inc : Int) (h2 : 0 ≤ gt) (h3 : 0 ≤ inc)
    (b2 : gt ≤ 2^62) (b3 : inc ≤ 2^62) :
    (-two63 ≤ gt / 5 + inc ∧ gt / 5 + inc < two63) ∧ (-two63 ≤ gt - millisecond ∧ gt - millisecond < two63) := by
  unfold two63 millisecond
  refine ⟨⟨?_, ?_⟩, ?_, ?_⟩ <;> omega

/-- … hence the machine computation (`int64`, truncating division) equals the mathematical one. -/
theorem budget_no_overflow (mt gt inc : Int) (h2 : 0 ≤ gt) (h3 : 0 ≤ inc)
    (b2 : gt ≤ 2^62) (b3 : inc ≤ 2^62) : calcBudget64 mt gt inc = calcBudget mt gt inc := by
  obtain ⟨⟨r1, r2⟩, r3, r4⟩ := budget_intermediates_in_range gt inc h2 h3 b2 b3
  unfold calcBudget64 calcBudget
  rw [Int.tdiv_eq_ediv_of_nonneg h2, wrap64_id _ r1 r2, wrap64_id _ r3 r4]

/-- **Budget rule for the code's arithmetic**: `0 ≤ mt`, `0 ≤ gt, inc ≤ 2^62` ns (146 years). -/
theorem budget_rule64 (mt gt inc : Int) (h1 : 0 ≤ mt) (h2 : 0 ≤ gt) (h3 : 0 ≤ inc)
    (b2 : gt ≤ 2^62) (b3 : inc ≤ 2^62) :
    (gt ≠ 0 → calcBudget64 mt gt inc < gt) ∧ (mt > 0 → calcBudget64 mt gt inc ≤ mt) := by
  rw [budget_no_overflow mt gt inc h2 h3 b2 b3]
  exact budget_rule mt gt inc h1 h2 h3

example : calcBudget64 (2^62) (2^62) (2^62) = 2^62 - 1000000 := by decide +kernel

/-- The rule as written in the pinned tree (`budget == 0` read as "no clock") is false:
5 s of movetime against a 1 ms clock yields 5 s.  Replayed on the real code by
`corpus/C17/budget-exceeds-clock.ops`. -/
theorem budget_pinned_counterexample :
    ¬ (calcBudgetPinned 5000000000 1000000 0 < 1000000) := by decide

/-- The limit `goBudget` computes from the clock arguments (the mover's clock and increment by side to
move, and movetime): with clock values whose millisecond counts fit
(`≤ 4.6·10^12` ms, i.e. the durations stay within `[0, 2^62]` ns) the limit is strictly below the mover's
remaining clock whenever one is given and never above a given movetime. -/
theorem goBudget_within_clock (p : Pos) (a : GoArgs) (b : Int)
    (hm : 0 ≤ a.movetime) (hw : 0 ≤ a.white ∧ a.white ≤ 2^62) (hb : 0 ≤ a.black ∧ a.black ≤ 2^62)
    (hwi : 0 ≤ a.winc ∧ a.winc ≤ 2^62) (hbi : 0 ≤ a.binc ∧ a.binc ≤ 2^62)
    (h : goBudget p a = some b) :
    let tm := if p.toMove == .white then a.white else a.black
    (tm ≠ 0 → b < tm) ∧ (a.movetime > 0 → b ≤ a.movetime) := by
  unfold goBudget at h
  cases hc : (p.toMove == Color.white)
  · simp [hc] at h ⊢
    obtain ⟨_, h⟩ := h
    subst h
    exact budget_rule64 a.movetime a.black a.binc hm hb.1 hbi.1 hb.2 hbi.2
  · simp [hc] at h ⊢
    obtain ⟨_, h⟩ := h
    subst h
    exact budget_rule64 a.movetime a.white a.winc hm hw.1 hwi.1 hw.2 hwi.2

/-! ## the told position -/

/-- **The engine's position and size after every carried-out command are exactly what the history
tells** (`Spec.TEI.toldAlong`): the size is the argument of the most recent `teinewgame`; the position is
the start declared by the most recent `position` since then (standard start for that size, or the TPS,
which must have that size) with all listed moves applied through the rules — and there is none right
after a `teinewgame`.  `continued` = all commands when the stream ran to its end, all but the last
(the `quit`, or the command whose error ended `Run`) otherwise.  By induction over the commands, for
every environment (parsers, searcher) and every command list. -/
theorem tei_position (env : Env) (cmds : List (List String)) (recs : List Rec) (x : Exit)
    (h : run env cmds = (recs, x)) :
    (recs.map (fun r => (r.st.size, r.st.pos))).take (continued recs x)
      = (toldAlong env [] cmds).take (continued recs x) :=
  runFrom_told env cmds 0 [] {} recs x ⟨rfl, rfl⟩ h

/-- the same for the state reached after a prefix that was carried out completely -/
theorem tei_position_after (env : Env) (pre : List (List String)) (st : Engine)
    (h : stateAfter env 0 {} pre = some st) :
    st.size = sizeTold pre.reverse ∧ st.pos = posTold env pre.reverse := by
  have := stateAfter_agrees env pre 0 [] {} st ⟨rfl, rfl⟩ h
  simpa [Agrees] using this

/-- **One legal `bestmove` per `go`, preceded by its info line.**  After any carried-out history `pre`
that tells a live position `p`, a `go` with well-formed clock arguments makes `Run` write exactly two
lines: the info line of the search *of `p`* (under the limit `goBudget p a`) and then `bestmove m`, where
`m` is the head of that search's principal variation and is legal in `p`.  Assumes the searcher's
contract (C04: non-empty PV with a legal head on live positions) and the collaborators' totality. -/
theorem tei_one_bestmove (env : Env) (hC : Collaborators env) (hS : SearcherOK env)
    (pre post : List (List String)) (args : List String) (st : Engine) (p : Pos) (a : GoArgs)
    (hpre : stateAfter env 0 {} pre = some st)
    (htold : posTold env pre.reverse = some p)
    (hlive : p.gameOver.1 = false)
    (hargs : parseGoArgs args {} = some a) :
    ∃ m rest, (env.search pre.length p (goBudget p a)).pv = m :: rest ∧
      (p.apply env.basis m).isOk = true ∧
      ((run env (pre ++ ("go" :: args) :: post)).1[pre.length]?).map (·.out)
        = some [infoLine env (env.search pre.length p (goBudget p a)), "bestmove " ++ env.fmtMove m] := by
  obtain ⟨m, rest, hpv, hlegal⟩ := hS pre.length p (goBudget p a) hlive
  refine ⟨m, rest, hpv, hlegal, ?_⟩
  have hA := tei_position_after env pre st hpre
  have hp : st.pos = some p := by rw [hA.2, htold]
  have hI := stateAfter_inv env hC pre 0 {} st (inv_init env) hpre
  have hrec := runFrom_record_at env pre ("go" :: args) post 0 {} st hpre
  have han := analyze_live env pre.length st args p a m rest hI hp hargs hpv
  have hst := step_go env pre.length st args _ han
  simp only [Nat.zero_add] at hrec
  unfold run
  rw [hrec, hst]
  simp [recOf]

/-- **The deadline `analyze` installs is within the clock.**  After any carried-out history that tells a
position `p`, for a `go` with well-formed clock arguments (durations within `[0, 2^62]` ns), look at the
deadline recorded for that command (`Rec.deadline`: the duration `analyze` hands to
`context.WithTimeout`; compared with the real engine through the harness' recorder on every run):
* if the mover (White's clock when White is to move, Black's otherwise) has a clock, a deadline **is**
  installed and it is strictly less than that clock — at 1 ms it is 0, which expires at once;
* if a movetime is given, a deadline is installed and it is at most the movetime;
* both bounds hold together when both are given; with neither, no deadline is installed.
Holds for every searcher answer (also an empty PV) and every environment with total collaborators. -/
theorem tei_go_within_clock (env : Env) (hC : Collaborators env)
    (pre post : List (List String)) (args : List String) (st : Engine) (p : Pos) (a : GoArgs)
    (hpre : stateAfter env 0 {} pre = some st)
    (htold : posTold env pre.reverse = some p)
    (hargs : parseGoArgs args {} = some a)
    (hm : 0 ≤ a.movetime) (hw : 0 ≤ a.white ∧ a.white ≤ 2^62) (hb : 0 ≤ a.black ∧ a.black ≤ 2^62)
    (hwi : 0 ≤ a.winc ∧ a.winc ≤ 2^62) (hbi : 0 ≤ a.binc ∧ a.binc ≤ 2^62) :
    let tm := if p.toMove == .white then a.white else a.black
    let dl := ((run env (pre ++ ("go" :: args) :: post)).1[pre.length]?).bind (·.deadline)
    (tm > 0 → ∃ d, dl = some d ∧ d < tm ∧ (a.movetime > 0 → d ≤ a.movetime)) ∧
    (a.movetime > 0 → ∃ d, dl = some d ∧ d ≤ a.movetime ∧ (tm ≠ 0 → d < tm)) ∧
    (a.movetime = 0 → tm = 0 → dl = none) := by
  have hA := tei_position_after env pre st hpre
  have hp : st.pos = some p := by rw [hA.2, htold]
  have hI := stateAfter_inv env hC pre 0 {} st (inv_init env) hpre
  obtain ⟨r, han, hdl⟩ := analyze_installs env pre.length st args p a hI hp hargs
  have hst := step_go env pre.length st args r han
  have hrec := runFrom_record_at env pre ("go" :: args) post 0 {} st hpre
  simp only [Nat.zero_add] at hrec
  have hdl' : ((run env (pre ++ ("go" :: args) :: post)).1[pre.length]?).bind (·.deadline) = goBudget p a := by
    unfold run
    rw [hrec, hst]
    simp [recOf, hdl]
  simp only [hdl']
  have key := goBudget_within_clock p a
  refine ⟨?_, ?_, ?_⟩
  · intro htm
    have hsome : goBudget p a = some (calcBudget64 a.movetime (if p.toMove == .white then a.white else a.black)
        (if p.toMove == .white then a.winc else a.binc)) := by
      unfold goBudget
      cases hc : (p.toMove == Color.white) <;> simp [hc] at htm ⊢ <;> (intro _; exact htm)
    have := key _ hm hw hb hwi hbi hsome
    exact ⟨_, hsome, this.1 (by omega), this.2⟩
  · intro hmt
    have hsome : goBudget p a = some (calcBudget64 a.movetime (if p.toMove == .white then a.white else a.black)
        (if p.toMove == .white then a.winc else a.binc)) := by
      unfold goBudget
      cases hc : (p.toMove == Color.white) <;> simp [hc] <;> (intro h; omega)
    have := key _ hm hw hb hwi hbi hsome
    exact ⟨_, hsome, this.2 hmt, this.1⟩
  · intro h0 ht0
    unfold goBudget
    cases hc : (p.toMove == Color.white) <;> simp [hc] at ht0 ⊢ <;> omega

/-- **`teinewgame` discards earlier state**: whatever the engine remembered (cached searcher, position,
size), the rest of the session after a `teinewgame` line is the same as on any other engine state. -/
theorem tei_newgame_resets (env : Env) (k : Nat) (st st' : Engine) (args : List String)
    (rest : List (List String)) :
    runFrom env k st (("teinewgame" :: args) :: rest) = runFrom env k st' (("teinewgame" :: args) :: rest) := by
  simp only [runFrom, step_newgame_indep env k st st' args]

/-- … and the state after an accepted `teinewgame n` is: no searcher, no position, size `n`. -/
theorem tei_newgame_state (env : Env) (k : Nat) (st : Engine) (n : String) (r : Rec)
    (h : step env k st ["teinewgame", n] = .cont r) :
    r.st = { mm := none, pos := none, size := (atoi n).1 } := by
  simp only [step, List.drop] at h
  simp at h
  split at h
  · cases h
  · injection h with h; subst h; rfl

/-! ### the hypotheses are satisfiable: a concrete session -/

/-- a small environment: two move tokens, no TPS, a searcher that answers with the first legal move -/
def exEnv : Env :=
  { basis := Array.replicate 64 0#64
    parseMove := fun s => if s = "a1" then .ok ⟨0, 0, Facts.mtPlaceFlat, 0⟩
                          else if s = "b2" then .ok ⟨1, 1, Facts.mtPlaceFlat, 0⟩ else .error (.illegal "x")
    parseTPS := fun _ => .error (.illegal "x")
    fmtMove := fun m => s!"{m.x},{m.y}"
    search := fun _ p _ =>
      { depth := 1, elapsedMs := 0, nodes := 1, val := 0, pv := (p.allMoves.filter (fun m => (p.apply (Array.replicate 64 0#64) m).isOk)).take 1 } }

def exCmds : List (List String) :=
  [["teinewgame", "3"], ["position", "startpos", "moves", "a1"], ["go", "movetime", "1000"],
   ["teinewgame", "4"], ["isready"]]

example : (run exEnv exCmds).2 = .eof := by decide +kernel
example : (run exEnv exCmds).1.map (·.out) =
    [[], [], ["info depth 1 time 0 nodes 1 score cp 0 pv 0,1", "bestmove 0,1"], [], ["readyok"]] := by decide +kernel
example : ((run exEnv exCmds).1.map (fun r => (r.st.size, r.st.pos.isSome))) =
    [(3, false), (3, true), (3, true), (4, false), (4, false)] := by decide +kernel
example : (stateAfter exEnv 0 {} (exCmds.take 2)).isSome = true := by decide +kernel
example : ((posTold exEnv (exCmds.take 2).reverse).map (fun p => p.gameOver.1)) = some false := by decide +kernel
/-- with exactly 1 ms on the mover's clock the installed deadline is 0 (not "none"), for either mover -/
example : (run exEnv [["teinewgame", "3"], ["position", "startpos"], ["go", "wtime", "1"],
      ["go", "movetime", "300", "wtime", "1"], ["go", "btime", "1"], ["go"],
      ["position", "startpos", "moves", "a1"], ["go", "wtime", "60000", "btime", "1"]]).1.map (·.deadline)
    = [none, none, some 0, some 0, none, none, none, some 0] := by decide +kernel
example : parseGoArgs ["movetime", "1000"] {} = some ({ movetime := 1000000000 } : GoArgs) := by decide +kernel

end C17
