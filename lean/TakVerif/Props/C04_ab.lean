import TakVerif.Proofs.SearchToy

/-! # C04 (alpha-beta part) — what the move generator yields is legal; the PV head of `Analyze` is legal

`Search.iterate` is the model of `for m, child := mg.Next(); child != nil; …` (`ai/moves.go`), with the loop
body as a parameter.  The hints (`mg.te` copy, PV hint, response map entry — read from the engine state at the
time the generator reaches that stage — and `stack[ply-1].m`) are arbitrary here. -/
namespace C04
open Search Tak

variable {P M σ ρ : Type} [DecidableEq M]

/-- **`next_legal`**: the loop hands to its body only pairs `(m, child)` with `MovePreallocated(m) = child, nil`:
replacing the body by one that agrees with it on such pairs (and does anything else elsewhere) does not change
the loop — whatever the table entry, the PV hint, the response map and the move order contain. -/
theorem next_legal (g : Game P M) (cfg : SOpts) (o : Oracle M) (p : P) (mg : MG M)
    (body body' : M → P → σ → Eng M → Except Err (Ctl σ ρ × Eng M))
    (h : ∀ m c, g.apply p m = .ok c → body' m c = body m c) (a : σ) (s : Eng M) :
    iterate g cfg o p mg body' a s = iterate g cfg o p mg body a s := by
  have ht : ∀ m a s, tryMove g p body' m a s = tryMove g p body m a s := by
    intro m a s
    unfold tryMove
    cases hap : g.apply p m with
    | ok c => simp only [h m c hap]
    | error e => cases e <;> rfl
  have hr : ∀ skip ms a s, runList g p body' skip ms a s = runList g p body skip ms a s := by
    intro skip ms
    induction ms with
    | nil => intro a s; rfl
    | cons m ms ih =>
      intro a s
      simp only [runList, ht]
      have : runList g p body' skip ms = runList g p body skip ms := by funext a s; exact ih a s
      rw [this]
  have h0 : stage0 g p mg body' = stage0 g p mg body := by
    funext a s; unfold stage0; cases mg.te <;> simp only [ht]
  have h1 : stage1 g p mg body' = stage1 g p mg body := by
    funext a s; unfold stage1; cases mg.pv <;> simp only [ht]
  have h3 : ∀ r?, stage3 g cfg o p mg body' r? = stage3 g cfg o p mg body r? := by
    intro r?; funext a s; unfold stage3; simp only [hr]
  have h23 : stage23 g cfg o p mg body' = stage23 g cfg o p mg body := by
    funext a s; unfold stage23
    cases respLookup mg.ply s with
    | error e => rfl
    | ok r? => cases r? <;> simp only [ht, h3]
  unfold iterate
  rw [h0, h1, h23]

/-- a loop body that records the `(move, child)` pairs the generator yields, in order -/
def record : M → P → List (M × P) → Eng M → Except Err (Ctl (List (M × P)) Unit × Eng M) :=
  fun m c acc s => .ok (.next (acc ++ [(m, c)]), s)

omit [DecidableEq M] in
theorem record_ok (g : Game P M) (p : P) :
    BodyOK g p (record (M := M) (P := P))
      (fun acc _ => ∀ x ∈ acc, g.apply p x.1 = .ok x.2) (fun acc c => ∃ m', (m', c) ∈ acc)
      (fun _ _ => False) (fun _ _ => False) := by
  intro m c acc s hap hinv
  refine Sat.ok ⟨?_, ?_, ?_⟩
  · intro x hx
    rcases List.mem_append.mp hx with h | h
    · exact hinv x h
    · simp only [List.mem_cons, List.not_mem_nil, or_false] at h; subst h; exact hap
  · rintro c' ⟨m', hm'⟩; exact ⟨m', List.mem_append_left _ hm'⟩
  · rintro c' rfl; exact ⟨m, by simp⟩

/-- **every yielded pair is legal** — no hypothesis on the game, the hints, the engine state or the order:
if the recording loop returns the list `l`, each `(m, child) ∈ l` satisfies `apply p m = ok child`. -/
theorem yields_legal (g : Game P M) (cfg : SOpts) (o : Oracle M) (p : P) (mg : MG M) (s : Eng M) :
    Sat (iterate g cfg o p mg record [] s) (fun r =>
      match r.1 with
      | .next l => ∀ x ∈ l, g.apply p x.1 = .ok x.2
      | .brk _ => False
      | .ret _ => False) := by
  refine (iterate_inv (record_ok g p) cfg o mg (fun _ _ _ h => h) [] s (fun _ h => by cases h)).mono ?_
  rintro ⟨c, s'⟩ h
  cases c with
  | next l => exact h.1
  | brk l => exact h
  | ret r => exact h

/-- **and nothing legal is lost**: under `GenOK` (`Move.Equal` moves act alike, the zero move `Equal`s no generated
move) and an order oracle that keeps the generated set, every legal generated move's child is yielded. -/
theorem yields_complete (g : Game P M) (cfg : SOpts) (o : Oracle M) (p : P) (mg : MG M) (s : Eng M)
    (hg : GenOK g p) (hord : OrderOK o) :
    Sat (iterate g cfg o p mg record [] s) (fun r =>
      match r.1 with
      | .next l => ∀ m ∈ g.allMoves p, ∀ c, g.apply p m = .ok c → ∃ m', (m', c) ∈ l
      | .brk _ => False
      | .ret _ => False) := by
  refine (iterate_rule (record_ok g p) cfg o mg hg hord (fun _ _ _ h => h) [] s (fun _ h => by cases h)).mono ?_
  rintro ⟨c, s'⟩ h
  cases c with
  | next l => exact fun m hm c hap => h.2.2 c ⟨m, hm, hap⟩
  | brk l => exact h
  | ret r => exact h

/-- **`analyze_pv_head_legal`** (no table, precise options — the setting of `C05.analyze_exact`; other
configurations: see the module note in MANIFEST): the first move of the PV `Analyze` returns for a live
position is accepted by `MovePreallocated`. -/
theorem analyze_pv_head_legal {g : Game P M} (hg : GameOK g) (hb : EvalBounded g) {cfg : Search.Cfg}
    (hpr : Precise cfg.opts) {o : Oracle M} (hnc : NoCancel o) (hord : OrderOK o)
    (p : P) (hov : g.over p = false) (hdepth : 1 ≤ cfg.depth)
    (hlive : ∀ d : Nat, 1 ≤ d → (d : Int) ≤ cfg.depth → Live g d p)
    (s : Eng M) (hs : s.hasTable = false) :
    Sat (analyze g cfg o p s) (fun x => ∃ m rest c, x.1.1 = m :: rest ∧ g.apply p m = .ok c) := by
  refine (analyze_exact_nt hg hb hpr hnc hord p hov hdepth hlive s hs).mono ?_
  rintro x ⟨_, _, _, _, _, m, rest, c, h1, h2, _⟩
  exact ⟨m, rest, c, h1, h2⟩

/-- non-vacuity: on the heap game the recording loop yields the two legal moves of a heap of 3, in
generation order, although the hints are garbage (an illegal table move 7 and an illegal PV hint 0) -/
example : (match iterate Toy.game Toy.cfg.opts Oracle.quiet 3
      ⟨0, 3, some ⟨0#64, 0, 7, 0, 0⟩, [0]⟩ (record (M := Nat) (P := Nat)) [] (Eng.new Toy.game Toy.cfg) with
    | .ok (.next l, _) => some l
    | _ => none) = some [(1, 2), (2, 1)] := by decide

end C04
