import TakVerif.Impl.Minimax
namespace C04
open Search
/-- placeholder until the real theorems land -/
theorem respGet_nil {M : Type} [DecidableEq M] (k : M) : respGet ([] : List (M × M)) k = none := rfl
end C04
