import TakVerif.Props.C07_compose2
import TakVerif.Impl.BotLevel

/-! # C07 composed: the `level` chat command (`HandleTell` → `handleCommand` → `f.ai` replaced in mid-game)

Model `Impl/BotLevel.lean` (a wrapper around `Tak.Compose`: events of the composed system plus `tell who msg`).

* `bot_inv_level` — for EVERY event list, chat lines included (any sender, any text, at any moment — also while a
  thinker is inside the engine being replaced): C07's invariant, the lock (`inside ⇔ running`), every transmitted move
  `SentBy` a recorded `GetMove` call for exactly the position it was sent in, every recorded call what the real `GetMove`
  computes, the searcher's invariant `G` of the engine — provided the engines the `level` command builds satisfy `G`.
* `level_keeps_engine` — a thinker keeps the engine it started with and the next call uses the new one: every search that
  returned ran on the very engine object `f.ai` was when its call was made (`runs`), although `f.ai` may have been replaced
  meanwhile; whenever nobody is inside `GetMove`, `f.ai` is the engine the composed state holds (nothing pending).
* `level_now_while_searching` — the concrete shape: `level n` from the opponent while thinker `k` searches leaves the
  engine of that search alone, and after its return the engine is exactly `mk n`, untouched by the old search. -/
namespace C07
open Tak Tak.Bot Tak.Glue Tak.FPA Tak.Compose

variable {σ χ : Type}

/-! ## the invariants of the composed system, one state at a time -/

structure BaseInv (c : Compose.Conf) (S : Searcher σ χ) (G : σ → Prop) (p0 : Pos) (s : Compose.St σ χ) : Prop where
  sinv : SInv c.bot s.b
  pinv : PInv (fun p => p.cfg.size = c.size) p0 s.b
  cinv : CInv c S G s
  hold : holders s.b ≤ 1
  size : SizeInv c.size s.b
  linv : LInv s

theorem baseInv_step {c : Compose.Conf} (hfix : c.bot.fixed = true) (hsize : 3 ≤ c.size ∧ c.size ≤ 8)
    {S : Searcher σ χ} {G : σ → Prop}
    (hS : ∀ x p e m e', p.cfg.size = c.size → G e → S.run x p e = .ok (m, e') → G e') {p0 : Pos}
    {s : Compose.St σ χ} (h : BaseInv c S G p0 s) (e : Compose.Ev χ) : BaseInv c S G p0 (Compose.step c S s e) := by
  have hA : ∀ (p : Pos) (m : Move) (q : Pos), p.cfg.size = c.size → p.apply c.bot.basis m = .ok q → q.cfg.size = c.size :=
    fun p m q hp ha => by rw [apply_cfg ha]; exact hp
  have hz : ∀ (p q : Pos), p.cfg.size = c.size → p.apply c.bot.basis Bot.zeroMove ≠ .ok q :=
    fun p q hp => zero_rejected c.bot.basis c.size hsize p q hp
  obtain ⟨evs, he⟩ := step_b c S s e
  refine ⟨?_, pinv_composed_step hA S h.pinv e, cinv_step hS hz h.pinv h.cinv e, ?_, ?_, linv_step h.linv e⟩
  · rw [he]; exact sinv_run hfix h.sinv evs
  · rw [he]; exact holders_run c.bot _ evs h.hold
  · rw [he]; exact sizeInv_run c.bot h.size evs

/-- replacing the engine object by one that satisfies `G` keeps everything -/
theorem baseInv_install {c : Compose.Conf} {S : Searcher σ χ} {G : σ → Prop} {p0 : Pos} {s : Compose.St σ χ}
    (h : BaseInv c S G p0 s) (e : σ) (hG : G e) : BaseInv c S G p0 { s with eng := e } :=
  ⟨h.sinv, h.pinv, ⟨h.cinv.calls, h.cinv.inside, h.cinv.rets, h.cinv.log, h.cinv.glue, hG, h.cinv.retsG⟩, h.hold, h.size,
   h.linv⟩

theorem baseInv_start (c : Compose.Conf) (hsize : 3 ≤ c.size ∧ c.size ≤ 8) (S : Searcher σ χ) (G : σ → Prop) (secs : Int)
    (eng0 : σ) (h0 : G eng0) : ∃ p0, BaseInv c S G p0 (Compose.start c secs eng0 : Compose.St σ χ) := by
  obtain ⟨p0, _, hP⟩ := pinv_startBot c secs hsize
  refine ⟨p0, sinv_startBot c secs, hP, cinv_start c S G secs eng0 h0, ?_, ?_, linv_start c secs eng0⟩
  · show holders (startBot c secs) ≤ 1
    unfold startBot
    split
    · exact Nat.le_trans (Nat.le_of_eq (holders_congr (s := default) rfl rfl)) (by decide)
    · rw [holders_spawn]; simp [nRunning]
  · refine ⟨hP.p, hP.recd, ?_⟩
    intro r hr
    have hl : (startBot c secs).log = [] := by
      unfold startBot
      split <;> rfl
    have hr' : r ∈ (startBot c secs).log := hr
    rw [hl] at hr'
    cases hr'

/-- where the transmitted moves come from, from the invariants (the last step of `bot_inv_composed`) -/
theorem sentBy_of_baseInv {c : Compose.Conf} (hsize : 3 ≤ c.size ∧ c.size ≤ 8) {S : Searcher σ χ} {G : σ → Prop}
    {p0 : Pos} {s : Compose.St σ χ} (h : BaseInv c S G p0 s) : ∀ rec ∈ s.b.log, SentBy c S G s rec := by
  intro rec hrec
  have hC := h.cinv
  obtain ⟨r, hr, hmv, htag⟩ := hC.log rec hrec
  obtain ⟨hcall, hret⟩ := hC.rets r hr
  have hgood := h.sinv.core.inv.sends rec hrec
  have hpos : r.call.pos = rec.recAt := by rw [htag]; exact hgood.fresh
  refine ⟨r, hr, hmv, hpos, hcall, hC.calls _ hcall, hC.retsG r hr, ?_⟩
  have hzero : r.move ≠ Bot.zeroMove := by
    intro h0
    obtain ⟨q, hq⟩ := hgood.legal
    rw [← hmv, h0] at hq
    exact zero_rejected c.bot.basis c.size hsize rec.recAt q (h.size.2.2 rec hrec) hq
  unfold RetOK at hret
  split at hret
  · rename_i lim fl hact
    obtain ⟨x, eng', hx, hrun⟩ := hret
    exact .inr ⟨lim, fl, x, eng', hact, hx, by rw [← hpos, ← hmv]; exact hrun⟩
  · rename_i m hact
    exact .inl (by rw [hact, ← hmv, hret.1])
  · exact absurd hret.1 hzero
  · exact absurd hret.1 hzero

/-! ## what one step of the composed system does to the call in progress -/

/-- nothing / a call is made / the call in progress returns -/
def StepShape (s s' : Compose.St σ χ) : Prop :=
  (s'.inside = s.inside ∧ s'.rets.length = s.rets.length ∧ s'.calls.length = s.calls.length) ∨
  (s.inside = none ∧ s'.inside.isSome = true ∧ s'.rets.length = s.rets.length ∧ s'.calls.length = s.calls.length + 1) ∨
  (s.inside.isSome = true ∧ s'.inside = none ∧ s'.rets.length = s.rets.length + 1 ∧ s'.calls.length = s.calls.length ∧
    s'.dead = s.dead)

theorem stepShape_enter (c : Compose.Conf) (s : Compose.St σ χ) (k : Nat) (chk : CheckOracle) :
    StepShape s (Compose.enter c s k chk) := by
  unfold Compose.enter
  split
  · exact .inl ⟨rfl, rfl, rfl⟩
  · split
    · exact .inl ⟨rfl, rfl, rfl⟩
    · rename_i hen
      obtain ⟨_, _, hnone⟩ := enter_pre hen
      split
      · exact .inl ⟨rfl, rfl, rfl⟩
      · split
        · exact .inl ⟨rfl, rfl, rfl⟩
        · split
          · exact .inl ⟨rfl, rfl, rfl⟩
          · exact .inr (.inl ⟨hnone, rfl, rfl, by simp⟩)

theorem stepShape_ret (c : Compose.Conf) (s : Compose.St σ χ) (call : Call) (hin : s.inside = some call) (x : Option χ)
    (m : Move) (eng' : σ) : StepShape s (Compose.ret c s call x m eng') :=
  .inr (.inr ⟨by rw [hin]; rfl, rfl, by simp [Compose.ret], rfl, rfl⟩)

theorem stepShape_leave (c : Compose.Conf) (S : Searcher σ χ) (s : Compose.St σ χ) (k : Nat) (x : χ) :
    StepShape s (Compose.leave c S s k x) := by
  unfold Compose.leave
  split
  · exact .inl ⟨rfl, rfl, rfl⟩
  · rename_i call hin
    split
    · exact .inl ⟨rfl, rfl, rfl⟩
    · split
      · exact .inl ⟨rfl, rfl, rfl⟩
      · split
        · exact .inl ⟨rfl, rfl, rfl⟩
        · split
          · split
            · exact stepShape_ret c s call hin _ _ _
            · exact .inl ⟨rfl, rfl, rfl⟩
          · exact stepShape_ret c s call hin _ _ _
          · exact stepShape_ret c s call hin _ _ _
          · split
            · exact .inl ⟨rfl, rfl, rfl⟩
            · exact stepShape_ret c s call hin _ _ _

theorem stepShape_step (c : Compose.Conf) (S : Searcher σ χ) (s : Compose.St σ χ) (e : Compose.Ev χ) :
    StepShape s (Compose.step c S s e) := by
  unfold Compose.step
  split
  · exact .inl ⟨rfl, rfl, rfl⟩
  · cases e with
    | deliver bits parsed => exact .inl ⟨rfl, rfl, rfl⟩
    | close => exact .inl ⟨rfl, rfl, rfl⟩
    | timerFires => exact .inl ⟨rfl, rfl, rfl⟩
    | enter k chk => exact stepShape_enter c s k chk
    | leave k x => exact stepShape_leave c S s k x

/-! ## the invariant of the system with the `level` command -/

/-- the bookkeeping of `Impl/BotLevel.lean` is right: see `level_keeps_engine` -/
structure GInv (G : σ → Prop) (L : StL σ χ) : Prop where
  idle : L.s.inside = none → L.pending = none
  cur : L.pending = none → L.engGen = L.built
  ins : L.s.inside.isSome = true → L.insideGen = L.engGen
  runs : ∀ r ∈ L.runs, r.2.1 = r.2.2
  pendG : ∀ e, L.pending = some e → G e

theorem ginv_afterBase {G : σ → Prop} {L : StL σ χ} (h : GInv G L) (s' : Compose.St σ χ) (hsh : StepShape L.s s') :
    GInv G (afterBase L s') := by
  unfold afterBase
  rcases hsh with ⟨h1, h2, h3⟩ | ⟨h1, h2, h3, h4⟩ | ⟨h1, h2, h3, h4, _⟩
  · -- nothing happened to the call in progress
    have hr : decide (s'.rets.length > L.s.rets.length) = false := by simp; omega
    have he : decide (s'.calls.length > L.s.calls.length) = false := by simp; omega
    simp only [hr, he, Bool.false_eq_true, if_false]
    exact ⟨by rw [h1]; exact h.idle, h.cur, by rw [h1]; exact h.ins, h.runs, h.pendG⟩
  · -- a call was made: it reads `f.ai`, which is `s.eng` (nothing pending with nobody inside)
    have hr : decide (s'.rets.length > L.s.rets.length) = false := by simp; omega
    have he : decide (s'.calls.length > L.s.calls.length) = true := by simp; omega
    simp only [hr, he, Bool.false_eq_true, if_false, if_true]
    have hp := h.idle h1
    refine ⟨(fun hn => by rw [hn] at h2; cases h2), h.cur, fun _ => (h.cur hp).symm, h.runs, h.pendG⟩
  · -- the call in progress returned
    have hr : decide (s'.rets.length > L.s.rets.length) = true := by simp; omega
    have he : decide (s'.calls.length > L.s.calls.length) = false := by simp; omega
    simp only [hr, he, Bool.false_eq_true, if_false, if_true]
    have hruns : ∀ r ∈ L.runs ++ [((L.s.inside.map (·.k)).getD 0, L.insideGen, L.engGen)], r.2.1 = r.2.2 := by
      intro r hr
      simp only [List.mem_append, List.mem_singleton] at hr
      rcases hr with hr | rfl
      · exact h.runs r hr
      · exact h.ins h1
    cases hp : L.pending with
    | none =>
      dsimp only
      refine ⟨fun _ => rfl, fun _ => h.cur hp, fun hn => ?_, hruns, (fun e' he' => by cases he')⟩
      have : s'.inside.isSome = true := hn
      rw [h2] at this; cases this
    | some e =>
      dsimp only
      refine ⟨fun _ => rfl, fun _ => rfl, fun hn => ?_, hruns, (fun e' he' => by cases he')⟩
      have : s'.inside.isSome = true := hn
      rw [h2] at this; cases this

theorem ginv_handleTell {G : σ → Prop} (c : Compose.Conf) (mk : Int → σ) (hmk : ∀ l, G (mk l)) {L : StL σ χ}
    (h : GInv G L) (who msg : String) : GInv G (handleTell c mk L who msg) := by
  unfold handleTell
  split
  · exact h
  · dsimp only
    split
    · -- `level n` from the opponent: `f.ai` is rebuilt
      split
      · rename_i hin
        refine ⟨fun hn => ?_, (fun hn => by cases hn), h.ins, h.runs, ?_⟩
        · have : L.s.inside.isSome = true := hin
          rw [hn] at this; cases this
        · intro e he
          injection he with he
          rw [← he]; exact hmk _
      · rename_i hin
        have hnone : L.s.inside = none := by
          cases hi : L.s.inside with
          | none => rfl
          | some x => simp [hi] at hin
        refine ⟨fun _ => h.idle hnone, fun _ => rfl, fun hn => ?_, h.runs, h.pendG⟩
        have : L.s.inside.isSome = true := hn
        rw [hnone] at this; cases this
    · exact ⟨h.idle, h.cur, h.ins, h.runs, h.pendG⟩
    · exact ⟨h.idle, h.cur, h.ins, h.runs, h.pendG⟩
    · exact ⟨h.idle, h.cur, h.ins, h.runs, h.pendG⟩
    · exact ⟨h.idle, h.cur, h.ins, h.runs, h.pendG⟩

/-- what `handleTell` does to the composed state: nothing, or a new engine with nobody inside -/
theorem handleTell_s (c : Compose.Conf) (mk : Int → σ) (L : StL σ χ) (who msg : String) :
    (handleTell c mk L who msg).s = L.s ∨ ∃ l, (handleTell c mk L who msg).s = { L.s with eng := mk l } := by
  unfold handleTell
  split
  · exact .inl rfl
  · dsimp only
    split
    · split
      · exact .inl rfl
      · exact .inr ⟨_, rfl⟩
    · exact .inl rfl
    · exact .inl rfl
    · exact .inl rfl
    · exact .inl rfl

theorem baseInv_afterBase {c : Compose.Conf} {S : Searcher σ χ} {G : σ → Prop} {p0 : Pos} {L : StL σ χ}
    (hg : GInv G L) (s' : Compose.St σ χ) (h : BaseInv c S G p0 s') : BaseInv c S G p0 (afterBase L s').s := by
  unfold afterBase
  dsimp only
  split
  · rename_i e _ hp
    exact baseInv_install h e (hg.pendG e hp)
  · exact h

/-- both invariants, along every event list -/
theorem inv_stepL {c : Compose.Conf} (hfix : c.bot.fixed = true) (hsize : 3 ≤ c.size ∧ c.size ≤ 8)
    {S : Searcher σ χ} {G : σ → Prop}
    (hS : ∀ x p e m e', p.cfg.size = c.size → G e → S.run x p e = .ok (m, e') → G e')
    (mk : Int → σ) (hmk : ∀ l, G (mk l)) {p0 : Pos} {L : StL σ χ}
    (hb : BaseInv c S G p0 L.s) (hg : GInv G L) (e : EvL χ) :
    BaseInv c S G p0 (stepL c S mk L e).s ∧ GInv G (stepL c S mk L e) := by
  cases e with
  | base e =>
    exact ⟨baseInv_afterBase hg _ (baseInv_step hfix hsize hS hb e), ginv_afterBase hg _ (stepShape_step c S L.s e)⟩
  | tell who msg =>
    show BaseInv c S G p0 (if _ then L else _).s ∧ GInv G (if _ then L else _)
    split
    · exact ⟨hb, hg⟩
    · have hg' := ginv_handleTell c mk hmk hg who msg
      have hb' : BaseInv c S G p0 (handleTell c mk L who msg).s := by
        rcases handleTell_s c mk L who msg with h | ⟨l, h⟩
        · rw [h]; exact hb
        · rw [h]; exact baseInv_install hb _ (hmk l)
      exact ⟨baseInv_afterBase hg' _ (baseInv_step hfix hsize hS hb' _), ginv_afterBase hg' _ (stepShape_step c S _ _)⟩

theorem inv_runL {c : Compose.Conf} (hfix : c.bot.fixed = true) (hsize : 3 ≤ c.size ∧ c.size ≤ 8)
    {S : Searcher σ χ} {G : σ → Prop}
    (hS : ∀ x p e m e', p.cfg.size = c.size → G e → S.run x p e = .ok (m, e') → G e')
    (mk : Int → σ) (hmk : ∀ l, G (mk l)) {p0 : Pos} (evs : List (EvL χ)) :
    ∀ (L : StL σ χ), BaseInv c S G p0 L.s → GInv G L →
      BaseInv c S G p0 (runL c S mk L evs).s ∧ GInv G (runL c S mk L evs) := by
  induction evs with
  | nil => intro L hb hg; exact ⟨hb, hg⟩
  | cons e es ih =>
    intro L hb hg
    obtain ⟨hb', hg'⟩ := inv_stepL hfix hsize hS mk hmk hb hg e
    exact ih _ hb' hg'

theorem ginv_startL (c : Compose.Conf) (secs : Int) (mk : Int → σ) (G : σ → Prop) (level : Int) :
    GInv G (startL c secs mk level : StL σ χ) :=
  ⟨fun _ => rfl, fun _ => rfl, (fun h => by cases h), (fun _ h => by cases h), (fun _ h => by cases h)⟩

/-! ## the theorems -/

/-- **`bot_inv_level`** — the composed bot WITH the chat commands.  For every `Bot` of the model, every searching player
`S` with an invariant `G` kept by every call on a `size`×`size` position, engines `mk level` (what the `level` command
builds: `ai.NewMinimax(f.AIConfig())`) satisfying `G`, every colour, clock and EVERY list of events — server lines, grace
timer, thinkers entering and leaving in any order the lock allows, and chat lines `Tell <who> msg` from anybody with any
text at any moment, in particular `level n` from the opponent while a thinker is inside the engine being replaced:
1. C07's invariant (record = server history; every transmitted move legal, on turn, fresh);
2. every transmitted move is `SentBy` a recorded `GetMove` call for exactly the position it was sent in — the rule's
   scripted move or the answer of the searching player for that position from a `G` engine state;
3. every recorded call is what the real `GetMove` computes from what it read;
4. `G` holds of the engine (`f.ai`, resp. the object the call in progress runs on) and of the engine waiting to be used;
5. at most one thinker is inside `GetMove`, and it is the one whose call the model has in progress. -/
theorem bot_inv_level (c : Compose.Conf) (hfix : c.bot.fixed = true) (hsize : 3 ≤ c.size ∧ c.size ≤ 8)
    (S : Searcher σ χ) (G : σ → Prop)
    (hS : ∀ x p e m e', p.cfg.size = c.size → G e → S.run x p e = .ok (m, e') → G e')
    (mk : Int → σ) (hmk : ∀ l, G (mk l)) (secs : Int) (level : Int) (evs : List (EvL χ)) :
    let L := runL c S mk (startL c secs mk level) evs
    Inv c.bot L.s.b ∧
    (∀ rec ∈ L.s.b.log, SentBy c S G L.s rec) ∧
    (∀ call ∈ L.s.calls, CallOK c call) ∧
    (G L.s.eng ∧ ∀ e, L.pending = some e → G e) ∧
    (holders L.s.b ≤ 1 ∧ (L.s.dead = none →
      ∀ j, (∃ t, thinkerAt L.s.b j = some t ∧ t.st = .running) ↔ ∃ call, L.s.inside = some call ∧ call.k = j)) := by
  intro L
  obtain ⟨p0, hb0⟩ := baseInv_start c hsize S G secs (mk level) (hmk level)
  obtain ⟨hb, hg⟩ := inv_runL hfix hsize hS mk hmk evs (startL c secs mk level) hb0 (ginv_startL c secs mk G level)
  exact ⟨hb.sinv.core.inv, sentBy_of_baseInv hsize hb, hb.cinv.calls, ⟨hb.cinv.eng, hg.pendG⟩, hb.hold, hb.linv⟩

/-- **`level_keeps_engine`** — a thinker keeps the engine it started with; the next call uses the new one.  Along every
event list (any chat lines at any moment):
* every search that returned ran on the very engine object (`runs`: build number) that `f.ai` was when its call was made
  — although `level` may have replaced `f.ai` any number of times while it ran;
* while a call is in progress, the engine the composed state holds is the one that call read from `f.ai`;
* whenever nobody is inside `GetMove`, nothing is pending: the engine the composed state holds IS `f.ai`, the latest
  build — so the next call, which reads `f.ai` when it is made, searches on the engine the last `level` built. -/
theorem level_keeps_engine (c : Compose.Conf) (S : Searcher σ χ) (mk : Int → σ) (secs : Int) (level : Int)
    (evs : List (EvL χ)) :
    let L := runL c S mk (startL c secs mk level) evs
    (∀ r ∈ L.runs, r.2.1 = r.2.2) ∧
    (L.s.inside.isSome = true → L.insideGen = L.engGen) ∧
    (L.s.inside = none → L.pending = none ∧ L.engGen = L.built) := by
  intro L
  have h : GInv (fun _ => True) L := by
    have : ∀ (evs : List (EvL χ)) (L0 : StL σ χ), GInv (fun _ => True) L0 → GInv (fun _ => True) (runL c S mk L0 evs) := by
      intro evs
      induction evs with
      | nil => intro L0 h; exact h
      | cons e es ih =>
        intro L0 h
        refine ih _ ?_
        cases e with
        | base e => exact ginv_afterBase h _ (stepShape_step c S L0.s e)
        | tell who msg =>
          show GInv _ (if _ then L0 else _)
          split
          · exact h
          · exact ginv_afterBase (ginv_handleTell c mk (fun _ => trivial) h who msg) _ (stepShape_step c S _ _)
    exact this evs _ (ginv_startL c secs mk _ level)
  exact ⟨h.runs, h.ins, fun hn => ⟨h.idle hn, h.cur (h.idle hn)⟩⟩

/-! ## no thinker goroutine is lost, chat lines included -/

/-- `ChkOK` for event lists with chat lines -/
def ChkOKL (c : Compose.Conf) (S : Searcher σ χ) (mk : Int → σ) : StL σ χ → List (EvL χ) → Prop
  | _, [] => True
  | L, e :: es =>
    (match e with
     | .base (.enter k chk) => ∀ t, thinkerAt L.s.b k = some t → asksPrev chk = true → t.pos.move > 0
     | _ => True) ∧ ChkOKL c S mk (stepL c S mk L e) es

/-- verdicts that never claim a win in one are sane -/
theorem chkOKL_of_noAsk (c : Compose.Conf) (S : Searcher σ χ) (mk : Int → σ) : ∀ (evs : List (EvL χ)) (L : StL σ χ),
    evs.all (fun e => match e with | .base (.enter _ chk) => !asksPrev chk | _ => true) = true → ChkOKL c S mk L evs
  | [], _, _ => trivial
  | e :: es, L, h => by
    simp only [List.all_cons, Bool.and_eq_true] at h
    refine ⟨?_, chkOKL_of_noAsk c S mk es _ h.2⟩
    match e, h.1 with
    | .base (.enter k chk), h1 =>
      intro t _ ha
      simp only [Bool.not_eq_true'] at h1
      rw [h1] at ha
      cases ha
    | .base (.deliver _ _), _ => trivial
    | .base .close, _ => trivial
    | .base .timerFires, _ => trivial
    | .base (.leave _ _), _ => trivial
    | .tell _ _, _ => trivial

theorem step_of_dead (c : Compose.Conf) (S : Searcher σ χ) (s : Compose.St σ χ) (e : Compose.Ev χ)
    (h : s.dead.isSome = true) : Compose.step c S s e = s := by
  unfold Compose.step
  rw [if_pos h]

theorem safeInv_congr {c : Compose.Conf} {p0 : Pos} {s s' : Compose.St σ χ} (h : SafeInv c p0 s) (hb : s'.b = s.b)
    (hf : s'.fpa = s.fpa) : SafeInv c p0 s' :=
  ⟨by rw [hb]; exact h.sinv, by rw [hb]; exact h.pinv, h.p0m, by rw [hb]; exact h.canc,
   by have := h.fpa; unfold FpaOK at this ⊢; rw [hf]; exact this⟩

theorem afterBase_s (L : StL σ χ) (s' : Compose.St σ χ) :
    (afterBase L s').s = s' ∨
      (∃ e, (afterBase L s').s = { s' with eng := e } ∧ s'.rets.length > L.s.rets.length) := by
  unfold afterBase
  dsimp only
  split
  · rename_i e hr _
    exact .inr ⟨e, rfl, by simpa using hr⟩
  · exact .inl rfl

/-- one event keeps the no-crash invariants -/
theorem safe_stepL {c : Compose.Conf} (hguard : c.guard = true) (hrep : c.replay = true) (hfix : c.bot.fixed = true)
    (hvar : ∀ var, confVariant c = some var → VariantTotal var) (S : Searcher σ χ) (mk : Int → σ) {p0 : Pos}
    {L : StL σ χ} (hI : SafeInv c p0 L.s) (hD : DeadBySearch S L.s) (e : EvL χ) (hchk : ChkOKL c S mk L [e]) :
    SafeInv c p0 (stepL c S mk L e).s ∧ DeadBySearch S (stepL c S mk L e).s := by
  -- what a step of the composed system followed by the bookkeeping keeps
  have key : ∀ (L1 : StL σ χ) (ev : Compose.Ev χ), SafeInv c p0 L1.s → DeadBySearch S L1.s → ChkOK c S L1.s [ev] →
      SafeInv c p0 (afterBase L1 (Compose.step c S L1.s ev)).s ∧
      DeadBySearch S (afterBase L1 (Compose.step c S L1.s ev)).s := by
    intro L1 ev hI1 hD1 hc1
    have hI' := safeInv_step hrep hfix S hI1 ev
    have hD' := deadBySearch_step_of c hguard hrep S hI1 hD1 ev hc1
      (ruleOK_run_of_variantTotal c hrep hfix hvar S [ev] _ hI1)
    rcases afterBase_s L1 (Compose.step c S L1.s ev) with h | ⟨e', h, hret⟩
    · rw [h]; exact ⟨hI', hD'⟩
    · rw [h]
      refine ⟨safeInv_congr hI' rfl rfl, ?_⟩
      have hdn : (Compose.step c S L1.s ev).dead = none := by
        cases hd : L1.s.dead with
        | some x =>
          rw [step_of_dead c S L1.s ev (by rw [hd]; rfl)] at hret
          exact absurd hret (Nat.lt_irrefl _)
        | none =>
          rcases stepShape_step c S L1.s ev with ⟨_, h2, _⟩ | ⟨_, _, h3, _⟩ | ⟨_, _, _, _, h5⟩
          · omega
          · omega
          · rw [h5, hd]
      intro err herr
      have : (Compose.step c S L1.s ev).dead = some err := herr
      rw [hdn] at this
      cases this
  cases e with
  | base ev =>
    refine key L ev hI hD ⟨?_, trivial⟩
    cases ev with
    | enter k chk => exact hchk.1
    | _ => trivial
  | tell who msg =>
    show SafeInv c p0 (if _ then L else _).s ∧ DeadBySearch S (if _ then L else _).s
    split
    · exact ⟨hI, hD⟩
    · rename_i hcond
      have hnd : L.s.dead = none := by
        cases hd : L.s.dead with
        | none => rfl
        | some x => simp [hd] at hcond
      have hI2 : SafeInv c p0 (handleTell c mk L who msg).s := by
        rcases handleTell_s c mk L who msg with h | ⟨l, h⟩
        · rw [h]; exact hI
        · rw [h]; exact safeInv_congr hI rfl rfl
      have hD2 : DeadBySearch S (handleTell c mk L who msg).s := by
        intro err herr
        rcases handleTell_s c mk L who msg with h | ⟨l, h⟩
        · rw [h] at herr; rw [hnd] at herr; cases herr
        · rw [h] at herr
          have : L.s.dead = some err := herr
          rw [hnd] at this; cases this
      exact key _ _ hI2 hD2 ⟨trivial, trivial⟩

theorem safe_runL {c : Compose.Conf} (hguard : c.guard = true) (hrep : c.replay = true) (hfix : c.bot.fixed = true)
    (hvar : ∀ var, confVariant c = some var → VariantTotal var) (S : Searcher σ χ) (mk : Int → σ) {p0 : Pos}
    (evs : List (EvL χ)) : ∀ (L : StL σ χ), SafeInv c p0 L.s → DeadBySearch S L.s → ChkOKL c S mk L evs →
      DeadBySearch S (runL c S mk L evs).s := by
  induction evs with
  | nil => intro L _ hD _; exact hD
  | cons e es ih =>
    intro L hI hD hchk
    obtain ⟨hI', hD'⟩ := safe_stepL hguard hrep hfix hvar S mk hI hD e ⟨hchk.1, trivial⟩
    exact ih _ hI' hD' hchk.2

/-- **`bot_never_dead_level`** — `bot_dead_only_by_search` / `bot_never_dead_guarded` with the chat commands: on the
tree as it is (`guard = true`, `replay = true`), with a rule whose code is total (`VariantTotal`: none, centre) and sane check verdicts, for EVERY list of
events INCLUDING chat lines from anybody at any moment (so also `level n` replacing `f.ai` under a searching thinker):
a lost thinker goroutine can only be an error raised by the searching player itself in the call in progress; and with a
searching player (and engines built by `level`) that answer on every `size`×`size` position from every `G` state, no
thinker goroutine is ever lost.  Handling a chat line itself cannot panic (`handleCommand` indexes `levels[level-1]`
only with `1 ≤ level`, clamped to the table). -/
theorem bot_never_dead_level (c : Compose.Conf) (hguard : c.guard = true) (hrep : c.replay = true)
    (hfix : c.bot.fixed = true)
    (hsize : 3 ≤ c.size ∧ c.size ≤ 8) (hvar : ∀ var, confVariant c = some var → VariantTotal var)
    (S : Searcher σ χ) (G : σ → Prop)
    (hS : ∀ x p e m e', p.cfg.size = c.size → G e → S.run x p e = .ok (m, e') → G e')
    (mk : Int → σ) (hmk : ∀ l, G (mk l)) (secs : Int) (level : Int) (evs : List (EvL χ))
    (hchk : ChkOKL c S mk (startL c secs mk level) evs) :
    DeadBySearch S (runL c S mk (startL c secs mk level) evs).s ∧
    ((∀ x p e, p.cfg.size = c.size → G e → ∃ r, S.run x p e = .ok r) →
      (runL c S mk (startL c secs mk level) evs).s.dead = none) := by
  obtain ⟨p0, hI⟩ := safeInv_start (χ := χ) c hsize secs (mk level)
  have hD := safe_runL hguard hrep hfix hvar S mk evs (startL c secs mk level) hI (fun _ h => by cases h) hchk
  refine ⟨hD, fun hT => ?_⟩
  obtain ⟨p1, hb0⟩ := baseInv_start c hsize S G secs (mk level) (hmk level)
  obtain ⟨hb, _⟩ := inv_runL hfix hsize hS mk hmk evs (startL c secs mk level) hb0 (ginv_startL c secs mk G level)
  cases hd : (runL c S mk (startL c secs mk level) evs).s.dead with
  | none => rfl
  | some e =>
    exfalso
    obtain ⟨call, x, lim, fl, hin, _, hrun⟩ := hD e hd
    obtain ⟨_, t, ht, hpos⟩ := hb.cinv.inside call hin
    have hsz : call.pos.cfg.size = c.size := by
      rw [← hpos]
      have hmem : t ∈ thinkers (runL c S mk (startL c secs mk level) evs).s.b := List.mem_of_getElem? ht
      unfold thinkers at hmem
      simp only [List.mem_append, List.mem_singleton] at hmem
      rcases hmem with hm | rfl
      · exact hb.pinv.old t hm
      · exact hb.pinv.cur
    obtain ⟨r, hr⟩ := hT x call.pos _ hsz hb.cinv.eng
    rw [hr] at hrun
    cases hrun

/-! ## the instance: `Friendly` with the alpha-beta model, every level its own evaluator and configuration -/

/-- `f.ai` as an object that carries what `NewMinimax(f.AIConfig())` fixed: evaluator (`levelSettings`: the weights of the
level), configuration (depth of the level, table, options) and the engine state -/
def minimaxLevel (basis : Array W) (sym : Pos → List Search.H) :
    Searcher ((Pos → Int) × Search.Cfg × Search.Eng Move) { o : Search.Oracle Move // Search.OrderOK o } :=
  { run := fun o p s =>
      match Search.getMove (Search.takGame basis s.1 sym) s.2.1 o.1 p s.2.2 with
      | .ok (m, e') => .ok (m, (s.1, s.2.1, e'))
      | .error e => .error e }

/-- **`bot_inv_level_friendly`** — `bot_inv_level` for the real `Friendly` with the alpha-beta model: whatever evaluator
`evOf level` and configuration `cfgOf level` the levels stand for, the engine the bot searches on satisfies `EngInv` for
ITS evaluator after every event — from `NewGame` through every search and every `level` command, also one that arrives
while the engine being replaced is searching —, C07's invariant holds and every transmitted move is `SentBy` a call. -/
theorem bot_inv_level_friendly (c : Compose.Conf) (hfix : c.bot.fixed = true) (hsize : 3 ≤ c.size ∧ c.size ≤ 8)
    (sym : Pos → List Search.H) (evOf : Int → Pos → Int) (cfgOf : Int → Search.Cfg) (secs : Int) (level : Int)
    (evs : List (EvL { o : Search.Oracle Move // Search.OrderOK o })) :
    let mk := fun l => (evOf l, cfgOf l, Search.Eng.new (Search.takGame c.bot.basis (evOf l) sym) (cfgOf l))
    let G := fun (s : (Pos → Int) × Search.Cfg × Search.Eng Move) => EngInv c.bot.basis s.1 sym s.2.2
    let L := runL c (minimaxLevel c.bot.basis sym) mk (startL c secs mk level) evs
    Inv c.bot L.s.b ∧ G L.s.eng ∧ (∀ e, L.pending = some e → G e) ∧
    (∀ rec ∈ L.s.b.log, SentBy c (minimaxLevel c.bot.basis sym) G L.s rec) ∧ holders L.s.b ≤ 1 := by
  intro mk G L
  have hS : ∀ x p e m e', p.cfg.size = c.size → G e → (minimaxLevel c.bot.basis sym).run x p e = .ok (m, e') → G e' := by
    intro x p e m e' hp he hrun
    unfold minimaxLevel at hrun
    dsimp only at hrun
    cases hg : Search.getMove (Search.takGame c.bot.basis e.1 sym) e.2.1 x.1 p e.2.2 with
    | error err => rw [hg] at hrun; cases hrun
    | ok r =>
      obtain ⟨m1, e1⟩ := r
      rw [hg] at hrun
      injection hrun with hrun
      have h2 := (Prod.mk.inj hrun).2
      rw [← h2]
      exact minimax_keeps_engInv c.bot.basis e.1 sym e.2.1 c.size hsize x p e.2.2 m1 e1 hp he hg
  obtain ⟨h1, h2, _, h4, h5, _⟩ := bot_inv_level c hfix hsize (minimaxLevel c.bot.basis sym) G hS mk
    (fun l => engInv_new c.bot.basis (evOf l) sym (cfgOf l)) secs level evs
  exact ⟨h1, h4.1, h4.2, h2, h5⟩

namespace ExL
open Ex
/-- the engine of the examples: the level it was built for and how many searches it has done -/
def cnt : Searcher (Int × Nat) Move := { run := fun m _ s => .ok (m, (s.1, s.2 + 1)) }
def mkc (l : Int) : Int × Nat := (l, 0)
def goL (c : Compose.Conf) (evs : List (EvL Move)) : StL (Int × Nat) Move :=
  runL c cnt mkc (startL c 600 mkc Facts.defaultLevel) evs
/-- bot White, no rule, 5×5.  Thinker 0 is searching on the level-6 engine when the opponent says `level 2`; it
answers `a1`, which is transmitted; thinker 1 (Black to move: nothing to do) runs through; Black plays `e5`; thinker 2
searches — on the level-2 engine -/
def evs : List (EvL Move) :=
  [.base (.enter 0 quiet), .tell "Opp" "level 2", .base (.leave 0 (place 0 0)), .base (.enter 1 quiet),
   .base (.leave 1 zm), .base (srv ["P", "E5"] (place 4 4)), .base tm, .base (.enter 2 quiet), .base (.leave 2 (place 2 2))]
end ExL

open ExL Ex in
/-- **`level_now_while_searching`** (concrete instance, non-vacuity of the two theorems above): after the `level 2` line
`f.ai` is build 1 while the search in progress still runs on build 0 (the level-6 engine, one search done when it
returns — and then dropped); the reply goes out at once; the next search runs on the engine built for level 2, which
has done exactly that one search; both moves are transmitted, the record follows the server. -/
theorem level_now_while_searching :
    let c := conf .white 5 (.friendly none) true
    (goL c (evs.take 2)).pending = some (2, 0) ∧ (goL c (evs.take 2)).s.eng = (Facts.defaultLevel, 0) ∧
    (goL c (evs.take 2)).wire = [.reply true .now 2] ∧ (goL c (evs.take 2)).level = 2 ∧
    (goL c (evs.take 3)).s.eng = (2, 0) ∧ (goL c (evs.take 3)).pending = none ∧
    (goL c evs).s.eng = (2, 1) ∧ (goL c evs).runs = [(0, 0, 0), (1, 1, 1), (2, 1, 1)] ∧
    (goL c evs).s.b.sent = [.move (place 0 0), .move (place 2 2)] ∧ (goL c evs).s.b.moves = (goL c evs).s.b.srvMoves ∧
    (goL c evs).s.dead = none := by
  decide +kernel

open ExL Ex in
/-- non-vacuity of `bot_never_dead_level`: the schedule above (a `level` line under a searching thinker) meets its
hypotheses — guard on, no rule, verdicts sane — and nobody dies (`level_now_while_searching`) -/
example :
    (conf .white 5 (.friendly none) true).guard = true ∧ (conf .white 5 (.friendly none) true).replay = true ∧
    (∀ var, confVariant (conf .white 5 (.friendly none) true) = some var → VariantTotal var) ∧
    ChkOKL (conf .white 5 (.friendly none) true) cnt mkc (startL (conf .white 5 (.friendly none) true) 600 mkc Facts.defaultLevel) evs ∧
    (goL (conf .white 5 (.friendly none) true) evs).s.dead = none :=
  ⟨rfl, rfl, (fun _ h => by cases h), chkOKL_of_noAsk _ _ _ _ _ (by decide), level_now_while_searching.2.2.2.2.2.2.2.2.2.2⟩

end C07
