import TakVerif.Proofs.SearchCancelAnalyze
import TakVerif.Proofs.SearchPrefixAnalyze
import TakVerif.Proofs.SearchToy

/-! # C16 — cancellation only truncates a search

The cancel flag (`*int32`, set by the context watcher goroutine) is modelled by the oracle
`Oracle.cancel loads evals`: the answer of the `loads`-th `atomic.LoadInt32(ai.cancel)` of the current `Analyze`
when `evals` leaf evaluations have been made.  The model consults it at exactly the code's load sites: after
every child in `pvSearch`/`zwSearch`, in `ttPut`, and after each iteration in `Analyze` (there only when the
iteration returned a PV).  `Oracle.Monotone`: once set the flag stays set.  `o.never`: same environment, flag
never set.  All statements hold for **every** configuration (tables, null move, slide reduction, multi-cut,
sorting, `MaxEvals`) and every engine state.

Not carried by a theorem: data-race freedom (outside any Lean model; the thorough tier runs the repository's
cancel tests under the race detector as supporting evidence only). -/
namespace C16
open Search

variable {P M : Type} [DecidableEq M]

/-- **`cancel_truncates`**: a cancelled `Analyze` returns exactly the value, PV, depth and statistics of the
deepest iteration it completed — identical to an uninterrupted `Analyze` limited to that depth (`Cfg.Depth := d`
with `d` the reported `Stats.Depth`) — flagged `Canceled`; otherwise it is the uninterrupted `Analyze`, engine
state included.  (When no iteration completed, `d` is the start depth: 0 and no move, or the depth and move of the
root's exact table entry.) -/
theorem cancel_truncates (g : Game P M) (cfg : Cfg) {o : Oracle M} (hm : o.Monotone) (p : P) (s : Eng M)
    (ms : List M) (v : Int) (st : Stats) (s' : Eng M)
    (h : analyze g cfg o p s = .ok ((ms, v, st), s')) :
    analyze g cfg o.never p s = .ok ((ms, v, st), s') ∨
    (st.canceled = true ∧ st.depth ≤ cfg.depth ∧
      ∃ st0 s'', st = { st0 with canceled := true } ∧
        analyze g (cfg.withDepth st.depth) o.never p s = .ok ((ms, v, st0), s'')) :=
  cancel_truncates_analyze g cfg hm p s ms v st s' h

/-- **the search is local in the flag** (`cancel_local`): a `pvSearch` call during which every load answered
`false` is, result and engine state, the call with the flag never set; loads and evaluations are only counted
up, `Stats.Depth` is not touched, a table is neither created nor dropped.  (This is what makes an aborted subtree unable to leak into a completed
iteration: the iteration is kept only if its last load was `false`, hence all of them.) -/
theorem cancel_local (g : Game P M) (cfg : SOpts) (o : Oracle M) (n : Nat)
    (p : P) (ply : Nat) (depth : Int) (pv : List M) (α β : Int) (s : Eng M) (r : Res M) (s' : Eng M)
    (h : (search g cfg o n).1 p ply depth pv α β s = .ok (r, s')) :
    s.loads ≤ s'.loads ∧ s.evals ≤ s'.evals ∧ s'.st.depth = s.st.depth ∧ s'.hasTable = s.hasTable ∧
    ((∀ l e, l < s'.loads → e ≤ s'.evals → o.cancel l e = false) →
      (search g cfg o.never n).1 p ply depth pv α β s = .ok (r, s')) :=
  (search_loc g cfg n).1 p ply depth pv α β s r s' h

/-- **later searches on the same engine are still exact** (no table, precise options): whatever a cancelled
search left in the engine (response hints, PV buffers, statistics), the next uncancelled `Analyze` is exact in
the sense of `C05.analyze_exact`.  With a table the same follows from the table invariant of C05. -/
theorem after_cancel_exact {g : Game P M} (hg : GameOK g) (hb : EvalBounded g) {cfg : Cfg} (hpr : Precise cfg.opts)
    {o o2 : Oracle M} (hm : o.Monotone) (hnc : NoCancel o2) (hord : OrderOK o2)
    (p p2 : P) (hov : g.over p2 = false) (hdepth : 1 ≤ cfg.depth)
    (hlive : ∀ d : Nat, 1 ≤ d → (d : Int) ≤ cfg.depth → Live g d p2)
    (s : Eng M) (hs : s.hasTable = false) (r : (List M × Int × Stats)) (s1 : Eng M)
    (h1 : analyze g cfg o p s = .ok (r, s1)) :
    Sat (analyze g cfg o2 p2 s1) (fun x =>
      x.1.2.2.canceled = false ∧ x.1.2.1 = negamax g x.1.2.2.depth.toNat p2 ∧
      ∃ m rest c, x.1.1 = m :: rest ∧ g.apply p2 m = .ok c ∧ x.1.2.1 = -(negamax g (x.1.2.2.depth.toNat - 1) c)) := by
  -- the first call cannot create a table
  have hs1 : s1.hasTable = false := by
    rw [analyze_hasTable g cfg hm p s r s1 h1]; exact hs
  refine (analyze_exact_nt hg hb hpr hnc hord p2 hov hdepth hlive s1 hs1).mono ?_
  rintro x ⟨_, h2, _, _, h5, h6⟩
  exact ⟨h2, h5, h6⟩

/-! ## the table clause

`Eng.wlog` is a ghost field of the model (nothing reads it): `Eng.evict` and `Eng.setEntry`, the only two functions
that assign into `table` (the Go statements `m.table[i2] = m.table[i1]` in `ttPut` and `*te = tableEntry{…}` in
`pvSearch`/`zwSearch`), record the index and the entry they write; `Analyze` clears the log where it clears the
per-call counters.  `writes s'` is the log of the call that ended in `s'`, oldest first; `replay` applies a list of
writes to a table.

*Wording.*  The earlier `cancel_tt_prefix_statement` ("the cancelled call ends with the table of a call cancelled
at some load index `k`") was true but said nothing about the uninterrupted call: by monotonicity every cancelled
call *is* such a call.  It is replaced by the statement about the write sequences themselves. -/

/-- the table assignments `(index, entry)` of the call that ended in `s'`, oldest first -/
def writes (s' : Eng M) : List (Nat × TEntry M) := s'.wlog.reverse

/-- apply a list of assignments `table[i] = e`, oldest first -/
def replay (t : Array (TEntry M)) (ws : List (Nat × TEntry M)) : Array (TEntry M) :=
  ws.foldl (fun t w => t.setIfInBounds w.1 w.2) t

omit [DecidableEq M] in
theorem replay_writes (t : Array (TEntry M)) (s' : Eng M) : replay t (writes s') = replayR t s'.wlog := by
  unfold replay writes replayR
  rw [List.foldl_reverse]

/-- **`cancel_tt_prefix`** (every configuration, every engine state, every monotone oracle): the sequence of
table assignments made by a cancelled `Analyze` is a prefix of the sequence made by the same `Analyze` with the
flag never set; and in both calls the table at the end is exactly the table found at the start with these
assignments applied in order (the log misses nothing).  So a cancelled call leaves the table in a state the
uninterrupted call passes through. -/
theorem cancel_tt_prefix (g : Game P M) (cfg : Cfg) {o : Oracle M} (hm : o.Monotone) (p : P) (s : Eng M)
    (r : List M × Int × Stats) (s' : Eng M) (h : analyze g cfg o p s = .ok (r, s')) :
    s'.table = replay s.table (writes s') ∧
    ∀ r2 s2, analyze g cfg o.never p s = .ok (r2, s2) →
      writes s' <+: writes s2 ∧ s2.table = replay s.table (writes s2) := by
  obtain ⟨h1, h2⟩ := analyze_writes_prefix hm g cfg p s r s' h
  refine ⟨by rw [replay_writes]; exact h1, ?_⟩
  intro r2 s2 hn
  obtain ⟨h3, h4⟩ := h2 r2 s2 hn
  exact ⟨List.reverse_prefix.mpr h3, by rw [replay_writes]; exact h4⟩

/-- the table after a cancelled call is the table of the uninterrupted call after its first `k` assignments -/
theorem cancel_tt_intermediate (g : Game P M) (cfg : Cfg) {o : Oracle M} (hm : o.Monotone) (p : P) (s : Eng M)
    (r r2 : List M × Int × Stats) (s' s2 : Eng M) (h : analyze g cfg o p s = .ok (r, s'))
    (hn : analyze g cfg o.never p s = .ok (r2, s2)) :
    ∃ k, s'.table = replay s.table ((writes s2).take k) := by
  obtain ⟨h1, h2⟩ := cancel_tt_prefix g cfg hm p s r s' h
  refine ⟨(writes s').length, ?_⟩
  rw [← List.prefix_iff_eq_take.mp (h2 r2 s2 hn).1]
  exact h1

/-- **every entry in the table after a cancelled call is an entry that was there before the call or one that the
uninterrupted call writes** (at that index, at some point) -/
theorem cancel_table_entries (g : Game P M) (cfg : Cfg) {o : Oracle M} (hm : o.Monotone) (p : P) (s : Eng M)
    (r r2 : List M × Int × Stats) (s' s2 : Eng M) (h : analyze g cfg o p s = .ok (r, s'))
    (hn : analyze g cfg o.never p s = .ok (r2, s2)) (i : Nat) (e : TEntry M) (he : s'.table[i]? = some e) :
    s.table[i]? = some e ∨ (i, e) ∈ writes s2 := by
  obtain ⟨h1, h2⟩ := analyze_writes_prefix hm g cfg p s r s' h
  rw [h1] at he
  rcases replayR_entry s.table s'.wlog i e he with h3 | h3
  · exact Or.inl h3
  · right
    unfold writes
    rw [List.mem_reverse]
    exact (h2 r2 s2 hn).1.subset h3

/-- hence any per-entry invariant of the table that holds before the call and for everything the uninterrupted
call writes holds after the cancelled call — in particular C05's table invariant (`Search.TableSound`, with
`Q _ e := ∀ q, g.hash q = e.hash → SoundE g e q`), in every configuration -/
theorem cancel_table_invariant (g : Game P M) (cfg : Cfg) {o : Oracle M} (hm : o.Monotone) (p : P) (s : Eng M)
    (r r2 : List M × Int × Stats) (s' s2 : Eng M) (h : analyze g cfg o p s = .ok (r, s'))
    (hn : analyze g cfg o.never p s = .ok (r2, s2)) (Q : Nat → TEntry M → Prop)
    (h0 : ∀ i e, s.table[i]? = some e → Q i e) (hw : ∀ w ∈ writes s2, Q w.1 w.2) :
    ∀ i e, s'.table[i]? = some e → Q i e := by
  intro i e he
  rcases cancel_table_entries g cfg hm p s r r2 s' s2 h hn i e he with h1 | h1
  · exact h0 i e h1
  · exact hw (i, e) h1

/-- the instance for C05's invariant -/
theorem cancel_tableSound (g : Game P M) (cfg : Cfg) {o : Oracle M} (hm : o.Monotone) (p : P) (s : Eng M)
    (r r2 : List M × Int × Stats) (s' s2 : Eng M) (h : analyze g cfg o p s = .ok (r, s'))
    (hn : analyze g cfg o.never p s = .ok (r2, s2)) (h0 : TableSound g s)
    (hw : ∀ w ∈ writes s2, ∀ q, g.hash q = w.2.hash → SoundE g w.2 q) : TableSound g s' :=
  fun i e he => cancel_table_invariant g cfg hm p s r r2 s' s2 h hn (fun _ e => ∀ q, g.hash q = e.hash → SoundE g e q)
    (fun i e hi => h0 i e hi) hw i e he

/-- a monotone oracle as the harness builds it: the flag is set inside the `k`-th leaf evaluation -/
def atLeaf (k : Nat) : Oracle Nat := { Oracle.quiet with cancel := fun _ e => decide (k ≤ e) }

theorem atLeaf_monotone (k : Nat) : (atLeaf k).Monotone := by
  intro l l' e e' _ he h
  simp only [atLeaf, decide_eq_true_eq] at h ⊢
  omega

/-- non-vacuity on the heap game: cancelling inside the 4th leaf evaluation of a depth-4 search of the heap 7
returns the depth-1 result flagged `Canceled`, and that is what the uninterrupted depth-1 search returns -/
example :
    (match analyze Toy.game Toy.cfg (atLeaf 4) 7 (Eng.new Toy.game Toy.cfg) with
      | .ok ((ms, v, st), _) => some (ms, v, st.depth, st.canceled) | .error _ => none) = some ([1], 0, 1, true) ∧
    (match analyze Toy.game (Toy.cfg.withDepth 1) (atLeaf 4).never 7 (Eng.new Toy.game Toy.cfg) with
      | .ok ((ms, v, st), _) => some (ms, v, st.depth, st.canceled) | .error _ => none) = some ([1], 0, 1, false) := by
  decide

/-- non-vacuity of the table clause on the heap game with a 4-entry table: the depth-4 `Analyze` of the heap 7
cancelled inside its 12th leaf evaluation has made 16 table assignments, the uninterrupted one makes 40, the 16 are
the first 16 of the 40, and the cancelled call's table is the new engine's table with the 16 applied -/
example :
    (match analyze Toy.game { Toy.cfg with tableEntries := some 4 } (atLeaf 12) 7
        (Eng.new Toy.game { Toy.cfg with tableEntries := some 4 }),
      analyze Toy.game { Toy.cfg with tableEntries := some 4 } (atLeaf 12).never 7
        (Eng.new Toy.game { Toy.cfg with tableEntries := some 4 }) with
    | .ok (_, s'), .ok (_, s2) =>
      some ((writes s').length, (writes s2).length, decide (writes s' <+: writes s2),
        decide (s'.table = replay (Eng.new Toy.game { Toy.cfg with tableEntries := some 4 }).table ((writes s2).take 16)))
    | _, _ => none) = some (16, 40, true, true) := by
  decide +kernel

end C16
