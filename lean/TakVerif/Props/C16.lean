import TakVerif.Impl.Minimax
namespace C16
open Search
/-- placeholder until the real theorems land -/
theorem quiet_never_cancels {M : Type} (l e : Nat) : (Oracle.quiet : Oracle M).cancel l e = false := rfl
end C16
