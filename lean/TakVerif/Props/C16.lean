import TakVerif.Proofs.SearchCancelAnalyze
import TakVerif.Proofs.SearchToy

/-! # C16 — cancellation only truncates a search

The cancel flag (`*int32`, set by the context watcher goroutine) is modelled by the oracle
`Oracle.cancel loads evals`: the answer of the `loads`-th `atomic.LoadInt32(ai.cancel)` of the current `Analyze`
when `evals` leaf evaluations have been made.  The model consults it at exactly the code's load sites: after
every child in `pvSearch`/`zwSearch`, in `ttPut`, and after each iteration in `Analyze` (there only when the
iteration returned a PV).  `Oracle.Monotone`: once set the flag stays set.  `o.never`: same environment, flag
never set.  All statements hold for **every** configuration (tables, null move, slide reduction, multi-cut,
sorting, `MaxEvals`) and every engine state.

Not carried by a theorem: data-race freedom (outside any Lean model; the thorough tier runs the repository's
cancel tests under the race detector as supporting evidence only). -/
namespace C16
open Search

variable {P M : Type} [DecidableEq M]

/-- **`cancel_truncates`**: a cancelled `Analyze` returns exactly the value, PV, depth and statistics of the
deepest iteration it completed — identical to an uninterrupted `Analyze` limited to that depth (`Cfg.Depth := d`
with `d` the reported `Stats.Depth`) — flagged `Canceled`; otherwise it is the uninterrupted `Analyze`, engine
state included.  (When no iteration completed, `d` is the start depth: 0 and no move, or the depth and move of the
root's exact table entry.) -/
theorem cancel_truncates (g : Game P M) (cfg : Cfg) {o : Oracle M} (hm : o.Monotone) (p : P) (s : Eng M)
    (ms : List M) (v : Int) (st : Stats) (s' : Eng M)
    (h : analyze g cfg o p s = .ok ((ms, v, st), s')) :
    analyze g cfg o.never p s = .ok ((ms, v, st), s') ∨
    (st.canceled = true ∧ st.depth ≤ cfg.depth ∧
      ∃ st0 s'', st = { st0 with canceled := true } ∧
        analyze g (cfg.withDepth st.depth) o.never p s = .ok ((ms, v, st0), s'')) :=
  cancel_truncates_analyze g cfg hm p s ms v st s' h

/-- **the search is local in the flag** (`cancel_local`): a `pvSearch` call during which every load answered
`false` is, result and engine state, the call with the flag never set; loads and evaluations are only counted
up, `Stats.Depth` is not touched, a table is neither created nor dropped.  (This is what makes an aborted subtree unable to leak into a completed
iteration: the iteration is kept only if its last load was `false`, hence all of them.) -/
theorem cancel_local (g : Game P M) (cfg : SOpts) (o : Oracle M) (n : Nat)
    (p : P) (ply : Nat) (depth : Int) (pv : List M) (α β : Int) (s : Eng M) (r : Res M) (s' : Eng M)
    (h : (search g cfg o n).1 p ply depth pv α β s = .ok (r, s')) :
    s.loads ≤ s'.loads ∧ s.evals ≤ s'.evals ∧ s'.st.depth = s.st.depth ∧ s'.hasTable = s.hasTable ∧
    ((∀ l e, l < s'.loads → e ≤ s'.evals → o.cancel l e = false) →
      (search g cfg o.never n).1 p ply depth pv α β s = .ok (r, s')) :=
  (search_loc g cfg n).1 p ply depth pv α β s r s' h

/-- **later searches on the same engine are still exact** (no table, precise options): whatever a cancelled
search left in the engine (response hints, PV buffers, statistics), the next uncancelled `Analyze` is exact in
the sense of `C05.analyze_exact`.  With a table the same follows from the table invariant of C05. -/
theorem after_cancel_exact {g : Game P M} (hg : GameOK g) (hb : EvalBounded g) {cfg : Cfg} (hpr : Precise cfg.opts)
    {o o2 : Oracle M} (hm : o.Monotone) (hnc : NoCancel o2) (hord : OrderOK o2)
    (p p2 : P) (hov : g.over p2 = false) (hdepth : 1 ≤ cfg.depth)
    (hlive : ∀ d : Nat, 1 ≤ d → (d : Int) ≤ cfg.depth → Live g d p2)
    (s : Eng M) (hs : s.hasTable = false) (r : (List M × Int × Stats)) (s1 : Eng M)
    (h1 : analyze g cfg o p s = .ok (r, s1)) :
    Sat (analyze g cfg o2 p2 s1) (fun x =>
      x.1.2.2.canceled = false ∧ x.1.2.1 = negamax g x.1.2.2.depth.toNat p2 ∧
      ∃ m rest c, x.1.1 = m :: rest ∧ g.apply p2 m = .ok c ∧ x.1.2.1 = -(negamax g (x.1.2.2.depth.toNat - 1) c)) := by
  -- the first call cannot create a table
  have hs1 : s1.hasTable = false := by
    rw [analyze_hasTable g cfg hm p s r s1 h1]; exact hs
  refine (analyze_exact_nt hg hb hpr hnc hord p2 hov hdepth hlive s1 hs1).mono ?_
  rintro x ⟨_, h2, _, _, h5, h6⟩
  exact ⟨h2, h5, h6⟩

/-- the statement about the table that is *not* proved here: the table writes of a cancelled `Analyze` are a
prefix of the table writes of the uninterrupted one.  What is proved instead: `ttPut` refuses a write once the
flag is seen (by definition of the model, mirrored from the code) and `cancel_local`; the correspondence compares
the table digest after every cancelled call. -/
def cancel_tt_prefix_statement : Prop :=
  ∀ (g : Game P M) (cfg : Cfg) (o : Oracle M), o.Monotone → ∀ (p : P) (s : Eng M) r s',
    analyze g cfg o p s = .ok (r, s') →
    ∃ k : Nat, ∃ r2 s2, analyze g cfg { o with cancel := fun l _ => decide (l ≥ k) } p s = .ok (r2, s2) ∧
      s2.table = s'.table

/-- a monotone oracle as the harness builds it: the flag is set inside the `k`-th leaf evaluation -/
def atLeaf (k : Nat) : Oracle Nat := { Oracle.quiet with cancel := fun _ e => decide (k ≤ e) }

theorem atLeaf_monotone (k : Nat) : (atLeaf k).Monotone := by
  intro l l' e e' _ he h
  simp only [atLeaf, decide_eq_true_eq] at h ⊢
  omega

/-- non-vacuity on the heap game: cancelling inside the 4th leaf evaluation of a depth-4 search of the heap 7
returns the depth-1 result flagged `Canceled`, and that is what the uninterrupted depth-1 search returns -/
example :
    (match analyze Toy.game Toy.cfg (atLeaf 4) 7 (Eng.new Toy.game Toy.cfg) with
      | .ok ((ms, v, st), _) => some (ms, v, st.depth, st.canceled) | .error _ => none) = some ([1], 0, 1, true) ∧
    (match analyze Toy.game (Toy.cfg.withDepth 1) (atLeaf 4).never 7 (Eng.new Toy.game Toy.cfg) with
      | .ok ((ms, v, st), _) => some (ms, v, st.depth, st.canceled) | .error _ => none) = some ([1], 0, 1, false) := by
  decide

end C16
