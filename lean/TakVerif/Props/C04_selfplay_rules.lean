import TakVerif.Proofs.SelfplayRules
import TakVerif.Proofs.Budget

/-!
# `taktician selfplay`: a recorded game, read by the rule book (work package "selfplay2")

`game_record_and_end` (`Props/C04_selfplay.lean`) speaks about the bit-level `Position.Move` / `GameOver`.  Composed with C01
(`move_refines`, `reachable_wf`: along non-pass moves from a well-formed position the model is the rule book's `Spec.step`
and stays well-formed) and C02 (`gameOver_refines`: `GameOver` is the rule book's `Spec.outcome`):

* `game_by_the_rule_book`: for ANY two players, a game from a well-formed opening whose recorded moves do not contain
  the engine's internal pass (and respect the 64-piece stack limit: automatic with ≤ 64 pieces in the game,
  `game_by_the_rule_book_budget`) is a LEGAL GAME OF TAK from the opening — `Spec.step` accepts every recorded move in
  turn and leads to the recorded final position —; no state strictly inside it is finished; and it ended either by the
  rules (the rule book calls the final state finished and the recorded winner is its winner), on time (the game was still
  running, the colour not to move wins), or at the cut-off (still running, no winner).
* The pass: `Position.Move` ACCEPTS the internal pass, `worker` records it and plays on (`pass_is_recorded`, evaluated
  by the kernel); the rule book has no such move, hence the hypothesis.  A finished OPENING is played on (the loop tests
  `GameOver` only after a move): the "still running" clauses therefore speak about non-empty records.
-/
namespace C04
open Tak Tak.CmdSelfplay
open _root_.Spec (abs decode outcome)

/-- **a recorded game is a game of Tak, and it ended as the rule book says.**  `hok`: no recorded move is the pass and
the 64-piece limit holds along the record (`MovesOK`, the side conditions of C01). -/
theorem game_by_the_rule_book {σ : Type} (basis : Array W) (c : Config) (P1 P2 : Player σ) (sp : CmdSelfplay.Spec) (r : Result)
    (h : playGame basis c P1 P2 sp = .ok r) (hwf : WF basis sp.opening) (hok : MovesOK basis sp.opening r.moves) :
    stepAll (abs sp.opening) (r.moves.map decode) = some (abs r.position) ∧ WF basis r.position ∧
    (∀ k s', 0 < k → k < r.moves.length → stepAll (abs sp.opening) ((r.moves.map decode).take k) = some s' →
      (outcome s').over = false) ∧
    ((r.moves ≠ [] ∧ (outcome (abs r.position)).over = true ∧ r.winner = (outcome (abs r.position)).winner) ∨
     (c.gameTime ≠ 0 ∧ r.winner = (abs r.position).toMove.flip ∧ (r.moves ≠ [] → (outcome (abs r.position)).over = false)) ∨
     (r.moves.length = c.cutoff.toNat ∧ r.winner = .none ∧ (r.moves ≠ [] → (outcome (abs r.position)).over = false))) := by
  unfold playGame at h
  split at h
  · cases h
  · split at h
    · cases h
    · obtain ⟨added, h1, h2, h3⟩ := gameLoop_ends basis P1 P2 _ sp _ _ _ _ _ _ _ r h
      simp only [List.nil_append] at h1
      subst h1
      have href := applyAll_refines C01.analyzeTotal r.moves hwf hok
      rw [← applyAll_eq, h2] at href
      simp only at href
      obtain ⟨hstep, hwfq⟩ := href
      -- the final position, when at least one move was played
      have hfin : r.moves ≠ [] → r.position.gameOver =
          ((outcome (abs r.position)).over, (outcome (abs r.position)).winner) := fun hne =>
        C02.gameOver_refines r.position (Search.roadWF_of_wf basis _ hwfq (applyAll_analyzed basis r.moves _ _ hne h2))
      -- "still running" at the end
      have hend : AllRunning basis sp.opening r.moves → r.moves ≠ [] → (outcome (abs r.position)).over = false := by
        intro hrun hne
        have hlen : 0 < r.moves.length := List.length_pos_iff.mpr hne
        apply running_prefix basis r.moves sp.opening hwf hok hrun r.moves.length _ hlen (Nat.le_refl _)
        rw [List.take_of_length_le (by simp)]
        exact hstep
      refine ⟨hstep, hwfq, ?_, ?_⟩
      · intro k s' hk hlt hs'
        cases h3 with
        | rules init last hadd hrun hover hwin =>
          have hok' : MovesOK basis sp.opening init := movesOK_left basis init [last] _ (hadd ▸ hok)
          have hle : k ≤ init.length := by rw [hadd] at hlt; simp at hlt; omega
          apply running_prefix basis init sp.opening hwf hok' hrun k s' hk hle
          rw [hadd, List.map_append, List.take_append_of_le_length (by simpa using hle)] at hs'
          exact hs'
        | time _ hrun _ => exact running_prefix basis r.moves sp.opening hwf hok hrun k s' hk (Nat.le_of_lt hlt) hs'
        | cutoff _ hrun _ => exact running_prefix basis r.moves sp.opening hwf hok hrun k s' hk (Nat.le_of_lt hlt) hs'
      · cases h3 with
        | rules init last hadd hrun hover hwin =>
          have hne : r.moves ≠ [] := by rw [hadd]; simp
          have hg := hfin hne
          refine .inl ⟨hne, ?_, ?_⟩
          · rw [hg] at hover; exact hover
          · rw [hwin, hg]
        | time htc hrun hwin =>
          refine .inr (.inl ⟨?_, hwin, hend hrun⟩)
          intro h0
          simp [h0] at htc
        | cutoff hlen hrun hwin => exact .inr (.inr ⟨hlen, hwin, hend hrun⟩)

/-- the same with the side conditions a tournament can be checked for: at most 64 pieces in the game (every default game
up to 6×6) and no recorded move is the pass -/
theorem game_by_the_rule_book_budget {σ : Type} (basis : Array W) (c : Config) (P1 P2 : Player σ) (sp : CmdSelfplay.Spec) (r : Result)
    (h : playGame basis c P1 P2 sp = .ok r) (hwf : WF basis sp.opening) (hb : budget (abs sp.opening) ≤ 64)
    (hnp : ∀ m ∈ r.moves, m.type ≠ Facts.mtPass) :
    stepAll (abs sp.opening) (r.moves.map decode) = some (abs r.position) ∧
    ((r.moves ≠ [] ∧ (outcome (abs r.position)).over = true ∧ r.winner = (outcome (abs r.position)).winner) ∨
     (c.gameTime ≠ 0 ∧ r.winner = (abs r.position).toMove.flip ∧ (r.moves ≠ [] → (outcome (abs r.position)).over = false)) ∨
     (r.moves.length = c.cutoff.toNat ∧ r.winner = .none ∧ (r.moves ≠ [] → (outcome (abs r.position)).over = false))) :=
  have := game_by_the_rule_book basis c P1 P2 sp r h hwf (movesOK_of_budget C01.analyzeTotal r.moves hwf hb hnp)
  ⟨this.1, this.2.2.2⟩

/-- the hypotheses hold for the start position of `-size 3` (well-formed, 20 pieces) -/
example : WF (Array.replicate 64 0#64) exStart ∧ budget (abs exStart) ≤ 64 :=
  ⟨Tak.new_wf _ (cfg := { size := 3, pieces := 0, capstones := 0, blackWinsTies := false }) (by rfl), by decide⟩

/-- a player that always answers the internal pass -/
def passPlayer : Player Unit :=
  { client := true, newGame := fun _ => some (), move := fun _ _ _ _ => (.move ⟨0, 0, Facts.mtPass, 0#32⟩, (), 0) }

/-- **the pass is accepted and recorded** (observation): two players that always pass fill the record with `Cutoff`
passes; the game is "cut off" on the untouched board -/
theorem pass_is_recorded :
    (match playGame (Array.replicate 64 0#64) { cutoff := 4 } passPlayer passPlayer ⟨exStart, 0, 0, .white⟩ with
     | .ok r => r.moves.length == 4 && r.moves.all (fun m => m.type == Facts.mtPass) && r.winner == .none &&
                r.position.white == 0#64 && r.position.move == 4
     | .error _ => false) = true := by decide

end C04
