import TakVerif.Props.C05_moves
import TakVerif.Props.C05_rules
import TakVerif.Proofs.TakGameBisimMoves

/-! # `GetMove` / `AnalyzeAll` with a table on Tak: the moves behind the verdicts, by the rule book

`Props/C05_moves.lean` for the instance `Search.takGame basis ev sym`, with the hypotheses of `verdict_sound_tak`
(`Props/C05_tak.lean`): `root` a good position, every position the engine is used on a position of the game from `root`,
no hash collision among those positions in the property's sense (equal hashes ⇒ `Position.Equal`), an evaluator whose verdict
depends on game end and mover only (`EvaluateWinner`).  `HashMovesOK` is DERIVED from that no-collision hypothesis
(`Search.hashMovesOKOn_of_noCollision`: `Equal` positions of one game accept the same moves with `Equal` results,
`C06.equal_apply`).  Histories may mix `Analyze`, `AnalyzeAll` and `GetMove` calls.

* `getMove_verdict_tak`, `analyzeAll_verdict_tak` — in the terms of the bit-level game (`Search.Win` / `Search.Loss`).
* `getMove_verdict_rules`, `analyzeAll_verdict_rules` — in the terms of the RULE BOOK (`Spec.ruleGame`): when the inner
  `Analyze` reports a win, the move `GetMove` returns / the first move of every line `AnalyzeAll` lists is a step of
  `Spec.step` into a state from which the mover still has a forced win; a reported loss is a forced win of the other side;
  and an uncancelled call reports — and `GetMove` plays — every forced win that exists within the reported depth. -/
namespace C05
open Search Tak Spec.Game
open Spec (abs ruleGame decode)

/-- the domain of the table theorems for Tak: good positions of the game from `root` -/
theorem tak_domOK (basis : Array W) (ev : Pos → Int) (sym : Pos → List H) (hev : EvInside basis ev)
    (hevc : EvVerdictCongr ev) (root : Pos) (hroot : GoodPos basis root)
    (hcol : ∀ p q, InGame basis root p → InGame basis root q → p.hashOf = q.hashOf → p.equal q = true) :
    DomOK (takGame basis ev sym) (takS basis (fun q => TakD q ∧ InGame basis root q) none) IMt where
  inside := tak_evInside basis ev sym _ none (fun _ h => h.1) hev
  live := tak_live basis ev sym _ none (fun _ h => h.1)
  const := fun _ _ _ hp => takS_none_rank basis _ hp
  hash := takHashOK_dom (hashOKOn_of_noCollision basis ev sym hevc root hroot hcol)
  hashMoves := by
    intro p q hp hq
    exact hashMovesOKOn_of_noCollision basis ev sym hevc root hroot hcol p q
      ((takS_none_iff basis _ 0 p).mp hp) ((takS_none_iff basis _ 0 q).mp hq)

/-- **`GetMove` on Tak with a table** (bit-level terms): after any history of `Analyze` / `AnalyzeAll` / `GetMove` calls on
one engine starting new, over positions of the game from a good `root` without hash collision, in a precise configuration:
a win reported by the inner `Analyze` is a real forced win and the returned move (never the pass) is accepted by
`MovePreallocated` and leaves the opponent lost; a reported loss is real; uncancelled calls report and play every forced
win within the reported depth; the engine ends without pass hints. -/
theorem getMove_verdict_tak (basis : Array W) (ev : Pos → Int) (sym : Pos → List H) (hev : EvInside basis ev)
    (hevc : EvVerdictCongr ev) (root : Pos) (hroot : GoodPos basis root)
    (hcol : ∀ p q, InGame basis root p → InGame basis root q → p.hashOf = q.hashOf → p.equal q = true)
    {cfg : Search.Cfg} (hpr : Precise cfg.opts) (hw : 0 ≤ cfg.randomizeWindow)
    (h : Calls Pos Move) (hh : ∀ x ∈ h, OrderOK x.2.2 ∧ x.2.2.Monotone ∧ InGame basis root x.2.1)
    (p : Pos) (hp : InGame basis root p) (hov : p.gameOver.1 = false) {o : Oracle Move} (hord : OrderOK o)
    (s : Eng Move) (h1 : runEntries (takGame basis ev sym) cfg h (Eng.new (takGame basis ev sym) cfg) = .ok s)
    (m : Move) (s' : Eng Move) (h2 : getMove (takGame basis ev sym) cfg o p s = .ok (m, s')) :
    EngGood IMt s' ∧
    ∃ pv v st s1, analyze (takGame basis ev sym) cfg o p s = .ok ((pv, v, st), s1) ∧
      (v > Facts.winThreshold → Win (takGame basis ev sym) p ∧ m.type ≠ Facts.mtPass ∧
        ∃ c, p.apply basis m = .ok c ∧ Loss (takGame basis ev sym) c) ∧
      (v < -Facts.winThreshold → Loss (takGame basis ev sym) p) ∧
      (NoCancel o →
        (negamax (takGame basis ev sym) st.depth.toNat p > Facts.winThreshold →
          v > Facts.winThreshold ∧ m.type ≠ Facts.mtPass ∧
            ∃ c, p.apply basis m = .ok c ∧ Loss (takGame basis ev sym) c) ∧
        (negamax (takGame basis ev sym) st.depth.toNat p < -Facts.winThreshold → v < -Facts.winThreshold)) :=
  getMove_verdict_restr (takRestr basis ev sym _ none (domClosed_inGame basis root)) (takRestrOK basis ev sym _ none)
    (tak_domOK basis ev sym hev hevc root hroot hcol) hpr hw h
    (fun x hx => ⟨(hh x hx).1, (hh x hx).2.1,
      (takS_none_iff basis _ 0 x.2.1).mpr ⟨(goodPos_inGame basis hroot (hh x hx).2.2).1,
        (goodPos_inGame basis hroot (hh x hx).2.2).2, (hh x hx).2.2⟩⟩)
    p ((takS_none_iff basis _ 0 p).mpr ⟨(goodPos_inGame basis hroot hp).1, (goodPos_inGame basis hroot hp).2, hp⟩)
    hov hord s h1 m s' h2

/-- **`AnalyzeAll` on Tak with a table** (bit-level terms): the reported value and statistics are those of its `Analyze`
call; when a win is reported every listed line starts with a non-pass move that `MovePreallocated` accepts and that
leaves the opponent lost -/
theorem analyzeAll_verdict_tak (basis : Array W) (ev : Pos → Int) (sym : Pos → List H) (hev : EvInside basis ev)
    (hevc : EvVerdictCongr ev) (root : Pos) (hroot : GoodPos basis root)
    (hcol : ∀ p q, InGame basis root p → InGame basis root q → p.hashOf = q.hashOf → p.equal q = true)
    {cfg : Search.Cfg} (hpr : Precise cfg.opts) (hw : 0 ≤ cfg.randomizeWindow)
    (h : Calls Pos Move) (hh : ∀ x ∈ h, OrderOK x.2.2 ∧ x.2.2.Monotone ∧ InGame basis root x.2.1)
    (p : Pos) (hp : InGame basis root p) (hov : p.gameOver.1 = false) {o : Oracle Move} (hord : OrderOK o)
    (s : Eng Move) (h1 : runEntries (takGame basis ev sym) cfg h (Eng.new (takGame basis ev sym) cfg) = .ok s)
    (lines : List (List Move)) (v : Int) (st : Stats) (s' : Eng Move)
    (h2 : analyzeAll (takGame basis ev sym) cfg o p s = .ok ((lines, v, st), s')) :
    EngGood IMt s' ∧
    (∃ pv s1, analyze (takGame basis ev sym) cfg o p s = .ok ((pv, v, st), s1)) ∧
    (v > Facts.winThreshold → Win (takGame basis ev sym) p ∧
      ∀ l ∈ lines, ∃ m rest c, l = m :: rest ∧ m.type ≠ Facts.mtPass ∧ p.apply basis m = .ok c ∧
        Loss (takGame basis ev sym) c) ∧
    (v < -Facts.winThreshold → Loss (takGame basis ev sym) p) ∧
    (NoCancel o →
      (negamax (takGame basis ev sym) st.depth.toNat p > Facts.winThreshold → v > Facts.winThreshold) ∧
      (negamax (takGame basis ev sym) st.depth.toNat p < -Facts.winThreshold → v < -Facts.winThreshold)) :=
  analyzeAll_verdict_restr (takRestr basis ev sym _ none (domClosed_inGame basis root)) (takRestrOK basis ev sym _ none)
    (tak_domOK basis ev sym hev hevc root hroot hcol) hpr hw h
    (fun x hx => ⟨(hh x hx).1, (hh x hx).2.1,
      (takS_none_iff basis _ 0 x.2.1).mpr ⟨(goodPos_inGame basis hroot (hh x hx).2.2).1,
        (goodPos_inGame basis hroot (hh x hx).2.2).2, (hh x hx).2.2⟩⟩)
    p ((takS_none_iff basis _ 0 p).mpr ⟨(goodPos_inGame basis hroot hp).1, (goodPos_inGame basis hroot hp).2, hp⟩)
    hov hord s h1 lines v st s' h2

/-- a non-pass move that keeps a win in the engine's game is a step of the rule book into a state from which the
mover still has a forced win -/
theorem keeps_rules {basis : Array W} {ev : Pos → Int} {sym : Pos → List H} (hv : ∀ N, EvVerdict basis ev N)
    {p c : Pos} {m : Move} (hp : GoodPos basis p) (hnp : m.type ≠ Facts.mtPass) (hap : p.apply basis m = .ok c)
    (hl : Loss (takGame basis ev sym) c) :
    ∃ s', Spec.step (abs p) (decode m) = some s' ∧ PlainWin ruleGame p.toMove s' := by
  obtain ⟨hgc, hst, htm, _⟩ := step_of_apply hp hnp hap
  refine ⟨abs c, hst, ?_⟩
  have := (loss_iff_rules basis ev sym hv c (goodPos_takOK hgc)).mp hl
  rw [htm, toMove_flip_flip] at this
  exact this

/-- **the move `GetMove` plays, by the rule book** (hypotheses of `getMove_verdict_tak` + an evaluator that gives the
verdict of finished games at every ply: `EvaluateWinner`) -/
theorem getMove_verdict_rules (basis : Array W) (ev : Pos → Int) (sym : Pos → List H) (hev : EvInside basis ev)
    (hevc : EvVerdictCongr ev) (hv : ∀ N, EvVerdict basis ev N) (root : Pos) (hroot : GoodPos basis root)
    (hcol : ∀ p q, InGame basis root p → InGame basis root q → p.hashOf = q.hashOf → p.equal q = true)
    {cfg : Search.Cfg} (hpr : Precise cfg.opts) (hw : 0 ≤ cfg.randomizeWindow)
    (h : Calls Pos Move) (hh : ∀ x ∈ h, OrderOK x.2.2 ∧ x.2.2.Monotone ∧ InGame basis root x.2.1)
    (p : Pos) (hp : InGame basis root p) (hov : p.gameOver.1 = false) {o : Oracle Move} (hord : OrderOK o)
    (s : Eng Move) (h1 : runEntries (takGame basis ev sym) cfg h (Eng.new (takGame basis ev sym) cfg) = .ok s)
    (m : Move) (s' : Eng Move) (h2 : getMove (takGame basis ev sym) cfg o p s = .ok (m, s')) :
    ∃ pv v st s1, analyze (takGame basis ev sym) cfg o p s = .ok ((pv, v, st), s1) ∧
      (v > Facts.winThreshold →
        ∃ t, Spec.step (abs p) (decode m) = some t ∧ PlainWin ruleGame p.toMove t) ∧
      (v < -Facts.winThreshold → PlainWin ruleGame p.toMove.flip (abs p)) ∧
      (NoCancel o →
        (WinIn ruleGame p.toMove st.depth.toNat (abs p) →
          v > Facts.winThreshold ∧ ∃ t, Spec.step (abs p) (decode m) = some t ∧ PlainWin ruleGame p.toMove t) ∧
        (WinIn ruleGame p.toMove.flip st.depth.toNat (abs p) → v < -Facts.winThreshold)) := by
  obtain ⟨_, pv, v, st, s1, ha, hwin, hloss, hcomp⟩ :=
    getMove_verdict_tak basis ev sym hev hevc root hroot hcol hpr hw h hh p hp hov hord s h1 m s' h2
  have hg := goodPos_inGame basis hroot hp
  have hr := negamax_verdict_rules basis ev sym _ (hv _) p hg.1 hg.2.2 st.depth.toNat (Int.le_refl _)
  refine ⟨pv, v, st, s1, ha, ?_, ?_, ?_⟩
  · intro hvw
    obtain ⟨_, hnp, c, hap, hl⟩ := hwin hvw
    exact keeps_rules hv hg hnp hap hl
  · intro hvl
    exact (loss_iff_rules basis ev sym hv p (goodPos_takOK hg)).mp (hloss hvl)
  · intro hnc
    obtain ⟨h5, h6⟩ := hcomp hnc
    refine ⟨?_, fun w => h6 (hr.2.1.mpr w)⟩
    intro w
    obtain ⟨h7, hnp, c, hap, hl⟩ := h5 (hr.1.mpr w)
    exact ⟨h7, keeps_rules hv hg hnp hap hl⟩

/-- **the lines `AnalyzeAll` lists, by the rule book** -/
theorem analyzeAll_verdict_rules (basis : Array W) (ev : Pos → Int) (sym : Pos → List H) (hev : EvInside basis ev)
    (hevc : EvVerdictCongr ev) (hv : ∀ N, EvVerdict basis ev N) (root : Pos) (hroot : GoodPos basis root)
    (hcol : ∀ p q, InGame basis root p → InGame basis root q → p.hashOf = q.hashOf → p.equal q = true)
    {cfg : Search.Cfg} (hpr : Precise cfg.opts) (hw : 0 ≤ cfg.randomizeWindow)
    (h : Calls Pos Move) (hh : ∀ x ∈ h, OrderOK x.2.2 ∧ x.2.2.Monotone ∧ InGame basis root x.2.1)
    (p : Pos) (hp : InGame basis root p) (hov : p.gameOver.1 = false) {o : Oracle Move} (hord : OrderOK o)
    (s : Eng Move) (h1 : runEntries (takGame basis ev sym) cfg h (Eng.new (takGame basis ev sym) cfg) = .ok s)
    (lines : List (List Move)) (v : Int) (st : Stats) (s' : Eng Move)
    (h2 : analyzeAll (takGame basis ev sym) cfg o p s = .ok ((lines, v, st), s')) :
    (v > Facts.winThreshold → PlainWin ruleGame p.toMove (abs p) ∧
      ∀ l ∈ lines, ∃ m rest t, l = m :: rest ∧ Spec.step (abs p) (decode m) = some t ∧
        PlainWin ruleGame p.toMove t) ∧
    (v < -Facts.winThreshold → PlainWin ruleGame p.toMove.flip (abs p)) ∧
    (NoCancel o →
      (WinIn ruleGame p.toMove st.depth.toNat (abs p) → v > Facts.winThreshold) ∧
      (WinIn ruleGame p.toMove.flip st.depth.toNat (abs p) → v < -Facts.winThreshold)) := by
  obtain ⟨_, _, hwin, hloss, hcomp⟩ :=
    analyzeAll_verdict_tak basis ev sym hev hevc root hroot hcol hpr hw h hh p hp hov hord s h1 lines v st s' h2
  have hg := goodPos_inGame basis hroot hp
  have hr := negamax_verdict_rules basis ev sym _ (hv _) p hg.1 hg.2.2 st.depth.toNat (Int.le_refl _)
  refine ⟨?_, ?_, ?_⟩
  · intro hvw
    obtain ⟨hwp, hl⟩ := hwin hvw
    refine ⟨(win_iff_rules basis ev sym hv p (goodPos_takOK hg)).mp hwp, ?_⟩
    intro l hmem
    obtain ⟨m, rest, c, e, hnp, hap, hlc⟩ := hl l hmem
    obtain ⟨t, hst, hpw⟩ := keeps_rules hv hg hnp hap hlc
    exact ⟨m, rest, t, e, hst, hpw⟩
  · intro hvl
    exact (loss_iff_rules basis ev sym hv p (goodPos_takOK hg)).mp (hloss hvl)
  · intro hnc
    obtain ⟨h5, h6⟩ := hcomp hnc
    exact ⟨fun w => h5 (hr.1.mpr w), fun w => h6 (hr.2.1.mpr w)⟩

/-! ### a concrete 3×3 instance (`C05.ExTak`): the hypotheses other than the no-collision hypothesis itself, and runs -/

/-- root = the 3×3 start position; `mid` (after a1 c3 b3 b1, White to move wins by a3) is a position of that game -/
example : EvInside ExTak.basis evalWinner ∧ EvVerdictCongr evalWinner ∧ (∀ N, EvVerdict ExTak.basis evalWinner N) ∧
    GoodPos ExTak.basis ExTak.start ∧ InGame ExTak.basis ExTak.start ExTak.mid ∧ ExTak.mid.gameOver.1 = false ∧
    Precise ExTak.cfg.opts ∧ 0 ≤ ({ ExTak.cfg with tableEntries := some 16 } : Search.Cfg).randomizeWindow :=
  ⟨evInside_winner _, evVerdictCongr_winner, evVerdict_winner _,
   goodPos_new ExTak.basis 3 false ExTak.start (by decide) ExTak.start_ok,
   inGame_applyAll ExTak.basis (goodPos_new ExTak.basis 3 false ExTak.start (by decide) ExTak.start_ok) ExTak.moves
     ExTak.start ExTak.mid .refl (by decide) ExTak.mid_ok,
   by decide +kernel, ⟨rfl, rfl, rfl, rfl⟩, by decide⟩

/-- on a 16-entry table, after an `Analyze` of the start position and an `AnalyzeAll` of `mid`, the model's `GetMove` on
`mid` returns the winning placement a3, and `AnalyzeAll` of `mid` on a new engine lists exactly that line with the
value `WinBase` -/
example :
    (match runEntries (takGame ExTak.basis evalWinner) { ExTak.cfg with tableEntries := some 16 }
        [(.analyze, ExTak.start, Oracle.quiet), (.analyzeAll, ExTak.mid, Oracle.quiet)]
        (Eng.new (takGame ExTak.basis evalWinner) { ExTak.cfg with tableEntries := some 16 }) with
      | .ok s =>
        (match getMove (takGame ExTak.basis evalWinner) { ExTak.cfg with tableEntries := some 16 } Oracle.quiet
            ExTak.mid s with
          | .ok (m, _) => some m
          | .error _ => none)
      | .error _ => none) = some ⟨0, 2, Facts.mtPlaceFlat, 0⟩ ∧
    (match analyzeAll (takGame ExTak.basis evalWinner) { ExTak.cfg with tableEntries := some 16 } Oracle.quiet ExTak.mid
        (Eng.new (takGame ExTak.basis evalWinner) { ExTak.cfg with tableEntries := some 16 }) with
      | .ok ((lines, v, _), _) => some (lines, v)
      | .error _ => none) = some ([[⟨0, 2, Facts.mtPlaceFlat, 0⟩]], Facts.winBase) :=
  ⟨by decide +kernel, by decide +kernel⟩

end C05
