import TakVerif.Impl.ServerMove
import TakVerif.Spec.Notation
namespace C11
theorem placeholder : True := trivial
end C11
