import TakVerif.Proofs.MoveRT
import TakVerif.Proofs.ServerRT

/-! C11 — the three move notations round-trip and agree.

Models: `Tak.PTN.parseMove / formatMove` (`ptn/move.go`), `Tak.Server.parseServer / formatServer`
(`playtak/move.go`), byte for byte.  Domain: `Notation.LegalShape size m` — every move value that can
be legal on a `size`×`size` board, 3 ≤ size ≤ 8: a placement (flat, standing, capstone) on the board with
an empty `Slides` word, or a slide from a square of the board whose drops are each 1..8, sum to at most
`size` and are at most as many as there are squares up to the edge.  All proofs are structural (no
enumeration): they hold for every such move at once.  Equality is equality of the `Move` value
(all four fields), which is stronger than `Move.Equal`. -/
namespace C11
open Tak Go Notation

/-- short PTN (`FormatMove`): carry count omitted when 1, drop list omitted for a single drop, `F` implicit -/
theorem ptn_short_rt (size : Nat) (m : Move) (h : LegalShape size m) :
    PTN.parseMove (PTN.formatMove m false) = .ok m := by
  have := PTN.ptn_rt size m h false [] (by intro b hb; cases hb)
  simpa using this

/-- long PTN (`FormatMoveLong`): everything spelled out -/
theorem ptn_long_rt (size : Nat) (m : Move) (h : LegalShape size m) :
    PTN.parseMove (PTN.formatMove m true) = .ok m := by
  have := PTN.ptn_rt size m h true [] (by intro b hb; cases hb)
  simpa using this

/-- playtak wire form (`FormatServer` / `ParseServer`): origin square, end square, drop list -/
theorem server_rt (size : Nat) (m : Move) (h : LegalShape size m) :
    Server.parseServer (Server.formatServer m) = .ok m :=
  Server.server_rt size m h

/-- The notations denote the same move: a PTN spelling (short or long) of `m` and the wire spelling of
`m'` parse to the same value exactly when `m = m'` (likewise short against long).  In particular the
three spellings of one move are read as one move, and spellings of different moves are never confused. -/
theorem notations_agree (size size' : Nat) (m m' : Move) (h : LegalShape size m) (h' : LegalShape size' m') :
    (∀ long, PTN.parseMove (PTN.formatMove m long) = Server.parseServer (Server.formatServer m') ↔ m = m') ∧
    (PTN.parseMove (PTN.formatMove m false) = PTN.parseMove (PTN.formatMove m' true) ↔ m = m') := by
  refine ⟨fun long => ?_, ?_⟩
  · rw [server_rt size' m' h']
    cases long
    · rw [ptn_short_rt size m h]
      exact ⟨fun e => by cases e; rfl, fun e => by rw [e]⟩
    · rw [ptn_long_rt size m h]
      exact ⟨fun e => by cases e; rfl, fun e => by rw [e]⟩
  · rw [ptn_short_rt size m h, ptn_long_rt size' m' h']
    exact ⟨fun e => by cases e; rfl, fun e => by rw [e]⟩

/-- Annotation suffixes never change the parsed move: any string over `! ? ' *`, of any length, appended
to either PTN spelling. -/
theorem annotations_ignored (size : Nat) (m : Move) (h : LegalShape size m) (long : Bool) (suffix : Bytes)
    (hsuf : ∀ b ∈ suffix, b ∈ lit "!?'*") :
    PTN.parseMove (PTN.formatMove m long ++ suffix) = .ok m := by
  apply PTN.ptn_rt size m h long suffix
  intro b hb
  have hl : lit "!?'*" = [33, 63, 39, 42] := rfl
  have := hsuf b hb
  rw [hl] at this
  simp only [List.mem_cons, List.mem_nil_iff, or_false] at this
  rcases this with rfl | rfl | rfl | rfl <;> rfl

/-! Non-vacuity: concrete members of the domain (a placement, a single-stone slide whose short form
elides both the carry and the drop, a full-carry slide on 8×8 that reaches the far edge), and a
non-member (too many drops for the distance to the edge). -/
example : LegalShape 5 ⟨4, 0, Facts.mtPlaceCapstone, 0#32⟩ := by decide
example : LegalShape 3 ⟨1, 1, Facts.mtSlideLeft, 0x1#32⟩ := by decide
example : LegalShape 8 ⟨0, 3, Facts.mtSlideRight, 0x1111112#32⟩ := by decide
example : ¬ LegalShape 5 ⟨3, 0, Facts.mtSlideRight, 0x11#32⟩ := by decide
example : PTN.formatMove ⟨1, 1, Facts.mtSlideLeft, 0x1#32⟩ false = lit "b2<" := rfl
example : PTN.formatMove ⟨1, 1, Facts.mtSlideLeft, 0x1#32⟩ true = lit "1b2<1" := rfl
example : Server.formatServer ⟨0, 3, Facts.mtSlideRight, 0x1111112#32⟩ = lit "M A4 H4 2 1 1 1 1 1 1" := rfl

end C11
