import TakVerif.Props.C05
import TakVerif.Proofs.CmdAnalyze
import TakVerif.Proofs.CmdCorpus
import TakVerif.Proofs.CmdAnalyzeSound

/-!
# C05 at its consumers: the minimax analyzer of `taktician analyze` and `taktician gencorpus -analysis minimax`

Both turn the value `MinimaxAI.Analyze` reports into a verdict through `WinThreshold`.

* `corpus_minimax_label_table` — the label of a corpus entry as a function of the engine's value `v`: `+1` iff
  `v > WinThreshold`, `-1` iff `v < -WinThreshold`, `+0.5` for every other non-zero value, `0` for `0`; and
  (`corpus_minimax_heuristic_sign_lost`) heuristic values of opposite sign get the SAME label `+0.5` — an oddity of
  the labelling, not of a listed property (no verdict is involved).
* `corpus_minimax_worker_is_history` — a worker's calls are ONE history of `MinimaxAI.Analyze` calls on one engine in
  the sense of `C05.verdict_sound` (`Search.runCalls`): the entries are the labels of the values that history reports.
  Hence (`corpus_minimax_label_sound_of_precise`) with a value-preserving configuration every `+1` / `-1` label would
  be a real forced win / loss whatever the worker labelled before — but (`corpus_minimaxCfg_not_precise`) gencorpus
  runs the default configuration (null-move pruning, slide reduction), for which C05 claims nothing; its labels are
  compared with exhaustive search of the first plies on every run (generator `C05cmd`).
* `analyze_minimax_value_sound` — `taktician analyze -precise`, with or without `-all`: the printed `value=` of every
  `AI analysis:` block is a real forced win of the position the block is about when above `WinThreshold`, a real forced
  loss when below `-WinThreshold`.  Under `-all` ONE engine per colour serves all positions of that colour, and every
  block is an `AnalyzeAll` (= `Analyze` + zero-window searches of the root's children that also write the table);
  `analyzeAll_sound` (new engine theorem) shows that `AnalyzeAll` keeps the table sound, so such histories are covered
  like the histories of `Analyze` calls of `C05.verdict_sound`.
* `analyze_minimax_fresh_engine` — without `-all` the block is `AnalyzeAll` on an engine newly built for the board size. -/
namespace C05
open Search Tak

section corpus
open Tak.CmdCorpus

/-- **the label as a function of the reported value** -/
theorem corpus_minimax_label_table (v : Int) :
    (minimaxLabel v = .win ↔ v > Facts.winThreshold) ∧
    (minimaxLabel v = .loss ↔ v < -Facts.winThreshold) ∧
    (minimaxLabel v = .half ↔ v ≠ 0 ∧ -Facts.winThreshold ≤ v ∧ v ≤ Facts.winThreshold) ∧
    (minimaxLabel v = .zero ↔ v = 0) := by
  unfold minimaxLabel
  have hT : Facts.winThreshold = 536870912 := rfl
  rw [hT]
  by_cases h1 : v > 536870912
  · simp only [h1, if_true]
    refine ⟨by simp, by simp <;> omega, by simp <;> omega, by simp <;> omega⟩
  · by_cases h2 : v < -536870912
    · simp only [h1, h2, if_false, if_true]
      refine ⟨by simp <;> omega, by simp, by simp <;> omega, by simp <;> omega⟩
    · by_cases h3 : v > 0
      · simp only [h1, h2, h3, if_false, if_true]
        refine ⟨by simp <;> omega, by simp <;> omega, by simp <;> omega, by simp <;> omega⟩
      · by_cases h4 : v < 0
        · simp only [h1, h2, h3, h4, if_false, if_true]
          refine ⟨by simp <;> omega, by simp <;> omega, by simp <;> omega, by simp <;> omega⟩
        · simp only [h1, h2, h3, h4, if_false]
          refine ⟨by simp <;> omega, by simp <;> omega, by simp <;> omega, by simp <;> omega⟩

/-- heuristic values of opposite sign are labelled alike -/
theorem corpus_minimax_heuristic_sign_lost (v : Int) (h1 : -Facts.winThreshold ≤ v) (h2 : v ≤ Facts.winThreshold) :
    minimaxLabel (-v) = minimaxLabel v := by
  have hT : Facts.winThreshold = 536870912 := rfl
  rw [hT] at h1 h2
  have key : ∀ w : Int, -536870912 ≤ w → w ≤ 536870912 → minimaxLabel w = if w = 0 then .zero else .half := by
    intro w hw1 hw2
    unfold minimaxLabel
    rw [hT]
    by_cases h0 : w = 0
    · subst h0; simp
    · have a1 : ¬ w > 536870912 := by omega
      have a2 : ¬ w < -536870912 := by omega
      simp only [a1, a2, if_false, h0]
      by_cases h3 : w > 0
      · simp [h3]
      · have h4 : w < 0 := by omega
        simp [h3, h4]
  rw [key v h1 h2, key (-v) (by omega) (by omega)]
  by_cases h0 : v = 0
  · simp [h0]
  · have : ¬ -v = 0 := by omega
    simp [h0, this]

example : minimaxLabel 250 = .half ∧ minimaxLabel (-250) = .half ∧ minimaxLabel (Facts.winThreshold + 1) = .win ∧
    minimaxLabel (-Facts.winThreshold - 1) = .loss ∧ minimaxLabel Facts.winThreshold = .half := by decide

variable {P M : Type} [DecidableEq M]

/-- the engine of a worker over the search model: `NewMinimax` and `Analyze` with configuration `cfg`, every call in
the environment `o` (move order, cancel flag) -/
def searchEngine (g : Game Pos Move) (cfg : Search.Cfg) (o : Oracle Move) : Engine (Eng Move) :=
  { new := fun _ => Eng.new g cfg
    analyze := fun e p =>
      match analyze g cfg o p e with
      | .error x => .error x
      | .ok ((pv, v, _), e') => .ok ((pv, v), e') }

/-- **a worker is one history**: the entries of a worker that received `ps` are the labels of the values that the
history "`Analyze` on `ps` one after the other, on one engine" (`Search.runCalls`) reports -/
theorem corpus_minimax_worker_is_history (g : Game Pos Move) (cfg : Search.Cfg) (o : Oracle Move) :
    ∀ (ps : List Pos) (s : Eng Move) (es : List Entry),
      minimaxWorkerFrom (searchEngine g cfg o) s ps = .ok es →
      ∃ rs s', runCalls g cfg (ps.map fun p => (p, o)) s = .ok (rs, s') ∧
        rs.map (·.1) = ps ∧ es.map (·.value) = rs.map (fun r => minimaxLabel r.2) := by
  intro ps
  induction ps with
  | nil => intro s es h; simp [minimaxWorkerFrom] at h; subst h; exact ⟨[], s, rfl, rfl, rfl⟩
  | cons p ps ih =>
    intro s es h
    unfold minimaxWorkerFrom minimaxStep at h
    simp only [searchEngine] at h
    cases ha : analyze g cfg o p s with
    | error x => rw [ha] at h; cases h
    | ok r =>
      obtain ⟨⟨pv, v, st⟩, s1⟩ := r
      rw [ha] at h
      dsimp only at h
      cases pv with
      | nil => cases h
      | cons m rest =>
        dsimp only at h
        cases hr : minimaxWorkerFrom (searchEngine g cfg o) s1 ps with
        | error x =>
          have : minimaxWorkerFrom { new := fun _ => Eng.new g cfg, analyze := (searchEngine g cfg o).analyze } s1 ps = .error x := hr
          simp only [searchEngine] at this
          rw [this] at h; cases h
        | ok es' =>
          have : minimaxWorkerFrom { new := fun _ => Eng.new g cfg, analyze := (searchEngine g cfg o).analyze } s1 ps = .ok es' := hr
          simp only [searchEngine] at this
          rw [this] at h
          cases h
          obtain ⟨rs, s', hrun, hpos, hlab⟩ := ih s1 es' hr
          refine ⟨(p, v) :: rs, s', ?_, by simp [hpos], by simp [hlab]⟩
          simp only [List.map_cons, runCalls, ha, hrun]

/-- **if the configuration preserved values, the labels would be sound** — for every history, i.e. whatever the worker
has labelled before: `+1` ⇒ the side to move has a forced win, `-1` ⇒ it is lost -/
theorem corpus_minimax_label_sound_of_precise {g : Game Pos Move} (hg : GameOK g) (he : EvalOK g) (hinj : HashInj g)
    {cfg : Search.Cfg} (hpr : Precise cfg.opts) {o : Oracle Move} (hord : OrderOK o)
    (size : Nat) (ps : List Pos) (es : List Entry)
    (h : minimaxWorker (searchEngine g cfg o) size ps = .ok es) :
    ∀ x ∈ ps.zip es, (x.2.value = .win → Win g x.1) ∧ (x.2.value = .loss → Loss g x.1) := by
  obtain ⟨rs, s', hrun, hpos, hlab⟩ := corpus_minimax_worker_is_history g cfg o ps (Eng.new g cfg) es h
  have hsound := verdict_sound hg he hinj.ok hpr (ps.map fun p => (p, o))
    (by intro x hx; simp only [List.mem_map] at hx; obtain ⟨_, _, rfl⟩ := hx; exact hord) _ hrun
  intro x hx
  -- x = (ps[i], es[i]); rs[i] = (ps[i], v) with es[i].value = minimaxLabel v
  obtain ⟨i, hi, hxi⟩ := List.mem_iff_getElem.mp hx
  have hlen_es : es.length = rs.length := by simpa using congrArg List.length hlab
  have hlen_ps : ps.length = rs.length := by simpa using (congrArg List.length hpos).symm
  have hi' : i < rs.length := by
    rw [List.length_zip] at hi; omega
  have hx1 : x.1 = rs[i].1 := by
    have := congrArg (fun l => l[i]?) hpos
    simp only [List.getElem?_map] at this
    rw [List.getElem?_eq_getElem hi', List.getElem?_eq_getElem (by omega)] at this
    simp only [Option.map_some, Option.some.injEq] at this
    rw [← hxi]; simp [this]
  have hx2 : x.2.value = minimaxLabel rs[i].2 := by
    have := congrArg (fun l => l[i]?) hlab
    simp only [List.getElem?_map] at this
    rw [List.getElem?_eq_getElem hi', List.getElem?_eq_getElem (by omega)] at this
    simp only [Option.map_some, Option.some.injEq] at this
    rw [← hxi]; simp [this]
  have hv := hsound rs[i] (List.getElem_mem hi')
  rw [hx1, hx2]
  exact ⟨fun h => hv.1 ((corpus_minimax_label_table _).1.mp h), fun h => hv.2 ((corpus_minimax_label_table _).2.1.mp h)⟩

/-- gencorpus itself runs the default configuration, which is not value-preserving (null move, slide reduction) -/
theorem corpus_minimaxCfg_not_precise : ¬ Precise minimaxCfg.opts := by
  intro h; have := h.nn; simp [minimaxCfg] at this

end corpus

section analyze
open Tak.CmdAnalyze

/-- **one `AnalyzeAll` keeps what `verdict_sound` needs** (new engine theorem, `Proofs/AnalyzeAllSound.lean`): in a
precise configuration, on an engine whose table is sound (a new engine's is, and `Analyze` / `AnalyzeAll` keep it so),
`AnalyzeAll` — `Analyze` followed by zero-width-window searches of the root's children, which also write the table —
leaves the table sound and reports a value that is a real forced win above `WinThreshold` and a real forced loss
below `-WinThreshold`.  So histories that mix `Analyze` and `AnalyzeAll` calls are covered like histories of `Analyze`. -/
theorem analyzeAll_sound {g : Game Pos Move} (hg : GameOK g) (he : EvalOK g) (hinj : HashInj g)
    {cfg : Search.Cfg} (hpr : Precise cfg.opts) {o : Oracle Move} (hord : OrderOK o) (p : Pos) (s : Eng Move)
    (hts : TableSound g s) :
    Sat (Search.analyzeAll g cfg o p s) (fun x => TableSound g x.2 ∧
      (x.1.2.1 > Facts.winThreshold → Win g p) ∧ (x.1.2.1 < -Facts.winThreshold → Loss g p)) :=
  Search.analyzeAll_sound hg he hinj hpr hord p s hts

/-- **`taktician analyze -precise` prints sound verdicts — with or without `-all`.**  Whatever the file and the
selection flags, the value of every `AI analysis:` block the command prints is a real forced win of the position the
block is about when it is above `WinThreshold`, and a real forced loss when below `-WinThreshold`.  Without `-all` the
engine is new; with `-all` ONE engine per colour serves all positions of that colour (a history of `AnalyzeAll` calls
on related positions), and the table stays sound along the way.
Hypotheses: the engines are the search model over the game `g` (`EnginesAre`: rules + the evaluator `BuildConfig`
installs; every call with move order / cancel flag `o`), C05's hypotheses on the game (`GameOK`, `EvalOK`,
`HashInj` = NoCollision), a move order that permutes (`OrderOK`), `-symmetry` off. -/
theorem analyze_minimax_value_sound (env : PTN.Env) (eng : Engines (Eng Move)) (g : Game Pos Move) (o : Oracle Move)
    (heng : EnginesAre eng g o) (hg : GameOK g) (he : EvalOK g) (hinj : HashInj g) (hord : OrderOK o)
    (f : Flags) (input : PTN.Bytes) (hp : f.precise = true) (hs : f.symmetry = false)
    (q : Pos) (pvs : List (List Move)) (val : Int)
    (hi : Item.analysis q pvs val ∈ (execute env eng f input).1) :
    (val > Facts.winThreshold → Win g q) ∧ (val < -Facts.winThreshold → Loss g q) :=
  execute_analysis_sound env heng hg he hinj hord f input hp hs _ hi

/-- without `-all` the block is `AnalyzeAll` on an engine newly built for the board size (so C05's theorems about a
fresh engine — `analyze_exact` without a table, `verdict_complete` — apply to the `Analyze` call it starts with) -/
theorem analyze_minimax_fresh_engine (env : PTN.Env) (eng : Engines (Eng Move)) (f : Flags) (input : PTN.Bytes)
    (hall : f.all = false) (q : Pos) (pvs : List (List Move)) (val : Int)
    (hi : Item.analysis q pvs val ∈ (execute env eng f input).1) :
    ∃ ai', eng.analyzeAll (minimaxCfg f) (eng.newMinimax q.size (minimaxCfg f)) q = .ok ((pvs, val), ai') :=
  execute_single_analysis env eng f input hall q pvs val hi

/-- the flags `-precise -sort=false -depth 3` give a precise configuration of depth 3 without sorting -/
example : Precise (minimaxCfg { precise := true, sort := false, depth := 3 }).opts ∧
    (minimaxCfg { precise := true, sort := false, depth := 3 }).depth = 3 ∧
    (minimaxCfg { precise := true, sort := false, depth := 3 }).opts.noSort = true ∧
    (minimaxCfg {}).depth = Facts.maxDepth ∧ ¬ Precise (minimaxCfg {}).opts := by
  refine ⟨minimaxCfg_precise _ rfl rfl, by decide, by decide, by decide, ?_⟩
  intro h; have := h.nn; simp [minimaxCfg] at this

end analyze

end C05
