import TakVerif.Props.C06
import TakVerif.Proofs.TakGamePN
import TakVerif.Proofs.TakGamePN3
import TakVerif.Proofs.TakGamePN4
import TakVerif.Proofs.Examples

/-! # C06 for the real game — the proof-number theorems applied to the bit-level Tak model

`Props/C06.lean` proves the verdicts of the solver model sound for an abstract game under standing
assumptions (`GameOK`: alternating play, fewer than 2³² moves per position).  Here they are discharged
for `takGame basis` (`Impl/PN.lean`: `moves = AllMoves`, `apply = MovePreallocated`, `over = GameOver`),
with the attacker `takProve` uses (the side to move at the root).  What is left are hypotheses about the
root position only (board size ≤ 8) and about the run (`proveState … = .ok st`, ghost flag down, verdict).

The assumption "fewer than 2³² moves in *every* position" is false for `takGame`: the position type has
malformed values (`cfg.size` is an arbitrary number, and `AllMoves` loops over `size × size` squares), so
the generic theorems were re-stated with the assumption restricted to the positions reachable from the root
(`GameOKFrom`, `Props/C06.lean`); play never changes `cfg`, so a root of size ≤ 8 is enough. -/
namespace C06
open Tak Tak.PN Spec.Game

/-- `takProve` (the model of `prove.New(cfg).Prove(ctx, pos)`) returns `readResult` of the final state
`proveState … = .ok st` the theorems below speak about -/
theorem takProve_ok (basis : Array W) (fuel : Nat) (cfg : PN.Cfg) (pos : Pos) (r : Result Move × Stats) :
    takProve basis fuel cfg pos = .ok r ↔
      ∃ st, proveState (takGame basis) pos.toMove fuel cfg pos = .ok st ∧ readResult st = r := by
  unfold takProve prove
  cases proveState (takGame basis) pos.toMove fuel cfg pos with
  | error e => simp
  | ok st => simp

/-- **'proven' is sound for Tak**: when the solver answers 'proven' for a position on a board of size ≤ 8,
the side to move there has a forced win in the bit-level game (moves of `AllMoves` that
`MovePreallocated` accepts, ended by `GameOver`). -/
theorem pn_proven_sound_tak (basis : Array W) (fuel : Nat) (cfg : PN.Cfg) (pos : Pos) (st : St Pos Move)
    (h8 : pos.cfg.size ≤ 8)
    (hrun : proveState (takGame basis) pos.toMove fuel cfg pos = .ok st) (hghost : st.anomaly = false)
    (hres : (readResult st).1.result = .proven) : PlainWin (takGame basis) pos.toMove pos :=
  pn_proven_sound_from (takGame basis) pos.toMove (takGame_okFrom basis pos h8) fuel cfg st rfl hrun hghost hres

/-- **'disproven' is sound for Tak**: the side to move at the root has no forced win (a draw, play
without end and a third occurrence of a position on the path count against it). -/
theorem pn_disproven_sound_tak (basis : Array W) (fuel : Nat) (cfg : PN.Cfg) (pos : Pos) (st : St Pos Move)
    (h8 : pos.cfg.size ≤ 8)
    (hrun : proveState (takGame basis) pos.toMove fuel cfg pos = .ok st) (hghost : st.anomaly = false)
    (hres : (readResult st).1.result = .disproven) : ¬ ForcedWin (takGame basis) pos.toMove pos :=
  pn_disproven_sound_from (takGame basis) pos.toMove (takGame_okFrom basis pos h8) fuel cfg st rfl hrun hghost hres

/-- **the move returned with 'proven' begins a win**: it is a move of `AllMoves`, `MovePreallocated`
accepts it, and the attacker still has a forced win in the position it leads to. -/
theorem pn_move_sound_tak (basis : Array W) (fuel : Nat) (cfg : PN.Cfg) (pos : Pos) (st : St Pos Move)
    (h8 : pos.cfg.size ≤ 8)
    (hrun : proveState (takGame basis) pos.toMove fuel cfg pos = .ok st) (hghost : st.anomaly = false)
    (hres : (readResult st).1.result = .proven) (m : Move) (hm : (readResult st).1.move = some m) :
    m ∈ pos.allMoves ∧ ∃ q, pos.apply basis m = .ok q ∧ PlainWin (takGame basis) pos.toMove q := by
  obtain ⟨h1, s', h2, h3⟩ :=
    pn_move_sound_from (takGame basis) pos.toMove (takGame_okFrom basis pos h8) fuel cfg st rfl hrun hghost hres m hm
  refine ⟨h1, s', ?_, h3⟩
  simp only [takGame] at h2
  split at h2
  · rename_i q hq; injection h2 with h2; subst h2; exact hq
  · cases h2

/-- **every number in the tree is sound for Tak**: for every node of the final tree, standing for
position `s` reached from the root along `h`: proof number 0 ⇒ forced win at `s`; disproof number 0 ⇒
(unless `MaxDepth` cut the tree) no forced win at `s` given the path. -/
theorem pn_numbers_sound_tak (basis : Array W) (fuel : Nat) (cfg : PN.Cfg) (pos : Pos) (st : St Pos Move)
    (h8 : pos.cfg.size ≤ 8)
    (hrun : proveState (takGame basis) pos.toMove fuel cfg pos = .ok st) (hghost : st.anomaly = false)
    {h : List Pos} {s : Pos} {n : Node Move} (hn : NodeAt (takGame basis) st.focus pos h s n) :
    (n.proof = 0 → PlainWin (takGame basis) pos.toMove s) ∧
    (st.depthLimited = false → n.disproof = 0 → ¬ Win (takGame basis) pos.toMove h s) :=
  pn_numbers_sound_from (takGame basis) pos.toMove (takGame_okFrom basis pos h8) fuel cfg st rfl hrun hghost hn

/-- **'proven' in the terms of the property, for Tak**: a forced win under the repetition rule (a third
occurrence of a position on the path, compared with `Position.Equal`, counts against the attacker).
The root is a position of C01's invariant with the 64-piece budget (`Tak.InvB`: what `New`, `FromSquares`
and `Move` maintain on default games up to 6×6) with analysed groups — the start position included.
Under these hypotheses `Position.Equal` is a bisimulation on the positions reachable from the root
(`takGame_equalIsBisimFrom`): it ignores reserves, ply counter, tie flag and stored groups, but among the
positions of one game these are determined by what it compares (pieces are conserved, the configuration
is fixed, groups are the analysed ones, and the rules read the counter only for its parity and for "still
in the opening", which the number of pieces taken from the reserves determines). -/
theorem pn_proven_forcedWin_tak (basis : Array W) (fuel : Nat) (cfg : PN.Cfg) (pos : Pos) (st : St Pos Move)
    (hinv : InvB basis pos) (hana : pos.analyze = some pos)
    (hrun : proveState (takGame basis) pos.toMove fuel cfg pos = .ok st) (hghost : st.anomaly = false)
    (hres : (readResult st).1.result = .proven) : ForcedWin (takGame basis) pos.toMove pos :=
  pn_proven_forcedWin_from (takGame basis) pos.toMove (takGame_okFrom basis pos hinv.1.size_le)
    (takGame_equalIsBisimFrom basis pos hinv hana) fuel cfg st rfl hrun hghost hres

/-- for such a root the two notions of forced win coincide -/
theorem plainWin_iff_forcedWin_tak (basis : Array W) (pos : Pos)
    (hinv : InvB basis pos) (hana : pos.analyze = some pos) (att : Color) :
    PlainWin (takGame basis) att pos ↔ ForcedWin (takGame basis) att pos :=
  ⟨plainWin_forcedWin_from (takGame basis) att (takGame_equalIsBisimFrom basis pos hinv hana),
   fun w => Win.plain (takGame basis) att w⟩

/-! ### the verdicts in terms of the rule book

`Spec.ruleGame` (`Spec/RuleGame.lean`) is Tak by the list-level rule book alone: legal moves of
`Spec.legalMoves`, `Spec.step`, `Spec.outcome`; same board and same mover = same position.  Through
`Spec.abs` the bit-level game and the rule-book game have the same forced wins (C01: moves, C02: end of the
game, C03: `AllMoves` lists exactly the legal moves, C08: `Equal`). -/

/-- **same plain forced wins in the engine's game and in the rule book's** -/
theorem plainWin_tak_iff_rules (basis : Array W) (pos : Pos) (hinv : InvB basis pos)
    (hana : pos.analyze = some pos) (att : Color) :
    PlainWin (takGame basis) att pos ↔ PlainWin Spec.ruleGame att (Spec.abs pos) :=
  ⟨plainWin_abs ⟨hinv, hana⟩, fun w => plainWin_of_abs w pos ⟨hinv, hana⟩ rfl⟩

/-- **same forced wins under the repetition rule** -/
theorem forcedWin_tak_iff_rules (basis : Array W) (pos : Pos) (hinv : InvB basis pos)
    (hana : pos.analyze = some pos) (att : Color) :
    ForcedWin (takGame basis) att pos ↔ ForcedWin Spec.ruleGame att (Spec.abs pos) :=
  ⟨fun w => win_abs (h := []) w (by simp) ⟨hinv, hana⟩,
   fun w => win_of_abs w [] pos (by simp) ⟨hinv, hana⟩ rfl rfl⟩

/-- **'proven' is sound by the rule book**: the side to move has a forced win in Tak as the rule book
defines it — also under the repetition rule. -/
theorem pn_proven_sound_rules (basis : Array W) (fuel : Nat) (cfg : PN.Cfg) (pos : Pos) (st : St Pos Move)
    (hinv : InvB basis pos) (hana : pos.analyze = some pos)
    (hrun : proveState (takGame basis) pos.toMove fuel cfg pos = .ok st) (hghost : st.anomaly = false)
    (hres : (readResult st).1.result = .proven) :
    PlainWin Spec.ruleGame pos.toMove (Spec.abs pos) ∧ ForcedWin Spec.ruleGame pos.toMove (Spec.abs pos) :=
  ⟨(plainWin_tak_iff_rules basis pos hinv hana _).mp
      (pn_proven_sound_tak basis fuel cfg pos st hinv.1.size_le hrun hghost hres),
   (forcedWin_tak_iff_rules basis pos hinv hana _).mp
      (pn_proven_forcedWin_tak basis fuel cfg pos st hinv hana hrun hghost hres)⟩

/-- **'disproven' is sound by the rule book**: the side to move has no forced win in Tak as the rule
book defines it (a draw, play without end and a third occurrence of a position count against it). -/
theorem pn_disproven_sound_rules (basis : Array W) (fuel : Nat) (cfg : PN.Cfg) (pos : Pos) (st : St Pos Move)
    (hinv : InvB basis pos) (hana : pos.analyze = some pos)
    (hrun : proveState (takGame basis) pos.toMove fuel cfg pos = .ok st) (hghost : st.anomaly = false)
    (hres : (readResult st).1.result = .disproven) : ¬ ForcedWin Spec.ruleGame pos.toMove (Spec.abs pos) :=
  fun w => pn_disproven_sound_tak basis fuel cfg pos st hinv.1.size_le hrun hghost hres
    ((forcedWin_tak_iff_rules basis pos hinv hana _).mpr w)

/-- **the move returned with 'proven' is legal by the rule book and keeps the win** -/
theorem pn_move_sound_rules (basis : Array W) (fuel : Nat) (cfg : PN.Cfg) (pos : Pos) (st : St Pos Move)
    (hinv : InvB basis pos) (hana : pos.analyze = some pos)
    (hrun : proveState (takGame basis) pos.toMove fuel cfg pos = .ok st) (hghost : st.anomaly = false)
    (hres : (readResult st).1.result = .proven) (m : Move) (hm : (readResult st).1.move = some m) :
    m ∈ Spec.legalMoves (Spec.abs pos) ∧
      ∃ s', Spec.step (Spec.abs pos) (Spec.decode m) = some s' ∧ PlainWin Spec.ruleGame pos.toMove s' := by
  obtain ⟨h1, q, h2, h3⟩ := pn_move_sound_tak basis fuel cfg pos st hinv.1.size_le hrun hghost hres m hm
  have hq := (succ_abs (basis := basis) ⟨hinv, hana⟩ ⟨m, h1, takGame_apply_some.mpr h2⟩).1
  have hnp := gen_not_pass hinv.1.size_le h1
  obtain ⟨_, hst⟩ := invB_step hinv hnp h2
  refine ⟨(mem_legalMoves_iff ⟨hinv, hana⟩ m).mpr ⟨h1, by rw [hst]; rfl⟩, Spec.abs q, hst, plainWin_abs hq h3⟩

/-! ### a concrete run: 3×3, White to move wins by road with c1 -/

/-- a3 (Black's stone, placed by White) a1 (White's stone, placed by Black) b1 c2: White threatens c1 -/
def ex3 : Pos := Ex.okOr ((Ex.okOr (Pos.new ⟨3, 0, 0, false⟩)).applyAll Ex.basis
  [⟨0,2,2,0⟩, ⟨0,0,2,0⟩, ⟨1,0,2,0⟩, ⟨2,1,2,0⟩])

def exCfg : PN.Cfg := { maxNodes := 0, preserveSolved := false, pn2 := false, maxDepth := 0 }

/-- the hypotheses of `pn_proven_sound_tak` and `pn_move_sound_tak` hold for a run of the model on `ex3`:
size 3, the run ends without error, ghost flag down, verdict 'proven', move c1 -/
example : ex3.cfg.size ≤ 8 ∧
    (match proveState (takGame Ex.basis) ex3.toMove 100 exCfg ex3 with
     | .ok st => !st.anomaly && (readResult st).1.result == .proven && (readResult st).1.move == some ⟨2,0,2,0⟩
     | .error _ => false) = true := ⟨by decide, by decide +kernel⟩

/-- the root hypotheses of `pn_proven_forcedWin_tak` and of the `_rules` theorems hold for `ex3` -/
example : InvB Ex.basis ex3 ∧ ex3.analyze = some ex3 :=
  ⟨⟨Pos.wfB_sound (by decide +kernel), by decide +kernel⟩, by decide +kernel⟩

/-- … and for every start position of a default game up to 6×6 -/
example (basis : Array W) (size : Nat) (hs : size ≤ 6) (p : Pos) (h : Pos.new ⟨size, 0, 0, false⟩ = .ok p) :
    InvB basis p ∧ p.analyze = some p :=
  ⟨(posFacts2_default basis size hs).new p h, new_analysed' h⟩

/-! ### a concrete run ending 'disproven': 3×3, Black to move cannot stop both b2 and a3 -/

/-- c2 c3 b1 c1 b3: White (b1, b3, c3) threatens b2 and a3 -/
def ex3d : Pos := Ex.okOr ((Ex.okOr (Pos.new ⟨3, 0, 0, false⟩)).applyAll Ex.basis
  [⟨2,1,2,0⟩, ⟨2,2,2,0⟩, ⟨1,0,2,0⟩, ⟨2,0,2,0⟩, ⟨1,2,2,0⟩])

/-- the hypotheses of `pn_disproven_sound_tak` / `pn_disproven_sound_rules` hold for a run of the model on
`ex3d` (82 nodes) -/
example : ex3d.cfg.size ≤ 8 ∧ InvB Ex.basis ex3d ∧ ex3d.analyze = some ex3d ∧ ex3d.toMove = .black ∧
    (match proveState (takGame Ex.basis) ex3d.toMove 200 exCfg ex3d with
     | .ok st => !st.anomaly && (readResult st).1.result == .disproven
     | .error _ => false) = true :=
  ⟨by decide, ⟨Pos.wfB_sound (by decide +kernel), by decide +kernel⟩, by decide +kernel, by decide, by decide +kernel⟩

end C06
