import TakVerif.Impl.TEI
import TakVerif.Generated.Funcs

/-! Tie #1 for C17: the hand-written budget rule the C17 theorems speak about is the function that `/verif/gen`
regenerates from `tei/server.go` on every run.  If `calcBudget` is edited in the repository, `Gen.calcBudget`
changes with it and this bridge (hence the property) has to be re-established. -/
namespace C17
open Tak

/-- on non-negative clocks the model's `calcBudget` is, value for value, the regenerated source function
(`Int.tdiv` = Go's truncating division; the `int64` range is the subject of `budget_no_overflow`) -/
theorem calcBudget_is_source (mt gt inc : Int) (h : 0 ≤ gt) :
    TEI.calcBudget mt gt inc = Gen.calcBudget mt gt inc := by
  unfold TEI.calcBudget Gen.calcBudget TEI.millisecond
  rw [Int.tdiv_eq_ediv_of_nonneg h]
  by_cases hg : gt = 0
  · subst hg
    by_cases hm : mt > 0 <;> simp [hm]
  · by_cases hb : gt / 5 + inc > gt - 1000000 <;> by_cases hm : mt > 0 <;>
      by_cases hl : mt < gt - 1000000 <;> by_cases hl2 : mt < gt / 5 + inc <;> simp [hg, hb, hm, hl, hl2]

example : TEI.calcBudget 5000000000 60000000000 1000000000 = Gen.calcBudget 5000000000 60000000000 1000000000 := by decide

end C17
