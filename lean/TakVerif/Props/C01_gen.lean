import TakVerif.Impl.Move
import TakVerif.Impl.Position
import TakVerif.Generated.Funcs
import TakVerif.Generated.FuncsTak

/-! Tie #1 for the slide word (`tak/slide.go`): the hand-written helpers used by the model of `MovePreallocated`
and `AllMoves` are, value for value, the functions `/verif/gen` regenerates from the source on every run.
(`Gen.precompute`, `Gen.grow`, `Gen.hash8`, `Gen.hash64` are used by the model directly.)
Second half: `MakePiece`, `Piece.Color/Kind/IsRoad`, `Color.Flip` of `tak/pieces.go`.  (`Slides.Len` and the small
`Move` methods are bridged in `Proofs/GenMove.lean` and restated with the properties that use them: C05, C14, C20.) -/
namespace C01
open Tak

/-- `Slides.Prepend` -/
theorem prepend_is_source (s : BitVec 32) (n : Nat) :
    Slides.prepend s n = Gen.slidesPrepend s (n : Int) := by
  unfold Slides.prepend Gen.slidesPrepend
  rw [BitVec.ofInt_natCast]

/-- one step of the model's nibble iteration is `SlideIterator.{Ok, Elem, Next}` of the source -/
theorem slideElems_is_source (n : Nat) (s : BitVec 32) :
    slideElems (n + 1) s =
      if Gen.slideIterOk s then (Gen.slideIterElem s).toNat :: slideElems n (Gen.slideIterNext s) else [] := by
  unfold Gen.slideIterOk Gen.slideIterElem Gen.slideIterNext
  by_cases h : s = 0#32
  · subst h; simp [slideElems]
  · have hb : (s != 0#32) = true := by simpa using h
    have hb' : (s == 0#32) = false := by simpa using h
    simp [slideElems, hb, hb']

/-- `Slides.Empty` / `Slides.First` agree with the model's reading of the word -/
theorem first_is_source (s : BitVec 32) (h : s ≠ 0#32) :
    (Slides.elems s).head? = some (Gen.slidesFirst s).toNat := by
  unfold Slides.elems
  rw [slideElems_is_source]
  have hb : Gen.slideIterOk s = true := by unfold Gen.slideIterOk; simpa using h
  simp [hb, Gen.slideIterElem, Gen.slidesFirst]

example : Slides.elems 0x121#32 = [1, 2, 1] ∧ Gen.slidesFirst 0x121#32 = 1 ∧ Gen.slidesEmpty 0#32 = true := by decide

/-! ### `tak/pieces.go`: `MakePiece`, `Piece.Color`, `Piece.Kind`, `Piece.IsRoad`, `Color.Flip` -/

def colorByte (c : Color) : BitVec 8 := BitVec.ofNat 8 c.code
def kindByte (k : Kind) : BitVec 8 := BitVec.ofNat 8 k.code
def pieceByte (p : Piece) : BitVec 8 := BitVec.ofNat 8 p.code

/-- the model's piece code is `MakePiece(color, kind)` of the source -/
theorem makePiece_is_source (p : Piece) : pieceByte p = Gen.makePiece (colorByte p.color) (kindByte p.kind) := by
  obtain ⟨c, k⟩ := p; cases c <;> cases k <;> decide

/-- `Piece.Color`, `Piece.Kind`, `Piece.IsRoad` of the source invert it, as the model's decoding assumes -/
theorem pieceParts_is_source (p : Piece) :
    Gen.pieceColor (pieceByte p) = colorByte p.color ∧ Gen.pieceKind (pieceByte p) = kindByte p.kind ∧
    Gen.pieceIsRoad (pieceByte p) = p.isRoad := by
  obtain ⟨c, k⟩ := p; cases c <;> cases k <;> decide

/-- `Piece.ofCode` (the model's reading of a byte) accepts only bytes whose `Color()`/`Kind()` parts are the piece's -/
def ofCodeOk (n : Nat) : Bool :=
  match Piece.ofCode n with
  | some p => Gen.pieceColor (BitVec.ofNat 8 n) == colorByte p.color && Gen.pieceKind (BitVec.ofNat 8 n) == kindByte p.kind
  | none => true

set_option maxRecDepth 8192 in
theorem ofCode_is_source (n : Nat) (h : n < 256) : ofCodeOk n = true := by
  have : ∀ k : Fin 256, ofCodeOk k.val = true := by decide
  exact this ⟨n, h⟩

/-- `Color.Flip` never panics on the three colours and is the model's `flip` -/
theorem colorFlip_is_source (c : Color) : Gen.colorFlip (colorByte c) = some (colorByte c.flip) := by
  cases c <;> decide

example : Gen.colorFlip 1#8 = none ∧ Gen.makePiece 128#8 3#8 = 131#8 := by decide

end C01
