import TakVerif.Impl.Move
import TakVerif.Generated.Funcs

/-! Tie #1 for the slide word (`tak/slide.go`): the hand-written helpers used by the model of `MovePreallocated`
and `AllMoves` are, value for value, the functions `/verif/gen` regenerates from the source on every run.
(`Gen.precompute`, `Gen.grow`, `Gen.hash8`, `Gen.hash64` are used by the model directly.) -/
namespace C01
open Tak

/-- `Slides.Prepend` -/
theorem prepend_is_source (s : BitVec 32) (n : Nat) :
    Slides.prepend s n = Gen.slidesPrepend s (n : Int) := by
  unfold Slides.prepend Gen.slidesPrepend
  rw [BitVec.ofInt_natCast]

/-- one step of the model's nibble iteration is `SlideIterator.{Ok, Elem, Next}` of the source -/
theorem slideElems_is_source (n : Nat) (s : BitVec 32) :
    slideElems (n + 1) s =
      if Gen.slideIterOk s then (Gen.slideIterElem s).toNat :: slideElems n (Gen.slideIterNext s) else [] := by
  unfold Gen.slideIterOk Gen.slideIterElem Gen.slideIterNext
  by_cases h : s = 0#32
  · subst h; simp [slideElems]
  · have hb : (s != 0#32) = true := by simpa using h
    have hb' : (s == 0#32) = false := by simpa using h
    simp [slideElems, hb, hb']

/-- `Slides.Empty` / `Slides.First` agree with the model's reading of the word -/
theorem first_is_source (s : BitVec 32) (h : s ≠ 0#32) :
    (Slides.elems s).head? = some (Gen.slidesFirst s).toNat := by
  unfold Slides.elems
  rw [slideElems_is_source]
  have hb : Gen.slideIterOk s = true := by unfold Gen.slideIterOk; simpa using h
  simp [hb, Gen.slideIterElem, Gen.slidesFirst]

example : Slides.elems 0x121#32 = [1, 2, 1] ∧ Gen.slidesFirst 0x121#32 = 1 ∧ Gen.slidesEmpty 0#32 = true := by decide

end C01
