import TakVerif.Impl.Minimax
namespace C05
open Search
/-- placeholder until the real theorems land -/
theorem maxOver_nil {α : Type} (f : α → Int) (lo : Int) : maxOver f lo [] = lo := rfl
end C05
