import TakVerif.Proofs.SearchToy

/-! # C05 — precise search = exhaustive negamax

Theorems about the model of `ai/minimax.go` (`Impl/Minimax.lean`, `Impl/MoveGen.lean`), generic in the game
(`Search.Game`: the calls the search makes on a position).  Reading guide:

* `Search.negamax g d p` is plain depth-limited negamax with `g.eval` at the horizon and at finished games.
* `Search.Precise cfg`: `MakePrecise` (no null move, no slide reduction, no multi-cut) and no symmetry
  de-duplication.  `s.hasTable = false`: engine built with `TableMem < 0`.
* `Search.NoCancel o`: the cancel flag stays clear.  `Search.OrderOK o`: the history sort (`sort.Sort`,
  not modelled) is an *arbitrary* function that keeps the set of generated moves — so every statement
  holds for every move order, with and without `NoSort`.
* `Search.GameOK g`: three facts about the rules (every accepted move leads to a position some generated
  move reaches — C03; `Move.Equal` moves act alike; no generated move `Equal`s the zero move).
  `Search.Live g d p`: unfinished positions within `d` plies have a legal move.  `Search.EvalBounded g`:
  evaluations lie in `[MinEval, MaxEval]` (C18).
* `Sat x Q`: if the model call returns (does not hit a modelled Go panic), the result satisfies `Q`.

The stale PV buffers, the response-move hints, `stack[ply].m` and all statistics are arbitrary in these
statements (they are part of the universally quantified engine state `s`). -/
namespace C05
open Search

variable {P M : Type} [DecidableEq M]

/-- **PVS contract** (`pvSearch` with `n` free frames).  With `α < β` the returned value `r` relates to the
negamax value `v` of the position at that depth as a fail-soft alpha-beta result must: `v ≤ α → r ≤ α`,
`α < v < β → r = v`, `β ≤ v → β ≤ r`; and an exact result comes with a PV whose first move is legal and whose
child has value `-r`. -/
theorem pvs_spec {g : Game P M} (hg : GameOK g) {cfg : SOpts} (hpr : Precise cfg) {o : Oracle M}
    (hnc : NoCancel o) (hord : OrderOK o) (n : Nat)
    (p : P) (ply : Nat) (depth : Int) (pv : List M) (α β : Int) (s : Eng M)
    (hs : s.hasTable = false) (hab : α < β) (hl : Live g depth.toNat p) :
    Sat ((search g cfg o n).1 p ply depth pv α β s) (fun x =>
      let r := x.1.2; let v := negamax g depth.toNat p
      x.2.hasTable = false ∧ (v ≤ α → r ≤ α) ∧ (α < v → v < β → r = v) ∧ (β ≤ v → β ≤ r) ∧
      (0 < depth → g.over p = false → α < r → r < β →
        ∃ m rest c, x.1.1 = some (m :: rest) ∧ g.apply p m = .ok c ∧ r = -(negamax g (depth.toNat - 1) c))) := by
  refine ((search_ok hg hpr hnc hord n).1 (s.st.depth, s.st.canceled) p ply depth pv α β s ⟨hs, rfl⟩ hab hl).mono ?_
  rintro ⟨r, s'⟩ ⟨hnt, hpc, hat⟩
  exact ⟨hnt.1, hpc.1, hpc.2.1, hpc.2.2, fun hd ho h1 h2 => hat (by omega) ho h1 h2⟩

/-- **zero-window contract** (`zwSearch` with window `(α, α+1)`): the result is on the same side of `α` as the
true value `v` and is a bound that `v` respects (`v ≤ α → v ≤ r ≤ α`, `α < v → α < r ≤ v`).  The second half is
what makes the scout result safe to accept as a cutoff in `pvSearch`. -/
theorem zw_spec {g : Game P M} (hg : GameOK g) {cfg : SOpts} (hpr : Precise cfg) {o : Oracle M}
    (hnc : NoCancel o) (hord : OrderOK o) (n : Nat)
    (p : P) (ply : Nat) (depth : Int) (pv : List M) (α : Int) (cut : Bool) (s : Eng M)
    (hs : s.hasTable = false) (hl : Live g depth.toNat p) :
    Sat ((search g cfg o n).2 p ply depth pv α cut s) (fun x =>
      let r := x.1.2; let v := negamax g depth.toNat p
      x.2.hasTable = false ∧ (v ≤ α → v ≤ r ∧ r ≤ α) ∧ (α < v → α < r ∧ r ≤ v)) := by
  refine ((search_ok hg hpr hnc hord n).2 (s.st.depth, s.st.canceled) p ply depth pv α cut s ⟨hs, rfl⟩ hl).mono ?_
  rintro ⟨r, s'⟩ ⟨hnt, hzc⟩
  exact ⟨hnt.1, hzc.1, hzc.2⟩

/-- **`Analyze` is exact** (no table, precise options, any move order, any stale hints in the engine):
for a live position and `Cfg.Depth ≥ 1` the call reports a depth `d ∈ 1..Cfg.Depth`, is not marked cancelled,
its value is `negamax d` of the position, and the first PV move is legal with child value `-v` at depth `d-1`
(i.e. it attains the value). -/
theorem analyze_exact {g : Game P M} (hg : GameOK g) (hb : EvalBounded g) {cfg : Cfg} (hpr : Precise cfg.opts)
    {o : Oracle M} (hnc : NoCancel o) (hord : OrderOK o)
    (p : P) (hov : g.over p = false) (hdepth : 1 ≤ cfg.depth)
    (hlive : ∀ d : Nat, 1 ≤ d → (d : Int) ≤ cfg.depth → Live g d p)
    (s : Eng M) (hs : s.hasTable = false) :
    Sat (analyze g cfg o p s) (fun x =>
      let ms := x.1.1; let v := x.1.2.1; let st := x.1.2.2
      x.2.hasTable = false ∧ st.canceled = false ∧ 1 ≤ st.depth ∧ st.depth ≤ cfg.depth ∧
      v = negamax g st.depth.toNat p ∧
      ∃ m rest c, ms = m :: rest ∧ g.apply p m = .ok c ∧ v = -(negamax g (st.depth.toNat - 1) c)) :=
  analyze_exact_nt hg hb hpr hnc hord p hov hdepth hlive s hs

/-- the hypotheses of the three theorems are satisfiable together: the heap game `Search.Toy.game`, and the
model really returns a value there (heap of 5, `Depth` 4: the win is found at depth 3, value `WinBase`,
and the deepening loop stops there) -/
example : GameOK Toy.game ∧ EvalBounded Toy.game ∧ Precise Toy.cfg.opts ∧ NoCancel (Oracle.quiet : Oracle Nat) ∧
    OrderOK (Oracle.quiet : Oracle Nat) ∧ (∀ d p, Live Toy.game d p) :=
  ⟨Toy.gameOK, Toy.evalBounded, Toy.cfg_precise, Toy.quiet_nc, Toy.quiet_order, Toy.live⟩

example : (match analyze Toy.game Toy.cfg Oracle.quiet 5 (Eng.new Toy.game Toy.cfg) with
    | .ok ((ms, v, st), _) => some (ms, v, st.depth)
    | .error _ => none) = some ([2, 1, 2], Facts.winBase, 3) := by decide

end C05
