import TakVerif.Proofs.SearchToy

/-! # C05 — precise search = exhaustive negamax

Theorems about the model of `ai/minimax.go` (`Impl/Minimax.lean`, `Impl/MoveGen.lean`), generic in the game
(`Search.Game`: the calls the search makes on a position).  Reading guide:

* `Search.negamax g d p` is plain depth-limited negamax with `g.eval` at the horizon and at finished games.
* `Search.Precise cfg`: `MakePrecise` (no null move, no slide reduction, no multi-cut) and no symmetry
  de-duplication.  `s.hasTable = false`: engine built with `TableMem < 0`.
* `Search.NoCancel o`: the cancel flag stays clear.  `Search.OrderOK o`: the history sort (`sort.Sort`,
  not modelled) is an *arbitrary* function that keeps the set of generated moves — so every statement
  holds for every move order, with and without `NoSort`.
* `Search.GameOK g`: three facts about the rules (every accepted move leads to a position some generated
  move reaches — C03; `Move.Equal` moves act alike; no generated move `Equal`s the zero move).
  `Search.Live g d p`: unfinished positions within `d` plies have a legal move.  `Search.EvalBounded g`:
  evaluations lie in `[MinEval, MaxEval]` (C18).
* `Sat x Q`: if the model call returns (does not hit a modelled Go panic), the result satisfies `Q`.

The stale PV buffers, the response-move hints, `stack[ply].m` and all statistics are arbitrary in these
statements (they are part of the universally quantified engine state `s`). -/
namespace C05
open Search

variable {P M : Type} [DecidableEq M]

/-- **PVS contract** (`pvSearch` with `n` free frames).  With `α < β` the returned value `r` relates to the
negamax value `v` of the position at that depth as a fail-soft alpha-beta result must: `v ≤ α → r ≤ α`,
`α < v < β → r = v`, `β ≤ v → β ≤ r`; and an exact result comes with a PV whose first move is legal and whose
child has value `-r`. -/
theorem pvs_spec {g : Game P M} (hg : GameOK g) {cfg : SOpts} (hpr : Precise cfg) {o : Oracle M}
    (hnc : NoCancel o) (hord : OrderOK o) (n : Nat)
    (p : P) (ply : Nat) (depth : Int) (pv : List M) (α β : Int) (s : Eng M)
    (hs : s.hasTable = false) (hab : α < β) (hl : Live g depth.toNat p) :
    Sat ((search g cfg o n).1 p ply depth pv α β s) (fun x =>
      let r := x.1.2; let v := negamax g depth.toNat p
      x.2.hasTable = false ∧ (v ≤ α → r ≤ α) ∧ (α < v → v < β → r = v) ∧ (β ≤ v → β ≤ r) ∧
      (0 < depth → g.over p = false → α < r → r < β →
        ∃ m rest c, x.1.1 = some (m :: rest) ∧ g.apply p m = .ok c ∧ r = -(negamax g (depth.toNat - 1) c))) := by
  refine ((search_ok hg hpr hnc hord n).1 (s.st.depth, s.st.canceled) p ply depth pv α β s ⟨hs, rfl⟩ hab hl).mono ?_
  rintro ⟨r, s'⟩ ⟨hnt, hpc, hat⟩
  exact ⟨hnt.1, hpc.1, hpc.2.1, hpc.2.2, fun hd ho h1 h2 => hat (by omega) ho h1 h2⟩

/-- **zero-window contract** (`zwSearch` with window `(α, α+1)`): the result is on the same side of `α` as the
true value `v` and is a bound that `v` respects (`v ≤ α → v ≤ r ≤ α`, `α < v → α < r ≤ v`).  The second half is
what makes the scout result safe to accept as a cutoff in `pvSearch`. -/
theorem zw_spec {g : Game P M} (hg : GameOK g) {cfg : SOpts} (hpr : Precise cfg) {o : Oracle M}
    (hnc : NoCancel o) (hord : OrderOK o) (n : Nat)
    (p : P) (ply : Nat) (depth : Int) (pv : List M) (α : Int) (cut : Bool) (s : Eng M)
    (hs : s.hasTable = false) (hl : Live g depth.toNat p) :
    Sat ((search g cfg o n).2 p ply depth pv α cut s) (fun x =>
      let r := x.1.2; let v := negamax g depth.toNat p
      x.2.hasTable = false ∧ (v ≤ α → v ≤ r ∧ r ≤ α) ∧ (α < v → α < r ∧ r ≤ v)) := by
  refine ((search_ok hg hpr hnc hord n).2 (s.st.depth, s.st.canceled) p ply depth pv α cut s ⟨hs, rfl⟩ hl).mono ?_
  rintro ⟨r, s'⟩ ⟨hnt, hzc⟩
  exact ⟨hnt.1, hzc.1, hzc.2⟩

/-- **`Analyze` is exact** (no table, precise options, any move order, any stale hints in the engine):
for a live position and `Cfg.Depth ≥ 1` the call reports a depth `d ∈ 1..Cfg.Depth`, is not marked cancelled,
its value is `negamax d` of the position, and the first PV move is legal with child value `-v` at depth `d-1`
(i.e. it attains the value). -/
theorem analyze_exact {g : Game P M} (hg : GameOK g) (hb : EvalBounded g) {cfg : Cfg} (hpr : Precise cfg.opts)
    {o : Oracle M} (hnc : NoCancel o) (hord : OrderOK o)
    (p : P) (hov : g.over p = false) (hdepth : 1 ≤ cfg.depth)
    (hlive : ∀ d : Nat, 1 ≤ d → (d : Int) ≤ cfg.depth → Live g d p)
    (s : Eng M) (hs : s.hasTable = false) :
    Sat (analyze g cfg o p s) (fun x =>
      let ms := x.1.1; let v := x.1.2.1; let st := x.1.2.2
      x.2.hasTable = false ∧ st.canceled = false ∧ 1 ≤ st.depth ∧ st.depth ≤ cfg.depth ∧
      v = negamax g st.depth.toNat p ∧
      ∃ m rest c, ms = m :: rest ∧ g.apply p m = .ok c ∧ v = -(negamax g (st.depth.toNat - 1) c)) :=
  analyze_exact_nt hg hb hpr hnc hord p hov hdepth hlive s hs

/-- **`AnalyzeAll` lists exactly the first moves that attain the value** (no table, precise options, any move
order): the value is the negamax value at the reported depth; every listed line starts with a legal move whose child
has value `-v` one level down (so it attains `v`); and every legal generated move whose child has that value leads to
the same position as the first move of some listed line. -/
theorem analyzeAll_exact {g : Game P M} (hg : GameOK g) (hb : EvalBounded g) {cfg : Cfg} (hpr : Precise cfg.opts)
    {o : Oracle M} (hnc : NoCancel o) (hord : OrderOK o)
    (p : P) (hov : g.over p = false) (hdepth : 1 ≤ cfg.depth)
    (hlive : ∀ d : Nat, 1 ≤ d → (d : Int) ≤ cfg.depth → Live g d p)
    (s : Eng M) (hs : s.hasTable = false) :
    Sat (analyzeAll g cfg o p s) (fun x =>
      let lines := x.1.1; let v := x.1.2.1; let st := x.1.2.2
      v = negamax g st.depth.toNat p ∧
      (∀ line ∈ lines, ∃ m rest c, line = m :: rest ∧ g.apply p m = .ok c ∧
        v = -(negamax g (st.depth.toNat - 1) c)) ∧
      (∀ m ∈ g.allMoves p, ∀ c, g.apply p m = .ok c → v = -(negamax g (st.depth.toNat - 1) c) →
        ∃ line ∈ lines, ∃ m' rest, line = m' :: rest ∧ g.apply p m' = .ok c)) :=
  analyzeAll_exact_nt hg hb hpr hnc hord p hov hdepth hlive s hs

/-- the hypotheses of the three theorems are satisfiable together: the heap game `Search.Toy.game`, and the
model really returns a value there (heap of 5, `Depth` 4: the win is found at depth 3, value `WinBase`,
and the deepening loop stops there) -/
example : GameOK Toy.game ∧ EvalBounded Toy.game ∧ Precise Toy.cfg.opts ∧ NoCancel (Oracle.quiet : Oracle Nat) ∧
    OrderOK (Oracle.quiet : Oracle Nat) ∧ (∀ d p, Live Toy.game d p) ∧ EvalOK Toy.game ∧ HashInj Toy.game :=
  ⟨Toy.gameOK, Toy.evalBounded, Toy.cfg_precise, Toy.quiet_nc, Toy.quiet_order, Toy.live, Toy.evalOK, Toy.hashInj⟩

example : (match analyze Toy.game Toy.cfg Oracle.quiet 5 (Eng.new Toy.game Toy.cfg) with
    | .ok ((ms, v, st), _) => some (ms, v, st.depth)
    | .error _ => none) = some ([2, 1, 2], Facts.winBase, 3) := by decide


/-! ## with a transposition table: verdicts over histories of calls

`Win g p` / `Loss g p`: some depth-limited negamax value of `p` is above `WinThreshold` / below `-WinThreshold`
— with an evaluation that is decisive only for finished games (`EvalOK`, C18) this is "the mover has a forced win /
is lost against best play".  `HashInj g` is the `NoCollision` hypothesis (distinct positions, distinct 64-bit
hashes); `TableSound g s`: every entry of the table of `s` is a true bound, in the three-valued sense, for every
position that would find it. -/

/-- **`verdict_sound`**: run any history of `Analyze` calls on one engine — any positions (related, repeated,
unrelated), any table size from one entry up (or none), every call with its own move order and its own cancellation
pattern, starting from a new engine — in a precise configuration.  Every reported value above `WinThreshold` is a
real forced win of the position analysed, every value below `-WinThreshold` a real forced loss.  (The intermediate
invariant, `analyze_sound`, also covers engines whose table was filled by other means, as long as it is sound.) -/
theorem verdict_sound {g : Game P M} (hg : GameOK g) (he : EvalOK g) (hinj : HashInj g)
    {cfg : Cfg} (hpr : Precise cfg.opts) (h : History P M) (hord : ∀ x ∈ h, OrderOK x.2) :
    Sat (runCalls g cfg h (Eng.new g cfg)) (fun x =>
      ∀ y ∈ x.1, (y.2 > Facts.winThreshold → Win g y.1) ∧ (y.2 < -Facts.winThreshold → Loss g y.1)) :=
  (runCalls_sound hg he hinj hpr h (Eng.new g cfg) hord (tableSound_new cfg)).mono (fun _ hx => hx.2)

/-- one `Analyze` on an engine whose table is sound: the table stays sound and the verdict is sound -/
theorem analyze_sound {g : Game P M} (hg : GameOK g) (he : EvalOK g) (hinj : HashInj g)
    {cfg : Cfg} (hpr : Precise cfg.opts) {o : Oracle M} (hord : OrderOK o) (p : P) (s : Eng M)
    (hts : TableSound g s) :
    Sat (analyze g cfg o p s) (fun x => TableSound g x.2 ∧
      (x.1.2.1 > Facts.winThreshold → Win g p) ∧ (x.1.2.1 < -Facts.winThreshold → Loss g p)) :=
  Search.analyze_sound hg he hinj hpr hord p s hts

/-- the completeness half of the table clause — *not proved* with a table: a forced result that exists within
the reported depth is reported as such -/
def verdict_complete_statement (g : Game P M) (cfg : Cfg) : Prop :=
  ∀ (h : History P M) (p : P) (o : Oracle M), (∀ x ∈ h, OrderOK x.2) → OrderOK o → NoCancel o →
    ∀ rs s r s', runCalls g cfg h (Eng.new g cfg) = .ok (rs, s) → analyze g cfg o p s = .ok (r, s') →
      (negamax g r.2.2.depth.toNat p > Facts.winThreshold → r.2.1 > Facts.winThreshold) ∧
      (negamax g r.2.2.depth.toNat p < -Facts.winThreshold → r.2.1 < -Facts.winThreshold)

/-- **`verdict_complete_partial`**: what is proved of completeness — without a table (any engine state): the
reported value *is* the negamax value at the reported depth (`analyze_exact`), so a forced result within that depth
is reported.  Missing for the full statement: the `Covers` half of the table invariant (an entry of depth ≥ d with
a non-decisive upper/exact value excludes a forced win within d; dually), which needs depth bookkeeping through
`teSuffices` and the replacement rule; the correspondence checks it (verdict ops) on tables from 2 entries up. -/
theorem verdict_complete_partial {g : Game P M} (hg : GameOK g) (hb : EvalBounded g) {cfg : Cfg}
    (hpr : Precise cfg.opts) {o : Oracle M} (hnc : NoCancel o) (hord : OrderOK o)
    (p : P) (hov : g.over p = false) (hdepth : 1 ≤ cfg.depth)
    (hlive : ∀ d : Nat, 1 ≤ d → (d : Int) ≤ cfg.depth → Live g d p)
    (s : Eng M) (hs : s.hasTable = false) :
    Sat (analyze g cfg o p s) (fun x =>
      (negamax g x.1.2.2.depth.toNat p > Facts.winThreshold → x.1.2.1 > Facts.winThreshold) ∧
      (negamax g x.1.2.2.depth.toNat p < -Facts.winThreshold → x.1.2.1 < -Facts.winThreshold)) := by
  refine (analyze_exact_nt hg hb hpr hnc hord p hov hdepth hlive s hs).mono ?_
  rintro x ⟨_, _, _, _, hv, _⟩
  rw [hv]
  exact ⟨id, id⟩

/-- non-vacuity: a two-entry table, the heap game; the history analyses the heap 5 (win), the heap 3 with a search
cancelled in its 4th leaf (still reported lost: the root's exact table entry from the first call seeds the answer),
the heap 6 cancelled likewise (nothing known: 0), 6 again (lost) and 7 (win) -/
example : (match runCalls Toy.game { Toy.cfg with tableEntries := some 2 }
      [(5, Oracle.quiet), (3, { Oracle.quiet with cancel := fun _ e => decide (4 ≤ e) }),
       (6, { Oracle.quiet with cancel := fun _ e => decide (4 ≤ e) }), (6, Oracle.quiet), (7, Oracle.quiet)]
      (Eng.new Toy.game { Toy.cfg with tableEntries := some 2 }) with
    | .ok (rs, _) => some (rs.map (fun (y : Fin 32 × Int) => (y.1.val, y.2)))
    | .error _ => none) =
    some [(5, Facts.winBase), (3, -Facts.winBase), (6, 0), (6, -Facts.winBase), (7, Facts.winBase)] := by decide

end C05
