import TakVerif.Proofs.SearchToy
import TakVerif.Proofs.SearchCoverAnalyze

/-! # C05 — precise search = exhaustive negamax

Theorems about the model of `ai/minimax.go` (`Impl/Minimax.lean`, `Impl/MoveGen.lean`), generic in the game
(`Search.Game`: the calls the search makes on a position).  Reading guide:

* `Search.negamax g d p` is plain depth-limited negamax with `g.eval` at the horizon and at finished games.
* `Search.Precise cfg`: `MakePrecise` (no null move, no slide reduction, no multi-cut) and no symmetry
  de-duplication.  `s.hasTable = false`: engine built with `TableMem < 0`.
* `Search.NoCancel o`: the cancel flag stays clear.  `Search.OrderOK o`: the history sort (`sort.Sort`,
  not modelled) is an *arbitrary* function that keeps the set of generated moves — so every statement
  holds for every move order, with and without `NoSort`.
* `Search.GameOK g`: three facts about the rules (every accepted move leads to a position some generated
  move reaches — C03; `Move.Equal` moves act alike; no generated move `Equal`s the zero move).
  `Search.Live g d p`: unfinished positions within `d` plies have a legal move.  `Search.EvalBounded g`:
  evaluations lie in `[MinEval, MaxEval]` (C18).
* `Sat x Q`: if the model call returns (does not hit a modelled Go panic), the result satisfies `Q`.

The stale PV buffers, the response-move hints, `stack[ply].m` and all statistics are arbitrary in these
statements (they are part of the universally quantified engine state `s`). -/
namespace C05
open Search

variable {P M : Type} [DecidableEq M]

/-- **PVS contract** (`pvSearch` with `n` free frames).  With `α < β` the returned value `r` relates to the
negamax value `v` of the position at that depth as a fail-soft alpha-beta result must: `v ≤ α → r ≤ α`,
`α < v < β → r = v`, `β ≤ v → β ≤ r`; and an exact result comes with a PV whose first move is legal and whose
child has value `-r`. -/
theorem pvs_spec {g : Game P M} (hg : GameOK g) {cfg : SOpts} (hpr : Precise cfg) {o : Oracle M}
    (hnc : NoCancel o) (hord : OrderOK o) (n : Nat)
    (p : P) (ply : Nat) (depth : Int) (pv : List M) (α β : Int) (s : Eng M)
    (hs : s.hasTable = false) (hab : α < β) (hl : Live g depth.toNat p) :
    Sat ((search g cfg o n).1 p ply depth pv α β s) (fun x =>
      let r := x.1.2; let v := negamax g depth.toNat p
      x.2.hasTable = false ∧ (v ≤ α → r ≤ α) ∧ (α < v → v < β → r = v) ∧ (β ≤ v → β ≤ r) ∧
      (0 < depth → g.over p = false → α < r → r < β →
        ∃ m rest c, x.1.1 = some (m :: rest) ∧ g.apply p m = .ok c ∧ r = -(negamax g (depth.toNat - 1) c))) := by
  refine ((search_ok hg hpr hnc hord n).1 (s.st.depth, s.st.canceled) p ply depth pv α β s ⟨hs, rfl⟩ hab hl).mono ?_
  rintro ⟨r, s'⟩ ⟨hnt, hpc, hat⟩
  exact ⟨hnt.1, hpc.1, hpc.2.1, hpc.2.2, fun hd ho h1 h2 => hat (by omega) ho h1 h2⟩

/-- **zero-window contract** (`zwSearch` with window `(α, α+1)`): the result is on the same side of `α` as the
true value `v` and is a bound that `v` respects (`v ≤ α → v ≤ r ≤ α`, `α < v → α < r ≤ v`).  The second half is
what makes the scout result safe to accept as a cutoff in `pvSearch`. -/
theorem zw_spec {g : Game P M} (hg : GameOK g) {cfg : SOpts} (hpr : Precise cfg) {o : Oracle M}
    (hnc : NoCancel o) (hord : OrderOK o) (n : Nat)
    (p : P) (ply : Nat) (depth : Int) (pv : List M) (α : Int) (cut : Bool) (s : Eng M)
    (hs : s.hasTable = false) (hl : Live g depth.toNat p) :
    Sat ((search g cfg o n).2 p ply depth pv α cut s) (fun x =>
      let r := x.1.2; let v := negamax g depth.toNat p
      x.2.hasTable = false ∧ (v ≤ α → v ≤ r ∧ r ≤ α) ∧ (α < v → α < r ∧ r ≤ v)) := by
  refine ((search_ok hg hpr hnc hord n).2 (s.st.depth, s.st.canceled) p ply depth pv α cut s ⟨hs, rfl⟩ hl).mono ?_
  rintro ⟨r, s'⟩ ⟨hnt, hzc⟩
  exact ⟨hnt.1, hzc.1, hzc.2⟩

/-- **`Analyze` is exact** (no table, precise options, any move order, any stale hints in the engine):
for a live position and `Cfg.Depth ≥ 1` the call reports a depth `d ∈ 1..Cfg.Depth`, is not marked cancelled,
its value is `negamax d` of the position, and the first PV move is legal with child value `-v` at depth `d-1`
(i.e. it attains the value). -/
theorem analyze_exact {g : Game P M} (hg : GameOK g) (hb : EvalBounded g) {cfg : Cfg} (hpr : Precise cfg.opts)
    {o : Oracle M} (hnc : NoCancel o) (hord : OrderOK o)
    (p : P) (hov : g.over p = false) (hdepth : 1 ≤ cfg.depth)
    (hlive : ∀ d : Nat, 1 ≤ d → (d : Int) ≤ cfg.depth → Live g d p)
    (s : Eng M) (hs : s.hasTable = false) :
    Sat (analyze g cfg o p s) (fun x =>
      let ms := x.1.1; let v := x.1.2.1; let st := x.1.2.2
      x.2.hasTable = false ∧ st.canceled = false ∧ 1 ≤ st.depth ∧ st.depth ≤ cfg.depth ∧
      v = negamax g st.depth.toNat p ∧
      ∃ m rest c, ms = m :: rest ∧ g.apply p m = .ok c ∧ v = -(negamax g (st.depth.toNat - 1) c)) :=
  analyze_exact_nt hg hb hpr hnc hord p hov hdepth hlive s hs

/-- **`AnalyzeAll` lists exactly the first moves that attain the value** (no table, precise options, any move
order): the value is the negamax value at the reported depth; every listed line starts with a legal move whose child
has value `-v` one level down (so it attains `v`); and every legal generated move whose child has that value leads to
the same position as the first move of some listed line. -/
theorem analyzeAll_exact {g : Game P M} (hg : GameOK g) (hb : EvalBounded g) {cfg : Cfg} (hpr : Precise cfg.opts)
    {o : Oracle M} (hnc : NoCancel o) (hord : OrderOK o)
    (p : P) (hov : g.over p = false) (hdepth : 1 ≤ cfg.depth)
    (hlive : ∀ d : Nat, 1 ≤ d → (d : Int) ≤ cfg.depth → Live g d p)
    (s : Eng M) (hs : s.hasTable = false) :
    Sat (analyzeAll g cfg o p s) (fun x =>
      let lines := x.1.1; let v := x.1.2.1; let st := x.1.2.2
      v = negamax g st.depth.toNat p ∧
      (∀ line ∈ lines, ∃ m rest c, line = m :: rest ∧ g.apply p m = .ok c ∧
        v = -(negamax g (st.depth.toNat - 1) c)) ∧
      (∀ m ∈ g.allMoves p, ∀ c, g.apply p m = .ok c → v = -(negamax g (st.depth.toNat - 1) c) →
        ∃ line ∈ lines, ∃ m' rest, line = m' :: rest ∧ g.apply p m' = .ok c)) :=
  analyzeAll_exact_nt hg hb hpr hnc hord p hov hdepth hlive s hs

/-- the hypotheses of the three theorems are satisfiable together: the heap game `Search.Toy.game`, and the
model really returns a value there (heap of 5, `Depth` 4: the win is found at depth 3, value `WinBase`,
and the deepening loop stops there) -/
example : GameOK Toy.game ∧ EvalBounded Toy.game ∧ Precise Toy.cfg.opts ∧ NoCancel (Oracle.quiet : Oracle Nat) ∧
    OrderOK (Oracle.quiet : Oracle Nat) ∧ (∀ d p, Live Toy.game d p) ∧ EvalOK Toy.game ∧ HashOK Toy.game :=
  ⟨Toy.gameOK, Toy.evalBounded, Toy.cfg_precise, Toy.quiet_nc, Toy.quiet_order, Toy.live, Toy.evalOK, Toy.hashInj.ok⟩

example : (match analyze Toy.game Toy.cfg Oracle.quiet 5 (Eng.new Toy.game Toy.cfg) with
    | .ok ((ms, v, st), _) => some (ms, v, st.depth)
    | .error _ => none) = some ([2, 1, 2], Facts.winBase, 3) := by decide


/-! ## with a transposition table: verdicts over histories of calls

`Win g p` / `Loss g p`: some depth-limited negamax value of `p` is above `WinThreshold` / below `-WinThreshold`
— with an evaluation that is decisive only for finished games (`EvalOK`, C18) this is "the mover has a forced win /
is lost against best play".  `HashOK g` is the `NoCollision` hypothesis in the form the proofs use it (positions with the same
64-bit hash are alike for the three-valued verdicts at every depth; implied by `HashInj g`: distinct positions, distinct
hashes — `HashInj.ok` — but, unlike `HashInj`, satisfiable for Tak, whose hash ignores the ply counter); `TableSound g s`: every entry of the table of `s` is a true bound, in the three-valued sense, for every
position that would find it.  `TableGood g s` adds the depth clause used by `verdict_complete`. -/

/-- **`verdict_sound`**: run any history of `Analyze` calls on one engine — any positions (related, repeated,
unrelated), any table size from one entry up (or none), every call with its own move order and its own cancellation
pattern, starting from a new engine — in a precise configuration.  Every reported value above `WinThreshold` is a
real forced win of the position analysed, every value below `-WinThreshold` a real forced loss.  (The intermediate
invariant, `analyze_sound`, also covers engines whose table was filled by other means, as long as it is sound.) -/
theorem verdict_sound {g : Game P M} (hg : GameOK g) (he : EvalOK g) (hinj : HashOK g)
    {cfg : Cfg} (hpr : Precise cfg.opts) (h : History P M) (hord : ∀ x ∈ h, OrderOK x.2) :
    Sat (runCalls g cfg h (Eng.new g cfg)) (fun x =>
      ∀ y ∈ x.1, (y.2 > Facts.winThreshold → Win g y.1) ∧ (y.2 < -Facts.winThreshold → Loss g y.1)) :=
  (runCalls_sound hg he hinj hpr h (Eng.new g cfg) hord (tableSound_new cfg)).mono (fun _ hx => hx.2)

/-- one `Analyze` on an engine whose table is sound: the table stays sound and the verdict is sound -/
theorem analyze_sound {g : Game P M} (hg : GameOK g) (he : EvalOK g) (hinj : HashOK g)
    {cfg : Cfg} (hpr : Precise cfg.opts) {o : Oracle M} (hord : OrderOK o) (p : P) (s : Eng M)
    (hts : TableSound g s) :
    Sat (analyze g cfg o p s) (fun x => TableSound g x.2 ∧
      (x.1.2.1 > Facts.winThreshold → Win g p) ∧ (x.1.2.1 < -Facts.winThreshold → Loss g p)) :=
  Search.analyze_sound hg he hinj hpr hord p s hts

/-- **`verdict_complete`** (the completeness half of the table clause): run any history of `Analyze` calls on one
engine, as in `verdict_sound` — any positions, any table size from one entry up (or none), every call with its own
move order and its own cancellation pattern (a flag that stays set once set: `Oracle.Monotone`) — in a precise
configuration, then analyse an unfinished position `p` without cancelling.  If `p` is a forced win (loss) for the
mover within the depth the call reports — `negamax` at that depth is above `WinThreshold` (below `-WinThreshold`) —
the reported value says so.

Against the earlier `verdict_complete_statement` the theorem names its hypotheses: the ones of `verdict_sound`
(`GameOK`, `EvalOK`, `HashOK`, `Precise`, `OrderOK`), monotone cancel oracles in the history (a non-monotone
"flag" would let an aborted subtree's placeholder value 0 reach the table), and `g.over p = false` (`Analyze` of a
finished position searches nothing and reports value 0 at depth 0, cancelled).

How: every table entry and every search result *covers* its depth (`Search.GoodE`, `Search.ResGood`: an upper/exact
value that is not a win excludes a forced win within the entry's depth, a lower/exact value that is not a loss
excludes a forced loss within it; decisive exact entries are used at any depth, which is sound by `verdict_sound`'s
invariant and complete because a lost position is never won).  `Search.search_good` proves this for uncancelled
searches, `Search.search_keeps` that a search cancelled at any point still leaves only such entries. -/
theorem verdict_complete {g : Game P M} (hg : GameOK g) (he : EvalOK g) (hinj : HashOK g)
    {cfg : Cfg} (hpr : Precise cfg.opts) (h : History P M) (hord : ∀ x ∈ h, OrderOK x.2)
    (hmono : ∀ x ∈ h, x.2.Monotone) (p : P) (hov : g.over p = false) {o : Oracle M} (hnc : NoCancel o)
    (hord' : OrderOK o) (rs : List (P × Int)) (s : Eng M) (r : List M × Int × Stats) (s' : Eng M)
    (h1 : runCalls g cfg h (Eng.new g cfg) = .ok (rs, s)) (h2 : analyze g cfg o p s = .ok (r, s')) :
    (negamax g r.2.2.depth.toNat p > Facts.winThreshold → r.2.1 > Facts.winThreshold) ∧
    (negamax g r.2.2.depth.toNat p < -Facts.winThreshold → r.2.1 < -Facts.winThreshold) :=
  runCalls_then_complete hg he hinj hpr h hord hmono p hov hnc hord' rs s r s' h1 h2

/-- one uncancelled `Analyze` of an unfinished position on an engine whose table is good (sound and covering, e.g.
filled by other means): the table stays good, and a value that is not a win (not a loss) excludes a forced win
(loss) within the reported depth -/
theorem analyze_complete {g : Game P M} (hg : GameOK g) (he : EvalOK g) (hinj : HashOK g)
    {cfg : Cfg} (hpr : Precise cfg.opts) {o : Oracle M} (hnc : NoCancel o) (hord : OrderOK o) (p : P)
    (hov : g.over p = false) (s : Eng M) (hts : TableGood g s) :
    Sat (analyze g cfg o p s) (fun x => TableGood g x.2 ∧
      (x.1.2.1 ≤ Facts.winThreshold → negamax g x.1.2.2.depth.toNat p ≤ Facts.winThreshold) ∧
      (-Facts.winThreshold ≤ x.1.2.1 → -Facts.winThreshold ≤ negamax g x.1.2.2.depth.toNat p)) :=
  analyze_covers hg he hinj hpr hnc hord p hov s hts

/-- the invariant is satisfiable: a new engine's table is good (`verdict_complete` starts from it) -/
example : TableGood Toy.game (Eng.new Toy.game { Toy.cfg with tableEntries := some 2 }) :=
  tableGood_new Toy.evalOK _

/-- a cancelled (or any other) `Analyze` keeps the table good -/
theorem analyze_keeps_table {g : Game P M} (hg : GameOK g) (he : EvalOK g) (hinj : HashOK g)
    {cfg : Cfg} (hpr : Precise cfg.opts) {o : Oracle M} (hm : o.Monotone) (hord : OrderOK o) (p : P) (s : Eng M)
    (hts : TableGood g s) : Sat (analyze g cfg o p s) (fun x => TableGood g x.2) :=
  analyze_keeps hg he hinj hpr hm hord p s hts

/-- the oracle of the examples: the flag is set inside the `k`-th leaf evaluation -/
def cancelAtLeaf (k : Nat) : Oracle Nat := { Oracle.quiet with cancel := fun _ e => decide (k ≤ e) }

theorem cancelAtLeaf_monotone (k : Nat) : (cancelAtLeaf k).Monotone := by
  intro l l' e e' _ he h
  simp only [cancelAtLeaf, decide_eq_true_eq] at h ⊢
  omega

theorem quiet_monotone : (Oracle.quiet : Oracle Nat).Monotone := by
  intro l l' e e' _ _ h; cases h

/-- non-vacuity of `verdict_complete` on the heap game with a two-entry table: after analysing the heap 5, the
heap 3 (cancelled in its 4th leaf) and the heap 6 (cancelled likewise), an uncancelled `Analyze` of the heap 6
reports depth 4; the heap 6 is lost within 4 plies (`negamax 4` is `-WinBase`) and the reported value says so -/
example :
    (∀ x ∈ [((5 : Fin 32), (Oracle.quiet : Oracle Nat)), (3, cancelAtLeaf 4), (6, cancelAtLeaf 4)],
      OrderOK x.2 ∧ x.2.Monotone) ∧
    (match runCalls Toy.game { Toy.cfg with tableEntries := some 2 }
        [(5, Oracle.quiet), (3, cancelAtLeaf 4), (6, cancelAtLeaf 4)]
        (Eng.new Toy.game { Toy.cfg with tableEntries := some 2 }) with
      | .ok (_, s) =>
        (match analyze Toy.game { Toy.cfg with tableEntries := some 2 } Oracle.quiet 6 s with
          | .ok ((_, v, st), _) => some (v, st.depth, negamax Toy.game st.depth.toNat 6)
          | .error _ => none)
      | .error _ => none) = some (-Facts.winBase, 4, -Facts.winBase) := by
  refine ⟨?_, by decide⟩
  intro x hx
  simp only [List.mem_cons, List.not_mem_nil, or_false] at hx
  rcases hx with rfl | rfl | rfl
  · exact ⟨Toy.quiet_order, quiet_monotone⟩
  · exact ⟨fun _ _ _ => Iff.rfl, cancelAtLeaf_monotone 4⟩
  · exact ⟨fun _ _ _ => Iff.rfl, cancelAtLeaf_monotone 4⟩

/-- **`verdict_complete_no_table`** (was `verdict_complete_partial`): without a table, for *any* engine state (not
only one reached by a history from a new engine) and any evaluation within `[MinEval, MaxEval]`: the reported value
*is* the negamax value at the reported depth (`analyze_exact`), so a forced result within that depth is reported. -/
theorem verdict_complete_no_table {g : Game P M} (hg : GameOK g) (hb : EvalBounded g) {cfg : Cfg}
    (hpr : Precise cfg.opts) {o : Oracle M} (hnc : NoCancel o) (hord : OrderOK o)
    (p : P) (hov : g.over p = false) (hdepth : 1 ≤ cfg.depth)
    (hlive : ∀ d : Nat, 1 ≤ d → (d : Int) ≤ cfg.depth → Live g d p)
    (s : Eng M) (hs : s.hasTable = false) :
    Sat (analyze g cfg o p s) (fun x =>
      (negamax g x.1.2.2.depth.toNat p > Facts.winThreshold → x.1.2.1 > Facts.winThreshold) ∧
      (negamax g x.1.2.2.depth.toNat p < -Facts.winThreshold → x.1.2.1 < -Facts.winThreshold)) := by
  refine (analyze_exact_nt hg hb hpr hnc hord p hov hdepth hlive s hs).mono ?_
  rintro x ⟨_, _, _, _, hv, _⟩
  rw [hv]
  exact ⟨id, id⟩

/-- non-vacuity: a two-entry table, the heap game; the history analyses the heap 5 (win), the heap 3 with a search
cancelled in its 4th leaf (still reported lost: the root's exact table entry from the first call seeds the answer),
the heap 6 cancelled likewise (nothing known: 0), 6 again (lost) and 7 (win) -/
example : (match runCalls Toy.game { Toy.cfg with tableEntries := some 2 }
      [(5, Oracle.quiet), (3, { Oracle.quiet with cancel := fun _ e => decide (4 ≤ e) }),
       (6, { Oracle.quiet with cancel := fun _ e => decide (4 ≤ e) }), (6, Oracle.quiet), (7, Oracle.quiet)]
      (Eng.new Toy.game { Toy.cfg with tableEntries := some 2 }) with
    | .ok (rs, _) => some (rs.map (fun (y : Fin 32 × Int) => (y.1.val, y.2)))
    | .error _ => none) =
    some [(5, Facts.winBase), (3, -Facts.winBase), (6, 0), (6, -Facts.winBase), (7, Facts.winBase)] := by decide

end C05
