import TakVerif.Props.C08
import TakVerif.Proofs.Groups

/-! C08's transposition theorem with the flood-fuel hypothesis `AnalyzeTotal` discharged by C02's
`Roads.analyze_ne_none`. -/
namespace C08
open Tak

/-- **transpositions**: two move sequences (no pass, 64-piece limit respected) from a common well-formed start that
reach the same squares with the same side to move give positions that are `Equal` and have the same `Hash()` -/
theorem transposition_closed (basis : Array W) (p q1 q2 : Pos) (ms1 ms2 : List Move) (hwf : WF basis p)
    (ok1 : MovesOK basis p ms1) (ok2 : MovesOK basis p ms2)
    (h1 : p.applyAll basis ms1 = .ok q1) (h2 : p.applyAll basis ms2 = .ok q2)
    (hsq : (Spec.abs q1).squares = (Spec.abs q2).squares) (htm : q1.toMove = q2.toMove) :
    q1.equal q2 = true ∧ q1.hashOf = q2.hashOf :=
  transposition (fun p => Roads.analyze_ne_none p) basis p q1 q2 ms1 ms2 hwf ok1 ok2 h1 h2 hsq htm

/-- the concrete 5×5 transposition a1 e5 b1 b2 c1 c2 / a1 e5 c1 c2 b1 b2, now without any hypothesis -/
example : Ex.qa.equal Ex.qb = true ∧ Ex.qa.hashOf = Ex.qb.hashOf :=
  have hA : AnalyzeTotal := fun p => Roads.analyze_ne_none p
  have hwf := Tak.new_wf Ex.basis Ex.start5_ok
  transposition_closed Ex.basis Ex.start5 Ex.qa Ex.qb Ex.trA Ex.trB hwf
    (movesOK_places hA _ hwf Ex.tr_places.1) (movesOK_places hA _ hwf Ex.tr_places.2)
    Ex.qa_ok Ex.qb_ok Ex.qa_qb_same.1 Ex.qa_qb_same.2

end C08
