import TakVerif.Impl.PTN
import TakVerif.Impl.PTNInst
import TakVerif.Impl.TextGlue
import TakVerif.Proofs.PTNTotal
import TakVerif.Proofs.TextGlueTotal
import TakVerif.Proofs.PTNLink

/-! C13, the part for PTN files (parse, start position, replay), chat lines and weights JSON.

"Total" is `PTN.Graceful r`: the call returned a value or an error *value* — it did not panic and no
loop of the model ran out of fuel (i.e. the Go loop it mirrors terminates).  The theorems are about
the model in `Impl/PTN.lean`, which is the code WITH `fixes/C13-ptn-comment.diff` and
`fixes/C13-ptn-size.diff`; on the code without them both statements are false (witnesses:
`corpus/C13/ptn-*.ops`).  `ptn.ParseMove` and `ptn.ParseTPS` are parameters, assumed total
(they are C13's own `parseMove_total` / `parseTPS_total`).  `regexp` and `encoding/json` are
parameters with their documented contract as hypothesis; their internals are assumed total. -/
namespace C13
open Tak PTN

/-- `ParsePTN` is total on every byte string: BOM handling, the tag reader, the `bufio.Scanner`
tokenizer (incl. its 64 KiB limit) and the token switch never index out of range, and all loops end. -/
theorem parsePTN_total (env : Env) (hpm : ∀ b, Graceful (env.parseMove b)) :
    ∀ input : Bytes, Graceful (parsePTN env input) :=
  parsePTN_graceful env hpm

/-- `InitialPosition` is total for every parsed file: whatever the `Size` tag holds, `tak.New` is only
reached with a size it accepts. -/
theorem initialPosition_total (env : Env) (htps : ∀ b, Graceful (env.parseTPS b)) :
    ∀ f : File, Graceful (initialPosition env f) :=
  initialPosition_graceful env htps

/-- parse a file and replay it up to (`move`, `color`): `ParsePTN` followed by `PositionAtMove`
(which runs `InitialPosition` and the `Iterator`) -/
def replay (env : Env) (input : Bytes) (move : Int) (color : Color) : R Pos :=
  match parsePTN env input with
  | .error e => .error e
  | .ok f => positionAtMove env f move color

/-- Replaying any byte string returns a position or an error value: no panic in the parser, in
`InitialPosition`, in the iterator (nil position, `Position.Move`), whatever position and moves the file
describes; and every loop ends — the `PositionAtMove` loop within `len(Ops)+2` rounds, `Position.Move`'s
flood fill within its fuel (`Roads.analyze_ne_none`). -/
theorem replay_total (env : Env) (hpm : ∀ b, Graceful (env.parseMove b)) (htps : ∀ b, Graceful (env.parseTPS b)) :
    ∀ (input : Bytes) (move : Int) (color : Color), Graceful (replay env input move color) := by
  intro input move color e he
  unfold replay at he
  split at he
  · rename_i e' hp
    cases he
    exact parsePTN_graceful env hpm input _ hp
  · rcases positionAtMove_errors env htps _ move color e he with h | ⟨s, p, m, _, hpm'⟩
    · exact h
    · exact absurd hpm' (apply_noHang _ p m s)

/-! #### with the byte-level models of `ParseMove` and `ParseTPS` plugged in: no hypothesis left -/

/-- `ParsePTN` over the real `ParseMove` model: total on every byte string -/
theorem parsePTN_total_linked (basis : Array W) : ∀ input : Bytes, Graceful (parsePTN (realEnv basis) input) :=
  parsePTN_total (realEnv basis) realParseMove_graceful

/-- `InitialPosition` over the real `ParseTPS` model: total for every parsed file -/
theorem initialPosition_total_linked (basis : Array W) : ∀ f : File, Graceful (initialPosition (realEnv basis) f) :=
  initialPosition_total (realEnv basis) (realParseTPS_graceful basis)

/-- parsing and replaying any byte string, with the real `ParseMove`/`ParseTPS` models and any Zobrist
table: a position or an error value — never a panic, never a loop that does not end -/
theorem replay_total_linked (basis : Array W) :
    ∀ (input : Bytes) (move : Int) (color : Color), Graceful (replay (realEnv basis) input move color) :=
  replay_total (realEnv basis) realParseMove_graceful (realParseTPS_graceful basis)

/-- every `Next` call from a state the iterator can be in keeps that state well-formed and does not panic -/
theorem next_total (env : Env) (it : Iter) (hinv : it.Inv) :
    NeverPanics (it.next env) ∧ ∀ it' b, it.next env = .ok (it', b) → it'.Inv := by
  rcases next_cases env it hinv with ⟨a, ha, ainv, _, _⟩ | ⟨a, ha, ainv⟩ | ⟨s, p, m, hs, _⟩
  · rw [ha]; exact ⟨fun s h => (by cases h), fun it' b h => (by cases h; exact ainv)⟩
  · rw [ha]; exact ⟨fun s h => (by cases h), fun it' b h => (by cases h; exact ainv)⟩
  · rw [hs]; exact ⟨fun s h => (by cases h), fun it' b h => (by cases h)⟩

/-! #### the hypotheses are satisfiable, and the theorems say something on the former crash inputs -/

/-- the transcription of `ParseMove` used by the driver returns a move or an error for every input -/
theorem instParseMove_graceful : ∀ b, Graceful (Inst.parseMove b) := by
  intro b
  unfold Inst.parseMove
  split
  · exact graceful_ok _
  · exact graceful_illegal _

/-- an environment for the examples: the transcribed move functions, a `ParseTPS` that rejects everything -/
def ptnExEnv : Env :=
  { parseMove := Inst.parseMove, formatMove := Inst.formatMove,
    parseTPS := fun _ => .error (.illegal "no TPS"), basis := Array.replicate 64 0#64 }

example : ∀ b, Graceful (ptnExEnv.parseMove b) := instParseMove_graceful
example : ∀ b, Graceful (ptnExEnv.parseTPS b) := fun _ => graceful_illegal _

/-- the lone `{` (a panic before `fixes/C13-ptn-comment`) is an error -/
example : parsePTN ptnExEnv [123] = .error (.illegal "unterminated comment") := by rfl

/-- `[Size "9"]` followed by a move (a panic before `fixes/C13-ptn-size`): parsed, and replay is an error -/
example : ∃ e, replay ptnExEnv [91, 83, 105, 122, 101, 32, 34, 57, 34, 93, 10, 49, 46, 32, 97, 49] 0 .none = .error (.illegal e) :=
  ⟨_, by rfl⟩

/-! ### chat lines and weights JSON: the glue around `regexp` / `encoding/json` -/

/-- `ParseTell`, `ParseShout`, `ParseShoutRoom` index `gs[1..3]` of a non-nil match only: given the
documented shape of `FindStringSubmatch`'s result (one entry per group plus one) they never panic. -/
theorem parseChat_total (lib : TextGlue.RegexpLib) (hc : lib.Contract) (line : Bytes) :
    Graceful (TextGlue.parseTell lib line) ∧ Graceful (TextGlue.parseShout lib line) ∧
    Graceful (TextGlue.parseShoutRoom lib line) := by
  refine ⟨?_, ?_, ?_⟩
  · unfold TextGlue.parseTell
    split
    · exact graceful_ok _
    · rename_i gs hgs
      have hl : gs.length = 3 := by rw [hc _ _ _ hgs]; decide
      obtain ⟨a, ha⟩ := idx_ok gs 1 (by omega)
      obtain ⟨b, hb⟩ := idx_ok gs 2 (by omega)
      simp only [ha, hb, bind, Except.bind, pure, Except.pure]
      exact graceful_ok _
  · unfold TextGlue.parseShout
    split
    · exact graceful_ok _
    · rename_i gs hgs
      have hl : gs.length = 3 := by rw [hc _ _ _ hgs]; decide
      obtain ⟨a, ha⟩ := idx_ok gs 1 (by omega)
      obtain ⟨b, hb⟩ := idx_ok gs 2 (by omega)
      simp only [ha, hb, bind, Except.bind, pure, Except.pure]
      exact graceful_ok _
  · unfold TextGlue.parseShoutRoom
    split
    · exact graceful_ok _
    · rename_i gs hgs
      have hl : gs.length = 4 := by rw [hc _ _ _ hgs]; decide
      obtain ⟨a, ha⟩ := idx_ok gs 1 (by omega)
      obtain ⟨b, hb⟩ := idx_ok gs 2 (by omega)
      obtain ⟨c, hc'⟩ := idx_ok gs 3 (by omega)
      simp only [ha, hb, hc', bind, Except.bind, pure, Except.pure]
      exact graceful_ok _

/-- the executable reading of the three regular expressions meets the contract -/
theorem regexpInst_contract : TextGlue.regexpInst.Contract := by
  intro re line gs h
  simp only [TextGlue.regexpInst, TextGlue.matchRE] at h
  split at h
  · rename_i hre
    have : re = Facts.tellRE := by simpa using hre
    subst this
    simp only [Option.bind_eq_some_iff, Option.map_eq_some_iff] at h
    obtain ⟨_, _, ⟨_, _, rfl⟩⟩ := h
    simp only [List.length_cons, List.length_nil]
    decide
  split at h
  · rename_i hre
    have : re = Facts.shoutRE := by simpa using hre
    subst this
    simp only [Option.bind_eq_some_iff, Option.map_eq_some_iff] at h
    obtain ⟨_, _, ⟨_, _, rfl⟩⟩ := h
    simp only [List.length_cons, List.length_nil]
    decide
  split at h
  · rename_i hre
    have : re = Facts.shoutRoomRE := by simpa using hre
    subst this
    simp only [Option.bind_eq_some_iff] at h
    obtain ⟨s, _, h⟩ := h
    split at h
    · cases h
    split at h
    · simp only [Option.map_eq_some_iff] at h
      obtain ⟨_, _, rfl⟩ := h
      simp only [List.length_cons, List.length_nil]
      decide
    · cases h
  · cases h

/-- `(*Weights).UnmarshalJSON` writes `ws[f]` only for an `f` it found in the name table, which has
as many entries as the array (`MaxFeature`, see `weights_table_size`): given a total `json.Unmarshal`
it returns nil or an error. -/
theorem unmarshalWeights_total (lib : TextGlue.JsonLib) (hlib : ∀ b, Graceful (lib.unmarshalMap b))
    (names : List Bytes) (ws : Array Int) (hws : ws.size = names.length) (bs : Bytes) :
    Graceful (TextGlue.unmarshalWeights lib names ws bs) := by
  unfold TextGlue.unmarshalWeights
  split
  · rename_i e he
    intro e' h'
    cases h'
    exact hlib bs e he
  · exact assignLoop_graceful names _ ws hws

/-- the instance the program runs with: the stringer table has `MaxFeature` names, `Weights` has `MaxFeature` entries -/
theorem weights_table_size : (Array.replicate Facts.maxFeature (0 : Int)).size = TextGlue.featureNames.length := by
  rw [featureNames_length]; simp

example : (TextGlue.parseTell TextGlue.regexpInst (TextGlue.bytesOf "Tell <bob> hi")) =
    .ok [TextGlue.bytesOf "bob", TextGlue.bytesOf "hi"] := by rfl
end C13
