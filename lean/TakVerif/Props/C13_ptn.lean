import TakVerif.Impl.PTN
import TakVerif.Impl.TextGlue
namespace C13
end C13
