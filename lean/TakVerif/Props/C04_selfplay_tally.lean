import TakVerif.Props.C04_selfplay
import TakVerif.Proofs.SelfplayTally

/-!
# `taktician selfplay`: the accounts of `Simulate` (work package "selfplay2")

`Stats` after any list of results (`tallyAll`, the `for r := range rc` loop of `Simulate`):

* `tally_identities`: player 1's wins + player 2's wins = White wins + Black wins; the same per colour; for each player
  wins = wins as White + wins as Black = road wins + flat wins + time wins.
* `tally_totals`: `White` / `Black` / `Ties` / `Cutoff` count the results with winner White / winner Black / no winner in a
  finished position / no winner in an unfinished position.
* `tally_credit`: when player 1 has a colour in every game (`specs_colour`: always, for the games `startGames` sends), a
  win is credited to the player who had the winning colour IN THAT GAME: `p1.Wins` counts the results whose winner is
  player 1's colour, `p1.WhiteWins` those where player 1 was White and White won, … .
* `worker_plays_specs` / `simulate_credit`: the results `worker` delivers are the specified games, in order (all of them
  when the process ends normally), so the hypothesis of `tally_credit` holds for `Simulate`'s own results.

Every step is an explicit case split over the result kind (`Proofs/SelfplayTally.lean`). -/
namespace C04
open Tak Tak.CmdSelfplay

/-- **the identities between the counters**, after any results in any order -/
theorem tally_identities (rs : List Result) :
    let st := tallyAll rs
    st.p1.wins + st.p2.wins = st.white + st.black ∧
    st.p1.whiteWins + st.p2.whiteWins = st.white ∧
    st.p1.blackWins + st.p2.blackWins = st.black ∧
    st.p1.wins = st.p1.whiteWins + st.p1.blackWins ∧
    st.p2.wins = st.p2.whiteWins + st.p2.blackWins ∧
    st.p1.wins = st.p1.roadWins + st.p1.flatWins + st.p1.timeWins ∧
    st.p2.wins = st.p2.roadWins + st.p2.flatWins + st.p2.timeWins := by
  have h : Balanced (tallyAll rs) := foldl_inv Balanced (fun _ r hb => hb.tally r) rs {} Balanced.zero
  exact ⟨h.wins_total, h.white_total, h.black_total, h.p1_colours, h.p2_colours, h.p1_reasons, h.p2_reasons⟩

/-- **the four totals count the results by kind** (their sum is `tallyAll_count`) -/
theorem tally_totals (rs : List Result) :
    (tallyAll rs).white = rs.countP (fun r => r.winner == .white) ∧
    (tallyAll rs).black = rs.countP (fun r => r.winner == .black) ∧
    (tallyAll rs).ties = rs.countP (fun r => r.winner == .none && r.position.gameOver.1) ∧
    (tallyAll rs).cutoff = rs.countP (fun r => r.winner == .none && !r.position.gameOver.1) := by
  refine ⟨?_, ?_, ?_, ?_⟩
  · simpa [tallyAll] using foldl_countP (·.white) _ tally_white rs {}
  · simpa [tallyAll] using foldl_countP (·.black) _ tally_black rs {}
  · simpa [tallyAll] using foldl_countP (·.ties) _ tally_ties rs {}
  · simpa [tallyAll] using foldl_countP (·.cutoff) _ tally_cutoff rs {}

/-- **a win is credited to the player who had that colour in that game.**  If player 1 has a colour in every game
(White or Black: `specs_colour`), then `p1.Wins` is the number of results won by the colour player 1 had in that game,
`p2.Wins` the number won by the other colour; `p1.WhiteWins` counts the games player 1 played as White and White won,
`p1.BlackWins` those it played as Black and Black won, and symmetrically for player 2. -/
theorem tally_credit (rs : List Result) (hc : ∀ r ∈ rs, r.spec.p1color ≠ .none) :
    let st := tallyAll rs
    st.p1.wins = rs.countP (fun r => r.winner != .none && r.winner == r.spec.p1color) ∧
    st.p2.wins = rs.countP (fun r => r.winner != .none && r.winner != r.spec.p1color) ∧
    st.p1.whiteWins = rs.countP (fun r => r.winner == .white && r.spec.p1color == .white) ∧
    st.p1.blackWins = rs.countP (fun r => r.winner == .black && r.spec.p1color == .black) ∧
    st.p2.whiteWins = rs.countP (fun r => r.winner == .white && r.spec.p1color == .black) ∧
    st.p2.blackWins = rs.countP (fun r => r.winner == .black && r.spec.p1color == .white) := by
  have e1 : (tallyAll rs).p1.wins = rs.countP creditedP1 := by
    simpa [tallyAll] using foldl_countP (·.p1.wins) _ tally_p1_wins rs {}
  have e2 : (tallyAll rs).p2.wins = rs.countP creditedP2 := by
    simpa [tallyAll] using foldl_countP (·.p2.wins) _ tally_p2_wins rs {}
  have e3 := foldl_countP (·.p1.whiteWins) _ tally_p1_whiteWins rs {}
  have e4 := foldl_countP (·.p1.blackWins) _ tally_p1_blackWins rs {}
  have e5 := foldl_countP (·.p2.whiteWins) _ tally_p2_whiteWins rs {}
  have e6 := foldl_countP (·.p2.blackWins) _ tally_p2_blackWins rs {}
  simp only [Nat.zero_add] at e3 e4 e5 e6
  refine ⟨?_, ?_, ?_, ?_, ?_, ?_⟩
  · rw [e1]; exact List.countP_congr (fun r hr => by rw [creditedP1_iff r (hc r hr)])
  · rw [e2]; exact List.countP_congr (fun r hr => by rw [creditedP2_iff r (hc r hr)])
  · exact e3.trans (List.countP_congr (fun r hr => by rw [(credit_colour r (hc r hr)).1]))
  · exact e4.trans (List.countP_congr (fun r hr => by rw [(credit_colour r (hc r hr)).2.1]))
  · exact e5.trans (List.countP_congr (fun r hr => by rw [(credit_colour r (hc r hr)).2.2.1]))
  · exact e6.trans (List.countP_congr (fun r hr => by rw [(credit_colour r (hc r hr)).2.2.2]))

/-- **time wins are the wins in unfinished positions**: `TimeWins` of a player counts the results credited to it
whose final position `WinDetails` does not call over -/
theorem tally_time (rs : List Result) :
    (tallyAll rs).p1.timeWins = rs.countP (fun r => creditedP1 r && !r.position.winDetails.over) ∧
    (tallyAll rs).p2.timeWins = rs.countP (fun r => creditedP2 r && !r.position.winDetails.over) := by
  have e1 := foldl_countP (·.p1.timeWins) _ tally_p1_timeWins rs {}
  have e2 := foldl_countP (·.p2.timeWins) _ tally_p2_timeWins rs {}
  simp only [Nat.zero_add] at e1 e2
  exact ⟨e1, e2⟩

/-- the games completed by `runGames` carry the specifications they were started with, in order; all of them when the
process ends normally -/
theorem runGames_specs {σ : Type} (basis : Array W) (c : Config) (P1 P2 : Player σ) :
    ∀ (sps : List Spec) (rs : List Result) (stop : Stop), runGames basis c P1 P2 sps = (rs, stop) →
      rs.map (·.spec) <+: sps ∧ (stop = .ok → rs.map (·.spec) = sps)
  | [], rs, stop, h => by
    simp only [runGames, Prod.mk.injEq] at h
    obtain ⟨rfl, rfl⟩ := h
    exact ⟨List.prefix_refl _, fun _ => rfl⟩
  | sp :: rest, rs, stop, h => by
    simp only [runGames] at h
    split at h
    · simp only [Prod.mk.injEq] at h
      obtain ⟨rfl, rfl⟩ := h
      rename_i e he
      exact ⟨List.nil_prefix, fun h => by subst h; exact absurd he (playGame_ne_ok basis c P1 P2 sp)⟩
    · rename_i r hr
      have hspec := (game_record_and_end basis c P1 P2 sp r hr).1
      obtain ⟨ih1, ih2⟩ := runGames_specs basis c P1 P2 rest (runGames basis c P1 P2 rest).1 (runGames basis c P1 P2 rest).2 rfl
      simp only [Prod.mk.injEq] at h
      obtain ⟨rfl, rfl⟩ := h
      simp only [List.map_cons, hspec]
      exact ⟨(List.prefix_cons_inj sp).2 ih1, fun h => by rw [ih2 h]⟩

/-- **the results of `worker` are the specified games, in order** — a prefix of `specs c`, all of it when the process
ends normally; in particular player 1 has a colour in each of them -/
theorem worker_plays_specs {σ : Type} (basis : Array W) (c : Config) (P1 P2 : Player σ) :
    (worker basis c P1 P2).1.map (·.spec) <+: specs c ∧
    ((worker basis c P1 P2).2 = .ok → (worker basis c P1 P2).1.map (·.spec) = specs c) ∧
    ∀ r ∈ (worker basis c P1 P2).1, r.spec.p1color ≠ .none := by
  have key : (worker basis c P1 P2).1.map (·.spec) <+: specs c ∧
      ((worker basis c P1 P2).2 = .ok → (worker basis c P1 P2).1.map (·.spec) = specs c) := by
    unfold worker
    split
    · exact ⟨List.nil_prefix, fun h => by cases h⟩
    · split
      · exact ⟨List.nil_prefix, fun h => by cases h⟩
      · exact runGames_specs basis c P1 P2 (specs c) _ _ rfl
  refine ⟨key.1, key.2, fun r hr => ?_⟩
  exact specs_colour c r.spec (key.1.subset (List.mem_map_of_mem hr))

/-- **`Simulate`'s own accounts**: for any two players and any configuration, the `Stats` it returns satisfy the
crediting rule of `tally_credit` (and `tally_identities`, `tally_totals`) for its `Games`. -/
theorem simulate_credit {σ : Type} (basis : Array W) (c : Config) (P1 P2 : Player σ) :
    let (st, rs, _) := simulate basis c P1 P2
    st.p1.wins = rs.countP (fun r => r.winner != .none && r.winner == r.spec.p1color) ∧
    st.p2.wins = rs.countP (fun r => r.winner != .none && r.winner != r.spec.p1color) ∧
    st.p1.wins + st.p2.wins = st.white + st.black ∧ st.count = rs.length := by
  have hc := (worker_plays_specs basis c P1 P2).2.2
  have h := tally_credit (worker basis c P1 P2).1 hc
  have hi := tally_identities (worker basis c P1 P2).1
  exact ⟨h.1, h.2.1, hi.1, tallyAll_count _⟩

/-- four results: player 1 (White) wins; player 1 (Black) loses to White; a cut-off; player 1 (Black) wins - all in an
unfinished position, i.e. on time.  The accounts: 2 wins for player 1 (one as White, one as Black), 1 for player 2 (as White) -/
example :
    let rs : List Result :=
      [{ spec := ⟨exStart, 0, 0, .white⟩, position := exStart, moves := [], winner := .white },
       { spec := ⟨exStart, 0, 1, .black⟩, position := exStart, moves := [], winner := .white },
       { spec := ⟨exStart, 0, 2, .white⟩, position := exStart, moves := [], winner := .none },
       { spec := ⟨exStart, 0, 3, .black⟩, position := exStart, moves := [], winner := .black }]
    (tallyAll rs).p1.wins = 2 ∧ (tallyAll rs).p2.wins = 1 ∧ (tallyAll rs).p1.whiteWins = 1 ∧ (tallyAll rs).p1.blackWins = 1 ∧
    (tallyAll rs).p2.whiteWins = 1 ∧ (tallyAll rs).white = 2 ∧ (tallyAll rs).black = 1 ∧ (tallyAll rs).cutoff = 1 ∧
    (tallyAll rs).p1.timeWins = 2 ∧ (tallyAll rs).p2.timeWins = 1 ∧ (∀ r ∈ rs, r.spec.p1color ≠ .none) := by
  decide

end C04
