import TakVerif.Proofs.CanonTak
import TakVerif.Proofs.CanonRefine
import TakVerif.Proofs.PosFactsInst
import TakVerif.Impl.Symmetry

/-!
# C15 — canonicalisation picks one representative per symmetry class of games

List-level algorithm: `Spec.canon n ms` (`Spec/Symmetry.lean`) — the loop of `symmetry.Canonical` over
the rule book `Spec.step`: the accumulated transform `tfn` (a group element; `compose(rots...)` in Go), the
scan over the maps `k` whose image of board 0 still equals board 0 (boards[k] in Go; the test is equality of
boards here and equality of hashes in Go), the choice by `Spec.prefer` (= `preferMove`), the replay.
`Spec.replay` replays a game by the rule book from a state; a game is legal iff it replays to `some _`.
Moves are raw `Tak.Move` values; `Sym.raw k n` is what `TransformMove` computes (`C14.transformMove_spec`).

The three theorems below hold for **every** board size, **every** legal game of any length (slides
included, games that stay self-symmetric for many plies included) and all eight maps.  They are instances of
a development that knows nothing about Tak (`Proofs/CanonAbstract.lean`: a group action commuting with the
step function, a strict preference order whose ties inside an orbit are equalities), instantiated through
C14's `step_equivariant` (`Proofs/CanonTak.lean`).
-/
namespace C15
open Spec Tak

/-- **The canonical form of a legal game is a legal game of the same length, and each of its prefixes leads
to a symmetric image of the position the same prefix of the original leads to.** -/
theorem canonical_legal_prefix_images (n : Nat) (ms : List Tak.Move) (pEnd : State)
    (h : replay (startState n) ms = some pEnd) :
    ∃ out, canon n ms = some out ∧ out.length = ms.length ∧
      ∀ t, t ≤ ms.length → ∃ (k : Sym) (pt : State),
        replay (startState n) (ms.take t) = some pt ∧
        replay (startState n) (out.take t) = some (k.state pt) := by
  obtain ⟨q, hq, -⟩ := replay_lift n (startWF n) ms pEnd h
  obtain ⟨out, h1, h2, h3⟩ := Canon.canon_legal_prefix_images (takSys n) (startWF n) q ms hq
  refine ⟨out, by rw [canon_eq]; exact h1, h2, ?_⟩
  intro t ht
  obtain ⟨k, pt, e1, e2⟩ := h3 t ht
  refine ⟨k, pt.1, ?_, ?_⟩
  · have := replay_proj n (ms.take t) (startWF n); rw [e1] at this; exact this.symm
  · have := replay_proj n (out.take t) (startWF n); rw [e2] at this; exact this.symm

/-- **All eight symmetric images of a legal game have the same canonical form.** -/
theorem canonical_orbit_invariant (n : Nat) (g : Sym) (ms : List Tak.Move) (pEnd : State)
    (h : replay (startState n) ms = some pEnd) :
    canon n (ms.map (g.raw n)) = canon n ms := by
  obtain ⟨q, hq, -⟩ := replay_lift n (startWF n) ms pEnd h
  rw [canon_eq, canon_eq]
  exact Canon.canon_orbit_invariant (takSys n) (startWF n) q
    (fun k => Subtype.ext (startState_sym k n)) g ms hq

/-- **Canonicalising a canonical form changes nothing.** -/
theorem canonical_idempotent (n : Nat) (ms out : List Tak.Move) (pEnd : State)
    (h : replay (startState n) ms = some pEnd) (hc : canon n ms = some out) :
    canon n out = some out := by
  obtain ⟨q, hq, -⟩ := replay_lift n (startWF n) ms pEnd h
  rw [canon_eq] at hc ⊢
  exact Canon.canon_idempotent (takSys n) (startWF n) q ms out hq hc

/-! ## the bit-level model

`Tak.canonical` mirrors the Go function: eight positions replayed through `Pos.apply`, the test
`st.p.Hash() == h`, `TransformMove` in int8 arithmetic on words of maps built by `compose`.  It computes
`Spec.canon` under the facts about the position code that C01 and C08 state (`Tak.PosFacts2 basis Inv Ok`:
`New` and `Move` keep an invariant `Inv` — C01's `WF basis`, with a piece budget ≤ 64 —; for pairs
satisfying C01's side condition `Ok` (not the pass move, 64-piece limit; true of every rule-book-legal move
under the budget) `Move` accepts exactly the moves the rule book allows and produces the position the rule book
says (`C01.move_refines`); the `k`-th rebuilt image shows the `k`-image; positions that show the same board,
reserves and ply have the same `Hash()` (`C08.hash_congr`)), and under `NoCollisionAt`: a position showing an image of a
canonical board of a prefix of the game has that board's hash only if it shows that board. -/

/-- **The model computes the list-level canonical form** of every game that has one (every legal game). -/
theorem canonical_refines {basis : Array W} {n : Nat} {Inv : Pos → Prop} {Ok : Pos → Tak.Move → Prop}
    (F : PosFacts2 basis n Inv Ok)
    (hn : n ∈ [3, 4, 5, 6, 7, 8]) (ms out : List Tak.Move) (hc : canon n ms = some out)
    (hnc : ∀ pre st, pre <+: ms → canonRun ⟨startState n, 0, []⟩ pre = some st → NoCollisionAt Inv st.b0) :
    Tak.canonical basis n ms = .ok out :=
  Tak.canonical_refines F hn ms out hc hnc

/-- **…and for the default games on 3×3 … 6×6 the hypotheses are theorems**: `PosFacts2` holds for C01's
invariant `WF basis` together with the piece budget ≤ 64 (`Tak.posFacts2_default`, from `C01.move_refines`,
`C08.hash_congr`, `C02`'s `analyze_ne_none`), so only the absence of hash collisions remains assumed. -/
theorem canonical_refines_default (basis : Array W) {n : Nat} (hn : n ∈ [3, 4, 5, 6]) (ms out : List Tak.Move)
    (hc : canon n ms = some out)
    (hnc : ∀ pre st, pre <+: ms → canonRun ⟨startState n, 0, []⟩ pre = some st →
      NoCollisionAt (InvB basis) st.b0) :
    Tak.canonical basis n ms = .ok out := by
  have h6 : n ≤ 6 := by simp at hn; omega
  have h8 : n ∈ [3, 4, 5, 6, 7, 8] := by simp at hn ⊢; omega
  exact Tak.canonical_refines (posFacts2_default basis n h6) h8 ms out hc hnc

/-- hence, for a legal game, the model's output is a legal game of the same length, prefix-wise an image of
the input, the same for each of the eight images of the game, and a fixed point — under the hypotheses of
`canonical_refines` for the game, its image and its canonical form respectively -/
theorem model_canonical_properties {basis : Array W} {n : Nat} {Inv : Pos → Prop} {Ok : Pos → Tak.Move → Prop}
    (F : PosFacts2 basis n Inv Ok)
    (hn : n ∈ [3, 4, 5, 6, 7, 8]) (g : Sym) (ms : List Tak.Move) (pEnd : State)
    (h : replay (startState n) ms = some pEnd)
    (NC : ∀ game : List Tak.Move, (game = ms ∨ game = ms.map (g.raw n) ∨ canon n ms = some game) →
      ∀ pre st, pre <+: game → canonRun ⟨startState n, 0, []⟩ pre = some st → NoCollisionAt Inv st.b0) :
    ∃ out, Tak.canonical basis n ms = .ok out ∧ out.length = ms.length ∧
      (∀ t, t ≤ ms.length → ∃ (k : Sym) (pt : State), replay (startState n) (ms.take t) = some pt ∧
        replay (startState n) (out.take t) = some (k.state pt)) ∧
      Tak.canonical basis n (ms.map (g.raw n)) = .ok out ∧
      Tak.canonical basis n out = .ok out := by
  obtain ⟨out, h1, h2, h3⟩ := canonical_legal_prefix_images n ms pEnd h
  refine ⟨out, canonical_refines F hn ms out h1 (NC ms (Or.inl rfl)), h2, h3, ?_, ?_⟩
  · exact canonical_refines F hn _ out (by rw [canonical_orbit_invariant n g ms pEnd h]; exact h1)
      (NC _ (Or.inr (Or.inl rfl)))
  · exact canonical_refines F hn out out (canonical_idempotent n ms out pEnd h h1) (NC out (Or.inr (Or.inr h1)))

/-- **C15 for the bit-level model on 3×3 … 6×6**, assuming only the absence of hash collisions: the model of
`Canonical` maps every legal game to a legal game of the same length whose prefixes reach images of the
original prefix positions, gives the same answer for all eight images of the game, and maps its own output to
itself. -/
theorem model_canonical_properties_default (basis : Array W) {n : Nat} (hn : n ∈ [3, 4, 5, 6]) (g : Sym)
    (ms : List Tak.Move) (pEnd : State) (h : replay (startState n) ms = some pEnd)
    (NC : ∀ game : List Tak.Move, (game = ms ∨ game = ms.map (g.raw n) ∨ canon n ms = some game) →
      ∀ pre st, pre <+: game → canonRun ⟨startState n, 0, []⟩ pre = some st → NoCollisionAt (InvB basis) st.b0) :
    ∃ out, Tak.canonical basis n ms = .ok out ∧ out.length = ms.length ∧
      (∀ t, t ≤ ms.length → ∃ (k : Sym) (pt : State), replay (startState n) (ms.take t) = some pt ∧
        replay (startState n) (out.take t) = some (k.state pt)) ∧
      Tak.canonical basis n (ms.map (g.raw n)) = .ok out ∧
      Tak.canonical basis n out = .ok out := by
  have h6 : n ≤ 6 := by simp at hn; omega
  have h8 : n ∈ [3, 4, 5, 6, 7, 8] := by simp at hn ⊢; omega
  exact model_canonical_properties (posFacts2_default basis n h6) h8 g ms pEnd h NC

/-- the list-level preference is the model's `preferMove` -/
theorem prefer_eq (l r : Tak.Move) : Spec.prefer l r = Tak.preferMove l r := rfl

/-! ## concrete instances (evaluated by the kernel) -/

def mv (x y : Int) : Tak.Move := ⟨x, y, Facts.mtPlaceFlat, 0#32⟩

/-- `a5 e5` on 5×5 is legal and canonicalises to `a1 e1` (a case of the repository's own test) -/
example : (replay (startState 5) [mv 0 4, mv 4 4]).isSome = true ∧
    canon 5 [mv 0 4, mv 4 4] = some [mv 0 0, mv 4 0] := by decide

/-- a game that is still self-symmetric after three plies (`a1 e5 c3` on 5×5): its image under the diagonal
flip is the same game, the rotation by 180° gives `e5 a1 c3`; all have the canonical form `a1 e5 c3` -/
example : canon 5 [mv 4 4, mv 0 0, mv 2 2] = some [mv 0 0, mv 4 4, mv 2 2] ∧
    canon 5 ([mv 4 4, mv 0 0, mv 2 2].map ((3 : Sym).raw 5)) = some [mv 0 0, mv 4 4, mv 2 2] := by decide

end C15
