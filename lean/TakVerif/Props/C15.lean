import TakVerif.Impl.Symmetry
namespace C15
open Tak
/-- placeholder until the real theorems land -/
theorem preferMove_irrefl (m : Move) : preferMove m m = false := by
  simp [preferMove]
end C15
