import TakVerif.Proofs.Bot
import TakVerif.Proofs.BotLock

/-! # C07 — the playtak bot's game record tracks the server under every interleaving

Model: `Tak.Bot` (`Impl/Bot.lean`), the transition system of `PlayGame`/`ObserveGame`/`handleMove` of
`playtak/bot/bot.go` **with** `fixes/C07-stale-answer.diff` (`cfg.fixed = true`; commit 53a64f1 in the
repository).  An event list is one interleaving: server lines (`deliver`), `close`, the lock hand-over to a thinker
(`grant k`), the return of `GetMove` of thinker `k` with an arbitrary move (`aiReturns k m` – at once, late, or after
its context was cancelled), and the expiry of the post-move grace timer (`timerFires`).  Events that are not
enabled are no-ops, so **every** list is a schedule; there is no bound on its length or on the game.

Outside the model (see MANIFEST): the fairness of the Go scheduler and real goroutine timing (events are atomic
at the `select`), lines in flight between server and bot, and the wire syntax (`ParseServer`'s answer is an input
of `deliver`). -/
namespace C07
open Tak Tak.Bot

/-- **The record tracks the server and every transmitted move is legal, on turn and fresh**, for every colour
(and the observer), every board size, every clock, every interleaving `evs` – whatever the AI answers and
whatever the server sends.  `Inv` (in `Spec/Bot.lean`) says: (1) unless the loop has panicked, `g.Positions`/`g.Moves`/`g.p`
equal the server's authoritative history; (2) every move ever passed to `SendCommand` was sent when the record's
position was the server's current position, the game was not over there, the move is legal there, it was sent with
the bot to move, and it is the answer of the thinker that was started on exactly that position; (3) nothing else was
transmitted as a move. -/
theorem bot_inv (cfg : Conf) (hfix : cfg.fixed = true) (size : Nat) (secs : Int) (evs : List Ev) :
    Inv cfg (run cfg (start cfg size secs) evs) :=
  (sinv_run hfix (sinv_start cfg size secs) evs).core.inv

/-- the same for the schedules the correspondence harness runs (`tieRun`: after every op the gated mock AI lets
already-cancelled thinkers run out); these are particular event lists, so this is a corollary of the lemmas
behind `bot_inv` and ties the theorem to the very runs that are compared with the Go code. -/
theorem bot_inv_tie (cfg : Conf) (hfix : cfg.fixed = true) (size : Nat) (secs : Int) (evs : List Ev) :
    Inv cfg (tieRun cfg (settle cfg (start cfg size secs)) evs) :=
  (sinv_tieRun hfix (sinv_run hfix (sinv_start cfg size secs) _) evs).core.inv

/-- **The loop ends exactly when the server ends the game.**  Under well-formed traffic (`TraceOK`: the server
announces only parsed moves that are legal in its own history, sends `Undo` only when there is something to
undo, `Over` with a result, `Time` with two fields, `Tell` with a `<name>`; checking an AI answer does not panic)
on a board of size 3..8 the loop has returned iff some delivered event was `Game#N Over …`, `Game#N Abandoned. …` or the close of the
connection. -/
theorem bot_ends_iff (cfg : Conf) (hfix : cfg.fixed = true) (size : Nat) (secs : Int) (evs : List Ev)
    (hsize : 3 ≤ size ∧ size ≤ 8)
    (hok : TraceOK cfg (start cfg size secs) evs) :
    (run cfg (start cfg size secs) evs).status = .ended ↔ ∃ e ∈ evs, isEnd cfg e := by
  have hstart := start_running cfg size secs hsize.1 hsize.2
  obtain ⟨h1, h2⟩ := run_status hfix (sinv_start cfg size secs) hstart evs hok
  constructor
  · intro he
    apply Classical.byContradiction
    intro hno
    rw [h2 hno] at he
    cases he
  · exact h1

/-- under the same hypotheses the protocol goroutine never panics -/
theorem bot_no_panic (cfg : Conf) (hfix : cfg.fixed = true) (size : Nat) (secs : Int) (evs : List Ev)
    (hsize : 3 ≤ size ∧ size ≤ 8)
    (hok : TraceOK cfg (start cfg size secs) evs) :
    ¬ (run cfg (start cfg size secs) evs).crashed := by
  have hstart := start_running cfg size secs hsize.1 hsize.2
  obtain ⟨h1, h2⟩ := run_status hfix (sinv_start cfg size secs) hstart evs hok
  rintro ⟨e, he⟩
  by_cases hend : ∃ e ∈ evs, isEnd cfg e
  · rw [h1 hend] at he; cases he
  · rw [h2 hend] at he; cases he

/-- **Nothing is transmitted into a finished game.**  `Position.Move` does not look at the end of the game, so a
slide would still be "legal" on a full board; what keeps the bot quiet is that the thinker of a finished position
is parked (`handleMove`: `if over, _ := p.GameOver(); over { <-moveCtx.Done() }`) whatever the result – road, flat
count or draw.  For every interleaving: at the moment of each transmission the server's game (= the record's
position) was not over. -/
theorem silent_after_game_over (cfg : Conf) (hfix : cfg.fixed = true) (size : Nat) (secs : Int) (evs : List Ev) :
    ∀ r ∈ (run cfg (start cfg size secs) evs).log, r.srvAt = some r.recAt ∧ r.recAt.gameOver.1 = false :=
  fun r hr => ⟨((bot_inv cfg hfix size secs evs).sends r hr).current, ((bot_inv cfg hfix size secs evs).sends r hr).live⟩

/-- **An observer never transmits a move** (`ObserveGame`: `g.Color = NoColor`), in any interleaving. -/
theorem observer_silent (cfg : Conf) (hfix : cfg.fixed = true) (hobs : cfg.color = .none) (size : Nat) (secs : Int)
    (evs : List Ev) : sentMoves (run cfg (start cfg size secs) evs) = [] := by
  have h := bot_inv cfg hfix size secs evs
  rw [h.logged]
  cases hl : (run cfg (start cfg size secs) evs).log with
  | nil => rfl
  | cons r rs =>
    have ht := (h.sends r (by rw [hl]; exact List.mem_cons_self)).onTurn
    rw [hobs] at ht
    unfold Pos.toMove at ht
    split at ht <;> cases ht

/-- **`moveLock` serialises the thinkers**: in every reachable state (either variant of the loop) at most one thinker
goroutine is inside `Bot.GetMove`, however many invocations have come and gone with their thinkers still waiting. -/
theorem lock_exclusive (cfg : Conf) (size : Nat) (secs : Int) (evs : List Ev) :
    holders (run cfg (start cfg size secs) evs) ≤ 1 :=
  holders_run cfg _ evs (holders_start cfg size secs)

/-! ## The pinned code: the invariant is not inductive

`cfg.fixed = false` is the loop as it was before 53a64f1: after a server move it keeps selecting on the channel
of the thinker it started on the previous position. -/

def zeroBasis : Array W := Array.replicate 64 0#64
def flat (x y : Int) : Move := { x := x, y := y, type := Facts.mtPlaceFlat, slides := 0 }
def white (fixed : Bool) : Conf := { basis := zeroBasis, color := .white, gameStr := "Game#100", fixed := fixed }

/-- resume: the server replays `a1` and `e1`; the thinker started on the empty board then answers `c3` -/
def staleTrace : List Ev :=
  [.grant 0,
   .deliver ["Game#100", "P", "A1"] (some (flat 0 0)) false,
   .deliver ["Game#100", "P", "E1"] (some (flat 4 0)) false,
   .aiReturns 0 (flat 2 2)]

/-- on the pinned transition relation the answer computed for ply 0 is transmitted at ply 2:
the invariant fails (its freshness clause) after four events -/
theorem stale_answer_counterexample :
    ¬ Inv (white false) (run (white false) (start (white false) 5 600) staleTrace) := by
  intro h
  have hf : ∀ r ∈ (run (white false) (start (white false) 5 600) staleTrace).log, r.tag = r.recAt :=
    fun r hr => (h.sends r hr).fresh
  revert hf
  decide +kernel

/-- … and after a single replayed move it is transmitted out of turn, the server refuses it, and the record no
longer equals the server's history -/
theorem stale_answer_out_of_turn :
    let s := run (white false) (start (white false) 5 600)
      [.grant 0, .deliver ["Game#100", "P", "A1"] (some (flat 0 0)) false, .aiReturns 0 (flat 2 2)]
    s.sent = [.move (flat 2 2)] ∧ s.moves ≠ s.srvMoves ∧ s.status = .running := by
  decide +kernel

/-! ## Non-vacuity: concrete runs of the fixed model -/

/-- the same resume schedule on the fixed loop: nothing is transmitted, the record has the two replayed moves -/
example :
    let s := run (white true) (start (white true) 5 600) staleTrace
    s.sent = [] ∧ s.moves = [flat 4 0, flat 0 0] ∧ s.listening = false ∧ s.timeout = true := by
  decide +kernel

/-- a stretch of ordinary play with an undo and the end of the game: the bot (White) answers `a1`; the
opponent's `e1` arrives with its clock line; the stale thinker runs out, the new one answers `e3`; the opponent
asks to undo, the bot agrees, the server undoes `e3`; the bot plays `e2` instead; `Over` ends the loop.
Three moves and one `RequestUndo` were transmitted, record and server agree, the loop has ended. -/
def playTrace : List Ev :=
  [.grant 0, .aiReturns 0 (flat 0 0),
   .grant 1,
   .deliver ["Game#100", "P", "E1"] (some (flat 4 0)) false,
   .deliver ["Game#100", "Time", "590", "600"] none false,
   .aiReturns 1 zeroMove,
   .grant 2, .aiReturns 2 (flat 4 2),
   .grant 3,
   .deliver ["Game#100", "RequestUndo"] none true,
   .deliver ["Game#100", "Undo"] none false,
   .aiReturns 3 zeroMove,
   .grant 4, .aiReturns 4 (flat 4 1),
   .deliver ["Shout", "<Opp>", "gg"] none false,
   .deliver ["Game#100", "Over", "R-0"] none false]

example :
    let s := run (white true) (start (white true) 5 600) playTrace
    s.sent = [.move (flat 0 0), .move (flat 4 2), .requestUndo, .move (flat 4 1)] ∧
    s.moves = [flat 4 1, flat 4 0, flat 0 0] ∧ s.moves = s.srvMoves ∧ s.positions = s.srvPos ∧
    s.log.length = 3 ∧ s.status = .ended ∧ s.result = "R-0" ∧ s.mine = 590000000000 := by
  decide +kernel

/-- an observer's run: it follows two moves and an undo, transmits nothing, and ends with the game -/
example :
    let cfg : Conf := { basis := zeroBasis, color := .none, gameStr := "Game#7", fixed := true }
    let s := run cfg (start cfg 5 600)
      [.grant 0, .deliver ["Game#7", "P", "A1"] (some (flat 0 0)) false, .timerFires, .aiReturns 0 (flat 3 3), .grant 1,
       .deliver ["Game#7", "P", "E1"] (some (flat 4 0)) false, .deliver ["Game#7", "Undo"] none false,
       .aiReturns 1 (flat 3 3), .deliver ["Game#7", "Abandoned.", "x", "quit"] none false]
    s.sent = [] ∧ s.moves = [flat 0 0] ∧ s.status = .ended ∧ s.old.length = 2 := by
  decide +kernel

/-- a drawn game: 3×3, `b3 a3 c3 a2 Sb2 c2 a1 b1 c1` fills the board with four flats each.  The bot is Black; after
White's last move it is nominally Black's turn, the clock line re-enters `handleMove` before `Over` arrives – and
the thinker is parked: the lock is not taken, an "answer" (the slide `b3<`, which `Position.Move` would accept) has
nobody to deliver it, nothing is transmitted; `Over` then ends the loop. -/
def drawTrace : List Ev :=
  let gs := "Game#100"
  let srv (w : String) (m : Move) : List Ev :=
    [.deliver ([gs, "P"] ++ w.splitOn " ") (some m) false, .deliver [gs, "Time", "590", "590"] none false]
  srv "B3" (flat 1 2) ++ [.grant 1, .aiReturns 1 (flat 0 2)] ++
  srv "C3" (flat 2 2) ++ [.grant 3, .aiReturns 3 (flat 0 1)] ++
  srv "B2 W" { x := 1, y := 1, type := Facts.mtPlaceStanding, slides := 0 } ++ [.grant 5, .aiReturns 5 (flat 2 1)] ++
  srv "A1" (flat 0 0) ++ [.grant 7, .aiReturns 7 (flat 1 0)] ++
  srv "C1" (flat 2 0) ++
  [.grant 9, .aiReturns 9 { x := 1, y := 2, type := Facts.mtSlideLeft, slides := 1 }, .timerFires]

def black : Conf := { basis := zeroBasis, color := .black, gameStr := "Game#100", fixed := true }

example :
    let s := run black (start black 3 600) drawTrace
    s.p.gameOver = (true, .none) ∧ s.p.toMove = .black ∧ s.listening = true ∧ s.cur.st = .idle ∧ holders s = 0 ∧
    s.sent = [.move (flat 0 2), .move (flat 0 1), .move (flat 2 1), .move (flat 1 0)] ∧ s.moves.length = 9 ∧
    Legal zeroBasis s.p { x := 1, y := 2, type := Facts.mtSlideLeft, slides := 1 } ∧
    s.status = .running ∧
    (run black s [.deliver ["Game#100", "Over", "1/2-1/2"] none false]).status = .ended := by
  decide +kernel

/-- in `playTrace` a thinker does hold the lock at times (after the 13th event thinker 4 is inside `GetMove`) -/
example : holders (run (white true) (start (white true) 5 600) (playTrace.take 13)) = 1 := by decide +kernel

/-- the hypotheses of `bot_ends_iff`/`bot_no_panic` hold of this run (sixteen events: moves, clock, undo traffic,
chat, five thinkers, `Over`), and so do their conclusions -/
example :
    TraceOK (white true) (start (white true) 5 600) playTrace ∧
    (∃ e ∈ playTrace, isEnd (white true) e) := by
  decide +kernel

example : (run (white true) (start (white true) 5 600) playTrace).status = .ended :=
  (bot_ends_iff (white true) rfl 5 600 playTrace (by decide) (by decide +kernel)).mpr (by decide +kernel)

/-- … and a run the server has not ended keeps going: the same schedule without its last line -/
example : (run (white true) (start (white true) 5 600) playTrace.dropLast).status ≠ .ended := by
  intro h
  have := (bot_ends_iff (white true) rfl 5 600 playTrace.dropLast (by decide) (by decide +kernel)).mp h
  revert this
  decide +kernel

end C07
