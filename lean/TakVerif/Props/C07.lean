import TakVerif.Impl.Bot
namespace C07
open Tak Tak.Bot

/-- placeholder while the invariant proof lands: a crashed loop stays crashed -/
theorem crashed_absorbing (cfg : Conf) (s : St) (e : Err) (ev : Ev) (h : s.status = .crashed e)
    (hk : ∀ k m, ev ≠ .grant k ∧ ev ≠ .aiReturns k m) : (step cfg s ev).status = .crashed e := by
  cases ev with
  | deliver b p a => simp [step, h]
  | close => simp [step, h]
  | timerFires => simp [step, h]
  | grant k => exact absurd rfl (hk k default).1
  | aiReturns k m => exact absurd rfl (hk k m).2
end C07
