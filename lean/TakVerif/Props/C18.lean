import TakVerif.Proofs.EvalTerminal
import TakVerif.Proofs.Road
import TakVerif.Proofs.EvalTotal

/-! # C18 — heuristic scores never enter the range reserved for decided games

Model: `Tak.evaluate` / `Tak.evaluateTerminal` / `Tak.evaluateWinner` (`Impl/Evaluate.lean`, mirror of
`ai/evaluate.go`), constants and weight tables from `Generated/FactsEval.lean`.
`C18.B w n` (`Proofs/EvalBound.lean`) is an explicit bound, linear in the `|w f|`, derived feature by
feature from size facts only (a popcount is ≤ 64, a `uint8` height < 256, `FloodGroups` returns ≤ 65 groups);
`C18.Analyzed p` says that the group lists stored in `p` are the ones `analyze()` computes. -/
namespace C18
open Tak

/-- the built-in weight sets: `ai.DefaultWeights[0..8]` (as built by `init`), `easyWeights`, `medWeights` -/
def builtinWeights : List Weights := DefaultWeights ++ [Facts.easyWeights, Facts.medWeights]

/-- **Bound.** For EVERY state `p` whose game is not over (any bitboards, any `uint8` heights, any reserves,
any ply; only the group lists must be the analysed ones), every `Constants` value `c` and every weight
vector `w`: a value returned by `evaluate` lies within `±B w n`, `n` the number of squares. -/
theorem eval_abs_le (c : Consts) (w : Weights) (p : Pos) (ha : Analyzed p) (hno : p.gameOver.1 = false)
    (v : Int) (h : evaluate c w p = .ok v) :
    -(B w p.height.size) ≤ v ∧ v ≤ B w p.height.size :=
  evaluate_bound c w p ha hno v h

/-- **The bound is below the threshold** for every built-in weight set on boards of up to 64 squares
(re-checked by the kernel whenever a weight or a constant changes in the source). -/
theorem B_lt_threshold : ∀ w ∈ builtinWeights, B w 64 < Facts.winThreshold := by decide

/-- **Undecided games evaluate strictly inside the undecided range** (sizes 3..8: at most 64 squares). -/
theorem heuristic_inside (c : Consts) (w : Weights) (hw : w ∈ builtinWeights) (p : Pos) (ha : Analyzed p)
    (hn : p.height.size ≤ 64) (hno : p.gameOver.1 = false) (v : Int) (h : evaluate c w p = .ok v) :
    -Facts.winThreshold < v ∧ v < Facts.winThreshold := by
  have h1 := eval_abs_le c w p ha hno v h
  have h2 := B_mono w _ _ hn
  have h3 := B_lt_threshold w hw
  omega

/-- the terminal bonuses of every built-in weight set keep a finished game outside the undecided range
and inside `[MinEval, MaxEval]` for plies `0 … 2·10^6` -/
theorem builtin_termOK : ∀ w ∈ builtinWeights, TermOK w 2000000 := by decide

/-- **Finished games evaluate outside the undecided range, with the sign of winner-vs-mover, 0 for a draw.**
Hypothesis on the ply: `0 ≤ ply ≤ 2·10^6` (see `terminal_beyond_bound` for what the code does later). -/
theorem terminal_outside (c : Consts) (w : Weights) (hw : w ∈ builtinWeights) (p : Pos)
    (hover : p.gameOver.1 = true) (hs : p.cfg.size ≤ 8) (h0 : 0 ≤ p.move) (hN : p.move ≤ 2000000) :
    ∃ v, evaluate c w p = .ok v ∧
      (p.gameOver.2 = .none → v = 0) ∧
      (p.gameOver.2 ≠ .none → p.gameOver.2 = p.toMove → Facts.winThreshold < v ∧ v ≤ Facts.maxEval) ∧
      (p.gameOver.2 ≠ .none → p.gameOver.2 ≠ p.toMove → Facts.minEval ≤ v ∧ v < -Facts.winThreshold) := by
  refine ⟨evaluateTerminal p w, evaluate_over c w p hover, ?_⟩
  obtain ⟨c0, c1, c2⟩ := evaluateTerminal_cases p w
  have hb := terminalValue_bounds p w 2000000 (by omega) h0 hN
  have hok := builtin_termOK w hw
  unfold TermOK at hok
  have e : Facts.minEval = -Facts.maxEval := by decide
  refine ⟨c0, ?_, ?_⟩
  · intro a b; rw [c1 a b]; omega
  · intro a b; rw [c2 a b]; omega

/-- **The winner-only evaluator**: 0 unless the game is over; then 0 for a draw and `±WinBase` with the
sign of winner-vs-mover; `WinBase` lies strictly beyond the threshold and within `MaxEval`. -/
theorem winner_eval_spec (p : Pos) :
    (p.gameOver.1 = false → evaluateWinner p = 0) ∧
    (p.gameOver.1 = true → p.gameOver.2 = .none → evaluateWinner p = 0) ∧
    (p.gameOver.1 = true → p.gameOver.2 ≠ .none → p.gameOver.2 = p.toMove → evaluateWinner p = Facts.winBase) ∧
    (p.gameOver.1 = true → p.gameOver.2 ≠ .none → p.gameOver.2 ≠ p.toMove → evaluateWinner p = -Facts.winBase) ∧
    Facts.winThreshold < Facts.winBase ∧ Facts.winBase ≤ Facts.maxEval := by
  unfold evaluateWinner
  refine ⟨?_, ?_, ?_, ?_, by decide, by decide⟩
  · intro h; simp [h]
  · intro h1 h2; simp [h1, h2]
  · intro h1 h2 h3
    have h4 : ¬ (p.toMove = Color.none) := by rw [← h3]; exact h2
    simp [h1, h3, h4]
  · intro h1 h2 h3; simp [h1, h2, h3]

/-- **"Hence a value beyond the win threshold always denotes a finished game."** -/
theorem beyond_threshold_is_over (c : Consts) (w : Weights) (hw : w ∈ builtinWeights) (p : Pos) (ha : Analyzed p)
    (hn : p.height.size ≤ 64) (v : Int) (h : evaluate c w p = .ok v)
    (hv : v ≤ -Facts.winThreshold ∨ Facts.winThreshold ≤ v) : p.gameOver.1 = true := by
  cases hgo : p.gameOver.1 with
  | true => rfl
  | false => have := heuristic_inside c w hw p ha hn hgo v h; omega

/-- What the real code does beyond the ply bound (outside the property's domain, "several hundred plies"):
with the default weights (`Terminal_Plies = -100`) the terminal value of a game won at ply ≥ 2 685 000 is
no longer above the threshold — a finished game then scores like an undecided one, and from ply ≈ 8.06·10^6
on the sign flips.  So `terminal_outside` needs a ply hypothesis; 2·10^6 is safe for every built-in set. -/
theorem terminal_beyond_bound (p : Pos) (hs : p.cfg.size ≤ 8) (hN : 2685000 ≤ p.move) :
    terminalValue p Facts.evalDefaultWeights ≤ Facts.winThreshold := by
  obtain ⟨res, fl, opp, h1, h2, h3, h4, h5, h6, e⟩ := terminalValue_form p Facts.evalDefaultWeights (by omega)
  have e1 : Weights.at Facts.evalDefaultWeights Facts.fTerminalPlies = -100 := by decide
  have e2 : Weights.at Facts.evalDefaultWeights Facts.fTerminalReserves = 1 := by decide
  have e3 : Weights.at Facts.evalDefaultWeights Facts.fTerminalFlats = 500 := by decide
  have e4 : Weights.at Facts.evalDefaultWeights Facts.fTerminalOpponentReserves = 10 := by decide
  have e5 : Facts.winBase = 805306368 := by decide
  have e6 : Facts.winThreshold = 536870912 := by decide
  rw [e, e1, e2, e3, e4, e5, e6]
  omega

end C18

/-! ### the same in the rule book's terms (game end = `Spec.outcome` of the list-level position, by C02) -/
namespace C18
open Tak Roads

/-- **C18, first half, rule-book form.**  On a well-formed board (C02's `RoadWF`: sizes 3..8, bitboards on
the board and disjoint, groups = `analyze`) of at most 64 squares whose game is *not over by the rules of Tak*, every built-in weight set gives a value
strictly inside the undecided range. -/
theorem undecided_inside_rules (c : Consts) (w : Weights) (hw : w ∈ builtinWeights) (p : Pos) (wf : RoadWF p)
    (hn : p.height.size ≤ 64) (hno : (Spec.outcome (Spec.abs p)).over = false)
    (v : Int) (h : evaluate c w p = .ok v) : -Facts.winThreshold < v ∧ v < Facts.winThreshold := by
  have hg := gameOver_refines p wf
  have h1 : p.gameOver.1 = false := by rw [hg]; exact hno
  exact heuristic_inside c w hw p (analyze_analyzed p p wf.analyzed) hn h1 v h

/-- **C18, second half, rule-book form.**  Game over by the rules, ply in `0 … 2·10^6`: the value is 0 for a
draw, above the threshold (and ≤ MaxEval) when the winner is the side to move, below minus the threshold (and
≥ MinEval) when it is the other side. -/
theorem finished_outside_rules (c : Consts) (w : Weights) (hw : w ∈ builtinWeights) (p : Pos) (wf : RoadWF p)
    (hover : (Spec.outcome (Spec.abs p)).over = true) (h0 : 0 ≤ p.move)
    (hN : p.move ≤ 2000000) :
    ∃ v, evaluate c w p = .ok v ∧
      ((Spec.outcome (Spec.abs p)).winner = .none → v = 0) ∧
      ((Spec.outcome (Spec.abs p)).winner ≠ .none → (Spec.outcome (Spec.abs p)).winner = p.toMove →
        Facts.winThreshold < v ∧ v ≤ Facts.maxEval) ∧
      ((Spec.outcome (Spec.abs p)).winner ≠ .none → (Spec.outcome (Spec.abs p)).winner ≠ p.toMove →
        Facts.minEval ≤ v ∧ v < -Facts.winThreshold) := by
  have hg := gameOver_refines p wf
  have h1 : p.gameOver.1 = true := by rw [hg]; exact hover
  have h2 : p.gameOver.2 = (Spec.outcome (Spec.abs p)).winner := by rw [hg]
  have := terminal_outside c w hw p h1 wf.size_ok.2 h0 hN
  rw [h2] at this
  exact this

end C18

/-! ### `evaluate` always returns on well-formed positions -/
namespace C18
open Tak Roads

/-- **No panic, no hang.**  On every well-formed position (C02's board invariant; `Stacks` at least as long as
`Height`) `evaluate` returns a value, for any weight vector: the computed index `ws[Groups+w]` of
`scoreGroups` stays inside `Weights` (a group that is no road is at most `size` wide and high) and the loops
of `Dimensions` terminate. -/
theorem eval_total (w : Weights) (p : Pos) (wf : RoadWF p) (hst : p.height.size ≤ p.stacks.size) :
    ∃ v, evaluate p.c w p = .ok v :=
  evaluate_total w p wf hst

/-- **C18 in one statement** for the constants the engine uses (`c = Precompute(size)`), in the rule book's
terms: a value is always returned, within `[MinEval, MaxEval]`; it is strictly inside
`(-WinThreshold, WinThreshold)` when the game is not over; for a finished game (ply ≤ 2·10^6) it is 0 for a draw and beyond the threshold with the sign of
winner-vs-mover otherwise. -/
theorem c18 (w : Weights) (hw : w ∈ builtinWeights) (p : Pos) (wf : RoadWF p)
    (hh : p.height.size ≤ 64) (hst : p.height.size ≤ p.stacks.size) (h0 : 0 ≤ p.move) (hN : p.move ≤ 2000000) :
    ∃ v, evaluate p.c w p = .ok v ∧ Facts.minEval ≤ v ∧ v ≤ Facts.maxEval ∧
      ((Spec.outcome (Spec.abs p)).over = false → -Facts.winThreshold < v ∧ v < Facts.winThreshold) ∧
      ((Spec.outcome (Spec.abs p)).over = true → (Spec.outcome (Spec.abs p)).winner = .none → v = 0) ∧
      ((Spec.outcome (Spec.abs p)).over = true → (Spec.outcome (Spec.abs p)).winner ≠ .none →
        (Spec.outcome (Spec.abs p)).winner = p.toMove → Facts.winThreshold < v) ∧
      ((Spec.outcome (Spec.abs p)).over = true → (Spec.outcome (Spec.abs p)).winner ≠ .none →
        (Spec.outcome (Spec.abs p)).winner ≠ p.toMove → v < -Facts.winThreshold) := by
  obtain ⟨v, hv⟩ := eval_total w p wf hst
  have e1 : Facts.minEval = -Facts.maxEval := by decide
  have e2 : Facts.winThreshold ≤ Facts.maxEval := by decide
  have e3 : (0 : Int) ≤ Facts.winThreshold := by decide
  cases hov : (Spec.outcome (Spec.abs p)).over with
  | false =>
    have hin := undecided_inside_rules p.c w hw p wf hh hov v hv
    refine ⟨v, hv, by omega, by omega, fun _ => hin, ?_, ?_, ?_⟩ <;> intro h <;> cases h
  | true =>
    obtain ⟨v', hv', c0, c1, c2⟩ := finished_outside_rules p.c w hw p wf hov h0 hN
    rw [hv] at hv'
    have : v = v' := Except.ok.inj hv'
    subst this
    by_cases hwn : (Spec.outcome (Spec.abs p)).winner = .none
    · have := c0 hwn
      refine ⟨v, hv, by omega, by omega, (fun h => by cases h), fun _ _ => this, ?_, ?_⟩
      · intro _ h; exact absurd hwn h
      · intro _ h; exact absurd hwn h
    · by_cases hm : (Spec.outcome (Spec.abs p)).winner = p.toMove
      · have := c1 hwn hm
        refine ⟨v, hv, by omega, by omega, (fun h => by cases h), fun _ h => absurd h hwn, fun _ _ _ => this.1, ?_⟩
        intro _ _ h; exact absurd hm h
      · have := c2 hwn hm
        refine ⟨v, hv, by omega, by omega, (fun h => by cases h), fun _ h => absurd h hwn, ?_, fun _ _ _ => this.2⟩
        intro _ _ h; exact absurd h hm

end C18

/-! ### the hypotheses are satisfiable: concrete instances (kernel-evaluated) -/
namespace C18
open Tak Roads

instance : DecidableEq (Except Err Int) := fun a b =>
  match a, b with
  | .ok x, .ok y => if h : x = y then isTrue (by rw [h]) else isFalse (fun e => h (Except.ok.inj e))
  | .error x, .error y => if h : x = y then isTrue (by rw [h]) else isFalse (fun e => h (Except.error.inj e))
  | .ok _, .error _ => isFalse (fun e => by cases e)
  | .error _, .ok _ => isFalse (fun e => by cases e)

instance (p : Pos) : Decidable (Analyzed p) := by unfold Analyzed; infer_instance

/-- build a position like `tak.FromSquares` does (hash basis irrelevant here) -/
def mk (size : Nat) (board : List (List Nat)) (ply : Int) : Pos :=
  match Pos.fromSquares #[] { size := size, pieces := 0, capstones := 0, blackWinsTies := false } board ply with
  | .ok p => p
  | .error _ => default

def wF : Nat := Facts.colorWhite ||| Facts.kindFlat
def bF : Nat := Facts.colorBlack ||| Facts.kindFlat
def wC : Nat := Facts.colorWhite ||| Facts.kindCapstone
def bS : Nat := Facts.colorBlack ||| Facts.kindStanding

/-- 5×5 after a few moves, white to move: a white capstone stack on an own flat, a black wall, two groups -/
def midgame : Pos :=
  mk 5 [[wF], [wF], [], [], [],
        [bF], [wC, wF, bF], [], [bS], [],
        [bF], [bF], [], [], [],
        [], [], [], [], [],
        [], [], [], [], [wF]] 12

/-- 3×3, white road along the bottom row, black to move at ply 5 -/
def whiteRoad : Pos := mk 3 [[wF], [wF], [wF], [bF], [bF], [], [], [], []] 5

example : Analyzed midgame ∧ midgame.gameOver.1 = false ∧ midgame.height.size ≤ 64 ∧
    evaluate midgame.c Facts.evalDefaultWeights midgame = .ok 760 := by decide +kernel

example : RoadWF midgame := ((wfBoardB_iff _).mp (by decide +kernel)).toRoadWF
example : midgame.height.size ≤ midgame.stacks.size ∧ 0 ≤ midgame.move := by decide +kernel

example : Facts.evalDefaultWeights ∈ builtinWeights ∧ Facts.medWeights ∈ builtinWeights := by decide

example : whiteRoad.gameOver = (true, Color.white) ∧ whiteRoad.toMove = Color.black ∧ whiteRoad.cfg.size ≤ 8 ∧
    0 ≤ whiteRoad.move ∧ whiteRoad.move ≤ 2000000 ∧
    evaluate whiteRoad.c Facts.evalDefaultWeights whiteRoad = .ok (-805307455) := by decide +kernel

example : evaluateWinner whiteRoad = -Facts.winBase := by decide +kernel

/-- the ply hypothesis of `terminal_outside` matters: the same finished board at ply 2 700 001 scores inside the
undecided range with the default weights -/
example : evaluate whiteRoad.c Facts.evalDefaultWeights { whiteRoad with move := 2700001 } = .ok (-535307855) ∧
    (535307855 : Int) < Facts.winThreshold := by decide +kernel

end C18
