import TakVerif.Impl.Evaluate
namespace C18
theorem placeholder : True := trivial
end C18
