import TakVerif.Props.C06_dfpn
import TakVerif.Props.C06_tak
import TakVerif.Proofs.DFPNTak

/-! # C06 for the real game — the depth-first solver on the bit-level Tak model

`takProveWith` (`Impl/DFPN.lean`) is `DFPNSolver.Prove` with `takGame basis` (`AllMoves`,
`MovePreallocated`, `GameOver`), `takHash` (`Position.Hash`) and `takThreats` (`ai.CountThreats`).  The
assumptions of `Props/C06_dfpn.lean` are discharged (`Proofs/DFPNTak.lean`: alternation; 1 ≤ |`AllMoves`|
< 2³² in unfinished positions; a threat reported for the mover is a real winning move — C19, from ply 2
on; `Position.Equal` positions have the same forced wins — C01/C02/C03 via the rule book) except two
about the 64-bit hash (`TakHashOK`): on the unfinished positions of `Dom`, `Hash() ≠ 0`, and equal hashes
only for positions that `Equal` identifies.  `Dom` is any set of positions closed under play inside the
invariant of one game configuration, from ply 2 on (`TakDomOK`), e.g. everything reachable from a
well-formed root (`takDomOK_reach`); the roots of all `Prove` calls on one solver must lie in it. -/
namespace C06
open Tak Tak.PN Tak.DFPN Spec.Game

/-- the solvers that working for `att` on positions of `Dom` can produce (see `History`) -/
abbrev TakHistory (basis : Array W) (scale : UInt32 → UInt32) (att : Color) (Dom : Pos → Prop) :=
  History (takGame basis) takHash takThreats scale att Dom

/-- **`proven` is sound for Tak**, in the bit-level game and by the rule book (also under the repetition
rule): the attacker — the configured colour, or the side to move of the solver's first root — has a
forced win at `pos`, whoever is to move there. -/
theorem dfpn_proven_sound_tak (basis : Array W) (scale : UInt32 → UInt32) (root0 : Pos) (Dom : Pos → Prop)
    (hd : TakDomOK basis root0 Dom) (hh : TakHashOK Dom) (att : Color) (ha : att = .white ∨ att = .black)
    {d d' : Solver Move} (hist : TakHistory basis scale att Dom d) {fuel : Nat} {pos : Pos} (hpos : Dom pos)
    (hlatch : d.attacker = .none → pos.toMove = att) {r : DFPN.Result Move} {s : DFPN.Stats}
    (hrun : DFPN.takProveWith basis scale fuel d pos = .ok (r, s, d')) (hres : r.result = .proven) :
    PlainWin (takGame basis) att pos ∧ PlainWin Spec.ruleGame att (Spec.abs pos) ∧
      ForcedWin Spec.ruleGame att (Spec.abs pos) := by
  have hk := tak_dfpnOK basis root0 Dom hd hh att ha false
  have hw : PlainWin (takGame basis) att pos := dfpn_proven_sound hk hist hpos hlatch hrun hres
  have hi := (hd.inv pos hpos).invB
  have hana := (hd.inv pos hpos).ana
  exact ⟨hw, (plainWin_tak_iff_rules basis pos hi hana att).mp hw,
    (forcedWin_tak_iff_rules basis pos hi hana att).mp ((plainWin_iff_forcedWin_tak basis pos hi hana att).mp hw)⟩

/-- **the move returned with `proven`** (attacker to move at `pos`): a move of `AllMoves` that
`MovePreallocated` accepts — legal by the rule book — after which the attacker still has a forced win. -/
theorem dfpn_move_sound_tak (basis : Array W) (scale : UInt32 → UInt32) (root0 : Pos) (Dom : Pos → Prop)
    (hd : TakDomOK basis root0 Dom) (hh : TakHashOK Dom) (att : Color) (ha : att = .white ∨ att = .black)
    {d d' : Solver Move} (hist : TakHistory basis scale att Dom d) {fuel : Nat} {pos : Pos} (hpos : Dom pos)
    (hlatch : d.attacker = .none → pos.toMove = att) {r : DFPN.Result Move} {s : DFPN.Stats}
    (hrun : DFPN.takProveWith basis scale fuel d pos = .ok (r, s, d')) (hres : r.result = .proven)
    (hroot : pos.toMove = att) {m : Move} (hm : r.move = some m) :
    m ∈ pos.allMoves ∧ m ∈ Spec.legalMoves (Spec.abs pos) ∧
      ∃ q, pos.apply basis m = .ok q ∧ Spec.step (Spec.abs pos) (Spec.decode m) = some (Spec.abs q) ∧
        PlainWin (takGame basis) att q ∧ PlainWin Spec.ruleGame att (Spec.abs q) := by
  have hk := tak_dfpnOK basis root0 Dom hd hh att ha false
  obtain ⟨h1, q, h2, h3⟩ := dfpn_move_sound hk hist hpos hlatch hrun hres hroot hm
  have hi := (hd.inv pos hpos).invB
  have hana := (hd.inv pos hpos).ana
  have hap : pos.apply basis m = .ok q := takGame_apply_some.mp h2
  have hq := (succ_abs (basis := basis) ⟨hi, hana⟩ ⟨m, h1, h2⟩).1
  have hnp := gen_not_pass hi.1.size_le h1
  obtain ⟨_, hst⟩ := invB_step hi hnp hap
  exact ⟨h1, (mem_legalMoves_iff ⟨hi, hana⟩ m).mpr ⟨h1, by rw [hst]; rfl⟩, q, hap, hst, h3, plainWin_abs hq h3⟩

/-- **`disproven` is sound for Tak while the solver has never met a repetition** (ghost flag down after
the call): no forced win of the attacker, in the bit-level game and by the rule book, with or without
the repetition rule.  Without the condition the statement is false for the solver as an algorithm
(`dfpn_disproven_statement_false`); on Tak no failing run is known. -/
theorem dfpn_disproven_partial_tak (basis : Array W) (scale : UInt32 → UInt32) (root0 : Pos) (Dom : Pos → Prop)
    (hd : TakDomOK basis root0 Dom) (hh : TakHashOK Dom) (att : Color) (ha : att = .white ∨ att = .black)
    {d d' : Solver Move} (hist : TakHistory basis scale att Dom d) {fuel : Nat} {pos : Pos} (hpos : Dom pos)
    (hlatch : d.attacker = .none → pos.toMove = att) {r : DFPN.Result Move} {s : DFPN.Stats}
    (hrun : DFPN.takProveWith basis scale fuel d pos = .ok (r, s, d')) (hclean : d'.st.ghostRep = false)
    (hres : r.result = .disproven) :
    ¬ PlainWin (takGame basis) att pos ∧ ¬ PlainWin Spec.ruleGame att (Spec.abs pos) ∧
      ¬ ForcedWin Spec.ruleGame att (Spec.abs pos) := by
  have hk := tak_dfpnOK basis root0 Dom hd hh att ha true
  obtain ⟨hw, _⟩ := dfpn_disproven_partial hk hist hpos hlatch hrun hclean hres
  have hi := (hd.inv pos hpos).invB
  have hana := (hd.inv pos hpos).ana
  refine ⟨hw, fun w => hw ((plainWin_tak_iff_rules basis pos hi hana att).mpr w), fun w => hw ?_⟩
  exact Win.plain (takGame basis) att ((forcedWin_tak_iff_rules basis pos hi hana att).mpr w)

/-- `NewDFPN(cfg).Prove(pos)` on a fresh solver, `Dom` = the positions reachable from `pos`: `proven` means
a forced win of the configured attacker (`a = Color.none`: of the side to move), by the rule book. -/
theorem dfpn_prove_proven_sound_tak (basis : Array W) (scale : UInt32 → UInt32) (pos : Pos)
    (hi : InvB basis pos) (hana : pos.analyze = some pos) (hply : 2 ≤ pos.move)
    (hh : TakHashOK (Reach (takGame basis) pos)) (a : Color) {fuel entries : Nat}
    {r : DFPN.Result Move} {s : DFPN.Stats}
    (hrun : DFPN.takProve basis scale fuel a entries pos = .ok (r, s)) (hres : r.result = .proven) :
    PlainWin Spec.ruleGame (if a = .none then pos.toMove else a) (Spec.abs pos) := by
  have hd := takDomOK_reach basis pos hi hana hply
  unfold DFPN.takProve DFPN.prove at hrun
  split at hrun
  · cases hrun
  · rename_i r' s' d' hrun'
    simp only [Except.ok.injEq, Prod.mk.injEq] at hrun
    obtain ⟨rfl, rfl⟩ := hrun
    have hwb : ∀ c : Color, c ≠ .none → c = .white ∨ c = .black := by intro c; cases c <;> simp
    by_cases hnone : a = .none
    · subst hnone
      simp only [if_true]
      exact (dfpn_proven_sound_tak basis scale pos _ hd hh pos.toMove (Tak.toMove_cases pos)
        (.fresh .none entries (Or.inr rfl)) .refl (fun _ => rfl) hrun' hres).2.1
    · simp only [hnone, if_false]
      exact (dfpn_proven_sound_tak basis scale pos _ hd hh a (hwb a hnone)
        (.fresh a entries (Or.inl rfl)) .refl (fun h => absurd h hnone) hrun' hres).2.1

/-! ### concrete runs of the model on 3×3 positions (kernel-evaluated) -/

def exScale (d : UInt32) : UInt32 := d + d / 10

/-- `ex3` (White to move wins with c1): a well-formed root from ply 2 on, and the run ends `proven`
(the winning child is recognised while generating the children: no move is returned) -/
example : InvB Ex.basis ex3 ∧ ex3.analyze = some ex3 ∧ 2 ≤ ex3.move ∧
    (match DFPN.takProveWith Ex.basis exScale 100 (newSolver .none 64) ex3 with
     | .ok (r, _, d) => r.result == .proven && r.move == none && d.attacker == .white
     | .error _ => false) = true :=
  ⟨⟨Pos.wfB_sound (by decide +kernel), by decide +kernel⟩, by decide +kernel, by decide, by decide +kernel⟩

/-- `ex3d` (Black to move cannot stop both threats): attacker Black: `disproven`, ghost flag down, twelve
children settled by `CountThreats`; attacker White on the same position (not to move): `proven` -/
example : InvB Ex.basis ex3d ∧ ex3d.analyze = some ex3d ∧ 2 ≤ ex3d.move ∧ ex3d.toMove = .black ∧
    (match DFPN.takProveWith Ex.basis exScale 100 (newSolver .black 64) ex3d with
     | .ok (r, s, d) => r.result == .disproven && !d.st.ghostRep && s.solved == 12
     | .error _ => false) = true ∧
    (match DFPN.takProveWith Ex.basis exScale 100 (newSolver .white 64) ex3d with
     | .ok (r, _, _) => r.result == .proven
     | .error _ => false) = true :=
  ⟨⟨Pos.wfB_sound (by decide +kernel), by decide +kernel⟩, by decide +kernel, by decide, by decide,
   by decide +kernel, by decide +kernel⟩

end C06
