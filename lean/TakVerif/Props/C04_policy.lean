import TakVerif.Proofs.MCTSPolicyInv
import TakVerif.Proofs.MCTSPolicyWin
import TakVerif.Proofs.MCTSPolicyTree
import TakVerif.Props.C04_mcts
import TakVerif.Proofs.HeapValue
import TakVerif.Props.C18
import TakVerif.Proofs.Outcome

/-! # C04 (Monte-Carlo part, rollouts) — the rollout policies never crash and only ever play legal moves

About `Tak.MCTS` in `Impl/MCTSPolicy.lean`: the model of `ai/mcts/policy.go` (`findPlaceWins`, `placeWinMove`,
`PlaceWins.Select` as fixed in /repo 8daad40, `UniformRandom.Select`) and of `rollout` in `ai/mcts/mcts.go`.
`math/rand` is an arbitrary stream `rnd : Nat → Nat` read through the contract of `Int31n` (`0 ≤ Int31n(n) < n`,
panic for `n ≤ 0`); every theorem holds for every stream.

Hypothesis `PolicyInv basis n p` (`Proofs/MCTSPolicyInv.lean`): C01's well-formedness `Tak.WF` (proved for `New`, for
every `FromSquares` result and kept by every accepted move), at most 64 pieces in the game (the documented
representation limit: default games up to 6×6; it makes C01's `StackLimit` automatic), board size `n`, and
`OpeningOK`: on plies 0 and 1 the flats of the colour being placed are not exhausted (true in every game started by
`New`).  `inv_step` shows the invariant is kept along a rollout.  Without `OpeningOK` the code *does* panic, as the
model says (`uniform_select_error`): a position of ply 0/1 whose opponent has no flat left has no legal move although
`GameOver` is false — not reachable in play, reproduced by the tie (`sel.panic.opening-ply-no-flat-for-the-opponent`). -/
set_option linter.unusedVariables false
set_option linter.unusedSimpArgs false
namespace C04
open Tak Tak.MCTS Proofs.MCTSPolicy

/-- **The uniform policy returns a legal successor.**  On every unfinished well-formed position, for every random
stream and cursor: `UniformRandom.Select` answers (no `Int31n(0)` panic, no other panic, the retry loop ends — each
refused try removes one candidate, so at most `len(AllMoves)` numbers are drawn and at least one) with the position
reached by a move `m` of `AllMoves` that `Move` accepts; `m` is legal by the rule book with exactly that successor
(C01), and the successor satisfies the invariant again.  Uses C03 completeness (`live_has_move`: a placement on an empty
square is accepted, hence generated). -/
theorem uniform_select_legal (basis : Array W) (n : Nat) (rnd : Nat → Nat) (p : Pos) (k : Nat)
    (hi : PolicyInv basis n p) (hno : p.gameOver.1 = false) :
    ∃ q k', uniformSelect basis rnd p k = .ok (q, k') ∧
      (∃ m ∈ p.allMoves, p.apply basis m = .ok q ∧
        Spec.step (Spec.abs p) (Spec.decode m) = some (Spec.abs q)) ∧
      PolicyInv basis n q ∧ k < k' ∧ k' ≤ k + p.allMoves.length := by
  have hex := live_has_move basis p (liveWF_of_wf basis p hi.wf) hno hi.opening
  obtain ⟨q, k', hu, ⟨m, hm, ha⟩, h1, h2⟩ := uniformSelect_ok basis rnd p k hex
  obtain ⟨hq, hstep⟩ := inv_step hi (allMoves_not_pass hi.wf.size_le hm) ha
  exact ⟨q, k', hu, ⟨m, hm, ha, hstep⟩, hq, h1, h2⟩

/-- …and the only way it fails, on any position whatever: the panic of `Int31n(0)`, exactly when `Move` refuses
every generated move -/
theorem uniform_select_error (basis : Array W) (rnd : Nat → Nat) (p : Pos) (k : Nat) (e : Err)
    (h : uniformSelect basis rnd p k = .error e) :
    e = .panic "Int31n: invalid argument (no candidate move left)" ∧
      ∀ m ∈ p.allMoves, ∃ w, p.apply basis m = .error (.illegal w) :=
  uniformSelect_error basis rnd p k e h

/-- `placeWinMove` never reaches the panic of `BitCoords` (nor its division): it returns the zero move or a flat
placement, for every position, with the constants of any board size 3..8 -/
theorem placeWinMove_total (n : Nat) (hn : 3 ≤ n ∧ n ≤ 8) (p : Pos) :
    ∃ mv, placeWinMove (Gen.precompute n) p = .ok mv ∧ (mv = zeroMove ∨ mv.type = Facts.mtPlaceFlat) := by
  obtain ⟨h0, h1⟩ := placeWinMove_spec n hn p
  by_cases h : placeWinsMask (Gen.precompute n) p = 0#64
  · exact ⟨_, h0 h, .inl rfl⟩
  · obtain ⟨k, _, _, _, hk⟩ := h1 h
    exact ⟨_, hk, .inr rfl⟩

/-- **The fixed `PlaceWins.Select` never panics and returns a legal successor.**  On every unfinished well-formed
position, for every random stream: it answers with the position reached by a move `Move` accepts (the proposed flat,
the capstone on the same square, or a generated move chosen by the uniform fallback), legal by the rule book with
exactly that successor; the invariant holds again; no more than `len(AllMoves)` numbers are drawn.
(`c` = the constants of the position's board size, as `NewMonteCarlo` builds them for its configured size.) -/
theorem placeWins_select_never_panics (basis : Array W) (n : Nat) (rnd : Nat → Nat) (p : Pos) (k : Nat)
    (hi : PolicyInv basis n p) (hno : p.gameOver.1 = false) :
    ∃ q k', placeWinsSelect basis (Gen.precompute n) rnd p k = .ok (q, k') ∧
      (∃ m, p.apply basis m = .ok q ∧ Spec.step (Spec.abs p) (Spec.decode m) = some (Spec.abs q)) ∧
      PolicyInv basis n q ∧ k ≤ k' ∧ k' ≤ k + p.allMoves.length := by
  have hn : 3 ≤ n ∧ n ≤ 8 := by rw [← hi.size]; exact ⟨hi.wf.size_ge, hi.wf.size_le⟩
  obtain ⟨mv, hmv, hshape⟩ := placeWinMove_total n hn p
  have hex := live_has_move basis p (liveWF_of_wf basis p hi.wf) hno hi.opening
  obtain ⟨q, k', hs, ⟨m, hm, ha⟩, h1, h2⟩ := placeWinsSelect_ok basis (Gen.precompute n) rnd p k mv hmv hex
  have hnp : m.type ≠ Facts.mtPass := by
    rcases hm with hm | ⟨ht, hm⟩
    · exact allMoves_not_pass hi.wf.size_le hm
    · rcases hshape with hz | hf
      · rw [hz] at ht; exact absurd rfl ht
      · rcases hm with e | e <;> rw [e]
        · rw [hf]; decide
        · show Facts.mtPlaceCapstone ≠ Facts.mtPass; decide
  obtain ⟨hq, hstep⟩ := inv_step hi hnp ha
  exact ⟨q, k', hs, ⟨m, ha, hstep⟩, hq, h1, h2⟩

/-- both policies at once (`Policy.select` = the `Select` method of the configured policy) -/
theorem select_legal (basis : Array W) (n : Nat) (pol : Policy) (rnd : Nat → Nat) (p : Pos) (k : Nat)
    (hi : PolicyInv basis n p) (hno : p.gameOver.1 = false) :
    ∃ q k', pol.select basis (Gen.precompute n) rnd p k = .ok (q, k') ∧
      (∃ m, p.apply basis m = .ok q ∧ Spec.step (Spec.abs p) (Spec.decode m) = some (Spec.abs q)) ∧
      PolicyInv basis n q ∧ k ≤ k' ∧ k' ≤ k + p.allMoves.length := by
  cases pol with
  | uniform =>
    obtain ⟨q, k', h1, ⟨m, _, h2⟩, h3, h4, h5⟩ := uniform_select_legal basis n rnd p k hi hno
    exact ⟨q, k', h1, ⟨m, h2⟩, h3, by omega, h5⟩
  | placeWin => exact placeWins_select_never_panics basis n rnd p k hi hno

/-- **What a `Select` step may return** (the set the tie checks the real, seeded `math/rand` runs against, op `pw.selr`):
whatever the stream, on any position, an answer of `Select` is in `Policy.mayReturn` — every legal successor for the
uniform policy; for `place_win` the successor by the proposed placement (flat, else capstone) when `Move` accepts it. -/
theorem select_mem_mayReturn (basis : Array W) (c : Consts) (pol : Policy) (rnd : Nat → Nat) (p : Pos) (k : Nat)
    (q : Pos) (k' : Nat) (h : pol.select basis c rnd p k = .ok (q, k')) : q ∈ pol.mayReturn basis c p := by
  have huni : ∀ q k', uniformSelect basis rnd p k = .ok (q, k') → q ∈ (legalChildren basis p).map (·.2) := by
    intro q k' hu
    obtain ⟨⟨m, hm, ha⟩, _⟩ :=
      (uniformLoop_spec basis p rnd p.allMoves.length p.allMoves k (Nat.le_refl _)).1 q k' hu
    exact List.mem_map.mpr ⟨(m, q), (populate_children_legal basis p m q).mpr ⟨hm, ha⟩, rfl⟩
  cases pol with
  | uniform => exact huni q k' h
  | placeWin =>
    simp only [Policy.select, placeWinsSelect] at h
    simp only [Policy.mayReturn]
    cases hmv : placeWinMove c p with
    | error e => rw [hmv] at h; cases h
    | ok mv =>
      rw [hmv] at h
      simp only at h ⊢
      by_cases ht : mv.type ≠ 0
      · rw [if_pos ht] at h ⊢
        cases h1 : p.apply basis mv with
        | ok out =>
          rw [h1] at h
          simp only at h ⊢
          cases h; exact List.mem_singleton.mpr rfl
        | error e1 =>
          obtain ⟨w1, hw1⟩ := apply_ill h1
          subst hw1
          rw [h1] at h
          simp only at h ⊢
          cases h2 : p.apply basis { mv with type := Facts.mtPlaceCapstone } with
          | ok out =>
            rw [h2] at h
            simp only at h ⊢
            cases h; exact List.mem_singleton.mpr rfl
          | error e2 =>
            obtain ⟨w2, hw2⟩ := apply_ill h2
            subst hw2
            rw [h2] at h
            simp only at h ⊢
            exact huni q k' h
      · rw [if_neg ht] at h ⊢
        exact huni q k' h

/-! ## the pinned `PlaceWins.Select` -/

deriving instance DecidableEq for Except

/-- a position built like `tak.FromSquares` does, default 5×5 counts -/
def mk5 (board : List (List Nat)) (ply : Int) : Pos :=
  match Pos.fromSquares #[] { size := 5, pieces := 0, capstones := 0, blackWinsTies := false } board ply with
  | .ok p => p
  | .error _ => default

def wF : Nat := Facts.colorWhite ||| Facts.kindFlat
def bF : Nat := Facts.colorBlack ||| Facts.kindFlat

/-- the standard 5×5 position `x5/x5/x5/2,2,x3/1111111111,111111111,1,1,x 1 30`: White to move at ply 58 has all 21
flats on the board (a1 ×10, b1 ×9, c1, d1), the capstone in reserve, and e1 completes the road a1–e1 -/
def pinnedPos : Pos :=
  mk5 ([List.replicate 10 wF, List.replicate 9 wF, [wF], [wF], [], [bF], [bF]] ++ List.replicate 18 []) 58

def noBasis : Array W := #[]

/-- the facts about `pinnedPos` (kernel evaluation of `FromSquares`, `analyze`, `GameOver`, `placeWinMove`, `Move`): live,
White to move at ply 58 with no flat and one capstone in reserve; `placeWinMove` proposes the flat on e1; `Move` refuses it -/
theorem pinnedPos_facts :
    pinnedPos.gameOver.1 = false ∧ pinnedPos.move = 58 ∧ pinnedPos.whiteStones = 0#8 ∧ pinnedPos.whiteCaps = 1#8 ∧
    placeWinMove (Gen.precompute 5) pinnedPos = .ok ⟨4, 0, Facts.mtPlaceFlat, 0⟩ ∧
    pinnedPos.apply noBasis ⟨4, 0, Facts.mtPlaceFlat, 0⟩ = .error (.illegal "no stones") := by
  decide +kernel

/-- **The pinned `PlaceWins.Select` (before 8daad40) panics on a live position**: on `pinnedPos` — not over, White to
move, reachable in play — `placeWinMove` proposes the flat on e1, White has no flat left, `Move` refuses, and the
code ran into `panic("placeWinMove: bad move")`; for every random stream. -/
theorem pinned_select_panics (rnd : Nat → Nat) (k : Nat) :
    placeWinsSelectPinned noBasis (Gen.precompute 5) rnd pinnedPos k = .error (.panic "placeWinMove: bad move") := by
  obtain ⟨_, _, _, _, h1, h2⟩ := pinnedPos_facts
  unfold placeWinsSelectPinned
  simp only [h1, h2]
  rfl

/-- the fixed `Select` on the same position: the capstone goes to e1 and wins by the road, without a random draw -/
theorem fixed_select_on_pinnedPos (rnd : Nat → Nat) (k : Nat) :
    ∃ q, placeWinsSelect noBasis (Gen.precompute 5) rnd pinnedPos k = .ok (q, k) ∧
      pinnedPos.apply noBasis ⟨4, 0, Facts.mtPlaceCapstone, 0⟩ = .ok q ∧
      q.winDetails.over = true ∧ q.winDetails.winner = .white ∧ q.winDetails.reason = .road := by
  obtain ⟨_, _, _, _, h1, h2⟩ := pinnedPos_facts
  have h3 : ∃ q, pinnedPos.apply noBasis ⟨4, 0, Facts.mtPlaceCapstone, 0⟩ = .ok q ∧
      q.winDetails.over = true ∧ q.winDetails.winner = .white ∧ q.winDetails.reason = .road := by
    cases h : pinnedPos.apply noBasis ⟨4, 0, Facts.mtPlaceCapstone, 0⟩ with
    | ok q =>
      refine ⟨q, rfl, ?_⟩
      have : (match pinnedPos.apply noBasis ⟨4, 0, Facts.mtPlaceCapstone, 0⟩ with
        | .ok q => decide (q.winDetails.over = true ∧ q.winDetails.winner = .white ∧ q.winDetails.reason = .road)
        | .error _ => false) = true := by decide +kernel
      rw [h] at this
      simpa using this
    | error e =>
      have : (match pinnedPos.apply noBasis ⟨4, 0, Facts.mtPlaceCapstone, 0⟩ with
        | .ok _ => true | .error _ => false) = true := by decide +kernel
      rw [h] at this; cases this
  obtain ⟨q, hq, hw⟩ := h3
  refine ⟨q, ?_, hq, hw⟩
  unfold placeWinsSelect
  simp only [h1, h2]
  show (match pinnedPos.apply noBasis ⟨4, 0, Facts.mtPlaceCapstone, 0⟩ with
    | .ok out => .ok (out, k)
    | .error (.illegal _) => uniformSelect noBasis rnd pinnedPos k
    | .error e => .error e) = (.ok (q, k) : R (Pos × Nat))
  rw [hq]

/-! ## soundness of `findPlaceWins` -/

/-- the move wins by a road for `col`, in the engine's words (`WinDetails`) and in the rule book's (`Spec.RoadPath`:
a chain of adjacent squares topped by `col`'s flats/capstones joining two opposite edges) -/
def RoadWin (q : Pos) (col : Color) : Prop :=
  q.winDetails.over = true ∧ q.winDetails.winner = col ∧ q.winDetails.reason = .road ∧
    Spec.RoadPath (Spec.abs q) col

/-- **A square reported by `findPlaceWins` completes a road.**  On every well-formed board (C02's `WFBoard`: sizes
3..8, group lists = `analyze`) from ply 2 on: every set bit `s` of the word `placeWinMove` computes
(`findPlaceWins` on the mover's flats and capstones, the empty squares and the mover's groups) is an empty square of
the board, and the flat placement on it — `placeWinMove`'s proposal — as well as the capstone placement — the fix of
8daad40 — is accepted whenever that piece is in reserve and then ends the game with a road win of the mover.
(Soundness w.r.t. C02's road predicate.  Completeness — every road-completing empty square is reported — is not
proved and not needed: a missed square costs a rollout its shortcut, nothing else.  Before ply 2 the placed flat is the
opponent's, so there a reported square is merely a legal move, not a win: the tie shows both, `move.nowin.opening-ply`.) -/
theorem placeWin_square_completes_road (basis : Array W) (p : Pos) (wf : Roads.WFBoard p) (hply : 2 ≤ p.move)
    (s : Nat) (hrep : (placeWinsMask p.c p).getLsbD s = true) :
    s < p.cfg.size * p.cfg.size ∧ (p.white ||| p.black).getLsbD s = false ∧
    (C19.stonesOf p p.toMove ≠ 0#8 → ∃ q,
      p.apply basis ⟨((s % p.cfg.size : Nat) : Int), ((s / p.cfg.size : Nat) : Int), Facts.mtPlaceFlat, 0⟩ = .ok q ∧
      RoadWin q p.toMove) ∧
    (C19.capsOf p p.toMove ≠ 0#8 → ∃ q,
      p.apply basis ⟨((s % p.cfg.size : Nat) : Int), ((s / p.cfg.size : Nat) : Int), Facts.mtPlaceCapstone, 0⟩ = .ok q ∧
      RoadWin q p.toMove) := by
  obtain ⟨hs, hemp⟩ := reported_empty p wf s hrep
  obtain ⟨hflat, hcap⟩ := place_kind basis p wf hply p.toMove rfl s hs hemp
  have hc : p.toMove ≠ .none := by rcases C19.toMove_cases p with h | h <;> rw [h] <;> decide
  have fin : ∀ q, C19.After p q 64 s (C19.own p p.toMove) (C19.own q p.toMove) (C19.own p p.toMove.flip)
      (C19.own q p.toMove.flip) → RoadWin q p.toMove := by
    intro q haft
    obtain ⟨⟨a, b, c⟩, hany, wfq⟩ := reported_wins p q wf p.toMove rfl s hrep haft
    exact ⟨a, b, c, (Roads.groups_any_iff_roadPath q wfq p.toMove hc).mp hany⟩
  refine ⟨hs, hemp, fun h => ?_, fun h => ?_⟩
  · obtain ⟨q, h1, h2⟩ := hflat h
    exact ⟨q, h1, fin q h2⟩
  · obtain ⟨q, h1, h2⟩ := hcap h
    exact ⟨q, h1, fin q h2⟩

/-- **When `findPlaceWins` reports a square, the fixed `PlaceWins.Select` wins on the spot**: on an unfinished
invariant position from ply 2 on, it returns — without drawing a random number — the successor by the flat (or, with
no flat in reserve, the capstone) on the lowest reported square, and that successor is a road win of the mover. -/
theorem placeWins_select_wins (basis : Array W) (n : Nat) (rnd : Nat → Nat) (p : Pos) (k : Nat)
    (hi : PolicyInv basis n p) (han : p.analyze = some p) (hply : 2 ≤ p.move) (hno : p.gameOver.1 = false)
    (hrep : placeWinsMask (Gen.precompute n) p ≠ 0#64) :
    ∃ q, placeWinsSelect basis (Gen.precompute n) rnd p k = .ok (q, k) ∧ RoadWin q p.toMove := by
  obtain ⟨wfb, _⟩ := C19.wf_bridge basis p hi.wf han
  have hn : 3 ≤ n ∧ n ≤ 8 := by rw [← hi.size]; exact ⟨hi.wf.size_ge, hi.wf.size_le⟩
  have hc : Gen.precompute n = p.c := by rw [hi.wf.consts, hi.size]
  obtain ⟨s, _, hs, _, hmv⟩ := (placeWinMove_spec n hn p).2 hrep
  rw [hc] at hs
  rw [← hi.size] at hmv
  obtain ⟨_, _, hflat, hcap⟩ := placeWin_square_completes_road basis p wfb hply s hs
  obtain ⟨rw_, rb_⟩ := C19.reserves_of_not_over p hno
  have hres : C19.stonesOf p p.toMove ≠ 0#8 ∨ C19.capsOf p p.toMove ≠ 0#8 := by
    rcases C19.toMove_cases p with h | h <;> rw [h]
    · exact rw_
    · exact rb_
  have hty : (Facts.mtPlaceFlat ≠ 0) := by decide
  unfold placeWinsSelect
  rw [hi.size] at hmv
  simp only [hmv, ne_eq, hty, not_false_eq_true, if_true]
  rw [← hi.size]
  by_cases h0 : C19.stonesOf p p.toMove = 0#8
  · obtain ⟨w, hw⟩ := place_flat_refused basis p hply p.toMove rfl
      ((s % p.cfg.size : Nat) : Int) ((s / p.cfg.size : Nat) : Int) h0
    have hcp : C19.capsOf p p.toMove ≠ 0#8 := by
      rcases hres with h | h
      · exact absurd h0 h
      · exact h
    obtain ⟨q, h1, h2⟩ := hcap hcp
    refine ⟨q, ?_, h2⟩
    simp only [hw, h1]
  · obtain ⟨q, h1, h2⟩ := hflat h0
    refine ⟨q, ?_, h2⟩
    simp only [h1]

example : (placeWinsMask pinnedPos.c pinnedPos).getLsbD 4 = true ∧ pinnedPos.wfBoardB = true := by decide +kernel

/-! ## rollouts -/

/-- the invariant of a rollout: `PolicyInv` plus "the stored groups are the analysed ones" (true of every `Clone`
and of every result of `Move`) -/
def RolloutInv (basis : Array W) (n : Nat) (p : Pos) : Prop := PolicyInv basis n p ∧ p.analyze = some p

/-- **`rollout` is total.**  From every tree node whose position satisfies the invariant (finished or not), with
either policy, every random stream, every `MaxRollout` and threshold, and an evaluator that is total on invariant
positions: the rollout returns -1, 0 or 1 — no panic in `Select` (no `Int31n(0)`, no `placeWinMove: bad move`, no
`BitCoords`), no hang.  It calls `Select` at most `MaxRollout` times (the loop counter is the recursion argument of
`rolloutLoop`), and each call draws at most `len(AllMoves)` numbers (`select_legal`). -/
theorem rollout_total (basis : Array W) (n : Nat) (pol : Policy) (rnd : Nat → Nat) (eval : Pos → R Int)
    (maxRollout : Nat) (thr : Int) (t : Pos) (k : Nat) (hi : PolicyInv basis n t)
    (heval : ∀ p, RolloutInv basis n p → ∃ v, eval p = .ok v) :
    ∃ v k', rollout (pol.select basis (Gen.precompute n) rnd) eval maxRollout thr t k = .ok (v, k') ∧
      (v = -1 ∨ v = 0 ∨ v = 1) := by
  unfold rollout
  cases ha : t.analyze with
  | none => exact absurd ha (Roads.analyze_ne_none t)
  | some p =>
    simp only
    have hp : RolloutInv basis n p := ⟨(analyze_inv hi ha).1, Roads.analyze_idem t p ha⟩
    refine rolloutLoop_total _ eval thr t.toMove (RolloutInv basis n) ?_ heval maxRollout p k hp
    intro p k hip hno
    obtain ⟨q, k', h1, ⟨m, h2, _⟩, h3, _, _⟩ := select_legal basis n pol rnd p k hip.1 hno
    exact ⟨q, k', h1, h3, Pos.apply_analyzed h2⟩

/-- the built-in evaluator (`MakeEvaluator(size, nil)`, what `NewMonteCarlo` installs) is total on the rollout
invariant (C18 `eval_total`) -/
theorem evaluateDefault_total (basis : Array W) (n : Nat) (p : Pos) (hi : RolloutInv basis n p) :
    ∃ v, evaluateDefault (Gen.precompute n) p = .ok v := by
  obtain ⟨wfb, _⟩ := C19.wf_bridge basis p hi.1.wf hi.2
  have hn : 3 ≤ n ∧ n ≤ 8 := by rw [← hi.1.size]; exact ⟨hi.1.wf.size_ge, hi.1.wf.size_le⟩
  have hc : Gen.precompute n = p.c := by rw [hi.1.wf.consts, hi.1.size]
  have hw : ∃ w, defaultWeightsFor p.cfg.size = .ok w := by
    rw [hi.1.size]
    obtain ⟨h3, h8⟩ := hn
    have : n = 3 ∨ n = 4 ∨ n = 5 ∨ n = 6 ∨ n = 7 ∨ n = 8 := by omega
    rcases this with e | e | e | e | e | e <;> subst e <;> exact ⟨_, rfl⟩
  obtain ⟨w, hw⟩ := hw
  unfold evaluateDefault
  rw [hw, hc]
  exact C18.eval_total w p wfb.toRoadWF (by rw [hi.1.wf.height_size, hi.1.wf.stacks_size]; exact Nat.le_refl _)

/-- **`rollout` as `NewMonteCarlo` configures it** (either policy, the default evaluator): total, value in {-1, 0, 1} -/
theorem rollout_total_default (basis : Array W) (n : Nat) (pol : Policy) (rnd : Nat → Nat)
    (maxRollout : Nat) (thr : Int) (t : Pos) (k : Nat) (hi : PolicyInv basis n t) :
    ∃ v k', rollout (pol.select basis (Gen.precompute n) rnd) (evaluateDefault (Gen.precompute n)) maxRollout thr t k
        = .ok (v, k') ∧ (v = -1 ∨ v = 0 ∨ v = 1) :=
  rollout_total basis n pol rnd _ maxRollout thr t k hi (fun p hp => evaluateDefault_total basis n p hp)

/-! ## the lift: `GetMove` with the rollouts run -/

/-- the position of every tree node keeps the invariant: children are successors by generated moves `Move` accepts -/
theorem legalChildren_inv (basis : Array W) (n : Nat) (p : Pos) (m : Move) (q : Pos) (hi : PolicyInv basis n p)
    (h : (m, q) ∈ legalChildren basis p) : PolicyInv basis n q := by
  obtain ⟨hm, ha⟩ := (populate_children_legal basis p m q).mp h
  exact (inv_step hi (allMoves_not_pass hi.wf.size_le hm) ha).1

/-- **`loopR` is `loop`**: the tree the main loop builds when it *runs* the rollouts is the tree `Tak.MCTS.loop`
builds under the oracle that replays the values those rollouts returned — so `getMoveR`'s final selection (that of
`getMove` under the replaying oracle) works on exactly the tree its own loop built. -/
theorem loopR_replay (basis : Array W) (o : Oracle) (roll : Pos → Nat → R (Int × Nat)) (left j : Nat) (a : Arena)
    (k : Nat) (a' : Arena) (k' : Nat) (vals : List Int) (h : loopR basis o roll left j a k = .ok (a', k', vals)) :
    a' = loop basis (o.replay j vals) left j a :=
  Proofs.MCTSPolicy.loopR_replay basis o roll left j a k a' k' vals h

/-- **The Monte-Carlo player answers with a legal move — rollouts included.**  `C04.mcts_move_legal` took the value
of every rollout from an oracle, i.e. assumed `ai.rollout` returns.  Here `GetMove` *runs* `rollout` with the
configured policy (`uniform` or `place_win`), the built-in evaluator, any `MaxRollout` and threshold, on every node
the search reaches, all drawing from one arbitrary random stream.  For every unfinished position satisfying the
invariant, every clock/UCB/sort oracle with at least one completed iteration, corner forcing off or past ply 2:
no rollout crashes (every node position is the root or a successor by an accepted generated move, so
`rollout_total` applies to it), `GetMove` returns a move, and `Move` accepts it. -/
theorem mcts_move_legal_rollouts (basis : Array W) (n : Nat) (o : Oracle) (pol : Policy) (rnd : Nat → Nat)
    (maxRollout : Nat) (thr : Int) (p : Pos) (forceCorners : Bool) (k : Nat)
    (hi : PolicyInv basis n p) (hno : p.gameOver.1 = false)
    (hfc : ¬ (forceCorners = true ∧ p.move < 2))
    (hit : 1 ≤ o.iterations)
    (hsort : ∀ (a : Arena) (l : List Nat), l ≠ [] → o.sorted a l ≠ [] ∧ ∀ x ∈ o.sorted a l, x ∈ l) :
    ∃ m q,
      getMoveR basis forceCorners o
        (rollout (pol.select basis (Gen.precompute n) rnd) (evaluateDefault (Gen.precompute n)) maxRollout thr) p k = .ok m ∧
      p.apply basis m = .ok q ∧ m ∈ (legalChildren basis p).map (·.1) := by
  -- the loop with real rollouts is total
  have hroot : AllPos (PolicyInv basis n) #[Proofs.MCTS.rootOf p] := by
    intro i nd h
    have : i = 0 := by
      rcases Nat.eq_zero_or_pos i with h0 | h0
      · exact h0
      · rw [Array.getElem?_eq_none (by simp; omega)] at h; cases h
    subst this
    simp only [List.getElem?_toArray, List.getElem?_cons_zero, Option.some.injEq] at h
    subst h; exact hi
  obtain ⟨a', k', vals, hl⟩ := loopR_ok basis o
    (rollout (pol.select basis (Gen.precompute n) rnd) (evaluateDefault (Gen.precompute n)) maxRollout thr)
    (PolicyInv basis n) (fun p m q hp h => legalChildren_inv basis n p m q hp h)
    (fun p k hp => by
      obtain ⟨v, k', h, _⟩ := rollout_total_default basis n pol rnd maxRollout thr p k hp
      exact ⟨v, k', h⟩)
    o.iterations 0 #[Proofs.MCTS.rootOf p] k hroot
  -- the position has a legal generated move
  obtain ⟨m0, hm0, q0, hq0⟩ := live_has_move basis p (liveWF_of_wf basis p hi.wf) hno hi.opening
  have hlegal : legalChildren basis p ≠ [] := by
    intro e
    have : (m0, q0) ∈ legalChildren basis p := (populate_children_legal basis p m0 q0).mpr ⟨hm0, hq0⟩
    rw [e] at this; cases this
  obtain ⟨m, _, q, h1, h2, h3, _⟩ := mcts_move_legal basis (o.replay 0 vals) p forceCorners hfc hit hlegal hsort
  refine ⟨m, q, ?_, h2, h3⟩
  unfold getMoveR
  rw [if_neg (by simpa using hfc)]
  have hl' : loopR basis o
      (rollout (pol.select basis (Gen.precompute n) rnd) (evaluateDefault (Gen.precompute n)) maxRollout thr)
      o.iterations 0 #[{ pos := p, move := { x := 0, y := 0, type := 0, slides := 0 } }] k = .ok (a', k', vals) := hl
  rw [hl']
  exact h1

/-- **Storage discipline of `rollout`** (`u.alloc = p`).  On buffer identities: `clone` = the buffer of
`t.position.Clone()`, `alloc` = the policy's scratch, two different buffers.  At every `Select` call of a rollout the
argument and the scratch are exactly these two buffers in alternating roles — the policy is never handed its own
scratch, and no third buffer (none of the tree) is handed over or written.  What the *caller* of `Select` owes —
not to touch a position after handing it over, not to hand over a position somebody else reads — `rollout` meets by
working on a clone.  (The tie observes it on the real code: node position unchanged, result not aliasing the argument.) -/
theorem rollout_buffers (clone alloc : Nat) (h : clone ≠ alloc) (n : Nat) :
    ∀ x ∈ rolloutBufs n clone alloc, x.1 ≠ x.2 ∧ (x.1 = clone ∨ x.1 = alloc) ∧ (x.2 = clone ∨ x.2 = alloc) :=
  rolloutBufs_pingpong clone alloc h n clone alloc (.inl ⟨rfl, rfl⟩)

example : rolloutBufs 3 7 9 = [(7, 9), (9, 7), (7, 9)] := by decide

/-! ### the hypotheses are satisfiable -/

/-- the start position of the default 5×5 game -/
def start5 : Pos := match Pos.new { size := 5, pieces := 0, capstones := 0, blackWinsTies := false } with
  | .ok p => p
  | .error _ => default

/-- the start position of the default 5×5 game satisfies the rollout invariant (21 + 1 pieces a side ≤ 64 in all) -/
theorem start5_inv (basis : Array W) : PolicyInv basis 5 start5 := by
  have h0 : Pos.new { size := 5, pieces := 0, capstones := 0, blackWinsTies := false } = .ok start5 := rfl
  refine ⟨Tak.new_wf basis h0, ?_, rfl, .inr (.inr ⟨rfl, by decide, by decide⟩)⟩
  have := new_budget_default 5 false start5 (by decide) h0
  omega

example : start5.gameOver.1 = false := by decide

/-- the live 5×5 position of the pinned defect satisfies the invariant as well (44 pieces in all) -/
theorem pinnedPos_inv : PolicyInv noBasis 5 pinnedPos := by
  have hp : Pos.fromSquares noBasis { size := 5, pieces := 0, capstones := 0, blackWinsTies := false }
      ([List.replicate 10 wF, List.replicate 9 wF, [wF], [wF], [], [bF], [bF]] ++ List.replicate 18 []) 58 = .ok pinnedPos := by
    decide +kernel
  refine ⟨Tak.fromSquares_wf noBasis _ _ 58 pinnedPos (by decide) (by decide) hp, by decide +kernel, by decide +kernel, .inl (by decide +kernel)⟩

/-- instances of `placeWins_select_never_panics`, `uniform_select_legal` and `placeWin_square_completes_road` on it -/
example (rnd : Nat → Nat) (k : Nat) : ∃ q k', placeWinsSelect noBasis (Gen.precompute 5) rnd pinnedPos k = .ok (q, k') ∧
    (∃ m, pinnedPos.apply noBasis m = .ok q ∧ Spec.step (Spec.abs pinnedPos) (Spec.decode m) = some (Spec.abs q)) := by
  obtain ⟨q, k', h1, h2, _⟩ := placeWins_select_never_panics noBasis 5 rnd pinnedPos k pinnedPos_inv pinnedPos_facts.1
  exact ⟨q, k', h1, h2⟩
example (rnd : Nat → Nat) (k : Nat) : ∃ q k', uniformSelect noBasis rnd pinnedPos k = .ok (q, k') ∧ k < k' :=
  let ⟨q, k', h1, _, _, h4, _⟩ := uniform_select_legal noBasis 5 rnd pinnedPos k pinnedPos_inv pinnedPos_facts.1
  ⟨q, k', h1, h4⟩
example : ∃ q, pinnedPos.apply noBasis ⟨4, 0, Facts.mtPlaceCapstone, 0⟩ = .ok q ∧ RoadWin q .white := by
  have wf : Roads.WFBoard pinnedPos := (Roads.wfBoardB_iff _).mp (by decide +kernel)
  have h := (placeWin_square_completes_road noBasis pinnedPos wf (by decide +kernel) 4 (by decide +kernel)).2.2.2
  have htm : pinnedPos.toMove = .white := by decide +kernel
  rw [htm] at h
  exact h (by decide +kernel)

/-- an instance of the lift: one iteration, children left in order -/
example (pol : Policy) (rnd : Nat → Nat) (pick : Nat → Nat → List Nat → Nat) (tie : Nat → Nat → Bool) :
    ∃ m q, getMoveR noBasis false
        { iterations := 1, pick := pick, rollout := fun _ _ => 0, sorted := fun _ l => l, tie := tie, bits := [], mmMove := zeroMove }
        (rollout (pol.select noBasis (Gen.precompute 5) rnd) (evaluateDefault (Gen.precompute 5)) 50 2000) pinnedPos 0 = .ok m ∧
      pinnedPos.apply noBasis m = .ok q := by
  obtain ⟨m, q, h1, h2, _⟩ := mcts_move_legal_rollouts noBasis 5
    { iterations := 1, pick := pick, rollout := fun _ _ => 0, sorted := fun _ l => l, tie := tie, bits := [], mmMove := zeroMove }
    pol rnd 50 2000 pinnedPos false 0 pinnedPos_inv pinnedPos_facts.1 (by simp) (Nat.le_refl _)
    (fun a l hl => ⟨hl, fun x hx => hx⟩)
  exact ⟨m, q, h1, h2⟩
/-- so a rollout from the start position of a 5×5 game is total for both policies and every random stream -/
example (basis : Array W) (pol : Policy) (rnd : Nat → Nat) :
    ∃ v k', rollout (pol.select basis (Gen.precompute 5) rnd) (evaluateDefault (Gen.precompute 5)) 50 2000 start5 0
      = .ok (v, k') ∧ (v = -1 ∨ v = 0 ∨ v = 1) :=
  rollout_total_default basis 5 pol rnd 50 2000 start5 0 (start5_inv basis)

end C04
