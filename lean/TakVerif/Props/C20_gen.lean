import TakVerif.Impl.FPA
import TakVerif.Generated.FuncsFPA
import TakVerif.Proofs.GenMove

/-! Tie #1 for C20: the geometric helpers of `cmd/internal/playtak/fpa.go` - `isCentered`, `isCenterAdjacent`,
`distance`, `dir` - are regenerated from the source on every run; the hand-written helpers of `Impl/FPA.lean`
(on which the C20 theorems rest) are proved equal to them.  `p *tak.Position` enters the two centre tests only
through `p.Size()`, which is the parameter `p_Size` of the regenerated functions.  Go computes `mid` and `mid±k` in
`int8`; the model in `Int`: equal for every board size below 250 (the engine accepts 3..8).  `Move.IsSlide` and
`Move.Dest` (with `Slides.Len`), which `LegalMove` calls, are regenerated from `tak/move.go`, `tak/slide.go`. -/
namespace C20
open Tak FPA

/-- the square of a move as the regenerated `tak.Move` (the centre tests read `X`, `Y` only) -/
def genSquare (x y : Int) : Gen.Move := { X := x, Y := y, Type_ := 2#8, Slides := 0#32 }

/-- helper: Go's `int8(p.Size()/2)` is the model's `mid` (no wrap below size 250) -/
theorem mid_eq (v : View) (h : v.size < 250) :
    Gen.wrap8 (Int.tdiv (v.size : Int) 2) = mid v ∧ 0 ≤ mid v ∧ mid v < 125 := by
  unfold mid Gen.wrap8
  rw [Int.tdiv_eq_ediv_of_nonneg (by omega)]
  refine ⟨?_, ?_, ?_⟩ <;> omega

/-- helper: `p.Size()%2 == 1` in Go's truncated remainder and in the model's `Nat` remainder -/
theorem odd_eq (v : View) : (Int.tmod (v.size : Int) 2 == 1) = (v.size % 2 == 1) := by
  rw [Int.tmod_eq_emod_of_nonneg (by omega)]
  by_cases h : v.size % 2 = 1
  · have : (v.size : Int) % 2 = 1 := by omega
    rw [h, this]; rfl
  · have h' : ¬ (v.size : Int) % 2 = 1 := by omega
    have e1 : ((v.size : Int) % 2 == 1) = false := by simpa using h'
    have e2 : (v.size % 2 == 1) = false := by simpa using h
    rw [e1, e2]

/-- helper: `wrap8` is the identity on [-128, 127] -/
theorem w8 (a : Int) (h1 : -128 ≤ a) (h2 : a < 128) : Gen.wrap8 a = a := by
  unfold Gen.wrap8; omega

/-- `isCentered(p, m)` -/
theorem isCentered_is_source (v : View) (h : v.size < 250) (x y : Int) :
    isCentered v x y = Gen.isCentered (v.size : Int) (genSquare x y) := by
  obtain ⟨hm, h0, h1⟩ := mid_eq v h
  unfold isCentered Gen.isCentered genSquare
  simp only [hm, odd_eq, w8 (mid v - 1) (by omega) (by omega)]

/-- `isCenterAdjacent(p, m)` -/
theorem isCenterAdjacent_is_source (v : View) (h : v.size < 250) (x y : Int) :
    isCenterAdjacent v x y = Gen.isCenterAdjacent (v.size : Int) (genSquare x y) := by
  obtain ⟨hm, h0, h1⟩ := mid_eq v h
  unfold isCenterAdjacent Gen.isCenterAdjacent genSquare
  simp only [hm, odd_eq, w8 (mid v - 1) (by omega) (by omega), w8 (mid v + 1) (by omega) (by omega),
    w8 (mid v - 2) (by omega) (by omega)]

/-- `distance(x1, y1, x2, y2 int8) int8` for all `int8` arguments (including the wrap-around cases) -/
theorem distance_is_source (x1 y1 x2 y2 : Int) : distance x1 y1 x2 y2 = Gen.distance x1 y1 x2 y2 := by
  unfold distance Gen.distance abs8
  simp only [show ∀ v, wrap8 v = Gen.wrap8 v from fun _ => rfl]
  by_cases hx : Gen.wrap8 (x1 - x2) < 0 <;> by_cases hy : Gen.wrap8 (y1 - y2) < 0 <;> simp [hx, hy]

/-- `dir(x, y, ex, ey)`: same slide type, and it panics exactly when the model reports the panic -/
theorem dir_is_source (x y ex ey : Int) :
    dir x y ex ey = match Gen.dir x y ex ey with
      | some t => .ok t.toNat
      | none => .error (.panic "bad dir() call") := by
  unfold dir Gen.dir
  by_cases h1 : x < ex <;> by_cases h2 : x > ex <;> by_cases h3 : y < ey <;> by_cases h4 : y > ey <;>
    simp [h1, h2, h3, h4, Facts.mtSlideRight, Facts.mtSlideLeft, Facts.mtSlideUp, Facts.mtSlideDown]

example : Gen.isCentered 5 (genSquare 2 2) = true ∧ Gen.isCenterAdjacent 6 (genSquare 2 1) = true ∧
    Gen.distance (-128) 0 127 0 = 1 ∧ Gen.dir 1 1 1 1 = none := by decide

/-- `m.IsSlide()` as the `LegalMove` scripts use it -/
theorem isSlide_is_source (m : Move) (h : m.type < 256) : m.isSlide = Gen.moveIsSlide (GenMove.genMove m) :=
  GenMove.isSlide_is_source m h

/-- `m.Dest()` of the scripts (`destOf`: `none` = `panic("bad type")`) -/
theorem destOf_is_source (m : Move) (h : m.type < 256) :
    destOf m = match Gen.moveDest (GenMove.genMove m) with
      | some d => .ok d
      | none => .error (.panic "Dest: bad type") := by
  unfold destOf; rw [GenMove.dest_is_source m h]; cases Gen.moveDest (GenMove.genMove m) <;> rfl

example : Gen.moveDest (GenMove.genMove ⟨2, 2, 5, 1#32⟩) = some (1, 2) := by decide

end C20
