import TakVerif.Props.C07_compose2
import TakVerif.Proofs.FPATotal
import TakVerif.Proofs.BotMovesCompose

/-! # C07 / C20 — the rule's scripts on EVERY legal record (work package fpatotal)

`fixes/C07-fpa-record-notes.diff` (/repo fefa081) made the notes of the double-stack / cairn rule a function of the game
record.  What was left open: does the rule's own code (`GetMove` of the variant with `dir`, `adjacent`, the two explicit
panics of the cairn script) run through on every record the bot loop can hold — every legal Tak record, the bot's own
moves in a resumed game being whatever the server replays —, i.e. is `C20.RuleTotal` / `C07.RuleOK` a theorem?

**It is not.**  `LegalMove` notes a square only when the move shown has the expected TYPE (`if m.Type != tak.PlaceFlat
{ ok = false; break }` comes before `d.blackTmp.x, d.blackTmp.y = …` / `c.whitePlace = m`), the replay loop of fefa081
drops the verdicts of the older pairs, and the scripts trust the notes:

* `doubleStack_legal_record_panics` – bot Black, 5×5, the server replays the legal record `a1 c3 c3- Sb1 c2+` (Black's own
  ply 3 is a WALL: in a game played by this bot it would have been the scripted flat, in a resumed game it is whatever the
  server has): `blackTmp` is still `(0,0)`, `blackPlace` is `a1 = (0,0)`, the ply-5 script calls `dir(0,0,0,0)`.
* `cairn_legal_record_panics_wall` – bot White, 4×4, `d4 a4 Sd1 c1`: `whitePlace` stays `(0,0)`, Black's `c1` is centre
  adjacent at distance 2 of it and is accepted, the ply-4 script finds "no center square between the cairn stones".
* `cairn_legal_record_panics_flat` – bot White, 5×5, `e5 a5 b1 b3`: White's own ply 2 is a flat that is not centre
  adjacent (never judged: it is not the newest pair), same panic.
All three on the model of /repo fefa081 (`decline := false`), thinker of the CURRENT invocation, loop `running`: the bot
process dies in the middle of the server's game.  The records are legal by the rule book (`*_record_legal`).  Replayed on
the real code on every check: `corpus/C07/compose-fpa-legal-record-panic.ops`.

**The repair** (`fixes/C07-fpa-script-declines.diff`, modelled by `Impl/FPATotal.lean`, `Compose.Conf.decline = true`, the
default): a script that panics declines (`ok == false`), `Friendly.GetMove` asks the searching player.  Then
* `scripts_total` – `GetMove` of every variant answers on every view with every notes;
* `rule_total_declining` – on a record whose moves are placements or slides the whole rule code runs through;
* `current_thinker_total_declining` – `current_thinker_total` without `C20.RuleTotal`;
* `callsOK_declining`, `bot_dead_only_by_search_declining`, `bot_never_dead_declining` – `bot_never_dead_guarded` with
  `RuleOK` replaced by `MovesOK` (every move of the record is a placement or a slide);
* `movesOK_of_events`, **`bot_never_dead_declining_events`** – `MovesOK` follows from what the events carry (no server line
  parses to the pass: `playtak.ParseServer` builds placements and slides; the searching player never answers the pass:
  engines answer from `AllMoves`), so the end-to-end statement has no hypothesis about reachable states left but `ChkOK`;
* `*_no_panic` – the three records above with the patch: the bot searches;
* `declining_agrees` – wherever the call before the patch ran through, the patched call does exactly the same: every
  theorem about openings played by the rule (C20, `friendly_move_legal*`) carries over. -/
namespace C07
open Tak Tak.Bot Tak.Glue Tak.FPA Tak.Compose

variable {σ χ : Type}

/-! ## the defect: legal records on which /repo fefa081 panics -/

namespace Ex
/-- the model of /repo fefa081: record-notes patch applied, scripts still panic -/
def unpatched (c : Compose.Conf) : Compose.Conf := { c with decline := false }

def wall (x y : Int) : Move := { x := x, y := y, type := Facts.mtPlaceStanding, slides := 0 }
def slideU (x y : Int) : Move := { x := x, y := y, type := Facts.mtSlideUp, slides := slide1 }
def slideD (x y : Int) : Move := { x := x, y := y, type := Facts.mtSlideDown, slides := slide1 }

/-- bot Black, double stack, 5×5, a game resumed at ply 5: the server replays `a1 c3 c3- Sb1 c2+` in one burst, then the
clock line; thinker 1 is the thinker of the current invocation -/
def dsWallEvs : List (Compose.Ev Move) :=
  [.enter 0 quiet, .leave 0 zm, srv ["P", "A1"] (place 0 0), srv ["P", "C3"] (place 2 2), srv ["M", "C3", "C2", "1"] (slideD 2 2),
   srv ["P", "B1", "W"] (wall 1 0), srv ["M", "C2", "C3", "1"] (slideU 2 1), tm, .enter 1 quiet]

/-- bot White, cairn, 4×4, resumed at ply 4: `d4` (+ clock line, the bot's thinker returns cancelled), then
`a4 Sd1 c1` in one burst and the clock line -/
def cairnWallEvs : List (Compose.Ev Move) :=
  [srv ["P", "D4"] (place 3 3), tm, .enter 1 quiet, .leave 1 zm, srv ["P", "A4"] (place 0 3), srv ["P", "D1", "W"] (wall 3 0),
   srv ["P", "C1"] (place 2 0), tm, .enter 2 quiet]

/-- bot White, cairn, 5×5, resumed at ply 4: `e5`, then `a5 b1 b3`: only flats -/
def cairnFlatEvs : List (Compose.Ev Move) :=
  [srv ["P", "E5"] (place 4 4), tm, .enter 1 quiet, .leave 1 zm, srv ["P", "A5"] (place 0 4), srv ["P", "B1"] (place 1 0),
   srv ["P", "B3"] (place 1 2), tm, .enter 2 quiet]

/-- a list of moves played from the start of a game by the rule book -/
def playAll : Spec.State → List Move → Option Spec.State
  | s, [] => some s
  | s, m :: ms =>
    match Spec.step s (Spec.decode m) with
    | some t => playAll t ms
    | none => none
end Ex

open Ex

/-- **`doubleStack_legal_record_panics`** — /repo fefa081, bot Black, double stack, 5×5: after the legal record
`a1 c3 c3- Sb1 c2+` the thinker of the current invocation panics in the rule's ply-5 script (`dir(0,0,0,0)`: "bad dir()
call") while the loop is `running` and its record holds exactly the server's five moves. -/
theorem doubleStack_legal_record_panics :
    (go (unpatched (conf .black 5 (.friendly (some .doubleStack)) true)) dsWallEvs).dead = some (.panic "bad dir() call") ∧
    (go (unpatched (conf .black 5 (.friendly (some .doubleStack)) true)) dsWallEvs).b.status = .running ∧
    (go (unpatched (conf .black 5 (.friendly (some .doubleStack)) true)) dsWallEvs).b.moves =
      [slideU 2 1, wall 1 0, slideD 2 2, place 2 2, place 0 0] ∧
    (go (unpatched (conf .black 5 (.friendly (some .doubleStack)) true)) dsWallEvs).b.moves =
      (go (unpatched (conf .black 5 (.friendly (some .doubleStack)) true)) dsWallEvs).b.srvMoves := by
  decide +kernel

/-- the record is a legal game by the rule book (5×5, default reserves), and nobody has won -/
theorem doubleStack_record_legal :
    ((playAll (Spec.FPA.init 5).cur [place 0 0, place 2 2, slideD 2 2, wall 1 0, slideU 2 1]).map (·.ply)) = some 5 := by
  decide +kernel

/-- **`cairn_legal_record_panics_wall`** — /repo fefa081, bot White, cairn, 4×4, legal record `d4 a4 Sd1 c1` -/
theorem cairn_legal_record_panics_wall :
    (go (unpatched (conf .white 4 (.friendly (some .cairn)) true)) cairnWallEvs).dead =
      some (.panic "no center square between the cairn stones") ∧
    (go (unpatched (conf .white 4 (.friendly (some .cairn)) true)) cairnWallEvs).b.status = .running ∧
    (go (unpatched (conf .white 4 (.friendly (some .cairn)) true)) cairnWallEvs).b.moves =
      [place 2 0, wall 3 0, place 0 3, place 3 3] := by
  decide +kernel

theorem cairn_wall_record_legal :
    ((playAll (Spec.FPA.init 4).cur [place 3 3, place 0 3, wall 3 0, place 2 0]).map (·.ply)) = some 4 := by
  decide +kernel

/-- **`cairn_legal_record_panics_flat`** — /repo fefa081, bot White, cairn, 5×5, legal record `e5 a5 b1 b3` (flats only) -/
theorem cairn_legal_record_panics_flat :
    (go (unpatched (conf .white 5 (.friendly (some .cairn)) true)) cairnFlatEvs).dead =
      some (.panic "no center square between the cairn stones") ∧
    (go (unpatched (conf .white 5 (.friendly (some .cairn)) true)) cairnFlatEvs).b.status = .running ∧
    (go (unpatched (conf .white 5 (.friendly (some .cairn)) true)) cairnFlatEvs).b.moves =
      [place 1 2, place 1 0, place 0 4, place 4 4] := by
  decide +kernel

theorem cairn_flat_record_legal :
    ((playAll (Spec.FPA.init 5).cur [place 4 4, place 0 4, place 1 0, place 1 2]).map (·.ply)) = some 4 := by
  decide +kernel

/-- **`ruleOK_fails_on_legal_record`** — the hypothesis `RuleOK` that `bot_dead_only_by_search` / `bot_never_dead_guarded`
carried for double stack and cairn is FALSE on an event list that is nothing but a legal game replayed by the server
(check verdicts quiet): it cannot be discharged for the tree before `fixes/C07-fpa-script-declines.diff`. -/
theorem ruleOK_fails_on_legal_record :
    ¬ RuleOK (unpatched (conf .black 5 (.friendly (some .doubleStack)) true)) stubSearcher
        (Compose.start (unpatched (conf .black 5 (.friendly (some .doubleStack)) true)) 600 ()) dsWallEvs := by
  intro hrule
  have hchk : ChkOK (unpatched (conf .black 5 (.friendly (some .doubleStack)) true)) stubSearcher
      (Compose.start (unpatched (conf .black 5 (.friendly (some .doubleStack)) true)) 600 ()) dsWallEvs :=
    chkOK_of_noAsk _ _ _ _ (by decide)
  have h := bot_never_dead_guarded (unpatched (conf .black 5 (.friendly (some .doubleStack)) true)) rfl rfl rfl
    (by decide) stubSearcher (fun _ => True) (fun _ _ _ _ _ _ _ _ => trivial) (fun x _ e _ _ => ⟨(x, e), rfl⟩) 600 () trivial
    dsWallEvs hchk hrule
  have h2 := doubleStack_legal_record_panics.1
  unfold go at h2
  rw [h] at h2
  cases h2

/-! ## the repair: scripts that decline -/

/-- **`scripts_total`** — with `fixes/C07-fpa-script-declines.diff`, `GetMove` of every variant returns on every position,
whatever the rule remembers: `dir` on coinciding squares, `adjacent` without an empty neighbour, no square for the cairn
stones — the script declines -/
theorem scripts_total (var : Variant) (r : Rule) (v : View) : ∃ y, getMoveD var r v = .ok y :=
  getMoveD_total var r v

/-- the patch changes nothing where the script answered: same scripted move, same "no script here" -/
theorem scripts_agree (var : Variant) (r : Rule) (v : View) (y : Option Move) (h : getMove var r v = .ok y) :
    getMoveD var r v = .ok y := getMoveD_of_ok h

/-- `m` is a placement or a slide (`Move.Dest()` does not panic): every move `playtak.ParseServer` builds from a `P` / `M`
line, every move of `AllMoves` (`C03.allMoves_onboard`) -/
def MoveShapeOK (m : Move) : Prop := m.dest.isSome = true

instance : DecidablePred MoveShapeOK := fun m => inferInstanceAs (Decidable (m.dest.isSome = true))

/-- `LegalMove` of every variant returns on a placement or slide, whatever the notes and the position -/
theorem legalMove_total (var : Variant) (r : Rule) (v : View) (m : Move) (hm : MoveShapeOK m) :
    ∃ x, legalMove var r v m = .ok x := by
  obtain ⟨⟨ex, ey⟩, hd⟩ : ∃ d, m.dest = some d := Option.isSome_iff_exists.mp hm
  have hdest : destOf m = .ok (ex, ey) := by unfold destOf; rw [hd]
  cases var with
  | center => exact ⟨_, rfl⟩
  | doubleStack =>
    show ∃ x, doubleStackLegal r v m = .ok x
    unfold doubleStackLegal
    simp only [hdest, bind, Except.bind]
    repeat' split
    all_goals exact ⟨_, rfl⟩
  | cairn =>
    show ∃ x, cairnLegal r v m = .ok x
    unfold cairnLegal
    simp only [hdest, bind, Except.bind]
    repeat' split
    all_goals exact ⟨_, rfl⟩

/-- the replay loop over the older pairs never panics on placements and slides -/
theorem replay_total_shape (var : Variant) : ∀ (l : List (View × Move)) (r : Rule), (∀ vm ∈ l, MoveShapeOK vm.2) →
    ∃ r1, FPA.replay var r l = .ok r1
  | [], r, _ => ⟨r, rfl⟩
  | (v, m) :: rest, r, h => by
    unfold FPA.replay
    obtain ⟨⟨r', ok⟩, hx⟩ := legalMove_total var (if v.ply = 0 then {} else r) v m (h (v, m) (List.mem_cons_self ..))
    have : legalMoveR var r v m = .ok (r', ok) := hx
    rw [this]
    exact replay_total_shape var rest r' (fun vm hvm => h vm (List.mem_cons_of_mem _ hvm))

/-- the rule's first block on a record of the right shape whose moves are placements or slides -/
theorem entryRule_total (var : Variant) (r : Rule) (g : GameRec) (hshape : g.positions.length = g.moves.length + 1)
    (hm : ∀ m ∈ g.moves, MoveShapeOK m) : ∃ r1, entryRule var r g = .ok r1 := by
  have hop : ∃ h, olderPairs g = .ok h ∧ ∀ vm ∈ h, MoveShapeOK vm.2 := by
    unfold olderPairs
    dsimp only
    split
    · rename_i hlt
      simp only [List.length_reverse, List.length_dropLast] at hlt
      omega
    · refine ⟨_, rfl, ?_⟩
      intro vm hvm
      obtain ⟨qm, hqm, rfl⟩ := List.mem_map.mp hvm
      have h2 := (List.of_mem_zip hqm).2
      exact hm _ (List.mem_reverse.mp (List.dropLast_subset _ h2))
  obtain ⟨h, hh, hok⟩ := hop
  obtain ⟨r1, hr1⟩ := replay_total_shape var h r hok
  exact ⟨r1, by unfold entryRule; rw [hh]; exact hr1⟩

/-- what `C20.RuleTotal` asked of the rule before the scripts: the replay loop and `LegalMove` on the newest pair -/
def CheckTotal (fpa : Option (Variant × Rule)) (g : GameRec) (p : Pos) : Prop :=
  ∀ var r, fpa = some (var, r) →
    (p.move > 0 → ∃ r1, entryRule var r g = .ok r1 ∧
      ∀ q m, prevOf g = .ok (q, m) → ∃ x, legalMoveR var r1 (viewOfPos q) m = .ok x)

/-- **`rule_total_declining`** — on a record of the shape the loop keeps (`len(Positions) = len(Moves) + 1`) whose moves
are placements or slides, the replay loop and the judgement of the newest pair run through, for every variant and whatever
the rule value remembered -/
theorem rule_total_declining (fpa : Option (Variant × Rule)) (g : GameRec) (p : Pos)
    (hshape : g.positions.length = g.moves.length + 1) (hm : ∀ m ∈ g.moves, MoveShapeOK m) : CheckTotal fpa g p := by
  intro var r _ _
  obtain ⟨r1, hr1⟩ := entryRule_total var r g hshape hm
  refine ⟨r1, hr1, fun q m hq => ?_⟩
  have hmem : m ∈ g.moves := by
    unfold prevOf at hq
    split at hq
    · split at hq
      · rename_i m' tl hms
        injection hq with hq
        have := (Prod.mk.inj hq).2
        subst this
        rw [hms]
        exact List.mem_cons_self ..
      · cases hq
    all_goals cases hq
  exact legalMove_total var _ _ m (hm m hmem)

/-- `C20.friendly_total_of` for the patched call: only the first block of the rule is asked to be total -/
theorem friendlyD_total_of (fpa : Option (Variant × Rule)) (g : GameRec) (p : Pos) (o : CheckOracle)
    (hrule : CheckTotal fpa g p)
    (hrec : p.move > 0 → 2 ≤ g.positions.length ∧ 1 ≤ g.moves.length)
    (hchk : asksPrev o = true → 2 ≤ g.positions.length) :
    ∃ x, Glue.friendlyGetMoveD fpa g p o = .ok x := by
  have hw : ∃ w, waitUndo g o = .ok w := by
    unfold waitUndo
    split
    · exact ⟨_, rfl⟩
    · rename_i ha
      have ha' : asksPrev o = true := by simpa using ha
      have hl := hchk ha'
      match hg : g.positions with
      | _ :: _ :: _ => exact ⟨_, rfl⟩
      | [] => rw [hg] at hl; simp at hl
      | [_] => rw [hg] at hl; simp at hl
  obtain ⟨w, hw⟩ := hw
  rw [Tak.Glue.friendlyD_cases]
  cases fpa with
  | none =>
    rw [fpaCheck_none]
    simp only [fpaScriptD, hw]
    split <;> exact ⟨_, rfl⟩
  | some vr =>
    obtain ⟨var, r⟩ := vr
    have hl := hrule var r rfl
    rw [fpaCheck_some]
    unfold prevCheck
    by_cases hp : p.move > 0
    · obtain ⟨q, m, hq⟩ : ∃ q m, prevOf g = .ok (q, m) := by
        unfold prevOf
        obtain ⟨hp2, hm⟩ := hrec hp
        match hg : g.positions, hg2 : g.moves with
        | _ :: q :: _, m :: _ => exact ⟨q, m, rfl⟩
        | [], _ => rw [hg] at hp2; simp at hp2
        | [_], _ => rw [hg] at hp2; simp at hp2
        | _ :: _ :: _, [] => rw [hg2] at hm; simp at hm
      obtain ⟨r1, her, hl⟩ := hl hp
      simp only [hp, if_true, her, hq]
      obtain ⟨⟨r', ok⟩, hx⟩ := hl q m hq
      rw [hx]
      cases ok with
      | false =>
        obtain ⟨msg, he⟩ := errMsg_ok_of_reject (r := if (viewOfPos q).ply = 0 then {} else r1) hx
        simp only [he]
        exact ⟨_, rfl⟩
      | true =>
        simp only
        obtain ⟨y, hy⟩ := fpaScriptD_total (some (var, r')) p
        rw [hy]
        split
        · exact ⟨_, rfl⟩
        · cases y <;> simp only [hw] <;> exact ⟨_, rfl⟩
    · simp only [hp, if_false]
      obtain ⟨y, hy⟩ := fpaScriptD_total (some (var, r)) p
      rw [hy]
      split
      · exact ⟨_, rfl⟩
      · cases y <;> simp only [hw] <;> exact ⟨_, rfl⟩

/-- **`declining_agrees`** — the patched composed call does exactly what the call of /repo fefa081 did wherever that one
ran through (same action, same notes): every theorem about calls that returned — C20's openings, `friendly_move_legal*`,
`bot_inv_friendly` — is a theorem about the patched code; the two differ only where the old call panicked inside the script -/
theorem declining_agrees (c : Compose.Conf) (fpa : Option (Variant × Rule)) (g : GameRec) (p : Pos) (o : CheckOracle)
    (x : Option (Variant × Rule) × Action) (h : Glue.friendlyGetMove fpa g p o = .ok x) :
    Compose.friendlyOf c fpa g p o = .ok x := Compose.friendlyOf_of_ok c h

/-- the call of the CURRENT thinker runs through, one state (`glueCall_cur_ok` with the declining scripts) -/
theorem glueCall_cur_ok_declining (c : Compose.Conf) (hrep : c.replay = true) (hdec : c.decline = true) {b : Bot.St} {p0 : Pos}
    (hs : SInv c.bot b) (hP : PInv (fun p => p.cfg.size = c.size) p0 b) (hp0 : p0.move = 0) (hnc : ¬ b.crashed)
    (fpa : Option (Variant × Rule)) (chk : CheckOracle)
    (hm : ∀ m ∈ b.moves, MoveShapeOK m) (hchk : asksPrev chk = true → b.cur.pos.move > 0) :
    ∃ x, glueCall c fpa b b.cur chk = .ok x := by
  have hshape := hs.core.shape hnc
  have hmem := hP.cmem hnc
  have hlast := hP.last hnc
  have hlen : b.cur.pos.move > 0 → 2 ≤ b.positions.length := by
    intro hm
    match hps : b.positions with
    | [] => rw [hps] at hmem; cases hmem
    | [x] =>
      rw [hps] at hmem hlast
      simp only [List.getLast?_singleton, Option.some.injEq] at hlast
      simp only [List.mem_singleton] at hmem
      rw [hmem, hlast, hp0] at hm
      exact absurd hm (by decide)
    | _ :: _ :: _ => simp
  unfold glueCall glueOn
  split
  · rw [if_pos hrep]
    unfold Compose.friendlyOf
    rw [if_pos hdec]
    apply friendlyD_total_of
    · exact rule_total_declining fpa _ _ hshape hm
    · intro hm
      have := hlen hm
      show 2 ≤ b.positions.length ∧ 1 ≤ b.moves.length
      omega
    · intro ha
      exact hlen (hchk ha)
  · exact ⟨_, rfl⟩

/-- **`current_thinker_total_declining`** — `current_thinker_total` for the tree with `fixes/C07-fpa-script-declines.diff`,
WITHOUT the hypothesis `C20.RuleTotal`: in every reachable state of the composed system whose protocol goroutine has not
panicked, the `GetMove` call of the thinker of the current invocation runs through — no index panic on the record, no
panic in the rule's `LegalMove`, none in its scripts —, for `Friendly` with any rule or none and for `Taktician`, provided
the moves of the record are placements or slides and the check engine claims a win in one only beyond ply 0. -/
theorem current_thinker_total_declining (c : Compose.Conf) (hrep : c.replay = true) (hdec : c.decline = true)
    (hfix : c.bot.fixed = true) (hsize : 3 ≤ c.size ∧ c.size ≤ 8) (S : Searcher σ χ) (secs : Int) (eng0 : σ)
    (evs : List (Compose.Ev χ)) (chk : CheckOracle)
    (hnc : ¬ (Compose.run c S (Compose.start c secs eng0) evs).b.crashed)
    (hm : ∀ m ∈ (Compose.run c S (Compose.start c secs eng0) evs).b.moves, MoveShapeOK m)
    (hchk : asksPrev chk = true → (Compose.run c S (Compose.start c secs eng0) evs).b.cur.pos.move > 0) :
    ∃ x, glueCall c (Compose.run c S (Compose.start c secs eng0) evs).fpa (Compose.run c S (Compose.start c secs eng0) evs).b
      (Compose.run c S (Compose.start c secs eng0) evs).b.cur chk = .ok x := by
  obtain ⟨hs, _, _⟩ := composed_loop_facts c hfix hsize S secs eng0 evs
  obtain ⟨p0, hp0, hP0⟩ := pinv_startBot c secs hsize
  have hA : ∀ (p : Pos) (m : Move) (q : Pos), p.cfg.size = c.size → p.apply c.bot.basis m = .ok q → q.cfg.size = c.size :=
    fun p m q hp ha => by rw [apply_cfg ha]; exact hp
  have hP : PInv (fun p => p.cfg.size = c.size) p0 (Compose.run c S (Compose.start c secs eng0) evs).b := by
    obtain ⟨bevs, hb⟩ := compose_refines c S secs eng0 evs
    rw [hb]
    exact pinv_run hA c.bot rfl hP0 bevs
  exact glueCall_cur_ok_declining c hrep hdec hs hP hp0 hnc _ chk hm hchk

/-- **what is asked of the record** along an event list, in place of `RuleOK`: whenever a thinker is let into `GetMove`
while the loop runs, the moves of the record are placements or slides -/
def MovesOK (c : Compose.Conf) (S : Searcher σ χ) : Compose.St σ χ → List (Compose.Ev χ) → Prop
  | _, [] => True
  | s, e :: es =>
    (match e with
     | .enter _ _ => s.b.status = .running → ∀ m ∈ s.b.moves, MoveShapeOK m
     | _ => True) ∧ MovesOK c S (Compose.step c S s e) es

/-- **`callsOK_declining`** — with the declining scripts `MovesOK` is all the calls need (`CallsOK`, the hypothesis the
no-crash theorems of `Props/C07_compose2.lean` really use) -/
theorem callsOK_declining (c : Compose.Conf) (hrep : c.replay = true) (hdec : c.decline = true) (hfix : c.bot.fixed = true)
    (S : Searcher σ χ) {p0 : Pos} (evs : List (Compose.Ev χ)) :
    ∀ (s : Compose.St σ χ), SafeInv c p0 s → MovesOK c S s evs → CallsOK c S s evs := by
  induction evs with
  | nil => intro _ _ _; trivial
  | cons e es ih =>
    intro s hI hM
    refine ⟨?_, ih _ (safeInv_step hrep hfix S hI e) hM.2⟩
    cases e with
    | enter k chk =>
      exact fun hrun hc => glueCall_cur_ok_declining c hrep hdec hI.sinv hI.pinv hI.p0m (not_crashed_of_running hrun)
        s.fpa chk (hM.1 hrun) hc
    | _ => trivial

/-- **`bot_dead_only_by_search_declining`** — the tree with `fixes/C07-fpa-script-declines.diff`: for `Taktician` and
`Friendly` with ANY rule (double stack and cairn included) or none, any searching player, colour, size 3..8, clock and
EVERY event list with sane check verdicts (`ChkOK`) whose records hold placements and slides (`MovesOK`): a thinker
goroutine is lost only to an error raised by the searching player itself. -/
theorem bot_dead_only_by_search_declining (c : Compose.Conf) (hguard : c.guard = true) (hrep : c.replay = true)
    (hdec : c.decline = true) (hfix : c.bot.fixed = true) (hsize : 3 ≤ c.size ∧ c.size ≤ 8)
    (S : Searcher σ χ) (secs : Int) (eng0 : σ) (evs : List (Compose.Ev χ))
    (hchk : ChkOK c S (Compose.start c secs eng0) evs) (hmoves : MovesOK c S (Compose.start c secs eng0) evs) :
    DeadBySearch S (Compose.run c S (Compose.start c secs eng0) evs) := by
  obtain ⟨p0, hI⟩ := safeInv_start (χ := χ) c hsize secs eng0
  exact deadBySearch_run_call c hguard hrep hfix S evs _ hI (fun _ h => by cases h) hchk
    (callsOK_declining c hrep hdec hfix S evs _ hI hmoves)

/-- **`bot_never_dead_declining`** — `bot_never_dead_guarded` without `RuleOK`: with a searching player that answers on
every `size`×`size` position from every state satisfying its invariant, the patched bot NEVER loses a thinker goroutine —
every rule, every event list with sane check verdicts on whose records the moves are placements or slides.  With
`C07.bot_no_panic` (the protocol goroutine): the bot process survives every interleaving and every legal record. -/
theorem bot_never_dead_declining (c : Compose.Conf) (hguard : c.guard = true) (hrep : c.replay = true)
    (hdec : c.decline = true) (hfix : c.bot.fixed = true) (hsize : 3 ≤ c.size ∧ c.size ≤ 8)
    (S : Searcher σ χ) (G : σ → Prop)
    (hS : ∀ x p e m e', p.cfg.size = c.size → G e → S.run x p e = .ok (m, e') → G e')
    (hT : ∀ x p e, p.cfg.size = c.size → G e → ∃ r, S.run x p e = .ok r)
    (secs : Int) (eng0 : σ) (h0 : G eng0) (evs : List (Compose.Ev χ))
    (hchk : ChkOK c S (Compose.start c secs eng0) evs) (hmoves : MovesOK c S (Compose.start c secs eng0) evs) :
    (Compose.run c S (Compose.start c secs eng0) evs).dead = none :=
  never_dead_of_deadBySearch c hsize S G hS hT secs eng0 h0 evs
    (bot_dead_only_by_search_declining c hguard hrep hdec hfix hsize S secs eng0 evs hchk hmoves)

/-- `MovesOK` along a run from any state that satisfies the invariants, when no event carries the pass and the searching
player never answers it -/
theorem movesOK_run (c : Compose.Conf) (hsize : 3 ≤ c.size ∧ c.size ≤ 8) (S : Searcher σ χ)
    (hSP : ∀ x p e m e', S.run x p e = .ok (m, e') → m.type ≠ Facts.mtPass) {p0 : Pos} (evs : List (Compose.Ev χ)) :
    ∀ (s : Compose.St σ χ), CInv c S (fun _ => True) s → PInv (fun p => p.cfg.size = c.size) p0 s.b → Bot.MInv s.b →
      (∀ e ∈ evs, Compose.EvNoPass e) → MovesOK c S s evs := by
  have hA : ∀ (p : Pos) (m : Move) (q : Pos), p.cfg.size = c.size → p.apply c.bot.basis m = .ok q → q.cfg.size = c.size :=
    fun p m q hp ha => by rw [apply_cfg ha]; exact hp
  have hz : ∀ (p q : Pos), p.cfg.size = c.size → p.apply c.bot.basis Bot.zeroMove ≠ .ok q :=
    fun p q hp => zero_rejected c.bot.basis c.size hsize p q hp
  induction evs with
  | nil => intro _ _ _ _ _; trivial
  | cons e es ih =>
    intro s hC hP hM hev
    refine ⟨?_, ih _ (cinv_step (A := fun p => p.cfg.size = c.size) (fun _ _ _ _ _ _ _ _ => trivial) hz hP hC e)
      (pinv_composed_step hA S hP e)
      (Compose.minv_composed_step hSP hC hM e (hev e (List.mem_cons_self ..)))
      (fun e' he' => hev e' (List.mem_cons_of_mem _ he'))⟩
    cases e with
    | enter k chk => exact fun _ => hM
    | _ => trivial

/-- **`movesOK_of_events`** — `MovesOK` is a CONSEQUENCE of what the events carry: if every move a server line parses to is
not the pass (`playtak.ParseServer` builds placements and slides only) and the searching player never answers the pass
(an engine that answers from `AllMoves`: `C03.allMoves_onboard`; the stub of the harness: what the schedule says), then at
every point of every run the moves of the bot's record are placements or slides.  (Every move entered the record through
`Position.Move` — `Bot.apply_ok_shape`: it accepts the pass, placements and slides only —, the zero move is rejected, the
rule's scripted moves are flat placements or one-square slides: `FPA.getMove_not_pass`.) -/
theorem movesOK_of_events (c : Compose.Conf) (hsize : 3 ≤ c.size ∧ c.size ≤ 8) (S : Searcher σ χ)
    (hSP : ∀ x p e m e', S.run x p e = .ok (m, e') → m.type ≠ Facts.mtPass) (secs : Int) (eng0 : σ)
    (evs : List (Compose.Ev χ)) (hev : ∀ e ∈ evs, Compose.EvNoPass e) :
    MovesOK c S (Compose.start c secs eng0) evs := by
  obtain ⟨p0, _, hP⟩ := pinv_startBot c secs hsize
  refine movesOK_run c hsize S hSP evs _ (cinv_start c S _ secs eng0 trivial) hP ?_ hev
  intro m hm
  have : (startBot c secs).moves = [] := by
    unfold startBot
    split <;> rfl
  have hm' : m ∈ (startBot c secs).moves := hm
  rw [this] at hm'
  cases hm'

/-- **`bot_never_dead_declining_events`** — the end-to-end form, no hypothesis about reachable states left but the sanity of
the check engine's verdicts: the tree with `fixes/C07-fpa-script-declines.diff` (and the two earlier fixes), `Friendly` with
ANY rule or none or `Taktician`, any colour, size 3..8, clock, and EVERY event list in which no server line parses to the
pass, with a searching player that answers on every `size`×`size` position from every state satisfying its invariant and
never answers the pass: no thinker goroutine is ever lost.  With `C07.bot_no_panic`: the bot process survives every
interleaving and every legal record the server can replay. -/
theorem bot_never_dead_declining_events (c : Compose.Conf) (hguard : c.guard = true) (hrep : c.replay = true)
    (hdec : c.decline = true) (hfix : c.bot.fixed = true) (hsize : 3 ≤ c.size ∧ c.size ≤ 8)
    (S : Searcher σ χ) (G : σ → Prop)
    (hS : ∀ x p e m e', p.cfg.size = c.size → G e → S.run x p e = .ok (m, e') → G e')
    (hT : ∀ x p e, p.cfg.size = c.size → G e → ∃ r, S.run x p e = .ok r)
    (hSP : ∀ x p e m e', S.run x p e = .ok (m, e') → m.type ≠ Facts.mtPass)
    (secs : Int) (eng0 : σ) (h0 : G eng0) (evs : List (Compose.Ev χ))
    (hchk : ChkOK c S (Compose.start c secs eng0) evs) (hev : ∀ e ∈ evs, Compose.EvNoPass e) :
    (Compose.run c S (Compose.start c secs eng0) evs).dead = none :=
  bot_never_dead_declining c hguard hrep hdec hfix hsize S G hS hT secs eng0 h0 evs hchk
    (movesOK_of_events c hsize S hSP secs eng0 evs hev)

/-- the hypotheses on the searching player are satisfiable: a stub that answers what the schedule says, the schedule's
answers ranging over the moves that are not the pass -/
example : ∃ S : Searcher Unit { m : Move // m.type ≠ Facts.mtPass },
    (∀ x p e m e', S.run x p e = .ok (m, e') → m.type ≠ Facts.mtPass) ∧ (∀ x p e, ∃ r, S.run x p e = .ok r) :=
  ⟨{ run := fun m _ s => .ok (m.1, s) },
   fun x _ _ m _ h => by injection h with h; rw [← (Prod.mk.inj h).1]; exact x.2,
   fun _ _ _ => ⟨_, rfl⟩⟩

/-- … and so are those on the events: the server lines of the double-stack schedule below parse to placements and slides -/
example : ∀ e ∈ (Ex.dsWallEvs : List (Compose.Ev Move)), Compose.EvNoPass e := by decide +kernel

/-! ## the three records with the patch -/

/-- **`doubleStack_legal_record_no_panic`** — the same schedule on the patched tree: nobody dies; the call of thinker 1
finds no scripted move and asks the searching player (floor `minThink`) -/
theorem doubleStack_legal_record_no_panic :
    (go (conf .black 5 (.friendly (some .doubleStack)) true) dsWallEvs).dead = none ∧
    ((go (conf .black 5 (.friendly (some .doubleStack)) true) dsWallEvs).calls.map (·.act)) =
      [.noMove, .think (some Facts.maxThink) (some .minThink)] ∧
    (go (conf .black 5 (.friendly (some .doubleStack)) true) dsWallEvs).b.moves.length = 5 := by
  decide +kernel

theorem cairn_legal_record_no_panic :
    (go (conf .white 4 (.friendly (some .cairn)) true) cairnWallEvs).dead = none ∧
    ((go (conf .white 4 (.friendly (some .cairn)) true) cairnWallEvs).calls.map (·.act)).getLast? =
      some (.think (some Facts.maxThink) (some .minThink)) ∧
    (go (conf .white 5 (.friendly (some .cairn)) true) cairnFlatEvs).dead = none ∧
    ((go (conf .white 5 (.friendly (some .cairn)) true) cairnFlatEvs).calls.map (·.act)).getLast? =
      some (.think (some Facts.maxThink) (some .minThink)) := by
  decide +kernel

/-! ## what the patch does not cure: a scripted move that is illegal on a foreign record -/

/-- bot Black, double stack, 5×5, the server replays the legal record `a3 c3 Sb3 d3 b3>` (White's ply 2 is a wall next to
its stone, Black's own ply 3 a flat that is not next to `a3`, White's wall then moves onto `c3` = `whitePlace`: accepted) -/
def Ex.dsIllegalEvs : List (Compose.Ev Move) :=
  [.enter 0 quiet, .leave 0 zm, srv ["P", "A3"] (place 0 2), srv ["P", "C3"] (place 2 2), srv ["P", "B3", "W"] (wall 1 2),
   srv ["P", "D3"] (place 3 2), srv ["M", "B3", "C3", "1"] (slideR 1 2), tm, .enter 1 quiet]

/-- **`foreign_record_scripted_move_illegal`** — NOT a panic and not cured by `fixes/C07-fpa-script-declines.diff` (both trees):
on this legal record the double-stack script answers `d3<` — a slide onto White's wall, illegal by the rule book.  The bot
loop rejects it (`ai returned bad move`), `handleMove` returns `false`, `PlayGame` calls it again, the next thinker gets the
same answer: the bot offers an illegal move forever (the correspondence sees the call counter run into its cap, real code
and model alike).  Nothing illegal is transmitted and the loop still ends when the server ends the game, so C07 as stated
holds; C20 quantifies over openings played by the rule.  A follow-up patch would let `Friendly.GetMove` try the scripted
move (`p.Move(m)`) and search when it is rejected (`fixes/proposed/C07-fpa-script-illegal-on-foreign-record.msg`). -/
theorem foreign_record_scripted_move_illegal :
    ((go (conf .black 5 (.friendly (some .doubleStack)) true) dsIllegalEvs).calls.map (·.act)).getLast? = some (.move (slideL 3 2)) ∧
    (go (conf .black 5 (.friendly (some .doubleStack)) true) dsIllegalEvs).dead = none ∧
    ((playAll (Spec.FPA.init 5).cur [place 0 2, place 2 2, wall 1 2, place 3 2, slideR 1 2]).map (·.ply)) = some 5 ∧
    playAll (Spec.FPA.init 5).cur [place 0 2, place 2 2, wall 1 2, place 3 2, slideR 1 2, slideL 3 2] = none := by
  decide +kernel

/-- non-vacuity of `bot_never_dead_declining` / `MovesOK` / `ChkOK`: the double-stack schedule is an event list of the
patched composed system with quiet check verdicts, and at its `enter` events the record holds placements and slides -/
example :
    (conf .black 5 (.friendly (some .doubleStack)) true).decline = true ∧
    (conf .black 5 (.friendly (some .doubleStack)) true).replay = true ∧
    ChkOK (conf .black 5 (.friendly (some .doubleStack)) true) stubSearcher
      (Compose.start (conf .black 5 (.friendly (some .doubleStack)) true) 600 ()) dsWallEvs ∧
    (∀ m ∈ (go (conf .black 5 (.friendly (some .doubleStack)) true) dsWallEvs).b.moves, MoveShapeOK m) :=
  ⟨rfl, rfl, chkOK_of_noAsk _ _ _ _ (by decide), by decide +kernel⟩

/-- a concrete instance of `scripts_total` where the script before the patch panicked: double stack, ply 5, fresh notes -/
example : getMove .doubleStack {} { size := 5, ply := 5, empty := fun _ _ => true } = .error (.panic "bad dir() call") ∧
    getMoveD .doubleStack {} { size := 5, ply := 5, empty := fun _ _ => true } = .ok none := ⟨rfl, rfl⟩

/-- a concrete instance of `legalMove_total`: the wall `Sb1` shown to the double-stack rule at ply 3 is rejected, not a panic -/
example : MoveShapeOK (wall 1 0) ∧
    legalMove .doubleStack {} { size := 5, ply := 3, empty := fun _ _ => true } (wall 1 0) = .ok ({}, false) :=
  ⟨by decide, rfl⟩

end C07
