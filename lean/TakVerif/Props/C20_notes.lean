import TakVerif.Props.C20_repair
import TakVerif.Proofs.FPATotal

/-! # C20 / C07 — the hypothesis `Glue.entryNotes … = .ok t.rule` of `friendly_move_legal*` discharged (work package fpatotal)

`friendly_move_legal` (`Props/C20_glue.lean`) asks that the notes the patched `Friendly.GetMove` rebuilds from the bit-level
record `g` (`Glue.entryNotes`) be those of the opening-game state `t`.  `Proofs.FPARepair.entryNotes_eq` says what the
rebuilt notes are at VIEW level (`FPA.entryNotes`); the bridge between the two was missing:

* `entryNotes_bridge` – `Glue.entryNotes var r g p` **is** `FPA.entryNotes var r p.move (recPairs g)`, where `recPairs g` is the
  record as the replay loop and the final `LegalMove` see it: the older pairs `(viewOfPos Positions[i], Moves[i])`, oldest
  first, then the newest pair;
* `glue_is_friendlyGetMoveR` – so the whole bit-level call is the view-level `friendlyGetMoveR` on `recPairs g`;
* **`friendly_move_legal_record`** – `friendly_move_legal` with `hnotes` and `hprev` replaced by one plain statement about the
  record: it shows the rule the pairs of the game that led to `t` (`recPairs g = t.hist`, `t` a state of the RECORD-based
  opening game `Spec.FPA.StR`, reachable from the start with any notes), and for ANY notes `r` the rule value holds on
  entry.  Whatever `GetMove` returns is the zero move or legal.  Since `Compose.friendlyOf` agrees with
  `Glue.friendlyGetMove` wherever that returns (`C07.declining_agrees`) and a call that declined where the old script
  panicked asks the searcher, `friendly_move_legal_record_declining` is the same for the tree with
  `fixes/C07-fpa-script-declines.diff`. -/
namespace C20
open Tak Tak.FPA Tak.Glue Spec.FPA Proofs.FPARepair

/-- the record as the repaired `Friendly.GetMove` shows it to the rule: the older pairs (the replay loop), then the
newest pair (the `LegalMove` whose verdict counts); empty when the record is too short to have a newest pair -/
def recPairs (g : GameRec) : List (View × Move) :=
  match olderPairs g, prevOf g with
  | .ok l, .ok (q, m) => l ++ [(viewOfPos q, m)]
  | _, _ => []

/-- **`entryNotes_bridge`** — the notes the bit-level call rebuilds are the view-level `FPA.entryNotes` of the record's pairs -/
theorem entryNotes_bridge (var : Variant) (r : Rule) (g : GameRec) (p : Pos) (l : List (View × Move)) (q : Pos) (m : Move)
    (hl : olderPairs g = .ok l) (hq : prevOf g = .ok (q, m)) :
    Glue.entryNotes var r g p = FPA.entryNotes var r p.move (recPairs g) := by
  have hrp : recPairs g = l ++ [(viewOfPos q, m)] := by unfold recPairs; rw [hl, hq]
  rw [hrp]
  unfold Glue.entryNotes FPA.entryNotes entryRule
  rw [hl, hq]
  by_cases hp : p.move > 0
  · simp only [hp, if_true, List.getLast?_append, List.getLast?_singleton, Option.some_or, List.dropLast_concat]
    cases replay var r l with
    | error e => rfl
    | ok r1 => rfl
  · simp only [hp, if_false]

theorem recPairs_getLast (g : GameRec) (l : List (View × Move)) (q : Pos) (m : Move)
    (hl : olderPairs g = .ok l) (hq : prevOf g = .ok (q, m)) : (recPairs g).getLast? = prevViews g := by
  unfold recPairs prevViews
  rw [hl, hq]
  simp

/-- at ply 0 `Friendly.GetMove` does not look at the previous pair -/
theorem fgm_prev_ply0 (var : Variant) (color : Color) (r : Rule) (view : View) (toMove : Color)
    (prev prev' : Option (View × Move)) (h0 : ¬ view.ply > 0) :
    FPA.friendlyGetMove var color r view toMove prev = FPA.friendlyGetMove var color r view toMove prev' := by
  unfold FPA.friendlyGetMove
  simp only [h0, if_false]

/-- **`glue_is_friendlyGetMoveR`** — a bit-level call that returns is the view-level patched call on the record's pairs:
same reply, same notes afterwards -/
theorem glue_is_friendlyGetMoveR (var : Variant) (r : Rule) (g : GameRec) (p : Pos) (o : CheckOracle)
    (f' : Option (Variant × Rule)) (a : Action)
    (h : Glue.friendlyGetMove (some (var, r)) g p o = .ok (f', a)) :
    ∃ r' rep, friendlyGetMoveR var g.color r (viewOfPos p) p.toMove (recPairs g) = .ok (r', rep) ∧
      f' = some (var, r') ∧ Matches rep a := by
  obtain ⟨r1, r', rep, hn, hf, hf', hm⟩ := glue_refines_fpa var r g p o f' a h
  refine ⟨r', rep, ?_, hf', hm⟩
  unfold friendlyGetMoveR
  have hply : (viewOfPos p).ply = p.move := rfl
  by_cases hp : p.move > 0
  · -- the call read the record: both index expressions succeeded
    have hn' := hn
    unfold Glue.entryNotes entryRule at hn'
    simp only [hp, if_true] at hn'
    cases hl : olderPairs g with
    | error e => rw [hl] at hn'; cases hn'
    | ok l =>
      cases hq : prevOf g with
      | error e =>
        rw [hl, hq] at hn'
        simp only at hn'
        cases hr : replay var r l with
        | error e => rw [hr] at hn'; cases hn'
        | ok r2 => rw [hr] at hn'; cases hn'
      | ok qm =>
        obtain ⟨q, m⟩ := qm
        rw [hply, ← entryNotes_bridge var r g p l q m hl hq, hn]
        simp only
        rw [recPairs_getLast g l q m hl hq]
        exact hf
  · have h1 : Glue.entryNotes var r g p = .ok r := by unfold Glue.entryNotes; simp only [hp, if_false]
    rw [h1] at hn
    injection hn with hn
    subst hn
    have h2 : FPA.entryNotes var r (viewOfPos p).ply (recPairs g) = .ok r := by
      unfold FPA.entryNotes; rw [hply]; simp only [hp, if_false]
    rw [h2]
    simp only
    rw [fgm_prev_ply0 var g.color r (viewOfPos p) p.toMove _ (prevViews g) (by rw [hply]; exact hp)]
    exact hf

/-- **`friendly_move_legal_record`** — every move the patched `Friendly.GetMove` returns under an FPA rule is the zero move
or legal, stated on the record alone.  `t` is a state of the record-based opening game (`Spec.FPA.StR`: it carries the
pairs played so far) reachable within the horizon for which the C20 claim `Holds`, from a start with ANY notes `r0`; the
call `(g, p)` shows the rule what `t` shows it: same view of the position, same side to move, and the record's pairs are
the game's (`recPairs g = t.hist`).  The rule value may hold ANY notes `r` on entry (those of another game, of an undone
line).  No hypothesis about rebuilt notes is left. -/
theorem friendly_move_legal_record (var : Variant) (color : Color) (size horizon : Nat)
    (hH : Holds var color size horizon) (r0 : Rule) (k : Nat) (hk : k ≤ horizon) (t : StR Spec.State)
    (hreach : ReachR specBoard var color k (initR size r0) t)
    (g : GameRec) (p : Pos) (o : CheckOracle) (f' : Option (Variant × Rule)) (a : Action)
    (hcol : g.color = color) (hview : viewOfPos p = viewOf t.cur) (hmv : p.toMove = t.cur.toMove)
    (hrec : recPairs g = t.hist)
    (r : Rule) (h : Glue.friendlyGetMove (some (var, r)) g p o = .ok (f', a))
    (ans : Move) (hsearch : a.searches = true → (Spec.step t.cur (Spec.decode ans)).isSome = true) :
    a.returned ans = zeroMove ∨ (Spec.step t.cur (Spec.decode (a.returned ans))).isSome = true := by
  obtain ⟨v, hv, hsim⟩ := reach_sim (color := color) spec_ply hreach (init size) (sim_init var size r0)
  obtain ⟨r', rep, hR, _, hm⟩ := glue_is_friendlyGetMoveR var r g p o f' a h
  -- the same game state with the notes the rule value holds on entry
  have hsim' : Sim specBoard var v { t with notes := r } :=
    ⟨hsim.cur, hsim.scr, hsim.prev, hsim.ply, hsim.plies, hsim.chain⟩
  have hturnR : turnR specBoard var color { t with notes := r } = .ok (r', rep) := by
    unfold turnR
    show friendlyGetMoveR var color r (viewOf t.cur) t.cur.toMove t.hist = _
    rw [← hview, ← hmv, ← hrec, ← hcol]
    exact hR
  rw [turn_sim (color := color) hsim'] at hturnR
  have hg := hH k v hk hv
  have hcur : t.cur = v.cur := hsim.cur
  rw [hcur] at hsearch ⊢
  cases hts : turn specBoard var color v with
  | error e => rw [hts] at hturnR; cases hturnR
  | ok x =>
    obtain ⟨r2, rep2⟩ := x
    rw [hts] at hturnR
    simp only at hturnR
    injection hturnR with hturnR
    have hrep : rep2 = rep := (Prod.mk.inj hturnR).2
    subst hrep
    cases hm with
    | resign msg => exact .inl rfl
    | notMyTurn => exact .inl rfl
    | scripted m => exact .inr (good_scripted var color v r2 m hg hts)
    | search l f => exact .inr (hsearch rfl)

/-- **`friendly_move_legal_record_declining`** — the same for the call of the tree with `fixes/C07-fpa-script-declines.diff`
(`Compose.friendlyOf` with `decline = true`, or either tree): where it differs from the call above the old script had
panicked and the new call asks the searching player, whose answer is legal by its contract -/
theorem friendly_move_legal_record_declining (c : Compose.Conf) (var : Variant) (color : Color) (size horizon : Nat)
    (hH : Holds var color size horizon) (r0 : Rule) (k : Nat) (hk : k ≤ horizon) (t : StR Spec.State)
    (hreach : ReachR specBoard var color k (initR size r0) t)
    (g : GameRec) (p : Pos) (o : CheckOracle) (f' : Option (Variant × Rule)) (a : Action)
    (hcol : g.color = color) (hview : viewOfPos p = viewOf t.cur) (hmv : p.toMove = t.cur.toMove)
    (hrec : recPairs g = t.hist)
    (r : Rule) (h : Compose.friendlyOf c (some (var, r)) g p o = .ok (f', a))
    (ans : Move) (hsearch : a.searches = true → (Spec.step t.cur (Spec.decode ans)).isSome = true) :
    a.returned ans = zeroMove ∨ (Spec.step t.cur (Spec.decode (a.returned ans))).isSome = true := by
  rcases Compose.friendlyOf_ok_cases c h with h1 | ⟨_, e, lim, fl, _, ha, _⟩
  · exact friendly_move_legal_record var color size horizon hH r0 k hk t hreach g p o f' a hcol hview hmv hrec r h1 ans hsearch
  · subst ha
    exact .inr (hsearch rfl)

/-- every variant, both colours, sizes 4..8 (the horizons the shards were evaluated for): no hypothesis left but the
record showing the game and the searcher's contract -/
theorem friendly_move_legal_record_all (var : Variant) (size : Nat) (hs : size ∈ [4, 5, 6, 7, 8]) (color : Color)
    (hc : color ∈ [Color.white, Color.black]) (r0 : Rule) (k : Nat) (hk : k ≤ (if var = .center then 2 else 6))
    (t : StR Spec.State) (hreach : ReachR specBoard var color k (initR size r0) t)
    (g : GameRec) (p : Pos) (o : CheckOracle) (f' : Option (Variant × Rule)) (a : Action)
    (hcol : g.color = color) (hview : viewOfPos p = viewOf t.cur) (hmv : p.toMove = t.cur.toMove)
    (hrec : recPairs g = t.hist)
    (r : Rule) (h : Glue.friendlyGetMove (some (var, r)) g p o = .ok (f', a))
    (ans : Move) (hsearch : a.searches = true → (Spec.step t.cur (Spec.decode ans)).isSome = true) :
    a.returned ans = zeroMove ∨ (Spec.step t.cur (Spec.decode (a.returned ans))).isSome = true := by
  have hH : Holds var color size (if var = .center then 2 else 6) := by
    cases var with
    | center => exact fpa_centre size hs color hc
    | doubleStack => exact fpa_doubleStack size hs color hc
    | cairn => exact fpa_cairn size hs color hc
  exact friendly_move_legal_record var color size _ hH r0 k hk t hreach g p o f' a hcol hview hmv hrec r h ans hsearch

/-- the hypotheses are satisfiable: the start of a centre game on 5×5, bot White, the rule value holding the squares of
another game: the record has no pair yet, the game's history is empty -/
example : ∃ p0, Pos.new (friendlyConfig true 5) = .ok p0 ∧
    ReachR specBoard .center .white 0 (initR 5 { whitePlaceX := 4 }) (initR 5 { whitePlaceX := 4 }) ∧
    recPairs { color := .white, size := 5, positions := [p0], moves := [] } = (initR 5 { whitePlaceX := 4 }).hist := by
  obtain ⟨p0, hp⟩ : ∃ p0, Pos.new (friendlyConfig true 5) = .ok p0 := ⟨_, rfl⟩
  exact ⟨p0, hp, .refl _, rfl⟩

/-- a record with two pairs: `recPairs` lists them oldest first (views of the positions they were played in) -/
example (p0 p1 p2 : Pos) (m0 m1 : Move) :
    recPairs { color := .white, size := 5, positions := [p2, p1, p0], moves := [m1, m0] } =
      [(viewOfPos p0, m0), (viewOfPos p1, m1)] := by
  unfold recPairs olderPairs prevOf
  simp

end C20
