import TakVerif.Props.C05_gen3
import TakVerif.Proofs.SearchFrames

/-! `next_iterate_statement` of `Props/C05_gen3.lean` PROVED (work package "gen7"): the regenerated `moveGenerator.Next` (`ai/moves.go`,
`Generated/FuncsMoveIter.lean`) driven from `Reset` is the model's `iterate` (`Impl/MoveGen.lean`) for every loop body.

* `genLoop_0 … genLoop_3`: one round of the regenerated loop entered at `i = 0..3` in the model's vocabulary (a `continue` costs one
  unit of fuel, a `fallthrough` is the next case AT THE SAME FUEL: both sides are unfolded once and compared);
* `spec0 … spec3` / `genLoop_spec0 … 3`: what a whole call entered at `i = 0..3` returns (hint move with child and `i + 1`, or the next
  stage), the whitelist fuel `len(ms) + len(AllMoves) + 6` suffices when `sortMoves` does not lengthen the list;
* `driveNext_list`, `driveStep_spec3 … 0`, `driveNext_at3 … 0`: the induction that threads accumulator and engine state through the loop
  body, stage by stage from the list stage backwards; **`next_iterate`**.
* `next_iterate_unrestricted_false`: the statement without the hypothesis on the ordering oracle is false (kernel-evaluated counterexample). -/

namespace C05
open Search

section hint
variable {P : Type}

/-- what `case 3` does to the list: `AllMoves` when `mg.ms == nil`, then `sortMoves` when `depth > 1 && !NoSort` -/
def msAt3 (g : Game P Gen.Move) (cfg : SOpts) (sortv : Array Gen.Move → Array Gen.Move) (p : P) (mg : MG Gen.Move)
    (ms : Array Gen.Move) (b : Bool) : Array Gen.Move :=
  let ms' := if b then (g.allMoves p).toArray else ms
  if (decide (mg.depth > 1) && !cfg.noSort) then sortv ms' else ms'

/-- a round of the regenerated loop entered at `i = 3` is the round at `i = 4` on the list `case 3` installs (same fuel: fallthrough) -/
theorem genLoop_3 (g : Game P Gen.Move) (cfg : SOpts) (sortv) (p : P) (mg : MG Gen.Move)
    (s : Eng Gen.Move) (n : Nat) (ms : Array Gen.Move) (b : Bool) (r : Gen.Move) :
    genLoop g cfg sortv p mg s (n + 1) ((3 : Int), ms, b, r) =
      genLoop g cfg sortv p mg s (n + 1) ((4 : Int) + (0 : Nat), msAt3 g cfg sortv p mg ms b, (if b then false else b), r) := by
  unfold genLoop
  conv => lhs; rw [Gen.moveGeneratorNext_loop0]
  conv => rhs; rw [Gen.moveGeneratorNext_loop0]
  have h0 : ((3 : Int) == 0) = false := by decide
  have h1 : ((3 : Int) == 1) = false := by decide
  have h2 : ((3 : Int) == 2) = false := by decide
  have h3 : ((3 : Int) == 3) = true := by decide
  have k0 : ((4 : Int) + (0 : Nat) == 0) = false := by decide
  have k1 : ((4 : Int) + (0 : Nat) == 1) = false := by decide
  have k2 : ((4 : Int) + (0 : Nat) == 2) = false := by decide
  have k3 : ((4 : Int) + (0 : Nat) == 3) = false := by decide
  simp only [h0, h1, h2, h3, k0, k1, k2, k3, Bool.false_eq_true, if_false, if_true]
  unfold msAt3
  cases b <;> cases (decide (mg.depth > 1) && !cfg.noSort) <;> simp

theorem mapGet_respGet (l : List (Gen.Move × Gen.Move)) (k : Gen.Move) : Gen.mapGet l k = respGet l k := by
  induction l with
  | nil => rfl
  | cons x xs ih => obtain ⟨a, b⟩ := x; simp only [Gen.mapGet, respGet, ih]

/-- a round entered at `i = 2` (`case 2`, the response hint) -/
theorem genLoop_2 (g : Game P Gen.Move) (cfg : SOpts) (sortv) (p : P) (mg : MG Gen.Move)
    (s : Eng Gen.Move) (hply : mg.ply < 15) (n : Nat) (ms : Array Gen.Move) (b : Bool) (r : Gen.Move) :
    genLoop g cfg sortv p mg s (n + 1) ((2 : Int), ms, b, r) =
      if mg.ply = 0 then genLoop g cfg sortv p mg s n ((3 : Int), ms, b, r)
      else match respGet s.response (s.stackM.getD (mg.ply - 1) default) with
        | some r' =>
          (match g.apply p r' with
           | .ok c => some (.error (r', some c, ((3 : Int), ms, b, r')))
           | .error _ => genLoop g cfg sortv p mg s n ((3 : Int), ms, b, r'))
        | none => genLoop g cfg sortv p mg s (n + 1) ((3 : Int), ms, b, default) := by
  unfold genLoop
  conv => lhs; rw [Gen.moveGeneratorNext_loop0]
  have h0 : ((2 : Int) == 0) = false := by decide
  have h1 : ((2 : Int) == 1) = false := by decide
  have h2 : ((2 : Int) == 2) = true := by decide
  simp only [h0, h1, h2, Bool.false_eq_true, if_false, if_true]
  by_cases hp : mg.ply = 0
  · have e : ((mg.ply : Int) == 0) = true := by simp [hp]
    simp only [e, if_true, if_pos hp]; rfl
  · have e : ((mg.ply : Int) == 0) = false := by simp; omega
    have gd : (!(decide ((0 : Int) ≤ (mg.ply : Int) - 1) && decide ((mg.ply : Int) - 1 < 15))) = false := by simp; omega
    have plyg : (!(decide (0 ≤ (mg.ply : Int)) && decide ((mg.ply : Int) < 15))) = false := by simp; omega
    have tn : ((mg.ply : Int) - 1).toNat = mg.ply - 1 := by omega
    simp only [e, gd, plyg, tn, if_neg hp, Bool.false_eq_true, if_false, mapGet_respGet]
    cases hr : respGet s.response (s.stackM.getD (mg.ply - 1) default) with
    | some r' =>
      simp only [Option.isSome_some, if_true, Option.getD_some]
      unfold applyOracle
      cases g.apply p r' <;> simp <;> rfl
    | none =>
      simp only [Option.isSome_none, Bool.false_eq_true, if_false, Option.getD_none]
      conv => rhs; rw [Gen.moveGeneratorNext_loop0]
      have k0 : ((3 : Int) == 0) = false := by decide
      have k1 : ((3 : Int) == 1) = false := by decide
      have k2 : ((3 : Int) == 2) = false := by decide
      have k3 : ((3 : Int) == 3) = true := by decide
      simp only [k0, k1, k2, k3, plyg, Bool.false_eq_true, if_false, if_true, Int.reduceAdd, Int.reduceSub]

theorem isTe_gen (g : Game P Gen.Move) (hEq : g.moveEq = Gen.moveEqual) (mg : MG Gen.Move) (m : Gen.Move) :
    ((!mg.te.isNone) && Gen.moveEqual m ((mg.te.map (·.m)).getD default)) = mg.isTe g m := by
  unfold MG.isTe; cases mg.te <;> simp [hEq]

/-- a round entered at `i = 1` (`case 1`, the PV hint) -/
theorem genLoop_1 (g : Game P Gen.Move) (hEq : g.moveEq = Gen.moveEqual) (cfg : SOpts) (sortv) (p : P) (mg : MG Gen.Move)
    (s : Eng Gen.Move) (hply : mg.ply < 15) (n : Nat) (ms : Array Gen.Move) (b : Bool) (r : Gen.Move) :
    genLoop g cfg sortv p mg s (n + 1) ((1 : Int), ms, b, r) =
      match mg.pv with
      | m :: _ =>
        if mg.isTe g m then genLoop g cfg sortv p mg s n ((2 : Int), ms, b, r)
        else (match g.apply p m with
          | .ok c => some (.error (m, some c, ((2 : Int), ms, b, r)))
          | .error _ => genLoop g cfg sortv p mg s n ((2 : Int), ms, b, r))
      | [] => genLoop g cfg sortv p mg s (n + 1) ((2 : Int), ms, b, r) := by
  unfold genLoop
  conv => lhs; rw [Gen.moveGeneratorNext_loop0]
  have h0 : ((1 : Int) == 0) = false := by decide
  have h1 : ((1 : Int) == 1) = true := by decide
  have plyg : (!(decide (0 ≤ (mg.ply : Int)) && decide ((mg.ply : Int) < 15))) = false := by simp; omega
  have teg : (!mg.te.isNone && mg.te.isNone) = false := by cases mg.te.isNone <;> rfl
  simp only [h0, h1, Bool.false_eq_true, if_false, if_true]
  cases hpv : mg.pv with
  | cons m rest =>
    have c1 : decide (Int.ofNat (m :: rest).toArray.size > 0) = true := by simp
    have c2 : (!decide (0 < (m :: rest).toArray.size)) = false := by simp
    have gd : (m :: rest).toArray.getD 0 default = m := by simp
    simp only [c1, c2, gd, teg, plyg, isTe_gen g hEq, Bool.false_eq_true, if_false, if_true, Int.reduceAdd]
    cases mg.isTe g m
    · simp only [Bool.false_eq_true, if_false]
      unfold applyOracle
      cases g.apply p m <;> simp
    · simp only [if_true]
  | nil =>
    have c1 : decide (Int.ofNat ([] : List Gen.Move).toArray.size > 0) = false := by simp
    simp only [c1, Bool.false_eq_true, if_false]
    conv => rhs; rw [Gen.moveGeneratorNext_loop0]
    have k0 : ((2 : Int) == 0) = false := by decide
    have k1 : ((2 : Int) == 1) = false := by decide
    have k2 : ((2 : Int) == 2) = true := by decide
    simp only [k0, k1, k2, plyg, Bool.false_eq_true, if_false, if_true, Int.reduceAdd, Int.reduceSub]

/-- a round entered at `i = 0` (`case 0`, the table move) -/
theorem genLoop_0 (g : Game P Gen.Move) (cfg : SOpts) (sortv) (p : P) (mg : MG Gen.Move)
    (s : Eng Gen.Move) (hply : mg.ply < 15) (n : Nat) (ms : Array Gen.Move) (b : Bool) (r : Gen.Move) :
    genLoop g cfg sortv p mg s (n + 1) ((0 : Int), ms, b, r) =
      match mg.te with
      | some e =>
        (match g.apply p e.m with
          | .ok c => some (.error (e.m, some c, ((1 : Int), ms, b, r)))
          | .error _ => genLoop g cfg sortv p mg s n ((1 : Int), ms, b, r))
      | none => genLoop g cfg sortv p mg s (n + 1) ((1 : Int), ms, b, r) := by
  unfold genLoop
  conv => lhs; rw [Gen.moveGeneratorNext_loop0]
  have h0 : ((0 : Int) == 0) = true := by decide
  have plyg : (!(decide (0 ≤ (mg.ply : Int)) && decide ((mg.ply : Int) < 15))) = false := by simp; omega
  simp only [h0, if_true]
  cases hte : mg.te with
  | some e =>
    simp only [Option.isNone_some, Bool.not_false, if_true, Bool.false_eq_true, if_false, plyg, Option.map_some, Option.getD_some,
      Int.reduceAdd]
    unfold applyOracle
    cases g.apply p e.m <;> simp
  | none =>
    simp only [Option.isNone_none, Bool.not_true, Bool.false_eq_true, if_false]
    conv => rhs; rw [Gen.moveGeneratorNext_loop0]
    have k0 : ((1 : Int) == 0) = false := by decide
    have k1 : ((1 : Int) == 1) = true := by decide
    simp only [k0, k1, plyg, Bool.false_eq_true, if_false, if_true, Int.reduceAdd, Int.reduceSub, Bool.not_true,
      Bool.false_and, Option.map_none, Option.getD_none]

/-- the result type of the regenerated `Next`: move, child, generator state `(i, ms, ms == nil, r)` -/
abbrev NRes (P : Type) := Gen.Move × Option P × Int × Array Gen.Move × Bool × Gen.Move

/-- what a call of `Next` in the list stage returns (`next_list_is_source`) -/
def listRes (g : Game P Gen.Move) (p : P) (mg : MG Gen.Move) (r : Gen.Move) (ms : Array Gen.Move) (b : Bool) (j : Nat) : NRes P :=
  ((scan g p mg r ms (ms.size - j + 1) j).1, (scan g p mg r ms (ms.size - j + 1) j).2.1,
    (5 : Int) + (scan g p mg r ms (ms.size - j + 1) j).2.2, ms, b, r)

/-- a call entered at `i = 3`: install the list, scan it from index 0 -/
def spec3 (g : Game P Gen.Move) (cfg : SOpts) (sortv : Array Gen.Move → Array Gen.Move) (p : P) (mg : MG Gen.Move)
    (ms : Array Gen.Move) (b : Bool) (r : Gen.Move) : NRes P :=
  listRes g p mg r (msAt3 g cfg sortv p mg ms b) (if b then false else b) 0

/-- a call entered at `i = 2`: the response hint if there is one and the position accepts it, else stage 3 -/
def spec2 (g : Game P Gen.Move) (cfg : SOpts) (sortv : Array Gen.Move → Array Gen.Move) (p : P) (mg : MG Gen.Move) (s : Eng Gen.Move)
    (ms : Array Gen.Move) (b : Bool) (r : Gen.Move) : NRes P :=
  if mg.ply = 0 then spec3 g cfg sortv p mg ms b r
  else match respGet s.response (s.stackM.getD (mg.ply - 1) default) with
    | some r' =>
      (match g.apply p r' with
       | .ok c => (r', some c, (3 : Int), ms, b, r')
       | .error _ => spec3 g cfg sortv p mg ms b r')
    | none => spec3 g cfg sortv p mg ms b default

/-- a call entered at `i = 1`: the PV hint unless it is the table move or rejected, else stage 2 -/
def spec1 (g : Game P Gen.Move) (cfg : SOpts) (sortv : Array Gen.Move → Array Gen.Move) (p : P) (mg : MG Gen.Move) (s : Eng Gen.Move)
    (ms : Array Gen.Move) (b : Bool) (r : Gen.Move) : NRes P :=
  match mg.pv with
  | m :: _ =>
    if mg.isTe g m then spec2 g cfg sortv p mg s ms b r
    else (match g.apply p m with
      | .ok c => (m, some c, (2 : Int), ms, b, r)
      | .error _ => spec2 g cfg sortv p mg s ms b r)
  | [] => spec2 g cfg sortv p mg s ms b r

/-- a call entered at `i = 0`: the table move if there is one and the position accepts it, else stage 1 -/
def spec0 (g : Game P Gen.Move) (cfg : SOpts) (sortv : Array Gen.Move → Array Gen.Move) (p : P) (mg : MG Gen.Move) (s : Eng Gen.Move)
    (ms : Array Gen.Move) (b : Bool) (r : Gen.Move) : NRes P :=
  match mg.te with
  | some e =>
    (match g.apply p e.m with
      | .ok c => (e.m, some c, (1 : Int), ms, b, r)
      | .error _ => spec1 g cfg sortv p mg s ms b r)
  | none => spec1 g cfg sortv p mg s ms b r

theorem genLoop_spec3 (g : Game P Gen.Move) (hEq : g.moveEq = Gen.moveEqual) (cfg : SOpts) (sortv) (p : P) (mg : MG Gen.Move)
    (s : Eng Gen.Move) (hply : mg.ply < 15) (n : Nat) (ms : Array Gen.Move) (b : Bool) (r : Gen.Move)
    (hn : (msAt3 g cfg sortv p mg ms b).size < n) :
    genLoop g cfg sortv p mg s n ((3 : Int), ms, b, r) = some (.error (spec3 g cfg sortv p mg ms b r)) := by
  obtain ⟨n', rfl⟩ : ∃ n', n = n' + 1 := ⟨n - 1, by omega⟩
  rw [genLoop_3, genLoop_scan g hEq cfg sortv p mg s hply _ _ r _ 0 (n' + 1) rfl (by omega)]
  rfl

theorem genLoop_spec2 (g : Game P Gen.Move) (hEq : g.moveEq = Gen.moveEqual) (cfg : SOpts) (sortv) (p : P) (mg : MG Gen.Move)
    (s : Eng Gen.Move) (hply : mg.ply < 15) (n : Nat) (ms : Array Gen.Move) (b : Bool) (r : Gen.Move)
    (hn : (msAt3 g cfg sortv p mg ms b).size + 1 < n) :
    genLoop g cfg sortv p mg s n ((2 : Int), ms, b, r) = some (.error (spec2 g cfg sortv p mg s ms b r)) := by
  obtain ⟨n', rfl⟩ : ∃ n', n = n' + 1 := ⟨n - 1, by omega⟩
  rw [genLoop_2 g cfg sortv p mg s hply, spec2]
  have A := fun r => genLoop_spec3 g hEq cfg sortv p mg s hply n' ms b r (by omega)
  have B := fun r => genLoop_spec3 g hEq cfg sortv p mg s hply (n' + 1) ms b r (by omega)
  by_cases hp : mg.ply = 0
  · simp only [if_pos hp, A]
  · simp only [if_neg hp]
    cases respGet s.response (s.stackM.getD (mg.ply - 1) default) with
    | some r' => simp only [A]; cases g.apply p r' <;> rfl
    | none => simp only [B]

theorem genLoop_spec1 (g : Game P Gen.Move) (hEq : g.moveEq = Gen.moveEqual) (cfg : SOpts) (sortv) (p : P) (mg : MG Gen.Move)
    (s : Eng Gen.Move) (hply : mg.ply < 15) (n : Nat) (ms : Array Gen.Move) (b : Bool) (r : Gen.Move)
    (hn : (msAt3 g cfg sortv p mg ms b).size + 2 < n) :
    genLoop g cfg sortv p mg s n ((1 : Int), ms, b, r) = some (.error (spec1 g cfg sortv p mg s ms b r)) := by
  obtain ⟨n', rfl⟩ : ∃ n', n = n' + 1 := ⟨n - 1, by omega⟩
  rw [genLoop_1 g hEq cfg sortv p mg s hply, spec1]
  have A := fun r => genLoop_spec2 g hEq cfg sortv p mg s hply n' ms b r (by omega)
  have B := fun r => genLoop_spec2 g hEq cfg sortv p mg s hply (n' + 1) ms b r (by omega)
  cases mg.pv with
  | cons m rest =>
    simp only
    cases mg.isTe g m
    · simp only [Bool.false_eq_true, if_false]
      simp only [A]; cases g.apply p m <;> rfl
    · simp only [if_true, A]
  | nil => simp only [B]

theorem genLoop_spec0 (g : Game P Gen.Move) (hEq : g.moveEq = Gen.moveEqual) (cfg : SOpts) (sortv) (p : P) (mg : MG Gen.Move)
    (s : Eng Gen.Move) (hply : mg.ply < 15) (n : Nat) (ms : Array Gen.Move) (b : Bool) (r : Gen.Move)
    (hn : (msAt3 g cfg sortv p mg ms b).size + 3 < n) :
    genLoop g cfg sortv p mg s n ((0 : Int), ms, b, r) = some (.error (spec0 g cfg sortv p mg s ms b r)) := by
  obtain ⟨n', rfl⟩ : ∃ n', n = n' + 1 := ⟨n - 1, by omega⟩
  rw [genLoop_0 g cfg sortv p mg s hply, spec0]
  have A := fun r => genLoop_spec1 g hEq cfg sortv p mg s hply n' ms b r (by omega)
  have B := fun r => genLoop_spec1 g hEq cfg sortv p mg s hply (n' + 1) ms b r (by omega)
  cases mg.te with
  | some e => simp only [A]; cases g.apply p e.m <;> rfl
  | none => simp only [B]

end hint

section drive
variable {P σ ρ : Type}

/-- the `sortMoves` oracle of a call made in engine state `s` -/
def sortvOf (o : Oracle Gen.Move) (s : Eng Gen.Move) : Array Gen.Move → Array Gen.Move :=
  fun ms => (o.order s.sorts ms.toList).toArray

/-- what `driveNext` does with the result of a `Next` call (`low`: the call was entered at `i ≤ 3`) -/
def driveStep (g : Game P Gen.Move) (cfg : SOpts) (o : Oracle Gen.Move) (p : P) (mg : MG Gen.Move)
    (body : Gen.Move → P → σ → Eng Gen.Move → Except Tak.Err (Ctl σ ρ × Eng Gen.Move))
    (n : Nat) (res : NRes P) (low : Bool) (a : σ) (s : Eng Gen.Move) : Except Tak.Err (Ctl σ ρ × Eng Gen.Move) :=
  let s' := if low && res.2.2.1 ≥ 5 && mg.depth > 1 && !cfg.noSort then { s with sorts := s.sorts + 1 } else s
  match res.2.1 with
  | none => .ok (.next a, s')
  | some c =>
    match body res.1 c a s' with
    | .ok (.next a', s'') => driveNext g cfg o p mg body n res.2.2 a' s''
    | other => other

theorem driveNext_succ (g : Game P Gen.Move) (cfg : SOpts) (o : Oracle Gen.Move) (p : P) (mg : MG Gen.Move)
    (body : Gen.Move → P → σ → Eng Gen.Move → Except Tak.Err (Ctl σ ρ × Eng Gen.Move))
    (n : Nat) (st : Int × Array Gen.Move × Bool × Gen.Move) (a : σ) (s : Eng Gen.Move) :
    driveNext g cfg o p mg body (n + 1) st a s =
      match Gen.moveGeneratorNext cfg.noSort s.response s.stackM mg.depth st.1 st.2.1 st.2.2.1 (g.allMoves p).toArray false (applyOracle g p)
        (mg.ply : Int) mg.pv.toArray st.2.2.2 (sortvOf o s) mg.te.isNone ((mg.te.map (·.m)).getD default) with
      | none => .error (.panic "moveGenerator.Next")
      | some res => driveStep g cfg o p mg body n res (decide (st.1 ≤ 3)) a s := by
  rw [driveNext]
  unfold sortvOf
  generalize Gen.moveGeneratorNext cfg.noSort s.response s.stackM mg.depth st.1 st.2.1 st.2.2.1 (g.allMoves p).toArray false
    (applyOracle g p) (mg.ply : Int) mg.pv.toArray st.2.2.2 (fun ms => (o.order s.sorts ms.toList).toArray) mg.te.isNone
    ((mg.te.map (·.m)).getD default) = x
  rcases x with _ | ⟨m, child, st'⟩ <;> rfl

theorem scan_some (g : Game P Gen.Move) (p : P) (mg : MG Gen.Move) (r : Gen.Move) (ms : Array Gen.Move) :
    ∀ (n j : Nat) (m : Gen.Move) (c : P) (k : Nat), scan g p mg r ms n j = (m, some c, k) → j ≤ k ∧ k < ms.size := by
  intro n
  induction n with
  | zero => intro j m c k h; simp [scan] at h
  | succ n ih =>
    intro j m c k h
    rw [scan] at h
    by_cases hj : j < ms.size
    · rw [dif_pos hj] at h
      cases hs : skipGen g mg r ms[j]
      · rw [hs] at h
        simp only [Bool.false_eq_true, if_false] at h
        cases ha : g.apply p ms[j] with
        | ok c' =>
          rw [ha] at h
          simp only [Prod.mk.injEq] at h
          omega
        | error e =>
          rw [ha] at h
          have := ih _ _ _ _ h
          omega
      · rw [hs] at h
        simp only [if_true] at h
        have := ih _ _ _ _ h
        omega
    · rw [dif_neg hj] at h
      simp at h

/-- the list stage: driving the regenerated `Next` from index `j` is the model's `runList` on the rest of the list -/
theorem driveNext_list (g : Game P Gen.Move) (hEq : g.moveEq = Gen.moveEqual) (cfg : SOpts) (o : Oracle Gen.Move) (p : P) (mg : MG Gen.Move)
    (body : Gen.Move → P → σ → Eng Gen.Move → Except Tak.Err (Ctl σ ρ × Eng Gen.Move)) (hply : mg.ply < 15)
    (hNoPanic : ∀ m e, g.apply p m = .error e → ∃ t, e = .illegal t) (ms : Array Gen.Move) (b : Bool) (r : Gen.Move) :
    ∀ (d j N : Nat) (a : σ) (s : Eng Gen.Move), ms.size - j = d → d < N →
      driveNext g cfg o p mg body N ((4 : Int) + j, ms, b, r) a s = runList g p body (skipGen g mg r) (ms.toList.drop j) a s := by
  intro d
  induction d using Nat.strongRecOn with
  | _ d ih =>
    intro j N a s hd hN
    obtain ⟨N', rfl⟩ : ∃ N', N = N' + 1 := ⟨N - 1, by omega⟩
    rw [driveNext_succ]
    dsimp only
    rw [next_list_is_source g hEq cfg (sortvOf o s) p mg s hply ms b r j, hd,
      scan_runList g p mg r ms body hNoPanic a s d j hd]
    rcases ht : scan g p mg r ms (d + 1) j with ⟨m, oc, k⟩
    have low : decide ((4 : Int) + j ≤ 3) = false := by simp; omega
    simp only [driveStep, low, Bool.false_and, Bool.false_eq_true, if_false]
    cases oc with
    | none => rfl
    | some c =>
      obtain ⟨h1, h2⟩ := scan_some g p mg r ms _ _ _ _ _ ht
      have e : (5 : Int) + k = 4 + ((k + 1 : Nat) : Int) := by omega
      simp only [Ctl.andThen]
      rcases hb : body m c a s with er | ⟨ctl, s''⟩
      · rfl
      · cases ctl with
        | next a' => simp only; rw [e]; exact ih (ms.size - (k + 1)) (by omega) (k + 1) N' a' s'' rfl (by omega)
        | brk a' => rfl
        | ret x => rfl

/-- `case 3` + the list stage in the model's vocabulary (`stage3` with the remembered response move `r`) -/
def stage3R (g : Game P Gen.Move) (cfg : SOpts) (o : Oracle Gen.Move) (p : P) (mg : MG Gen.Move)
    (body : Gen.Move → P → σ → Eng Gen.Move → Except Tak.Err (Ctl σ ρ × Eng Gen.Move)) (r : Gen.Move) (a : σ) (s : Eng Gen.Move) :
    Except Tak.Err (Ctl σ ρ × Eng Gen.Move) :=
  runList g p body (skipGen g mg r) (msAt3 g cfg (sortvOf o s) p mg #[] true).toList a
    (if (decide (mg.depth > 1) && !cfg.noSort) then { s with sorts := s.sorts + 1 } else s)

theorem stage3_eq_stage3R (g : Game P Gen.Move) (cfg : SOpts) (o : Oracle Gen.Move) (p : P) (mg : MG Gen.Move)
    (body : Gen.Move → P → σ → Eng Gen.Move → Except Tak.Err (Ctl σ ρ × Eng Gen.Move)) (r? : Option Gen.Move) (a : σ) (s : Eng Gen.Move) :
    stage3 g cfg o p mg body r? a s = stage3R g cfg o p mg body (r?.getD g.zeroMove) a s := by
  unfold stage3 stage3R msAt3 sortvOf
  cases (decide (mg.depth > 1) && !cfg.noSort) <;> simp

theorem driveStep_spec3 (g : Game P Gen.Move) (hEq : g.moveEq = Gen.moveEqual) (cfg : SOpts) (o : Oracle Gen.Move) (p : P) (mg : MG Gen.Move)
    (body : Gen.Move → P → σ → Eng Gen.Move → Except Tak.Err (Ctl σ ρ × Eng Gen.Move)) (hply : mg.ply < 15)
    (hNoPanic : ∀ m e, g.apply p m = .error e → ∃ t, e = .illegal t) (r : Gen.Move) (N : Nat) (a : σ) (s : Eng Gen.Move)
    (ms : Array Gen.Move) (b : Bool) (hms : msAt3 g cfg (sortvOf o s) p mg ms b = msAt3 g cfg (sortvOf o s) p mg #[] true)
    (hN : (msAt3 g cfg (sortvOf o s) p mg #[] true).size ≤ N) :
    driveStep g cfg o p mg body N (spec3 g cfg (sortvOf o s) p mg ms b r) true a s = stage3R g cfg o p mg body r a s := by
  unfold stage3R spec3 listRes
  rw [hms]
  generalize hL : msAt3 g cfg (sortvOf o s) p mg #[] true = L at hN
  generalize hs3 : (if (decide (mg.depth > 1) && !cfg.noSort) then { s with sorts := s.sorts + 1 } else s) = s3
  have e0 : L.toList = L.toList.drop 0 := rfl
  rw [e0, scan_runList g p mg r L body hNoPanic a s3 L.size 0 rfl]
  simp only [Nat.sub_zero]
  rcases ht : scan g p mg r L (L.size + 1) 0 with ⟨m, oc, k⟩
  have ge : decide ((5 : Int) + (k : Int) ≥ 5) = true := by simp; omega
  simp only [driveStep, ge, Bool.true_and, hs3]
  cases oc with
  | none => rfl
  | some c =>
    obtain ⟨h1, h2⟩ := scan_some g p mg r L _ _ _ _ _ ht
    have e : (5 : Int) + k = 4 + ((k + 1 : Nat) : Int) := by omega
    simp only [Ctl.andThen]
    rcases hb : body m c a s3 with er | ⟨ctl, s''⟩
    · rfl
    · cases ctl with
      | next a' =>
        simp only; rw [e]
        exact driveNext_list g hEq cfg o p mg body hply hNoPanic L _ r (L.size - (k + 1)) (k + 1) N a' s'' rfl (by omega)
      | brk a' => rfl
      | ret x => rfl

theorem next_of_genLoop (g : Game P Gen.Move) (cfg : SOpts) (sortv) (p : P) (mg : MG Gen.Move) (s : Eng Gen.Move)
    (i : Int) (ms : Array Gen.Move) (b : Bool) (r : Gen.Move) (res : NRes P)
    (h : genLoop g cfg sortv p mg s (ms.size + (g.allMoves p).toArray.size + 6) (i, ms, b, r) = some (.error res)) :
    Gen.moveGeneratorNext cfg.noSort s.response s.stackM mg.depth i ms b (g.allMoves p).toArray false (applyOracle g p)
      (mg.ply : Int) mg.pv.toArray r sortv mg.te.isNone ((mg.te.map (·.m)).getD default) = some res := by
  unfold Gen.moveGeneratorNext
  unfold genLoop at h
  simp only [h]

theorem msAt3_size (g : Game P Gen.Move) (cfg : SOpts) (o : Oracle Gen.Move) (p : P) (mg : MG Gen.Move) (s : Eng Gen.Move)
    (hord : ∀ k l, (o.order k l).length ≤ l.length) :
    (msAt3 g cfg (sortvOf o s) p mg #[] true).size ≤ (g.allMoves p).length := by
  unfold msAt3 sortvOf
  cases (decide (mg.depth > 1) && !cfg.noSort)
  · simp
  · have := hord s.sorts (g.allMoves p)
    simpa using this

theorem getA_getD {α : Type} [Inhabited α] (a : Array α) (i : Nat) (site : String) (h : i < a.size) :
    getA a i site = .ok (a.getD i default) := by
  unfold getA
  simp [h]

section stages
variable (g : Game P Gen.Move) (hEq : g.moveEq = Gen.moveEqual) (hzero : g.zeroMove = default) (cfg : SOpts) (o : Oracle Gen.Move)
  (p : P) (mg : MG Gen.Move) (body : Gen.Move → P → σ → Eng Gen.Move → Except Tak.Err (Ctl σ ρ × Eng Gen.Move))
  (hply : mg.ply < 15) (hNoPanic : ∀ m e, g.apply p m = .error e → ∃ t, e = .illegal t)
  (hord : ∀ k l, (o.order k l).length ≤ l.length)
  (hbody : ∀ m c a s x, s.stackM.size = 15 → body m c a s = .ok x → x.2.stackM.size = 15)
  (ms : Array Gen.Move) (b : Bool) (hms : ∀ sortv, msAt3 g cfg sortv p mg ms b = msAt3 g cfg sortv p mg #[] true)
  (r0 : Gen.Move) (hr0 : mg.ply = 0 → r0 = default)
include hEq hply hNoPanic hord hms

theorem driveNext_at3 (r : Gen.Move) (N : Nat) (a : σ) (s : Eng Gen.Move) (hN : (g.allMoves p).length + 1 ≤ N) :
    driveNext g cfg o p mg body N ((3 : Int), ms, b, r) a s = stage3R g cfg o p mg body r a s := by
  obtain ⟨N', rfl⟩ : ∃ N', N = N' + 1 := ⟨N - 1, by omega⟩
  have hL := msAt3_size g cfg o p mg s hord
  rw [← hms] at hL
  rw [driveNext_succ]
  dsimp only
  rw [next_of_genLoop g cfg (sortvOf o s) p mg s 3 ms b r _
    (genLoop_spec3 g hEq cfg (sortvOf o s) p mg s hply _ ms b r (by simp; omega))]
  exact driveStep_spec3 g hEq cfg o p mg body hply hNoPanic r N' a s ms b (hms _) (by rw [← hms]; omega)

include hzero hr0

theorem driveStep_spec2 (N : Nat) (a : σ) (s : Eng Gen.Move) (hN : (g.allMoves p).length + 1 ≤ N) (hst : s.stackM.size = 15) :
    driveStep g cfg o p mg body N (spec2 g cfg (sortvOf o s) p mg s ms b r0) true a s = stage23 g cfg o p mg body a s := by
  have hL := msAt3_size g cfg o p mg s hord
  rw [← hms] at hL
  have h3 := fun r => driveStep_spec3 g hEq cfg o p mg body hply hNoPanic r N a s ms b (hms _) (by rw [← hms]; omega)
  unfold spec2 stage23 respLookup
  by_cases hp : mg.ply = 0
  · have e : (mg.ply == 0) = true := by simp [hp]
    simp only [if_pos hp, e, if_true, h3, Ctl.andThen, stage3_eq_stage3R, Option.getD_none, hzero, hr0 hp]
  · have e : (mg.ply == 0) = false := by simp [hp]
    simp only [if_neg hp, e, Bool.false_eq_true, if_false, getA_getD s.stackM (mg.ply - 1) _ (by omega)]
    cases respGet s.response (s.stackM.getD (mg.ply - 1) default) with
    | none => simp only [h3, Ctl.andThen, stage3_eq_stage3R, Option.getD_none, hzero]
    | some r' =>
      simp only [tryMove]
      cases ha : g.apply p r' with
      | error er =>
        obtain ⟨t, rfl⟩ := hNoPanic _ _ ha
        simp only [h3, Ctl.andThen, stage3_eq_stage3R, Option.getD_some]
      | ok c =>
        have ge : decide ((3 : Int) ≥ 5) = false := by decide
        simp only [driveStep, ge, Bool.and_false, Bool.false_and, Bool.false_eq_true, if_false, Ctl.andThen]
        rcases hb : body r' c a s with er | ⟨ctl, s''⟩
        · rfl
        · cases ctl with
          | next a' =>
            simp only [stage3_eq_stage3R, Option.getD_some]
            exact driveNext_at3 g hEq cfg o p mg body hply hNoPanic hord ms b hms r' N a' s'' hN
          | brk a' => rfl
          | ret x => rfl

theorem driveNext_at2 (N : Nat) (a : σ) (s : Eng Gen.Move) (hN : (g.allMoves p).length + 2 ≤ N) (hst : s.stackM.size = 15) :
    driveNext g cfg o p mg body N ((2 : Int), ms, b, r0) a s = stage23 g cfg o p mg body a s := by
  obtain ⟨N', rfl⟩ : ∃ N', N = N' + 1 := ⟨N - 1, by omega⟩
  have hL := msAt3_size g cfg o p mg s hord
  rw [← hms] at hL
  rw [driveNext_succ]
  dsimp only
  rw [next_of_genLoop g cfg (sortvOf o s) p mg s 2 ms b r0 _
    (genLoop_spec2 g hEq cfg (sortvOf o s) p mg s hply _ ms b r0 (by simp; omega))]
  exact driveStep_spec2 g hEq hzero cfg o p mg body hply hNoPanic hord ms b hms r0 hr0 N' a s (by omega) hst

include hbody

theorem driveStep_spec1 (N : Nat) (a : σ) (s : Eng Gen.Move) (hN : (g.allMoves p).length + 2 ≤ N) (hst : s.stackM.size = 15) :
    driveStep g cfg o p mg body N (spec1 g cfg (sortvOf o s) p mg s ms b r0) true a s =
      Ctl.andThen (stage1 g p mg body a s) (stage23 g cfg o p mg body) := by
  have h2 := driveStep_spec2 g hEq hzero cfg o p mg body hply hNoPanic hord ms b hms r0 hr0 N a s (by omega) hst
  unfold spec1 stage1
  cases mg.pv with
  | nil => simp only [h2, Ctl.andThen]
  | cons m rest =>
    simp only
    cases mg.isTe g m
    · simp only [Bool.false_eq_true, if_false, tryMove]
      cases ha : g.apply p m with
      | error er =>
        obtain ⟨t, rfl⟩ := hNoPanic _ _ ha
        simp only [h2, Ctl.andThen]
      | ok c =>
        have ge : decide ((2 : Int) ≥ 5) = false := by decide
        simp only [driveStep, ge, Bool.and_false, Bool.false_and, Bool.false_eq_true, if_false, Ctl.andThen]
        rcases hb : body m c a s with er | ⟨ctl, s''⟩
        · rfl
        · cases ctl with
          | next a' =>
            simp only
            exact driveNext_at2 g hEq hzero cfg o p mg body hply hNoPanic hord ms b hms r0 hr0 N a' s'' hN (hbody _ _ _ _ _ hst hb)
          | brk a' => rfl
          | ret x => rfl
    · simp only [if_true, h2, Ctl.andThen]

theorem driveNext_at1 (N : Nat) (a : σ) (s : Eng Gen.Move) (hN : (g.allMoves p).length + 3 ≤ N) (hst : s.stackM.size = 15) :
    driveNext g cfg o p mg body N ((1 : Int), ms, b, r0) a s =
      Ctl.andThen (stage1 g p mg body a s) (stage23 g cfg o p mg body) := by
  obtain ⟨N', rfl⟩ : ∃ N', N = N' + 1 := ⟨N - 1, by omega⟩
  have hL := msAt3_size g cfg o p mg s hord
  rw [← hms] at hL
  rw [driveNext_succ]
  dsimp only
  rw [next_of_genLoop g cfg (sortvOf o s) p mg s 1 ms b r0 _
    (genLoop_spec1 g hEq cfg (sortvOf o s) p mg s hply _ ms b r0 (by simp; omega))]
  exact driveStep_spec1 g hEq hzero cfg o p mg body hply hNoPanic hord hbody ms b hms r0 hr0 N' a s (by omega) hst

theorem driveStep_spec0 (N : Nat) (a : σ) (s : Eng Gen.Move) (hN : (g.allMoves p).length + 3 ≤ N) (hst : s.stackM.size = 15) :
    driveStep g cfg o p mg body N (spec0 g cfg (sortvOf o s) p mg s ms b r0) true a s =
      Ctl.andThen (stage0 g p mg body a s) (fun a s => Ctl.andThen (stage1 g p mg body a s) (stage23 g cfg o p mg body)) := by
  have h1 := driveStep_spec1 g hEq hzero cfg o p mg body hply hNoPanic hord hbody ms b hms r0 hr0 N a s (by omega) hst
  unfold spec0 stage0
  cases mg.te with
  | none => simp only [h1, Ctl.andThen]
  | some e =>
    simp only [tryMove]
    cases ha : g.apply p e.m with
    | error er =>
      obtain ⟨t, rfl⟩ := hNoPanic _ _ ha
      simp only [h1, Ctl.andThen]
    | ok c =>
      have ge : decide ((1 : Int) ≥ 5) = false := by decide
      simp only [driveStep, ge, Bool.and_false, Bool.false_and, Bool.false_eq_true, if_false, Ctl.andThen]
      rcases hb : body e.m c a s with er | ⟨ctl, s''⟩
      · rfl
      · cases ctl with
        | next a' =>
          simp only
          exact driveNext_at1 g hEq hzero cfg o p mg body hply hNoPanic hord hbody ms b hms r0 hr0 N a' s'' hN (hbody _ _ _ _ _ hst hb)
        | brk a' => rfl
        | ret x => rfl

theorem driveNext_at0 (N : Nat) (a : σ) (s : Eng Gen.Move) (hN : (g.allMoves p).length + 4 ≤ N) (hst : s.stackM.size = 15) :
    driveNext g cfg o p mg body N ((0 : Int), ms, b, r0) a s = iterate g cfg o p mg body a s := by
  obtain ⟨N', rfl⟩ : ∃ N', N = N' + 1 := ⟨N - 1, by omega⟩
  have hL := msAt3_size g cfg o p mg s hord
  rw [← hms] at hL
  rw [driveNext_succ]
  dsimp only
  rw [next_of_genLoop g cfg (sortvOf o s) p mg s 0 ms b r0 _
    (genLoop_spec0 g hEq cfg (sortvOf o s) p mg s hply _ ms b r0 (by simp; omega))]
  refine (driveStep_spec0 g hEq hzero cfg o p mg body hply hNoPanic hord hbody ms b hms r0 hr0 N' a s (by omega) hst).trans ?_
  unfold iterate
  cases stage0 g p mg body a s with
  | error e => rfl
  | ok x => obtain ⟨ctl, s'⟩ := x; cases ctl <;> rfl

end stages

end drive

section top
variable {P : Type}

/-- **the regenerated `moveGenerator.Next`, driven from `Reset`, is the model's `iterate`** - for every game on the regenerated `Move`
whose `moveEq` is the regenerated `Move.Equal`, every option set, oracle that does not lengthen lists, position, generator literal
(`te`, `pv`, `ply < 15`, `depth`), loop body that keeps the 15 frames, accumulator and engine state with 15 frames: calling the
regenerated `Next` again and again (`len(AllMoves) + 5` calls suffice; every call reads the engine state the body left) and running the
body on every `(move, child)` it yields, until it yields `nil` or the body breaks / returns, gives exactly what `iterate` gives: same
control outcome, same accumulator, same engine state (incl. the `sorts` counter), same error.  In particular `Next` never panics and
never runs out of its whitelist fuel on these inputs.  So the move enumeration of `pvSearch` / `zwSearch` / `AnalyzeAll` in
`Impl/Minimax.lean` (all through `iterate`) is tied to `ai/moves.go` by proof. -/
theorem next_iterate : next_iterate_statement (P := P) := by
  intro σ ρ g cfg o p mg body a s hEq hzero hply hst hNoPanic hord hbody
  exact driveNext_at0 g hEq hzero cfg o p mg body hply hNoPanic hord hbody #[] true (fun _ => rfl) default (fun _ => rfl) _ a s (by omega) hst

/-- **the second enumeration** (`mg.Reset()` after the multi-cut loop of `zwSearch` sets `i = 0` only; `mg.ms` and `mg.r` are what the
first enumeration left): driving the regenerated `Next` from such a state is again the model's `iterate` (which re-reads `AllMoves`),
whenever `case 3` installs the list the model uses - the cache is still nil, or nothing is sorted (`depth ≤ 1` or `NoSort`) and the
cache holds `AllMoves` (this is exactly the approximation `Impl/MoveGen.lean` declares) - and the remembered response move is the
zero move at ply 0 (elsewhere `case 2` reassigns it before it is read). -/
theorem next_iterate_restart {σ ρ : Type} (g : Game P Gen.Move) (cfg : SOpts) (o : Oracle Gen.Move) (p : P) (mg : MG Gen.Move)
    (body : Gen.Move → P → σ → Eng Gen.Move → Except Tak.Err (Ctl σ ρ × Eng Gen.Move)) (a : σ) (s : Eng Gen.Move)
    (hEq : g.moveEq = Gen.moveEqual) (hzero : g.zeroMove = default) (hply : mg.ply < 15) (hst : s.stackM.size = 15)
    (hNoPanic : ∀ m e, g.apply p m = .error e → ∃ t, e = .illegal t) (hord : ∀ k l, (o.order k l).length ≤ l.length)
    (hbody : ∀ m c a s x, s.stackM.size = 15 → body m c a s = .ok x → x.2.stackM.size = 15)
    (ms : Array Gen.Move) (b : Bool) (r0 : Gen.Move)
    (hms : b = true ∨ ((decide (mg.depth > 1) && !cfg.noSort) = false ∧ b = false ∧ ms = (g.allMoves p).toArray))
    (hr0 : mg.ply = 0 → r0 = default) :
    driveNext g cfg o p mg body ((g.allMoves p).length + 5) (0, ms, b, r0) a s = iterate g cfg o p mg body a s := by
  refine driveNext_at0 g hEq hzero cfg o p mg body hply hNoPanic hord hbody ms b ?_ r0 hr0 _ a s (by omega) hst
  intro sortv
  rcases hms with rfl | ⟨h1, rfl, rfl⟩
  · rfl
  · unfold msAt3
    simp [h1]

/-- a one-move game on `Nat` "positions" (every move accepted, the position unchanged) -/
def toyGame : Game Nat Gen.Move :=
  { over := fun _ => false, eval := fun _ => 0, apply := fun p _ => .ok p
    allMoves := fun _ => [{ X := 1, Y := 0, Type_ := 2#8, Slides := 0#32 }], hash := fun _ => 0#64, moveEq := Gen.moveEqual
    zeroMove := default, passMove := default, isPass := fun _ => false, nullOK := fun _ => false
    reduceSlide := fun _ _ => .ok false, moveNumber := fun _ => 0, symHashes := fun _ => [] }

def toyEng : Eng Gen.Move :=
  { hasTable := false, table := #[], response := [], pv0 := #[], stackM := Array.replicate 15 default }

/-- count the loop iterations -/
def toyBody : Gen.Move → Nat → Nat → Eng Gen.Move → Except Tak.Err (Ctl Nat Unit × Eng Gen.Move) :=
  fun _ _ a s => .ok (.next (a + 1), s)

def toyCount (r : Except Tak.Err (Ctl Nat Unit × Eng Gen.Move)) : Option (Nat × Nat) :=
  match r with
  | .ok (.next a, s) => some (a, s.sorts)
  | _ => none

/-- a concrete instance of `next_iterate` (table move = the one generated move: yielded once, skipped in the list; sorting on) -/
example : toyCount (driveNext toyGame {} Oracle.quiet 0 ⟨0, 2, some ⟨0#64, 0, { X := 1, Y := 0, Type_ := 2#8, Slides := 0#32 }, 0, 0⟩, []⟩
    toyBody 6 (0, #[], true, default) 0 toyEng) = some (1, 1) := by
  have e := next_iterate Nat Unit toyGame {} Oracle.quiet 0
    ⟨0, 2, some ⟨0#64, 0, { X := 1, Y := 0, Type_ := 2#8, Slides := 0#32 }, 0, 0⟩, []⟩ toyBody 0 toyEng rfl rfl (by decide) (by decide)
    (by intro m e h; cases h) (by intro k l; exact Nat.le_refl _) (by intro m c a s x h hb; cases hb; exact h)
  exact (congrArg toyCount e).trans (by decide)

/-- a concrete instance of `next_iterate_restart`: ply 1, `NoSort`, the cache holds `AllMoves`, a stale remembered move -/
example : toyCount (driveNext toyGame { noSort := true } Oracle.quiet 0 ⟨1, 2, none, []⟩ toyBody 6
    (0, #[{ X := 1, Y := 0, Type_ := 2#8, Slides := 0#32 }], false, { X := 2, Y := 2, Type_ := 2#8, Slides := 0#32 }) 0 toyEng) = some (1, 0) := by
  have e := next_iterate_restart toyGame { noSort := true } Oracle.quiet 0 ⟨1, 2, none, []⟩ toyBody 0 toyEng rfl rfl (by decide) (by decide)
    (by intro m e h; cases h) (by intro k l; exact Nat.le_refl _) (by intro m c a s x h hb; cases hb; exact h)
    #[{ X := 1, Y := 0, Type_ := 2#8, Slides := 0#32 }] false { X := 2, Y := 2, Type_ := 2#8, Slides := 0#32 }
    (Or.inr ⟨by decide, rfl, rfl⟩) (by decide)
  exact (congrArg toyCount e).trans (by decide)

/-- **why `hord` is needed**: with an ordering oracle that lengthens the list (7 copies), `len(AllMoves) + 5 = 6` calls of `Next` end in
"out of calls" while `iterate` runs the body 7 times - the statement without the hypothesis is false. -/
theorem next_iterate_unrestricted_false : ¬ next_iterate_unrestricted (P := Nat) := by
  intro h
  have := h Nat Unit toyGame {} ⟨fun _ _ => false, fun _ l => l ++ l ++ l ++ l ++ l ++ l ++ l, fun _ _ => 0⟩ 0 ⟨0, 2, none, []⟩
    toyBody 0 toyEng rfl rfl (by decide) (by decide) (by intro m e h; cases h)
  have h2 := congrArg toyCount this
  revert h2
  decide

end top

section searchBodies
variable {P : Type}

/-- `hbody` of `next_iterate` from the frame lemma of `Proofs/SearchFrames.lean` -/
theorem hbody_of_frBody {σ ρ : Type} {body : Gen.Move → P → σ → Eng Gen.Move → Except Tak.Err (Ctl σ ρ × Eng Gen.Move)}
    (h : FrBody 15 body) : ∀ m c a s x, s.stackM.size = 15 → body m c a s = .ok x → x.2.stackM.size = 15 :=
  fun m c a s x hs hb => h m c a s hs x hb

variable (g : Game P Gen.Move) (cfg : SOpts) (o : Oracle Gen.Move) (p : P) (mg : MG Gen.Move) (s : Eng Gen.Move)
  (hEq : g.moveEq = Gen.moveEqual) (hzero : g.zeroMove = default) (hply : mg.ply < 15) (hst : s.stackM.size = 15)
  (hNoPanic : ∀ m e, g.apply p m = .error e → ∃ t, e = .illegal t) (hord : ∀ k l, (o.order k l).length ≤ l.length)
include hEq hzero hply hst hNoPanic hord

/-- **the child loop of `zwSearch`** (`Impl/Minimax.lean` `zwNode`: `iterate … (zwBody …)`) **is the loop over the regenerated `Next`** -
no hypothesis on the body is left: the recursive search (`search … k`, any number of frames, any options / oracle of its own) keeps the
15 frames (`Search.search_fr`). -/
theorem next_iterate_zwSearch (cfg' : SOpts) (o' o'' : Oracle Gen.Move) (k ply : Nat) (depth α : Int) (cut : Bool) (a : ZwAcc Gen.Move) :
    driveNext g cfg o p mg (zwBody o'' (search g cfg' o' k).2 ply depth α cut) ((g.allMoves p).length + 5) (0, #[], true, default) a s =
      iterate g cfg o p mg (zwBody o'' (search g cfg' o' k).2 ply depth α cut) a s :=
  next_iterate _ _ g cfg o p mg _ a s hEq hzero hply hst hNoPanic hord
    (hbody_of_frBody (zwBody_fr o'' (search_fr g cfg' o' 15 k).2 ply depth α cut))

/-- the multi-cut loop of `zwSearch` (`iterate … (mcBody …)`) -/
theorem next_iterate_multiCut (cfg' : SOpts) (o' : Oracle Gen.Move) (k ply : Nat) (depth α : Int) (cut : Bool) (a : McAcc Gen.Move) :
    driveNext g cfg o p mg (mcBody (search g cfg' o' k).2 ply depth α cut) ((g.allMoves p).length + 5) (0, #[], true, default) a s =
      iterate g cfg o p mg (mcBody (search g cfg' o' k).2 ply depth α cut) a s :=
  next_iterate _ _ g cfg o p mg _ a s hEq hzero hply hst hNoPanic hord
    (hbody_of_frBody (mcBody_fr (search_fr g cfg' o' 15 k).2 ply depth α cut))

/-- the child loop of `pvSearch` (`iterate … (pvBody …)`) -/
theorem next_iterate_pvSearch (cfg' : SOpts) (o' o'' : Oracle Gen.Move) (k ply : Nat) (depth β : Int) (dedup : Bool) (a : PvAcc Gen.Move) :
    driveNext g cfg o p mg (pvBody g o'' (search g cfg' o' k).1 (search g cfg' o' k).2 ply depth β dedup) ((g.allMoves p).length + 5)
        (0, #[], true, default) a s =
      iterate g cfg o p mg (pvBody g o'' (search g cfg' o' k).1 (search g cfg' o' k).2 ply depth β dedup) a s :=
  next_iterate _ _ g cfg o p mg _ a s hEq hzero hply hst hNoPanic hord
    (hbody_of_frBody (pvBody_fr g o'' (search_fr g cfg' o' 15 k).1 (search_fr g cfg' o' 15 k).2 ply depth β dedup))

/-- the root loops of `AnalyzeAll` and of `GetMove`'s randomised choice (`iterate … (aaBody …)`, `iterate … (gmBody …)`) -/
theorem next_iterate_analyzeAll (cfg' : SOpts) (o' : Oracle Gen.Move) (depth : Int) (pv0 : Gen.Move) (rest : List Gen.Move) (v : Int)
    (a : List (List Gen.Move)) :
    driveNext g cfg o p mg (aaBody g cfg' o' depth pv0 rest v) ((g.allMoves p).length + 5) (0, #[], true, default) a s =
      iterate g cfg o p mg (aaBody g cfg' o' depth pv0 rest v) a s :=
  next_iterate _ _ g cfg o p mg _ a s hEq hzero hply hst hNoPanic hord (hbody_of_frBody (aaBody_fr g cfg' o' depth pv0 rest v))

theorem next_iterate_getMove (cfg' : Cfg) (o' : Oracle Gen.Move) (depth : Int) (rest : List Gen.Move) (v base : Int) (a : GmAcc Gen.Move) :
    driveNext g cfg o p mg (gmBody g cfg' o' depth rest v base) ((g.allMoves p).length + 5) (0, #[], true, default) a s =
      iterate g cfg o p mg (gmBody g cfg' o' depth rest v base) a s :=
  next_iterate _ _ g cfg o p mg _ a s hEq hzero hply hst hNoPanic hord (hbody_of_frBody (gmBody_fr g cfg' o' depth rest v base))

end searchBodies

/-- a concrete instance of `next_iterate_zwSearch` (the hypotheses are satisfiable: the toy game, a fresh engine, the quiet oracle) -/
example (a : ZwAcc Gen.Move) :
    driveNext toyGame {} Oracle.quiet 0 ⟨1, 2, none, []⟩ (zwBody Oracle.quiet (search toyGame {} Oracle.quiet 3).2 1 2 0 false) 6
        (0, #[], true, default) a toyEng =
      iterate toyGame {} Oracle.quiet 0 ⟨1, 2, none, []⟩ (zwBody Oracle.quiet (search toyGame {} Oracle.quiet 3).2 1 2 0 false) a toyEng :=
  next_iterate_zwSearch toyGame {} Oracle.quiet 0 ⟨1, 2, none, []⟩ toyEng rfl rfl (by decide) (by decide) (by intro m e h; cases h)
    (by intro k l; exact Nat.le_refl _) {} Oracle.quiet Oracle.quiet 3 1 2 0 false a


end C05
