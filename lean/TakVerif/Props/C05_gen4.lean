import TakVerif.Props.C05_gen3

namespace C05
open Search

section hint
variable {P : Type}

/-- what `case 3` does to the list: `AllMoves` when `mg.ms == nil`, then `sortMoves` when `depth > 1 && !NoSort` -/
def msAt3 (g : Game P Gen.Move) (cfg : SOpts) (sortv : Array Gen.Move → Array Gen.Move) (p : P) (mg : MG Gen.Move)
    (ms : Array Gen.Move) (b : Bool) : Array Gen.Move :=
  let ms' := if b then (g.allMoves p).toArray else ms
  if (decide (mg.depth > 1) && !cfg.noSort) then sortv ms' else ms'

/-- a round of the regenerated loop entered at `i = 3` is the round at `i = 4` on the list `case 3` installs (same fuel: fallthrough) -/
theorem genLoop_3 (g : Game P Gen.Move) (cfg : SOpts) (sortv) (p : P) (mg : MG Gen.Move)
    (s : Eng Gen.Move) (n : Nat) (ms : Array Gen.Move) (b : Bool) (r : Gen.Move) :
    genLoop g cfg sortv p mg s (n + 1) ((3 : Int), ms, b, r) =
      genLoop g cfg sortv p mg s (n + 1) ((4 : Int) + (0 : Nat), msAt3 g cfg sortv p mg ms b, (if b then false else b), r) := by
  unfold genLoop
  conv => lhs; rw [Gen.moveGeneratorNext_loop0]
  conv => rhs; rw [Gen.moveGeneratorNext_loop0]
  have h0 : ((3 : Int) == 0) = false := by decide
  have h1 : ((3 : Int) == 1) = false := by decide
  have h2 : ((3 : Int) == 2) = false := by decide
  have h3 : ((3 : Int) == 3) = true := by decide
  have k0 : ((4 : Int) + (0 : Nat) == 0) = false := by decide
  have k1 : ((4 : Int) + (0 : Nat) == 1) = false := by decide
  have k2 : ((4 : Int) + (0 : Nat) == 2) = false := by decide
  have k3 : ((4 : Int) + (0 : Nat) == 3) = false := by decide
  simp only [h0, h1, h2, h3, k0, k1, k2, k3, Bool.false_eq_true, if_false, if_true]
  unfold msAt3
  cases b <;> cases (decide (mg.depth > 1) && !cfg.noSort) <;> simp

theorem mapGet_respGet (l : List (Gen.Move × Gen.Move)) (k : Gen.Move) : Gen.mapGet l k = respGet l k := by
  induction l with
  | nil => rfl
  | cons x xs ih => obtain ⟨a, b⟩ := x; simp only [Gen.mapGet, respGet, ih]

/-- a round entered at `i = 2` (`case 2`, the response hint) -/
theorem genLoop_2 (g : Game P Gen.Move) (cfg : SOpts) (sortv) (p : P) (mg : MG Gen.Move)
    (s : Eng Gen.Move) (hply : mg.ply < 15) (n : Nat) (ms : Array Gen.Move) (b : Bool) (r : Gen.Move) :
    genLoop g cfg sortv p mg s (n + 1) ((2 : Int), ms, b, r) =
      if mg.ply = 0 then genLoop g cfg sortv p mg s n ((3 : Int), ms, b, r)
      else match respGet s.response (s.stackM.getD (mg.ply - 1) default) with
        | some r' =>
          (match g.apply p r' with
           | .ok c => some (.error (r', some c, ((3 : Int), ms, b, r')))
           | .error _ => genLoop g cfg sortv p mg s n ((3 : Int), ms, b, r'))
        | none => genLoop g cfg sortv p mg s (n + 1) ((3 : Int), ms, b, default) := by
  unfold genLoop
  conv => lhs; rw [Gen.moveGeneratorNext_loop0]
  have h0 : ((2 : Int) == 0) = false := by decide
  have h1 : ((2 : Int) == 1) = false := by decide
  have h2 : ((2 : Int) == 2) = true := by decide
  simp only [h0, h1, h2, Bool.false_eq_true, if_false, if_true]
  by_cases hp : mg.ply = 0
  · have e : ((mg.ply : Int) == 0) = true := by simp [hp]
    simp only [e, if_true, if_pos hp]; rfl
  · have e : ((mg.ply : Int) == 0) = false := by simp; omega
    have gd : (!(decide ((0 : Int) ≤ (mg.ply : Int) - 1) && decide ((mg.ply : Int) - 1 < 15))) = false := by simp; omega
    have plyg : (!(decide (0 ≤ (mg.ply : Int)) && decide ((mg.ply : Int) < 15))) = false := by simp; omega
    have tn : ((mg.ply : Int) - 1).toNat = mg.ply - 1 := by omega
    simp only [e, gd, plyg, tn, if_neg hp, Bool.false_eq_true, if_false, mapGet_respGet]
    cases hr : respGet s.response (s.stackM.getD (mg.ply - 1) default) with
    | some r' =>
      simp only [Option.isSome_some, if_true, Option.getD_some]
      unfold applyOracle
      cases g.apply p r' <;> simp <;> rfl
    | none =>
      simp only [Option.isSome_none, Bool.false_eq_true, if_false, Option.getD_none]
      conv => rhs; rw [Gen.moveGeneratorNext_loop0]
      have k0 : ((3 : Int) == 0) = false := by decide
      have k1 : ((3 : Int) == 1) = false := by decide
      have k2 : ((3 : Int) == 2) = false := by decide
      have k3 : ((3 : Int) == 3) = true := by decide
      simp only [k0, k1, k2, k3, plyg, Bool.false_eq_true, if_false, if_true, Int.reduceAdd, Int.reduceSub]

theorem isTe_gen (g : Game P Gen.Move) (hEq : g.moveEq = Gen.moveEqual) (mg : MG Gen.Move) (m : Gen.Move) :
    ((!mg.te.isNone) && Gen.moveEqual m ((mg.te.map (·.m)).getD default)) = mg.isTe g m := by
  unfold MG.isTe; cases mg.te <;> simp [hEq]

/-- a round entered at `i = 1` (`case 1`, the PV hint) -/
theorem genLoop_1 (g : Game P Gen.Move) (hEq : g.moveEq = Gen.moveEqual) (cfg : SOpts) (sortv) (p : P) (mg : MG Gen.Move)
    (s : Eng Gen.Move) (hply : mg.ply < 15) (n : Nat) (ms : Array Gen.Move) (b : Bool) (r : Gen.Move) :
    genLoop g cfg sortv p mg s (n + 1) ((1 : Int), ms, b, r) =
      match mg.pv with
      | m :: _ =>
        if mg.isTe g m then genLoop g cfg sortv p mg s n ((2 : Int), ms, b, r)
        else (match g.apply p m with
          | .ok c => some (.error (m, some c, ((2 : Int), ms, b, r)))
          | .error _ => genLoop g cfg sortv p mg s n ((2 : Int), ms, b, r))
      | [] => genLoop g cfg sortv p mg s (n + 1) ((2 : Int), ms, b, r) := by
  unfold genLoop
  conv => lhs; rw [Gen.moveGeneratorNext_loop0]
  have h0 : ((1 : Int) == 0) = false := by decide
  have h1 : ((1 : Int) == 1) = true := by decide
  have plyg : (!(decide (0 ≤ (mg.ply : Int)) && decide ((mg.ply : Int) < 15))) = false := by simp; omega
  have teg : (!mg.te.isNone && mg.te.isNone) = false := by cases mg.te.isNone <;> rfl
  simp only [h0, h1, Bool.false_eq_true, if_false, if_true]
  cases hpv : mg.pv with
  | cons m rest =>
    have c1 : decide (Int.ofNat (m :: rest).toArray.size > 0) = true := by simp
    have c2 : (!decide (0 < (m :: rest).toArray.size)) = false := by simp
    have gd : (m :: rest).toArray.getD 0 default = m := by simp
    simp only [c1, c2, gd, teg, plyg, isTe_gen g hEq, Bool.false_eq_true, if_false, if_true, Int.reduceAdd]
    cases mg.isTe g m
    · simp only [Bool.false_eq_true, if_false]
      unfold applyOracle
      cases g.apply p m <;> simp
    · simp only [if_true]
  | nil =>
    have c1 : decide (Int.ofNat ([] : List Gen.Move).toArray.size > 0) = false := by simp
    simp only [c1, Bool.false_eq_true, if_false]
    conv => rhs; rw [Gen.moveGeneratorNext_loop0]
    have k0 : ((2 : Int) == 0) = false := by decide
    have k1 : ((2 : Int) == 1) = false := by decide
    have k2 : ((2 : Int) == 2) = true := by decide
    simp only [k0, k1, k2, plyg, Bool.false_eq_true, if_false, if_true, Int.reduceAdd, Int.reduceSub]

/-- a round entered at `i = 0` (`case 0`, the table move) -/
theorem genLoop_0 (g : Game P Gen.Move) (cfg : SOpts) (sortv) (p : P) (mg : MG Gen.Move)
    (s : Eng Gen.Move) (hply : mg.ply < 15) (n : Nat) (ms : Array Gen.Move) (b : Bool) (r : Gen.Move) :
    genLoop g cfg sortv p mg s (n + 1) ((0 : Int), ms, b, r) =
      match mg.te with
      | some e =>
        (match g.apply p e.m with
          | .ok c => some (.error (e.m, some c, ((1 : Int), ms, b, r)))
          | .error _ => genLoop g cfg sortv p mg s n ((1 : Int), ms, b, r))
      | none => genLoop g cfg sortv p mg s (n + 1) ((1 : Int), ms, b, r) := by
  unfold genLoop
  conv => lhs; rw [Gen.moveGeneratorNext_loop0]
  have h0 : ((0 : Int) == 0) = true := by decide
  have plyg : (!(decide (0 ≤ (mg.ply : Int)) && decide ((mg.ply : Int) < 15))) = false := by simp; omega
  simp only [h0, if_true]
  cases hte : mg.te with
  | some e =>
    simp only [Option.isNone_some, Bool.not_false, if_true, Bool.false_eq_true, if_false, plyg, Option.map_some, Option.getD_some,
      Int.reduceAdd]
    unfold applyOracle
    cases g.apply p e.m <;> simp
  | none =>
    simp only [Option.isNone_none, Bool.not_true, Bool.false_eq_true, if_false]
    conv => rhs; rw [Gen.moveGeneratorNext_loop0]
    have k0 : ((1 : Int) == 0) = false := by decide
    have k1 : ((1 : Int) == 1) = true := by decide
    simp only [k0, k1, plyg, Bool.false_eq_true, if_false, if_true, Int.reduceAdd, Int.reduceSub, Bool.not_true,
      Bool.false_and, Option.map_none, Option.getD_none]

/-- the result type of the regenerated `Next`: move, child, generator state `(i, ms, ms == nil, r)` -/
abbrev NRes (P : Type) := Gen.Move × Option P × Int × Array Gen.Move × Bool × Gen.Move

/-- what a call of `Next` in the list stage returns (`next_list_is_source`) -/
def listRes (g : Game P Gen.Move) (p : P) (mg : MG Gen.Move) (r : Gen.Move) (ms : Array Gen.Move) (b : Bool) (j : Nat) : NRes P :=
  ((scan g p mg r ms (ms.size - j + 1) j).1, (scan g p mg r ms (ms.size - j + 1) j).2.1,
    (5 : Int) + (scan g p mg r ms (ms.size - j + 1) j).2.2, ms, b, r)

/-- a call entered at `i = 3`: install the list, scan it from index 0 -/
def spec3 (g : Game P Gen.Move) (cfg : SOpts) (sortv : Array Gen.Move → Array Gen.Move) (p : P) (mg : MG Gen.Move)
    (ms : Array Gen.Move) (b : Bool) (r : Gen.Move) : NRes P :=
  listRes g p mg r (msAt3 g cfg sortv p mg ms b) (if b then false else b) 0

/-- a call entered at `i = 2`: the response hint if there is one and the position accepts it, else stage 3 -/
def spec2 (g : Game P Gen.Move) (cfg : SOpts) (sortv : Array Gen.Move → Array Gen.Move) (p : P) (mg : MG Gen.Move) (s : Eng Gen.Move)
    (ms : Array Gen.Move) (b : Bool) (r : Gen.Move) : NRes P :=
  if mg.ply = 0 then spec3 g cfg sortv p mg ms b r
  else match respGet s.response (s.stackM.getD (mg.ply - 1) default) with
    | some r' =>
      (match g.apply p r' with
       | .ok c => (r', some c, (3 : Int), ms, b, r')
       | .error _ => spec3 g cfg sortv p mg ms b r')
    | none => spec3 g cfg sortv p mg ms b default

/-- a call entered at `i = 1`: the PV hint unless it is the table move or rejected, else stage 2 -/
def spec1 (g : Game P Gen.Move) (cfg : SOpts) (sortv : Array Gen.Move → Array Gen.Move) (p : P) (mg : MG Gen.Move) (s : Eng Gen.Move)
    (ms : Array Gen.Move) (b : Bool) (r : Gen.Move) : NRes P :=
  match mg.pv with
  | m :: _ =>
    if mg.isTe g m then spec2 g cfg sortv p mg s ms b r
    else (match g.apply p m with
      | .ok c => (m, some c, (2 : Int), ms, b, r)
      | .error _ => spec2 g cfg sortv p mg s ms b r)
  | [] => spec2 g cfg sortv p mg s ms b r

/-- a call entered at `i = 0`: the table move if there is one and the position accepts it, else stage 1 -/
def spec0 (g : Game P Gen.Move) (cfg : SOpts) (sortv : Array Gen.Move → Array Gen.Move) (p : P) (mg : MG Gen.Move) (s : Eng Gen.Move)
    (ms : Array Gen.Move) (b : Bool) (r : Gen.Move) : NRes P :=
  match mg.te with
  | some e =>
    (match g.apply p e.m with
      | .ok c => (e.m, some c, (1 : Int), ms, b, r)
      | .error _ => spec1 g cfg sortv p mg s ms b r)
  | none => spec1 g cfg sortv p mg s ms b r

theorem genLoop_spec3 (g : Game P Gen.Move) (hEq : g.moveEq = Gen.moveEqual) (cfg : SOpts) (sortv) (p : P) (mg : MG Gen.Move)
    (s : Eng Gen.Move) (hply : mg.ply < 15) (n : Nat) (ms : Array Gen.Move) (b : Bool) (r : Gen.Move)
    (hn : (msAt3 g cfg sortv p mg ms b).size < n) :
    genLoop g cfg sortv p mg s n ((3 : Int), ms, b, r) = some (.error (spec3 g cfg sortv p mg ms b r)) := by
  obtain ⟨n', rfl⟩ : ∃ n', n = n' + 1 := ⟨n - 1, by omega⟩
  rw [genLoop_3, genLoop_scan g hEq cfg sortv p mg s hply _ _ r _ 0 (n' + 1) rfl (by omega)]
  rfl

theorem genLoop_spec2 (g : Game P Gen.Move) (hEq : g.moveEq = Gen.moveEqual) (cfg : SOpts) (sortv) (p : P) (mg : MG Gen.Move)
    (s : Eng Gen.Move) (hply : mg.ply < 15) (n : Nat) (ms : Array Gen.Move) (b : Bool) (r : Gen.Move)
    (hn : (msAt3 g cfg sortv p mg ms b).size + 1 < n) :
    genLoop g cfg sortv p mg s n ((2 : Int), ms, b, r) = some (.error (spec2 g cfg sortv p mg s ms b r)) := by
  obtain ⟨n', rfl⟩ : ∃ n', n = n' + 1 := ⟨n - 1, by omega⟩
  rw [genLoop_2 g cfg sortv p mg s hply, spec2]
  have A := fun r => genLoop_spec3 g hEq cfg sortv p mg s hply n' ms b r (by omega)
  have B := fun r => genLoop_spec3 g hEq cfg sortv p mg s hply (n' + 1) ms b r (by omega)
  by_cases hp : mg.ply = 0
  · simp only [if_pos hp, A]
  · simp only [if_neg hp]
    cases respGet s.response (s.stackM.getD (mg.ply - 1) default) with
    | some r' => simp only [A]; cases g.apply p r' <;> rfl
    | none => simp only [B]

theorem genLoop_spec1 (g : Game P Gen.Move) (hEq : g.moveEq = Gen.moveEqual) (cfg : SOpts) (sortv) (p : P) (mg : MG Gen.Move)
    (s : Eng Gen.Move) (hply : mg.ply < 15) (n : Nat) (ms : Array Gen.Move) (b : Bool) (r : Gen.Move)
    (hn : (msAt3 g cfg sortv p mg ms b).size + 2 < n) :
    genLoop g cfg sortv p mg s n ((1 : Int), ms, b, r) = some (.error (spec1 g cfg sortv p mg s ms b r)) := by
  obtain ⟨n', rfl⟩ : ∃ n', n = n' + 1 := ⟨n - 1, by omega⟩
  rw [genLoop_1 g hEq cfg sortv p mg s hply, spec1]
  have A := fun r => genLoop_spec2 g hEq cfg sortv p mg s hply n' ms b r (by omega)
  have B := fun r => genLoop_spec2 g hEq cfg sortv p mg s hply (n' + 1) ms b r (by omega)
  cases mg.pv with
  | cons m rest =>
    simp only
    cases mg.isTe g m
    · simp only [Bool.false_eq_true, if_false]
      simp only [A]; cases g.apply p m <;> rfl
    · simp only [if_true, A]
  | nil => simp only [B]

theorem genLoop_spec0 (g : Game P Gen.Move) (hEq : g.moveEq = Gen.moveEqual) (cfg : SOpts) (sortv) (p : P) (mg : MG Gen.Move)
    (s : Eng Gen.Move) (hply : mg.ply < 15) (n : Nat) (ms : Array Gen.Move) (b : Bool) (r : Gen.Move)
    (hn : (msAt3 g cfg sortv p mg ms b).size + 3 < n) :
    genLoop g cfg sortv p mg s n ((0 : Int), ms, b, r) = some (.error (spec0 g cfg sortv p mg s ms b r)) := by
  obtain ⟨n', rfl⟩ : ∃ n', n = n' + 1 := ⟨n - 1, by omega⟩
  rw [genLoop_0 g cfg sortv p mg s hply, spec0]
  have A := fun r => genLoop_spec1 g hEq cfg sortv p mg s hply n' ms b r (by omega)
  have B := fun r => genLoop_spec1 g hEq cfg sortv p mg s hply (n' + 1) ms b r (by omega)
  cases mg.te with
  | some e => simp only [A]; cases g.apply p e.m <;> rfl
  | none => simp only [B]

end hint
end C05
