import TakVerif.Props.C17
import TakVerif.Props.C17_legal
import TakVerif.Props.C04_pv
import TakVerif.Props.C01

/-! # C17: the `bestmove` of a TEI engine whose thinker is the alpha-beta model

`tei_one_bestmove` (`Props/C17.lean`) assumes `SearcherOK env`: for *every* index, position and budget the searcher
oracle answers with a non-empty PV whose head is legal.  `C17.SearcherLegal` / `SearcherGenerated` add "not the pass,
no junk `Slides` word" / "a member of `AllMoves`".  Those are statements about all `Pos` values and cannot be
instantiated by a searcher that is only known to behave on well-formed positions.  Here:

* `tei_one_bestmove_at` — the same conclusion from the contract **at the one call made** (nothing about other calls);
* `tei_bestmove_legal_minimax` — where that call's answer is what `Search.analyze` on the Tak instance returns from
  the engine state the cached `MinimaxAI` is in, the contract is *derived* (`C04.analyze_pv_head_generated_tak`):
  the `bestmove` names a move that `Position.Move` accepts in the told position, that is literally a member of its
  `AllMoves` — hence a legal shape that `FormatMove` prints parseably (C11) — and the engine state stays `EngOK`,
  so the next `go` on the same engine starts from a state the theorem applies to again.
What remains assumed is about the *position* (well-formed, has a legal move — C01/C04), the evaluator (C18's bound)
and, with a table, the absence of hash collisions among the positions the engine is used on. -/
set_option linter.unusedVariables false
namespace C17
open Tak Tak.TEI Spec.TEI Proofs.TEI Search Notation

/-- **one `bestmove` per `go`, from the contract at this call only**: after a carried-out history that tells `p`, if
the searcher's answer *to this call* has the PV `m :: rest`, `Run` writes the info line of that search and then
`bestmove m` — no hypothesis on what the searcher does anywhere else -/
theorem tei_one_bestmove_at (env : Env) (hC : Collaborators env)
    (pre post : List (List String)) (args : List String) (st : Engine) (p : Pos) (a : GoArgs)
    (hpre : stateAfter env 0 {} pre = some st) (htold : posTold env pre.reverse = some p)
    (hargs : parseGoArgs args {} = some a)
    (m : Move) (rest : List Move) (hpv : (env.search pre.length p (goBudget p a)).pv = m :: rest) :
    ((run env (pre ++ ("go" :: args) :: post)).1[pre.length]?).map (·.out)
      = some [infoLine env (env.search pre.length p (goBudget p a)), "bestmove " ++ env.fmtMove m] := by
  have hA := tei_position_after env pre st hpre
  have hp : st.pos = some p := by rw [hA.2, htold]
  have hI := stateAfter_inv env hC pre 0 {} st (inv_init env) hpre
  have hrec := runFrom_record_at env pre ("go" :: args) post 0 {} st hpre
  have han := analyze_live env pre.length st args p a m rest hI hp hargs hpv
  have hst := step_go env pre.length st args _ han
  simp only [Nat.zero_add] at hrec
  unfold run
  rw [hrec, hst]
  simp [recOf]

/-- **`tei_bestmove_legal_minimax`** (engine without a table).  The searcher's answer to this `go` is the PV of
`Search.analyze` on the Tak instance, run on the told position `p` from the state `s` of the cached engine, under any
options `cfg`, any cancel oracle (the deadline), any move order; `s` holds hints of known origin only (`EngOK …
FromGen`: a new engine, or the state left by earlier `go`s — the conclusion re-establishes it).  Then, unless the
search was cut off before its first iteration completed (`hne`; the engine then writes no `bestmove` at all, fix
C13-tei-go), `Run` writes exactly the info line and `bestmove m` where `m`
* is the head of the PV and is accepted by `Position.Move` in `p` (the C04 contract, derived),
* is literally one of `p.AllMoves` — so it is not the pass and carries no junk `Slides` word: a `LegalShape`, which
  `FormatMove` prints and `ParseMove` reads back (`C11.ptn_short_rt`; cf. `ptn_junk_placement_not_roundtrip`). -/
theorem tei_bestmove_legal_minimax (env : Env) (hC : Collaborators env)
    (pre post : List (List String)) (args : List String) (st : Engine) (p : Pos) (a : GoArgs)
    (hpre : stateAfter env 0 {} pre = some st) (htold : posTold env pre.reverse = some p)
    (hargs : parseGoArgs args {} = some a)
    -- the thinker is the alpha-beta model
    (ev : Pos → Int) (sym : Pos → List H) (cfg : Search.Cfg) (o : Oracle Move) (hord : OrderOK o)
    (s s' : Eng Move) (r : List Move × Int × Stats)
    (hrun : Search.analyze (takGame env.basis ev sym) cfg o p s = .ok (r, s'))
    (hsearch : (env.search pre.length p (goBudget p a)).pv = r.1) (hne : r.1 ≠ [])
    (hnt : s.hasTable = false)
    (hs : EngOK (takGame env.basis ev sym) (C04.FromGen (takGame env.basis ev sym) C04.SizeOK) (fun _ => False) s)
    -- the position (C01, C04) and the evaluator (C18)
    (hwf : WF env.basis p) (hmove : ∃ m ∈ p.allMoves, (p.apply env.basis m).isOk = true)
    (hev : ∀ m c, p.apply env.basis m = .ok c → ev c ≤ Facts.maxEval) :
    ∃ m rest, r.1 = m :: rest ∧ m ∈ p.allMoves ∧ (p.apply env.basis m).isOk = true ∧
      LegalShape p.cfg.size m ∧ m.type ≠ Facts.mtPass ∧ isNormal m = true ∧
      ((run env (pre ++ ("go" :: args) :: post)).1[pre.length]?).map (·.out)
        = some [infoLine env (env.search pre.length p (goBudget p a)), "bestmove " ++ env.fmtMove m] ∧
      EngOK (takGame env.basis ev sym) (C04.FromGen (takGame env.basis ev sym) C04.SizeOK) (fun _ => False) s' := by
  obtain ⟨hs', hhead⟩ := C04.analyze_pv_head_generated_tak env.basis ev sym hord cfg p hwf hmove hev s hnt hs _ hrun
  cases hr : r.1 with
  | nil => exact absurd hr hne
  | cons m rest =>
    obtain ⟨hmem, hok⟩ := hhead m rest hr
    have hshape := Tak.Proofs.allMoves_legalShape' p hwf.size_ge hwf.size_le m hmem
    refine ⟨m, rest, rfl, hmem, hok, hshape, Tak.Proofs.legalShape_not_pass hshape,
      (Tak.Proofs.isNormal_iff m).2 (Tak.Proofs.legalShape_normal hshape), ?_, hs'⟩
    exact tei_one_bestmove_at env hC pre post args st p a hpre htold hargs m rest (by rw [hsearch, hr])

/-- the same for an engine **with a table** used on a set `D` of positions of size 3..8, closed under moves, no two with
the same hash (`C04.TableDom`: the no-collision hypothesis among the positions this engine ever sees) -/
theorem tei_bestmove_legal_minimax_table (env : Env) (hC : Collaborators env)
    (pre post : List (List String)) (args : List String) (st : Engine) (p : Pos) (a : GoArgs)
    (hpre : stateAfter env 0 {} pre = some st) (htold : posTold env pre.reverse = some p)
    (hargs : parseGoArgs args {} = some a)
    (ev : Pos → Int) (sym : Pos → List H) (cfg : Search.Cfg) (o : Oracle Move) (hord : OrderOK o)
    (s s' : Eng Move) (r : List Move × Int × Stats)
    (hrun : Search.analyze (takGame env.basis ev sym) cfg o p s = .ok (r, s'))
    (hsearch : (env.search pre.length p (goBudget p a)).pv = r.1) (hne : r.1 ≠ [])
    {D : Pos → Prop} (hD : C04.TableDom (takGame env.basis ev sym) D) (hsz : ∀ q, D q → C04.SizeOK q) (hp : D p)
    (hs : EngOK (takGame env.basis ev sym) (C04.FromGen (takGame env.basis ev sym) D) D s)
    (hwf : WF env.basis p) (hmove : ∃ m ∈ p.allMoves, (p.apply env.basis m).isOk = true)
    (hev : ∀ m c, p.apply env.basis m = .ok c → ev c ≤ Facts.maxEval) :
    ∃ m rest, r.1 = m :: rest ∧ m ∈ p.allMoves ∧ (p.apply env.basis m).isOk = true ∧
      LegalShape p.cfg.size m ∧ m.type ≠ Facts.mtPass ∧ isNormal m = true ∧
      ((run env (pre ++ ("go" :: args) :: post)).1[pre.length]?).map (·.out)
        = some [infoLine env (env.search pre.length p (goBudget p a)), "bestmove " ++ env.fmtMove m] ∧
      EngOK (takGame env.basis ev sym) (C04.FromGen (takGame env.basis ev sym) D) D s' := by
  obtain ⟨hs', hhead⟩ :=
    C04.analyze_pv_head_generated_tak_table env.basis ev sym hD hsz hord cfg p hp hwf hmove hev s hs _ hrun
  cases hr : r.1 with
  | nil => exact absurd hr hne
  | cons m rest =>
    obtain ⟨hmem, hok⟩ := hhead m rest hr
    have hshape := Tak.Proofs.allMoves_legalShape' p hwf.size_ge hwf.size_le m hmem
    refine ⟨m, rest, rfl, hmem, hok, hshape, Tak.Proofs.legalShape_not_pass hshape,
      (Tak.Proofs.isNormal_iff m).2 (Tak.Proofs.legalShape_normal hshape), ?_, hs'⟩
    exact tei_one_bestmove_at env hC pre post args st p a hpre htold hargs m rest (by rw [hsearch, hr])

/-- the hypothesis `hne` of `tei_bestmove_legal_minimax` holds whenever the search is not cancelled (no deadline hit, no
`stop`): on a live position an uncancelled `Analyze` of depth ≥ 1 returns a non-empty PV — so such a `go` is answered by
**exactly one** `bestmove` line -/
theorem minimax_pv_nonempty (basis : Array W) (ev : Pos → Int) (sym : Pos → List H) (cfg : Search.Cfg)
    (hdepth : 1 ≤ cfg.depth) (o : Oracle Move) (hnc : NoCancel o) (p : Pos) (hlive : p.gameOver.1 = false)
    (s s' : Eng Move) (r : List Move × Int × Stats)
    (hrun : Search.analyze (takGame basis ev sym) cfg o p s = .ok (r, s')) : r.1 ≠ [] :=
  C04.analyze_pv_nonempty (g := takGame basis ev sym) hnc cfg hdepth p hlive s _ hrun

/-! ### non-vacuity: a session with an environment whose searcher *is* the alpha-beta model -/

namespace ExMM
def basis : Array W := Array.replicate 64 0#64
def g : Game Pos Move := takGame basis evalMat
def cfg : Search.Cfg := { depth := 2, opts := { noSort := true } }
/-- every `go` is answered by `Search.analyze` on a new engine (depth 2, material evaluator) -/
def env : Env :=
  { basis := basis
    parseMove := fun _ => .error (.illegal "x")
    parseTPS := fun _ => .error (.illegal "x")
    fmtMove := fun m => s!"{m.x},{m.y}"
    search := fun _ p _ =>
      match analyze g cfg Oracle.quiet p (Eng.new g cfg) with
      | .ok ((pv, v, st), _) => { depth := st.depth, elapsedMs := 0, nodes := st.evaluated, val := v, pv := pv }
      | .error _ => { depth := 0, elapsedMs := 0, nodes := 0, val := 0, pv := [] } }
def pre : List (List String) := [["teinewgame", "3"], ["position", "startpos"]]
end ExMM

/-- the history is carried out and tells the live 3×3 start position; the model's PV there has two moves, the first a
generated and accepted one; `Run` answers `go` with the info line and `bestmove a1` (printed as coordinates) -/
example : (stateAfter ExMM.env 0 {} ExMM.pre).isSome = true ∧
    (posTold ExMM.env ExMM.pre.reverse).map (fun p => (p.gameOver.1, (ExMM.env.search 2 p none).pv.length,
      (ExMM.env.search 2 p none).pv.head?.map (fun m => (decide (m ∈ p.allMoves), (p.apply ExMM.basis m).isOk))))
      = some (false, 2, some (true, true)) ∧
    (run ExMM.env (ExMM.pre ++ [["go"]])).1.map (·.out)
      = [[], [], ["info depth 2 time 0 nodes 25 score cp 0 pv 0,0 0,1", "bestmove 0,0"]] := by
  decide +kernel

/-- … and the told position is well-formed (it is `tak.New`'s), the new engine's state is `EngOK` -/
example (p : Pos) (h : Pos.new { size := 3, pieces := 0, capstones := 0, blackWinsTies := false } = .ok p) :
    WF ExMM.basis p ∧
    EngOK ExMM.g (C04.FromGen ExMM.g C04.SizeOK) (fun _ => False) (Eng.new ExMM.g ExMM.cfg) ∧
    (Eng.new ExMM.g ExMM.cfg).hasTable = false :=
  ⟨C01.new_wf ExMM.basis _ p h, C04.engOK_new_fromGen ExMM.g _ _ ExMM.cfg, rfl⟩

end C17
